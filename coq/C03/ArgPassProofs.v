(* C03, round 3: the three argument-location walkers of ArgPass.v agree on every well-formed parameter list. *)
From Coq Require Import ZArith List Bool Lia ZifyBool.
From MirV Require Import C03.ArgPass.
Import ListNotations.
Local Open Scope Z_scope.
Ltac Zify.zify_post_hook ::= Z.div_mod_to_equations.

(* ---- size arithmetic ---- *)
Lemma size_small : forall size, 1 <= size <= 8 -> qwords size = 1 /\ size8 size = 8.
Proof. intros size H. unfold qwords, size8. split; lia. Qed.

Lemma size_big : forall size, 9 <= size <= 16 -> qwords size = 2 /\ size8 size = 16.
Proof. intros size H. unfold qwords, size8. split; lia. Qed.

Lemma size8_qwords : forall size, size8 size = qwords size * 8.
Proof. reflexivity. Qed.

Lemma size8_div : forall size, size8 size / 8 = qwords size.
Proof. intros size. unfold size8, qwords. lia. Qed.

Lemma save_loc_int : forall n, 0 <= n < 6 -> save_loc (8 * n) = RInt n.
Proof.
  intros n H. unfold save_loc.
  assert (E : (8 * n <? 48) = true) by lia. rewrite E. f_equal. lia.
Qed.

Lemma save_loc_fp : forall n, 0 <= n < 8 -> save_loc (48 + 16 * n) = RFp n.
Proof.
  intros n H. unfold save_loc.
  assert (E : (48 + 16 * n <? 48) = false) by lia. rewrite E. f_equal. lia.
Qed.

Lemma wf_blk_inv : forall cls size, wf_param (PBlk cls size) = true ->
  1 <= size /\ (cls = 1 \/ cls = 2 -> size <= 16) /\ (cls = 3 \/ cls = 4 -> 9 <= size <= 16).
Proof.
  intros cls size W. unfold wf_param in W.
  destruct (cls =? 1) eqn:C1; destruct (cls =? 2) eqn:C2; destruct (cls =? 3) eqn:C3; destruct (cls =? 4) eqn:C4;
    cbn [orb andb] in W; lia.
Qed.

(* ---- (B) against (A) ---- *)
Definition rel_va (s : ffst) (v : vast) : Prop :=
  v_gp v = 8 * f_ni s /\ v_fp v = 48 + 16 * f_nx s /\ v_ov v = f_sp s
  /\ 0 <= f_ni s <= 6 /\ 0 <= f_nx s <= 8.

Lemma va_stack_eq : forall s v size,
  rel_va s v ->
  fst (va_stack v size) = stk_words (Z.to_nat (qwords size)) (f_sp s)
  /\ rel_va {| f_ni := f_ni s; f_nx := f_nx s; f_sp := f_sp s + qwords size * 8 |} (snd (va_stack v size)).
Proof.
  intros s v size (Hg & Hf & Ho & Hi & Hx). unfold va_stack. cbn [fst snd].
  rewrite size8_div, Ho. split; [reflexivity|].
  unfold rel_va; cbn [f_ni f_nx f_sp v_gp v_fp v_ov]. repeat split; lia.
Qed.

Ltac case_if :=
  match goal with
  | |- context [if ?b then _ else _] => let E := fresh "E" in destruct b eqn:E
  end.

Lemma va_ff_step : forall s v p,
  rel_va s v -> wf_param p = true ->
  fst (va_step v p) = fst (ff_step s p) /\ rel_va (snd (ff_step s p)) (snd (va_step v p)).
Proof.
  intros s v p R W. pose proof R as (Hg & Hf & Ho & Hi & Hx).
  destruct p as [| | |cls size].
  - (* PInt *)
    unfold va_step, ff_step. rewrite Hg.
    destruct (f_ni s <? 6) eqn:E.
    + assert (E2 : (8 * f_ni s <=? 40) = true) by lia. rewrite E2. cbn [fst snd].
      rewrite save_loc_int by lia. split; [reflexivity|]. unfold rel_va; cbn [f_ni f_nx f_sp v_gp v_fp v_ov]. repeat split; lia.
    + assert (E2 : (8 * f_ni s <=? 40) = false) by lia. rewrite E2. cbn [fst snd].
      rewrite Ho. split; [reflexivity|]. unfold rel_va; cbn [f_ni f_nx f_sp v_gp v_fp v_ov]. repeat split; lia.
  - (* PFp *)
    unfold va_step, ff_step. rewrite Hf.
    destruct (f_nx s <? 8) eqn:E.
    + assert (E2 : (48 + 16 * f_nx s <=? 160) = true) by lia. rewrite E2. cbn [fst snd].
      rewrite save_loc_fp by lia. split; [reflexivity|]. unfold rel_va; cbn [f_ni f_nx f_sp v_gp v_fp v_ov]. repeat split; lia.
    + assert (E2 : (48 + 16 * f_nx s <=? 160) = false) by lia. rewrite E2. cbn [fst snd].
      rewrite Ho. split; [reflexivity|]. unfold rel_va; cbn [f_ni f_nx f_sp v_gp v_fp v_ov]. repeat split; lia.
  - (* PLd *)
    unfold va_step, ff_step. cbn [fst snd]. rewrite Ho. split; [reflexivity|].
    unfold rel_va; cbn [f_ni f_nx f_sp v_gp v_fp v_ov]. repeat split; lia.
  - (* PBlk *)
    apply wf_blk_inv in W. destruct W as (W1 & W12 & W34).
    pose proof (va_stack_eq s v size R) as (SE & SR).
    unfold va_step, ff_step.
    destruct (cls =? 1) eqn:C1.
    { (* integer class *)
      assert (Hs : 1 <= size <= 16) by lia.
      destruct (Z_le_gt_dec size 8) as [Hle|Hgt].
      - destruct (size_small size) as (Q & S8); [lia|]. rewrite Q, S8, Hg.
        cbn [andb].
        destruct (f_ni s + 1 <=? 6) eqn:E.
        + assert (E2 : (8 * f_ni s + 8 >? 48) = false) by lia. rewrite E2.
          assert (E3 : (8 >? 8) = false) by reflexivity. rewrite E3.
          assert (E4 : (1 =? 2) = false) by reflexivity. rewrite E4. cbn [fst snd].
          rewrite save_loc_int by lia. split; [reflexivity|]. unfold rel_va; cbn [f_ni f_nx f_sp v_gp v_fp v_ov]. repeat split; lia.
        + assert (E2 : (8 * f_ni s + 8 >? 48) = true) by lia. rewrite E2.
          assert (C2 : (cls =? 2) = false) by lia. assert (C3 : (cls =? 3) = false) by lia.
          assert (C4 : (cls =? 4) = false) by lia. rewrite C2, C3, C4. cbn [andb].
          rewrite SE, Q. split; [reflexivity|]. rewrite Q in SR. exact SR.
      - destruct (size_big size) as (Q & S8); [lia|]. rewrite Q, S8, Hg.
        cbn [andb].
        destruct (f_ni s + 2 <=? 6) eqn:E.
        + assert (E2 : (8 * f_ni s + 16 >? 48) = false) by lia. rewrite E2.
          assert (E3 : (16 >? 8) = true) by reflexivity. rewrite E3.
          assert (E4 : (2 =? 2) = true) by reflexivity. rewrite E4. cbn [fst snd].
          rewrite save_loc_int by lia.
          replace (8 * f_ni s + 8) with (8 * (f_ni s + 1)) by lia. rewrite save_loc_int by lia.
          split; [reflexivity|]. unfold rel_va; cbn [f_ni f_nx f_sp v_gp v_fp v_ov]. repeat split; lia.
        + assert (E2 : (8 * f_ni s + 16 >? 48) = true) by lia. rewrite E2.
          assert (C2 : (cls =? 2) = false) by lia. assert (C3 : (cls =? 3) = false) by lia.
          assert (C4 : (cls =? 4) = false) by lia. rewrite C2, C3, C4. cbn [andb].
          rewrite SE, Q. split; [reflexivity|]. rewrite Q in SR. exact SR. }
    cbn [andb].
    destruct (cls =? 2) eqn:C2.
    { (* SSE class *)
      assert (Hs : 1 <= size <= 16) by lia.
      destruct (Z_le_gt_dec size 8) as [Hle|Hgt].
      - destruct (size_small size) as (Q & S8); [lia|]. rewrite Q, S8, Hf.
        cbn [andb].
        destruct (f_nx s + 1 <=? 8) eqn:E.
        + assert (E2 : (48 + 16 * f_nx s + 8 * 2 >? 176) = false) by lia. rewrite E2.
          assert (E3 : (8 >? 8) = false) by reflexivity. rewrite E3.
          assert (E4 : (1 =? 2) = false) by reflexivity. rewrite E4. cbn [fst snd].
          rewrite save_loc_fp by lia. split; [reflexivity|]. unfold rel_va; cbn [f_ni f_nx f_sp v_gp v_fp v_ov]. repeat split; lia.
        + assert (E2 : (48 + 16 * f_nx s + 8 * 2 >? 176) = true) by lia. rewrite E2.
          assert (C3 : (cls =? 3) = false) by lia.
          assert (C4 : (cls =? 4) = false) by lia. rewrite C3, C4. cbn [andb].
          rewrite SE, Q. split; [reflexivity|]. rewrite Q in SR. exact SR.
      - destruct (size_big size) as (Q & S8); [lia|]. rewrite Q, S8, Hf.
        cbn [andb].
        destruct (f_nx s + 2 <=? 8) eqn:E.
        + assert (E2 : (48 + 16 * f_nx s + 16 * 2 >? 176) = false) by lia. rewrite E2.
          assert (E3 : (16 >? 8) = true) by reflexivity. rewrite E3.
          assert (E4 : (2 =? 2) = true) by reflexivity. rewrite E4. cbn [fst snd].
          rewrite save_loc_fp by lia.
          replace (48 + 16 * f_nx s + 16) with (48 + 16 * (f_nx s + 1)) by lia. rewrite save_loc_fp by lia.
          split; [reflexivity|]. unfold rel_va; cbn [f_ni f_nx f_sp v_gp v_fp v_ov]. repeat split; lia.
        + assert (E2 : (48 + 16 * f_nx s + 16 * 2 >? 176) = true) by lia. rewrite E2.
          assert (C3 : (cls =? 3) = false) by lia.
          assert (C4 : (cls =? 4) = false) by lia. rewrite C3, C4. cbn [andb].
          rewrite SE, Q. split; [reflexivity|]. rewrite Q in SR. exact SR. }
    cbn [andb].
    destruct (cls =? 3) eqn:C3.
    { (* integer, SSE *)
      assert (C4 : (cls =? 4) = false) by lia. rewrite C4. cbn [orb andb]. rewrite Hg, Hf.
      destruct (f_ni s <? 6) eqn:E1; destruct (f_nx s <? 8) eqn:E2; cbn [andb].
      - assert (E3 : ((48 + 16 * f_nx s >? 160) || (8 * f_ni s >? 40)) = false) by lia. rewrite E3.
        cbn [fst snd]. rewrite save_loc_int, save_loc_fp by lia.
        split; [reflexivity|]. unfold rel_va; cbn [f_ni f_nx f_sp v_gp v_fp v_ov]. repeat split; lia.
      - assert (E3 : ((48 + 16 * f_nx s >? 160) || (8 * f_ni s >? 40)) = true) by lia. rewrite E3.
        rewrite SE. split; [reflexivity|]. exact SR.
      - assert (E3 : ((48 + 16 * f_nx s >? 160) || (8 * f_ni s >? 40)) = true) by lia. rewrite E3.
        rewrite SE. split; [reflexivity|]. exact SR.
      - assert (E3 : ((48 + 16 * f_nx s >? 160) || (8 * f_ni s >? 40)) = true) by lia. rewrite E3.
        rewrite SE. split; [reflexivity|]. exact SR. }
    cbn [andb orb].
    destruct (cls =? 4) eqn:C4.
    { rewrite Hg, Hf.
      destruct (f_ni s <? 6) eqn:E1; destruct (f_nx s <? 8) eqn:E2; cbn [andb].
      - assert (E3 : ((48 + 16 * f_nx s >? 160) || (8 * f_ni s >? 40)) = false) by lia. rewrite E3.
        cbn [fst snd]. rewrite save_loc_int, save_loc_fp by lia.
        split; [reflexivity|]. unfold rel_va; cbn [f_ni f_nx f_sp v_gp v_fp v_ov]. repeat split; lia.
      - assert (E3 : ((48 + 16 * f_nx s >? 160) || (8 * f_ni s >? 40)) = true) by lia. rewrite E3.
        rewrite SE. split; [reflexivity|]. exact SR.
      - assert (E3 : ((48 + 16 * f_nx s >? 160) || (8 * f_ni s >? 40)) = true) by lia. rewrite E3.
        rewrite SE. split; [reflexivity|]. exact SR.
      - assert (E3 : ((48 + 16 * f_nx s >? 160) || (8 * f_ni s >? 40)) = true) by lia. rewrite E3.
        rewrite SE. split; [reflexivity|]. exact SR. }
    cbn [andb]. rewrite SE. split; [reflexivity|]. exact SR.
Qed.

Lemma va_ff_walk : forall ps s v,
  rel_va s v -> wf_params ps = true -> walk va_step v ps = walk ff_step s ps.
Proof.
  induction ps as [|p r IH]; intros s v R W; [reflexivity|].
  cbn [wf_params forallb] in W. apply andb_prop in W. destruct W as (Wp & Wr).
  destruct (va_ff_step s v p R Wp) as (L & R').
  cbn [walk]. destruct (va_step v p) as (l1, v'). destruct (ff_step s p) as (l2, s').
  cbn [fst snd] in L, R'. rewrite L. f_equal. apply IH; assumption.
Qed.

Theorem va_walk_eq_ff_walk : forall ps, wf_params ps = true -> va_walk ps = ff_walk ps.
Proof.
  intros ps W. unfold va_walk, ff_walk. apply va_ff_walk; [|exact W].
  unfold rel_va, va_init, ff_init; cbn [f_ni f_nx f_sp v_gp v_fp v_ov]. repeat split; lia.
Qed.

(* ---- (G) against (A) ---- *)
Definition rel_gen (s : ffst) (g : gnst) : Prop :=
  f_ni s = Z.min (g_ia g) 6 /\ f_nx s = Z.min (g_fa g) 8 /\ f_sp s = g_stk g
  /\ 0 <= g_ia g /\ 0 <= g_fa g.

Lemma gen_ff_step : forall s g p,
  rel_gen s g -> wf_param p = true ->
  fst (gen_step g p) = fst (ff_step s p) /\ rel_gen (snd (ff_step s p)) (snd (gen_step g p)).
Proof.
  intros s g p (Hi & Hx & Hs & Pi & Px) W.
  destruct p as [| | |cls size].
  - unfold gen_step, ff_step.
    destruct (g_ia g <? 6) eqn:E.
    + assert (E2 : (f_ni s <? 6) = true) by lia. rewrite E2. cbn [fst snd].
      split; [f_equal; f_equal; lia|]. unfold rel_gen; cbn [f_ni f_nx f_sp g_ia g_fa g_stk]. repeat split; lia.
    + assert (E2 : (f_ni s <? 6) = false) by lia. rewrite E2. cbn [fst snd]. rewrite Hs.
      split; [reflexivity|]. unfold rel_gen; cbn [f_ni f_nx f_sp g_ia g_fa g_stk]. repeat split; lia.
  - unfold gen_step, ff_step.
    destruct (g_fa g <? 8) eqn:E.
    + assert (E2 : (f_nx s <? 8) = true) by lia. rewrite E2. cbn [fst snd].
      split; [f_equal; f_equal; lia|]. unfold rel_gen; cbn [f_ni f_nx f_sp g_ia g_fa g_stk]. repeat split; lia.
    + assert (E2 : (f_nx s <? 8) = false) by lia. rewrite E2. cbn [fst snd]. rewrite Hs.
      split; [reflexivity|]. unfold rel_gen; cbn [f_ni f_nx f_sp g_ia g_fa g_stk]. repeat split; lia.
  - unfold gen_step, ff_step. cbn [fst snd]. rewrite Hs. split; [reflexivity|].
    unfold rel_gen; cbn [f_ni f_nx f_sp g_ia g_fa g_stk]. repeat split; lia.
  - apply wf_blk_inv in W. destruct W as (W1 & W12 & W34). unfold gen_step, ff_step.
    assert (STK : forall q, size8 size / 8 = q -> size8 size = q * 8) by (intros q <-; unfold size8; lia).
    destruct (cls =? 1) eqn:C1.
    { assert (Hsz : 1 <= size <= 16) by lia. cbn [andb].
      destruct (Z_le_gt_dec size 8) as [Hle|Hgt].
      - destruct (size_small size) as (Q & S8); [lia|]. rewrite Q, S8.
        assert (E0 : (8 <=? 8) = true) by reflexivity. rewrite E0. cbn [orb]. rewrite andb_true_r.
        destruct (g_ia g <? 6) eqn:E.
        + assert (E2 : (f_ni s + 1 <=? 6) = true) by lia. rewrite E2.
          assert (E3 : (8 >? 8) = false) by reflexivity. rewrite E3.
          assert (E4 : (1 =? 2) = false) by reflexivity. rewrite E4. cbn [fst snd].
          split; [f_equal; f_equal; lia|]. unfold rel_gen; cbn [f_ni f_nx f_sp g_ia g_fa g_stk]. repeat split; lia.
        + assert (E2 : (f_ni s + 1 <=? 6) = false) by lia. rewrite E2.
          assert (C2 : (cls =? 2) = false) by lia. assert (C3 : (cls =? 3) = false) by lia.
          assert (C4 : (cls =? 4) = false) by lia. rewrite C2, C3, C4. cbn [andb orb fst snd].
          replace (8 / 8) with 1 by reflexivity. rewrite Hs.
          split; [reflexivity|]. unfold rel_gen; cbn [f_ni f_nx f_sp g_ia g_fa g_stk]. repeat split; lia.
      - destruct (size_big size) as (Q & S8); [lia|]. rewrite Q, S8.
        assert (E0 : (16 <=? 8) = false) by reflexivity. rewrite E0. cbn [orb].
        destruct ((g_ia g <? 6) && (g_ia g + 1 <? 6)) eqn:E.
        + assert (E2 : (f_ni s + 2 <=? 6) = true) by lia. rewrite E2.
          assert (E3 : (16 >? 8) = true) by reflexivity. rewrite E3.
          assert (E4 : (2 =? 2) = true) by reflexivity. rewrite E4. cbn [fst snd].
          split; [f_equal; [f_equal; lia|f_equal; f_equal; lia]|]. unfold rel_gen; cbn [f_ni f_nx f_sp g_ia g_fa g_stk]. repeat split; lia.
        + assert (E2 : (f_ni s + 2 <=? 6) = false) by lia. rewrite E2.
          assert (C2 : (cls =? 2) = false) by lia. assert (C3 : (cls =? 3) = false) by lia.
          assert (C4 : (cls =? 4) = false) by lia. rewrite C2, C3, C4. cbn [andb orb fst snd].
          replace (16 / 8) with 2 by reflexivity. rewrite Hs.
          split; [reflexivity|]. unfold rel_gen; cbn [f_ni f_nx f_sp g_ia g_fa g_stk]. repeat split; lia. }
    cbn [andb].
    destruct (cls =? 2) eqn:C2.
    { assert (Hsz : 1 <= size <= 16) by lia. cbn [andb].
      destruct (Z_le_gt_dec size 8) as [Hle|Hgt].
      - destruct (size_small size) as (Q & S8); [lia|]. rewrite Q, S8.
        assert (E0 : (8 <=? 8) = true) by reflexivity. rewrite E0. cbn [orb]. rewrite andb_true_r.
        destruct (g_fa g <? 8) eqn:E.
        + assert (E2 : (f_nx s + 1 <=? 8) = true) by lia. rewrite E2.
          assert (E3 : (8 >? 8) = false) by reflexivity. rewrite E3.
          assert (E4 : (1 =? 2) = false) by reflexivity. rewrite E4. cbn [fst snd].
          split; [f_equal; f_equal; lia|]. unfold rel_gen; cbn [f_ni f_nx f_sp g_ia g_fa g_stk]. repeat split; lia.
        + assert (E2 : (f_nx s + 1 <=? 8) = false) by lia. rewrite E2.
          assert (C3 : (cls =? 3) = false) by lia.
          assert (C4 : (cls =? 4) = false) by lia. rewrite C3, C4. cbn [andb orb fst snd].
          replace (8 / 8) with 1 by reflexivity. rewrite Hs.
          split; [reflexivity|]. unfold rel_gen; cbn [f_ni f_nx f_sp g_ia g_fa g_stk]. repeat split; lia.
      - destruct (size_big size) as (Q & S8); [lia|]. rewrite Q, S8.
        assert (E0 : (16 <=? 8) = false) by reflexivity. rewrite E0. cbn [orb].
        destruct ((g_fa g <? 8) && (g_fa g + 1 <? 8)) eqn:E.
        + assert (E2 : (f_nx s + 2 <=? 8) = true) by lia. rewrite E2.
          assert (E3 : (16 >? 8) = true) by reflexivity. rewrite E3.
          assert (E4 : (2 =? 2) = true) by reflexivity. rewrite E4. cbn [fst snd].
          split; [f_equal; [f_equal; lia|f_equal; f_equal; lia]|]. unfold rel_gen; cbn [f_ni f_nx f_sp g_ia g_fa g_stk]. repeat split; lia.
        + assert (E2 : (f_nx s + 2 <=? 8) = false) by lia. rewrite E2.
          assert (C3 : (cls =? 3) = false) by lia.
          assert (C4 : (cls =? 4) = false) by lia. rewrite C3, C4. cbn [andb orb fst snd].
          replace (16 / 8) with 2 by reflexivity. rewrite Hs.
          split; [reflexivity|]. unfold rel_gen; cbn [f_ni f_nx f_sp g_ia g_fa g_stk]. repeat split; lia. }
    cbn [andb].
    destruct (cls =? 3) eqn:C3.
    { assert (C4 : (cls =? 4) = false) by lia. rewrite C4.
      destruct (size_big size) as (Q & S8); [lia|]. rewrite Q, S8. cbn [orb andb].
      destruct (g_ia g <? 6) eqn:E1; destruct (g_fa g <? 8) eqn:E2; cbn [andb].
      - assert (F1 : (f_ni s <? 6) = true) by lia. assert (F2 : (f_nx s <? 8) = true) by lia.
        rewrite F1, F2. cbn [andb fst snd].
        split; [f_equal; [f_equal; lia|f_equal; f_equal; lia]|].
        unfold rel_gen; cbn [f_ni f_nx f_sp g_ia g_fa g_stk]. repeat split; lia.
      - assert (F2 : (f_nx s <? 8) = false) by lia. rewrite F2, andb_false_r. cbn [fst snd].
        rewrite Hs. replace (16 / 8) with 2 by reflexivity.
        split; [reflexivity|]. unfold rel_gen; cbn [f_ni f_nx f_sp g_ia g_fa g_stk]. repeat split; lia.
      - assert (F1 : (f_ni s <? 6) = false) by lia. rewrite F1. cbn [andb fst snd].
        rewrite Hs. replace (16 / 8) with 2 by reflexivity.
        split; [reflexivity|]. unfold rel_gen; cbn [f_ni f_nx f_sp g_ia g_fa g_stk]. repeat split; lia.
      - assert (F1 : (f_ni s <? 6) = false) by lia. rewrite F1. cbn [andb fst snd].
        rewrite Hs. replace (16 / 8) with 2 by reflexivity.
        split; [reflexivity|]. unfold rel_gen; cbn [f_ni f_nx f_sp g_ia g_fa g_stk]. repeat split; lia. }
    destruct (cls =? 4) eqn:C4.
    { destruct (size_big size) as (Q & S8); [lia|]. rewrite Q, S8. cbn [orb andb].
      destruct (g_ia g <? 6) eqn:E1; destruct (g_fa g <? 8) eqn:E2; cbn [andb].
      - assert (F1 : (f_ni s <? 6) = true) by lia. assert (F2 : (f_nx s <? 8) = true) by lia.
        rewrite F1, F2. cbn [andb fst snd].
        split; [f_equal; [f_equal; lia|f_equal; f_equal; lia]|].
        unfold rel_gen; cbn [f_ni f_nx f_sp g_ia g_fa g_stk]. repeat split; lia.
      - assert (F2 : (f_nx s <? 8) = false) by lia. rewrite F2, andb_false_r. cbn [fst snd].
        rewrite Hs. replace (16 / 8) with 2 by reflexivity.
        split; [reflexivity|]. unfold rel_gen; cbn [f_ni f_nx f_sp g_ia g_fa g_stk]. repeat split; lia.
      - assert (F1 : (f_ni s <? 6) = false) by lia. rewrite F1. cbn [andb fst snd].
        rewrite Hs. replace (16 / 8) with 2 by reflexivity.
        split; [reflexivity|]. unfold rel_gen; cbn [f_ni f_nx f_sp g_ia g_fa g_stk]. repeat split; lia.
      - assert (F1 : (f_ni s <? 6) = false) by lia. rewrite F1. cbn [andb fst snd].
        rewrite Hs. replace (16 / 8) with 2 by reflexivity.
        split; [reflexivity|]. unfold rel_gen; cbn [f_ni f_nx f_sp g_ia g_fa g_stk]. repeat split; lia. }
    (* memory class (and any other class number) *)
    cbn [orb andb fst snd]. rewrite size8_div, Hs, size8_qwords.
    split; [reflexivity|]. unfold rel_gen; cbn [f_ni f_nx f_sp g_ia g_fa g_stk]. repeat split; lia.
Qed.

Lemma gen_ff_walk : forall ps s g,
  rel_gen s g -> wf_params ps = true -> walk gen_step g ps = walk ff_step s ps.
Proof.
  induction ps as [|p r IH]; intros s g R W; [reflexivity|].
  cbn [wf_params forallb] in W. apply andb_prop in W. destruct W as (Wp & Wr).
  destruct (gen_ff_step s g p R Wp) as (L & R').
  cbn [walk]. destruct (gen_step g p) as (l1, g'). destruct (ff_step s p) as (l2, s').
  cbn [fst snd] in L, R'. rewrite L. f_equal. apply IH; assumption.
Qed.

Theorem gen_walk_eq_ff_walk : forall ps, wf_params ps = true -> gen_walk ps = ff_walk ps.
Proof.
  intros ps W. unfold gen_walk, ff_walk. apply gen_ff_walk; [|exact W].
  unfold rel_gen, gen_init, ff_init; cbn [f_ni f_nx f_sp g_ia g_fa g_stk]. repeat split; lia.
Qed.

Theorem all_walks_agree : forall ps, wf_params ps = true ->
  va_walk ps = ff_walk ps /\ gen_walk ps = ff_walk ps /\ va_walk ps = gen_walk ps.
Proof.
  intros ps W. pose proof (va_walk_eq_ff_walk ps W) as A. pose proof (gen_walk_eq_ff_walk ps W) as B.
  repeat split; congruence.
Qed.

(* the guard is needed: an integer-class block of three eightbytes (the C code asserts qwords <= 2) makes the
   caller count three registers and the callee two *)
Theorem oversize_block_refuted : exists ps, wf_params ps = false /\ va_walk ps <> ff_walk ps.
Proof. exists [PBlk 1 24; PInt]. split; [reflexivity|]. vm_compute. discriminate. Qed.

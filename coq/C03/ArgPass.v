(* C03, round 3: where the x86-64 (SysV) call conventions of the execution engines put / fetch every
   eightbyte of every argument.  Definitions only; transcribed from
     (A) _MIR_get_ff_call              mir-x86_64.c:436-500   -- the interpreter calling out (n_iregs, n_xregs, sp_offset)
     (B) interp () + va_block_arg_builtin   mir-interp.c:1992-2030, mir-x86_64.c:47-111
                                       -- the interpreter's C-call interface entered through the shim, walking the
                                          va_list the shim builds (gp_offset 0, fp_offset 48, reg save area =
                                          rdi rsi rdx rcx r8 r9 at 0..40, xmm0-7 at 48+16k; overflow area)
     (G) machinize_call and target_machinize   mir-gen-x86_64.c:236-460 and 700-830
                                       -- generated code calling / being entered (int_arg_num, fp_arg_num, which
                                          keep counting beyond the register files, and the stack offset)
   A location is one eightbyte: the n-th integer argument register, the n-th SSE argument register, or a byte
   offset in the stack argument area. *)
From Coq Require Import ZArith List Bool.
Import ListNotations.
Local Open Scope Z_scope.

Inductive param :=
| PInt                       (* i8..u64, p, rblk *)
| PFp                        (* f, d *)
| PLd                        (* long double *)
| PBlk (cls size : Z).       (* MIR_T_BLK + cls, size in bytes *)

Inductive loc := RInt (n : Z) | RFp (n : Z) | Stk (off : Z).

Definition qwords (size : Z) : Z := (size + 7) / 8.
Definition size8 (size : Z) : Z := (size + 7) / 8 * 8.
Definition align16 (x : Z) : Z := (x + 15) / 16 * 16.

Fixpoint stk_words (n : nat) (off : Z) : list loc :=
  match n with O => [] | S k => Stk off :: stk_words k (off + 8) end.

Fixpoint walk {S : Type} (step : S -> param -> list loc * S) (s : S) (ps : list param) : list (list loc) :=
  match ps with
  | [] => []
  | p :: r => let '(l, s') := step s p in l :: walk step s' r
  end.

(* ---- (A) _MIR_get_ff_call ---- *)
Record ffst := { f_ni : Z; f_nx : Z; f_sp : Z }.

Definition ff_step (s : ffst) (p : param) : list loc * ffst :=
  let ni := f_ni s in let nx := f_nx s in let sp := f_sp s in
  match p with
  | PInt => if ni <? 6 then ([RInt ni], {| f_ni := ni + 1; f_nx := nx; f_sp := sp |})
            else ([Stk sp], {| f_ni := ni; f_nx := nx; f_sp := sp + 8 |})
  | PFp => if nx <? 8 then ([RFp nx], {| f_ni := ni; f_nx := nx + 1; f_sp := sp |})
           else ([Stk sp], {| f_ni := ni; f_nx := nx; f_sp := sp + 8 |})
  | PLd => let a := align16 sp in ([Stk a; Stk (a + 8)], {| f_ni := ni; f_nx := nx; f_sp := a + 16 |})
  | PBlk cls size =>
    let q := qwords size in
    if (cls =? 1) && (ni + q <=? 6) then
      (RInt ni :: (if q =? 2 then [RInt (ni + 1)] else []), {| f_ni := ni + q; f_nx := nx; f_sp := sp |})
    else if (cls =? 2) && (nx + q <=? 8) then
      (RFp nx :: (if q =? 2 then [RFp (nx + 1)] else []), {| f_ni := ni; f_nx := nx + q; f_sp := sp |})
    else if (cls =? 3) && (ni <? 6) && (nx <? 8) then
      ([RInt ni; RFp nx], {| f_ni := ni + 1; f_nx := nx + 1; f_sp := sp |})
    else if (cls =? 4) && (ni <? 6) && (nx <? 8) then
      ([RFp nx; RInt ni], {| f_ni := ni + 1; f_nx := nx + 1; f_sp := sp |})
    else (stk_words (Z.to_nat q) sp, {| f_ni := ni; f_nx := nx; f_sp := sp + q * 8 |})
  end.

Definition ff_init : ffst := {| f_ni := 0; f_nx := 0; f_sp := 0 |}.
Definition ff_walk (ps : list param) : list (list loc) := walk ff_step ff_init ps.

(* ---- (B) the interpreter's C-call interface: va_list walk ---- *)
Record vast := { v_gp : Z; v_fp : Z; v_ov : Z }.   (* gp_offset, fp_offset, overflow_arg_area - its start *)

(* what the shim stored at offset o of the register save area *)
Definition save_loc (o : Z) : loc := if o <? 48 then RInt (o / 8) else RFp ((o - 48) / 16).

Definition va_stack (v : vast) (size : Z) : list loc * vast :=
  (stk_words (Z.to_nat (size8 size / 8)) (v_ov v),
   {| v_gp := v_gp v; v_fp := v_fp v; v_ov := v_ov v + size8 size / 8 * 8 |}).

Definition va_step (v : vast) (p : param) : list loc * vast :=
  let gp := v_gp v in let fp := v_fp v in let ov := v_ov v in
  match p with
  | PInt => if gp <=? 40 then ([save_loc gp], {| v_gp := gp + 8; v_fp := fp; v_ov := ov |})
            else ([Stk ov], {| v_gp := gp; v_fp := fp; v_ov := ov + 8 |})
  | PFp => if fp <=? 160 then ([save_loc fp], {| v_gp := gp; v_fp := fp + 16; v_ov := ov |})
           else ([Stk ov], {| v_gp := gp; v_fp := fp; v_ov := ov + 8 |})
  | PLd => let a := align16 ov in ([Stk a; Stk (a + 8)], {| v_gp := gp; v_fp := fp; v_ov := a + 16 |})
  | PBlk cls size =>
    let sz := size8 size in
    if cls =? 1 then
      if gp + sz >? 48 then va_stack v size
      else if sz >? 8 then ([save_loc gp; save_loc (gp + 8)], {| v_gp := gp + 16; v_fp := fp; v_ov := ov |})
      else ([save_loc gp], {| v_gp := gp + 8; v_fp := fp; v_ov := ov |})
    else if cls =? 2 then
      if fp + sz * 2 >? 176 then va_stack v size
      else if sz >? 8 then ([save_loc fp; save_loc (fp + 16)], {| v_gp := gp; v_fp := fp + 32; v_ov := ov |})
      else ([save_loc fp], {| v_gp := gp; v_fp := fp + 16; v_ov := ov |})
    else if (cls =? 3) || (cls =? 4) then
      if (fp >? 160) || (gp >? 40) then va_stack v size
      else ((if cls =? 3 then [save_loc gp; save_loc fp] else [save_loc fp; save_loc gp]),
            {| v_gp := gp + 8; v_fp := fp + 16; v_ov := ov |})
    else va_stack v size
  end.

Definition va_init : vast := {| v_gp := 0; v_fp := 48; v_ov := 0 |}.
Definition va_walk (ps : list param) : list (list loc) := walk va_step va_init ps.

(* ---- (G) generated code: the caller's machinize_call and the callee's target_machinize use the same
   conditions (two textual copies in mir-gen-x86_64.c; both are tied to this one walker) ---- *)
Record gnst := { g_ia : Z; g_fa : Z; g_stk : Z }.

Definition gen_step (s : gnst) (p : param) : list loc * gnst :=
  let ia := g_ia s in let fa := g_fa s in let stk := g_stk s in
  match p with
  | PInt => if ia <? 6 then ([RInt ia], {| g_ia := ia + 1; g_fa := fa; g_stk := stk |})
            else ([Stk stk], {| g_ia := ia + 1; g_fa := fa; g_stk := stk + 8 |})
  | PFp => if fa <? 8 then ([RFp fa], {| g_ia := ia; g_fa := fa + 1; g_stk := stk |})
           else ([Stk stk], {| g_ia := ia; g_fa := fa + 1; g_stk := stk + 8 |})
  | PLd => let a := align16 stk in ([Stk a; Stk (a + 8)], {| g_ia := ia; g_fa := fa; g_stk := a + 16 |})
  | PBlk cls size =>
    let sz := size8 size in
    if ((cls =? 1) && (ia <? 6) && ((sz <=? 8) || (ia + 1 <? 6))) then
      if sz >? 8 then ([RInt ia; RInt (ia + 1)], {| g_ia := ia + 2; g_fa := fa; g_stk := stk |})
      else ([RInt ia], {| g_ia := ia + 1; g_fa := fa; g_stk := stk |})
    else if ((cls =? 2) && (fa <? 8) && ((sz <=? 8) || (fa + 1 <? 8))) then
      if sz >? 8 then ([RFp fa; RFp (fa + 1)], {| g_ia := ia; g_fa := fa + 2; g_stk := stk |})
      else ([RFp fa], {| g_ia := ia; g_fa := fa + 1; g_stk := stk |})
    else if ((cls =? 3) || (cls =? 4)) && (ia <? 6) && (fa <? 8) then
      ((if cls =? 3 then [RInt ia; RFp fa] else [RFp fa; RInt ia]),
       {| g_ia := ia + 1; g_fa := fa + 1; g_stk := stk |})
    else (stk_words (Z.to_nat (sz / 8)) stk, {| g_ia := ia; g_fa := fa; g_stk := stk + sz |})
  end.

Definition gen_init : gnst := {| g_ia := 0; g_fa := 0; g_stk := 0 |}.
Definition gen_walk (ps : list param) : list (list loc) := walk gen_step gen_init ps.

(* ---- the parameter lists the engines accept (the C code asserts these bounds: qwords <= 2 for blocks in
   registers, 8 < size <= 16 for the two mixed classes; a block has at least one byte) ---- *)
Definition wf_param (p : param) : bool :=
  match p with
  | PBlk cls size =>
    (1 <=? size)
    && (if (cls =? 1) || (cls =? 2) then size <=? 16 else true)
    && (if (cls =? 3) || (cls =? 4) then (9 <=? size) && (size <=? 16) else true)
  | _ => true
  end.

Definition wf_params (ps : list param) : bool := forallb wf_param ps.

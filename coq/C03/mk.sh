#!/bin/sh
# developer helper: compile the C03 chain in order
cd /verif/coq || exit 1
for f in C03/Thunk C03/ThunkBytesProofs C03/ThunkProofs "$@"; do
  if [ ! -f $f.vo ] || [ $f.v -nt $f.vo ] || [ -n "$stale" ]; then
    stale=1
    timeout 600 coqc -q -w -all -Q . MirV $f.v || { echo "FAILED $f"; exit 1; }
  fi
done

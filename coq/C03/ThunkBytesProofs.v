(* C03 -- proofs about the byte-level thunk model (Thunk.v, first half). *)
From Coq Require Import ZArith List Bool Lia.
From MirV Require Import Base.W64 C03.Thunk.
Import ListNotations.
Local Open Scope Z_scope.

Lemma le_bytes_length n z : length (le_bytes n z) = n.
Proof. revert z; induction n as [|n IH]; intros z; cbn [le_bytes length]; [reflexivity|now rewrite IH]. Qed.

Lemma le_bytes_ok n z : bytes_ok (le_bytes n z) = true.
Proof.
  revert z; induction n as [|n IH]; intros z; cbn [le_bytes bytes_ok forallb]; [reflexivity|].
  pose proof (Z.mod_pos_bound z 256 ltac:(lia)) as Hb.
  fold (bytes_ok (le_bytes n (z / 256))). rewrite IH.
  destruct (Z.leb_spec 0 (z mod 256)), (Z.ltb_spec (z mod 256) 256); try lia; reflexivity.
Qed.

Lemma of_le_le_bytes n z : of_le (le_bytes n z) = z mod 256 ^ Z.of_nat n.
Proof.
  revert z; induction n as [|n IH]; intros z.
  - cbn [le_bytes of_le]. change (256 ^ Z.of_nat 0) with 1. now rewrite Z.mod_1_r.
  - cbn [le_bytes of_le]. rewrite IH.
    rewrite Nat2Z.inj_succ, Z.pow_succ_r by lia.
    rewrite Z.rem_mul_r; [reflexivity|lia|]. apply Z.pow_pos_nonneg; lia.
Qed.

Lemma of_le_le_bytes4 z : of_le (le_bytes 4 z) = u32 z.
Proof. rewrite of_le_le_bytes. reflexivity. Qed.

Lemma of_le_le_bytes8 z : of_le (le_bytes 8 z) = u64 z.
Proof. rewrite of_le_le_bytes. reflexivity. Qed.

(* explicit shapes of the two encodings: the memcpy sequence of _MIR_redirect_thunk yields
   opcode ++ operand bytes *)
Lemma redirect_bytes_short thunk to :
  redirect_short_p thunk to = true ->
  redirect_bytes thunk to = 0xe9 :: le_bytes 4 (redirect_disp thunk to) ++ le_bytes 8 to.
Proof. intros H. unfold redirect_bytes. rewrite H. reflexivity. Qed.

Lemma redirect_bytes_long thunk to :
  redirect_short_p thunk to = false ->
  redirect_bytes thunk to = [0x49; 0xbb] ++ le_bytes 8 to ++ [0x41; 0xff; 0xe3].
Proof. intros H. unfold redirect_bytes. rewrite H. reflexivity. Qed.

Lemma redirect_bytes_length thunk to : length (redirect_bytes thunk to) = thunk_size.
Proof.
  destruct (redirect_short_p thunk to) eqn:E.
  - rewrite redirect_bytes_short by exact E. reflexivity.
  - rewrite redirect_bytes_long by exact E. reflexivity.
Qed.

Lemma bytes_ok_app a b : bytes_ok (a ++ b) = bytes_ok a && bytes_ok b.
Proof. unfold bytes_ok. apply forallb_app. Qed.

Lemma redirect_bytes_ok thunk to : bytes_ok (redirect_bytes thunk to) = true.
Proof.
  destruct (redirect_short_p thunk to) eqn:E.
  - rewrite redirect_bytes_short by exact E.
    change (0xe9 :: le_bytes 4 (redirect_disp thunk to) ++ le_bytes 8 to)
      with ([0xe9] ++ le_bytes 4 (redirect_disp thunk to) ++ le_bytes 8 to).
    rewrite !bytes_ok_app, !le_bytes_ok. reflexivity.
  - rewrite redirect_bytes_long by exact E.
    rewrite !bytes_ok_app, !le_bytes_ok. reflexivity.
Qed.

Lemma s64_congr z : u64 (s64 z) = u64 z.
Proof. unfold u64, s64. apply uwrap_swrap. lia. Qed.

(* the rel32 arithmetic: thunk + 5 + sign-extended low 32 bits of disp is `to` again *)
Lemma short_target thunk to :
  0 <= to < 2 ^ 64 -> redirect_short_p thunk to = true ->
  u64 (thunk + 5 + s32 (u32 (redirect_disp thunk to))) = to.
Proof.
  intros Hto H. unfold redirect_short_p, INT32_MIN, INT32_MAX in H.
  apply andb_true_iff in H. destruct H as [H1 H2].
  apply Z.leb_le in H1. apply Z.leb_le in H2.
  unfold s32, u32. rewrite swrap_uwrap by lia.
  rewrite swrap_id by (unfold in_s; lia).
  unfold redirect_disp.
  replace (thunk + 5 + s64 (to - (thunk + 5))) with (s64 (to - (thunk + 5)) + (thunk + 5)) by lia.
  unfold u64. rewrite <- uwrap_add by lia. fold (u64 (s64 (to - (thunk + 5)))).
  rewrite s64_congr. unfold u64. rewrite uwrap_add by lia.
  replace (to - (thunk + 5) + (thunk + 5)) with to by lia.
  apply uwrap_id. unfold in_u. lia.
Qed.

Theorem redirect_decodes thunk to :
  0 <= to < 2 ^ 64 -> jump_target thunk (redirect_bytes thunk to) = Some to.
Proof.
  intros Hto. destruct (redirect_short_p thunk to) eqn:E.
  - rewrite redirect_bytes_short by exact E.
    unfold jump_target.
    cbn [le_bytes app decode Z.eqb Pos.eqb].
    change (0xe9 =? 0xe9) with true. cbv iota.
    change (of_le [redirect_disp thunk to mod 256; redirect_disp thunk to / 256 mod 256;
                   redirect_disp thunk to / 256 / 256 mod 256;
                   redirect_disp thunk to / 256 / 256 / 256 mod 256])
      with (of_le (le_bytes 4 (redirect_disp thunk to))).
    rewrite of_le_le_bytes4. change (Z.of_nat 5) with 5.
    f_equal. apply short_target; assumption.
  - rewrite redirect_bytes_long by exact E.
    unfold jump_target.
    cbn [le_bytes app decode].
    change (0x49 =? 0xe9) with false. change (0x49 =? 0x49) with true.
    change (0xbb =? 0xbb) with true. cbv iota.
    cbn [skipn decode].
    change (0x41 =? 0xe9) with false. change (0x41 =? 0x49) with false.
    change (0x41 =? 0x41) with true. change (0xff =? 0xff) with true.
    change (0xe3 =? 0xe3) with true. cbv iota. cbn [andb].
    f_equal.
    change (of_le (le_bytes 8 to) = to).
    rewrite of_le_le_bytes8. apply uwrap_id. unfold in_u. lia.
Qed.

Theorem get_thunk_addr_redirect thunk to :
  0 <= to < 2 ^ 64 -> get_thunk_addr (redirect_bytes thunk to) = to.
Proof.
  intros Hto. destruct (redirect_short_p thunk to) eqn:E.
  - rewrite redirect_bytes_short by exact E.
    unfold get_thunk_addr. change (0xe9 =? 0xe9) with true. cbv iota.
    cbn [le_bytes app skipn firstn].
    change (of_le (le_bytes 8 to) = to).
    rewrite of_le_le_bytes8. apply uwrap_id. unfold in_u. lia.
  - rewrite redirect_bytes_long by exact E.
    unfold get_thunk_addr. cbn [app]. change (0x49 =? 0xe9) with false. cbv iota.
    cbn [le_bytes app skipn firstn].
    change (of_le (le_bytes 8 to) = to).
    rewrite of_le_le_bytes8. apply uwrap_id. unfold in_u. lia.
Qed.

(* which encoding is chosen, in terms of the true (unwrapped) distance; this is the +-2 GiB
   boundary: short exactly when  -2^31 <= to - (thunk+5) <= 2^31-1  *)
Lemma redirect_short_iff thunk to :
  0 <= thunk -> thunk + 5 < 2 ^ 63 -> 0 <= to < 2 ^ 63 ->
  (redirect_short_p thunk to = true <-> - 2 ^ 31 <= to - (thunk + 5) <= 2 ^ 31 - 1).
Proof.
  intros Ht Ht2 Hto. unfold redirect_short_p, redirect_disp, INT32_MIN, INT32_MAX.
  unfold s64. rewrite swrap_id by (unfold in_s; lia).
  rewrite andb_true_iff, !Z.leb_le. lia.
Qed.

Lemma redirect_first_byte thunk to :
  hd 0 (redirect_bytes thunk to) = if redirect_short_p thunk to then 0xe9 else 0x49.
Proof.
  destruct (redirect_short_p thunk to) eqn:E.
  - rewrite redirect_bytes_short by exact E. reflexivity.
  - rewrite redirect_bytes_long by exact E. reflexivity.
Qed.

(* the fresh thunk of _MIR_get_thunk is a jmp to its own holder bytes; nothing may call it
   before the first redirect (MIR_load_module redirects immediately) *)
Lemma fresh_thunk_target thunk : jump_target thunk fresh_thunk_bytes = Some (u64 (thunk + 5)).
Proof. unfold jump_target. cbn. f_equal. f_equal. lia. Qed.

(* bb thunk replacement is right only within +-2 GiB (no range check in the C code) *)
Lemma replace_bb_thunk_decodes_partial old thunk to :
  (5 <= length old)%nat -> 0 <= to < 2 ^ 64 ->
  - 2 ^ 31 <= to - (thunk + 5) <= 2 ^ 31 - 1 ->
  jump_target thunk (replace_bb_thunk_bytes old thunk to) = Some to.
Proof.
  intros Hl Hto Hd.
  destruct old as [|o0 [|o1 [|o2 [|o3 [|o4 rest]]]]]; cbn [length] in Hl; try lia.
  unfold replace_bb_thunk_bytes, patch. cbn [firstn skipn app length Nat.add le_bytes].
  unfold jump_target. cbn [decode]. change (0xe9 =? 0xe9) with true. cbv iota.
  set (d := to - (thunk + 5)).
  change (of_le [d mod 256; d / 256 mod 256; d / 256 / 256 mod 256; d / 256 / 256 / 256 mod 256])
    with (of_le (le_bytes 4 d)).
  rewrite of_le_le_bytes4. unfold s32, u32. rewrite swrap_uwrap by lia.
  rewrite swrap_id by (unfold in_s; lia).
  change (Z.of_nat 5) with 5. f_equal. subst d.
  replace (thunk + 5 + (to - (thunk + 5))) with to by lia.
  apply uwrap_id. unfold in_u. lia.
Qed.

Lemma replace_bb_thunk_far_refuted :
  exists old thunk to, (5 <= length old)%nat /\ 0 <= to < 2 ^ 64 /\
    jump_target thunk (replace_bb_thunk_bytes old thunk to) <> Some to.
Proof.
  exists bb_thunk_pattern, 0x1000, (0x1000 + 5 + 2 ^ 31). split; [cbn; lia|]. split; [lia|].
  vm_compute. discriminate.
Qed.

(* a fresh bb thunk loads r10 with the bb version and jumps to the handler -- within +-2 GiB only
   (no range check in _MIR_get_bb_thunk either) *)
Lemma bb_thunk_decodes_partial thunk bbv handler :
  0 <= bbv < 2 ^ 64 -> 0 <= handler < 2 ^ 64 ->
  - 2 ^ 31 <= handler - (thunk + 15) <= 2 ^ 31 - 1 ->
  bb_thunk_exec thunk (get_bb_thunk_bytes thunk bbv handler) = Some (bbv, handler).
Proof.
  intros Hb Hh Hd.
  unfold get_bb_thunk_bytes, bb_thunk_pattern, patch.
  cbn [firstn skipn app length Nat.add le_bytes].
  unfold bb_thunk_exec.
  change ((0x49 =? 0x49) && (0xba =? 0xba) && (0xe9 =? 0xe9)) with true. cbv iota.
  set (d := handler - (thunk + 15)).
  change (of_le [d mod 256; d / 256 mod 256; d / 256 / 256 mod 256; d / 256 / 256 / 256 mod 256])
    with (of_le (le_bytes 4 d)).
  match goal with |- Some (of_le ?l, _) = _ => change l with (le_bytes 8 bbv) end.
  rewrite of_le_le_bytes4, of_le_le_bytes8.
  unfold s32, u32. rewrite swrap_uwrap by lia. rewrite swrap_id by (unfold in_s; lia).
  f_equal. f_equal.
  - apply uwrap_id. unfold in_u. lia.
  - subst d. replace (thunk + 15 + (handler - (thunk + 15))) with handler by lia.
    apply uwrap_id. unfold in_u. lia.
Qed.

Lemma bb_thunk_far_refuted :
  exists thunk bbv handler, 0 <= bbv < 2 ^ 64 /\ 0 <= handler < 2 ^ 64 /\
    bb_thunk_exec thunk (get_bb_thunk_bytes thunk bbv handler) <> Some (bbv, handler).
Proof.
  exists 0x1000, 0x7f0000001234, (0x1000 + 15 + 2 ^ 31). split; [lia|]. split; [lia|].
  vm_compute. discriminate.
Qed.

Lemma bb_thunk_bytes_length thunk bbv handler : length (get_bb_thunk_bytes thunk bbv handler) = bb_thunk_size.
Proof. reflexivity. Qed.

(* C03, round 3 (wave 7): where the x86-64 (SysV) engines put / fetch every RESULT of a function with several
   results.  Definitions only; transcribed from
     (S) _MIR_get_interp_shim, result part      mir-x86_64.c:668-692  -- the interpreter's C-call interface moving the
                                                   MIR results into the return registers (movss/movsd xmm<n_xregs>,
                                                   fldt (+ fxch), ld_pat with  addr[2] |= n_iregs << 4 : the reg field
                                                   of the ModRM byte is bits 3..5, so the register number is 2 * n_iregs)
     (A) _MIR_get_ff_call, result part           mir-x86_64.c:555-566  -- the interpreter calling out and storing the
                                                   return registers (n_iregs++ == 0 ? 0 : 2)
     (G) machinize_call / target_machinize ret   mir-gen-x86_64.c:471-490, 950-970 -- generated code fetching /
                                                   returning results (AX / DX, XMM0 / XMM1, ST0 / ST1)
   Every walker keeps one counter per register class.  In (S) and (G) a result of a class whose registers are used up
   falls through to the integer branch (as the C code does) and an integer-branch result with both integer registers
   used is an error; (A) tests the integer types first and has no fall-through: anything that does not find a register
   of its own class is an error. *)
From Coq Require Import List Bool Arith.
Import ListNotations.

Inductive rty := TF | TD | TLD | TInt.            (* f, d, ld, everything else (i8..u64, p) *)
Inductive rloc := Gpr (hw : nat) | Xmm (n : nat) | St (n : nat).   (* Gpr: hardware number, 0 = rax, 2 = rdx *)

Record rst := { r_ni : nat; r_nx : nat; r_nf : nat }.
Definition r_init : rst := {| r_ni := 0; r_nx := 0; r_nf := 0 |}.

Definition is_sse (t : rty) : bool := match t with TF | TD => true | _ => false end.
Definition is_ld (t : rty) : bool := match t with TLD => true | _ => false end.

(* the common skeleton: which branch is taken; [ireg] is how the walker names its n-th integer result register *)
Definition res_step (ireg : nat -> nat) (s : rst) (t : rty) : option (rloc * rst) :=
  if is_sse t && (r_nx s <? 2) then Some (Xmm (r_nx s), {| r_ni := r_ni s; r_nx := S (r_nx s); r_nf := r_nf s |})
  else if is_ld t && (r_nf s <? 2) then Some (St (r_nf s), {| r_ni := r_ni s; r_nx := r_nx s; r_nf := S (r_nf s) |})
  else if r_ni s <? 2 then Some (Gpr (ireg (r_ni s)), {| r_ni := S (r_ni s); r_nx := r_nx s; r_nf := r_nf s |})
  else None.

Fixpoint res_walk (ireg : nat -> nat) (s : rst) (ts : list rty) : option (list rloc) :=
  match ts with
  | [] => Some []
  | t :: r => match res_step ireg s t with
              | None => None
              | Some (l, s') => match res_walk ireg s' r with None => None | Some ls => Some (l :: ls) end
              end
  end.

Definition shim_ireg (n : nat) : nat := 2 * n.                              (* addr[2] |= n_iregs << 4 *)
Definition ff_ireg (n : nat) : nat := if n =? 0 then 0 else 2.              (* n_iregs++ == 0 ? 0 : 2 *)
Definition gen_ireg (n : nat) : nat := if n =? 0 then 0 else 2.             (* n_iregs == 0 ? AX_HARD_REG : DX_HARD_REG *)

Definition res_shim_walk := res_walk shim_ireg r_init.
(* (A): no fall-through *)
Definition ff_res_step (s : rst) (t : rty) : option (rloc * rst) :=
  match t with
  | TInt => if r_ni s <? 2 then Some (Gpr (ff_ireg (r_ni s)), {| r_ni := S (r_ni s); r_nx := r_nx s; r_nf := r_nf s |}) else None
  | TF | TD => if r_nx s <? 2 then Some (Xmm (r_nx s), {| r_ni := r_ni s; r_nx := S (r_nx s); r_nf := r_nf s |}) else None
  | TLD => if r_nf s <? 2 then Some (St (r_nf s), {| r_ni := r_ni s; r_nx := r_nx s; r_nf := S (r_nf s) |}) else None
  end.
Fixpoint ff_res_walk (s : rst) (ts : list rty) : option (list rloc) :=
  match ts with
  | [] => Some []
  | t :: r => match ff_res_step s t with
              | None => None
              | Some (l, s') => match ff_res_walk s' r with None => None | Some ls => Some (l :: ls) end
              end
  end.
Definition res_ff_walk := ff_res_walk r_init.
Definition res_gen_walk := res_walk gen_ireg r_init.

(* what a C caller expects (SysV): the k-th result of a class sits in the k-th return register of that class,
   k = number of EARLIER results that took a register of the class *)
Definition cls_reg (c k : nat) : rloc :=
  match c with 0 => Gpr (match k with 0 => 0 | _ => 2 end) | 1 => Xmm k | _ => St k end.
Definition cls (t : rty) : nat := match t with TInt => 0 | TF | TD => 1 | TLD => 2 end.
Definition count_cls (c : nat) (ts : list rty) : nat := length (filter (fun t => cls t =? c) ts).
(* the lists all walkers accept without a fall-through: at most two results per class *)
Definition res_plain (ts : list rty) : bool :=
  (count_cls 0 ts <=? 2) && (count_cls 1 ts <=? 2) && (count_cls 2 ts <=? 2).
Fixpoint spec_from (seen : list rty) (ts : list rty) : list rloc :=
  match ts with
  | [] => []
  | t :: r => cls_reg (cls t) (count_cls (cls t) seen) :: spec_from (seen ++ [t]) r
  end.
Definition res_spec (ts : list rty) : list rloc := spec_from [] ts.

(* C03 -- proofs about the redirection state machine (Thunk.v, second half). *)
From Coq Require Import ZArith List Bool Lia Arith.
From MirV Require Import Base.W64 C03.Thunk C03.ThunkBytesProofs.
Import ListNotations.
Local Open Scope Z_scope.

(* ------------------------------------------------------------------ list plumbing *)

Lemma set_nth_length {A} (l : list A) n x : length (set_nth l n x) = length l.
Proof. revert n; induction l as [|y l IH]; intros [|n]; cbn; auto. Qed.

Lemma nth_set_nth_same {A} (l : list A) n x d : (n < length l)%nat -> nth n (set_nth l n x) d = x.
Proof. revert n; induction l as [|y l IH]; intros [|n] H; cbn in *; try lia; auto. apply IH; lia. Qed.

Lemma nth_set_nth_other {A} (l : list A) n m x d : n <> m -> nth m (set_nth l n x) d = nth m l d.
Proof. revert n m; induction l as [|y l IH]; intros [|n] [|m] H; cbn; auto; try congruence. Qed.

Lemma get_fn_lt w f g : get_fn w f = Some g -> (f < length (fns w))%nat.
Proof.
  unfold get_fn. intros H. destruct (Nat.lt_ge_cases f (length (fns w))) as [|Hge]; auto.
  rewrite nth_overflow in H by exact Hge. discriminate.
Qed.

Lemma get_put_same w f g g0 : get_fn w f = Some g0 -> get_fn (put_fn w f g) f = Some g.
Proof. intros H. unfold get_fn, put_fn. cbn. apply nth_set_nth_same. eapply get_fn_lt; eauto. Qed.

Lemma get_put_other w f f' g : f <> f' -> get_fn (put_fn w f g) f' = get_fn w f'.
Proof. intros H. unfold get_fn, put_fn. cbn. apply nth_set_nth_other. exact H. Qed.

Lemma get_publish w a k f : get_fn (publish w a k) f = get_fn w f.
Proof. reflexivity. Qed.

Lemma lookup_cons_other r a k t : t <> a -> lookup ((a, k) :: r) t = lookup r t.
Proof.
  intros H. unfold lookup. cbn [find fst]. destruct (Z.eqb_spec a t); [congruence|reflexivity].
Qed.

Lemma lookup_cons_same r a k : lookup ((a, k) :: r) a = Some k.
Proof. unfold lookup. cbn [find fst]. rewrite Z.eqb_refl. reflexivity. Qed.

(* ------------------------------------------------------------------ the invariant *)

Definition nonwrap (k : kind) : bool :=
  match k with KShim _ | KCode _ | KBB _ => true | _ => false end.

(* t is a legitimate thing for f's thunk to point to *)
Definition tgt_ok (r : list (Z * kind)) (u : Z) (f : nat) (g : fn) (t : Z) : Prop :=
  (t = u /\ linked g = false)
  \/ (t <> u /\ exists k, lookup r t = Some k /\ kind_func k = Some f
        /\ (forall f', k = KCode f' -> calladdr g = Some t /\ mcode g = Some t)
        /\ (forall f', k = KBB f' -> data g = DBBStubs)).

(* the machine-code bookkeeping of one function *)
Record mc_ok (r : list (Z * kind)) (u : Z) (f : nat) (g : fn) : Prop := mk_mc_ok {
  ok_mc : forall a, mcode g = Some a ->
            calladdr g = Some a /\ lookup r a = Some (KCode f) /\ a <> u;
  ok_gens : (mcode g = None /\ gens g = 0%nat) \/ (mcode g <> None /\ gens g = 1%nat)
}.

Record fn_ok (r : list (Z * kind)) (u : Z) (f : nat) (g : fn) : Prop := mk_fn_ok {
  ok_tgt : exists t, bytes g = redirect_bytes (addr g) t /\ 0 <= t < 2 ^ 64 /\ tgt_ok r u f g t;
  ok_mcok : mc_ok r u f g
}.

Record Inv (w : world) : Prop := mk_Inv {
  inv_u : 0 <= undef_addr w < 2 ^ 64;
  inv_reg : forall a k, lookup (registry w) a = Some k -> 0 <= a < 2 ^ 64 /\ k <> KUndef /\ a <> undef_addr w;
  inv_fns : forall f g, get_fn w f = Some g -> fn_ok (registry w) (undef_addr w) f g
}.

Lemma fresh_spec w a :
  fresh w a = true ->
  0 <= a < 2 ^ 64 /\ a <> undef_addr w /\ lookup (registry w) a = None.
Proof.
  unfold fresh, in_u64. intros H.
  apply andb_true_iff in H. destruct H as [H _].
  apply andb_true_iff in H. destruct H as [H Hl].
  apply andb_true_iff in H. destruct H as [H Hu].
  apply andb_true_iff in H. destruct H as [H0 H1].
  apply Z.leb_le in H0. apply Z.ltb_lt in H1.
  destruct (lookup (registry w) a); [discriminate|].
  destruct (Z.eqb_spec a (undef_addr w)); [discriminate|].
  repeat split; auto.
Qed.

Lemma tgt_ok_mono r u f g t a k :
  lookup r a = None -> tgt_ok r u f g t -> tgt_ok ((a, k) :: r) u f g t.
Proof.
  intros Ha [H|[Hne [k0 [Hl Hr]]]]; [left; exact H|right]. split; [exact Hne|].
  exists k0. split; [|exact Hr]. rewrite lookup_cons_other; [exact Hl|]. congruence.
Qed.

Lemma mc_ok_mono r u f g a k :
  lookup r a = None -> mc_ok r u f g -> mc_ok ((a, k) :: r) u f g.
Proof.
  intros Ha [Hmc Hg]. constructor; [|exact Hg].
  intros m Hm. destruct (Hmc m Hm) as [H1 [H2 H3]]. repeat split; try assumption.
  rewrite lookup_cons_other; [exact H2|]. congruence.
Qed.

Lemma fn_ok_mono r u f g a k :
  lookup r a = None -> fn_ok r u f g -> fn_ok ((a, k) :: r) u f g.
Proof.
  intros Ha [[t [Hb [Ht Hk]]] Hmc]. constructor.
  - exists t. repeat split; try assumption; try lia. apply tgt_ok_mono; assumption.
  - apply mc_ok_mono; assumption.
Qed.

(* updating one function, optionally publishing one new address *)
Lemma Inv_put w f g0 g :
  Inv w -> get_fn w f = Some g0 -> fn_ok (registry w) (undef_addr w) f g -> Inv (put_fn w f g).
Proof.
  intros [Hu Hr Hf] H0 Hok. constructor; [exact Hu|exact Hr|].
  intros f' g' Hg'. change (undef_addr (put_fn w f g)) with (undef_addr w).
  change (registry (put_fn w f g)) with (registry w).
  destruct (Nat.eq_dec f f') as [->|Hne].
  - rewrite (get_put_same _ _ _ _ H0) in Hg'. inversion Hg'; subst. exact Hok.
  - rewrite get_put_other in Hg' by exact Hne. apply Hf. exact Hg'.
Qed.

Lemma Inv_publish_put w f g0 g a k :
  Inv w -> get_fn w f = Some g0 -> fresh w a = true -> k <> KUndef ->
  fn_ok ((a, k) :: registry w) (undef_addr w) f g -> Inv (put_fn (publish w a k) f g).
Proof.
  intros [Hu Hr Hf] H0 Hfr Hk Hok. destruct (fresh_spec _ _ Hfr) as [Ha [Hau Hal]].
  constructor; [exact Hu| |].
  - intros b kb Hb. change (lookup ((a, k) :: registry w) b = Some kb) in Hb.
    change (undef_addr (put_fn (publish w a k) f g)) with (undef_addr w).
    destruct (Z.eq_dec b a) as [->|Hne].
    + rewrite lookup_cons_same in Hb. inversion Hb; subst. auto.
    + rewrite lookup_cons_other in Hb by exact Hne. apply Hr. exact Hb.
  - intros f' g' Hg'.
    change (fn_ok ((a, k) :: registry w) (undef_addr w) f' g').
    destruct (Nat.eq_dec f f') as [->|Hne].
    + rewrite (get_put_same (publish w a k) f' g g0) in Hg' by (rewrite get_publish; exact H0).
      inversion Hg'; subst. exact Hok.
    + rewrite get_put_other in Hg' by exact Hne. rewrite get_publish in Hg'.
      apply fn_ok_mono; [exact Hal|]. apply Hf. exact Hg'.
Qed.

(* ------------------------------------------------------------------ extension relation *)
(* what every transition preserves about every already loaded function *)
Definition fn_ext (g g' : fn) : Prop :=
  addr g' = addr g
  /\ (forall a, mcode g = Some a -> mcode g' = Some a)
  /\ (gens g <= gens g')%nat
  /\ (linked g = true -> linked g' = true).

Definition ext (w w' : world) : Prop :=
  undef_addr w' = undef_addr w
  /\ length (fns w') = length (fns w)
  /\ (forall a k, lookup (registry w) a = Some k -> lookup (registry w') a = Some k)
  /\ forall f g, get_fn w f = Some g -> exists g', get_fn w' f = Some g' /\ fn_ext g g'.

Lemma fn_ext_refl g : fn_ext g g.
Proof. unfold fn_ext. repeat split; auto. Qed.

Lemma fn_ext_trans a b c : fn_ext a b -> fn_ext b c -> fn_ext a c.
Proof.
  intros [A1 [A2 [A3 A4]]] [B1 [B2 [B3 B4]]]. unfold fn_ext. repeat split.
  - congruence.
  - intros a0 H. apply B2. apply A2. exact H.
  - lia.
  - auto.
Qed.

Lemma ext_refl w : ext w w.
Proof. unfold ext. repeat split; auto. intros f g H. exists g. split; [exact H|apply fn_ext_refl]. Qed.

Lemma ext_trans a b c : ext a b -> ext b c -> ext a c.
Proof.
  intros [A1 [A2 [A3 A4]]] [B1 [B2 [B3 B4]]]. unfold ext. repeat split; try congruence.
  - auto.
  - intros f g H. destruct (A4 _ _ H) as [g1 [H1 E1]]. destruct (B4 _ _ H1) as [g2 [H2 E2]].
    exists g2. split; [exact H2|]. eapply fn_ext_trans; eauto.
Qed.

Lemma ext_put w f g0 g : get_fn w f = Some g0 -> fn_ext g0 g -> ext w (put_fn w f g).
Proof.
  intros H0 He. unfold ext. split; [reflexivity|]. split; [apply set_nth_length|].
  split; [auto|].
  - intros f' g' Hg'. destruct (Nat.eq_dec f f') as [->|Hne].
    + exists g. split; [eapply get_put_same; eauto|]. congruence.
    + exists g'. split; [rewrite get_put_other by exact Hne; exact Hg'|apply fn_ext_refl].
Qed.

Lemma ext_publish_put w f g0 g a k :
  get_fn w f = Some g0 -> lookup (registry w) a = None -> fn_ext g0 g ->
  ext w (put_fn (publish w a k) f g).
Proof.
  intros H0 Ha He. unfold ext. split; [reflexivity|]. split; [apply set_nth_length|]. split.
  - intros b kb Hb. change (lookup ((a, k) :: registry w) b = Some kb).
    rewrite lookup_cons_other; [exact Hb|]. congruence.
  - intros f' g' Hg'. destruct (Nat.eq_dec f f') as [->|Hne].
    + exists g. split; [|congruence]. eapply get_put_same.
      rewrite get_publish. eassumption.
    + exists g'. split; [|apply fn_ext_refl].
      rewrite get_put_other by exact Hne. exact Hg'.
Qed.

(* ------------------------------------------------------------------ single transitions *)

Lemma redirect_fields g to :
  addr (redirect g to) = addr g /\ mcode (redirect g to) = mcode g
  /\ calladdr (redirect g to) = calladdr g /\ data (redirect g to) = data g
  /\ linked (redirect g to) = linked g /\ gens (redirect g to) = gens g
  /\ bytes (redirect g to) = redirect_bytes (addr g) to.
Proof. repeat split. Qed.

(* ------------------------------------------------------------------ current implementation *)

Lemma current_impl_of_tgt w f g t :
  get_fn w f = Some g -> bytes g = redirect_bytes (addr g) t -> 0 <= t < 2 ^ 64 ->
  current_impl w f = if t =? undef_addr w then Some KUndef else lookup (registry w) t.
Proof.
  intros Hg Hb Ht. unfold current_impl. rewrite Hg, Hb, redirect_decodes by exact Ht. reflexivity.
Qed.

(* a function whose public address currently leads to something that is not a lazy wrapper and
   not the undefined interface *)
Definition settled (w : world) (f : nat) : Prop :=
  exists k, current_impl w f = Some k /\ nonwrap k = true.

(* in the course of one call the hook of a lazy wrapper runs at most once per function, and never
   for a function that was already settled *)
Definition wrap_once (w w' : world) : Prop :=
  forall f g, get_fn w f = Some g -> exists g', get_fn w' f = Some g'
    /\ (settled w f -> wrap_entries g' = wrap_entries g)
    /\ (wrap_entries g' = wrap_entries g \/ (wrap_entries g' = S (wrap_entries g) /\ settled w' f)).

Definition cext (w w' : world) : Prop :=
  ext w w' /\ (forall f, settled w f -> settled w' f)
  /\ (forall f, get_fn w f = None -> get_fn w' f = None)
  /\ wrap_once w w'.

Lemma wrap_once_refl w : wrap_once w w.
Proof. intros f g Hg. exists g. split; [exact Hg|]. split; [auto|left; reflexivity]. Qed.

Lemma cext_refl w : cext w w.
Proof. split; [apply ext_refl|]. split; [auto|]. split; [auto|apply wrap_once_refl]. Qed.

Lemma cext_trans a b c : cext a b -> cext b c -> cext a c.
Proof.
  intros [A1 [A2 [A3 A4]]] [B1 [B2 [B3 B4]]]. split; [eapply ext_trans; eauto|]. split; [auto|].
  split; [auto|].
  intros f g Hg. destruct (A4 _ _ Hg) as [g1 [Hg1 [Ha Hb]]]. destruct (B4 _ _ Hg1) as [g2 [Hg2 [Hc Hd]]].
  exists g2. split; [exact Hg2|]. split.
  - intros Hs. rewrite (Hc (A2 _ Hs)). apply Ha. exact Hs.
  - destruct Hb as [Hb|[Hb Hs1]].
    + destruct Hd as [Hd|[Hd Hs2]]; [left; congruence|right; split; [congruence|exact Hs2]].
    + right. split; [rewrite (Hc Hs1); exact Hb|apply B2; exact Hs1].
Qed.

(* updating one function: the others keep their record *)
Lemma wrap_once_put w w' f g g1 :
  get_fn w f = Some g -> get_fn w' f = Some g1 ->
  (forall f', f <> f' -> get_fn w' f' = get_fn w f') ->
  (settled w f -> wrap_entries g1 = wrap_entries g) ->
  (wrap_entries g1 = wrap_entries g \/ (wrap_entries g1 = S (wrap_entries g) /\ settled w' f)) ->
  wrap_once w w'.
Proof.
  intros Hg Hg1 Hoth Ha Hb f' g' Hg'. destruct (Nat.eq_dec f f') as [<-|Hne].
  - rewrite Hg in Hg'. inversion Hg'; subst g'. exists g1. split; [exact Hg1|]. split; assumption.
  - exists g'. split; [rewrite Hoth by exact Hne; exact Hg'|]. split; [auto|left; reflexivity].
Qed.

Lemma settled_impl w f k : current_impl w f = Some k -> settled w f -> nonwrap k = true.
Proof. intros Hk [k' [Hk' Hn]]. rewrite Hk in Hk'. inversion Hk'; subst. exact Hn. Qed.

Lemma none_put w f g0 g f' :
  get_fn w f = Some g0 -> get_fn w f' = None -> get_fn (put_fn w f g) f' = None.
Proof.
  intros H0 Hn. destruct (Nat.eq_dec f f') as [->|Hne]; [congruence|].
  rewrite get_put_other by exact Hne. exact Hn.
Qed.

Lemma settled_other w f g f' :
  f <> f' -> settled w f' -> settled (put_fn w f g) f'.
Proof.
  intros Hne [k [Hk Hn]]. exists k. split; [|exact Hn].
  unfold current_impl in *. rewrite get_put_other by exact Hne. exact Hk.
Qed.

Lemma settled_other_publish w f g a k0 f' :
  Inv w -> lookup (registry w) a = None -> f <> f' -> settled w f' ->
  settled (put_fn (publish w a k0) f g) f'.
Proof.
  intros HI Ha Hne [k [Hk Hn]]. exists k. split; [|exact Hn].
  unfold current_impl in *. rewrite get_put_other by exact Hne. rewrite get_publish.
  destruct (get_fn w f') as [g'|]; [|discriminate].
  destruct (jump_target (addr g') (bytes g')) as [t|]; [|discriminate].
  change (undef_addr (put_fn (publish w a k0) f g)) with (undef_addr w).
  change (registry (put_fn (publish w a k0) f g)) with ((a, k0) :: registry w).
  destruct (t =? undef_addr w); [exact Hk|].
  rewrite lookup_cons_other; [exact Hk|]. congruence.
Qed.

(* ------------------------------------------------------------------ the generator's full path *)

Lemma gen_full_eq w f g code :
  data g <> DBBStubs ->
  gen_full w f g code
  = match mcode g, calladdr g with
    | Some _, Some ca => Ok (put_fn w f (redirect g ca))
    | Some _, None => Stuck SInvalid
    | None, _ =>
      if fresh w code then
        Ok (put_fn (publish w code (KCode f)) f
                   (mkfn (addr g) (redirect_bytes (addr g) code) (Some code) (Some code) (data g)
                         (linked g) (S (gens g)) (wrap_entries g)))
      else Stuck SOracle
    end.
Proof. intros H. unfold gen_full. destruct (data g); [reflexivity|reflexivity|congruence]. Qed.

Lemma gen_full_ok w f g0 g code w' :
  Inv w -> get_fn w f = Some g0 ->
  mc_ok (registry w) (undef_addr w) f g -> fn_ext g0 g ->
  gen_full w f g code = Ok w' ->
  Inv w' /\ ext w w' /\ (forall f', f <> f' -> settled w f' -> settled w' f')
  /\ (forall f', get_fn w f' = None -> get_fn w' f' = None)
  /\ (forall f', f <> f' -> get_fn w' f' = get_fn w f')
  /\ exists g', get_fn w' f = Some g' /\ linked g' = linked g /\ wrap_entries g' = wrap_entries g
       /\ current_impl w' f = Some (KCode f).
Proof.
  intros HI H0 Hok Hext Hgen.
  assert (Hnb : data g <> DBBStubs).
  { intros E. unfold gen_full in Hgen. rewrite E in Hgen. discriminate. }
  rewrite gen_full_eq in Hgen by exact Hnb.
  destruct (mcode g) as [m|] eqn:Em.
  - destruct (calladdr g) as [ca|] eqn:Ec; try discriminate.
    inversion Hgen; subst w'; clear Hgen.
    destruct (ok_mc _ _ _ _ Hok m Em) as [Hca [Hlm Hmu]].
    rewrite Ec in Hca. inversion Hca; subst ca.
    destruct (inv_reg _ HI _ _ Hlm) as [Hrange _].
    assert (Hok' : fn_ok (registry w) (undef_addr w) f (redirect g m)).
    { constructor.
      - exists m. split; [reflexivity|]. split; [exact Hrange|].
        right. split; [exact Hmu|]. exists (KCode f). repeat split; auto; try discriminate.
      - destruct Hok as [A B]. constructor; [exact A|exact B]. }
    split; [eapply Inv_put; eauto|]. split; [|split; [|split; [|split]]].
    + eapply ext_put; [exact H0|]. destruct Hext as [E1 [E2 [E3 E4]]].
      unfold fn_ext; cbn. repeat split; auto.
    + intros f' Hne Hs. eapply settled_other; eauto.
    + intros f' Hn. eapply none_put; eauto.
    + intros f' Hne. apply get_put_other. exact Hne.
    + exists (redirect g m). split; [eapply get_put_same; eauto|]. repeat split.
      erewrite current_impl_of_tgt; [| eapply get_put_same; eauto | reflexivity | exact Hrange].
      change (undef_addr (put_fn w f (redirect g m))) with (undef_addr w).
      destruct (Z.eqb_spec m (undef_addr w)); [congruence|exact Hlm].
  - destruct (fresh w code) eqn:Efr; try discriminate.
    inversion Hgen; subst w'; clear Hgen.
    destruct (fresh_spec _ _ Efr) as [Hrange [Hcu Hcl]].
    set (g1 := mkfn (addr g) (redirect_bytes (addr g) code) (Some code) (Some code) (data g)
                    (linked g) (S (gens g)) (wrap_entries g)).
    assert (Hok' : fn_ok ((code, KCode f) :: registry w) (undef_addr w) f g1).
    { constructor.
      - exists code. split; [reflexivity|]. split; [exact Hrange|].
        right. split; [exact Hcu|]. exists (KCode f). rewrite lookup_cons_same.
        repeat split; auto; discriminate.
      - constructor.
        + intros a Ha. cbn in Ha. inversion Ha; subst a. rewrite lookup_cons_same. repeat split; auto.
        + right. split; [discriminate|]. cbn.
          destruct (ok_gens _ _ _ _ Hok) as [[_ Hg]|[Hn _]]; [rewrite Hg; reflexivity|congruence]. }
    split; [eapply Inv_publish_put; eauto; discriminate|]. split; [|split; [|split; [|split]]].
    + eapply ext_publish_put; [exact H0|exact Hcl|]. destruct Hext as [E1 [E2 [E3 E4]]].
      unfold fn_ext; cbn. repeat split; auto; try lia;
        try (intros a Ha; apply E2 in Ha; congruence).
    + intros f' Hne Hs. eapply settled_other_publish; eauto.
    + intros f' Hn. eapply (none_put (publish w code (KCode f))); eauto.
    + intros f' Hne. rewrite get_put_other by exact Hne. apply get_publish.
    + exists g1. split.
      * eapply get_put_same. rewrite get_publish. eassumption.
      * repeat split.
        erewrite current_impl_of_tgt;
          [| eapply get_put_same; rewrite get_publish; eassumption | reflexivity | exact Hrange].
        change (undef_addr (put_fn (publish w code (KCode f)) f g1)) with (undef_addr w).
        destruct (Z.eqb_spec code (undef_addr w)); [congruence|].
        change (registry (put_fn (publish w code (KCode f)) f g1)) with ((code, KCode f) :: registry w).
        apply lookup_cons_same.
Qed.

(* ------------------------------------------------------------------ calls *)

(* ------------------------------------------------------------------ calls *)

Definition all_linked (w : world) : Prop := forall f g, get_fn w f = Some g -> linked g = true.

Lemma all_linked_cext w w' : cext w w' -> all_linked w -> all_linked w'.
Proof.
  intros [[_ [_ [_ He]]] [_ [Hn _]]] Ha f g' Hg'.
  destruct (get_fn w f) as [g|] eqn:Eg.
  - destruct (He _ _ Eg) as [g2 [H2 [_ [_ [_ Hl]]]]]. rewrite H2 in Hg'. inversion Hg'; subst.
    apply Hl. eapply Ha; eauto.
  - rewrite (Hn _ Eg) in Hg'. discriminate.
Qed.

(* post-condition of anything that runs inside a call *)
Definition call_post (w : world) (r : res (world * list Z)) : Prop :=
  match r with
  | Ok (w', _) => Inv w' /\ cext w w'
  | Stuck s => all_linked w -> s <> SUndefined
  end.

Lemma call_post_trans w w1 r : Inv w1 -> cext w w1 -> call_post w1 r -> call_post w r.
Proof.
  intros HI Hc. destruct r as [[w' o]|s]; cbn.
  - intros [HI' Hc']. split; [exact HI'|eapply cext_trans; eauto].
  - intros H Ha. apply H. eapply all_linked_cext; eauto.
Qed.

Lemma body_fold (c : world -> nat -> list Z -> res (world * list Z)) (cs : list nat) :
  (forall w x orc, Inv w -> call_post w (c w x orc)) ->
  forall acc w, call_post w acc -> (match acc with Ok _ => True | Stuck _ => True end) ->
    call_post w (fold_left (fun acc x => bind acc (fun p => c (fst p) x (snd p))) cs acc).
Proof.
  intros Hc. induction cs as [|x cs IH]; intros acc w Hacc _; cbn [fold_left]; [exact Hacc|].
  apply IH; [|destruct (bind acc _); exact I].
  destruct acc as [[w1 o1]|s]; cbn [bind fst snd].
  - destruct Hacc as [HI1 Hc1]. eapply call_post_trans; eauto.
  - exact Hacc.
Qed.

Lemma body_ok (c : world -> nat -> list Z -> res (world * list Z)) (cs : list nat) :
  (forall w x orc, Inv w -> call_post w (c w x orc)) ->
  forall w orc, Inv w -> call_post w (body c cs w orc).
Proof.
  intros Hc w orc HI. unfold body. apply body_fold; [exact Hc| |exact I].
  cbn. split; [exact HI|apply cext_refl].
Qed.

(* body entered from a world w1 reached from w by the entry transition of f *)
Definition call_post_f (w : world) (f : nat) (r : res (world * list Z)) : Prop :=
  match r with
  | Ok (w', _) => Inv w' /\ cext w w' /\ settled w' f
  | Stuck s => all_linked w -> s <> SUndefined
  end.

Lemma enter_ok w w1 f r :
  Inv w1 -> cext w w1 -> settled w1 f -> call_post w1 r -> call_post_f w f r.
Proof.
  intros HI Hc Hs. destruct r as [[w' o]|s]; cbn.
  - intros [HI' Hc']. split; [exact HI'|]. split; [eapply cext_trans; eauto|].
    destruct Hc' as [_ [Hs' _]]. apply Hs'. exact Hs.
  - intros H Ha. apply H. eapply all_linked_cext; eauto.
Qed.

Lemma call_post_f_weaken w f r : call_post_f w f r -> call_post w r.
Proof. destruct r as [[w' o]|s]; cbn; [intros [A [B _]]; auto|auto]. Qed.

Section CallProofs.
  Variable callees : nat -> list nat.

  Lemma fn_same g :
    mkfn (addr g) (bytes g) (mcode g) (calladdr g) (data g) (linked g) (gens g) (wrap_entries g) = g.
  Proof. destruct g; reflexivity. Qed.

  Lemma call_ok fuel : forall w f orc, Inv w -> call_post_f w f (call callees fuel w f orc).
  Proof.
    induction fuel as [|fuel IH]; intros w f orc HI; cbn [call].
    { cbn. intros _; discriminate. }
    destruct (get_fn w f) as [g|] eqn:Eg; [|cbn; intros _; discriminate].
    pose proof (inv_fns _ HI _ _ Eg) as Hok.
    destruct (ok_tgt _ _ _ _ Hok) as [t [Hb [Ht Htgt]]].
    assert (Hj : jump_target (addr g) (bytes g) = Some t)
      by (rewrite Hb; apply redirect_decodes; exact Ht).
    rewrite Hj.
    assert (Hbody : forall w1 orc1, Inv w1 -> call_post w1 (body (call callees fuel) (callees f) w1 orc1)).
    { intros w1 orc1 HI1. apply body_ok; [|exact HI1].
      intros w2 x o2 HI2. apply (call_post_f_weaken w2 x). apply IH. exact HI2. }
    destruct Htgt as [[-> Hunl]|[Hne [k [Hl [Hkf [HkC HkB]]]]]].
    { (* thunk still points at undefined_interface: only when not linked *)
      rewrite Z.eqb_refl. cbn. intros Ha _. rewrite (Ha _ _ Eg) in Hunl. discriminate. }
    destruct (Z.eqb_spec t (undef_addr w)) as [|_]; [contradiction|].
    rewrite Hl.
    assert (Hcur : current_impl w f = Some k).
    { erewrite current_impl_of_tgt; eauto.
      destruct (Z.eqb_spec t (undef_addr w)); [contradiction|exact Hl]. }
    destruct k as [|f0|f0|f0|f0|f0]; cbn in Hkf; try discriminate;
      inversion Hkf; subst f0; clear Hkf.
    - (* interpreter shim *)
      destruct (data g) eqn:Ed.
      + set (g1 := mkfn (addr g) (bytes g) (mcode g) (calladdr g) DIcode (linked g) (gens g) (wrap_entries g)).
        assert (Hok1 : fn_ok (registry w) (undef_addr w) f g1).
        { constructor.
          - exists t. split; [exact Hb|]. split; [exact Ht|]. right. split; [exact Hne|].
            exists (KShim f). repeat split; auto; discriminate.
          - destruct (ok_mcok _ _ _ _ Hok) as [A B]. constructor; [exact A|exact B]. }
        apply (enter_ok w (put_fn w f g1) f); [eapply Inv_put; eauto| | |apply Hbody; eapply Inv_put; eauto].
        * split; [eapply ext_put; eauto; unfold fn_ext; cbn; repeat split; auto|]. split; [|split].
          -- intros f' Hs. destruct (Nat.eq_dec f f') as [<-|Hnf].
             ++ exists (KShim f). split; [|reflexivity].
                erewrite current_impl_of_tgt; [|eapply get_put_same; eauto|exact Hb|exact Ht].
                change (undef_addr (put_fn w f g1)) with (undef_addr w).
                destruct (Z.eqb_spec t (undef_addr w)); [contradiction|exact Hl].
             ++ eapply settled_other; eauto.
          -- intros f' Hn. eapply none_put; eauto.
          -- eapply (wrap_once_put w (put_fn w f g1) f g g1); [exact Eg|eapply get_put_same; eauto| |auto|left; reflexivity].
             intros f' Hne'. apply get_put_other. exact Hne'.
        * exists (KShim f). split; [|reflexivity].
          erewrite current_impl_of_tgt; [|eapply get_put_same; eauto|exact Hb|exact Ht].
          change (undef_addr (put_fn w f g1)) with (undef_addr w).
          destruct (Z.eqb_spec t (undef_addr w)); [contradiction|exact Hl].
      + set (g1 := mkfn (addr g) (bytes g) (mcode g) (calladdr g) DIcode (linked g) (gens g) (wrap_entries g)).
        assert (Hok1 : fn_ok (registry w) (undef_addr w) f g1).
        { constructor.
          - exists t. split; [exact Hb|]. split; [exact Ht|]. right. split; [exact Hne|].
            exists (KShim f). repeat split; auto; discriminate.
          - destruct (ok_mcok _ _ _ _ Hok) as [A B]. constructor; [exact A|exact B]. }
        apply (enter_ok w (put_fn w f g1) f); [eapply Inv_put; eauto| | |apply Hbody; eapply Inv_put; eauto].
        * split; [eapply ext_put; eauto; unfold fn_ext; cbn; repeat split; auto|]. split; [|split].
          -- intros f' Hs. destruct (Nat.eq_dec f f') as [<-|Hnf].
             ++ exists (KShim f). split; [|reflexivity].
                erewrite current_impl_of_tgt; [|eapply get_put_same; eauto|exact Hb|exact Ht].
                change (undef_addr (put_fn w f g1)) with (undef_addr w).
                destruct (Z.eqb_spec t (undef_addr w)); [contradiction|exact Hl].
             ++ eapply settled_other; eauto.
          -- intros f' Hn. eapply none_put; eauto.
          -- eapply (wrap_once_put w (put_fn w f g1) f g g1); [exact Eg|eapply get_put_same; eauto| |auto|left; reflexivity].
             intros f' Hne'. apply get_put_other. exact Hne'.
        * exists (KShim f). split; [|reflexivity].
          erewrite current_impl_of_tgt; [|eapply get_put_same; eauto|exact Hb|exact Ht].
          change (undef_addr (put_fn w f g1)) with (undef_addr w).
          destruct (Z.eqb_spec t (undef_addr w)); [contradiction|exact Hl].
      + cbn. intros _; discriminate.
    - (* lazy whole-function wrapper *)
      set (g0 := mkfn (addr g) (bytes g) (mcode g) (calladdr g) (data g) (linked g) (gens g)
                      (S (wrap_entries g))).
      assert (Hmc0 : mc_ok (registry w) (undef_addr w) f g0).
      { destruct (ok_mcok _ _ _ _ Hok) as [A B]. constructor; [exact A|exact B]. }
      assert (Hext0 : fn_ext g g0) by (unfold fn_ext; cbn; repeat split; auto).
      assert (Hgen : forall code orc1, call_post_f w f
                (bind (gen_full w f g0 code) (fun w1 => body (call callees fuel) (callees f) w1 orc1))).
      { intros code orc1. destruct (gen_full w f g0 code) as [w1|s] eqn:Egen; cbn [bind].
        - destruct (gen_full_ok _ _ _ _ _ _ HI Eg Hmc0 Hext0 Egen)
            as [HI1 [Hext1 [Hset1 [Hnone1 [Hoth1 [g' [Hg' [_ [Hwe Hcur1]]]]]]]]].
          assert (Hs1 : settled w1 f) by (exists (KCode f); split; [exact Hcur1|reflexivity]).
          eapply enter_ok; [exact HI1| |exact Hs1|apply Hbody; exact HI1].
          split; [exact Hext1|]. split; [|split; [exact Hnone1|]].
          + intros f' Hs. destruct (Nat.eq_dec f f') as [<-|Hnf]; [exact Hs1|auto].
          + eapply (wrap_once_put w w1 f g g'); [exact Eg|exact Hg'|exact Hoth1| |].
            * intros Hs. pose proof (settled_impl _ _ _ Hcur Hs) as Hn. discriminate.
            * right. split; [rewrite Hwe; reflexivity|exact Hs1].
        - cbn. unfold gen_full in Egen.
          destruct (data g0); try (inversion Egen; intros _; discriminate);
          (destruct (mcode g0); [destruct (calladdr g0)|destruct (fresh w code)];
            inversion Egen; intros _; discriminate). }
      destruct (mcode g) eqn:Em.
      + apply Hgen.
      + destruct orc as [|code orc']; [cbn; intros _; discriminate|]. apply Hgen.
    - (* lazy bb wrapper *)
      destruct (data g) eqn:Ed; try (cbn; intros _; discriminate).
      destruct (mcode g) eqn:Em; try (cbn; intros _; discriminate).
      destruct orc as [|bb orc']; [cbn; intros _; discriminate|].
      destruct (fresh w bb) eqn:Efr; [|cbn; intros _; discriminate].
      destruct (fresh_spec _ _ Efr) as [Hrange [Hbu Hbl]].
      set (g1 := mkfn (addr g) (redirect_bytes (addr g) bb) None (calladdr g) DBBStubs (linked g)
                      (gens g) (S (wrap_entries g))).
      assert (Hok1 : fn_ok ((bb, KBB f) :: registry w) (undef_addr w) f g1).
      { constructor.
        - exists bb. split; [reflexivity|]. split; [exact Hrange|]. right. split; [exact Hbu|].
          exists (KBB f). rewrite lookup_cons_same. repeat split; auto; discriminate.
        - constructor; [cbn; intros a Ha; discriminate|].
          left. split; [reflexivity|]. cbn.
          destruct (ok_gens _ _ _ _ (ok_mcok _ _ _ _ Hok)) as [[_ Hg]|[Hn _]]; [exact Hg|congruence]. }
      assert (HI1 : Inv (put_fn (publish w bb (KBB f)) f g1))
        by (eapply Inv_publish_put; eauto; discriminate).
      assert (Hs1 : settled (put_fn (publish w bb (KBB f)) f g1) f).
      { exists (KBB f). split; [|reflexivity].
        erewrite current_impl_of_tgt;
          [|eapply get_put_same; rewrite get_publish; eassumption|reflexivity|exact Hrange].
        change (undef_addr (put_fn (publish w bb (KBB f)) f g1)) with (undef_addr w).
        destruct (Z.eqb_spec bb (undef_addr w)); [contradiction|].
        change (registry (put_fn (publish w bb (KBB f)) f g1)) with ((bb, KBB f) :: registry w).
        apply lookup_cons_same. }
      eapply enter_ok; [exact HI1| |exact Hs1|apply Hbody; exact HI1].
      split; [eapply ext_publish_put; eauto; unfold fn_ext; cbn; repeat split; auto;
              intros a Ha; congruence|].
      split; [|split].
      + intros f' Hs. destruct (Nat.eq_dec f f') as [<-|Hnf]; [exact Hs1|].
        eapply settled_other_publish; eauto.
      + intros f' Hn. eapply (none_put (publish w bb (KBB f))); eauto.
      + eapply (wrap_once_put w (put_fn (publish w bb (KBB f)) f g1) f g g1);
          [exact Eg|eapply get_put_same; rewrite get_publish; eassumption| | |].
        * intros f' Hne'. rewrite get_put_other by exact Hne'. apply get_publish.
        * intros Hs. pose proof (settled_impl _ _ _ Hcur Hs) as Hn. discriminate.
        * right. split; [reflexivity|exact Hs1].
    - (* generated code *)
      eapply enter_ok; [exact HI|apply cext_refl| |apply Hbody; exact HI].
      exists (KCode f). split; [exact Hcur|reflexivity].
    - (* bb version entry *)
      eapply enter_ok; [exact HI|apply cext_refl| |apply Hbody; exact HI].
      exists (KBB f). split; [exact Hcur|reflexivity].
  Qed.
End CallProofs.

(* ------------------------------------------------------------------ steps and histories *)

Lemma nth_error_get w f : nth_error (fns w) f = Some None -> get_fn w f = None /\ (f < length (fns w))%nat.
Proof.
  intros H. split.
  - unfold get_fn. erewrite nth_error_nth; eauto.
  - apply nth_error_Some. congruence.
Qed.

Lemma get_put_same_lt w f g : (f < length (fns w))%nat -> get_fn (put_fn w f g) f = Some g.
Proof. intros H. unfold get_fn, put_fn. cbn. apply nth_set_nth_same. exact H. Qed.

Section StepProofs.
  Variable callees : nat -> list nat.

  Lemma step_ok w o w' : Inv w -> step callees w o = Ok w' -> Inv w' /\ ext w w'.
  Proof.
    intros HI Hs. destruct o as [f a|f shim|f code|f wa|f wa|f orc]; cbn [step] in Hs.
    - (* load *)
      destruct (nth_error (fns w) f) as [[g|]|] eqn:En; try discriminate.
      destruct (fresh w a) eqn:Efr; try discriminate. inversion Hs; subst w'; clear Hs.
      destruct (nth_error_get _ _ En) as [Hnone Hlt].
      destruct (fresh_spec _ _ Efr) as [Hrange [Hau Hal]].
      set (g1 := mkfn a (redirect_bytes a (undef_addr w)) None None DNone false 0 0).
      split.
      + destruct HI as [Hu Hr Hf]. constructor; [exact Hu|exact Hr|].
        intros f' g' Hg'. change (fn_ok (registry w) (undef_addr w) f' g').
        destruct (Nat.eq_dec f f') as [<-|Hne].
        * rewrite get_put_same_lt in Hg' by exact Hlt. inversion Hg'; subst g'.
          constructor.
          -- exists (undef_addr w). split; [reflexivity|]. split; [exact Hu|]. left. split; reflexivity.
          -- constructor; [cbn; intros m Hm; discriminate|left; split; reflexivity].
        * rewrite get_put_other in Hg' by exact Hne. apply Hf. exact Hg'.
      + unfold ext. split; [reflexivity|]. split; [apply set_nth_length|]. split; [auto|].
        intros f' g' Hg'. destruct (Nat.eq_dec f f') as [<-|Hne]; [congruence|].
        exists g'. split; [rewrite get_put_other by exact Hne; exact Hg'|apply fn_ext_refl].
    - (* set_interp *)
      destruct (get_fn w f) as [g|] eqn:Eg; try discriminate.
      destruct (fresh w shim) eqn:Efr; try discriminate. inversion Hs; subst w'; clear Hs.
      destruct (fresh_spec _ _ Efr) as [Hrange [Hau Hal]].
      pose proof (inv_fns _ HI _ _ Eg) as Hok.
      split.
      + eapply Inv_publish_put; eauto; [discriminate|]. constructor.
        * exists shim. split; [reflexivity|]. split; [exact Hrange|]. right. split; [exact Hau|].
          exists (KShim f). rewrite lookup_cons_same. repeat split; auto; discriminate.
        * apply mc_ok_mono; [exact Hal|]. destruct (ok_mcok _ _ _ _ Hok) as [A B].
          constructor; [exact A|exact B].
      + eapply ext_publish_put; eauto. unfold fn_ext; cbn. repeat split; auto.
    - (* set_gen / MIR_gen *)
      destruct (get_fn w f) as [g|] eqn:Eg; try discriminate.
      pose proof (inv_fns _ HI _ _ Eg) as Hok.
      assert (Hmc : mc_ok (registry w) (undef_addr w) f (mark_linked g)).
      { destruct (ok_mcok _ _ _ _ Hok) as [A B]. constructor; [exact A|exact B]. }
      assert (He : fn_ext g (mark_linked g)) by (unfold fn_ext; cbn; repeat split; auto).
      destruct (gen_full_ok _ _ _ _ _ _ HI Eg Hmc He Hs) as [HI' [He' _]]. split; assumption.
    - (* set_lazy *)
      destruct (get_fn w f) as [g|] eqn:Eg; try discriminate.
      destruct (fresh w wa) eqn:Efr; try discriminate. inversion Hs; subst w'; clear Hs.
      destruct (fresh_spec _ _ Efr) as [Hrange [Hau Hal]].
      pose proof (inv_fns _ HI _ _ Eg) as Hok.
      split.
      + eapply Inv_publish_put; eauto; [discriminate|]. constructor.
        * exists wa. split; [reflexivity|]. split; [exact Hrange|]. right. split; [exact Hau|].
          exists (KWrapFunc f). rewrite lookup_cons_same. repeat split; auto; discriminate.
        * apply mc_ok_mono; [exact Hal|]. destruct (ok_mcok _ _ _ _ Hok) as [A B].
          constructor; [exact A|exact B].
      + eapply ext_publish_put; eauto. unfold fn_ext; cbn. repeat split; auto.
    - (* set_lazy_bb *)
      destruct (get_fn w f) as [g|] eqn:Eg; try discriminate.
      destruct (fresh w wa) eqn:Efr; try discriminate. inversion Hs; subst w'; clear Hs.
      destruct (fresh_spec _ _ Efr) as [Hrange [Hau Hal]].
      pose proof (inv_fns _ HI _ _ Eg) as Hok.
      split.
      + eapply Inv_publish_put; eauto; [discriminate|]. constructor.
        * exists wa. split; [reflexivity|]. split; [exact Hrange|]. right. split; [exact Hau|].
          exists (KWrapBB f). rewrite lookup_cons_same. repeat split; auto; discriminate.
        * apply mc_ok_mono; [exact Hal|]. destruct (ok_mcok _ _ _ _ Hok) as [A B].
          constructor; [exact A|exact B].
      + eapply ext_publish_put; eauto. unfold fn_ext; cbn. repeat split; auto.
    - (* call *)
      pose proof (call_ok callees (S (length (fns w))) w f orc HI) as Hc.
      destruct (call callees (S (length (fns w))) w f orc) as [[w1 o1]|s]; cbn [bind fst] in Hs;
        try discriminate.
      inversion Hs; subst w'; clear Hs. destruct Hc as [HI' [[He _] _]]. split; assumption.
  Qed.

  Lemma run_ok ops : forall w w', Inv w -> run callees w ops = Ok w' -> Inv w' /\ ext w w'.
  Proof.
    induction ops as [|o ops IH]; intros w w' HI Hr; cbn [run] in Hr.
    - inversion Hr; subst. split; [exact HI|apply ext_refl].
    - destruct (step callees w o) as [w1|s] eqn:Es; cbn [bind] in Hr; try discriminate.
      destruct (step_ok _ _ _ HI Es) as [HI1 He1].
      destruct (IH _ _ HI1 Hr) as [HI' He']. split; [exact HI'|eapply ext_trans; eauto].
  Qed.

  Lemma init_Inv n u : 0 <= u < 2 ^ 64 -> Inv (init_world n u).
  Proof.
    intros Hu. constructor; cbn.
    - exact Hu.
    - intros a k H. discriminate.
    - intros f g H. unfold get_fn, init_world in H. cbn in H.
      destruct (Nat.lt_ge_cases f n) as [Hlt|Hge].
      + rewrite nth_repeat in H. discriminate.
      + rewrite nth_overflow in H by (rewrite repeat_length; exact Hge). discriminate.
  Qed.

  (* ---- the statements used in Properties_C03.v ---- *)

  Lemma addr_stable ops w w' f g :
    Inv w -> run callees w ops = Ok w' -> get_fn w f = Some g ->
    exists g', get_fn w' f = Some g' /\ addr g' = addr g.
  Proof.
    intros HI Hr Hg. destruct (run_ok _ _ _ HI Hr) as [_ [_ [_ [_ He]]]].
    destruct (He _ _ Hg) as [g' [Hg' [Ha _]]]. exists g'. split; assumption.
  Qed.

  Lemma mcode_stable ops w w' f g a :
    Inv w -> run callees w ops = Ok w' -> get_fn w f = Some g -> mcode g = Some a ->
    exists g', get_fn w' f = Some g' /\ mcode g' = Some a /\ calladdr g' = Some a /\ gens g' = 1%nat.
  Proof.
    intros HI Hr Hg Hm. destruct (run_ok _ _ _ HI Hr) as [HI' [_ [_ [_ He]]]].
    destruct (He _ _ Hg) as [g' [Hg' [_ [Hmc _]]]]. exists g'. split; [exact Hg'|].
    pose proof (Hmc _ Hm) as Hm'. split; [exact Hm'|].
    destruct (ok_mcok _ _ _ _ (inv_fns _ HI' _ _ Hg')) as [A B].
    split; [apply A; exact Hm'|]. destruct B as [[B _]|[_ B]]; [congruence|exact B].
  Qed.

  Lemma reaches_impl w f g :
    Inv w -> get_fn w f = Some g ->
    exists k, current_impl w f = Some k
      /\ ((k = KUndef /\ linked g = false) \/ (k <> KUndef /\ kind_func k = Some f))
      /\ (forall f', k = KCode f' -> exists a, mcode g = Some a /\ calladdr g = Some a
                                       /\ jump_target (addr g) (bytes g) = Some a).
  Proof.
    intros HI Hg. destruct (ok_tgt _ _ _ _ (inv_fns _ HI _ _ Hg)) as [t [Hb [Ht Htgt]]].
    rewrite (current_impl_of_tgt _ _ _ _ Hg Hb Ht).
    destruct Htgt as [[-> Hl]|[Hne [k [Hl [Hkf [HkC HkB]]]]]].
    - rewrite Z.eqb_refl. exists KUndef. split; [reflexivity|]. split; [left; auto|]. discriminate.
    - destruct (Z.eqb_spec t (undef_addr w)); [contradiction|]. exists k. split; [exact Hl|].
      split.
      + right. split; [|exact Hkf]. destruct (inv_reg _ HI _ _ Hl) as [_ [Hk _]]. exact Hk.
      + intros f' Hk. destruct (HkC _ Hk) as [H1 H2]. exists t. repeat split; auto.
        rewrite Hb. apply redirect_decodes. exact Ht.
  Qed.

  Lemma gens_le_1 w f g : Inv w -> get_fn w f = Some g -> (gens g <= 1)%nat.
  Proof.
    intros HI Hg. destruct (ok_gens _ _ _ _ (ok_mcok _ _ _ _ (inv_fns _ HI _ _ Hg))) as [[_ H]|[_ H]]; lia.
  Qed.

  Lemma call_not_undefined w f orc :
    Inv w -> all_linked w -> step callees w (OCall f orc) <> Stuck SUndefined.
  Proof.
    intros HI Ha. cbn [step].
    pose proof (call_ok callees (S (length (fns w))) w f orc HI) as Hc.
    destruct (call callees (S (length (fns w))) w f orc) as [[w1 o1]|s]; cbn [bind]; [discriminate|].
    cbn in Hc. intros E. inversion E; subst s. apply (Hc Ha). reflexivity.
  Qed.

  Lemma call_settles w f orc w' :
    Inv w -> step callees w (OCall f orc) = Ok w' ->
    settled w' f /\ forall f', settled w f' -> settled w' f'.
  Proof.
    intros HI Hs. cbn [step] in Hs.
    pose proof (call_ok callees (S (length (fns w))) w f orc HI) as Hc.
    destruct (call callees (S (length (fns w))) w f orc) as [[w1 o1]|s]; cbn [bind fst] in Hs;
      try discriminate.
    inversion Hs; subst w'. destruct Hc as [_ [[_ [Hset _]] Hsf]]. split; assumption.
  Qed.
  Lemma call_wrap_once w f orc w' :
    Inv w -> step callees w (OCall f orc) = Ok w' -> wrap_once w w'.
  Proof.
    intros HI Hs. cbn [step] in Hs.
    pose proof (call_ok callees (S (length (fns w))) w f orc HI) as Hc.
    destruct (call callees (S (length (fns w))) w f orc) as [[w1 o1]|s]; cbn [bind fst] in Hs;
      try discriminate.
    inversion Hs; subst w'. destruct Hc as [_ [[_ [_ [_ Hw]]] _]]. exact Hw.
  Qed.
End StepProofs.

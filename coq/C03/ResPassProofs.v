(* C03, round 3 (wave 7): of the three result walkers of coq/C03/ResPass.v the shim and generated code agree on every
   result list, whatever the interpreter's call stub accepts the other two place identically, and on every list
   without fall-through (at most two results per register class) the location of a result is the k-th return register
   of its class, k = the number of earlier results of the same class -- NOT its position in the result list. *)
From Coq Require Import List Bool Arith Lia.
From MirV Require Import C03.ResPass.
Import ListNotations.

Lemma ireg_agree : forall n, n < 2 -> shim_ireg n = ff_ireg n.
Proof. intros n H. destruct n as [|[|n]]; [reflexivity|reflexivity|lia]. Qed.

Lemma step_agree : forall s t, res_step shim_ireg s t = res_step ff_ireg s t.
Proof.
  intros s t. unfold res_step.
  destruct (is_sse t && (r_nx s <? 2)); [reflexivity|].
  destruct (is_ld t && (r_nf s <? 2)); [reflexivity|].
  destruct (r_ni s <? 2) eqn:E; [|reflexivity].
  apply Nat.ltb_lt in E. rewrite (ireg_agree _ E). reflexivity.
Qed.

Lemma walk_agree : forall ts s, res_walk shim_ireg s ts = res_walk ff_ireg s ts.
Proof.
  induction ts as [|t r IH]; intros s; simpl; [reflexivity|].
  rewrite step_agree. destruct (res_step ff_ireg s t) as [[l s']|]; [|reflexivity].
  rewrite IH. reflexivity.
Qed.

Lemma shim_gen_agree : forall ts, res_shim_walk ts = res_gen_walk ts.
Proof. intros ts. apply walk_agree. Qed.

(* whatever the call stub accepts, the fall-through walkers place identically *)
Lemma ff_step_sound : forall s t x, ff_res_step s t = Some x -> res_step ff_ireg s t = Some x.
Proof.
  intros s t x H. unfold res_step. destruct t; simpl in *.
  - destruct (r_nx s <? 2); [exact H|discriminate].
  - destruct (r_nx s <? 2); [exact H|discriminate].
  - destruct (r_nf s <? 2); [exact H|discriminate].
  - destruct (r_ni s <? 2); [exact H|discriminate].
Qed.

Lemma ff_walk_sound : forall ts s ls, ff_res_walk s ts = Some ls -> res_walk ff_ireg s ts = Some ls.
Proof.
  induction ts as [|t r IH]; intros s ls H; simpl in *; [exact H|].
  destruct (ff_res_step s t) as [[l s']|] eqn:E; [|discriminate].
  rewrite (ff_step_sound _ _ _ E).
  destruct (ff_res_walk s' r) as [ls'|] eqn:E2; [|discriminate].
  rewrite (IH _ _ E2). exact H.
Qed.

Lemma ff_accepts_all_agree : forall ts ls, res_ff_walk ts = Some ls ->
  res_shim_walk ts = Some ls /\ res_gen_walk ts = Some ls.
Proof.
  intros ts ls H. apply ff_walk_sound in H. split; [|exact H].
  unfold res_shim_walk. rewrite walk_agree. exact H.
Qed.

(* state invariant linking the counters to the results seen so far *)
Definition res_counts (seen : list rty) (s : rst) : Prop :=
  r_ni s = count_cls 0 seen /\ r_nx s = count_cls 1 seen /\ r_nf s = count_cls 2 seen.

Lemma count_app : forall c a t, count_cls c (a ++ [t]) = count_cls c a + (if cls t =? c then 1 else 0).
Proof.
  intros c a t. unfold count_cls. rewrite filter_app, app_length. simpl.
  destruct (cls t =? c); reflexivity.
Qed.

Lemma walk_spec : forall ts seen s,
  res_counts seen s -> res_plain (seen ++ ts) = true -> res_walk ff_ireg s ts = Some (spec_from seen ts).
Proof.
  induction ts as [|t r IH]; intros seen s [Hi [Hx Hf]] Hp; simpl; [reflexivity|].
  assert (Hp' : res_plain ((seen ++ [t]) ++ r) = true) by (rewrite <- app_assoc; exact Hp).
  unfold res_plain in Hp. apply andb_true_iff in Hp. destruct Hp as [Hp H2]. apply andb_true_iff in Hp. destruct Hp as [H0 H1].
  apply Nat.leb_le in H0, H1, H2.
  assert (A : forall c, count_cls c (seen ++ t :: r) >= count_cls c seen + (if cls t =? c then 1 else 0)).
  { intros c. unfold count_cls. rewrite filter_app, app_length. simpl. destruct (cls t =? c); simpl; lia. }
  pose proof (A 0) as A0. pose proof (A 1) as A1. pose proof (A 2) as A2.
  unfold res_step.
  destruct t; simpl in *.
  - assert (E : r_nx s <? 2 = true) by (apply Nat.ltb_lt; lia). rewrite E.
    rewrite (IH (seen ++ [TF]) _); [rewrite Hx; reflexivity| |exact Hp'].
    unfold res_counts; simpl. rewrite !count_app. simpl. lia.
  - assert (E : r_nx s <? 2 = true) by (apply Nat.ltb_lt; lia). rewrite E.
    rewrite (IH (seen ++ [TD]) _); [rewrite Hx; reflexivity| |exact Hp'].
    unfold res_counts; simpl. rewrite !count_app. simpl. lia.
  - assert (E : r_nf s <? 2 = true) by (apply Nat.ltb_lt; lia). rewrite E.
    rewrite (IH (seen ++ [TLD]) _); [rewrite Hf; reflexivity| |exact Hp'].
    unfold res_counts; simpl. rewrite !count_app. simpl. lia.
  - assert (E : r_ni s <? 2 = true) by (apply Nat.ltb_lt; lia). rewrite E.
    rewrite (IH (seen ++ [TInt]) _); [| |exact Hp'].
    + rewrite Hi. unfold ff_ireg. destruct (count_cls 0 seen); reflexivity.
    + unfold res_counts; simpl. rewrite !count_app. simpl. lia.
Qed.

Lemma ff_walk_spec : forall ts seen s,
  res_counts seen s -> res_plain (seen ++ ts) = true -> ff_res_walk s ts = Some (spec_from seen ts).
Proof.
  induction ts as [|t r IH]; intros seen s [Hi [Hx Hf]] Hp; simpl; [reflexivity|].
  assert (Hp' : res_plain ((seen ++ [t]) ++ r) = true) by (rewrite <- app_assoc; exact Hp).
  unfold res_plain in Hp. apply andb_true_iff in Hp. destruct Hp as [Hp H2]. apply andb_true_iff in Hp. destruct Hp as [H0 H1].
  apply Nat.leb_le in H0, H1, H2.
  assert (A : forall c, count_cls c (seen ++ t :: r) >= count_cls c seen + (if cls t =? c then 1 else 0)).
  { intros c. unfold count_cls. rewrite filter_app, app_length. simpl. destruct (cls t =? c); simpl; lia. }
  pose proof (A 0) as A0. pose proof (A 1) as A1. pose proof (A 2) as A2.
  destruct t; simpl in *.
  - assert (E : r_nx s <? 2 = true) by (apply Nat.ltb_lt; lia). rewrite E.
    rewrite (IH (seen ++ [TF]) _); [rewrite Hx; reflexivity| |exact Hp'].
    unfold res_counts; simpl. rewrite !count_app. simpl. lia.
  - assert (E : r_nx s <? 2 = true) by (apply Nat.ltb_lt; lia). rewrite E.
    rewrite (IH (seen ++ [TD]) _); [rewrite Hx; reflexivity| |exact Hp'].
    unfold res_counts; simpl. rewrite !count_app. simpl. lia.
  - assert (E : r_nf s <? 2 = true) by (apply Nat.ltb_lt; lia). rewrite E.
    rewrite (IH (seen ++ [TLD]) _); [rewrite Hf; reflexivity| |exact Hp'].
    unfold res_counts; simpl. rewrite !count_app. simpl. lia.
  - assert (E : r_ni s <? 2 = true) by (apply Nat.ltb_lt; lia). rewrite E.
    rewrite (IH (seen ++ [TInt]) _); [| |exact Hp'].
    + rewrite Hi. unfold ff_ireg. destruct (count_cls 0 seen); reflexivity.
    + unfold res_counts; simpl. rewrite !count_app. simpl. lia.
Qed.

Lemma walkers_meet_spec : forall ts, res_plain ts = true ->
  res_shim_walk ts = Some (res_spec ts) /\ res_ff_walk ts = Some (res_spec ts) /\ res_gen_walk ts = Some (res_spec ts).
Proof.
  intros ts Hp.
  assert (H : res_ff_walk ts = Some (res_spec ts)).
  { apply ff_walk_spec; [unfold res_counts, r_init; simpl; auto | exact Hp]. }
  destruct (ff_accepts_all_agree _ _ H) as [H1 H2]. auto.
Qed.

Lemma result_agreement : forall ts,
  res_shim_walk ts = res_gen_walk ts /\
  (forall ls, res_ff_walk ts = Some ls -> res_shim_walk ts = Some ls /\ res_gen_walk ts = Some ls).
Proof. intros ts. split; [exact (shim_gen_agree ts)|exact (ff_accepts_all_agree ts)]. Qed.

(* the neighbourhood of the seeded change: an integer result AFTER a floating one is in rax *)
Lemma int_after_fp_in_rax : res_shim_walk [TD; TInt] = Some [Xmm 0; Gpr 0] /\ res_shim_walk [TF; TInt] = Some [Xmm 0; Gpr 0]
  /\ res_shim_walk [TLD; TInt] = Some [St 0; Gpr 0] /\ res_shim_walk [TInt; TD; TInt] = Some [Gpr 0; Xmm 0; Gpr 2].
Proof. repeat split; reflexivity. Qed.

(* C03 -- the x86-64 function thunk (mir-x86_64.c: short_jmp_pattern, long_jmp_pattern,
   _MIR_get_thunk, _MIR_get_thunk_addr, _MIR_redirect_thunk) at byte level, a two-instruction
   decoder standing for what the CPU does when control reaches the thunk, and the per-function
   redirection state machine driven by MIR_load_module / MIR_set_*_interface / MIR_gen / calls
   through item->addr (mir.c:1927-1934, mir-interp.c:2046-2052, mir-gen.c:9277-9305,9474-9503,
   9755-9785,10002-10013).  Definitions only; proofs are in ThunkProofs.v. *)
From Coq Require Import ZArith List Bool Lia.
From MirV Require Import Base.W64.
Import ListNotations.
Local Open Scope Z_scope.

(* ------------------------------------------------------------------ bytes *)

(* n little-endian bytes of z (memcpy of the low n bytes of an integer object) *)
Fixpoint le_bytes (n : nat) (z : Z) : list Z :=
  match n with
  | O => []
  | S k => (z mod 256) :: le_bytes k (z / 256)
  end.

(* value of a little-endian byte string *)
Fixpoint of_le (l : list Z) : Z :=
  match l with
  | [] => 0
  | b :: r => b + 256 * of_le r
  end.

(* memcpy (pat + off, bs, length bs) on a byte array *)
Definition patch (pat : list Z) (off : nat) (bs : list Z) : list Z :=
  firstn off pat ++ bs ++ skipn (off + length bs) pat.

Definition short_jmp_pattern : list Z :=
  [0xe9; 0; 0; 0; 0;              (* 0x0: jmp rel32 *)
   0; 0; 0; 0; 0; 0; 0; 0].       (* 0x5: abs address holder *)
Definition long_jmp_pattern : list Z :=
  [0x49; 0xbb; 0; 0; 0; 0; 0; 0; 0; 0;   (* 0x0: movabsq 0, r11 *)
   0x41; 0xff; 0xe3].                    (* 0xa: jmpq *%r11 *)

Definition thunk_size : nat := 13.

Definition INT32_MIN : Z := - 2 ^ 31.
Definition INT32_MAX : Z := 2 ^ 31 - 1.

(* int64_t disp = (char * ) to - ((char * ) thunk + 5);   -- 64-bit wrapping subtraction *)
Definition redirect_disp (thunk to : Z) : Z := s64 (to - (thunk + 5)).
Definition redirect_short_p (thunk to : Z) : bool :=
  let disp := redirect_disp thunk to in (INT32_MIN <=? disp) && (disp <=? INT32_MAX).

(* the 13 bytes _MIR_redirect_thunk writes over the thunk with _MIR_change_code *)
Definition redirect_bytes (thunk to : Z) : list Z :=
  if redirect_short_p thunk to then
    patch (patch short_jmp_pattern 1 (le_bytes 4 (redirect_disp thunk to))) 5 (le_bytes 8 to)
  else
    patch long_jmp_pattern 2 (le_bytes 8 to).

(* what _MIR_get_thunk publishes *)
Definition fresh_thunk_bytes : list Z := short_jmp_pattern.

(* _MIR_get_thunk_addr: short_p = first byte is 0xe9; read 8 bytes at offset 5 or 2 *)
Definition get_thunk_addr (code : list Z) : Z :=
  let short_p := match code with b :: _ => b =? 0xe9 | [] => false end in
  of_le (firstn 8 (skipn (if short_p then 5 else 2) code)).

(* ------------------------------------------------------------------ decoder *)
(* The three instruction forms a thunk can contain, decoded as the processor does. *)
Inductive insn : Type :=
| JmpRel32 (d : Z)        (* e9 cd          jmp rel32, d sign-extended *)
| MovabsR11 (imm : Z)     (* 49 bb io       movabs $imm64,%r11 *)
| JmpR11.                 (* 41 ff e3       jmp *%r11 *)

Definition decode (code : list Z) : option (insn * nat) :=
  match code with
  | b0 :: r0 =>
    if b0 =? 0xe9 then
      match r0 with
      | b1 :: b2 :: b3 :: b4 :: _ => Some (JmpRel32 (s32 (of_le [b1; b2; b3; b4])), 5%nat)
      | _ => None
      end
    else if b0 =? 0x49 then
      match r0 with
      | b1 :: i0 :: i1 :: i2 :: i3 :: i4 :: i5 :: i6 :: i7 :: _ =>
        if b1 =? 0xbb then Some (MovabsR11 (of_le [i0; i1; i2; i3; i4; i5; i6; i7]), 10%nat) else None
      | _ => None
      end
    else if b0 =? 0x41 then
      match r0 with
      | b1 :: b2 :: _ => if (b1 =? 0xff) && (b2 =? 0xe3) then Some (JmpR11, 3%nat) else None
      | _ => None
      end
    else None
  | [] => None
  end.

(* Where control goes when a call/jump lands on a thunk located at [thunk] holding [code]:
   rip-relative jump, or load r11 then jump through it.  None = not a jump we understand. *)
Definition jump_target (thunk : Z) (code : list Z) : option Z :=
  match decode code with
  | Some (JmpRel32 d, n) => Some (u64 (thunk + Z.of_nat n + d))
  | Some (MovabsR11 imm, n) =>
    match decode (skipn n code) with
    | Some (JmpR11, _) => Some imm
    | _ => None
    end
  | _ => None
  end.

Definition bytes_ok (l : list Z) : bool := forallb (fun b => (0 <=? b) && (b <? 256)) l.

(* ------------------------------------------------------------------ bb thunks *)
(* _MIR_get_bb_thunk / _MIR_replace_bb_thunk (mir-x86_64.c:826-848) truncate the displacement to
   int32 without a range check.  Modelled with the truncation. *)
Definition bb_thunk_pattern : list Z :=
  [0x49; 0xba; 0; 0; 0; 0; 0; 0; 0; 0;   (* movabsq 0, r10 *)
   0xe9; 0; 0; 0; 0].                    (* jmpq rel32 *)
Definition replace_bb_thunk_bytes (old : list Z) (thunk to : Z) : list Z :=
  patch (patch old 0 [0xe9]) 1 (le_bytes 4 (to - (thunk + 5))).
Definition bb_thunk_size : nat := 15.
(* _MIR_get_bb_thunk (ctx, bb_version, handler): the pattern with bb_version at offset 2 and
   disp = (int32_t) (handler - (res + sizeof (pattern))) at offset 11 *)
Definition get_bb_thunk_bytes (thunk bbv handler : Z) : list Z :=
  patch (patch bb_thunk_pattern 2 (le_bytes 8 bbv)) 11 (le_bytes 4 (handler - (thunk + 15))).
(* what the CPU does with a fresh bb thunk: r10 := imm64, then jmp rel32 -- (value of r10, target) *)
Definition bb_thunk_exec (thunk : Z) (code : list Z) : option (Z * Z) :=
  match code with
  | b0 :: b1 :: i0 :: i1 :: i2 :: i3 :: i4 :: i5 :: i6 :: i7 :: j :: d0 :: d1 :: d2 :: d3 :: _ =>
    if (b0 =? 0x49) && (b1 =? 0xba) && (j =? 0xe9)
    then Some (of_le [i0; i1; i2; i3; i4; i5; i6; i7], u64 (thunk + 15 + s32 (of_le [d0; d1; d2; d3])))
    else None
  | _ => None
  end.

(* ------------------------------------------------------------------ state machine *)

(* what lives at a published code address *)
Inductive kind : Type :=
| KUndef                  (* undefined_interface (C function in mir.c) *)
| KShim (f : nat)         (* _MIR_get_interp_shim (ctx, f, interp) *)
| KWrapFunc (f : nat)     (* _MIR_get_wrapper (ctx, f, generate_func_and_redirect_to_func_code) *)
| KWrapBB (f : nat)       (* _MIR_get_wrapper (ctx, f, generate_func_and_redirect_to_bb_gen) *)
| KCode (f : nat)         (* whole-function machine code of f *)
| KBB (f : nat).          (* entry bb version of f (lazy bb generation) *)

Definition kind_func (k : kind) : option nat :=
  match k with
  | KUndef => None
  | KShim f | KWrapFunc f | KWrapBB f | KCode f | KBB f => Some f
  end.

Definition kind_eqb (a b : kind) : bool :=
  match a, b with
  | KUndef, KUndef => true
  | KShim f, KShim g | KWrapFunc f, KWrapFunc g | KWrapBB f, KWrapBB g
  | KCode f, KCode g | KBB f, KBB g => Nat.eqb f g
  | _, _ => false
  end.

(* func_item->data *)
Inductive fdata : Type := DNone | DIcode | DBBStubs.

Record fn : Type := mkfn {
  addr : Z;                  (* item->addr: the thunk *)
  bytes : list Z;            (* the 13 bytes currently at addr *)
  mcode : option Z;          (* func->machine_code *)
  calladdr : option Z;       (* func->call_addr *)
  data : fdata;              (* func_item->data *)
  linked : bool;             (* an interface was set since the load *)
  gens : nat;                (* how many times whole-function code was really produced *)
  wrap_entries : nat         (* how many times a lazy wrapper of this function ran its hook *)
}.

Record world : Type := mkworld {
  fns : list (option fn);        (* by function index; None = module not loaded yet *)
  registry : list (Z * kind);    (* published code addresses and what they are *)
  undef_addr : Z                 (* address of undefined_interface *)
}.

Definition lookup (r : list (Z * kind)) (a : Z) : option kind :=
  match find (fun p => fst p =? a) r with
  | Some p => Some (snd p)
  | None => None
  end.

Definition in_u64 (a : Z) : bool := (0 <=? a) && (a <? 2 ^ 64).

Definition thunk_used (fs : list (option fn)) (a : Z) : bool :=
  existsb (fun o => match o with Some g => addr g =? a | None => false end) fs.

(* a code address handed out by _MIR_publish_code must be new *)
Definition fresh (w : world) (a : Z) : bool :=
  in_u64 a && negb (a =? undef_addr w)
  && match lookup (registry w) a with None => true | Some _ => false end
  && negb (thunk_used (fns w) a).

Definition get_fn (w : world) (f : nat) : option fn := nth f (fns w) None.

Fixpoint set_nth {A} (l : list A) (n : nat) (x : A) : list A :=
  match l, n with
  | [], _ => []
  | _ :: r, O => x :: r
  | y :: r, S k => y :: set_nth r k x
  end.

Definition put_fn (w : world) (f : nat) (g : fn) : world :=
  mkworld (set_nth (fns w) f (Some g)) (registry w) (undef_addr w).
Definition publish (w : world) (a : Z) (k : kind) : world :=
  mkworld (fns w) ((a, k) :: registry w) (undef_addr w).

Definition redirect (g : fn) (to : Z) : fn :=
  mkfn (addr g) (redirect_bytes (addr g) to) (mcode g) (calladdr g) (data g) (linked g) (gens g)
       (wrap_entries g).

Inductive stuck : Type :=
| SUndefined     (* control reached undefined_interface: what the property forbids after link *)
| SInvalid       (* the history breaks an API precondition (asserted in the C code) *)
| SOracle.       (* the supplied address is not fresh / function index out of range / fuel *)

Inductive res (A : Type) : Type := Ok (x : A) | Stuck (s : stuck).
Arguments Ok {A} x.
Arguments Stuck {A} s.

Definition bind {A B} (r : res A) (k : A -> res B) : res B :=
  match r with Ok x => k x | Stuck s => Stuck s end.

(* generate_func_code (ctx, f, TRUE): early return when machine_code != NULL *)
Definition gen_full (w : world) (f : nat) (g : fn) (code : Z) : res world :=
  match data g with
  | DBBStubs => Stuck SInvalid     (* bb stubs in func_item->data: the function's insns are in generator form *)
  | _ =>                           (* NULL, or the interpreter's code: saved and put back (saved_data) *)
    match mcode g, calladdr g with
    | Some _, Some ca => Ok (put_fn w f (redirect g ca))
    | Some _, None => Stuck SInvalid
    | None, _ =>
      if fresh w code then
        let g1 := mkfn (addr g) (redirect_bytes (addr g) code) (Some code) (Some code) (data g)
                       (linked g) (S (gens g)) (wrap_entries g) in
        Ok (put_fn (publish w code (KCode f)) f g1)
      else Stuck SOracle
    end
  end.

Definition mark_linked (g : fn) : fn :=
  mkfn (addr g) (bytes g) (mcode g) (calladdr g) (data g) true (gens g) (wrap_entries g).

Inductive op : Type :=
| OLoad (f : nat) (a : Z)            (* MIR_load_module: new thunk at a, redirected to undefined *)
| OSetInterp (f : nat) (shim : Z)    (* MIR_set_interp_interface *)
| OSetGen (f : nat) (code : Z)       (* MIR_set_gen_interface / MIR_gen *)
| OSetLazy (f : nat) (w : Z)         (* MIR_set_lazy_gen_interface *)
| OSetLazyBB (f : nat) (w : Z)       (* MIR_set_lazy_bb_gen_interface *)
| OCall (f : nat) (oracle : list Z). (* a call through item->addr; oracle = addresses the
                                        generator publishes during the call, in order *)

(* the body of a function: its calls, in order, each through the callee's thunk (or, after eager
   generation, directly to the callee's code, which is the same implementation) *)
Definition body (c : world -> nat -> list Z -> res (world * list Z)) (cs : list nat)
           (w : world) (orc : list Z) : res (world * list Z) :=
  fold_left (fun acc x => bind acc (fun p => c (fst p) x (snd p))) cs (Ok (w, orc)).

Section Calls.
  (* static call graph of the program: the functions f's body calls, in order *)
  Variable callees : nat -> list nat.

  (* One activation of function f entered through its thunk.  The oracle list supplies the
     addresses of code published on the way; it is threaded through the nested calls. *)
  Fixpoint call (fuel : nat) (w : world) (f : nat) (orc : list Z) : res (world * list Z) :=
    match fuel with
    | O => Stuck SOracle
    | S fuel' =>
      match get_fn w f with
      | None => Stuck SOracle
      | Some g =>
        match jump_target (addr g) (bytes g) with
        | None => Stuck SInvalid
        | Some t =>
          let enter_body := body (call fuel') (callees f) in
          if t =? undef_addr w then Stuck SUndefined
          else
            match lookup (registry w) t with
            | None => Stuck SInvalid
            | Some KUndef => Stuck SUndefined
            | Some (KShim _) =>
              (* interp: generate_icode on first use *)
              match data g with
              | DBBStubs => Stuck SInvalid
              | _ => enter_body (put_fn w f (mkfn (addr g) (bytes g) (mcode g) (calladdr g) DIcode
                                                   (linked g) (gens g) (wrap_entries g))) orc
              end
            | Some (KWrapFunc _) =>
              (* generate_func_and_redirect_to_func_code: returns machine_code, wrapper jumps there *)
              let g0 := mkfn (addr g) (bytes g) (mcode g) (calladdr g) (data g) (linked g) (gens g)
                             (S (wrap_entries g)) in
              match mcode g, orc with
              | Some _, _ => bind (gen_full w f g0 0) (fun w1 => enter_body w1 orc)
              | None, code :: orc' => bind (gen_full w f g0 code) (fun w1 => enter_body w1 orc')
              | None, [] => Stuck SOracle
              end
            | Some (KWrapBB _) =>
              (* generate_func_and_redirect_to_bb_gen: CFG built, bb stubs created, thunk
                 redirected to the entry bb version, hook returns func_item->addr *)
              match data g, mcode g, orc with
              | DNone, None, bb :: orc' =>
                if fresh w bb then
                  let g1 := mkfn (addr g) (redirect_bytes (addr g) bb) None (calladdr g) DBBStubs
                                 (linked g) (gens g) (S (wrap_entries g)) in
                  enter_body (put_fn (publish w bb (KBB f)) f g1) orc'
                else Stuck SOracle
              | DNone, None, [] => Stuck SOracle
              | _, _, _ => Stuck SInvalid
              end
            | Some (KCode _) => enter_body w orc
            | Some (KBB _) => enter_body w orc
            end
        end
      end
    end.

  Definition step (w : world) (o : op) : res world :=
    match o with
    | OLoad f a =>
      match nth_error (fns w) f with
      | Some None =>
        if fresh w a then
          Ok (put_fn w f (mkfn a (redirect_bytes a (undef_addr w)) None None DNone false 0 0))
        else Stuck SOracle
      | Some (Some _) => Stuck SInvalid
      | None => Stuck SOracle
      end
    | OSetInterp f shim =>
      match get_fn w f with
      | Some g => if fresh w shim
                  then Ok (put_fn (publish w shim (KShim f)) f (mark_linked (redirect g shim)))
                  else Stuck SOracle
      | None => Stuck SOracle
      end
    | OSetGen f code =>
      match get_fn w f with
      | Some g => gen_full w f (mark_linked g) code
      | None => Stuck SOracle
      end
    | OSetLazy f wa =>
      match get_fn w f with
      | Some g => if fresh w wa
                  then Ok (put_fn (publish w wa (KWrapFunc f)) f (mark_linked (redirect g wa)))
                  else Stuck SOracle
      | None => Stuck SOracle
      end
    | OSetLazyBB f wa =>
      match get_fn w f with
      | Some g => if fresh w wa
                  then Ok (put_fn (publish w wa (KWrapBB f)) f (mark_linked (redirect g wa)))
                  else Stuck SOracle
      | None => Stuck SOracle
      end
    | OCall f orc =>
      bind (call (S (length (fns w))) w f orc) (fun p => Ok (fst p))
    end.

  Fixpoint run (w : world) (ops : list op) : res world :=
    match ops with
    | [] => Ok w
    | o :: r => bind (step w o) (fun w1 => run w1 r)
    end.
End Calls.

Definition init_world (nfuncs : nat) (undef : Z) : world :=
  mkworld (repeat None nfuncs) [] undef.

(* the implementation a call through f's public address reaches right now *)
Definition current_impl (w : world) (f : nat) : option kind :=
  match get_fn w f with
  | Some g =>
    match jump_target (addr g) (bytes g) with
    | Some t => if t =? undef_addr w then Some KUndef else lookup (registry w) t
    | None => None
    end
  | None => None
  end.

(* C03, round 3 (wave z): the region the library makes writable before it patches published machine code
   (mir.c _MIR_change_code / _MIR_update_code_arr -> _MIR_set_code -> mem_protect).  Definitions only.

   Every switch from one implementation of a function to another ends in such a patch: _MIR_redirect_thunk,
   _MIR_replace_bb_thunk, the `call *const(%rip)` -> `rex call rel32` rewriting of change_calls, the rel32 rewriting of
   target_change_to_direct_calls, the origin-branch patching of lazy-BB code (setup_rel32), the absolute addresses of
   switch tables (target_rebase).  The code pages are read/exec; the patch is a memcpy between two mem_protect calls.
   The memory protection works on whole pages: a request (start, len) with a page-aligned start makes the pages
   [start, round_up (start + len)) writable. *)
From Coq Require Import ZArith List.
Import ListNotations.
Local Open Scope Z_scope.

Definition page_down (page a : Z) : Z := a / page * page.
Definition page_up (page a : Z) : Z := (a + page - 1) / page * page.

(* start = (size_t) addr / page_size * page_size;  len = (size_t) addr + code_len - start; *)
Definition change_code_region (page addr n : Z) : Z * Z :=
  let start := addr / page * page in (start, addr + n - start).

(* for (i...) if (max_offset < relocs[i].offset) max_offset = relocs[i].offset; *)
Definition max_offset (offs : list Z) : Z := fold_left Z.max offs 0.

(* start = (size_t) base / page_size * page_size;  len = (size_t) base + max_offset + sizeof (void * ) - start; *)
Definition update_code_region (page base : Z) (offs : list Z) : Z * Z :=
  let start := base / page * page in (start, base + max_offset offs + 8 - start).

(* the pages a mem_protect (start, len) request covers: [lo, hi) *)
Definition protected (page : Z) (r : Z * Z) : Z * Z :=
  (page_down page (fst r), page_up page (fst r + snd r)).

(* all bytes [a, a + n) lie in pages made writable *)
Definition writable (page : Z) (r : Z * Z) (a n : Z) : Prop :=
  fst (protected page r) <= a /\ a + n <= snd (protected page r).

(* C12: the decoder reads back every well-formed element sequence, hence everything the encoder
   writes: decode (encode data) = Accept data. *)
From Coq Require Import ZArith NArith List Bool Lia ZifyBool ZifyNat ZifyN.
From MirV Require Import gen.ReduceParams C12.Arr C12.ArrProofs C12.Hash C12.Reduce C12.CodecProofs
  C12.DecodeProofs C12.EncodeProofs C12.Elems C12.EncLoopProofs.
Import ListNotations.
Local Open Scope N_scope.
Ltac Zify.zify_post_hook ::= Z.div_mod_to_equations.

Ltac plia := unfold MAX_SYMB_LEN, START_LEN, BUF_LEN, REF_TAG_LONG, SYMB_TAG_LONG, M32 in *; lia.

Lemma take_nat_exact (a b : list N) : take_nat (length a) (a ++ b) = Some (a, b).
Proof. induction a as [|x a IH]; cbn [length take_nat app]; [reflexivity | rewrite IH; reflexivity]. Qed.

Section Dec.
Variable chunk : list N.
Variable np : N -> N.
Variables i2p0 buf0 : N -> N.
Let clen := N.of_nat (length chunk).
Hypothesis Hclen : clen <= BUF_LEN.

(* the decoder state after chunk[0..pos) has been rebuilt with cnt symbol numbers *)
Definition drep (st : dstate) (pos cnt : N) : Prop :=
  d_pos st = pos /\ d_ind st = cnt /\ cnt <= pos /\
  (forall i, i < pos -> aget buf0 (d_buf st) i = cb chunk i) /\
  (forall k, k < cnt -> aget i2p0 (d_i2p st) k = np k).

Lemma dec_sym_ser st pos cnt syms n r :
  n = N.of_nat (length syms) ->
  drep st pos cnt ->
  n <= MAX_SYMB_LEN -> pos + n <= clen -> syms_at chunk pos syms -> nums_at np pos cnt n ->
  r <= REF_TAG_LONG -> (0 < n \/ 0 < r) ->
  exists tag body st1,
    ser_sym syms r = tag :: body /\ tag <> 0 /\ tag mod (REF_TAG_LONG + 1) = r /\
    (forall rest, dec_sym true st tag (body ++ rest) = ECont st1 rest) /\
    drep st1 (pos + n) (cnt + n).
Proof.
  intros Hn (Hp & Hi & Hcp & Hb & Hq) HM Hpn Hsy Hnu Hr Hnz.
  unfold ser_sym, symb_flush_out. rewrite rev'_rev, <- Hn.
  replace ((n =? 0) && (r =? 0)) with false by lia.
  set (s := if n <? SYMB_TAG_LONG then n else SYMB_TAG_LONG).
  set (tag := s * (REF_TAG_LONG + 1) + r).
  assert (Hs : s <= SYMB_TAG_LONG) by (unfold s; destruct (N.ltb_spec n SYMB_TAG_LONG); lia).
  destruct (tag_roundtrip s r Hs Hr) as (T1 & T2 & T3). fold tag in T1, T2, T3.
  destruct (N.eq_dec n 0) as [E0|E0].
  - (* no symbols: only the tag *)
    assert (syms = []) by (destruct syms; [reflexivity | cbn in Hn; lia]). subst syms.
    assert (s = 0) by (unfold s; destruct (N.ltb_spec n SYMB_TAG_LONG); plia).
    exists tag, [], st. rewrite E0.
    replace (SYMB_TAG_LONG <=? 0) with false by plia. cbn [app].
    repeat split.
    + plia.
    + exact T2.
    + intros rest. unfold dec_sym. rewrite T1. replace (s =? 0) with true by lia. reflexivity.
    + rewrite N.add_0_r. exact Hp.
    + rewrite N.add_0_r. exact Hi.
    + lia.
    + rewrite N.add_0_r. exact Hb.
    + rewrite N.add_0_r. exact Hq.
  - set (st1 := {| d_buf := awrite (d_buf st) (d_pos st) syms;
                   d_i2p := awrite_seq (d_i2p st) (d_ind st) (d_pos st) (length syms);
                   d_pos := d_pos st + n; d_ind := d_ind st + n |}).
    exists tag, ((if SYMB_TAG_LONG <=? n then uint_write n else []) ++ syms), st1.
    assert (Hs0 : s <> 0) by (unfold s; destruct (N.ltb_spec n SYMB_TAG_LONG); plia).
    repeat split.
    + plia.
    + exact T2.
    + intros rest. unfold dec_sym. rewrite T1. replace (s =? 0) with false by lia.
      assert (HO : opt_uint true (s =? SYMB_TAG_LONG) s
                     (((if SYMB_TAG_LONG <=? n then uint_write n else []) ++ syms) ++ rest)
                   = Some (n, syms ++ rest)).
      { unfold s, opt_uint. destruct (N.ltb_spec n SYMB_TAG_LONG) as [Hlt|Hge].
        - replace (n =? SYMB_TAG_LONG) with false by lia.
          replace (SYMB_TAG_LONG <=? n) with false by lia. reflexivity.
        - rewrite N.eqb_refl. replace (SYMB_TAG_LONG <=? n) with true by lia.
          rewrite <- app_assoc. apply uint_read_write. plia. }
      rewrite HO.
      replace ((MAX_SYMB_LEN <? n) || (BUF_LEN <? d_pos st + n)) with false by lia.
      rewrite Hn, Nat2N.id, take_nat_exact, <- Hn.
      replace (BUF_LEN <? d_pos st + n) with false by lia.
      replace (BUF_LEN <? d_ind st + n) with false by lia.
      reflexivity.
    + cbn. lia.
    + cbn. lia.
    + lia.
    + intros i Hi'. cbn [st1 d_buf]. rewrite aget_awrite, Hp, <- Hn.
      destruct (N.leb_spec pos i) as [Hge|Hlt]; cbn [andb].
      * replace (i <? pos + n) with true by lia.
        rewrite Hsy by lia. f_equal. lia.
      * apply Hb. exact Hlt.
    + intros k Hk. cbn [st1 d_i2p]. rewrite aget_awrite_seq, Hi, Hp, <- Hn.
      destruct (N.leb_spec cnt k) as [Hge|Hlt]; cbn [andb].
      * replace (k <? cnt + n) with true by lia.
        specialize (Hnu (k - cnt) ltac:(lia)). replace (cnt + (k - cnt)) with k in Hnu by lia. lia.
      * apply Hq. exact Hlt.
Qed.

Lemma dec_ref_ser st pos cnt tag len off :
  drep st pos cnt ->
  tag mod (REF_TAG_LONG + 1) = ref_tag_of len ->
  START_LEN <= len -> 1 <= off -> off <= cnt ->
  np cnt = pos -> np (cnt - off) + len <= pos -> pos + len <= clen ->
  (forall i, i < len -> cb chunk (np (cnt - off) + i) = cb chunk (pos + i)) ->
  exists st2, (forall rest, dec_ref true i2p0 buf0 st tag (ser_ref len off ++ rest) = ECont st2 rest)
              /\ drep st2 (pos + len) (cnt + 1).
Proof.
  intros (Hp & Hi & Hcp & Hb & Hq) Ht Hlen Ho1 Ho2 Hnc Hsrc Hpl Heq.
  set (l' := len - (START_LEN - 1)).
  set (src := np (cnt - off)) in *.
  set (st2 := {| d_buf := awrite (d_buf st) (d_pos st) (aread buf0 (d_buf st) src (N.to_nat len));
                 d_i2p := aset (d_i2p st) (d_ind st) (d_pos st);
                 d_pos := d_pos st + len; d_ind := d_ind st + 1 |}).
  exists st2. split.
  - intros rest. unfold dec_ref. rewrite Ht. unfold ref_tag_of, ser_ref. fold l'.
    assert (Hl' : 1 <= l' /\ l' + (START_LEN - 1) = len /\ l' < 268435456) by (unfold l'; plia).
    set (r := if l' <? REF_TAG_LONG then l' else REF_TAG_LONG).
    replace (r =? 0) with false by (unfold r; destruct (N.ltb_spec l' REF_TAG_LONG); plia).
    assert (HO : opt_uint true (r =? REF_TAG_LONG) r
                   (((if REF_TAG_LONG <=? l' then uint_write l' else []) ++ uint_write off) ++ rest)
                 = Some (l', uint_write off ++ rest)).
    { unfold r, opt_uint. destruct (N.ltb_spec l' REF_TAG_LONG) as [Hlt|Hge].
      - replace (l' =? REF_TAG_LONG) with false by lia.
        replace (REF_TAG_LONG <=? l') with false by lia. rewrite <- app_assoc. reflexivity.
      - rewrite N.eqb_refl. replace (REF_TAG_LONG <=? l') with true by lia.
        rewrite <- !app_assoc. apply uint_read_write. lia. }
    rewrite HO. rewrite uint_read_write by plia.
    rewrite w32_small by plia.
    replace (l' + (START_LEN - 1)) with len by lia.
    cbn [andb]. replace ((off =? 0) || (d_ind st <? off)) with false by lia.
    replace (BUF_LEN <=? d_ind st - off) with false by plia.
    rewrite Hi, Hq by lia. fold src.
    replace ((d_pos st <? src + len) || (BUF_LEN <? d_pos st + len)) with false by plia.
    replace (BUF_LEN <? src + len) with false by plia.
    replace (BUF_LEN <? d_pos st + len) with false by plia.
    replace ((0 <? len) && (src <? d_pos st + len) && (d_pos st <? src + len)) with false by lia.
    replace (BUF_LEN <=? cnt) with false by plia.
    unfold st2. rewrite Hi. reflexivity.
  - repeat split; cbn [st2 d_pos d_ind d_buf d_i2p]; try lia.
    + plia.
    + intros i Hi'. rewrite aget_awrite, aread_length, N2Nat.id, Hp.
      destruct (N.leb_spec pos i) as [Hge|Hlt]; cbn [andb].
      * replace (i <? pos + len) with true by lia.
        rewrite nth_aread by lia. rewrite N2Nat.id.
        rewrite Hb by lia. rewrite Heq by lia. f_equal. lia.
      * apply Hb. exact Hlt.
    + intros k Hk. rewrite aget_aset, Hi, Hp.
      destruct (N.eqb_spec cnt k) as [->|Hne]; [symmetry; exact Hnc | apply Hq; lia].
Qed.

Lemma dec_elem_ok st pos cnt e pos' cnt' :
  drep st pos cnt -> elem_ok chunk np pos cnt e pos' cnt' ->
  exists tag body st', e = tag :: body /\ tag <> 0 /\
    (forall rest, dec_elem true i2p0 buf0 st tag (body ++ rest) = ECont st' rest) /\
    drep st' pos' cnt'.
Proof.
  intros Hd He. destruct He as [syms Hn0 HM Hpn Hsy Hnu | syms len off HM Hsy Hnu Hlen Ho1 Ho2 Hnc Hsrc Hpl Heq].
  - destruct (dec_sym_ser st pos cnt syms _ 0 eq_refl Hd HM Hpn Hsy Hnu ltac:(lia) ltac:(left; exact Hn0))
      as (tag & body & st1 & E & Ht & Tm & Hdec & Hd1).
    exists tag, body, st1. split; [exact E|]. split; [exact Ht|]. split; [|exact Hd1].
    intros rest. unfold dec_elem. rewrite Hdec. unfold dec_ref. rewrite Tm. reflexivity.
  - assert (Hrt : ref_tag_of len <= REF_TAG_LONG /\ 0 < ref_tag_of len).
    { unfold ref_tag_of. destruct (N.ltb_spec (len - (START_LEN - 1)) REF_TAG_LONG); plia. }
    destruct (dec_sym_ser st pos cnt syms _ (ref_tag_of len) eq_refl Hd HM ltac:(unfold clen in *; lia) Hsy Hnu
                          ltac:(lia) ltac:(right; lia))
      as (tag & body & st1 & E & Ht & Tm & Hdec & Hd1).
    destruct (dec_ref_ser st1 _ _ tag len off Hd1 Tm Hlen Ho1 Ho2 Hnc Hsrc Hpl Heq) as (st2 & Hdec2 & Hd2).
    exists tag, (body ++ ser_ref len off), st2.
    split; [rewrite E; reflexivity|]. split; [exact Ht|]. split; [|exact Hd2].
    intros rest. unfold dec_elem. rewrite <- !app_assoc, Hdec. apply Hdec2.
Qed.

End Dec.

(* ------------------------------------------------------------------ hash values are 64-bit *)

Lemma w64_lt x : w64 x < M64.
Proof.
  unfold w64, M64. change 18446744073709551615 with (N.ones 64). rewrite N.land_ones.
  apply N.mod_lt. discriminate.
Qed.

Lemma mir_hash_strict_lt l seed : mir_hash_strict l seed < M64.
Proof. unfold mir_hash_strict. apply w64_lt. Qed.

Lemma le_value_le_bytes n : forall x, x < 256 ^ N.of_nat n -> le_value (le_bytes n x) = x.
Proof.
  induction n as [|n IH]; intros x Hx; cbn [le_bytes le_value].
  - cbn in Hx. lia.
  - rewrite Nat2N.inj_succ, N.pow_succ_r' in Hx. rewrite IH by lia. lia.
Qed.

Lemma le_bytes_length n : forall x, length (le_bytes n x) = n.
Proof. induction n as [|n IH]; intros x; cbn [le_bytes length]; [reflexivity | rewrite IH; reflexivity]. Qed.

(* ------------------------------------------------------------------ the element loop *)

Section Loop.
Variable chunk : list N.
Variable np : N -> N.
Variables i2p0 buf0 : N -> N.
Let clen := N.of_nat (length chunk).
Hypothesis Hclen : clen <= BUF_LEN.

Definition reset (st : dstate) : dstate :=
  {| d_buf := d_buf st; d_i2p := d_i2p st; d_pos := 0; d_ind := 0 |}.

Lemma dec_loop_elem st pos cnt e pos' cnt' :
  drep chunk np i2p0 buf0 st pos cnt -> elem_ok chunk np pos cnt e pos' cnt' ->
  exists st', drep chunk np i2p0 buf0 st' pos' cnt' /\ e <> [] /\
    forall f h rest acc,
      dec_loop true i2p0 buf0 (S f) st h (e ++ rest) acc =
      if BUF_LEN <=? pos'
      then dec_loop true i2p0 buf0 f (reset st')
                    (mir_hash_strict (aread buf0 (d_buf st') 0 buf_fuel) h) rest
                    (acc ++ aread buf0 (d_buf st') 0 buf_fuel)
      else dec_loop true i2p0 buf0 f st' h rest acc.
Proof.
  intros Hd He.
  destruct (dec_elem_ok chunk np i2p0 buf0 Hclen st pos cnt e pos' cnt' Hd He)
    as (tag & body & st' & -> & Ht & Hdec & Hd').
  exists st'. split; [exact Hd'|]. split; [discriminate|].
  intros f h rest acc. cbn [app dec_loop].
  replace (tag =? 0) with false by lia. rewrite Hdec.
  destruct Hd' as (Hp & _). rewrite Hp. reflexivity.
Qed.

Lemma dec_loop_elems pos cnt bs :
  elems_ok chunk np pos cnt bs -> pos < BUF_LEN ->
  forall st0, drep chunk np i2p0 buf0 st0 0 0 ->
  exists st', drep chunk np i2p0 buf0 st' pos cnt /\
    forall f h rest acc, (length (bs ++ rest) < f)%nat ->
      dec_loop true i2p0 buf0 f st0 h (bs ++ rest) acc = dec_loop true i2p0 buf0 f st' h rest acc.
Proof.
  induction 1 as [|pos cnt bs e pos' cnt' H IH He]; intros Hlt st0 Hd0.
  - exists st0. split; [exact Hd0|]. intros; reflexivity.
  - pose proof (elem_ok_grows _ _ _ _ _ _ _ He) as (Hg & _ & _).
    destruct (IH ltac:(lia) st0 Hd0) as (st1 & Hd1 & Hrun1).
    destruct (dec_loop_elem st1 pos cnt e pos' cnt' Hd1 He) as (st2 & Hd2 & Hne & Hrun2).
    exists st2. split; [exact Hd2|].
    intros f h rest acc Hf. rewrite <- app_assoc. rewrite Hrun1 by (rewrite app_assoc; exact Hf).
    destruct f as [|f]; [lia|]. rewrite Hrun2.
    replace (BUF_LEN <=? pos') with false by lia.
    apply dec_loop_fuel.
    + rewrite !app_length in Hf. destruct e; [contradiction|]. cbn [length] in Hf. lia.
    + rewrite !app_length in Hf. lia.
Qed.

Lemma drep_start st0 : d_pos st0 = 0 -> d_ind st0 = 0 -> drep chunk np i2p0 buf0 st0 0 0.
Proof. intros H1 H2. repeat split; try assumption; try lia; intros; lia. Qed.

Lemma drep_read st pos cnt :
  drep chunk np i2p0 buf0 st pos cnt -> pos = clen -> aread buf0 (d_buf st) 0 (length chunk) = chunk.
Proof.
  intros (Hp & _ & _ & Hb & _) E. apply aread_eq. intros k Hk.
  rewrite Hb by (unfold clen in E; lia). unfold cb. f_equal. lia.
Qed.

(* a buffer that is not full: the decoder stands at its end, nothing delivered yet *)
Lemma dec_chunk_partial cnt out :
  elems_ok chunk np clen cnt out -> clen < BUF_LEN ->
  forall st0, d_pos st0 = 0 -> d_ind st0 = 0 ->
  exists st', drep chunk np i2p0 buf0 st' clen cnt /\
    forall f h rest acc, (length (out ++ rest) < f)%nat ->
      dec_loop true i2p0 buf0 f st0 h (out ++ rest) acc = dec_loop true i2p0 buf0 f st' h rest acc.
Proof.
  intros He Hlt st0 H1 H2. apply (dec_loop_elems _ _ _ He Hlt). apply drep_start; assumption.
Qed.

(* a full buffer: it is hashed, delivered, and the decoder restarts *)
Lemma dec_chunk_full cnt out :
  elems_ok chunk np clen cnt out -> clen = BUF_LEN ->
  forall st0, d_pos st0 = 0 -> d_ind st0 = 0 ->
  exists st1, d_pos st1 = 0 /\ d_ind st1 = 0 /\
    forall f h rest acc, (length (out ++ rest) < f)%nat ->
      dec_loop true i2p0 buf0 f st0 h (out ++ rest) acc =
      dec_loop true i2p0 buf0 f st1 (mir_hash_strict chunk h) rest (acc ++ chunk).
Proof.
  intros He Hfull st0 H1 H2.
  inversion He as [E1 E2 E3|pos cnt0 bs e pos' cnt' Hbs Hel E1 E2 E3].
  { unfold BUF_LEN in *. lia. }
  subst pos' cnt' out.
  pose proof (elem_ok_grows _ _ _ _ _ _ _ Hel) as (Hg & _ & _).
  destruct (dec_loop_elems _ _ _ Hbs ltac:(lia) st0 (drep_start st0 H1 H2)) as (st1 & Hd1 & Hrun1).
  destruct (dec_loop_elem st1 pos cnt0 e clen cnt Hd1 Hel) as (st2 & Hd2 & Hne & Hrun2).
  exists (reset st2). split; [reflexivity|]. split; [reflexivity|].
  intros f h rest acc Hf. rewrite <- app_assoc. rewrite Hrun1 by (rewrite app_assoc; exact Hf).
  destruct f as [|f]; [lia|]. rewrite Hrun2.
  replace (BUF_LEN <=? clen) with true by lia.
  assert (Hl : buf_fuel = length chunk).
  { unfold buf_fuel. rewrite <- Hfull. unfold clen. rewrite Nat2N.id. reflexivity. }
  rewrite Hl, (drep_read st2 clen cnt Hd2 eq_refl).
  apply dec_loop_fuel.
  + rewrite !app_length in Hf. destruct e; [contradiction|]. cbn [length] in Hf. lia.
  + rewrite !app_length in Hf. lia.
Qed.

(* the trailer after a buffer that is not full *)
Lemma dec_final_partial st cnt f h acc :
  drep chunk np i2p0 buf0 st clen cnt -> 0 < clen -> clen < BUF_LEN ->
  dec_loop true i2p0 buf0 (S f) st h (0 :: le_bytes 8 (mir_hash_strict chunk h)) acc
  = Accept (acc ++ chunk).
Proof.
  intros Hd H0 Hlt. cbn [dec_loop]. rewrite N.eqb_refl.
  pose proof (take_nat_exact (le_bytes 8 (mir_hash_strict chunk h)) []) as T.
  rewrite le_bytes_length, app_nil_r in T. rewrite T.
  destruct Hd as (Hp & Hd2). rewrite Hp.
  replace (clen =? 0) with false by lia.
  assert (Hr : aread buf0 (d_buf st) 0 (N.to_nat clen) = chunk).
  { unfold clen at 1. rewrite Nat2N.id. apply (drep_read st clen cnt); [split; assumption | reflexivity]. }
  rewrite Hr, le_value_le_bytes, N.eqb_refl; [reflexivity|].
  pose proof (mir_hash_strict_lt chunk h). unfold M64 in *. cbn. lia.
Qed.

End Loop.

(* the trailer right after a restart (empty input, or input that fills its last buffer) *)
Lemma dec_final_empty i2p0 buf0 st f h acc :
  d_pos st = 0 -> h < M64 ->
  dec_loop true i2p0 buf0 (S f) st h (0 :: le_bytes 8 h) acc = Accept (acc ++ []).
Proof.
  intros Hp Hh. cbn [dec_loop]. rewrite N.eqb_refl.
  pose proof (take_nat_exact (le_bytes 8 h) []) as T.
  rewrite le_bytes_length, app_nil_r in T. rewrite T, Hp. cbn [N.eqb N.to_nat aread].
  rewrite le_value_le_bytes, N.eqb_refl; [reflexivity|]. unfold M64 in *. cbn. lia.
Qed.

(* ------------------------------------------------------------------ all buffers *)

Lemma buf_fuel_N : N.of_nat buf_fuel = BUF_LEN.
Proof. unfold buf_fuel. apply N2Nat.id. Qed.

Lemma enc_chunks_nil fuel h : enc_chunks fuel [] h = Some ([], h).
Proof. destruct fuel; reflexivity. Qed.

Lemma enc_chunks_cons fuel x d h :
  enc_chunks (S fuel) (x :: d) h =
  match encode_buf (firstn buf_fuel (x :: d)) h with
  | None => None
  | Some (out, h1) =>
    match enc_chunks fuel (skipn buf_fuel (x :: d)) h1 with
    | None => None
    | Some (outs, h2) => Some (out ++ outs, h2)
    end
  end.
Proof. reflexivity. Qed.

Lemma enc_chunks_dec i2p0 buf0 : forall fuel data h body h',
  h < M64 ->
  enc_chunks fuel data h = Some (body, h') ->
  forall st0 f acc, d_pos st0 = 0 -> d_ind st0 = 0 ->
    (length (body ++ 0%N :: le_bytes 8 h') < f)%nat ->
    dec_loop true i2p0 buf0 f st0 h (body ++ 0 :: le_bytes 8 h') acc = Accept (acc ++ data).
Proof.
  induction fuel as [|fuel IH]; intros data h body h' Hh E st0 f acc Hp Hi Hf.
  - destruct data; [|discriminate]. cbn in E. inversion E; subst. cbn [app] in *.
    destruct f as [|f]; [lia|]. apply dec_final_empty; assumption.
  - destruct data as [|x d].
    { rewrite enc_chunks_nil in E. inversion E; subst. cbn [app] in *.
      destruct f as [|f]; [lia|]. apply dec_final_empty; assumption. }
    rewrite enc_chunks_cons in E.
    pose proof buf_fuel_N as HBF.
    remember buf_fuel as bf eqn:Hbf. clear Hbf.
    set (data := x :: d) in *.
    set (chunk := firstn bf data) in *.
    destruct (encode_buf chunk h) as [[out h1]|] eqn:EB; [|discriminate].
    destruct (enc_chunks fuel (skipn bf data) h1) as [[outs h2]|] eqn:EC; [|discriminate].
    inversion E; subst body h'. clear E.
    assert (Hlen : length chunk = Nat.min bf (length data)) by apply firstn_length.
    assert (Hpos : (0 < length chunk)%nat).
    { rewrite Hlen. unfold data. cbn [length]. unfold BUF_LEN in HBF. lia. }
    assert (Hne : chunk <> []).
    { intro C. rewrite C in Hpos. cbn [length] in Hpos. lia. }
    assert (Hclen : N.of_nat (length chunk) <= BUF_LEN) by lia.
    destruct (encode_buf_spec chunk h out h1 Hne EB) as (-> & np & cnt & Hel).
    destruct (N.lt_ge_cases (N.of_nat (length chunk)) BUF_LEN) as [Hpart|Hfull].
    + (* last, partial buffer *)
      assert (Hall : (length data <= bf)%nat) by lia.
      assert (Ec : chunk = data) by (apply firstn_all2; exact Hall).
      rewrite (skipn_all2 _ Hall), enc_chunks_nil in EC. inversion EC; subst outs h2.
      rewrite app_nil_r in *.
      destruct (dec_chunk_partial chunk np i2p0 buf0 Hclen cnt out Hel Hpart st0 Hp Hi)
        as (st' & Hd & Hrun).
      rewrite Hrun by exact Hf.
      destruct f as [|f]; [lia|]. rewrite <- Ec.
      apply (dec_final_partial chunk np i2p0 buf0 Hclen st' cnt); [exact Hd | | exact Hpart].
      lia.
    + (* a full buffer, more data may follow *)
      destruct (dec_chunk_full chunk np i2p0 buf0 Hclen cnt out Hel ltac:(lia) st0 Hp Hi)
        as (st1 & Hp1 & Hi1 & Hrun).
      rewrite <- app_assoc, Hrun by (rewrite app_assoc; exact Hf).
      rewrite (IH _ _ _ _ (mir_hash_strict_lt _ _) EC st1 f (acc ++ chunk) Hp1 Hi1).
      * rewrite <- app_assoc. unfold chunk. rewrite firstn_skipn. reflexivity.
      * rewrite <- app_assoc, app_length in Hf. lia.
Qed.

(* decode (encode data) = Accept data, for every list of bytes, whatever the decoder's buffers
   contain initially *)
Lemma decode_encode i2p0 buf0 data s :
  encode data = Some s -> decode true i2p0 buf0 s = Accept data.
Proof.
  unfold encode. destruct (enc_chunks (S (length data)) data CHECK_HASH_SEED) as [[body h]|] eqn:E; [|discriminate].
  intros H. assert (Hs : s = PREFIX ++ body ++ 0 :: le_bytes 8 h) by congruence. clear H. subst s.
  assert (F : forall X : list N, firstn (length PREFIX) (PREFIX ++ X) = PREFIX).
  { intros X. rewrite firstn_app, Nat.sub_diag, firstn_all, firstn_O, app_nil_r. reflexivity. }
  assert (S : forall X : list N, skipn (length PREFIX) (PREFIX ++ X) = X).
  { intros X. rewrite skipn_app, Nat.sub_diag, skipn_all. reflexivity. }
  assert (Hseed : CHECK_HASH_SEED < M64) by (unfold CHECK_HASH_SEED, M64; lia).
  unfold decode. cbv zeta. rewrite F, S, list_eqb_refl.
  rewrite (enc_chunks_dec i2p0 buf0 _ _ _ _ _ Hseed E dinit
                          (Datatypes.S (length (body ++ 0 :: le_bytes 8 h))) []
                          eq_refl eq_refl (Nat.lt_succ_diag_r _)).
  reflexivity.
Qed.

(* corollaries for encoder outputs *)
Lemma encode_truncated i2p0 buf0 data s k :
  encode data = Some s -> (k < length s)%nat -> decode true i2p0 buf0 (firstn k s) = Reject.
Proof.
  intros E Hk. apply (decode_encode i2p0 buf0) in E.
  rewrite <- (firstn_skipn k s) in E.
  eapply decode_truncated; [|exact E].
  intro C. apply (f_equal (@length N)) in C. rewrite skipn_length in C. cbn in C. lia.
Qed.

Lemma encode_extended i2p0 buf0 data s x xs :
  encode data = Some s -> decode true i2p0 buf0 (s ++ x :: xs) = Reject.
Proof.
  intros E. apply (decode_encode i2p0 buf0) in E.
  eapply decode_extended; [discriminate | exact E].
Qed.

(* "any altered stream is rejected" cannot hold for this (or any such) format: here the reference
   of the third "abcd" is re-pointed from the second copy (offset 2) to the first (offset 7); the
   stream differs from the encoder's output in one byte, decodes to the same data, carries the
   same hash, and is accepted. *)
Definition ex_data : list N := [97;98;99;100;88;97;98;99;100;89;97;98;99;100].
Definition ex_altered : list N :=
  [77;73;82;161;97;98;99;100;88;133;33;89;135;0;39;47;38;70;151;75;151;128].

Lemma altered_same_data :
  exists s, encode ex_data = Some s /\ ex_altered <> s /\ length ex_altered = length s
            /\ decode true (fun _ => 0) (fun _ => 0) ex_altered = Accept ex_data.
Proof.
  eexists. split; [vm_compute; reflexivity|]. split; [discriminate|]. split; vm_compute; reflexivity.
Qed.

(* ------------------------------------------------------------------ the encoder's trailer *)

Lemma encode_buf_hash chunk h out h1 :
  chunk <> [] -> encode_buf chunk h = Some (out, h1) -> h1 = mir_hash_strict chunk h.
Proof.
  intros Hne E. rewrite (encode_buf_nonempty _ _ Hne) in E.
  destruct (enc_loop _ _ _ _ _ _) as [[st acc]|]; [|discriminate]. congruence.
Qed.

Lemma enc_chunks_chain : forall fuel data h body h',
  enc_chunks fuel data h = Some (body, h') -> chain data h h'.
Proof.
  induction fuel as [|fuel IH]; intros data h body h' E.
  - destruct data; [|discriminate]. rewrite enc_chunks_nil in E. inversion E; subst. constructor.
  - destruct data as [|x d].
    { rewrite enc_chunks_nil in E. inversion E; subst. constructor. }
    rewrite enc_chunks_cons in E.
    assert (CL : forall c h0, c <> [] -> (length c < buf_fuel)%nat -> chain c h0 (mir_hash_strict c h0))
      by (intros; apply chain_last; assumption).
    assert (CF : forall c rest h0 h1, length c = buf_fuel -> chain rest (mir_hash_strict c h0) h1 ->
                                      chain (c ++ rest) h0 h1)
      by (intros; apply chain_full; assumption).
    pose proof buf_fuel_N as HBF.
    remember buf_fuel as bf eqn:Hbf. clear Hbf.
    set (data := x :: d) in *.
    destruct (encode_buf (firstn bf data) h) as [[out h1]|] eqn:EB; [|discriminate].
    destruct (enc_chunks fuel (skipn bf data) h1) as [[outs h2]|] eqn:EC; [|discriminate].
    assert (E2 : h2 = h') by congruence. subst h2. clear E.
    assert (Hlen : length (firstn bf data) = Nat.min bf (length data)) by apply firstn_length.
    assert (Hpos : (0 < length (firstn bf data))%nat).
    { rewrite Hlen. unfold data. cbn [length]. unfold BUF_LEN in HBF. lia. }
    assert (Hne : firstn bf data <> []).
    { intro C. rewrite C in Hpos. cbn [length] in Hpos. lia. }
    apply encode_buf_hash in EB; [|exact Hne]. subst h1.
    destruct (Nat.lt_ge_cases (length data) bf) as [Hlt|Hge].
    + rewrite (skipn_all2 data) in EC by lia. rewrite enc_chunks_nil in EC.
      rewrite (firstn_all2 data) in * by lia.
      assert (E3 : h' = mir_hash_strict data h) by congruence. subst h'.
      apply CL; [exact Hne | exact Hlt].
    + rewrite <- (firstn_skipn bf data). apply CF; [lia|].
      eapply IH. exact EC.
Qed.

Lemma firstn_cons_nonempty (bf : nat) (x : N) d : N.of_nat bf = BUF_LEN -> firstn bf (x :: d) <> [].
Proof.
  intros HBF C. apply (f_equal (@length N)) in C. rewrite firstn_length in C. cbn [length] in C.
  unfold BUF_LEN in HBF. lia.
Qed.

(* the stream the encoder writes: prefix, body, 0 tag, and the little-endian check hash of the data *)
Lemma encode_shape data s :
  encode data = Some s ->
  exists body h, s = PREFIX ++ body ++ 0 :: le_bytes 8 h /\ chain data CHECK_HASH_SEED h /\ h < M64.
Proof.
  unfold encode. destruct (enc_chunks (S (length data)) data CHECK_HASH_SEED) as [[body h]|] eqn:E; [|discriminate].
  intros H. exists body, h. split; [congruence|]. split; [eapply enc_chunks_chain; exact E|].
  clear H. revert E. generalize (S (length data)). intros fuel.
  assert (G : forall fuel d h0 b h1, h0 < M64 -> enc_chunks fuel d h0 = Some (b, h1) -> h1 < M64).
  { clear. induction fuel as [|f IH]; intros d h0 b h1 H0 E.
    - destruct d; [|discriminate]. rewrite enc_chunks_nil in E. congruence.
    - destruct d as [|x d]; [rewrite enc_chunks_nil in E; congruence|].
      rewrite enc_chunks_cons in E.
      destruct (encode_buf _ h0) as [[out h2]|] eqn:EB; [|discriminate].
      destruct (enc_chunks f _ h2) as [[outs h3]|] eqn:EC; [|discriminate].
      assert (h3 = h1) by congruence. subst h3.
      eapply IH; [|exact EC].
      assert (Hne : firstn buf_fuel (x :: d) <> []) by (apply firstn_cons_nonempty, buf_fuel_N).
      rewrite (encode_buf_hash _ _ _ _ Hne EB). apply mir_hash_strict_lt. }
  intros E. eapply G; [|exact E]. unfold CHECK_HASH_SEED, M64. lia.
Qed.

(* C12: executable model of mir-reduce.h (encoder with its real dictionary, decoder with explicit
   bounds checks) over byte lists.  Bytes, indices and lengths are N; uint32_t/uint64_t wrap-around is
   written out ([w32], [w64]) wherever the decoder computes on values taken from the stream.
   All constants come from coq/gen/ReduceParams.v (regenerated from the headers on every run).
   Definitions only; proofs are in the *Proofs.v files. *)
From Coq Require Import NArith List Bool.
From MirV Require Import gen.ReduceParams C12.Arr C12.Hash.
Import ListNotations.
Local Open Scope N_scope.

(* ------------------------------------------------------------------ helpers *)

Definition NIL : N := 4294967295.   (* UINT32_MAX *)

Fixpoint take_nat (k : nat) (inp : list N) : option (list N * list N) :=
  match k with
  | O => Some ([], inp)
  | S k' => match inp with
            | [] => None
            | x :: r => match take_nat k' r with
                        | None => None
                        | Some (a, b) => Some (x :: a, b)
                        end
            end
  end.

Fixpoint list_eqb (a b : list N) : bool :=
  match a, b with
  | [], [] => true
  | x :: a', y :: b' => (x =? y) && list_eqb a' b'
  | _, _ => false
  end.

(* fuel for loops whose trip count is bounded by a compile-time constant; built once *)
Definition buf_fuel : nat := N.to_nat BUF_LEN.
Definition table_fuel : nat := N.to_nat TABLE_SIZE.

(* ------------------------------------------------------------------ uint codec *)

(* _reduce_uint_write; the C asserts u < 2^28, every value the encoder writes is <= BUF_LEN *)
Definition uint_write (u : N) : list N :=
  if u <? 128 then [128 + u]
  else if u <? 16384 then [64 + u / 256; u mod 256]
  else if u <? 2097152 then [32 + u / 65536; (u / 256) mod 256; u mod 256]
  else [16 + u / 16777216; (u / 65536) mod 256; (u / 256) mod 256; u mod 256].

(* v = v * 256 + r  (uint32_t) for k further bytes *)
Fixpoint read_be (k : nat) (v : N) (inp : list N) : option (N * list N) :=
  match k with
  | O => Some (v, inp)
  | S k' => match inp with
            | [] => None
            | r :: inp' => read_be k' (w32 (v * 256 + r)) inp'
            end
  end.

(* _reduce_uint_read.  None = the C function returns -1.
   [fx] = true: a first byte < 16 (no length marker in the top four bits) is malformed and rejected
   (fixes/C12-1.patch); false: the original code, where under NDEBUG the assert is void, n = 5 and
   four more bytes are read into a wrapping uint32_t. *)
Definition uint_read (fx : bool) (inp : list N) : option (N * list N) :=
  match inp with
  | [] => None
  | u :: inp' =>
    if u / 128 =? 1 then read_be 0 (u mod 128) inp'
    else if u / 64 =? 1 then read_be 1 (u mod 64) inp'
    else if u / 32 =? 1 then read_be 2 (u mod 32) inp'
    else if u / 16 =? 1 then read_be 3 (u mod 16) inp'
    else if fx then None
    else read_be 4 (u mod 8) inp'
  end.

(* a length field: the value in the tag, or (tag field all ones) a uint that follows *)
Definition opt_uint (fx long : bool) (v : N) (inp : list N) : option (N * list N) :=
  if long then uint_read fx inp else Some (v, inp).

(* ------------------------------------------------------------------ decoder *)

Inductive outcome :=
| Accept (d : list N)     (* reduce_decode returned TRUE having written d *)
| Reject                  (* reduce_decode returned FALSE *)
| Oob (what idx : N)      (* an access outside the decoder's buffers (or an overlapping memcpy):
                             what = 1 buf write (symbol), 2 ind2pos write, 3 ind2pos read,
                             4 memcpy source, 5 memcpy destination, 6 memcpy overlap *)
| NoFuel.                 (* never produced (reduce_decode_safe) *)

Record dstate := { d_buf : arr; d_i2p : arr; d_pos : N; d_ind : N }.

Inductive eres :=
| ECont (st : dstate) (inp : list N)
| EFail
| EOob (what idx : N).

Section Decoder.
Variable fx : bool.        (* true: the code with fixes/C12-1.patch; false: the original checks *)
Variable i2p0 : N -> N.    (* initial contents of ind2pos (malloc memory, never initialised) *)
Variable buf0 : N -> N.    (* initial contents of buf *)

(* the symbol part of one element: mir-reduce.h:388-398 *)
Definition dec_sym (st : dstate) (tag : N) (inp : list N) : eres :=
  let s := tag / (REF_TAG_LONG + 1) in
  if s =? 0 then ECont st inp else
  match opt_uint fx (s =? SYMB_TAG_LONG) s inp with
  | None => EFail
  | Some (sym_len, inp1) =>
    if (MAX_SYMB_LEN <? sym_len) || (BUF_LEN <? d_pos st + sym_len) then EFail else
    match take_nat (N.to_nat sym_len) inp1 with
    | None => EFail
    | Some (bytes, inp2) =>
      if BUF_LEN <? d_pos st + sym_len then EOob 1 (d_pos st + sym_len) else
      if BUF_LEN <? d_ind st + sym_len then EOob 2 (d_ind st + sym_len) else
      ECont {| d_buf := awrite (d_buf st) (d_pos st) bytes;
               d_i2p := awrite_seq (d_i2p st) (d_ind st) (d_pos st) (N.to_nat sym_len);
               d_pos := d_pos st + sym_len;
               d_ind := d_ind st + sym_len |} inp2
    end
  end.

(* the reference part: mir-reduce.h:399-414 *)
Definition dec_ref (st : dstate) (tag : N) (inp : list N) : eres :=
  let r := tag mod (REF_TAG_LONG + 1) in
  if r =? 0 then ECont st inp else
  match opt_uint fx (r =? REF_TAG_LONG) r inp with
  | None => EFail
  | Some (r1, inp1) =>
    let ref_len := w32 (r1 + (START_LEN - 1)) in
    match uint_read fx inp1 with
    | None => EFail
    | Some (ref_ind, inp2) =>
      if (fx && (ref_ind =? 0)) || (d_ind st <? ref_ind) then EFail else
      let k := d_ind st - ref_ind in
      if BUF_LEN <=? k then EOob 3 k else
      let sym_pos := aget i2p0 (d_i2p st) k in
      if (if fx then (d_pos st <? sym_pos + ref_len) || (BUF_LEN <? d_pos st + ref_len)
          else BUF_LEN <? w32 (sym_pos + ref_len))
      then EFail else
      if BUF_LEN <? sym_pos + ref_len then EOob 4 (sym_pos + ref_len) else
      if BUF_LEN <? d_pos st + ref_len then EOob 5 (d_pos st + ref_len) else
      if (0 <? ref_len) && (sym_pos <? d_pos st + ref_len) && (d_pos st <? sym_pos + ref_len)
      then EOob 6 sym_pos else
      if BUF_LEN <=? d_ind st then EOob 2 (d_ind st) else
      ECont {| d_buf := awrite (d_buf st) (d_pos st)
                               (aread buf0 (d_buf st) sym_pos (N.to_nat ref_len));
               d_i2p := aset (d_i2p st) (d_ind st) (d_pos st);
               d_pos := d_pos st + ref_len;
               d_ind := d_ind st + 1 |} inp2
    end
  end.

(* one element: symbol part, then reference part *)
Definition dec_elem (st : dstate) (tag : N) (inp : list N) : eres :=
  match dec_sym st tag inp with
  | ECont st1 inp1 => dec_ref st1 tag inp1
  | r => r
  end.

(* The element loop of reduce_decode_get, flattened over the calls that refill the buffer: when the
   buffer is full it is hashed, delivered ([acc ++ out]) and decoding restarts at pos = curr_ind = 0
   with buf and ind2pos keeping their contents.  [h] is check_hash. *)
Fixpoint dec_loop (fuel : nat) (st : dstate) (h : N) (inp : list N) (acc : list N) : outcome :=
  match fuel with
  | O => NoFuel
  | S f =>
    match inp with
    | [] => Reject
    | tag :: inp0 =>
      if tag =? 0 then
        match take_nat 8 inp0 with
        | None => Reject
        | Some (hs, rest) =>
          match rest with
          | _ :: _ => Reject
          | [] =>
            let out := aread buf0 (d_buf st) 0 (N.to_nat (d_pos st)) in
            let h' := if d_pos st =? 0 then h else mir_hash_strict out h in
            if le_value hs =? h' then Accept (acc ++ out) else Reject
          end
        end
      else
        match dec_elem st tag inp0 with
        | EFail => Reject
        | EOob w i => Oob w i
        | ECont st2 inp2 =>
          if BUF_LEN <=? d_pos st2 then
            let out := aread buf0 (d_buf st2) 0 buf_fuel in
            dec_loop f {| d_buf := d_buf st2; d_i2p := d_i2p st2; d_pos := 0; d_ind := 0 |}
                     (mir_hash_strict out h) inp2 (acc ++ out)
          else dec_loop f st2 h inp2 acc
        end
    end
  end.

Definition dinit : dstate := {| d_buf := aempty; d_i2p := aempty; d_pos := 0; d_ind := 0 |}.

(* reduce_decode: start (prefix check only clears ok_p, decoding goes on), get loop, finish *)
Definition decode (inp : list N) : outcome :=
  let k := length PREFIX in
  let rest := skipn k inp in
  match dec_loop (S (length rest)) dinit CHECK_HASH_SEED rest [] with
  | Accept d => if list_eqb (firstn k inp) PREFIX then Accept d else Reject
  | o => o
  end.

End Decoder.

(* ------------------------------------------------------------------ encoder *)

(* struct _reduce_el table[] as four arrays.  _reduce_reset_next is modelled by empty maps read
   through the default functions below (next = i+1 resp. UINT32_MAX, head = UINT32_MAX). *)
Record tbl := { t_pos : arr; t_num : arr; t_next : arr; t_head : arr }.
Definition next0 (i : N) : N := if i + 1 =? TABLE_SIZE then NIL else i + 1.
Definition head0 (_ : N) : N := NIL.
Definition zero0 (_ : N) : N := 0.
Definition tpos (t : tbl) (i : N) : N := aget zero0 (t_pos t) i.
Definition tnum (t : tbl) (i : N) : N := aget zero0 (t_num t) i.
Definition tnext (t : tbl) (i : N) : N := aget next0 (t_next t) i.
Definition thead (t : tbl) (i : N) : N := aget head0 (t_head t) i.
Definition tbl0 : tbl := {| t_pos := aempty; t_num := aempty; t_next := aempty; t_head := aempty |}.

(* e_symb: curr_symb[0..curr_symb_len) most recent byte first *)
Record enc := { e_tbl : tbl; e_free : N; e_num : N; e_symb : list N; e_slen : N }.
Definition enc0 : enc := {| e_tbl := tbl0; e_free := 0; e_num := 0; e_symb := []; e_slen := 0 |}.

Definition bget (buf : arr) (i : N) : N := aget zero0 buf i.

Definition ref_offset_size (offset : N) : N :=
  if offset <? 128 then 1 else if offset <? 16384 then 2 else if offset <? 2097152 then 3 else 4.

Definition ref_size (len offset : N) : N :=
  let len := len - (START_LEN - 1) in
  (if len <? REF_TAG_LONG then 0 else ref_offset_size len) + ref_offset_size offset.

(* bytes emitted by _reduce_symb_flush (data, ref_tag) *)
Definition symb_flush_out (symb : list N) (slen ref_tag : N) : list N :=
  if (slen =? 0) && (ref_tag =? 0) then []
  else ((if slen <? SYMB_TAG_LONG then slen else SYMB_TAG_LONG) * (REF_TAG_LONG + 1) + ref_tag)
       :: (if SYMB_TAG_LONG <=? slen then uint_write slen else []) ++ rev' symb.

Definition set_symb (st : enc) (symb : list N) (slen : N) : enc :=
  {| e_tbl := e_tbl st; e_free := e_free st; e_num := e_num st; e_symb := symb; e_slen := slen |}.

(* _reduce_output_byte: returns the new state and the bytes written *)
Definition output_byte (st : enc) (b : N) : enc * list N :=
  if MAX_SYMB_LEN <? e_slen st + 1
  then (set_symb st [b] 1, symb_flush_out (e_symb st) (e_slen st) 0)
  else (set_symb st (b :: e_symb st) (e_slen st + 1), []).

(* _reduce_output_ref *)
Definition output_ref (st : enc) (offset len : N) : enc * list N :=
  let len := len - (START_LEN - 1) in
  let ref_tag := if len <? REF_TAG_LONG then len else REF_TAG_LONG in
  (set_symb st [] 0,
   symb_flush_out (e_symb st) (e_slen st) ref_tag
   ++ (if REF_TAG_LONG <=? len then uint_write len else []) ++ uint_write offset).

Definition start_hash (buf : arr) (pos : N) : N :=
  mir_hash_strict (aread zero0 buf pos (N.to_nat START_LEN)) HASH_SEED mod TABLE_SIZE.

(* for (; len < bound; len++) if (s1[len] != s2[len]) break; *)
Fixpoint match_len (fuel : nat) (buf : arr) (p1 p2 len bound : N) : N :=
  match fuel with
  | O => len
  | S f =>
    if len <? bound then
      if bget buf (p1 + len) =? bget buf (p2 + len) then match_len f buf p1 p2 (len + 1) bound
      else len
    else len
  end.

(* the candidate loop of _reduce_dict_find_longest (MIR_HASH_UNALIGNED_ACCESS path: the first four
   bytes are compared as one uint32_t, then len starts at 4).  best = (best_len, best_el->num,
   best_ref_size).  None = the chain did not end within TABLE_SIZE steps. *)
Fixpoint walk (fuel : nat) (t : tbl) (buf : arr) (bound pos curr_num curr : N)
         (best : option (N * N * N)) : option (option (N * N * N)) :=
  if curr =? NIL then Some best else
  match fuel with
  | O => None
  | S f =>
    let next := tnext t curr in
    let len_bound := N.min (bound - pos) (pos - tpos t curr) in
    if len_bound <? START_LEN then walk f t buf bound pos curr_num next best else
    if match_len 4 buf (tpos t curr) pos 0 4 <? 4 then walk f t buf bound pos curr_num next best else
    let len := match_len buf_fuel buf (tpos t curr) pos 4 len_bound in
    let off := curr_num - tnum t curr in
    let rs := ref_size len off in
    match best with
    | None => walk f t buf bound pos curr_num next (Some (len, tnum t curr, rs))
    | Some (bl, bn, brs) =>
      if bl + rs <? len + brs then walk f t buf bound pos curr_num next (Some (len, tnum t curr, rs))
      else walk f t buf bound pos curr_num next best
    end
  end.

(* _reduce_dict_find_longest: Some None = returns 0; Some (Some (len, num)) = returns len, *dict_pos = num *)
Definition find_longest (st : enc) (buf : arr) (bound pos hash : N) : option (option (N * N)) :=
  if bound <? pos + START_LEN then Some None else
  match walk table_fuel (e_tbl st) buf bound pos (e_num st) (thead (e_tbl st) hash) None with
  | None => None
  | Some None => Some None
  | Some (Some (bl, bn, _)) => Some (Some (bl, bn))
  end.

(* the "rare case" loop of _reduce_dict_add: last element of the chain and its predecessor *)
Fixpoint find_last (fuel : nat) (t : tbl) (prev curr : N) : option (N * N) :=
  if curr =? NIL then Some (prev, curr) else
  if tnext t curr =? NIL then Some (prev, curr) else
  match fuel with
  | O => None
  | S f => find_last f t curr (tnext t curr)
  end.

Definition set_next (t : tbl) (i v : N) : tbl :=
  {| t_pos := t_pos t; t_num := t_num t; t_next := aset (t_next t) i v; t_head := t_head t |}.
Definition set_head (t : tbl) (i v : N) : tbl :=
  {| t_pos := t_pos t; t_num := t_num t; t_next := t_next t; t_head := aset (t_head t) i v |}.

(* lines 271-274: table[curr] = {pos, num, next = table[hash].head}; table[hash].head = curr *)
Definition link_el (t : tbl) (hash curr pos num : N) : tbl :=
  {| t_pos := aset (t_pos t) curr pos; t_num := aset (t_num t) curr num;
     t_next := aset (t_next t) curr (thead t hash); t_head := aset (t_head t) hash curr |}.

(* _reduce_dict_add; None = chain walk out of fuel *)
Definition dict_add (st : enc) (bound pos hash : N) : option enc :=
  let num := e_num st in
  let t := e_tbl st in
  if bound <? pos + START_LEN
  then Some {| e_tbl := t; e_free := e_free st; e_num := num + 1; e_symb := e_symb st; e_slen := e_slen st |}
  else
    if e_free st =? NIL then
      match find_last table_fuel t NIL (thead t hash) with
      | None => None
      | Some (prev, curr) =>
        if curr =? NIL
        then Some {| e_tbl := t; e_free := NIL; e_num := num + 1; e_symb := e_symb st; e_slen := e_slen st |}
        else
          let t1 := if prev =? NIL then set_head t hash (tnext t curr) else set_next t prev (tnext t curr) in
          Some {| e_tbl := link_el t1 hash curr pos num; e_free := NIL; e_num := num + 1;
                  e_symb := e_symb st; e_slen := e_slen st |}
      end
    else
      let curr := e_free st in
      Some {| e_tbl := link_el t hash curr pos num; e_free := tnext t curr; e_num := num + 1;
              e_symb := e_symb st; e_slen := e_slen st |}.

(* the loop of _reduce_encode_buf; acc = output so far, reversed *)
Fixpoint enc_loop (fuel : nat) (buf : arr) (bound : N) (st : enc) (pos : N) (acc : list N)
  : option (enc * list N) :=
  if bound <=? pos then Some (st, acc) else
  match fuel with
  | O => None
  | S f =>
    (* both _reduce_dict_find_longest and _reduce_dict_add compute this hash of the same four
       bytes (when pos + START_LEN <= buf_bound); the model computes it once *)
    let hash := if bound <? pos + START_LEN then 0 else start_hash buf pos in
    match find_longest st buf bound pos hash with
    | None => None
    | Some None =>
      let '(st1, out) := output_byte st (bget buf pos) in
      match dict_add st1 bound pos hash with
      | None => None
      | Some st2 => enc_loop f buf bound st2 (pos + 1) (rev_append out acc)
      end
    | Some (Some (len, num)) =>
      let '(st1, out) := output_ref st (e_num st - num) len in
      match dict_add st1 bound pos hash with
      | None => None
      | Some st2 => enc_loop f buf bound st2 (pos + len) (rev_append out acc)
      end
    end
  end.

(* _reduce_encode_buf on one buffer-full of data: output bytes and the new check_hash *)
Definition encode_buf (chunk : list N) (h : N) : option (list N * N) :=
  match chunk with
  | [] => Some ([], h)
  | _ =>
    let bound := N.of_nat (length chunk) in
    let buf := awrite aempty 0 chunk in
    match enc_loop buf_fuel buf bound enc0 0 [] with
    | None => None
    | Some (st, acc) =>
      Some (rev' (rev_append (symb_flush_out (e_symb st) (e_slen st) 0) acc), mir_hash_strict chunk h)
    end
  end.

(* reduce_encode_put / finish: the data is encoded in pieces of BUF_LEN bytes *)
Fixpoint enc_chunks (fuel : nat) (data : list N) (h : N) : option (list N * N) :=
  match data with
  | [] => Some ([], h)
  | _ =>
    match fuel with
    | O => None
    | S f =>
      match encode_buf (firstn buf_fuel data) h with
      | None => None
      | Some (out, h1) =>
        match enc_chunks f (skipn buf_fuel data) h1 with
        | None => None
        | Some (outs, h2) => Some (out ++ outs, h2)
        end
      end
    end
  end.

(* reduce_encode.  None = a dictionary chain walk ran out of fuel (never: reduce_encode_total) *)
Definition encode (data : list N) : option (list N) :=
  match enc_chunks (S (length data)) data CHECK_HASH_SEED with
  | None => None
  | Some (body, h) => Some (PREFIX ++ body ++ 0 :: le_bytes 8 h)
  end.

Definition bytes_ok (l : list N) : bool := forallb (fun b => b <? 256) l.

(* C12: mir_hash_strict of mir-hash.h (relax_p = 0), bit-exact, on byte lists (bytes are N < 256).
   Constants come from coq/gen/ReduceParams.v (regenerated from the header on every run).
   uint64_t arithmetic is N arithmetic with explicit wrap [w64] (= land with 2^64-1, as no theorem
   looks inside the hash, the bit operations of the C text are kept as they are).
   Definitions only. *)
From Coq Require Import NArith List.
From MirV Require Import gen.ReduceParams.
Import ListNotations.
Local Open Scope N_scope.

Definition M32 : N := 4294967296.
Definition M64 : N := 18446744073709551616.
Definition w32 (x : N) : N := x mod M32.
Definition w64 (x : N) : N := N.land x 18446744073709551615.

(* mir_get_key_part, strict path:  for (i = 0; i < len; i++) tail = (tail >> 8) | ((uint64_t) v[i] << 56);
   on a little-endian host with unaligned access the header takes a shortcut for len = 8 and
   len >= 4 (one 64-/32-bit load) which yields the same value; the byte loop is what "strict" means. *)
Definition key_part (l : list N) : N :=
  fold_left (fun tail b => N.lor (N.shiftr tail 8) (N.shiftl b 56)) l 0.

(* mir_mum with relax_p = 0: 32-bit halves, every uint64_t operation wraps *)
Definition mir_mum (v c : N) : N :=
  let v1 := N.shiftr v 32 in let v2 := N.land v 4294967295 in
  let c1 := N.shiftr c 32 in let c2 := N.land c 4294967295 in
  let rm := w64 (v2 * c1 + v1 * c2) in
  w64 (v1 * c1 + N.shiftr rm 32 + v2 * c2 + w64 (N.shiftl rm 32)).

Definition mir_round (state v : N) : N :=
  let s := N.lxor state (mir_mum v HASH_P1) in
  N.lxor s (mir_mum s HASH_P2).

(* the body of mir_hash_1; [len] is the number of bytes left in [l] *)
Fixpoint hash_loop (fuel : nat) (l : list N) (len : N) (r : N) : N :=
  match fuel with
  | O => r
  | S f =>
    if 16 <=? len then
      let r1 := N.lxor r (mir_mum (key_part (firstn 8 l)) HASH_P1) in
      let r2 := N.lxor r1 (mir_mum (key_part (firstn 8 (skipn 8 l))) HASH_P2) in
      let r3 := N.lxor r2 (mir_mum r2 HASH_P1) in
      hash_loop f (skipn 16 l) (len - 16) r3
    else
      let r1 := if 8 <=? len then N.lxor r (mir_mum (key_part (firstn 8 l)) HASH_P1) else r in
      let l1 := if 8 <=? len then skipn 8 l else l in
      let len1 := if 8 <=? len then len - 8 else len in
      let r2 := if len1 =? 0 then r1 else N.lxor r1 (mir_mum (key_part l1) HASH_P2) in
      mir_round r2 r2
  end.

Definition mir_hash_strict (l : list N) (seed : N) : N :=
  let n := length l in
  let len := N.of_nat n in
  w64 (hash_loop (S (Nat.div n 16)) l len (w64 (seed + len))).   (* the uint64_t result *)

(* uint64_t written / read byte by byte, least significant first (_reduce_hash_write, _reduce_str2hash) *)
Fixpoint le_bytes (n : nat) (h : N) : list N :=
  match n with
  | O => []
  | S n' => h mod 256 :: le_bytes n' (h / 256)
  end.

Fixpoint le_value (l : list N) : N :=
  match l with
  | [] => 0
  | b :: l' => b + 256 * le_value l'
  end.

(* C12: the encoder's dictionary only ever proposes correct references.
   Invariant of struct _reduce_el table[] ([dict_inv]) and the specifications of
   _reduce_dict_find_longest ([find_longest_spec]) and _reduce_dict_add ([dict_add_spec]). *)
From Coq Require Import ZArith NArith List Bool Lia ZifyBool ZifyNat ZifyN.
From MirV Require Import gen.ReduceParams C12.Arr C12.ArrProofs C12.Hash C12.Reduce C12.CodecProofs.
Import ListNotations.
Local Open Scope N_scope.
Ltac Zify.zify_post_hook ::= Z.div_mod_to_equations.

(* byte i of the buffer being encoded (0 beyond its end, like the model's buffer map) *)
Definition cb (chunk : list N) (i : N) : N := nth (N.to_nat i) chunk 0.

Lemma bget_chunk chunk i : bget (awrite aempty 0 chunk) i = cb chunk i.
Proof.
  unfold bget, cb. rewrite aget_awrite, aget_aempty. unfold zero0.
  destruct (N.ltb_spec i (0 + N.of_nat (length chunk))) as [H|H].
  - replace (0 <=? i) with true by lia. cbn [andb]. f_equal. lia.
  - rewrite andb_false_r. symmetry. apply nth_overflow. lia.
Qed.

Lemma rev'_rev (l : list N) : rev' (rev l) = l.
Proof. unfold rev'. rewrite rev_append_rev, rev_involutive, app_nil_r. reflexivity. Qed.

Lemma match_len_spec buf p1 p2 bound : forall fuel len,
  len <= bound -> (forall i, i < len -> bget buf (p1 + i) = bget buf (p2 + i)) ->
  len <= match_len fuel buf p1 p2 len bound <= bound
  /\ forall i, i < match_len fuel buf p1 p2 len bound -> bget buf (p1 + i) = bget buf (p2 + i).
Proof.
  induction fuel as [|f IH]; intros len Hl He; cbn [match_len].
  - split; [lia | exact He].
  - destruct (N.ltb_spec len bound) as [Hlt|Hge]; [|split; [lia | exact He]].
    destruct (N.eqb_spec (bget buf (p1 + len)) (bget buf (p2 + len))) as [E|E]; [|split; [lia | exact He]].
    specialize (IH (len + 1) ltac:(lia)).
    destruct IH as [IH1 IH2].
    { intros i Hi. destruct (N.eq_dec i len) as [->|Hne]; [exact E | apply He; lia]. }
    split; [lia | exact IH2].
Qed.

(* ------------------------------------------------------------------ table accessors *)

Lemma thead_link t hash curr pos num h :
  thead (link_el t hash curr pos num) h = if hash =? h then curr else thead t h.
Proof. unfold thead, link_el; cbn. apply aget_aset. Qed.
Lemma tnext_link t hash curr pos num i :
  tnext (link_el t hash curr pos num) i = if curr =? i then thead t hash else tnext t i.
Proof. unfold tnext, link_el; cbn. apply aget_aset. Qed.
Lemma tpos_link t hash curr pos num i :
  tpos (link_el t hash curr pos num) i = if curr =? i then pos else tpos t i.
Proof. unfold tpos, link_el; cbn. apply aget_aset. Qed.
Lemma tnum_link t hash curr pos num i :
  tnum (link_el t hash curr pos num) i = if curr =? i then num else tnum t i.
Proof. unfold tnum, link_el; cbn. apply aget_aset. Qed.

Lemma thead_set_head t j v h : thead (set_head t j v) h = if j =? h then v else thead t h.
Proof. unfold thead, set_head; cbn. apply aget_aset. Qed.
Lemma tnext_set_head t j v i : tnext (set_head t j v) i = tnext t i.
Proof. reflexivity. Qed.
Lemma tpos_set_head t j v i : tpos (set_head t j v) i = tpos t i.
Proof. reflexivity. Qed.
Lemma tnum_set_head t j v i : tnum (set_head t j v) i = tnum t i.
Proof. reflexivity. Qed.
Lemma thead_set_next t j v h : thead (set_next t j v) h = thead t h.
Proof. reflexivity. Qed.
Lemma tnext_set_next t j v i : tnext (set_next t j v) i = if j =? i then v else tnext t i.
Proof. unfold tnext, set_next; cbn. apply aget_aset. Qed.
Lemma tpos_set_next t j v i : tpos (set_next t j v) i = tpos t i.
Proof. reflexivity. Qed.
Lemma tnum_set_next t j v i : tnum (set_next t j v) i = tnum t i.
Proof. reflexivity. Qed.

(* ------------------------------------------------------------------ the dictionary invariant *)

Section Dict.
Variable chunk : list N.
Variable np : N -> N.   (* np n = position in the buffer of the element (symbol or reference) number n *)
Let bound := N.of_nat (length chunk).
Let buf := awrite aempty 0 chunk.

(* elements 0..k-1 of the table have been handed out; each holds a true (position, number) pair *)
Record dict_inv (t : tbl) (free enum k : N) : Prop := {
  di_k : k <= TABLE_SIZE;
  di_free : free = if k <? TABLE_SIZE then k else NIL;
  di_rest : forall i, k <= i -> tnext t i = next0 i;
  di_head : forall h, thead t h = NIL \/ thead t h < k;
  di_next : forall i, i < k -> tnext t i = NIL \/ tnext t i < k;
  di_ent : forall i, i < k -> tnum t i < enum /\ np (tnum t i) = tpos t i
}.

(* a reference proposal (len, num) at position pos when enum elements have been numbered *)
Definition good (pos enum len num : N) : Prop :=
  num < enum /\ START_LEN <= len /\ np num + len <= pos /\ pos + len <= bound
  /\ forall i, i < len -> cb chunk (np num + i) = cb chunk (pos + i).

Definition good_best (pos enum : N) (b : option (N * N * N)) : Prop :=
  match b with None => True | Some (len, num, _) => good pos enum len num end.

Lemma walk_spec t free enum k pos :
  dict_inv t free enum k ->
  forall fuel curr best r,
    curr = NIL \/ curr < k -> good_best pos enum best ->
    walk fuel t buf bound pos enum curr best = Some r -> good_best pos enum r.
Proof.
  intros D. induction fuel as [|f IH]; intros curr best r Hc Hb; cbn [walk].
  - destruct (curr =? NIL); [|discriminate]. intros H; inversion H; subst. exact Hb.
  - destruct (N.eqb_spec curr NIL) as [E|E]. { intros H; inversion H; subst. exact Hb. }
    destruct Hc as [Hc|Hc]; [contradiction|].
    pose proof (di_next _ _ _ _ D curr Hc) as Hn.
    pose proof (di_ent _ _ _ _ D curr Hc) as [He1 He2].
    set (lb := N.min (bound - pos) (pos - tpos t curr)).
    destruct (N.ltb_spec lb START_LEN) as [H1|H1]; [apply IH; assumption|].
    destruct (N.ltb_spec (match_len 4 buf (tpos t curr) pos 0 4) 4) as [H2|H2]; [apply IH; assumption|].
    pose proof (match_len_spec buf (tpos t curr) pos 4 4 0 ltac:(lia) ltac:(intros; lia)) as [M1 M2].
    assert (M3 : forall i, i < 4 -> bget buf (tpos t curr + i) = bget buf (pos + i)) by (intros; apply M2; lia).
    pose proof (match_len_spec buf (tpos t curr) pos lb buf_fuel 4
                               ltac:(unfold START_LEN in H1; lia) M3) as [L1 L2].
    set (len := match_len buf_fuel buf (tpos t curr) pos 4 lb) in *.
    assert (G : good pos enum len (tnum t curr)).
    { unfold good. rewrite He2. unfold START_LEN in *. repeat split; try lia.
      intros i Hi. rewrite <- !bget_chunk. apply L2. exact Hi. }
    destruct best as [[[bl bn] brs]|].
    + destruct (bl + ref_size len (enum - tnum t curr) <? len + brs); apply IH; assumption.
    + apply IH; assumption.
Qed.

Lemma find_longest_spec st free k pos hash len num :
  dict_inv (e_tbl st) free (e_num st) k ->
  find_longest st buf bound pos hash = Some (Some (len, num)) -> good pos (e_num st) len num.
Proof.
  intros D. unfold find_longest.
  destruct (bound <? pos + START_LEN); [discriminate|].
  destruct (walk _ _ _ _ _ _ _ _) as [[[[bl bn] brs]|]|] eqn:W; try discriminate.
  intros H; inversion H; subst.
  apply (walk_spec _ _ _ _ pos D) in W; [exact W | apply (di_head _ _ _ _ D) | exact I].
Qed.

Lemma find_last_spec t free enum k :
  dict_inv t free enum k ->
  forall fuel prev curr p c,
    prev = NIL \/ prev < k -> curr = NIL \/ curr < k ->
    find_last fuel t prev curr = Some (p, c) -> (p = NIL \/ p < k) /\ (c = NIL \/ c < k).
Proof.
  intros D. induction fuel as [|f IH]; intros prev curr p c Hp Hc; cbn [find_last].
  - destruct (curr =? NIL); [intros H; inversion H; subst; tauto|].
    destruct (tnext t curr =? NIL); [intros H; inversion H; subst; tauto | discriminate].
  - destruct (N.eqb_spec curr NIL) as [E|E]; [intros H; inversion H; subst; tauto|].
    destruct (tnext t curr =? NIL); [intros H; inversion H; subst; tauto|].
    destruct Hc as [Hc|Hc]; [contradiction|].
    apply IH; [right; exact Hc | apply (di_next _ _ _ _ D); exact Hc].
Qed.

Lemma NIL_big : TABLE_SIZE < NIL.
Proof. unfold TABLE_SIZE, NIL. lia. Qed.

(* _reduce_dict_add for the element number (e_num st) that starts at pos *)
Lemma dict_add_spec st k pos hash st' :
  dict_inv (e_tbl st) (e_free st) (e_num st) k ->
  np (e_num st) = pos ->
  dict_add st bound pos hash = Some st' ->
  e_num st' = e_num st + 1 /\ e_symb st' = e_symb st /\ e_slen st' = e_slen st
  /\ exists k', dict_inv (e_tbl st') (e_free st') (e_num st') k'.
Proof.
  intros D Hnp. unfold dict_add.
  pose proof NIL_big as HN.
  destruct (bound <? pos + START_LEN).
  { intros H; inversion H; subst; cbn. repeat split. exists k.
    destruct D as [D1 D2 D3 D4 D5 D6]. constructor; try assumption.
    intros i Hi. destruct (D6 i Hi). split; [lia | assumption]. }
  destruct (N.eqb_spec (e_free st) NIL) as [Ef|Ef].
  - (* no free element: recycle the last of the chain *)
    assert (Hk : k = TABLE_SIZE).
    { pose proof (di_free _ _ _ _ D) as F. pose proof (di_k _ _ _ _ D).
      destruct (N.ltb_spec k TABLE_SIZE); lia. }
    destruct (find_last table_fuel (e_tbl st) NIL (thead (e_tbl st) hash)) as [[prev curr]|] eqn:FL; [|discriminate].
    apply (find_last_spec _ _ _ _ D) in FL; [|left; reflexivity | apply (di_head _ _ _ _ D)].
    destruct FL as [Hp Hc].
    destruct (N.eqb_spec curr NIL) as [Ec|Ec].
    { intros H; inversion H; subst st'; cbn. repeat split. exists k.
      destruct D as [D1 D2 D3 D4 D5 D6]. constructor; try assumption; [congruence|].
      intros i Hi. destruct (D6 i Hi). split; [lia | assumption]. }
    destruct Hc as [Hc|Hc]; [contradiction|].
    intros H; inversion H; subst st'; cbn. repeat split. exists k.
    destruct D as [D1 D2 D3 D4 D5 D6].
    pose proof (D5 curr Hc) as Hnc.
    destruct (N.eqb_spec prev NIL) as [Epv|Epv].
    + constructor; try assumption.
      * rewrite Hk. replace (TABLE_SIZE <? TABLE_SIZE) with false by lia. reflexivity.
      * intros i Hi. rewrite tnext_link, tnext_set_head.
        destruct (N.eqb_spec curr i); [lia | apply D3; exact Hi].
      * intros h. rewrite thead_link, thead_set_head.
        destruct (hash =? h); [right; exact Hc|]. apply D4.
      * intros i Hi. rewrite tnext_link, tnext_set_head, thead_set_head.
        destruct (curr =? i); [|apply D5; exact Hi].
        rewrite N.eqb_refl. exact Hnc.
      * intros i Hi. rewrite tnum_link, tpos_link.
        destruct (curr =? i); [split; [lia | exact Hnp]|].
        rewrite ?tnum_set_head, ?tpos_set_head, ?tnum_set_next, ?tpos_set_next.
        destruct (D6 i Hi). split; [lia | assumption].
    + destruct Hp as [Hp|Hp]; [contradiction|].
      constructor; try assumption.
      * rewrite Hk. replace (TABLE_SIZE <? TABLE_SIZE) with false by lia. reflexivity.
      * intros i Hi. rewrite tnext_link, tnext_set_next.
        destruct (N.eqb_spec curr i); [lia|]. destruct (N.eqb_spec prev i); [lia | apply D3; exact Hi].
      * intros h. rewrite thead_link, thead_set_next.
        destruct (hash =? h); [right; exact Hc|]. apply D4.
      * intros i Hi. rewrite tnext_link, tnext_set_next, thead_set_next.
        destruct (curr =? i); [apply D4|].
        destruct (prev =? i); [exact Hnc | apply D5; exact Hi].
      * intros i Hi. rewrite tnum_link, tpos_link.
        destruct (curr =? i); [split; [lia | exact Hnp]|].
        rewrite ?tnum_set_head, ?tpos_set_head, ?tnum_set_next, ?tpos_set_next.
        destruct (D6 i Hi). split; [lia | assumption].
  - (* take the next free element *)
    assert (Hk : k < TABLE_SIZE /\ e_free st = k).
    { pose proof (di_free _ _ _ _ D) as F. destruct (N.ltb_spec k TABLE_SIZE); [split; assumption | congruence]. }
    destruct Hk as [Hk Ek].
    intros H; inversion H; subst st'; cbn. repeat split. exists (k + 1).
    destruct D as [D1 D2 D3 D4 D5 D6]. rewrite Ek.
    constructor.
    + lia.
    + rewrite (D3 k ltac:(lia)). unfold next0.
      destruct (N.eqb_spec (k + 1) TABLE_SIZE) as [E|E].
      * rewrite E. replace (TABLE_SIZE <? TABLE_SIZE) with false by lia. reflexivity.
      * replace (k + 1 <? TABLE_SIZE) with true by lia. reflexivity.
    + intros i Hi. rewrite tnext_link. destruct (N.eqb_spec k i); [lia | apply D3; lia].
    + intros h. rewrite thead_link. destruct (hash =? h); [right; lia|].
      destruct (D4 h); [left; assumption | right; lia].
    + intros i Hi. rewrite tnext_link. destruct (N.eqb_spec k i) as [->|Hne].
      * destruct (D4 hash); [left; assumption | right; lia].
      * destruct (D5 i ltac:(lia)); [left; assumption | right; lia].
    + intros i Hi. rewrite tnum_link, tpos_link. destruct (N.eqb_spec k i) as [->|Hne].
      * split; [lia | exact Hnp].
      * destruct (D6 i ltac:(lia)). split; [lia | assumption].
Qed.

End Dict.

Lemma dict_inv_ext np np' t free enum k :
  (forall n, n < enum -> np' n = np n) ->
  dict_inv np t free enum k -> dict_inv np' t free enum k.
Proof.
  intros E [D1 D2 D3 D4 D5 D6]. constructor; try assumption.
  intros i Hi. destruct (D6 i Hi) as [A B]. split; [exact A | rewrite E; assumption].
Qed.

Lemma dict_inv_init np : dict_inv np tbl0 0 0 0.
Proof.
  constructor.
  - unfold TABLE_SIZE; lia.
  - reflexivity.
  - intros i _. unfold tnext, tbl0; cbn. apply aget_aempty.
  - intros h. left. unfold thead, tbl0; cbn. rewrite aget_aempty. reflexivity.
  - intros i Hi. lia.
  - intros i Hi. lia.
Qed.

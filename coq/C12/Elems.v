(* C12: the format contract between encoder and decoder, stated on the byte stream:
   [elems_ok chunk np pos cnt bs] says that bs is a sequence of well-formed elements that spell out
   chunk[0..pos) using cnt symbol numbers, element number n starting at position np n. *)
From Coq Require Import ZArith NArith List Bool Lia ZifyBool ZifyNat ZifyN.
From MirV Require Import gen.ReduceParams C12.Arr C12.ArrProofs C12.Hash C12.Reduce C12.CodecProofs
  C12.EncodeProofs.
Import ListNotations.
Local Open Scope N_scope.

(* bytes written for the symbol part of an element (tag, long length, the symbols in stream order) *)
Definition ser_sym (syms : list N) (ref_tag : N) : list N :=
  symb_flush_out (rev syms) (N.of_nat (length syms)) ref_tag.

Definition ref_tag_of (len : N) : N :=
  let len' := len - (START_LEN - 1) in if len' <? REF_TAG_LONG then len' else REF_TAG_LONG.

(* bytes written for the reference part *)
Definition ser_ref (len off : N) : list N :=
  let len' := len - (START_LEN - 1) in
  (if REF_TAG_LONG <=? len' then uint_write len' else []) ++ uint_write off.

Section Elems.
Variable chunk : list N.
Variable np : N -> N.
Let clen := N.of_nat (length chunk).

Definition syms_at (pos : N) (syms : list N) : Prop :=
  forall j, (j < length syms)%nat -> nth j syms 0 = cb chunk (pos + N.of_nat j).

Definition nums_at (pos cnt n : N) : Prop := forall j, j < n -> np (cnt + j) = pos + j.

Inductive elem_ok (pos cnt : N) : list N -> N -> N -> Prop :=
| elem_sym syms :
    0 < N.of_nat (length syms) -> N.of_nat (length syms) <= MAX_SYMB_LEN ->
    pos + N.of_nat (length syms) <= clen ->
    syms_at pos syms -> nums_at pos cnt (N.of_nat (length syms)) ->
    elem_ok pos cnt (ser_sym syms 0) (pos + N.of_nat (length syms)) (cnt + N.of_nat (length syms))
| elem_ref syms len off :
    N.of_nat (length syms) <= MAX_SYMB_LEN ->
    syms_at pos syms -> nums_at pos cnt (N.of_nat (length syms)) ->
    START_LEN <= len -> 1 <= off -> off <= cnt + N.of_nat (length syms) ->
    np (cnt + N.of_nat (length syms)) = pos + N.of_nat (length syms) ->
    np (cnt + N.of_nat (length syms) - off) + len <= pos + N.of_nat (length syms) ->
    pos + N.of_nat (length syms) + len <= clen ->
    (forall i, i < len -> cb chunk (np (cnt + N.of_nat (length syms) - off) + i)
                          = cb chunk (pos + N.of_nat (length syms) + i)) ->
    elem_ok pos cnt (ser_sym syms (ref_tag_of len) ++ ser_ref len off)
            (pos + N.of_nat (length syms) + len) (cnt + N.of_nat (length syms) + 1).

Inductive elems_ok : N -> N -> list N -> Prop :=
| elems_nil : elems_ok 0 0 []
| elems_snoc pos cnt bs e pos' cnt' :
    elems_ok pos cnt bs -> elem_ok pos cnt e pos' cnt' -> elems_ok pos' cnt' (bs ++ e).

Lemma elem_ok_grows pos cnt e pos' cnt' :
  elem_ok pos cnt e pos' cnt' -> pos < pos' /\ cnt < cnt' /\ pos' <= clen.
Proof. intros H. destruct H; unfold START_LEN in *; lia. Qed.

End Elems.

Lemma elem_ok_ext chunk np np' pos cnt e pos' cnt' :
  (forall n, n < cnt' -> np' n = np n) ->
  elem_ok chunk np pos cnt e pos' cnt' -> elem_ok chunk np' pos cnt e pos' cnt'.
Proof.
  intros E H.
  destruct H as [syms Hn0 HM Hpn Hsy Hnu | syms len off HM Hsy Hnu Hlen Ho1 Ho2 Hnc Hsrc Hpl Heq].
  - apply elem_sym; try assumption. intros j Hj. rewrite E by lia. apply Hnu. exact Hj.
  - apply elem_ref; try assumption.
    + intros j Hj. rewrite E by lia. apply Hnu. exact Hj.
    + rewrite E by lia. assumption.
    + rewrite E by lia. assumption.
    + rewrite E by lia. assumption.
Qed.

Lemma elems_ok_ext chunk np np' pos cnt bs :
  elems_ok chunk np pos cnt bs -> (forall n, n < cnt -> np' n = np n) -> elems_ok chunk np' pos cnt bs.
Proof.
  induction 1 as [|pos cnt bs e pos' cnt' H IH He]; intros E; [constructor|].
  pose proof (elem_ok_grows _ _ _ _ _ _ _ He) as [_ [Hc _]].
  econstructor.
  - apply IH. intros n Hn. apply E. lia.
  - eapply elem_ok_ext; [|exact He]. exact E.
Qed.

(* C12, round 3: the encoder never looks behind buf_bound.

   The C encoder keeps ONE buffer [data->buf] for the whole run: [reduce_encode_put] writes the next
   piece of input over whatever the buffer held before, so during the encoding of a PARTIAL last
   buffer the bytes at positions >= buf_bound are stale (the previous 256 KiB piece), and for a
   single-buffer input they are whatever malloc returned.  [Reduce.encode] models each piece with
   a fresh buffer (cells behind the piece read 0).  That is only faithful if the encoder's output
   does not depend on those cells.  Here the buffer-carrying encoder [encode_on buf0] is defined:
   it starts from an ARBITRARY buffer [buf0] and writes every piece over what the previous one left
   - and proved equal to [encode] for every [buf0] and every input.  (A change such as taking the
   match-length limit from the capacity of the buffer instead of buf_bound makes this false: the
   match is then extended into the stale cells.) *)
From Coq Require Import NArith List Bool Lia ZifyBool ZifyNat ZifyN.
From MirV Require Import gen.ReduceParams C12.Arr C12.ArrProofs C12.Hash C12.Reduce C12.RoundTrip.
Import ListNotations.
Local Open Scope N_scope.

(* the buffer-carrying encoder *)
Definition encode_buf_on (buf0 : arr) (chunk : list N) (h : N) : option (list N * N * arr) :=
  match chunk with
  | [] => Some ([], h, buf0)
  | _ =>
    let bound := N.of_nat (length chunk) in
    let buf := awrite buf0 0 chunk in
    match enc_loop buf_fuel buf bound enc0 0 [] with
    | None => None
    | Some (st, acc) =>
      Some (rev' (rev_append (symb_flush_out (e_symb st) (e_slen st) 0) acc), mir_hash_strict chunk h, buf)
    end
  end.

Fixpoint enc_chunks_on (fuel : nat) (buf0 : arr) (data : list N) (h : N) : option (list N * N) :=
  match data with
  | [] => Some ([], h)
  | _ =>
    match fuel with
    | O => None
    | S f =>
      match encode_buf_on buf0 (firstn buf_fuel data) h with
      | None => None
      | Some (out, h1, buf1) =>
        match enc_chunks_on f buf1 (skipn buf_fuel data) h1 with
        | None => None
        | Some (outs, h2) => Some (out ++ outs, h2)
        end
      end
    end
  end.

Definition encode_on (buf0 : arr) (data : list N) : option (list N) :=
  match enc_chunks_on (S (length data)) buf0 data CHECK_HASH_SEED with
  | None => None
  | Some (body, h) => Some (PREFIX ++ body ++ 0 :: le_bytes 8 h)
  end.

(* two buffers that hold the same bytes below [bound] *)
Definition agree (bound : N) (b1 b2 : arr) : Prop := forall i, i < bound -> bget b1 i = bget b2 i.

Lemma match_len_agree bound b1 b2 p1 p2 bnd : agree bound b1 b2 ->
  p1 + bnd <= bound -> p2 + bnd <= bound ->
  forall fuel len, match_len fuel b1 p1 p2 len bnd = match_len fuel b2 p1 p2 len bnd.
Proof.
  intros Ha H1 H2. induction fuel as [|f IH]; intros len; cbn [match_len]; [reflexivity|].
  destruct (N.ltb_spec len bnd) as [Hl|Hl]; [|reflexivity].
  rewrite (Ha (p1 + len)) by lia. rewrite (Ha (p2 + len)) by lia.
  destruct (bget b2 (p1 + len) =? bget b2 (p2 + len)); [apply IH|reflexivity].
Qed.

Lemma aread_agree bound b1 b2 : agree bound b1 b2 ->
  forall n pos, pos + N.of_nat n <= bound -> aread zero0 b1 pos n = aread zero0 b2 pos n.
Proof.
  intros Ha. induction n as [|n IH]; intros pos Hp; cbn [aread]; [reflexivity|].
  f_equal.
  - apply (Ha pos). lia.
  - apply IH. lia.
Qed.

Lemma start_hash_agree bound b1 b2 pos : agree bound b1 b2 -> pos + START_LEN <= bound ->
  start_hash b1 pos = start_hash b2 pos.
Proof.
  intros Ha Hp. unfold start_hash. rewrite (aread_agree bound b1 b2 Ha); [reflexivity|lia].
Qed.

Lemma start_len_ge4 : 4 <= START_LEN.
Proof. unfold START_LEN. lia. Qed.

Lemma walk_agree bound b1 b2 t pos curr_num : agree bound b1 b2 ->
  forall fuel curr best,
  walk fuel t b1 bound pos curr_num curr best = walk fuel t b2 bound pos curr_num curr best.
Proof.
  intros Ha. induction fuel as [|f IH]; intros curr best; cbn [walk]; [reflexivity|].
  destruct (curr =? NIL); [reflexivity|].
  set (lb := N.min (bound - pos) (pos - tpos t curr)).
  destruct (N.ltb_spec lb START_LEN) as [Hlb|Hlb]; [apply IH|].
  pose proof start_len_ge4 as H4.
  assert (Hp1 : tpos t curr + lb <= bound) by (unfold lb in *; lia).
  assert (Hp2 : pos + lb <= bound) by (unfold lb in *; lia).
  rewrite (match_len_agree bound b1 b2 (tpos t curr) pos 4 Ha) by lia.
  destruct (match_len 4 b2 (tpos t curr) pos 0 4 <? 4); [apply IH|].
  rewrite (match_len_agree bound b1 b2 (tpos t curr) pos lb Ha Hp1 Hp2).
  destruct best as [[[bl bn] brs]|]; [|apply IH].
  destruct (bl + ref_size (match_len buf_fuel b2 (tpos t curr) pos 4 lb) (curr_num - tnum t curr) <?
            match_len buf_fuel b2 (tpos t curr) pos 4 lb + brs); apply IH.
Qed.

Lemma find_longest_agree bound b1 b2 st pos hash : agree bound b1 b2 ->
  find_longest st b1 bound pos hash = find_longest st b2 bound pos hash.
Proof.
  intros Ha. unfold find_longest. destruct (bound <? pos + START_LEN); [reflexivity|].
  rewrite (walk_agree bound b1 b2 _ pos _ Ha). reflexivity.
Qed.

Lemma enc_loop_agree bound b1 b2 : agree bound b1 b2 ->
  forall fuel st pos acc, enc_loop fuel b1 bound st pos acc = enc_loop fuel b2 bound st pos acc.
Proof.
  intros Ha. induction fuel as [|f IH]; intros st pos acc; cbn [enc_loop]; [reflexivity|].
  destruct (N.leb_spec bound pos) as [Hb|Hb]; [reflexivity|].
  assert (Hh : (if bound <? pos + START_LEN then 0 else start_hash b1 pos)
             = (if bound <? pos + START_LEN then 0 else start_hash b2 pos)).
  { destruct (N.ltb_spec bound (pos + START_LEN)) as [H|H]; [reflexivity|].
    apply (start_hash_agree bound); [exact Ha|lia]. }
  rewrite Hh. rewrite (find_longest_agree bound b1 b2 st pos _ Ha).
  destruct (find_longest st b2 bound pos _) as [[[len num]|]|]; [| |reflexivity].
  - destruct (output_ref st (e_num st - num) len) as [st1 out].
    destruct (dict_add st1 bound pos _); [apply IH|reflexivity].
  - rewrite (Ha pos Hb).
    destruct (output_byte st (bget b2 pos)) as [st1 out].
    destruct (dict_add st1 bound pos _); [apply IH|reflexivity].
Qed.

Lemma awrite_agree buf0 chunk :
  agree (N.of_nat (length chunk)) (awrite buf0 0 chunk) (awrite aempty 0 chunk).
Proof.
  intros i Hi. unfold bget. rewrite !aget_awrite_in by lia. reflexivity.
Qed.

Lemma encode_buf_on_eq buf0 chunk h :
  option_map fst (encode_buf_on buf0 chunk h) = encode_buf chunk h.
Proof.
  unfold encode_buf_on, encode_buf. destruct chunk as [|x chunk]; [reflexivity|].
  rewrite (enc_loop_agree _ _ _ (awrite_agree buf0 (x :: chunk))).
  destruct (enc_loop buf_fuel (awrite aempty 0 (x :: chunk)) _ enc0 0 []) as [[st acc]|]; reflexivity.
Qed.

Lemma enc_chunks_on_eq : forall fuel buf0 data h,
  enc_chunks_on fuel buf0 data h = enc_chunks fuel data h.
Proof.
  induction fuel as [|f IH]; intros buf0 data h; cbn [enc_chunks_on enc_chunks]; [reflexivity|].
  destruct data as [|x data]; [reflexivity|].
  pose proof (encode_buf_on_eq buf0 (firstn buf_fuel (x :: data)) h) as He.
  destruct (encode_buf_on buf0 (firstn buf_fuel (x :: data)) h) as [[[out h1] buf1]|];
    cbn [option_map fst] in He; rewrite <- He; [|reflexivity].
  rewrite IH. reflexivity.
Qed.

(* the statement used in Properties_C12.v *)
Lemma encode_on_eq : forall buf0 data, encode_on buf0 data = encode data.
Proof. intros. unfold encode_on, encode. rewrite enc_chunks_on_eq. reflexivity. Qed.

Lemma decode_encode_on : forall buf0 i2p0 dbuf0 data s,
  encode_on buf0 data = Some s -> decode true i2p0 dbuf0 s = Accept data.
Proof. intros buf0 i2p0 dbuf0 data s He. rewrite encode_on_eq in He. exact (decode_encode i2p0 dbuf0 data s He). Qed.

(* The statement has content: the two encoders are really run on different buffers - below, the stale
   buffer holds 'a's everywhere the 9-byte input does not reach, and a match finder bounded by
   anything larger than buf_bound would extend the final match "aaaa" into them. *)
Example encode_on_stale_example :
  let stale := awrite aempty 0 (repeat 97 64) in
  let data := [97;97;97;97;97;98;97;97;97;97] in
  encode_on stale data = encode data /\ bget (awrite stale 0 data) 10 = 97 /\ bget (awrite aempty 0 data) 10 = 0.
Proof. vm_compute. repeat split. Qed.

(* C12: functional arrays indexed by N, over the standard library's binary tries (FMapPositive).
   An array has no size of its own: the model does every bounds check explicitly before it calls
   [aget]/[aset] (an out-of-range index yields the outcome [Oob] there).  A cell that was never
   written reads as [dflt i]: the caller passes the (arbitrary) initial contents of the C memory.
   Definitions only; lemmas are in ArrProofs.v. *)
From Coq Require Import NArith List FMapPositive.
Import ListNotations.
Local Open Scope N_scope.

Definition arr := PositiveMap.t N.
Definition aempty : arr := PositiveMap.empty N.
Definition akey (i : N) : positive := N.succ_pos i.

Definition aget (dflt : N -> N) (a : arr) (i : N) : N :=
  match PositiveMap.find (akey i) a with Some v => v | None => dflt i end.

Definition aset (a : arr) (i v : N) : arr := PositiveMap.add (akey i) v a.

(* a[i..] := l *)
Fixpoint awrite (a : arr) (i : N) (l : list N) : arr :=
  match l with
  | [] => a
  | x :: l' => awrite (aset a i x) (N.succ i) l'
  end.

(* [a[i]; a[i+1]; ...] (n cells) *)
Fixpoint aread (dflt : N -> N) (a : arr) (i : N) (n : nat) : list N :=
  match n with
  | O => []
  | S n' => aget dflt a i :: aread dflt a (N.succ i) n'
  end.

(* a[i+k] := v+k for k < n   (the decoder's  ind2pos[curr_ind++] = pos++  loop) *)
Fixpoint awrite_seq (a : arr) (i v : N) (n : nat) : arr :=
  match n with
  | O => a
  | S n' => awrite_seq (aset a i v) (N.succ i) (N.succ v) n'
  end.

(* C12, round 2: two facts about the encoder model that round 1 validated only by the
   correspondence run are theorems here.

   (1) No subtraction of the encoder underflows.  The C code subtracts uint32_t values
       (buf_bound - pos, pos - el->pos, curr_num - el->num, len - (START_LEN - 1), base - dict_pos);
       the model uses natural-number subtraction, which agrees with the C arithmetic only when the
       minuend is not smaller.  [encode_x] below is the encoder with every such subtraction CHECKED
       ([csub] returns None on underflow).
   (2) The fuel of the byte-compare loop ([match_len buf_fuel]) is sufficient: [encode_x mf] takes the
       fuel [mf] of that loop as a parameter.

   Theorem [encode_exact]: for every input and every mf >= BUF_LEN, encode_x mf data = encode data.
   Since encode is total (reduce_encode_total), encode_x never reports an underflow, and no larger
   fuel changes any output byte.  [match_len_maximal] states what the loop computes when the fuel
   suffices: the length of the longest common prefix below the bound (no fuel in the statement). *)
From Coq Require Import ZArith NArith List Bool Lia ZifyBool ZifyNat ZifyN.
From MirV Require Import gen.ReduceParams C12.Arr C12.ArrProofs C12.Hash C12.Reduce C12.CodecProofs
  C12.EncodeProofs C12.EncodeTotal C12.RoundTrip.
Import ListNotations.
Local Open Scope N_scope.

Definition csub (a b : N) : option N := if b <=? a then Some (a - b) else None.

Lemma csub_ok a b : b <= a -> csub a b = Some (a - b).
Proof. intros H. unfold csub. replace (b <=? a) with true by lia. reflexivity. Qed.

(* ------------------------------------------------------------------ the byte-compare loop *)

Lemma match_len_fuel buf p1 p2 bound : forall f1 f2 len,
  (N.to_nat (bound - len) <= f1)%nat -> (N.to_nat (bound - len) <= f2)%nat ->
  match_len f1 buf p1 p2 len bound = match_len f2 buf p1 p2 len bound.
Proof.
  induction f1 as [|f1 IH]; intros f2 len H1 H2.
  - cbn [match_len]. destruct f2 as [|f2]; [reflexivity|]. cbn [match_len].
    replace (len <? bound) with false by lia. reflexivity.
  - destruct f2 as [|f2].
    + cbn [match_len]. replace (len <? bound) with false by lia. reflexivity.
    + cbn [match_len]. destruct (N.ltb_spec len bound) as [Hlt|Hge]; [|reflexivity].
      destruct (bget buf (p1 + len) =? bget buf (p2 + len)); [|reflexivity].
      apply IH; lia.
Qed.

(* with enough fuel the loop stops only at the bound or at the first differing byte *)
Lemma match_len_maximal buf p1 p2 bound : forall fuel len,
  (N.to_nat (bound - len) <= fuel)%nat -> len <= bound ->
  let r := match_len fuel buf p1 p2 len bound in
  len <= r <= bound
  /\ (forall i, len <= i < r -> bget buf (p1 + i) = bget buf (p2 + i))
  /\ (r = bound \/ bget buf (p1 + r) <> bget buf (p2 + r)).
Proof.
  induction fuel as [|f IH]; intros len Hf Hl; cbn [match_len].
  - assert (len = bound) by lia. subst. cbv zeta. split; [lia|]. split; [intros; lia | left; reflexivity].
  - destruct (N.ltb_spec len bound) as [Hlt|Hge].
    + destruct (N.eqb_spec (bget buf (p1 + len)) (bget buf (p2 + len))) as [E|E].
      * specialize (IH (len + 1) ltac:(lia) ltac:(lia)). cbv zeta in IH. destruct IH as (A & B & C).
        cbv zeta. split; [lia|]. split; [|exact C].
        intros i Hi. destruct (N.eq_dec i len) as [->|Hne]; [exact E | apply B; lia].
      * cbv zeta. split; [lia|]. split; [intros; lia | right; exact E].
    + cbv zeta. split; [lia|]. split; [intros; lia | left; lia].
Qed.

Lemma fuel_enough n : n <= BUF_LEN -> (N.to_nat n <= buf_fuel)%nat.
Proof. pose proof buf_fuel_N as HBF. revert HBF. generalize buf_fuel as bf. intros bf HBF H. lia. Qed.

Lemma len_le_buf n : (n <= buf_fuel)%nat -> N.of_nat n <= BUF_LEN.
Proof. pose proof buf_fuel_N as HBF. revert HBF. generalize buf_fuel as bf. intros bf HBF H. lia. Qed.

(* ------------------------------------------------------------------ the checked encoder *)

Section X.
Variable mf : nat.     (* fuel of the byte-compare loop *)

Definition ref_size_x (len offset : N) : option N :=
  match csub len (START_LEN - 1) with
  | None => None
  | Some l => Some ((if l <? REF_TAG_LONG then 0 else ref_offset_size l) + ref_offset_size offset)
  end.

Definition output_ref_x (st : enc) (offset len : N) : option (enc * list N) :=
  match csub len (START_LEN - 1) with
  | None => None
  | Some len =>
    let ref_tag := if len <? REF_TAG_LONG then len else REF_TAG_LONG in
    Some (set_symb st [] 0,
          symb_flush_out (e_symb st) (e_slen st) ref_tag
          ++ (if REF_TAG_LONG <=? len then uint_write len else []) ++ uint_write offset)
  end.

Fixpoint walk_x (fuel : nat) (t : tbl) (buf : arr) (bound pos curr_num curr : N)
         (best : option (N * N * N)) : option (option (N * N * N)) :=
  if curr =? NIL then Some best else
  match fuel with
  | O => None
  | S f =>
    let next := tnext t curr in
    match csub bound pos, csub pos (tpos t curr) with
    | Some a, Some b =>
      let len_bound := N.min a b in
      if len_bound <? START_LEN then walk_x f t buf bound pos curr_num next best else
      if match_len 4 buf (tpos t curr) pos 0 4 <? 4 then walk_x f t buf bound pos curr_num next best else
      let len := match_len mf buf (tpos t curr) pos 4 len_bound in
      match csub curr_num (tnum t curr) with
      | None => None
      | Some off =>
        match ref_size_x len off with
        | None => None
        | Some rs =>
          match best with
          | None => walk_x f t buf bound pos curr_num next (Some (len, tnum t curr, rs))
          | Some (bl, bn, brs) =>
            if bl + rs <? len + brs then walk_x f t buf bound pos curr_num next (Some (len, tnum t curr, rs))
            else walk_x f t buf bound pos curr_num next best
          end
        end
      end
    | _, _ => None
    end
  end.

Definition find_longest_x (st : enc) (buf : arr) (bound pos hash : N) : option (option (N * N)) :=
  if bound <? pos + START_LEN then Some None else
  match walk_x table_fuel (e_tbl st) buf bound pos (e_num st) (thead (e_tbl st) hash) None with
  | None => None
  | Some None => Some None
  | Some (Some (bl, bn, _)) => Some (Some (bl, bn))
  end.

Fixpoint enc_loop_x (fuel : nat) (buf : arr) (bound : N) (st : enc) (pos : N) (acc : list N)
  : option (enc * list N) :=
  if bound <=? pos then Some (st, acc) else
  match fuel with
  | O => None
  | S f =>
    let hash := if bound <? pos + START_LEN then 0 else start_hash buf pos in
    match find_longest_x st buf bound pos hash with
    | None => None
    | Some None =>
      let '(st1, out) := output_byte st (bget buf pos) in
      match dict_add st1 bound pos hash with
      | None => None
      | Some st2 => enc_loop_x f buf bound st2 (pos + 1) (rev_append out acc)
      end
    | Some (Some (len, num)) =>
      match csub (e_num st) num with
      | None => None
      | Some off =>
        match output_ref_x st off len with
        | None => None
        | Some (st1, out) =>
          match dict_add st1 bound pos hash with
          | None => None
          | Some st2 => enc_loop_x f buf bound st2 (pos + len) (rev_append out acc)
          end
        end
      end
    end
  end.

Definition encode_buf_x (chunk : list N) (h : N) : option (list N * N) :=
  match chunk with
  | [] => Some ([], h)
  | _ =>
    let bound := N.of_nat (length chunk) in
    let buf := awrite aempty 0 chunk in
    match enc_loop_x buf_fuel buf bound enc0 0 [] with
    | None => None
    | Some (st, acc) =>
      Some (rev' (rev_append (symb_flush_out (e_symb st) (e_slen st) 0) acc), mir_hash_strict chunk h)
    end
  end.

Fixpoint enc_chunks_x (fuel : nat) (data : list N) (h : N) : option (list N * N) :=
  match data with
  | [] => Some ([], h)
  | _ =>
    match fuel with
    | O => None
    | S f =>
      match encode_buf_x (firstn buf_fuel data) h with
      | None => None
      | Some (out, h1) =>
        match enc_chunks_x f (skipn buf_fuel data) h1 with
        | None => None
        | Some (outs, h2) => Some (out ++ outs, h2)
        end
      end
    end
  end.

Definition encode_x (data : list N) : option (list N) :=
  match enc_chunks_x (S (length data)) data CHECK_HASH_SEED with
  | None => None
  | Some (body, h) => Some (PREFIX ++ body ++ 0 :: le_bytes 8 h)
  end.

(* ------------------------------------------------------------------ the invariant *)

(* every table cell holds a position not after the current one and a number not above curr_num
   (cells never written read as 0) *)
Definition Xinv (st : enc) (pos : N) : Prop :=
  (forall i, tpos (e_tbl st) i <= pos) /\ (forall i, tnum (e_tbl st) i <= e_num st).

Lemma ref_size_x_eq len off : 4 <= len -> ref_size_x len off = Some (ref_size len off).
Proof. intros H. unfold ref_size_x, ref_size. rewrite csub_ok by (unfold START_LEN; lia). reflexivity. Qed.

Definition best_ok (enum : N) (b : option (N * N * N)) : Prop :=
  match b with Some (bl, bn, _) => 4 <= bl /\ bn <= enum | None => True end.

Hypothesis Hmf : (buf_fuel <= mf)%nat.

Lemma walk_x_eq t buf bound pos enum :
  pos <= bound -> bound <= BUF_LEN ->
  (forall i, tpos t i <= pos) -> (forall i, tnum t i <= enum) ->
  forall fuel curr best,
    walk_x fuel t buf bound pos enum curr best = walk fuel t buf bound pos enum curr best.
Proof.
  intros Hpb Hbb Hp Hn.
  assert (Hfu : forall n, n <= BUF_LEN -> (N.to_nat n <= buf_fuel)%nat /\ (N.to_nat n <= mf)%nat).
  { intros n Hn'. pose proof (fuel_enough n Hn') as F. split; [exact F | exact (Nat.le_trans _ _ _ F Hmf)]. }
  clear Hmf.
  induction fuel as [|f IH]; intros curr best; cbn [walk_x walk]; [reflexivity|].
  destruct (curr =? NIL); [reflexivity|].
  rewrite (csub_ok bound pos Hpb), (csub_ok pos (tpos t curr) (Hp curr)).
  set (lb := N.min (bound - pos) (pos - tpos t curr)).
  destruct (lb <? START_LEN); [apply IH|].
  destruct (match_len 4 buf (tpos t curr) pos 0 4 <? 4); [apply IH|].
  destruct (Hfu (lb - 4) ltac:(unfold lb; lia)) as [F1 F2].
  rewrite (match_len_fuel buf (tpos t curr) pos lb mf buf_fuel 4 F2 F1).
  rewrite (csub_ok enum (tnum t curr) (Hn curr)).
  rewrite ref_size_x_eq by apply match_len_ge.
  destruct best as [[[bl bn] brs]|]; [|apply IH].
  destruct (_ <? _); apply IH.
Qed.

Lemma walk_best_ok t buf bound pos enum : (forall i, tnum t i <= enum) ->
  forall fuel curr best r,
  best_ok enum best -> walk fuel t buf bound pos enum curr best = Some r -> best_ok enum r.
Proof.
  intros Hn. induction fuel as [|f IH]; intros curr best r Hb; cbn [walk].
  - destruct (curr =? NIL); [|discriminate]. intros H; inversion H; subst. exact Hb.
  - destruct (curr =? NIL). { intros H; inversion H; subst. exact Hb. }
    pose proof (match_len_ge buf (tpos t curr) pos (N.min (bound - pos) (pos - tpos t curr)) buf_fuel 4) as G.
    pose proof (Hn curr) as Hc.
    repeat match goal with
           | |- context [if ?c then _ else _] => destruct c
           | |- context [match ?b with Some _ => _ | None => _ end] => destruct b as [[[? ?] ?]|]
           end; apply IH; try exact Hb; split; assumption.
Qed.

Lemma find_longest_x_eq st buf bound pos hash :
  bound <= BUF_LEN -> Xinv st pos ->
  find_longest_x st buf bound pos hash = find_longest st buf bound pos hash
  /\ forall len num, find_longest st buf bound pos hash = Some (Some (len, num)) -> 4 <= len /\ num <= e_num st.
Proof.
  intros Hbb [Hp Hn]. unfold find_longest_x, find_longest.
  destruct (N.ltb_spec bound (pos + START_LEN)) as [Hs|Hs]; [split; [reflexivity | discriminate]|].
  rewrite walk_x_eq by (auto; unfold START_LEN in Hs; lia).
  split; [reflexivity|]. intros len num H.
  destruct (walk table_fuel (e_tbl st) buf bound pos (e_num st) (thead (e_tbl st) hash) None)
    as [[[[bl bn] brs]|]|] eqn:W; try discriminate.
  inversion H; subst.
  exact (walk_best_ok (e_tbl st) buf bound pos (e_num st) Hn table_fuel _ None _ I W).
Qed.

Lemma output_ref_x_eq st off len : 4 <= len -> output_ref_x st off len = Some (output_ref st off len).
Proof. intros H. unfold output_ref_x, output_ref. rewrite csub_ok by (unfold START_LEN; lia). reflexivity. Qed.

(* _reduce_dict_add at pos keeps the invariant, for every later position *)
Lemma dict_add_Xinv st bound pos hash st' pos' :
  Xinv st pos -> pos <= pos' -> dict_add st bound pos hash = Some st' -> Xinv st' pos'.
Proof.
  intros [Hp Hn] Hle. unfold dict_add.
  destruct (bound <? pos + START_LEN).
  { intros H; inversion H; subst; unfold Xinv; cbn [e_tbl e_num]. split; intros i; [specialize (Hp i) | specialize (Hn i)]; lia. }
  destruct (e_free st =? NIL).
  - destruct (find_last table_fuel (e_tbl st) NIL (thead (e_tbl st) hash)) as [[prev curr]|]; [|discriminate].
    destruct (curr =? NIL).
    { intros H; inversion H; subst; unfold Xinv; cbn [e_tbl e_num]. split; intros i; [specialize (Hp i) | specialize (Hn i)]; lia. }
    intros H; inversion H; subst; unfold Xinv; cbn [e_tbl e_num]. split; intros i.
    + rewrite tpos_link. destruct (curr =? i); [lia|].
      destruct (prev =? NIL); rewrite ?tpos_set_head, ?tpos_set_next; specialize (Hp i); lia.
    + rewrite tnum_link. destruct (curr =? i); [lia|].
      destruct (prev =? NIL); rewrite ?tnum_set_head, ?tnum_set_next; specialize (Hn i); lia.
  - intros H; inversion H; subst; unfold Xinv; cbn [e_tbl e_num]. split; intros i.
    + rewrite tpos_link. destruct (_ =? i); [lia | specialize (Hp i); lia].
    + rewrite tnum_link. destruct (_ =? i); [lia | specialize (Hn i); lia].
Qed.

Lemma Xinv_symb st symb slen pos : Xinv st pos -> Xinv (set_symb st symb slen) pos.
Proof. intros H. exact H. Qed.

Lemma output_byte_Xinv st b pos : Xinv st pos -> Xinv (fst (output_byte st b)) pos.
Proof. intros H. unfold output_byte. destruct (_ <? _); exact H. Qed.

Lemma enc_loop_x_eq buf bound : bound <= BUF_LEN ->
  forall fuel st pos acc, Xinv st pos ->
  enc_loop_x fuel buf bound st pos acc = enc_loop fuel buf bound st pos acc.
Proof.
  intros Hbb. induction fuel as [|f IH]; intros st pos acc HX; cbn [enc_loop_x enc_loop]; [reflexivity|].
  destruct (bound <=? pos); [reflexivity|].
  set (hash := if bound <? pos + START_LEN then 0 else start_hash buf pos).
  destruct (find_longest_x_eq st buf bound pos hash Hbb HX) as [-> Hfl].
  destruct (find_longest st buf bound pos hash) as [[[len num]|]|]; [| |reflexivity].
  - destruct (Hfl len num eq_refl) as [Hl Hnum].
    rewrite (csub_ok (e_num st) num Hnum), (output_ref_x_eq st _ len Hl).
    destruct (output_ref st (e_num st - num) len) as [st1 out] eqn:EO.
    assert (HX1 : Xinv st1 pos) by (unfold output_ref in EO; inversion EO; subst st1; exact HX).
    destruct (dict_add st1 bound pos hash) as [st2|] eqn:DA; [|reflexivity].
    apply IH. apply (dict_add_Xinv st1 bound pos hash st2 (pos + len) HX1 ltac:(lia) DA).
  - destruct (output_byte st (bget buf pos)) as [st1 out] eqn:EO.
    assert (HX1 : Xinv st1 pos).
    { pose proof (output_byte_Xinv st (bget buf pos) pos HX) as P. rewrite EO in P. exact P. }
    destruct (dict_add st1 bound pos hash) as [st2|] eqn:DA; [|reflexivity].
    apply IH. apply (dict_add_Xinv st1 bound pos hash st2 (pos + 1) HX1 ltac:(lia) DA).
Qed.

Lemma Xinv_init : Xinv enc0 0.
Proof.
  split; intros i; unfold enc0, tbl0, tpos, tnum; cbn; rewrite aget_aempty; unfold zero0; lia.
Qed.

Lemma encode_buf_x_eq chunk h : (length chunk <= buf_fuel)%nat -> encode_buf_x chunk h = encode_buf chunk h.
Proof.
  intros Hl. unfold encode_buf_x, encode_buf. destruct chunk as [|c0 ch0] eqn:Ec; [reflexivity|].
  rewrite <- Ec in *. rewrite enc_loop_x_eq; [reflexivity | | exact Xinv_init].
  now apply len_le_buf.
Qed.

Lemma enc_chunks_x_cons fuel x d h :
  enc_chunks_x (S fuel) (x :: d) h =
  match encode_buf_x (firstn buf_fuel (x :: d)) h with
  | None => None
  | Some (out, h1) =>
    match enc_chunks_x fuel (skipn buf_fuel (x :: d)) h1 with
    | None => None
    | Some (outs, h2) => Some (out ++ outs, h2)
    end
  end.
Proof. reflexivity. Qed.

Lemma enc_chunks_x_eq : forall fuel data h, enc_chunks_x fuel data h = enc_chunks fuel data h.
Proof.
  induction fuel as [|f IH]; intros data h; destruct data as [|x d];
    [reflexivity | reflexivity | reflexivity |].
  rewrite enc_chunks_x_cons, enc_chunks_cons. rewrite (encode_buf_x_eq (firstn buf_fuel (x :: d)) h (firstn_le_length buf_fuel (x :: d))).
  destruct (encode_buf (firstn buf_fuel (x :: d)) h) as [[out h1]|]; [|reflexivity].
  rewrite IH. reflexivity.
Qed.

Lemma encode_x_eq data : encode_x data = encode data.
Proof. unfold encode_x, encode. rewrite enc_chunks_x_eq. reflexivity. Qed.

End X.

(* the checked encoder with any sufficient compare-loop fuel IS the encoder; in particular it never
   reports an underflow (encode is total) *)
Lemma encode_exact_lemma mf data : (buf_fuel <= mf)%nat -> encode_x mf data = encode data.
Proof. intros H. now apply encode_x_eq. Qed.

Lemma encode_no_underflow_lemma mf data : (buf_fuel <= mf)%nat -> exists s, encode_x mf data = Some s.
Proof. intros H. rewrite (encode_exact_lemma mf data H). apply encode_total. Qed.

(* the checks are not vacuous: a subtraction that underflows is reported *)
Lemma csub_detects : csub 3 4 = None /\ ref_size_x 2 1 = None.
Proof. split; reflexivity. Qed.

(* C12: the encoder's output for one buffer is a well-formed element sequence for that buffer. *)
From Coq Require Import ZArith NArith List Bool Lia ZifyBool ZifyNat ZifyN.
From MirV Require Import gen.ReduceParams C12.Arr C12.ArrProofs C12.Hash C12.Reduce C12.CodecProofs
  C12.EncodeProofs C12.Elems.
Import ListNotations.
Local Open Scope N_scope.

Ltac plia := unfold MAX_SYMB_LEN, START_LEN, BUF_LEN, REF_TAG_LONG, SYMB_TAG_LONG in *; lia.

Lemma encode_buf_nonempty chunk h :
  chunk <> [] ->
  encode_buf chunk h =
  match enc_loop buf_fuel (awrite aempty 0 chunk) (N.of_nat (length chunk)) enc0 0 [] with
  | None => None
  | Some (st, acc) =>
    Some (rev' (rev_append (symb_flush_out (e_symb st) (e_slen st) 0) acc), mir_hash_strict chunk h)
  end.
Proof. destruct chunk; [contradiction | reflexivity]. Qed.

Section EncLoop.
Variable chunk : list N.
Let bound := N.of_nat (length chunk).
Let buf := awrite aempty 0 chunk.

(* invariant at the head of the loop of _reduce_encode_buf *)
Definition Einv (np : N -> N) (st : enc) (pos : N) (acc : list N) : Prop :=
  let m := e_slen st in
  m = N.of_nat (length (e_symb st)) /\ m <= MAX_SYMB_LEN /\ m <= pos /\ m <= e_num st /\
  pos <= bound /\ e_num st <= pos /\
  syms_at chunk (pos - m) (rev (e_symb st)) /\
  nums_at np (pos - m) (e_num st - m) m /\
  elems_ok chunk np (pos - m) (e_num st - m) (rev acc) /\
  exists k, dict_inv np (e_tbl st) (e_free st) (e_num st) k.

Definition upd (np : N -> N) (n v : N) : N -> N := fun x => if x =? n then v else np x.

Lemma symb_flush_ser symb slen r :
  slen = N.of_nat (length symb) -> symb_flush_out symb slen r = ser_sym (rev symb) r.
Proof. intros ->. unfold ser_sym. rewrite rev_involutive, rev_length. reflexivity. Qed.

Lemma rev_rev_append (out acc : list N) : rev (rev_append out acc) = rev acc ++ out.
Proof. rewrite rev_append_rev, rev_app_distr, rev_involutive. reflexivity. Qed.

Lemma Einv_byte np st pos acc hash st2 :
  Einv np st pos acc -> pos < bound ->
  dict_add (fst (output_byte st (cb chunk pos))) bound pos hash = Some st2 ->
  exists np', Einv np' st2 (pos + 1) (rev_append (snd (output_byte st (cb chunk pos))) acc).
Proof.
  intros (Hm & HM & Hmp & Hmn & Hpb & Hnp & Hsy & Hnu & Hel & k & D) Hlt HD.
  set (np' := upd np (e_num st) pos).
  assert (Eold : forall n, n < e_num st -> np' n = np n).
  { intros n Hn. unfold np', upd. replace (n =? e_num st) with false by lia. reflexivity. }
  assert (Enew : np' (e_num st) = pos) by (unfold np', upd; rewrite N.eqb_refl; reflexivity).
  exists np'. unfold output_byte in *.
  destruct (N.ltb_spec MAX_SYMB_LEN (e_slen st + 1)) as [Hfull|Hroom]; cbn [fst snd] in *.
  - (* the symbol buffer is full: it is flushed as a symbol-only element *)
    apply (dict_add_spec chunk np' _ k) in HD;
      [|cbn; eapply dict_inv_ext; [|exact D]; exact Eold | cbn; exact Enew].
    cbn in HD. destruct HD as (En & Es & El & k' & D').
    unfold Einv. rewrite En, Es, El. cbn [length rev app].
    assert (Hmx : e_slen st = MAX_SYMB_LEN) by lia.
    replace (pos + 1 - 1) with pos by lia. replace (e_num st + 1 - 1) with (e_num st) by lia.
    repeat split; try plia.
    + intros j Hj. cbn in Hj. assert (j = O) by lia. subst j. cbn. f_equal. lia.
    + intros j Hj. assert (j = 0) by lia. subst j. rewrite !N.add_0_r. exact Enew.
    + rewrite rev_rev_append, (symb_flush_ser _ _ _ Hm).
      replace pos with (pos - e_slen st + N.of_nat (length (rev (e_symb st)))) at 1
        by (rewrite rev_length; lia).
      replace (e_num st) with (e_num st - e_slen st + N.of_nat (length (rev (e_symb st)))) at 1
        by (rewrite rev_length; lia).
      econstructor; [eapply elems_ok_ext; [exact Hel | intros; apply Eold; lia]|].
      apply elem_sym; rewrite ?rev_length; try (unfold MAX_SYMB_LEN in *; lia).
      * exact Hsy.
      * intros j Hj. rewrite Eold by lia. apply Hnu. lia.
    + exists k'. rewrite <- En. exact D'.
  - (* the byte joins the pending symbols *)
    apply (dict_add_spec chunk np' _ k) in HD;
      [|cbn; eapply dict_inv_ext; [|exact D]; exact Eold | cbn; exact Enew].
    cbn in HD. destruct HD as (En & Es & El & k' & D').
    unfold Einv. rewrite En, Es, El. cbn [length rev rev_append].
    replace (pos + 1 - (e_slen st + 1)) with (pos - e_slen st) by lia.
    replace (e_num st + 1 - (e_slen st + 1)) with (e_num st - e_slen st) by lia.
    repeat split; try plia.
    + intros j Hj. rewrite app_length, rev_length in Hj. cbn in Hj.
      destruct (Nat.eq_dec j (length (e_symb st))) as [->|Hne].
      * rewrite app_nth2 by (rewrite rev_length; lia). rewrite rev_length, Nat.sub_diag. cbn.
        f_equal. lia.
      * rewrite app_nth1 by (rewrite rev_length; lia). apply Hsy. rewrite rev_length. lia.
    + intros j Hj. destruct (N.eq_dec j (e_slen st)) as [->|Hne].
      * replace (e_num st - e_slen st + e_slen st) with (e_num st) by lia. rewrite Enew. lia.
      * rewrite Eold by lia. apply Hnu. lia.
    + eapply elems_ok_ext; [exact Hel | intros; apply Eold; lia].
    + exists k'. rewrite <- En. exact D'.
Qed.

Lemma Einv_ref np st pos acc hash len num st2 :
  Einv np st pos acc -> pos < bound ->
  good chunk np pos (e_num st) len num ->
  dict_add (fst (output_ref st (e_num st - num) len)) bound pos hash = Some st2 ->
  exists np', Einv np' st2 (pos + len) (rev_append (snd (output_ref st (e_num st - num) len)) acc).
Proof.
  intros (Hm & HM & Hmp & Hmn & Hpb & Hnp & Hsy & Hnu & Hel & k & D) Hlt (G1 & G2 & G3 & G4 & G5) HD.
  set (np' := upd np (e_num st) pos).
  assert (Eold : forall n, n < e_num st -> np' n = np n).
  { intros n Hn. unfold np', upd. replace (n =? e_num st) with false by lia. reflexivity. }
  assert (Enew : np' (e_num st) = pos) by (unfold np', upd; rewrite N.eqb_refl; reflexivity).
  exists np'. unfold output_ref in *. cbn [fst snd] in *.
  apply (dict_add_spec chunk np' _ k) in HD;
    [|cbn; eapply dict_inv_ext; [|exact D]; exact Eold | cbn; exact Enew].
  cbn in HD. destruct HD as (En & Es & El & k' & D').
  unfold Einv. rewrite En, Es, El. cbn [length rev].
  rewrite !N.sub_0_r.
  unfold bound in *. unfold START_LEN in *.
  repeat split; try plia.
  - intros j Hj. cbn in Hj. lia.
  - intros j Hj. lia.
  - rewrite rev_rev_append, (symb_flush_ser _ _ _ Hm).
    set (syms := rev (e_symb st)).
    assert (Hls : N.of_nat (length syms) = e_slen st) by (unfold syms; rewrite rev_length; lia).
    replace (pos + len) with (pos - e_slen st + N.of_nat (length syms) + len) by lia.
    replace (e_num st + 1) with (e_num st - e_slen st + N.of_nat (length syms) + 1) by lia.
    econstructor; [eapply elems_ok_ext; [exact Hel | intros; apply Eold; lia]|].
    change (ser_sym syms (if len - (4 - 1) <? REF_TAG_LONG then len - (4 - 1) else REF_TAG_LONG)
            ++ (if REF_TAG_LONG <=? len - (4 - 1) then uint_write (len - (4 - 1)) else [])
            ++ uint_write (e_num st - num))
      with (ser_sym syms (ref_tag_of len) ++ ser_ref len (e_num st - num)).
    apply elem_ref; rewrite ?Hls; unfold START_LEN; try lia.
    + exact Hsy.
    + intros j Hj. rewrite Eold by lia. apply Hnu. lia.
    + replace (e_num st - e_slen st + e_slen st) with (e_num st) by lia. rewrite Enew. lia.
    + replace (e_num st - e_slen st + e_slen st - (e_num st - num)) with num by lia.
      rewrite Eold by lia. lia.
    + replace (e_num st - e_slen st + e_slen st - (e_num st - num)) with num by lia.
      rewrite Eold by lia. intros i Hi. rewrite G5 by exact Hi. f_equal. lia.
  - exists k'. rewrite <- En. exact D'.
Qed.

Lemma Einv_pos_le np st pos acc : Einv np st pos acc -> pos <= bound.
Proof. intros (_ & _ & _ & _ & Hpb & _). exact Hpb. Qed.

Lemma enc_loop_spec : forall fuel np st pos acc st' acc',
  Einv np st pos acc ->
  enc_loop fuel buf bound st pos acc = Some (st', acc') ->
  exists np', Einv np' st' bound acc'.
Proof.
  induction fuel as [|f IH]; intros np st pos acc st' acc' HI; cbn [enc_loop].
  - destruct (N.leb_spec bound pos) as [Hge|Hlt]; [|discriminate].
    intros H; inversion H; subst. exists np.
    assert (pos = bound) by (pose proof (Einv_pos_le _ _ _ _ HI); lia). subst pos. exact HI.
  - destruct (N.leb_spec bound pos) as [Hge|Hlt].
    { intros H; inversion H; subst. exists np.
      assert (pos = bound) by (pose proof (Einv_pos_le _ _ _ _ HI); lia). subst pos. exact HI. }
    set (hash := if bound <? pos + START_LEN then 0 else start_hash buf pos).
    destruct (find_longest st buf bound pos hash) as [[[len num]|]|] eqn:FL; [| |discriminate].
    + assert (G : good chunk np pos (e_num st) len num).
      { pose proof HI as (_ & _ & _ & _ & _ & _ & _ & _ & _ & k & D).
        exact (find_longest_spec chunk np st _ k pos hash len num D FL). }
      destruct (output_ref st (e_num st - num) len) as [st1 out] eqn:EO.
      destruct (dict_add st1 bound pos hash) as [st2|] eqn:DA; [|discriminate].
      intros H.
      pose proof (Einv_ref np st pos acc hash len num st2 HI Hlt G) as P.
      rewrite EO in P. cbn [fst snd] in P. destruct (P DA) as [np' HI'].
      eapply IH; [exact HI' | exact H].
    + unfold buf at 1. rewrite bget_chunk.
      destruct (output_byte st (cb chunk pos)) as [st1 out] eqn:EO.
      destruct (dict_add st1 bound pos hash) as [st2|] eqn:DA; [|discriminate].
      intros H.
      pose proof (Einv_byte np st pos acc hash st2 HI Hlt) as P.
      rewrite EO in P. cbn [fst snd] in P. destruct (P DA) as [np' HI'].
      eapply IH; [exact HI' | exact H].
Qed.

Lemma Einv_init : Einv (fun _ => 0) enc0 0 [].
Proof.
  unfold Einv, enc0; cbn. unfold MAX_SYMB_LEN.
  repeat split; try plia.
  - intros j Hj. cbn in Hj. lia.
  - intros j Hj. lia.
  - constructor.
  - exists 0. apply dict_inv_init.
Qed.

(* _reduce_encode_buf: the bytes written for a non-empty buffer form a well-formed element
   sequence that spells out the whole buffer *)
Lemma encode_buf_spec h out h1 :
  chunk <> [] -> encode_buf chunk h = Some (out, h1) ->
  h1 = mir_hash_strict chunk h /\ exists np cnt, elems_ok chunk np bound cnt out.
Proof.
  intros Hne. rewrite (encode_buf_nonempty _ _ Hne). fold buf. fold bound.
  destruct (enc_loop buf_fuel buf bound enc0 0 []) as [[st acc]|] eqn:EL; [|discriminate].
  intros H; inversion H; subst out h1. split; [reflexivity|].
  apply (enc_loop_spec _ _ _ _ _ _ _ Einv_init) in EL. destruct EL as [np HI].
  destruct HI as (Hm & HM & Hmp & Hmn & Hpb & Hnp & Hsy & Hnu & Hel & k & D).
  exists np, (e_num st).
  unfold rev'. rewrite <- rev_alt, rev_rev_append.
  destruct (N.eq_dec (e_slen st) 0) as [E0|E0].
  - unfold symb_flush_out. rewrite E0. cbn. rewrite app_nil_r.
    rewrite E0, !N.sub_0_r in Hel. exact Hel.
  - rewrite (symb_flush_ser _ _ _ Hm).
    replace bound with (bound - e_slen st + N.of_nat (length (rev (e_symb st)))) at 1
      by (rewrite rev_length; lia).
    replace (e_num st) with (e_num st - e_slen st + N.of_nat (length (rev (e_symb st)))) at 1
      by (rewrite rev_length; lia).
    econstructor; [exact Hel|].
    apply elem_sym; rewrite ?rev_length; try lia.
    + exact Hsy.
    + rewrite <- Hm. exact Hnu.
Qed.

End EncLoop.

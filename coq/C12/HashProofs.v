(* C12, round 2: the one place where the hash MODEL (Hash.v) does not follow the C text literally.
   mir_get_key_part (mir-hash.h) on a little-endian host with unaligned access takes a shortcut --
   one 64-bit load for len = 8, one 32-bit load (shifted left by 32) for 4 <= len < 8 -- before the
   byte loop  "tail = (tail >> 8) | ((uint64_t) v[i] << 56)";  Hash.v models only the byte loop
   ([key_part]) and says in a comment that the shortcut yields the same value.  Here that is a
   theorem: [key_part_fast] transcribes the shortcut (little-endian loads = [le_value]) and equals
   [key_part] for every list of at most 8 bytes.  So mir_hash_strict's model is the function the
   header computes on x86-64 / aarch64 as well as on hosts without the shortcut. *)
From Coq Require Import ZArith NArith List Bool Lia ZifyBool ZifyNat ZifyN.
From MirV Require Import gen.ReduceParams C12.Hash.
Import ListNotations.
Local Open Scope N_scope.

Definition kstep (tail b : N) : N := N.lor (N.shiftr tail 8) (N.shiftl b 56).

Lemma key_part_fold l : key_part l = fold_left kstep l 0.
Proof. reflexivity. Qed.

(* mir_get_key_part with MIR_HASH_UNALIGNED_ACCESS and (relax_p || MIR_LITTLE_ENDIAN) *)
Definition key_part_fast (l : list N) : N :=
  if (length l =? 8)%nat then le_value l                                        (* one uint64_t load *)
  else if (4 <=? length l)%nat
       then fold_left kstep (skipn 4 l) (N.shiftl (le_value (firstn 4 l)) 32)  (* one uint32_t load, shifted left 32; start = 4 *)
       else fold_left kstep l 0.

Definition bytes (l : list N) : Prop := Forall (fun b => b < 256) l.

Fixpoint p256 (n : nat) : N := match n with O => 1 | S n' => 256 * p256 n' end.

Lemma p256_add a b : p256 (a + b) = p256 a * p256 b.
Proof. induction a as [|a IH]; cbn [p256 Nat.add]; [lia | rewrite IH; lia]. Qed.

Lemma p256_pos n : p256 n <> 0.
Proof. induction n as [|n IH]; cbn [p256]; lia. Qed.

Lemma testbit_high a k n : a < 2 ^ k -> k <= n -> N.testbit a n = false.
Proof.
  intros Ha Hn. rewrite <- (N.mod_small a (2 ^ k)) by exact Ha. apply N.mod_pow2_bits_high. exact Hn.
Qed.

Lemma lor_disjoint a b k : a < 2 ^ k -> N.lor a (N.shiftl b k) = a + b * 2 ^ k.
Proof.
  intros Ha. rewrite <- N.shiftl_mul_pow2.
  assert (H0 : N.land a (N.shiftl b k) = 0).
  { apply N.bits_inj. intros n. rewrite N.land_spec, N.bits_0.
    destruct (N.lt_ge_cases n k) as [Hlt|Hge].
    - rewrite (N.shiftl_spec_low b k n Hlt). apply andb_false_r.
    - rewrite (testbit_high a k n Ha Hge). reflexivity. }
  rewrite (N.add_nocarry_lxor a _ H0). symmetry. apply N.lxor_lor. exact H0.
Qed.

Lemma kstep_arith t b : t < 2 ^ 64 -> kstep t b = t / 256 + b * 2 ^ 56.
Proof.
  intros Ht. unfold kstep. rewrite N.shiftr_div_pow2. change (2 ^ 8) with 256.
  apply lor_disjoint. change (2 ^ 56) with 72057594037927936. change (2 ^ 64) with 18446744073709551616 in Ht.
  apply N.div_lt_upper_bound; lia.
Qed.

Lemma p256_7 : p256 7 = 2 ^ 56. Proof. reflexivity. Qed.

(* n bytes shifted in from the top: what was there moves down by n bytes, the new bytes sit on top *)
Lemma fold_kstep : forall l t k, (length l + k = 8)%nat -> t < 2 ^ 64 -> bytes l ->
  fold_left kstep l t = t / p256 (length l) + le_value l * p256 k
  /\ fold_left kstep l t < 2 ^ 64.
Proof.
  induction l as [|b l IH]; intros t k Hlen Ht Hb.
  - cbn [fold_left length p256 le_value]. rewrite N.div_1_r. split; [lia | exact Ht].
  - cbn [fold_left length] in *. inversion Hb as [|? ? Hb0 Hbl]; subst.
    assert (Ht1 : kstep t b < 2 ^ 64).
    { rewrite (kstep_arith t b Ht). change (2 ^ 56) with 72057594037927936.
      change (2 ^ 64) with 18446744073709551616 in *.
      assert (t / 256 < 72057594037927936) by (apply N.div_lt_upper_bound; lia). lia. }
    destruct (IH (kstep t b) (S k) ltac:(lia) Ht1 Hbl) as [E Hlt]. split; [|exact Hlt].
    rewrite E, (kstep_arith t b Ht). rewrite <- p256_7.
    replace 7%nat with (length l + k)%nat by lia. rewrite p256_add.
    replace (b * (p256 (length l) * p256 k)) with ((b * p256 k) * p256 (length l)) by ring.
    rewrite N.div_add by apply p256_pos.
    rewrite N.div_div by (try apply p256_pos; lia).
    cbn [p256 le_value]. set (X := p256 k). set (Y := le_value l). set (D := t / (256 * p256 (length l))). ring.
Qed.

Lemma le_value_lt : forall l, bytes l -> le_value l < p256 (length l).
Proof.
  induction l as [|b l IH]; intros Hb; cbn [le_value length p256]; [lia|].
  inversion Hb; subst. specialize (IH ltac:(assumption)). lia.
Qed.

Lemma bytes_firstn n : forall l, bytes l -> bytes (firstn n l).
Proof.
  induction n as [|n IH]; intros l Hb; [constructor|].
  destruct l as [|b l]; [constructor|]. inversion Hb; subst. cbn [firstn]. constructor; [assumption | now apply IH].
Qed.

Lemma key_part_fast_eq l : bytes l -> (length l <= 8)%nat -> key_part_fast l = key_part l.
Proof.
  intros Hb Hl. rewrite key_part_fold. unfold key_part_fast.
  destruct (Nat.eqb_spec (length l) 8) as [E8|N8].
  - (* one 64-bit load *)
    destruct (fold_kstep l 0 0 ltac:(lia) ltac:(reflexivity) Hb) as [E _]. rewrite E.
    rewrite N.div_0_l by apply p256_pos. cbn [p256]. lia.
  - destruct (Nat.leb_spec 4 (length l)) as [H4|H4]; [|reflexivity].
    (* one 32-bit load, then the byte loop from byte 4 *)
    rewrite <- (firstn_skipn 4 l) at 3. rewrite fold_left_app. f_equal.
    assert (Hf : bytes (firstn 4 l)) by (apply bytes_firstn; exact Hb).
    assert (Hlf : length (firstn 4 l) = 4%nat) by (rewrite firstn_length; lia).
    destruct (fold_kstep (firstn 4 l) 0 4 ltac:(lia) ltac:(reflexivity) Hf) as [E _]. rewrite E.
    rewrite N.div_0_l by apply p256_pos. rewrite N.shiftl_mul_pow2. reflexivity.
Qed.

(* the closed form: n <= 8 bytes are packed little-endian into the TOP n bytes of the word *)
Lemma key_part_value l : bytes l -> (length l <= 8)%nat ->
  key_part l = le_value l * p256 (8 - length l).
Proof.
  intros Hb Hl. rewrite key_part_fold.
  destruct (fold_kstep l 0 (8 - length l) ltac:(lia) ltac:(reflexivity) Hb) as [E _]. rewrite E.
  rewrite N.div_0_l by apply p256_pos. lia.
Qed.

(* C12: properties of the decoder model that hold for ALL streams: memory safety of the fixed
   decoder, sequentiality (truncations / extensions of an accepted stream are rejected), and what
   acceptance guarantees (integrity). *)
From Coq Require Import ZArith NArith List Bool Lia ZifyBool ZifyNat ZifyN.
From MirV Require Import gen.ReduceParams C12.Arr C12.ArrProofs C12.Hash C12.Reduce C12.CodecProofs.
Import ListNotations.
Local Open Scope N_scope.
Ltac Zify.zify_post_hook ::= Z.div_mod_to_equations.

Definition bytes (l : list N) : Prop := Forall (fun b => b < 256) l.

Lemma bytes_ok_bytes l : bytes_ok l = true <-> bytes l.
Proof.
  unfold bytes_ok, bytes. rewrite forallb_forall, Forall_forall.
  split; intros H x Hx; specialize (H x Hx); lia.
Qed.

Lemma bytes_app_r a b : bytes (a ++ b) -> bytes b.
Proof. unfold bytes. rewrite Forall_app. tauto. Qed.

Lemma bytes_app_l a b : bytes (a ++ b) -> bytes a.
Proof. unfold bytes. rewrite Forall_app. tauto. Qed.

(* ------------------------------------------------------------------ readers are sequential *)

Lemma take_nat_spec k : forall inp a b, take_nat k inp = Some (a, b) -> inp = a ++ b /\ length a = k.
Proof.
  induction k as [|k IH]; intros inp a b H; cbn [take_nat] in H.
  - inversion H; subst. split; reflexivity.
  - destruct inp as [|x r]; [discriminate|].
    destruct (take_nat k r) as [[a' b']|] eqn:E; [|discriminate].
    inversion H; subst. apply IH in E. destruct E as [-> E]. split; [reflexivity | cbn; lia].
Qed.

Lemma take_nat_app k : forall inp a b x,
  take_nat k inp = Some (a, b) -> take_nat k (inp ++ x) = Some (a, b ++ x).
Proof.
  induction k as [|k IH]; intros inp a b x H; cbn [take_nat] in *.
  - inversion H; subst. reflexivity.
  - destruct inp as [|y r]; [discriminate|]. cbn [app].
    destruct (take_nat k r) as [[a' b']|] eqn:E; [|discriminate].
    inversion H; subst. rewrite (IH _ _ _ x E). reflexivity.
Qed.

Lemma take_nat_prefix k : forall p q a rest,
  take_nat k (p ++ q) = Some (a, rest) ->
  take_nat k p = None \/ exists rest', take_nat k p = Some (a, rest') /\ rest = rest' ++ q.
Proof.
  induction k as [|k IH]; intros p q a rest H; cbn [take_nat] in *.
  - inversion H; subst. right. exists p. split; reflexivity.
  - destruct p as [|y r]; [left; reflexivity|]. cbn [app] in H.
    destruct (take_nat k (r ++ q)) as [[a' b']|] eqn:E; [|discriminate].
    inversion H; subst. destruct (IH _ _ _ _ E) as [E1|[rest' [E1 ->]]].
    + left. rewrite E1. reflexivity.
    + right. exists rest'. rewrite E1. split; reflexivity.
Qed.

Lemma take_nat_none_short k : forall inp, (length inp < k)%nat -> take_nat k inp = None.
Proof.
  induction k as [|k IH]; intros inp H; [lia|]. cbn [take_nat].
  destruct inp as [|x r]; [reflexivity|]. cbn [length] in H. rewrite IH by lia. reflexivity.
Qed.

Lemma read_be_spec k : forall v inp v' rest,
  read_be k v inp = Some (v', rest) -> exists c, inp = c ++ rest /\ length c = k.
Proof.
  induction k as [|k IH]; intros v inp v' rest H; cbn [read_be] in H.
  - inversion H; subst. exists []. split; reflexivity.
  - destruct inp as [|r inp']; [discriminate|]. apply IH in H. destruct H as [c [-> Hc]].
    exists (r :: c). split; [reflexivity | cbn; lia].
Qed.

Lemma read_be_app k : forall v inp v' rest x,
  read_be k v inp = Some (v', rest) -> read_be k v (inp ++ x) = Some (v', rest ++ x).
Proof.
  induction k as [|k IH]; intros v inp v' rest x H; cbn [read_be] in *.
  - inversion H; subst. reflexivity.
  - destruct inp as [|r inp']; [discriminate|]. cbn [app]. apply IH. exact H.
Qed.

Lemma read_be_prefix k : forall v p q v' rest,
  read_be k v (p ++ q) = Some (v', rest) ->
  read_be k v p = None \/ exists rest', read_be k v p = Some (v', rest') /\ rest = rest' ++ q.
Proof.
  induction k as [|k IH]; intros v p q v' rest H; cbn [read_be] in *.
  - inversion H; subst. right. exists p. split; reflexivity.
  - destruct p as [|r p']; [left; reflexivity|]. cbn [app] in H. apply IH. exact H.
Qed.

(* value bound: k further bytes on top of v *)
Lemma read_be_bound k : forall v inp v' rest B,
  bytes inp -> read_be k v inp = Some (v', rest) -> v < B -> B * 256 ^ N.of_nat k <= M32 ->
  v' < B * 256 ^ N.of_nat k.
Proof.
  induction k as [|k IH]; intros v inp v' rest B Hb H Hv HB; cbn [read_be] in H.
  - inversion H; subst. cbn. lia.
  - destruct inp as [|r inp']; [discriminate|].
    assert (Hr : r < 256) by (inversion Hb; assumption).
    assert (Hb' : bytes inp') by (inversion Hb; assumption).
    assert (E : 256 ^ N.of_nat (S k) = 256 * 256 ^ N.of_nat k)
      by (rewrite Nat2N.inj_succ, N.pow_succ_r'; reflexivity).
    rewrite E in *. clear E.
    assert (Hpos : 0 < 256 ^ N.of_nat k) by (apply N.neq_0_lt_0, N.pow_nonzero; lia).
    assert (Hs : v * 256 + r < B * 256) by lia.
    assert (HM : B * 256 <= M32) by nia.
    rewrite w32_small in H by lia.
    replace (B * (256 * 256 ^ N.of_nat k)) with ((B * 256) * 256 ^ N.of_nat k) by lia.
    eapply IH; eauto. lia.
Qed.

Lemma uint_read_spec fx inp v rest :
  uint_read fx inp = Some (v, rest) -> exists c, inp = c ++ rest /\ c <> [].
Proof.
  unfold uint_read. destruct inp as [|u inp']; [discriminate|].
  repeat match goal with |- context [if ?c then _ else _] => destruct c end; intros H;
    try discriminate; apply read_be_spec in H; destruct H as [c [-> _]];
    exists (u :: c); (split; [reflexivity | discriminate]).
Qed.

Lemma uint_read_app fx inp v rest x :
  uint_read fx inp = Some (v, rest) -> uint_read fx (inp ++ x) = Some (v, rest ++ x).
Proof.
  unfold uint_read. destruct inp as [|u inp']; [discriminate|]. cbn [app].
  repeat match goal with |- context [if ?c then _ else _] => destruct c end; intros H;
    try discriminate; apply read_be_app; exact H.
Qed.

Lemma uint_read_prefix fx p q v rest :
  uint_read fx (p ++ q) = Some (v, rest) ->
  uint_read fx p = None \/ exists rest', uint_read fx p = Some (v, rest') /\ rest = rest' ++ q.
Proof.
  destruct p as [|u p']; [left; reflexivity|]. unfold uint_read. cbn [app].
  repeat match goal with |- context [if ?c then _ else _] => destruct c end; intros H;
    try discriminate; apply read_be_prefix; exact H.
Qed.

(* the fixed reader only yields values below 2^28 *)
Lemma uint_read_bound inp v rest :
  bytes inp -> uint_read true inp = Some (v, rest) -> v < 268435456.
Proof.
  unfold uint_read. destruct inp as [|u inp']; [discriminate|]. intros Hb.
  assert (Hb' : bytes inp') by (inversion Hb; assumption).
  destruct (u / 128 =? 1); [|destruct (u / 64 =? 1); [|destruct (u / 32 =? 1); [|destruct (u / 16 =? 1)]]];
    intros H; try discriminate.
  - pose proof (read_be_bound 0 _ _ _ _ 128 Hb' H) as P. cbn in P. unfold M32 in P. lia.
  - pose proof (read_be_bound 1 _ _ _ _ 64 Hb' H) as P. cbn in P. unfold M32 in P. lia.
  - pose proof (read_be_bound 2 _ _ _ _ 32 Hb' H) as P. cbn in P. unfold M32 in P. lia.
  - pose proof (read_be_bound 3 _ _ _ _ 16 Hb' H) as P. cbn in P. unfold M32 in P. lia.
Qed.

Lemma opt_uint_spec fx long v0 inp v rest :
  opt_uint fx long v0 inp = Some (v, rest) -> exists c, inp = c ++ rest.
Proof.
  unfold opt_uint. destruct long; intros H.
  - apply uint_read_spec in H. destruct H as [c [-> _]]. exists c. reflexivity.
  - inversion H; subst. exists []. reflexivity.
Qed.

Lemma opt_uint_app fx long v0 inp v rest x :
  opt_uint fx long v0 inp = Some (v, rest) -> opt_uint fx long v0 (inp ++ x) = Some (v, rest ++ x).
Proof.
  unfold opt_uint. destruct long; intros H; [apply uint_read_app; exact H | inversion H; subst; reflexivity].
Qed.

Lemma opt_uint_prefix fx long v0 p q v rest :
  opt_uint fx long v0 (p ++ q) = Some (v, rest) ->
  opt_uint fx long v0 p = None \/ exists rest', opt_uint fx long v0 p = Some (v, rest') /\ rest = rest' ++ q.
Proof.
  unfold opt_uint. destruct long; intros H; [apply uint_read_prefix; exact H|].
  inversion H; subst. right. exists p. split; reflexivity.
Qed.

Lemma opt_uint_bound long v0 inp v rest :
  bytes inp -> v0 < 268435456 -> opt_uint true long v0 inp = Some (v, rest) -> v < 268435456.
Proof.
  unfold opt_uint. destruct long; intros Hb Hv H; [eapply uint_read_bound; eauto | inversion H; subst; exact Hv].
Qed.

(* ------------------------------------------------------------------ one element *)

Lemma dec_sym_app fx st tag inp st' rest x :
  dec_sym fx st tag inp = ECont st' rest -> dec_sym fx st tag (inp ++ x) = ECont st' (rest ++ x).
Proof.
  unfold dec_sym.
  destruct (tag / (REF_TAG_LONG + 1) =? 0). { intros H; inversion H; subst; reflexivity. }
  destruct (opt_uint fx _ _ inp) as [[sym_len inp1]|] eqn:E1; [|discriminate].
  rewrite (opt_uint_app _ _ _ _ _ _ x E1).
  destruct (_ || _); [discriminate|].
  destruct (take_nat _ inp1) as [[bs inp2]|] eqn:E2; [|discriminate].
  rewrite (take_nat_app _ _ _ _ x E2).
  destruct (BUF_LEN <? d_pos st + sym_len); [discriminate|].
  destruct (BUF_LEN <? d_ind st + sym_len); [discriminate|].
  intros H; inversion H; subst. reflexivity.
Qed.

Lemma dec_sym_prefix fx st tag p q st' rest :
  dec_sym fx st tag (p ++ q) = ECont st' rest ->
  dec_sym fx st tag p = EFail \/ exists rest', dec_sym fx st tag p = ECont st' rest' /\ rest = rest' ++ q.
Proof.
  unfold dec_sym.
  destruct (tag / (REF_TAG_LONG + 1) =? 0).
  { intros H; inversion H; subst. right. eexists; split; reflexivity. }
  destruct (opt_uint fx _ _ (p ++ q)) as [[sym_len inp1]|] eqn:E1; [|discriminate].
  destruct (opt_uint_prefix _ _ _ _ _ _ _ E1) as [E|[r1 [E ->]]]; rewrite E; [left; reflexivity|].
  destruct (_ || _); [discriminate|].
  destruct (take_nat _ (r1 ++ q)) as [[bs inp2]|] eqn:E2; [|discriminate].
  destruct (take_nat_prefix _ _ _ _ _ E2) as [E'|[r2 [E' ->]]]; rewrite E'; [left; reflexivity|].
  destruct (BUF_LEN <? d_pos st + sym_len); [discriminate|].
  destruct (BUF_LEN <? d_ind st + sym_len); [discriminate|].
  intros H; inversion H; subst. right. eexists; split; reflexivity.
Qed.

Lemma dec_ref_app fx i2p0 buf0 st tag inp st' rest x :
  dec_ref fx i2p0 buf0 st tag inp = ECont st' rest ->
  dec_ref fx i2p0 buf0 st tag (inp ++ x) = ECont st' (rest ++ x).
Proof.
  unfold dec_ref.
  destruct (tag mod (REF_TAG_LONG + 1) =? 0). { intros H; inversion H; subst; reflexivity. }
  destruct (opt_uint fx _ _ inp) as [[r1 inp1]|] eqn:E1; [|discriminate].
  rewrite (opt_uint_app _ _ _ _ _ _ x E1).
  destruct (uint_read fx inp1) as [[ref_ind inp2]|] eqn:E2; [|discriminate].
  rewrite (uint_read_app _ _ _ _ x E2).
  repeat match goal with |- context [if ?c then _ else _] => destruct c; try discriminate end.
  intros H; inversion H; subst. reflexivity.
Qed.

Lemma dec_ref_prefix fx i2p0 buf0 st tag p q st' rest :
  dec_ref fx i2p0 buf0 st tag (p ++ q) = ECont st' rest ->
  dec_ref fx i2p0 buf0 st tag p = EFail
  \/ exists rest', dec_ref fx i2p0 buf0 st tag p = ECont st' rest' /\ rest = rest' ++ q.
Proof.
  unfold dec_ref.
  destruct (tag mod (REF_TAG_LONG + 1) =? 0).
  { intros H; inversion H; subst. right. eexists; split; reflexivity. }
  destruct (opt_uint fx _ _ (p ++ q)) as [[r1 inp1]|] eqn:E1; [|discriminate].
  destruct (opt_uint_prefix _ _ _ _ _ _ _ E1) as [E|[p1 [E ->]]]; rewrite E; [left; reflexivity|].
  destruct (uint_read fx (p1 ++ q)) as [[ref_ind inp2]|] eqn:E2; [|discriminate].
  destruct (uint_read_prefix _ _ _ _ _ E2) as [E'|[p2 [E' ->]]]; rewrite E'; [left; reflexivity|].
  repeat match goal with |- context [if ?c then _ else _] => destruct c; try discriminate end.
  intros H; inversion H; subst. right. eexists; split; reflexivity.
Qed.

Lemma dec_elem_app fx i2p0 buf0 st tag inp st' rest x :
  dec_elem fx i2p0 buf0 st tag inp = ECont st' rest ->
  dec_elem fx i2p0 buf0 st tag (inp ++ x) = ECont st' (rest ++ x).
Proof.
  unfold dec_elem. destruct (dec_sym fx st tag inp) as [st1 inp1| |] eqn:E; try discriminate.
  rewrite (dec_sym_app _ _ _ _ _ _ x E). apply dec_ref_app.
Qed.

Lemma dec_elem_prefix fx i2p0 buf0 st tag p q st' rest :
  dec_elem fx i2p0 buf0 st tag (p ++ q) = ECont st' rest ->
  dec_elem fx i2p0 buf0 st tag p = EFail
  \/ exists rest', dec_elem fx i2p0 buf0 st tag p = ECont st' rest' /\ rest = rest' ++ q.
Proof.
  unfold dec_elem. destruct (dec_sym fx st tag (p ++ q)) as [st1 inp1| |] eqn:E; try discriminate.
  destruct (dec_sym_prefix _ _ _ _ _ _ _ E) as [E1|[p1 [E1 ->]]]; rewrite E1; [left; reflexivity|].
  apply dec_ref_prefix.
Qed.

(* ------------------------------------------------------------------ memory safety *)

Definition dinv (st : dstate) : Prop := d_ind st <= d_pos st /\ d_pos st <= BUF_LEN.

Lemma dec_sym_inv fx st tag inp :
  dinv st ->
  match dec_sym fx st tag inp with
  | ECont st' rest => dinv st' /\ exists c, inp = c ++ rest
  | EFail => True
  | EOob _ _ => False
  end.
Proof.
  intros [H1 H2]. unfold dec_sym.
  destruct (tag / (REF_TAG_LONG + 1) =? 0). { split; [split; assumption | exists []; reflexivity]. }
  destruct (opt_uint fx _ _ inp) as [[sym_len inp1]|] eqn:E1; [|exact I].
  destruct (_ || _) eqn:Hc; [exact I|].
  destruct (take_nat _ inp1) as [[bs inp2]|] eqn:E2; [|exact I].
  destruct (BUF_LEN <? d_pos st + sym_len) eqn:Hc1; [lia|].
  destruct (BUF_LEN <? d_ind st + sym_len) eqn:Hc2; [lia|].
  split; [unfold dinv; cbn; lia|].
  apply opt_uint_spec in E1. destruct E1 as [c1 ->].
  apply take_nat_spec in E2. destruct E2 as [-> _].
  exists (c1 ++ bs). rewrite app_assoc. reflexivity.
Qed.

Lemma dec_ref_inv i2p0 buf0 st tag inp :
  bytes inp -> dinv st ->
  match dec_ref true i2p0 buf0 st tag inp with
  | ECont st' rest => dinv st' /\ exists c, inp = c ++ rest
  | EFail => True
  | EOob _ _ => False
  end.
Proof.
  intros Hb [H1 H2]. unfold dec_ref.
  destruct (tag mod (REF_TAG_LONG + 1) =? 0). { split; [split; assumption | exists []; reflexivity]. }
  destruct (opt_uint true _ _ inp) as [[r1 inp1]|] eqn:E1; [|exact I].
  assert (Hr1 : r1 < 268435456).
  { eapply opt_uint_bound; [exact Hb| |exact E1]. unfold REF_TAG_LONG. lia. }
  destruct (opt_uint_spec _ _ _ _ _ _ E1) as [c1 ->].
  assert (Hb1 : bytes inp1) by (eapply bytes_app_r; exact Hb).
  destruct (uint_read true inp1) as [[ref_ind inp2]|] eqn:E2; [|exact I].
  destruct (uint_read_spec _ _ _ _ E2) as [c2 [-> _]].
  rewrite w32_small by (unfold START_LEN, M32; lia).
  cbn [andb].
  destruct ((ref_ind =? 0) || (d_ind st <? ref_ind)) eqn:Hc0; [exact I|].
  destruct (BUF_LEN <=? d_ind st - ref_ind) eqn:Hc1; [lia|].
  set (sym_pos := aget i2p0 (d_i2p st) (d_ind st - ref_ind)) in *.
  set (ref_len := r1 + (START_LEN - 1)) in *.
  assert (Hrl : 1 <= ref_len) by (unfold ref_len, START_LEN; lia).
  destruct ((d_pos st <? sym_pos + ref_len) || (BUF_LEN <? d_pos st + ref_len)) eqn:Hc2; [exact I|].
  destruct (BUF_LEN <? sym_pos + ref_len) eqn:Hc3; [lia|].
  destruct (BUF_LEN <? d_pos st + ref_len) eqn:Hc4; [lia|].
  destruct ((0 <? ref_len) && (sym_pos <? d_pos st + ref_len) && (d_pos st <? sym_pos + ref_len)) eqn:Hc5; [lia|].
  destruct (BUF_LEN <=? d_ind st) eqn:Hc6; [lia|].
  split; [unfold dinv; cbn; lia|].
  exists (c1 ++ c2). rewrite app_assoc. reflexivity.
Qed.

Lemma dec_elem_inv i2p0 buf0 st tag inp :
  bytes inp -> dinv st ->
  match dec_elem true i2p0 buf0 st tag inp with
  | ECont st' rest => dinv st' /\ exists c, inp = c ++ rest
  | EFail => True
  | EOob _ _ => False
  end.
Proof.
  intros Hb Hi. unfold dec_elem.
  pose proof (dec_sym_inv true st tag inp Hi) as P.
  destruct (dec_sym true st tag inp) as [st1 inp1| |]; [|exact I|exact P].
  destruct P as [Hi1 [c1 ->]].
  pose proof (dec_ref_inv i2p0 buf0 st1 tag inp1 (bytes_app_r _ _ Hb) Hi1) as Q.
  destruct (dec_ref true i2p0 buf0 st1 tag inp1) as [st2 inp2| |]; [|exact I|exact Q].
  destruct Q as [Hi2 [c2 ->]]. split; [exact Hi2|]. exists (c1 ++ c2). rewrite app_assoc. reflexivity.
Qed.

Definition safe_outcome (o : outcome) : Prop :=
  match o with Oob _ _ | NoFuel => False | _ => True end.

Lemma dec_loop_safe i2p0 buf0 : forall f st h inp acc,
  bytes inp -> dinv st -> (length inp < f)%nat ->
  safe_outcome (dec_loop true i2p0 buf0 f st h inp acc).
Proof.
  induction f as [|f IH]; intros st h inp acc Hb Hi Hf; [lia|].
  cbn [dec_loop]. destruct inp as [|tag inp0]; [exact I|].
  destruct (tag =? 0).
  { destruct (take_nat 8 inp0) as [[hs rest]|]; [|exact I]. destruct rest; [|exact I].
    destruct (_ =? _); exact I. }
  assert (Hb0 : bytes inp0) by (inversion Hb; assumption).
  pose proof (dec_elem_inv i2p0 buf0 st tag inp0 Hb0 Hi) as P.
  destruct (dec_elem true i2p0 buf0 st tag inp0) as [st2 inp2| |]; [|exact I|exact P].
  destruct P as [Hi2 [c ->]].
  assert (Hb2 : bytes inp2) by (eapply bytes_app_r; exact Hb0).
  cbn [length] in Hf. rewrite app_length in Hf.
  destruct (BUF_LEN <=? d_pos st2); apply IH; try assumption; try lia.
  unfold dinv; cbn. unfold BUF_LEN. lia.
Qed.

Lemma dinv_dinit : dinv dinit.
Proof. unfold dinv, dinit, BUF_LEN; cbn. lia. Qed.

(* the fixed decoder never accesses buf or ind2pos out of range, for every byte stream and all
   initial contents of the two arrays *)
Lemma decode_safe i2p0 buf0 s : bytes_ok s = true -> safe_outcome (decode true i2p0 buf0 s).
Proof.
  intros Hb. apply bytes_ok_bytes in Hb. unfold decode.
  assert (Hr : bytes (skipn (length PREFIX) s)).
  { rewrite <- (firstn_skipn (length PREFIX) s) in Hb. eapply bytes_app_r; exact Hb. }
  pose proof (dec_loop_safe i2p0 buf0 (S (length (skipn (length PREFIX) s))) dinit CHECK_HASH_SEED _ []
                            Hr dinv_dinit ltac:(lia)) as P.
  destruct (dec_loop _ _ _ _ _ _ _ _) ; try exact P.
  destruct (list_eqb _ _); exact I.
Qed.

(* the ORIGINAL decoder (before fixes/C12-1.patch): a reference whose symbol number is 0 reads an
   ind2pos slot that was never written; if that garbage is 0xFFFFFFFF the uint32_t sum
   sym_pos + ref_len wraps below BUF_LEN and memcpy reads 4 GiB past buf *)
Lemma decode_unfixed_oob :
  exists i2p0 buf0 s, bytes_ok s = true /\ decode false i2p0 buf0 s = Oob 4 4294967299.
Proof.
  exists (fun _ => 4294967295), (fun _ => 0), (PREFIX ++ [1; 128]). split; vm_compute; reflexivity.
Qed.

(* ------------------------------------------------------------------ consumed input is a prefix *)

Lemma dec_sym_suffix fx st tag inp st' rest :
  dec_sym fx st tag inp = ECont st' rest -> exists c, inp = c ++ rest.
Proof.
  unfold dec_sym.
  destruct (tag / (REF_TAG_LONG + 1) =? 0). { intros H; inversion H; subst. exists []. reflexivity. }
  destruct (opt_uint fx _ _ inp) as [[sym_len inp1]|] eqn:E1; [|discriminate].
  destruct (_ || _); [discriminate|].
  destruct (take_nat _ inp1) as [[bs inp2]|] eqn:E2; [|discriminate].
  destruct (BUF_LEN <? d_pos st + sym_len); [discriminate|].
  destruct (BUF_LEN <? d_ind st + sym_len); [discriminate|].
  intros H; inversion H; subst.
  apply opt_uint_spec in E1. destruct E1 as [c1 ->].
  apply take_nat_spec in E2. destruct E2 as [-> _].
  exists (c1 ++ bs). rewrite app_assoc. reflexivity.
Qed.

Lemma dec_ref_suffix fx i2p0 buf0 st tag inp st' rest :
  dec_ref fx i2p0 buf0 st tag inp = ECont st' rest -> exists c, inp = c ++ rest.
Proof.
  unfold dec_ref.
  destruct (tag mod (REF_TAG_LONG + 1) =? 0). { intros H; inversion H; subst. exists []. reflexivity. }
  destruct (opt_uint fx _ _ inp) as [[r1 inp1]|] eqn:E1; [|discriminate].
  destruct (uint_read fx inp1) as [[ref_ind inp2]|] eqn:E2; [|discriminate].
  repeat match goal with |- context [if ?c then _ else _] => destruct c; try discriminate end.
  intros H; inversion H; subst.
  apply opt_uint_spec in E1. destruct E1 as [c1 ->].
  apply uint_read_spec in E2. destruct E2 as [c2 [-> _]].
  exists (c1 ++ c2). rewrite app_assoc. reflexivity.
Qed.

Lemma dec_elem_suffix fx i2p0 buf0 st tag inp st' rest :
  dec_elem fx i2p0 buf0 st tag inp = ECont st' rest -> exists c, inp = c ++ rest.
Proof.
  unfold dec_elem. destruct (dec_sym fx st tag inp) as [st1 inp1| |] eqn:E; try discriminate.
  intros H. apply dec_sym_suffix in E. apply dec_ref_suffix in H.
  destruct E as [c1 ->]. destruct H as [c2 ->]. exists (c1 ++ c2). rewrite app_assoc. reflexivity.
Qed.

(* enough fuel is as good as more fuel *)
Lemma dec_loop_fuel fx i2p0 buf0 : forall f1 f2 st h inp acc,
  (length inp < f1)%nat -> (length inp < f2)%nat ->
  dec_loop fx i2p0 buf0 f1 st h inp acc = dec_loop fx i2p0 buf0 f2 st h inp acc.
Proof.
  induction f1 as [|f1 IH]; intros f2 st h inp acc H1 H2; [lia|].
  destruct f2 as [|f2]; [lia|]. cbn [dec_loop].
  destruct inp as [|tag inp0]; [reflexivity|].
  destruct (tag =? 0); [reflexivity|].
  destruct (dec_elem fx i2p0 buf0 st tag inp0) as [st2 inp2| |] eqn:E; try reflexivity.
  apply dec_elem_suffix in E. destruct E as [c ->].
  cbn [length] in H1, H2. rewrite app_length in H1, H2.
  destruct (BUF_LEN <=? d_pos st2); apply IH; lia.
Qed.

(* ------------------------------------------------------------------ truncation / extension *)

Lemma dec_loop_trunc fx i2p0 buf0 : forall f st h p q acc d,
  q <> [] -> dec_loop fx i2p0 buf0 f st h (p ++ q) acc = Accept d ->
  forall f', (length p < f')%nat -> dec_loop fx i2p0 buf0 f' st h p acc = Reject.
Proof.
  induction f as [|f IH]; intros st h p q acc d Hq H f' Hf'; [discriminate|].
  destruct f' as [|f']; [lia|]. cbn [dec_loop] in *.
  destruct p as [|tag p0]; [reflexivity|]. cbn [app] in H.
  destruct (tag =? 0).
  - destruct (take_nat 8 (p0 ++ q)) as [[hs rest]|] eqn:E; [|discriminate].
    destruct rest; [|discriminate].
    destruct (take_nat_prefix _ _ _ _ _ E) as [E1|[rest' [E1 E2]]]; rewrite E1; [reflexivity|].
    symmetry in E2. apply app_eq_nil in E2. destruct E2 as [_ E2]. contradiction.
  - destruct (dec_elem fx i2p0 buf0 st tag (p0 ++ q)) as [st2 inp2| |] eqn:E; try discriminate.
    destruct (dec_elem_prefix _ _ _ _ _ _ _ _ _ E) as [E1|[rest' [E1 ->]]]; rewrite E1; [reflexivity|].
    apply dec_elem_suffix in E1. destruct E1 as [c ->].
    cbn [length] in Hf'. rewrite app_length in Hf'.
    destruct (BUF_LEN <=? d_pos st2); eapply IH; eauto; lia.
Qed.

Lemma dec_loop_ext fx i2p0 buf0 : forall f st h p q acc d,
  q <> [] -> dec_loop fx i2p0 buf0 f st h p acc = Accept d ->
  forall f', (length (p ++ q) < f')%nat -> dec_loop fx i2p0 buf0 f' st h (p ++ q) acc = Reject.
Proof.
  induction f as [|f IH]; intros st h p q acc d Hq H f' Hf'; [discriminate|].
  destruct f' as [|f']; [lia|]. cbn [dec_loop] in *.
  destruct p as [|tag p0]; [discriminate|]. cbn [app].
  destruct (tag =? 0).
  - destruct (take_nat 8 p0) as [[hs rest]|] eqn:E; [|discriminate].
    destruct rest; [|discriminate].
    rewrite (take_nat_app _ _ _ _ q E). cbn [app]. destruct q; [contradiction | reflexivity].
  - destruct (dec_elem fx i2p0 buf0 st tag p0) as [st2 inp2| |] eqn:E; try discriminate.
    rewrite (dec_elem_app _ _ _ _ _ _ _ _ q E).
    apply dec_elem_suffix in E. destruct E as [c ->].
    cbn [app length] in Hf'. rewrite !app_length in Hf'.
    destruct (BUF_LEN <=? d_pos st2); eapply IH; eauto; rewrite app_length; lia.
Qed.

Lemma list_eqb_eq a : forall b, list_eqb a b = true -> a = b.
Proof.
  induction a as [|x a IH]; intros [|y b] H; cbn [list_eqb] in H; try discriminate; [reflexivity|].
  apply andb_prop in H. destruct H as [H1 H2]. apply N.eqb_eq in H1. subst. f_equal. apply IH. exact H2.
Qed.

Lemma list_eqb_refl a : list_eqb a a = true.
Proof. induction a as [|x a IH]; cbn [list_eqb]; [reflexivity|]. rewrite N.eqb_refl, IH. reflexivity. Qed.

Lemma decode_accept_inv fx i2p0 buf0 s d :
  decode fx i2p0 buf0 s = Accept d ->
  firstn (length PREFIX) s = PREFIX /\
  dec_loop fx i2p0 buf0 (S (length (skipn (length PREFIX) s))) dinit CHECK_HASH_SEED
           (skipn (length PREFIX) s) [] = Accept d.
Proof.
  unfold decode. destruct (dec_loop _ _ _ _ _ _ _ _) eqn:E; try discriminate.
  destruct (list_eqb _ _) eqn:E2; [|discriminate]. intros H; inversion H; subst.
  split; [apply list_eqb_eq; exact E2 | reflexivity].
Qed.

(* every proper prefix of an accepted stream is rejected *)
Lemma decode_truncated fx i2p0 buf0 p q d :
  q <> [] -> decode fx i2p0 buf0 (p ++ q) = Accept d -> decode fx i2p0 buf0 p = Reject.
Proof.
  intros Hq H. apply decode_accept_inv in H. destruct H as [Hp H].
  unfold decode. set (k := length PREFIX) in *.
  destruct (Nat.le_gt_cases k (length p)) as [Hk|Hk].
  - rewrite skipn_app in H. replace (k - length p)%nat with O in H by lia. cbn [skipn] in H.
    rewrite (dec_loop_trunc _ _ _ _ _ _ _ _ _ _ Hq H); [reflexivity | lia].
  - rewrite skipn_all2 by lia. reflexivity.
Qed.

(* every proper extension of an accepted stream is rejected *)
Lemma decode_extended fx i2p0 buf0 s q d :
  q <> [] -> decode fx i2p0 buf0 s = Accept d -> decode fx i2p0 buf0 (s ++ q) = Reject.
Proof.
  intros Hq H. apply decode_accept_inv in H. destruct H as [Hp H].
  unfold decode. set (k := length PREFIX) in *.
  assert (Hk : (k <= length s)%nat).
  { apply (f_equal (@length N)) in Hp. rewrite firstn_length in Hp. fold k in Hp. lia. }
  rewrite skipn_app. replace (k - length s)%nat with O by lia. cbn [skipn].
  rewrite (dec_loop_ext _ _ _ _ _ _ _ _ _ _ Hq H); [reflexivity | lia].
Qed.

(* ------------------------------------------------------------------ what acceptance guarantees *)

(* check_hash over the data, as both sides compute it: buffer-fulls of BUF_LEN bytes chained through
   the seed, then the (shorter, non-empty) rest if any *)
Inductive chain : list N -> N -> N -> Prop :=
| chain_nil h : chain [] h h
| chain_last c h : c <> [] -> (length c < buf_fuel)%nat -> chain c h (mir_hash_strict c h)
| chain_full c rest h h' :
    length c = buf_fuel -> chain rest (mir_hash_strict c h) h' -> chain (c ++ rest) h h'.

Lemma dec_loop_accept fx i2p0 buf0 : forall f st h inp acc d,
  d_pos st < BUF_LEN ->
  dec_loop fx i2p0 buf0 f st h inp acc = Accept d ->
  exists body hs d', inp = body ++ 0 :: hs /\ length hs = 8%nat /\ d = acc ++ d' /\ chain d' h (le_value hs).
Proof.
  induction f as [|f IH]; intros st h inp acc d Hpos H; [discriminate|].
  cbn [dec_loop] in H. destruct inp as [|tag inp0]; [discriminate|].
  destruct (N.eqb_spec tag 0) as [->|Htag].
  - destruct (take_nat 8 inp0) as [[hs rest]|] eqn:E; [|discriminate].
    destruct rest; [|discriminate].
    apply take_nat_spec in E. destruct E as [-> Hl]. rewrite app_nil_r.
    destruct (N.eqb_spec (le_value hs)
                (if d_pos st =? 0 then h
                 else mir_hash_strict (aread buf0 (d_buf st) 0 (N.to_nat (d_pos st))) h)) as [E|]; [|discriminate].
    inversion H; subst. exists [], hs, (aread buf0 (d_buf st) 0 (N.to_nat (d_pos st))).
    repeat split; try assumption. rewrite E.
    destruct (N.eqb_spec (d_pos st) 0) as [E0|E0].
    + rewrite E0. cbn. constructor.
    + apply chain_last.
      * intro C. apply (f_equal (@length N)) in C. rewrite aread_length in C. cbn in C. lia.
      * rewrite aread_length. unfold buf_fuel. lia.
  - destruct (dec_elem fx i2p0 buf0 st tag inp0) as [st2 inp2| |] eqn:E; try discriminate.
    apply dec_elem_suffix in E. destruct E as [c ->].
    destruct (N.leb_spec BUF_LEN (d_pos st2)) as [Hfull|Hnot].
    + apply IH in H; [|cbn; unfold BUF_LEN; lia].
      destruct H as [body [hs [d' [-> [Hl [-> Hc]]]]]].
      exists (tag :: c ++ body), hs, (aread buf0 (d_buf st2) 0 buf_fuel ++ d').
      repeat split; try assumption.
      * cbn [app]. rewrite <- app_assoc. reflexivity.
      * rewrite app_assoc. reflexivity.
      * apply chain_full; [apply aread_length | exact Hc].
    + apply IH in H; [|exact Hnot].
      destruct H as [body [hs [d' [-> [Hl [-> Hc]]]]]].
      exists (tag :: c ++ body), hs, d'. repeat split; try assumption.
      cbn [app]. rewrite <- app_assoc. reflexivity.
Qed.

(* an accepted stream is PREFIX, a body, a 0 tag and eight bytes that spell the check hash of
   exactly the data that was delivered *)
Lemma decode_accept_integrity fx i2p0 buf0 s d :
  decode fx i2p0 buf0 s = Accept d ->
  exists body hs, s = PREFIX ++ body ++ 0 :: hs /\ length hs = 8%nat
                  /\ chain d CHECK_HASH_SEED (le_value hs).
Proof.
  intros H. apply decode_accept_inv in H. destruct H as [Hp H].
  apply dec_loop_accept in H; [|cbn; unfold BUF_LEN; lia].
  destruct H as [body [hs [d' [Hs [Hl [-> Hc]]]]]].
  exists body, hs. repeat split; try assumption.
  rewrite <- (firstn_skipn (length PREFIX) s), Hp, Hs. reflexivity.
Qed.

(* C12: the uint and tag codecs of mir-reduce.h round-trip. *)
From Coq Require Import ZArith NArith List Bool Lia ZifyBool ZifyN.
From MirV Require Import gen.ReduceParams C12.Arr C12.Hash C12.Reduce.
Import ListNotations.
Local Open Scope N_scope.
Ltac Zify.zify_post_hook ::= Z.div_mod_to_equations.

Lemma w32_small x : x < M32 -> w32 x = x.
Proof. unfold w32. intros. apply N.mod_small. assumption. Qed.

Lemma uint_read_write fx u rest :
  u < 268435456 -> uint_read fx (uint_write u ++ rest) = Some (u, rest).
Proof.
  intros Hu. unfold uint_write.
  destruct (N.ltb_spec u 128) as [H1|H1]; [|destruct (N.ltb_spec u 16384) as [H2|H2];
    [|destruct (N.ltb_spec u 2097152) as [H3|H3]]]; cbn [app uint_read].
  - replace ((128 + u) / 128 =? 1) with true by lia. cbn [read_be]. f_equal. f_equal. lia.
  - replace ((64 + u / 256) / 128 =? 1) with false by lia.
    replace ((64 + u / 256) / 64 =? 1) with true by lia.
    cbn [read_be]. rewrite w32_small by (unfold M32; lia). f_equal. f_equal. lia.
  - replace ((32 + u / 65536) / 128 =? 1) with false by lia.
    replace ((32 + u / 65536) / 64 =? 1) with false by lia.
    replace ((32 + u / 65536) / 32 =? 1) with true by lia.
    cbn [read_be]. rewrite !w32_small by (unfold M32; try rewrite w32_small by (unfold M32; lia); lia).
    f_equal. f_equal. lia.
  - replace ((16 + u / 16777216) / 128 =? 1) with false by lia.
    replace ((16 + u / 16777216) / 64 =? 1) with false by lia.
    replace ((16 + u / 16777216) / 32 =? 1) with false by lia.
    replace ((16 + u / 16777216) / 16 =? 1) with true by lia.
    cbn [read_be].
    rewrite (w32_small ((16 + u / 16777216) mod 16 * 256 + _)) by (unfold M32; lia).
    rewrite (w32_small (((16 + u / 16777216) mod 16 * 256 + _) * 256 + _)) by (unfold M32; lia).
    rewrite w32_small by (unfold M32; lia).
    f_equal. f_equal. lia.
Qed.

(* every byte written by uint_write is a byte, and the first one is not 0 *)
Lemma uint_write_bytes u : u < 268435456 -> Forall (fun b => b < 256) (uint_write u).
Proof.
  intros Hu. unfold uint_write.
  destruct (N.ltb_spec u 128); [|destruct (N.ltb_spec u 16384); [|destruct (N.ltb_spec u 2097152)]];
    repeat constructor; lia.
Qed.

(* tag byte: symbol field s (<= SYMB_TAG_LONG) and reference field r (<= REF_TAG_LONG) *)
Lemma tag_roundtrip s r :
  s <= SYMB_TAG_LONG -> r <= REF_TAG_LONG ->
  let tag := s * (REF_TAG_LONG + 1) + r in
  tag / (REF_TAG_LONG + 1) = s /\ tag mod (REF_TAG_LONG + 1) = r /\ tag < 256.
Proof. unfold SYMB_TAG_LONG, REF_TAG_LONG. intros. lia. Qed.

(* C12: lemmas about the functional arrays of Arr.v. *)
From Coq Require Import ZArith NArith List Bool Lia ZifyBool ZifyNat ZifyN FMapPositive.
From MirV Require Import C12.Arr.
Import ListNotations.
Local Open Scope N_scope.

Lemma akey_inj i j : akey i = akey j -> i = j.
Proof. unfold akey. intros H. apply (f_equal Pos.pred_N) in H. rewrite !N.pos_pred_succ in H. exact H. Qed.

Lemma aget_aset_same d a i v : aget d (aset a i v) i = v.
Proof. unfold aget, aset. rewrite PositiveMap.gss. reflexivity. Qed.

Lemma aget_aset_other d a i j v : i <> j -> aget d (aset a i v) j = aget d a j.
Proof.
  intros H. unfold aget, aset. rewrite PositiveMap.gso; [reflexivity|].
  intro E. apply H. symmetry. apply akey_inj. exact E.
Qed.

Lemma aget_aset d a i j v : aget d (aset a i v) j = if i =? j then v else aget d a j.
Proof.
  destruct (N.eqb_spec i j) as [->|H]; [apply aget_aset_same | apply aget_aset_other; exact H].
Qed.

Lemma aget_aempty d i : aget d aempty i = d i.
Proof. unfold aget, aempty. rewrite PositiveMap.gempty. reflexivity. Qed.

Lemma aget_awrite d l : forall a i j,
  aget d (awrite a i l) j =
  if (i <=? j) && (j <? i + N.of_nat (length l)) then nth (N.to_nat (j - i)) l 0 else aget d a j.
Proof.
  induction l as [|x l IH]; intros a i j; cbn [awrite length].
  - replace ((i <=? j) && (j <? i + N.of_nat 0)) with false by lia. reflexivity.
  - rewrite IH. rewrite aget_aset.
    destruct (N.eqb_spec i j) as [->|Hne].
    + replace ((N.succ j <=? j) && (j <? N.succ j + N.of_nat (length l))) with false by lia.
      replace ((j <=? j) && (j <? j + N.of_nat (S (length l)))) with true by lia.
      rewrite N.sub_diag. reflexivity.
    + destruct (N.leb_spec (N.succ i) j) as [H1|H1]; destruct (N.ltb_spec j (N.succ i + N.of_nat (length l))) as [H2|H2];
        cbn [andb].
      * replace ((i <=? j) && (j <? i + N.of_nat (S (length l)))) with true by lia.
        replace (N.to_nat (j - i)) with (S (N.to_nat (j - N.succ i))) by lia. reflexivity.
      * replace ((i <=? j) && (j <? i + N.of_nat (S (length l)))) with false by lia. reflexivity.
      * replace ((i <=? j) && (j <? i + N.of_nat (S (length l)))) with false by lia. reflexivity.
      * replace ((i <=? j) && (j <? i + N.of_nat (S (length l)))) with false by lia. reflexivity.
Qed.

Lemma aget_awrite_in d l a i j :
  i <= j -> j < i + N.of_nat (length l) -> aget d (awrite a i l) j = nth (N.to_nat (j - i)) l 0.
Proof. intros. rewrite aget_awrite. replace ((i <=? j) && (j <? i + N.of_nat (length l))) with true by lia. reflexivity. Qed.

Lemma aget_awrite_out d l a i j :
  j < i \/ i + N.of_nat (length l) <= j -> aget d (awrite a i l) j = aget d a j.
Proof. intros. rewrite aget_awrite. replace ((i <=? j) && (j <? i + N.of_nat (length l))) with false by lia. reflexivity. Qed.

Lemma aget_awrite_seq d n : forall a i v j,
  aget d (awrite_seq a i v n) j =
  if (i <=? j) && (j <? i + N.of_nat n) then v + (j - i) else aget d a j.
Proof.
  induction n as [|n IH]; intros a i v j; cbn [awrite_seq].
  - replace ((i <=? j) && (j <? i + N.of_nat 0)) with false by lia. reflexivity.
  - rewrite IH, aget_aset.
    destruct (N.eqb_spec i j) as [->|Hne].
    + replace ((N.succ j <=? j) && (j <? N.succ j + N.of_nat n)) with false by lia.
      replace ((j <=? j) && (j <? j + N.of_nat (S n))) with true by lia. lia.
    + destruct (N.leb_spec (N.succ i) j) as [H1|H1]; destruct (N.ltb_spec j (N.succ i + N.of_nat n)) as [H2|H2];
        cbn [andb].
      * replace ((i <=? j) && (j <? i + N.of_nat (S n))) with true by lia. lia.
      * replace ((i <=? j) && (j <? i + N.of_nat (S n))) with false by lia. reflexivity.
      * replace ((i <=? j) && (j <? i + N.of_nat (S n))) with false by lia. reflexivity.
      * replace ((i <=? j) && (j <? i + N.of_nat (S n))) with false by lia. reflexivity.
Qed.

Lemma aread_length d a n : forall i, length (aread d a i n) = n.
Proof. induction n as [|n IH]; intros i; cbn [aread length]; [reflexivity | rewrite IH; reflexivity]. Qed.

Lemma nth_aread d a n : forall i k, (k < n)%nat -> nth k (aread d a i n) 0 = aget d a (i + N.of_nat k).
Proof.
  induction n as [|n IH]; intros i k Hk; [lia|]. cbn [aread].
  destruct k as [|k]; cbn [nth].
  - f_equal. lia.
  - rewrite IH by lia. f_equal. lia.
Qed.

(* reading back what a list says cell by cell *)
Lemma aread_eq d a (l : list N) : forall i,
  (forall k, (k < length l)%nat -> aget d a (i + N.of_nat k) = nth k l 0) ->
  aread d a i (length l) = l.
Proof.
  induction l as [|x l IH]; intros i H; cbn [length aread]; [reflexivity|].
  f_equal.
  - specialize (H O ltac:(cbn; lia)). cbn [nth] in H. rewrite <- H. f_equal. lia.
  - apply IH. intros k Hk. specialize (H (S k) ltac:(cbn; lia)). cbn [nth] in H. rewrite <- H. f_equal. lia.
Qed.

(* C12: the encoder model never runs out of fuel: the hash chains of the dictionary are finite
   duplicate-free lists of handed-out elements, pairwise disjoint ([sinv]), so every chain walk
   ends within TABLE_SIZE steps; the main loop advances by at least one byte per iteration. *)
From Coq Require Import ZArith NArith List Bool Lia ZifyBool ZifyNat ZifyN.
From MirV Require Import gen.ReduceParams C12.Arr C12.ArrProofs C12.Hash C12.Reduce C12.CodecProofs
  C12.EncodeProofs.
Import ListNotations.
Local Open Scope N_scope.

(* l is the list of elements reached from [start] through the next fields, up to UINT32_MAX *)
Fixpoint is_chain (t : tbl) (start : N) (l : list N) : Prop :=
  match l with
  | [] => start = NIL
  | i :: l' => start = i /\ i <> NIL /\ is_chain t (tnext t i) l'
  end.

Record sinv (t : tbl) (free k : N) (ch : N -> list N) : Prop := {
  si_k : k <= TABLE_SIZE;
  si_free : free = if k <? TABLE_SIZE then k else NIL;
  si_rest : forall i, k <= i -> tnext t i = next0 i;
  si_chain : forall h, is_chain t (thead t h) (ch h);
  si_nodup : forall h, NoDup (ch h);
  si_lt : forall h i, In i (ch h) -> i < k;
  si_disj : forall h1 h2 i, In i (ch h1) -> In i (ch h2) -> h1 = h2
}.

Lemma is_chain_ext t t' : forall l s,
  (forall i, In i l -> tnext t' i = tnext t i) -> is_chain t s l -> is_chain t' s l.
Proof.
  induction l as [|i l IH]; intros s E H; cbn [is_chain] in *; [exact H|].
  destruct H as (H1 & H2 & H3). repeat split; try assumption.
  rewrite E by (left; reflexivity). apply IH; [|exact H3]. intros j Hj. apply E. right. exact Hj.
Qed.

Lemma is_chain_nil t l : is_chain t NIL l -> l = [].
Proof. destruct l as [|i l]; [reflexivity|]. cbn. intros (H1 & H2 & _). congruence. Qed.

Lemma is_chain_members t : forall l s i, is_chain t s l -> In i l -> i <> NIL.
Proof.
  induction l as [|j l IH]; intros s i H Hi; [contradiction|].
  cbn [is_chain] in H. destruct H as (H1 & H2 & H3). destruct Hi as [<-|Hi]; [exact H2|].
  eapply IH; eauto.
Qed.

Lemma chain_length k l :
  k <= TABLE_SIZE -> NoDup l -> (forall i, In i l -> i < k) -> (length l <= table_fuel)%nat.
Proof.
  intros Hk Hnd Hlt.
  assert (Hincl : incl l (map N.of_nat (seq 0 (N.to_nat k)))).
  { intros i Hi. specialize (Hlt i Hi). rewrite <- (N2Nat.id i). apply in_map. apply in_seq. lia. }
  pose proof (NoDup_incl_length Hnd Hincl) as H. rewrite map_length, seq_length in H.
  unfold table_fuel. lia.
Qed.

(* ------------------------------------------------------------------ chain walks end *)

Lemma walk_total t buf bound pos enum : forall fuel l curr best,
  is_chain t curr l -> (length l <= fuel)%nat ->
  walk fuel t buf bound pos enum curr best <> None.
Proof.
  induction fuel as [|f IH]; intros l curr best Hc Hl.
  - destruct l; [|cbn in Hl; lia]. cbn in Hc. subst curr. cbn [walk]. rewrite N.eqb_refl. discriminate.
  - cbn [walk]. destruct (N.eqb_spec curr NIL) as [E|E]; [discriminate|].
    destruct l as [|i l]; [cbn in Hc; contradiction|].
    cbn [is_chain] in Hc. destruct Hc as (-> & _ & Hc). cbn [length] in Hl.
    assert (R : forall b, walk f t buf bound pos enum (tnext t i) b <> None)
      by (intros b; apply (IH l); [exact Hc | lia]).
    repeat match goal with
           | |- context [if ?c then _ else _] => destruct c
           | |- context [match ?b with Some _ => _ | None => _ end] => destruct b as [[[? ?] ?]|]
           end; apply R.
Qed.

Lemma last_cons (a : N) l d : last (a :: l) d = last l a.
Proof.
  revert a d. induction l as [|b l IH]; intros a d; [reflexivity|].
  change (last (a :: b :: l) d) with (last (b :: l) d). rewrite IH. symmetry. apply IH.
Qed.

Lemma find_last_chain t : forall fuel l prev curr,
  is_chain t curr l -> (length l <= fuel)%nat ->
  exists p c, find_last fuel t prev curr = Some (p, c) /\
    ((l = [] /\ c = NIL /\ p = prev)
     \/ (exists l0, l = l0 ++ [c] /\ p = last l0 prev /\ tnext t c = NIL)).
Proof.
  induction fuel as [|f IH]; intros l prev curr Hc Hl.
  - destruct l; [|cbn in Hl; lia]. cbn in Hc. subst curr. exists prev, NIL. cbn [find_last].
    rewrite N.eqb_refl. split; [reflexivity | left; repeat split].
  - cbn [find_last]. destruct (N.eqb_spec curr NIL) as [E|E].
    { subst curr. apply is_chain_nil in Hc. subst l. exists prev, NIL. split; [reflexivity | left; repeat split]. }
    destruct l as [|i l]; [cbn in Hc; contradiction|].
    cbn [is_chain] in Hc. destruct Hc as (-> & Hi & Hc). cbn [length] in Hl.
    destruct (N.eqb_spec (tnext t i) NIL) as [E2|E2].
    { rewrite E2 in Hc. apply is_chain_nil in Hc. subst l. exists prev, i.
      split; [reflexivity | right; exists []; repeat split; assumption]. }
    destruct (IH l i (tnext t i) Hc ltac:(lia)) as (p & c & F & [(-> & _ & _)|(l0 & -> & -> & Hn)]).
    + cbn in Hc. contradiction.
    + exists (last l0 i), c. split; [exact F|]. right. exists (i :: l0).
      split; [reflexivity|]. split; [symmetry; apply last_cons | exact Hn].
Qed.

(* cutting the last element c off a chain l0 ++ [c] by clearing the next field of last l0 *)
Lemma is_chain_cut t t' c : forall l0 s,
  l0 <> [] -> NoDup (l0 ++ [c]) -> is_chain t s (l0 ++ [c]) ->
  (forall i, In i l0 -> i <> last l0 NIL -> tnext t' i = tnext t i) ->
  tnext t' (last l0 NIL) = NIL ->
  is_chain t' s l0.
Proof.
  induction l0 as [|a l0 IH]; intros s Hne Hnd Hc Hsame Hlast; [contradiction|].
  cbn [app is_chain] in *. destruct Hc as (-> & Ha & Hc). repeat split; try assumption.
  destruct l0 as [|b l0].
  - cbn [last] in Hlast. rewrite Hlast. reflexivity.
  - inversion Hnd as [|? ? Hnin Hnd']; subst.
    assert (Hab : a <> last (b :: l0) NIL).
    { intro C. apply Hnin. rewrite C.
      assert (Hin : In (last (b :: l0) NIL) (b :: l0)).
      { destruct (exists_last (l := b :: l0) ltac:(discriminate)) as (l1 & z & E).
        rewrite E, last_last. apply in_or_app. right. left. reflexivity. }
      exact (in_or_app (b :: l0) [c] _ (or_introl Hin)). }
    rewrite Hsame; [|left; reflexivity | exact Hab].
    apply IH; try assumption; [discriminate|].
    intros i Hi Hne'. apply Hsame; [right; exact Hi | exact Hne'].
Qed.

(* ------------------------------------------------------------------ _reduce_dict_add keeps the structure *)

Lemma dict_add_total st k ch bound pos hash :
  sinv (e_tbl st) (e_free st) k ch ->
  exists st', dict_add st bound pos hash = Some st' /\
    e_num st' = e_num st + 1 /\ e_symb st' = e_symb st /\ e_slen st' = e_slen st /\
    exists k' ch', sinv (e_tbl st') (e_free st') k' ch'.
Proof.
  intros S. unfold dict_add. assert (HN : TABLE_SIZE < NIL) by (unfold TABLE_SIZE, NIL; lia).
  destruct (bound <? pos + START_LEN).
  { eexists; split; [reflexivity|]. cbn. repeat split. exists k, ch. exact S. }
  destruct S as [S1 S2 S3 S4 S5 S6 S7].
  destruct (N.eqb_spec (e_free st) NIL) as [Ef|Ef].
  - assert (Hk : k = TABLE_SIZE).
    { destruct (N.ltb_spec k TABLE_SIZE) as [H|H]; cbv iota in S2; lia. }
    destruct (find_last_chain (e_tbl st) table_fuel (ch hash) NIL (thead (e_tbl st) hash) (S4 hash)
                (chain_length k _ S1 (S5 hash) (S6 hash)))
      as (p & c & F & [(El & -> & ->)|(l0 & El & -> & Hnc)]); rewrite F.
    + rewrite N.eqb_refl. eexists; split; [reflexivity|]. cbn. repeat split.
      exists k, ch. constructor; try assumption. cbn. rewrite Hk.
      replace (TABLE_SIZE <? TABLE_SIZE) with false by lia. reflexivity.
    + assert (Hcin : In c (ch hash)) by (rewrite El; apply in_or_app; right; left; reflexivity).
      assert (Hc : c <> NIL) by (eapply is_chain_members; [apply (S4 hash) | exact Hcin]).
      replace (c =? NIL) with false by lia.
      eexists; split; [reflexivity|]. cbn [e_num e_symb e_slen e_tbl e_free]. repeat split.
      set (t := e_tbl st) in *.
      set (t1 := if last l0 NIL =? NIL then set_head t hash (tnext t c) else set_next t (last l0 NIL) (tnext t c)).
      set (ch' := fun h => if h =? hash then c :: l0 else ch h).
      pose proof (S5 hash) as Hnd. rewrite El in Hnd.
      assert (Hcl0 : ~ In c l0).
      { intro C. apply NoDup_remove_2 in Hnd. rewrite app_nil_r in Hnd. contradiction. }
      assert (Hl0in : forall i, In i l0 -> In i (ch hash)) by (intros i Hi; rewrite El; apply in_or_app; left; exact Hi).
      assert (Hl0nil : forall i, In i l0 -> i <> NIL).
      { intros i Hi. eapply is_chain_members; [apply (S4 hash) | apply Hl0in; exact Hi]. }
      assert (Hlast : l0 <> [] -> In (last l0 NIL) l0).
      { intros Hne. destruct (exists_last Hne) as (l1 & z & E). rewrite E, last_last.
        apply in_or_app. right. left. reflexivity. }
      assert (Hp : (last l0 NIL =? NIL) = true <-> l0 = []).
      { split.
        - intros E. destruct l0 as [|a l1]; [reflexivity|]. exfalso.
          apply (Hl0nil (last (a :: l1) NIL)); [apply Hlast; discriminate | lia].
        - intros ->. reflexivity. }
      assert (Hpf : l0 <> [] -> (last l0 NIL =? NIL) = false).
      { intros Hne. apply N.eqb_neq. apply Hl0nil, Hlast. exact Hne. }
      (* next fields of t2 = link_el t1 hash c pos num *)
      assert (Hnext : forall i, i <> c -> (l0 = [] \/ i <> last l0 NIL) ->
                tnext (link_el t1 hash c pos (e_num st)) i = tnext t i).
      { intros i Hic Hil. rewrite tnext_link. replace (c =? i) with false by lia.
        unfold t1. destruct (last l0 NIL =? NIL) eqn:E.
        - apply tnext_set_head.
        - rewrite tnext_set_next. destruct Hil as [Hil|Hil].
          + apply Hp in Hil. congruence.
          + replace (last l0 NIL =? i) with false by lia. reflexivity. }
      exists k, ch'. constructor.
      * exact S1.
      * rewrite Hk. replace (TABLE_SIZE <? TABLE_SIZE) with false by lia. reflexivity.
      * intros i Hi. assert (c < k) by (apply (S6 hash); exact Hcin).
        rewrite Hnext; [apply S3; exact Hi | lia |].
        destruct l0 as [|a l1]; [left; reflexivity | right].
        assert (last (a :: l1) NIL < k) by (apply (S6 hash), Hl0in, Hlast; discriminate). lia.
      * intros h. unfold ch'. rewrite thead_link. destruct (N.eqb_spec h hash) as [->|Hne].
        -- rewrite N.eqb_refl. cbn [is_chain]. repeat split; [exact Hc|].
           rewrite tnext_link, N.eqb_refl.
           destruct l0 as [|a l1].
           ++ unfold t1. cbn [last]. rewrite N.eqb_refl, thead_set_head, N.eqb_refl. cbn. exact Hnc.
           ++ assert (Hth : thead t1 hash = a).
              { unfold t1. rewrite Hpf by discriminate.
                rewrite thead_set_next. pose proof (S4 hash) as C. rewrite El in C. cbn in C. tauto. }
              rewrite Hth.
              pose proof (S4 hash) as C. rewrite El in C.
              assert (Ca : thead t hash = a) by (cbn in C; tauto). rewrite Ca in C.
              apply (is_chain_cut t _ c (a :: l1) a ltac:(discriminate) Hnd C).
              ** intros i Hi Hne. apply Hnext; [intro Eic; subst i; contradiction | right; exact Hne].
              ** rewrite tnext_link.
                 replace (c =? last (a :: l1) NIL) with false
                   by (destruct (N.eqb_spec c (last (a :: l1) NIL)) as [E|]; [|reflexivity];
                       exfalso; apply Hcl0; rewrite E; apply Hlast; discriminate).
                 unfold t1. rewrite Hpf by discriminate.
                 rewrite tnext_set_next, N.eqb_refl. exact Hnc.
        -- replace (hash =? h) with false by lia.
           assert (Hth : thead t1 h = thead t h).
           { unfold t1. destruct (last l0 NIL =? NIL); [|apply thead_set_next].
             rewrite thead_set_head. replace (hash =? h) with false by lia. reflexivity. }
           rewrite Hth. apply (is_chain_ext t); [|apply S4].
           intros i Hi. apply Hnext.
           ++ intro; subst i. apply Hne. apply (S7 h hash c); assumption.
           ++ destruct l0 as [|a l1]; [left; reflexivity | right]. intro; subst i.
              apply Hne. apply (S7 h hash (last (a :: l1) NIL)); [exact Hi|].
              apply Hl0in, Hlast. discriminate.
      * intros h. unfold ch'. destruct (h =? hash); [|apply S5].
        constructor; [exact Hcl0|]. apply NoDup_remove_1 in Hnd. rewrite app_nil_r in Hnd. exact Hnd.
      * intros h i. unfold ch'. destruct (N.eqb_spec h hash) as [->|Hne]; [|apply S6].
        intros [<-|Hi]; [apply (S6 hash); exact Hcin | apply (S6 hash), Hl0in; exact Hi].
      * assert (Hmem : forall h i, In i (ch' h) -> In i (ch h)).
        { intros h i. unfold ch'. destruct (N.eqb_spec h hash) as [->|Hne]; [|tauto].
          intros [<-|Hi]; [exact Hcin | apply Hl0in; exact Hi]. }
        intros h1 h2 i H1 H2. apply (S7 h1 h2 i); apply Hmem; assumption.
  - assert (Hk : k < TABLE_SIZE /\ e_free st = k).
    { destruct (N.ltb_spec k TABLE_SIZE) as [H|H]; cbv iota in S2; [split; assumption | congruence]. }
    destruct Hk as [Hk Ek].
    eexists; split; [reflexivity|]. cbn [e_num e_symb e_slen e_tbl e_free]. repeat split.
    rewrite Ek. set (t := e_tbl st) in *.
    set (ch' := fun h => if h =? hash then k :: ch hash else ch h).
    assert (Hnext : forall i, i <> k -> tnext (link_el t hash k pos (e_num st)) i = tnext t i).
    { intros i Hi. rewrite tnext_link. replace (k =? i) with false by lia. reflexivity. }
    assert (Hkin : forall h, ~ In k (ch h)) by (intros h C; apply S6 in C; lia).
    exists (k + 1), ch'. constructor.
    + lia.
    + rewrite (S3 k ltac:(lia)). unfold next0.
      destruct (N.eqb_spec (k + 1) TABLE_SIZE) as [E|E].
      * rewrite E. replace (TABLE_SIZE <? TABLE_SIZE) with false by lia. reflexivity.
      * replace (k + 1 <? TABLE_SIZE) with true by lia. reflexivity.
    + intros i Hi. rewrite Hnext by lia. apply S3. lia.
    + intros h. unfold ch'. rewrite thead_link. destruct (N.eqb_spec h hash) as [->|Hne].
      * rewrite N.eqb_refl. cbn [is_chain]. repeat split; [lia|].
        rewrite tnext_link, N.eqb_refl. apply (is_chain_ext t); [|apply S4].
        intros i Hi. apply Hnext. intro; subst i. exact (Hkin hash Hi).
      * replace (hash =? h) with false by lia. apply (is_chain_ext t); [|apply S4].
        intros i Hi. apply Hnext. intro; subst i. exact (Hkin h Hi).
    + intros h. unfold ch'. destruct (h =? hash); [|apply S5]. constructor; [apply Hkin | apply S5].
    + intros h i. unfold ch'. destruct (N.eqb_spec h hash) as [->|Hne].
      * intros [<-|Hi]; [lia | apply S6 in Hi; lia].
      * intros Hi. apply S6 in Hi. lia.
    + intros h1 h2 i. unfold ch'.
      destruct (N.eqb_spec h1 hash) as [->|H1]; destruct (N.eqb_spec h2 hash) as [->|H2]; try reflexivity.
      * intros [<-|Hi] Hj; [exfalso; exact (Hkin h2 Hj) | apply (S7 hash h2 i); assumption].
      * intros Hi [<-|Hj]; [exfalso; exact (Hkin h1 Hi) | apply (S7 h1 hash i); assumption].
      * apply S7.
Qed.

Lemma sinv_init : sinv tbl0 0 0 (fun _ => []).
Proof.
  constructor.
  - unfold TABLE_SIZE; lia.
  - reflexivity.
  - intros i _. unfold tnext, tbl0; cbn. apply aget_aempty.
  - intros h. cbn. unfold thead, tbl0; cbn. rewrite aget_aempty. reflexivity.
  - intros h. constructor.
  - intros h i [].
  - intros h1 h2 i [].
Qed.

(* ------------------------------------------------------------------ the loops end *)

Lemma match_len_ge buf p1 p2 bound : forall fuel len, len <= match_len fuel buf p1 p2 len bound.
Proof.
  induction fuel as [|f IH]; intros len; cbn [match_len]; [lia|].
  destruct (len <? bound); [|lia]. destruct (_ =? _); [|lia]. specialize (IH (len + 1)). lia.
Qed.

Definition best_len_ok (b : option (N * N * N)) : Prop :=
  match b with Some (bl, _, _) => 4 <= bl | None => True end.

Lemma walk_len t buf bound pos enum : forall fuel curr best r,
  best_len_ok best -> walk fuel t buf bound pos enum curr best = Some r -> best_len_ok r.
Proof.
  induction fuel as [|f IH]; intros curr best r Hb; cbn [walk].
  - destruct (curr =? NIL); [|discriminate]. intros H; inversion H; subst. exact Hb.
  - destruct (curr =? NIL). { intros H; inversion H; subst. exact Hb. }
    pose proof (match_len_ge buf (tpos t curr) pos (N.min (bound - pos) (pos - tpos t curr)) buf_fuel 4) as G.
    repeat match goal with
           | |- context [if ?c then _ else _] => destruct c
           | |- context [match ?b with Some _ => _ | None => _ end] => destruct b as [[[? ?] ?]|]
           end; apply IH; try exact Hb; exact G.
Qed.

Lemma find_longest_total st k ch buf bound pos hash :
  sinv (e_tbl st) (e_free st) k ch ->
  exists r, find_longest st buf bound pos hash = Some r
            /\ match r with Some (len, _) => 4 <= len | None => True end.
Proof.
  intros S. unfold find_longest. destruct (bound <? pos + START_LEN). { exists None. split; [reflexivity | exact I]. }
  destruct (walk table_fuel (e_tbl st) buf bound pos (e_num st) (thead (e_tbl st) hash) None) as [r|] eqn:W.
  - apply walk_len in W; [|exact I]. destruct r as [[[bl bn] brs]|].
    + exists (Some (bl, bn)). split; [reflexivity | exact W].
    + exists None. split; [reflexivity | exact I].
  - exfalso. revert W. apply (walk_total _ _ _ _ _ table_fuel (ch hash)).
    + apply (si_chain _ _ _ _ S).
    + apply (chain_length k); [apply (si_k _ _ _ _ S) | apply (si_nodup _ _ _ _ S) | apply (si_lt _ _ _ _ S)].
Qed.

Lemma output_byte_tbl st b : e_tbl (fst (output_byte st b)) = e_tbl st /\ e_free (fst (output_byte st b)) = e_free st.
Proof. unfold output_byte. destruct (_ <? _); split; reflexivity. Qed.

Lemma enc_loop_total buf bound : forall fuel st pos acc,
  (exists k ch, sinv (e_tbl st) (e_free st) k ch) ->
  bound - pos <= N.of_nat fuel ->
  exists r, enc_loop fuel buf bound st pos acc = Some r.
Proof.
  induction fuel as [|f IH]; intros st pos acc (k & ch & S) Hf; cbn [enc_loop].
  - replace (bound <=? pos) with true by lia. eexists; reflexivity.
  - destruct (N.leb_spec bound pos) as [Hge|Hlt]; [eexists; reflexivity|].
    set (hash := if bound <? pos + START_LEN then 0 else start_hash buf pos).
    destruct (find_longest_total st k ch buf bound pos hash S) as (r & -> & Hr).
    destruct r as [[len num]|].
    + destruct (output_ref st (e_num st - num) len) as [st1 out] eqn:EO.
      assert (S1 : sinv (e_tbl st1) (e_free st1) k ch).
      { unfold output_ref in EO. inversion EO; subst st1. exact S. }
      destruct (dict_add_total st1 k ch bound pos hash S1) as (st2 & -> & _ & _ & _ & k' & ch' & S2).
      apply IH; [exists k', ch'; exact S2 | lia].
    + destruct (output_byte st (bget buf pos)) as [st1 out] eqn:EO.
      assert (S1 : sinv (e_tbl st1) (e_free st1) k ch).
      { pose proof (output_byte_tbl st (bget buf pos)) as [T1 T2]. rewrite EO in T1, T2. cbn in T1, T2.
        rewrite T1, T2. exact S. }
      destruct (dict_add_total st1 k ch bound pos hash S1) as (st2 & -> & _ & _ & _ & k' & ch' & S2).
      apply IH; [exists k', ch'; exact S2 | lia].
Qed.

Lemma encode_buf_total chunk h :
  (length chunk <= buf_fuel)%nat -> exists r, encode_buf chunk h = Some r.
Proof.
  intros Hl. unfold encode_buf. destruct chunk as [|c0 ch0] eqn:Ec; [eexists; reflexivity|]. rewrite <- Ec in *.
  destruct (enc_loop_total (awrite aempty 0 chunk) (N.of_nat (length chunk)) buf_fuel enc0 0 [])
    as ([st acc] & ->).
  - exists 0, (fun _ => []). apply sinv_init.
  - lia.
  - eexists; reflexivity.
Qed.

Lemma enc_chunks_total : forall fuel data h,
  (length data <= fuel)%nat -> exists r, enc_chunks fuel data h = Some r.
Proof.
  assert (HB : (0 < buf_fuel)%nat) by (unfold buf_fuel, BUF_LEN; lia).
  induction fuel as [|f IH]; intros data h Hl.
  - destruct data; [|cbn in Hl; lia]. eexists; reflexivity.
  - destruct data as [|x d]; [eexists; reflexivity|].
    cbn [enc_chunks]. set (data := x :: d) in *.
    destruct (encode_buf_total (firstn buf_fuel data) h) as ([out h1] & ->).
    { rewrite firstn_length. lia. }
    destruct (IH (skipn buf_fuel data) h1) as ([outs h2] & ->).
    { rewrite skipn_length. unfold data in *. cbn [length] in *. lia. }
    eexists; reflexivity.
Qed.

(* reduce_encode's model is total: it never runs out of fuel *)
Lemma encode_total data : exists s, encode data = Some s.
Proof.
  unfold encode. destruct (enc_chunks_total (S (length data)) data CHECK_HASH_SEED ltac:(lia)) as ([body h] & ->).
  eexists; reflexivity.
Qed.

(* Extraction of the reference interpreter (ExtrOcamlBasic only; Z/N/positive/nat stay Coq
   datatypes; no Extract Constant / Extract Inductive of our own). *)
From Coq Require Import Extraction ExtrOcamlBasic List ZArith.
From MirV Require Import Mir.Opcode Mir.Syntax Mir.Sem C01.InsnSem C04.Simplify.
Extraction Language OCaml.
Extraction "c01x.ml" run_program observe mir_isem opcode_of_num opcode_num consolidate.

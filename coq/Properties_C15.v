(* Property C15: ill-formed IR is rejected through the error callback with a specific code;
   well-formed IR is accepted.  This file holds only the property theorems, each closed by
   [exact] and followed by Print Assumptions.  The operand-mode table (MirV.gen.InsnDescs) is
   regenerated from the current mir.c on every run, so every theorem below is re-proved against
   what the source says now. *)
From Coq Require Import List NArith ZArith Bool.
From MirV Require Import Mir.Opcode C15.Defs gen.InsnDescs C15.Validate C15.DocModes C15.TableProofs
  C15.ValidateProofs C15.VarProofs C15.FuncProofs C15.ErrProofs C15.DeclProofs C15.BoundsProofs C15.Examples
  C15.Safe C15.SafeProofs C15.VarErrProofs C15.CallErrProofs.
Import ListNotations.

(* insn_descs[] is usable as the checker uses it: one row per opcode below MIR_INSN_BOUND, row i
   written for the opcode whose value is i (what check_and_prepare_insn_descs asserts in debug
   builds only), every op_modes initialiser list is a sequence of expectation modes closed by one
   unflagged MIR_OP_BOUND within the 5 cells, instruction names are non-empty and unique. *)
Theorem insn_descs_wellformed :
  length insn_descs = N.to_nat (opcode_num INSN_BOUND)
  /\ (forall i r, nth_error insn_descs i = Some r ->
        exists c n modes, r = Row (Some c) n modes /\ opcode_num c = N.of_nat i
                          /\ modes_terminated modes = true /\ n <> [])
  /\ NoDup (map row_name insn_descs)
  /\ op_modes_cells = Some OP_MODES_CELLS.
Proof. exact insn_descs_wellformed_lemma. Qed.
Print Assumptions insn_descs_wellformed.

(* the enumerations of the model are those of the current mir.h, in order *)
Theorem enums_match_header :
  error_names = expected_error_names
  /\ op_mode_names = expected_mode_names
  /\ type_names = expected_type_names
  /\ map error_num all_errors = map N.of_nat (seq 0 (length error_names))
  /\ map mode_num all_modes = map N.of_nat (seq 0 (length op_mode_names)).
Proof. exact enums_match_header_lemma. Qed.
Print Assumptions enums_match_header.

(* Fixed-arity instructions: in every function context the API can build, for every operand
   list (any length, any operands), creating the instruction and finishing the function raises
   no error exactly when MIR.md's operand rules (DocModes.doc_sig, written from the document)
   allow the instruction. *)
Theorem validate_iff_doc_fixed : forall unspec fc ins sig,
  fc_wf fc -> doc_sig (i_code ins) = Some sig ->
  (check_insn unspec fc ins = Ok tt <-> doc_insn_ok fc ins = true).
Proof. exact validate_iff_doc_fixed_lemma. Qed.
Print Assumptions validate_iff_doc_fixed.

(* THE property, for whole function bodies: in every function context the API can build (fc_wf),
   whose result types passed MIR_new_func's check, for EVERY list of instructions (any opcodes
   MIR.md documents, any number of operands, any operands, any prototypes whose parameter types
   are data or block types): creating all the instructions and finishing the function raises no
   error exactly when MIR.md allows every instruction (operand count, operand classes, output
   operands being registers or memory, declared registers, ret matching the result types, calls
   matching their prototypes incl. block arguments and variable parts, switch) and the function
   rules hold (ret/jret discipline, va_start only in vararg functions, overflow branches after
   their producer).  Fixed-arity opcodes: finite sweep (vm_compute) lifted to all operand lists;
   ret/switch/call/inline/jcall: induction over the operand list; bodies: induction over the
   instruction list. *)
Theorem validate_iff_doc : forall unspec fc insns,
  fc_wf fc -> res_types_ok fc = true -> forallb insn_in_domain insns = true ->
  (check_body unspec fc insns = Ok tt <-> doc_func_ok fc insns = true).
Proof. exact validate_iff_doc_lemma. Qed.
Print Assumptions validate_iff_doc.

(* call / inline / jcall alone: any operand list, any prototype *)
Theorem validate_iff_doc_call : forall unspec fc code ops,
  is_call code = true -> fc_wf fc -> insn_in_domain {| i_code := code; i_ops := ops |} = true ->
  is_ok (check_new_insn unspec code ops) && is_ok (check_ops unspec fc {| i_code := code; i_ops := ops |})
  = doc_call_ok fc ops.
Proof. exact validate_call_bool. Qed.
Print Assumptions validate_iff_doc_call.

(* ret: header count check + operand loop = "operands correspond to the return types" *)
Theorem validate_iff_doc_ret : forall unspec fc ops, fc_wf fc -> res_types_ok fc = true ->
  (length ops =? length (f_res fc)) && is_ok (check_ops unspec fc {| i_code := RET; i_ops := ops |})
  = doc_ret_ok fc (f_res fc) ops.
Proof. exact validate_ret_bool. Qed.
Print Assumptions validate_iff_doc_ret.

Theorem validate_iff_doc_switch : forall unspec fc ops, fc_wf fc ->
  is_ok (check_new_insn unspec SWITCH ops) && is_ok (check_ops unspec fc {| i_code := SWITCH; i_ops := ops |})
  = doc_switch_ok fc ops.
Proof. exact validate_switch_bool. Qed.
Print Assumptions validate_iff_doc_switch.

(* the guard [insn_in_domain] is needed: outside the documented codes the checker accepts e.g. the
   pseudo instruction invalid-insn (not one of the ill-formedness classes the property lists) *)
Theorem validate_iff_doc_guard_needed :
  exists ins, insn_in_domain ins = false
              /\ check_body [] {| f_vararg := false; f_res := []; f_regs := []; f_nvars := 0; f_nglobals := 0 |} [ins] = Ok tt.
Proof. exact undocumented_code_accepted. Qed.
Print Assumptions validate_iff_doc_guard_needed.

(* The error code is specific.  (1) For every fixed-arity opcode, operand position and operand
   shape the verdict at that position is exactly the code of the violation class of the operand
   (undeclared register -> MIR_undeclared_func_reg_error, memory of a non-data type ->
   MIR_wrong_type_error, non-integer base/index -> MIR_reg_type_error, wrong kind / value class ->
   MIR_op_mode_error, non register/memory result -> MIR_out_op_error), or acceptance when there is
   no violation. *)
Theorem position_error_code : forall code sig i cls s,
  doc_sig code = Some sig -> nth_error sig i = Some cls -> shape_wf s = true ->
  pos_result code i s = doc_pos_result cls s.
Proof. exact position_error_code_lemma. Qed.
Print Assumptions position_error_code.

(* (2) A rejected fixed-arity instruction is rejected with MIR_ops_num_error when the operand
   count is wrong, and otherwise with the code of the violation of one of its operands that MIR.md
   indeed forbids at its position. *)
Theorem validate_error_code_specific : forall unspec fc ins sig e,
  fc_wf fc -> doc_sig (i_code ins) = Some sig -> check_insn unspec fc ins = Err e ->
  (length (i_ops ins) <> length sig /\ e = E_ops_num)
  \/ (length (i_ops ins) = length sig
      /\ exists i cls o v, nth_error sig i = Some cls /\ nth_error (i_ops ins) i = Some o
                           /\ doc_shape_ok cls (shape_of fc o) = false
                           /\ doc_violation cls (shape_of fc o) = Some v
                           /\ e = code_of_violation v).
Proof. exact validate_error_code_specific_lemma. Qed.
Print Assumptions validate_error_code_specific.

(* Every state the construction API can reach satisfies the hypotheses (fc_wf, res_types_ok) of
   the theorems above. *)
Theorem reachable_wf : forall cmds s s', state_wf s -> run s cmds = Ok s' -> state_wf s'.
Proof. exact reachable_wf_lemma. Qed.
Print Assumptions reachable_wf.

(* Creating instructions one by one through the API and finishing the function is check_body. *)
Theorem api_run_is_check_body : forall s fc insns, s_func s = Some fc -> s_insns s = [] ->
  unit_of (run s (map as_cmd insns ++ [CFinish])) = check_body (s_unspec s) fc insns.
Proof. exact api_run_is_check_body_lemma. Qed.
Print Assumptions api_run_is_check_body.

(* Declarations. *)
Theorem reserved_name_spec : forall n,
  reserved_name_p n = true
  <-> (exists rest, n = [46; 108; 99]%N ++ rest)
      \/ (exists ds, n = [104; 114]%N ++ ds /\ Forall (fun c => (48 <= c <= 57)%N) ds).
Proof. exact reserved_name_spec_lemma. Qed.
Print Assumptions reserved_name_spec.

Theorem reserved_name_rejected : forall fc t nm hard, reg_type_ok t = true -> reserved_name_p nm = true ->
  new_func_reg fc t nm hard = Err E_reserved_name.
Proof. exact reserved_rejected_lemma. Qed.
Print Assumptions reserved_name_rejected.

Theorem redeclared_register_rejected : forall fc t nm hard d, reg_type_ok t = true -> reserved_name_p nm = false ->
  find_rd_by_name fc nm = Some d -> new_func_reg fc t nm hard = Err E_repeated_decl.
Proof. exact redeclared_rejected_lemma. Qed.
Print Assumptions redeclared_register_rejected.

Theorem bad_register_type_rejected : forall fc t nm hard, reg_type_ok t = false ->
  new_func_reg fc t nm hard = Err E_reg_type.
Proof. exact bad_reg_type_rejected_lemma. Qed.
Print Assumptions bad_register_type_rejected.

Theorem declared_register_found : forall fc t nm fc' r, new_func_reg fc t nm None = Ok (fc', r) ->
  mir_reg fc' nm = Ok r /\ mir_reg_type fc' r = Ok t.
Proof. exact declared_found_lemma. Qed.
Print Assumptions declared_register_found.

Theorem undeclared_register_lookup_rejected : forall fc nm,
  find_rd_by_name fc nm = None -> mir_reg fc nm = Err E_undeclared_func_reg.
Proof. exact undeclared_lookup_lemma. Qed.
Print Assumptions undeclared_register_lookup_rejected.

(* MIR_insn_op_mode's table path never indexes op_modes[] outside its 5 cells for an instruction
   MIR_new_insn_arr accepted (before fix C15-3 jcall operands took this path with any index). *)
Theorem table_lookup_in_bounds : forall unspec code ops, uses_table code = true ->
  check_new_insn unspec code ops = Ok tt ->
  forall i, i < length ops ->
    i < OP_MODES_CELLS /\ insn_op_mode unspec code ops i = cell (desc_of code) i.
Proof. exact table_lookup_in_bounds_lemma. Qed.
Print Assumptions table_lookup_in_bounds.

(* Error codes of call / inline / jcall at creation: MIR_ops_num_error when there is no room for
   prototype and address, MIR_call_op_error for a non-prototype first operand or an operand count
   that does not match the prototype (more only for vararg prototypes), MIR_wrong_type_error for
   a broken block-argument rule -- and nothing else. *)
Theorem call_error_codes : forall unspec code ops, is_call code = true ->
  (length ops < 2 -> check_new_insn unspec code ops = Err E_ops_num)
  /\ (2 <= length ops -> (forall p, nth_op ops 0 <> ORef I_proto (Some p)) ->
      check_new_insn unspec code ops = Err E_call_op)
  /\ (forall p, 2 <= length ops -> nth_op ops 0 = ORef I_proto (Some p) ->
      let n := length (p_res p) + length (p_args p) + 2 in
      (length ops < n \/ (length ops <> n /\ p_vararg p = false) ->
         check_new_insn unspec code ops = Err E_call_op)
      /\ (n <= length ops -> (length ops = n \/ p_vararg p = true) ->
          forall e, check_new_insn unspec code ops = Err e -> e = E_wrong_type)).
Proof. exact call_error_codes_lemma. Qed.
Print Assumptions call_error_codes.

(* Error codes of MIR_finish_func's per-instruction header checks: MIR_invalid_insn_error exactly
   for a broken overflow-branch rule; MIR_vararg_func_error for use/phi, va_start outside a vararg
   function, jret in a function with results, ret/jret mixing, and a ret whose operand count is
   not the number of results (before fix C15-1 the last one crashed). *)
Theorem header_error_codes : forall fc rp jp before ins e,
  check_header fc rp jp before ins = Err e ->
  (e = E_invalid_insn /\ ovf_branch_p (i_code ins) = true /\ call_code_p (i_code ins) = false
   /\ match ovf_producer before with None => false | Some pc => ovf_cond (i_code ins) pc end = false)
  \/ (e = E_vararg_func
      /\ (code_is (i_code ins) PHI || code_is (i_code ins) USE
          || (negb (f_vararg fc) && code_is (i_code ins) VA_START)
          || (code_is (i_code ins) JRET && negb (length (f_res fc) =? 0))
          || ((code_is (i_code ins) JRET && rp) || (code_is (i_code ins) RET && jp))
          || (code_is (i_code ins) RET && negb (length (i_ops ins) =? length (f_res fc)))) = true).
Proof. exact header_error_codes_lemma. Qed.
Print Assumptions header_error_codes.

(* ---------------------------------------------------------------------------------------------
   Round 2 (audit): clauses of the property that had no theorem. *)

(* "never ... a crash": the checker never indexes an array outside its bounds, whatever is
   constructed.  Safe.v transcribes MIR_new_insn_arr, MIR_insn_op_mode and MIR_finish_func with
   every array access (ops[k], prev_insn->ops[1], unspec_protos[u], proto->res_types[k],
   proto->args[k], curr_func->res_types[i], insn_descs[code].op_modes[nop]) and every use of an
   operand's union member made partial: an index outside the array yields None.  For EVERY list of
   instructions, prototypes and function context the strict checker returns Some of the plain
   checker's verdict, i.e. the out-of-bounds branch is unreachable. *)
Theorem checker_reads_in_bounds : forall unspec fc insns,
  s_check_body unspec fc insns = Some (check_body unspec fc insns).
Proof. exact checker_in_bounds_lemma. Qed.
Print Assumptions checker_reads_in_bounds.

(* ... and the strict checker is not vacuously total: on instruction lists that did not go
   through MIR_new_insn_arr, on the pre-C15-3 jcall table index and on a ret with more operands
   than results (which the header check excludes) it does report the out-of-bounds read. *)
Theorem strict_checker_detects_out_of_bounds :
  s_check_header {| f_vararg := false; f_res := []; f_regs := []; f_nvars := 0; f_nglobals := 0 |}
                 false false [{| i_code := MOV; i_ops := [] |}] {| i_code := BO; i_ops := [OLabel] |} = None
  /\ s_cell JCALL 5 = None
  /\ s_expected_of [] {| f_vararg := false; f_res := []; f_regs := []; f_nvars := 0; f_nglobals := 0 |}
                   RET [OInt 0] 0 = None.
Proof. exact strict_detects_oob. Qed.
Print Assumptions strict_checker_detects_out_of_bounds.

(* "with a specific error code", instructions with a variable number of operands.
   ret: a ret with the right operand count that is rejected is rejected with the code of the
   violation class of an operand that does not denote a value of its result type's class. *)
Theorem ret_error_code_specific : forall unspec fc ops e, fc_wf fc -> res_types_ok fc = true ->
  length ops = length (f_res fc) ->
  check_ops unspec fc {| i_code := RET; i_ops := ops |} = Err e ->
  exists j t k o v, nth_error (f_res fc) j = Some t /\ vclass_of_type t = Some k /\ nth_error ops j = Some o
                    /\ has_class (shape_of fc o) k = false
                    /\ doc_violation (CIn k) (shape_of fc o) = Some v /\ e = code_of_violation v.
Proof. exact ret_error_code_specific_lemma. Qed.
Print Assumptions ret_error_code_specific.

(* switch: MIR_ops_num_error below two operands; otherwise the violation code of the index operand
   (an integer value) or of an operand that is not a label. *)
Theorem switch_error_code_specific : forall unspec fc ops e, fc_wf fc ->
  bind (check_new_insn unspec SWITCH ops) (fun _ => check_ops unspec fc {| i_code := SWITCH; i_ops := ops |}) = Err e ->
  (length ops < 2 /\ e = E_ops_num)
  \/ (2 <= length ops
      /\ exists j o v, nth_error ops j = Some o
           /\ doc_violation (if j =? 0 then CIn VInt else CLabel) (shape_of fc o) = Some v
           /\ e = code_of_violation v).
Proof. exact switch_error_code_specific_lemma. Qed.
Print Assumptions switch_error_code_specific.

(* call / inline / jcall at MIR_finish_func time, per operand position i >= 2 (creation-time codes:
   call_error_codes): the verdict is the code of the violation class the prototype implies there --
   result: an lvalue of the result type's class; scalar parameter: a value of its class; variable
   part: any valid operand; block memory (block parameter or variable part): negative size ->
   MIR_wrong_type_error, then the base / index violations. *)
Theorem call_position_error_code : forall code i s, is_call code = true -> 2 <= i -> shape_wf s = true ->
  (shape_blk s = true ->
     check_shape code i OP_INT false s = blk_pos_result s /\ check_shape code i OP_UNDEF false s = blk_pos_result s)
  /\ (shape_blk s = false ->
      check_shape code i OP_UNDEF false s = doc_pos_result CAny s
      /\ forall t k, vclass_of_type t = Some k ->
           check_shape code i (type2mode t) true s = doc_pos_result (COut k) s
           /\ check_shape code i (type2mode t) false s = doc_pos_result (CIn k) s).
Proof. exact VarErrProofs.call_position_error_code. Qed.
Print Assumptions call_position_error_code.

(* the called address, when it is not an item reference (those are skipped): an integer value *)
Theorem call_address_error_code : forall code s, is_call code = true -> shape_wf s = true ->
  match s with SRef _ => True | _ => check_shape code 1 OP_INT false s = doc_pos_result (CIn VInt) s end.
Proof. exact VarErrProofs.call_address_error_code. Qed.
Print Assumptions call_address_error_code.

(* A whole call / inline / jcall that MIR_new_insn_arr created and MIR_finish_func rejects: the code is
   that of the called address (not an integer value) or of an operand after it, whose class is what
   the prototype says about its position ([call_class]: result -> lvalue of the result class, scalar
   parameter -> value of its class, variable part -> any valid operand); for block memory (a block
   parameter or the variable part) the negative-size / base / index violation. *)
Theorem call_error_code_specific : forall unspec fc code p f rest e,
  is_call code = true -> fc_wf fc -> proto_wf p = true ->
  check_new_insn unspec code (ORef I_proto (Some p) :: f :: rest) = Ok tt ->
  check_ops unspec fc {| i_code := code; i_ops := ORef I_proto (Some p) :: f :: rest |} = Err e ->
  (skipped code 1 f = false /\ doc_pos_result (CIn VInt) (shape_of fc f) = Err e)
  \/ exists k o, nth_error rest k = Some o
       /\ ((op_is_blk o = true /\ blk_pos_result (shape_of fc o) = Err e)
           \/ (op_is_blk o = false
               /\ exists cls, call_class p k = Some cls /\ doc_pos_result cls (shape_of fc o) = Err e)).
Proof. exact call_error_code_specific_lemma. Qed.
Print Assumptions call_error_code_specific.

(* Property C16 (partial): whole-function code generation leaves the MIR function intact and can
   be repeated.  Proved here: the duplicate / edit / restore protocol of mir.c:2715-2812 and the
   already-generated early return of generate_func_code, for EVERY script of generator edits on the
   working copy.  Model boundary (stated, not proved of mir-gen.c): the generator edits only the
   working list func->insns, registers it creates itself, and the current label fields of lrefs --
   exactly the edit language of GenProtocol.v.  That the 10k-line generator stays inside this
   language is checked by running it (checks/c16.py), not by proof.
   This file holds only the property theorems, each closed by [exact] and followed by
   Print Assumptions. *)
From Coq Require Import List ZArith.
From MirV Require Import C16.GenProtocol C16.GenProtocolProofs.

(* What MIR_output_item, the interpreter and the inliner read of a function -- the very same
   instruction objects in the same order, vars, register tables, lref labels -- is the same after
   duplicate; any edit script; restore. *)
Theorem gen_preserves_function : forall f s, wf f -> view (restore (mutate s (dup f))) = view f.
Proof. exact gen_preserves_view. Qed.
Print Assumptions gen_preserves_function.

(* Field by field: nothing but the identity allocator differs (original_insns empty again,
   original_vars_num = number of vars, orig_label fields cleared, machine_code untouched). *)
Theorem restore_exact : forall f s, wf f ->
  restore (mutate s (dup f))
  = mkfunc (insns f) nil (vars f) (length (vars f)) (gvars f) (regtab f) (lrefs f)
           (next_id (mutate s (dup f))) (machine_code f) (call_addr f) (faddr f).
Proof. exact restore_mutate_dup. Qed.
Print Assumptions restore_exact.

(* While the generator works, every register -- the function's own variables, its hard-register-tied
   global variables and the generator's temporaries -- has its own number and its own name: a
   temporary (numbered vars + 1 + global_vars as new_func_reg does) never aliases an existing register,
   and the original table entries stay where they were. *)
Theorem gen_temp_regs_never_alias : forall f s, wf f ->
  NoDup (map snd (regtab (mutate s (dup f)))) /\ NoDup (reg_names (mutate s (dup f)))
  /\ gvars (mutate s (dup f)) = gvars f
  /\ exists added, regtab (mutate s (dup f)) = regtab f ++ added.
Proof. exact working_regs_distinct. Qed.
Print Assumptions gen_temp_regs_never_alias.

(* The working copy the generator gets is a faithful copy whose label operands and lrefs denote
   labels of the copy itself, all with fresh identities: edits of func->insns cannot reach the
   saved list through a label. *)
Theorem dup_working_copy_closed : forall f, wf f ->
  (forall i r, In i (insns (dup f)) -> In r (refs i) -> In r (label_ids (insns (dup f))))
  /\ (forall l, In l (lrefs (dup f)) ->
        In (l_label l) (label_ids (insns (dup f)))
        /\ (forall x, l_label2 l = Some x -> In x (label_ids (insns (dup f)))))
  /\ (forall i, In i (insns (dup f)) -> next_id f <= iid i < next_id (dup f))
  /\ map (fun i => (is_label i, payload i)) (insns (dup f)) = map (fun i => (is_label i, payload i)) (insns f)
  /\ original_insns (dup f) = insns f.
Proof. exact GenProtocolProofs.dup_working_copy_closed. Qed.
Print Assumptions dup_working_copy_closed.

(* MIR_gen keeps the view and leaves a function that can be generated/interpreted/inlined again. *)
Theorem gen_preserves_and_repeatable : forall f s code, wf f ->
  view (fst (gen s code f)) = view f /\ wf (fst (gen s code f)).
Proof. exact gen_preserves. Qed.
Print Assumptions gen_preserves_and_repeatable.

(* Asking again for the code of a generated function changes nothing at all and returns the same
   address (item->addr), whatever the generator would have done or wherever it would have put code. *)
Theorem gen_idempotent_addr : forall f s1 c1 s2 c2, wf f ->
  gen s2 c2 (fst (gen s1 c1 f)) = (fst (gen s1 c1 f), snd (gen s1 c1 f))
  /\ snd (gen s1 c1 f) = faddr f.
Proof. exact gen_idempotent. Qed.
Print Assumptions gen_idempotent_addr.

(* Functions may be generated in any order; generating one leaves the others untouched. *)
Theorem gen_any_order : forall p i j si ci sj cj, i <> j ->
  gen_at (gen_at p i si ci) j sj cj = gen_at (gen_at p j sj cj) i si ci.
Proof. exact GenProtocolProofs.gen_any_order. Qed.
Print Assumptions gen_any_order.

Theorem gen_leaves_other_functions : forall p i s c j, i <> j ->
  nth_error (gen_at p i s c) j = nth_error p j.
Proof. exact gen_at_others. Qed.
Print Assumptions gen_leaves_other_functions.

(* insn->data, the scratch pointer every engine uses (anchor: finish_func_interpretation / generate_icode
   reset it): preparing a function for interpretation leaves none behind, MIR_copy_insn copies the
   field, so the generator's working copy and the body an inlining caller receives are clean exactly
   when the function is -- and therefore, after ANY history of interpretation and whole-function
   generation of a function, in any order and any number of times, the function shows the original view,
   is well formed, and both copies are clean (what build_func_cfg relies on). *)
Theorem interpretation_leaves_no_data : forall f,
  clean (insns (icode_prepare f)) /\ clean (insns (finish_interp f))
  /\ (clean (insns f) -> icode_prepare f = f).
Proof.
  intros f. split; [apply icode_prepare_clean|]. split; [apply finish_interp_clean|apply icode_prepare_id].
Qed.
Print Assumptions interpretation_leaves_no_data.

Theorem copies_clean_iff_function_clean : forall f base,
  (clean (insns f) <-> clean (insns (dup f))) /\ (clean (insns f) <-> clean (inline_copy f base)).
Proof. intros f base. split; [apply dup_working_copy_clean|apply inline_copy_clean]. Qed.
Print Assumptions copies_clean_iff_function_clean.

Theorem gen_and_interp_in_any_order : forall f ops,
  wf f -> clean (insns f) ->
  let f' := fold_left hstep ops f in
  wf f' /\ view f' = view f /\ clean (insns (dup f')) /\ forall base, clean (inline_copy f' base).
Proof. exact any_history_keeps_function. Qed.
Print Assumptions gen_and_interp_in_any_order.

(* ---- non-vacuity ---- *)
Import ListNotations.
Local Open Scope Z_scope.
Definition ex_f : func :=
  mkfunc [mkinsn 0 false 11 [] false; mkinsn 1 true 0 [] false; mkinsn 2 false 12 [1%nat; 4%nat] false;
          mkinsn 3 false 13 [] false; mkinsn 4 true 0 [] false; mkinsn 5 false 14 [] false]
         [] [100; 101; 102] 0 [150]                       (* 150: a variable tied to a hard register *)
         [(100, 1%nat); (150, 2%nat); (101, 3%nat); (102, 4%nat)]   (* declared between 100 and 101 *)
         [mklref 1 (Some 4%nat) None None] 6 None None 4096.
Example ex_f_wf : wf ex_f.
Proof.
  unfold wf, ex_f; cbn. repeat split; auto.
  - repeat constructor; cbn; intuition discriminate.
  - intros i [<-|[<-|[<-|[<-|[<-|[<-|[]]]]]]]; cbn; auto with arith.
  - intros i r [<-|[<-|[<-|[<-|[<-|[<-|[]]]]]]]; cbn; intuition.
  - destruct H as [<-|[]]. cbn. auto.
  - destruct H as [<-|[]]. cbn. intros x Hx. inversion Hx. auto.
  - destruct H as [<-|[]]. reflexivity.
  - destruct H as [<-|[]]. reflexivity.
  - intros i [<-|[<-|[<-|[<-|[<-|[<-|[]]]]]]]; cbn; auto.
  - repeat constructor; cbn; intuition discriminate.
  - intros v [<-|[<-|[<-|[]]]]; cbn; auto.
  - repeat constructor; cbn; intuition discriminate.
  - intros p [<-|[<-|[<-|[<-|[]]]]]; cbn; auto with arith.
Qed.
Example ex_f_clean : clean (insns ex_f).
Proof. apply clean_b_spec. reflexivity. Qed.
(* the loop at the end of generate_icode is needed: without it (icode_mark alone, the code before /repo
   e40fd49f) the generator's working copy and an inlined body carry the interpreter's data *)
Example ex_stale_data_without_the_reset :
  ~ clean (insns (dup (icode_mark ex_f))) /\ ~ clean (inline_copy (icode_mark ex_f) 100).
Proof.
  split; intros H; apply clean_b_spec in H; vm_compute in H; discriminate.
Qed.
Example ex_history :
  let f' := fold_left hstep [HPrepare; HGen [EAddVar 200; ERemove 3] 8192; HPrepare; HGen [] 4; HFinishInterp] ex_f in
  view f' = view ex_f /\ machine_code f' = Some 8192.
Proof. vm_compute. split; reflexivity. Qed.
Definition ex_script : list edit :=
  [EAddVar 200; EInsert 0 false 77 [7%nat]; ERemove 3; ERewrite 2 99 [10%nat]; EAddVar 100;
   EAddVar 201; EMove 1 4; ERetarget 0 10 None; EInsert 2 true 0 []].
Example ex_gen_changes_working_copy_but_not_view :
  view (mutate ex_script (dup ex_f)) <> view ex_f
  /\ view (fst (gen ex_script 8192 ex_f)) = view ex_f
  /\ machine_code (fst (gen ex_script 8192 ex_f)) = Some 8192
  (* the generator's temporaries 200, 201 got numbers 5 and 6: past the global's number 2, which a
     position-based numbering (vars + 1) would have reused for... 4 = the number of variable 102 *)
  /\ regtab (mutate ex_script (dup ex_f))
     = [(100, 1%nat); (150, 2%nat); (101, 3%nat); (102, 4%nat); (200, 5%nat); (201, 6%nat)].
Proof. split; [vm_compute; discriminate|split; [|split]; vm_compute; reflexivity]. Qed.

(* Property C17, source tie: facts over the call-site lists regenerated from the current tree by
   tools/tr_c17_sites.py (coq/gen/C17Sites.v).  Only theorems closed by [exact]. *)
From Coq Require Import List String.
From MirV Require Import gen.C17Sites C17.Sites.
Local Open Scope string_scope.

(* In the library's objects (mir.c, mir-gen.c, c2mir.c at -O0, one section per function) the only
   references to malloc/calloc/realloc/free/mmap/munmap/mprotect/strdup/... are the seven default
   allocator callbacks, which MIR_init2 uses only when the user passes NULL. *)
Theorem no_direct_allocation_outside_defaults : forall x, In x direct_sites -> In x allowed_direct.
Proof. exact direct_sites_allowed. Qed.
Print Assumptions no_direct_allocation_outside_defaults.

(* MIR_realloc -- the one wrapper that reports an old size -- is referred to only by the VARR
   expand / tailor instantiations, i.e. by the code modelled in C19/Varr.v whose realloc events carry
   the true old capacity (varr_traces_accepted in Properties_C17.v). *)
Theorem realloc_only_from_varr_resize : forall u f, In (u, f) realloc_callers -> is_varr_resize f = true.
Proof. exact realloc_callers_varr. Qed.
Print Assumptions realloc_only_from_varr_resize.

(* the allocator callbacks are called through a pointer only inside the wrapper headers *)
Theorem callbacks_only_in_wrapper_headers :
  forall f c, In (f, c) callback_uses -> f = "mir-alloc.h" \/ f = "mir-code-alloc.h".
Proof. exact callback_uses_wrappers. Qed.
Print Assumptions callbacks_only_in_wrapper_headers.

(* Non-vacuity of the three facts above on the current tree: the regenerated lists contain the seven default
   callbacks' libc calls, at least one VARR resize function calling MIR_realloc, and the callback uses of both
   wrapper headers -- a translator that silently saw nothing would fail here. *)
Theorem site_lists_not_vacuous :
  (forall x, In x allowed_direct -> In x direct_sites) /\ realloc_callers <> nil /\
  (forall c, In c ("malloc" :: "calloc" :: "realloc" :: "free" :: nil) -> In ("mir-alloc.h", c) callback_uses) /\
  (forall c, In c ("mem_map" :: "mem_unmap" :: "mem_protect" :: nil) -> In ("mir-code-alloc.h", c) callback_uses).
Proof. exact sites_seen. Qed.
Print Assumptions site_lists_not_vacuous.

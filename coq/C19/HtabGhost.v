(* C19, round 2: free_func == NULL.  mir-htab.h guards every call of the free function with
   "if (htab->free_func != NULL)"; the model (Htab.v) is of a table created WITH a free function and
   records the calls in the ghost field [flog].  This file proves that [flog] is indeed ghost: no
   operation ever reads it, so two tables that differ only in their free log produce the same return
   values, the same *res, the same contents and the same layout forever.  A table created with
   HTAB_CREATE (free_func == NULL) is therefore the model with the log erased after every step, and
   every theorem about found / *res / contents / els_num carries over unchanged. *)
From Coq Require Import List NArith Bool Arith Lia.
Import ListNotations.
From MirV Require Import C19.Varr C19.Htab C19.HtabProofs.

Section Ghost.
Variable A : Type.
Variable hashf : A -> N.
Variable eqf : A -> A -> bool.

Notation htab := (htab A).

Definition erase (h : htab) : htab :=
  {| entries := entries h; els := els h; h_els_num := h_els_num h; els_start := els_start h;
     els_bound := els_bound h; collisions := collisions h; flog := [] |}.

(* equal except for the free log *)
Definition same (h1 h2 : htab) : Prop := erase h1 = erase h2.

Lemma same_fields h1 h2 : same h1 h2 ->
  entries h1 = entries h2 /\ els h1 = els h2 /\ h_els_num h1 = h_els_num h2 /\ els_start h1 = els_start h2
  /\ els_bound h1 = els_bound h2 /\ collisions h1 = collisions h2.
Proof. unfold same, erase. intros H. injection H. auto 10. Qed.

Lemma fields_same h1 h2 :
  entries h1 = entries h2 -> els h1 = els h2 -> h_els_num h1 = h_els_num h2 -> els_start h1 = els_start h2 ->
  els_bound h1 = els_bound h2 -> collisions h1 = collisions h2 -> same h1 h2.
Proof. unfold same, erase. intros -> -> -> -> -> ->. reflexivity. Qed.

Definition same3 (r1 r2 : option (htab * bool * option A)) : Prop :=
  match r1, r2 with
  | Some (h1, f1, x1), Some (h2, f2, x2) => same h1 h2 /\ f1 = f2 /\ x1 = x2
  | None, None => True
  | _, _ => False
  end.

Lemma probe_ghost : forall fuel h1 h2 x hash act mask ind peterb fd res, same h1 h2 ->
  same3 (probe A eqf fuel h1 x hash act mask ind peterb fd res)
        (probe A eqf fuel h2 x hash act mask ind peterb fd res).
Proof.
  induction fuel as [|f IH]; intros h1 h2 x hash act mask ind peterb fd res Hs; [exact I|].
  destruct (same_fields h1 h2 Hs) as (He & Hc & Hn & Hst & Hb & Hco).
  cbn [probe]. rewrite <- He, <- Hc, <- Hn, <- Hst, <- Hb, <- Hco.
  destruct (nth_error (entries h1) (N.to_nat ind)) as [[| |n]|]; [| | |exact I].
  - (* Empty *)
    destruct (is_ins act).
    + destruct (Nat.ltb (els_bound h1) (length (els h1))); [|exact I].
      cbn [same3]. split; [apply fields_same; reflexivity | split; reflexivity].
    + cbn [same3]. auto.
  - (* Deleted *)
    apply IH. apply fields_same; reflexivity.
  - destruct (nth_error (els h1) n) as [[[hh y]|]|]; [| exact I | exact I].
    destruct (N.eqb hh hash && eqf y x).
    + destruct act; cbn [same3]; (split; [try exact Hs; apply fields_same; reflexivity | split; reflexivity]).
    + apply IH. apply fields_same; reflexivity.
Qed.

Definition same2 (r1 r2 : option (htab * option A)) : Prop :=
  match r1, r2 with
  | Some (h1, x1), Some (h2, x2) => same h1 h2 /\ x1 = x2
  | None, None => True
  | _, _ => False
  end.

Lemma hdo_ghost : forall d h1 h2 x act res, same h1 h2 ->
  same3 (hdo A hashf eqf d h1 x act res) (hdo A hashf eqf d h2 x act res).
Proof.
  induction d as [|d IH]; intros h1 h2 x act res Hs; [exact I|].
  destruct (same_fields h1 h2 Hs) as (He & Hc & Hn & Hst & Hb & Hco).
  cbn [hdo]. rewrite <- He, <- Hc, <- Hst, <- Hb, <- Hco.
  set (step := fun (acc : option (htab * option A)) (i : nat) =>
                 match acc with
                 | None => None
                 | Some (hc, rc) =>
                   match nth_error (els hc) i with
                   | Some (Some (hh, y)) =>
                     if N.eqb hh 0 then Some (hc, rc)
                     else match hdo A hashf eqf d hc y Insert rc with
                          | Some (hc', _, rc') => Some (hc', rc')
                          | None => None
                          end
                   | _ => None
                   end
                 end).
  assert (Hfold : forall l a1 a2, same2 a1 a2 -> same2 (fold_left step l a1) (fold_left step l a2)).
  { induction l as [|i l IHl]; intros a1 a2 Ha; [exact Ha|]. cbn [fold_left]. apply IHl.
    destruct a1 as [[hc1 rc1]|], a2 as [[hc2 rc2]|]; try contradiction; [|exact I].
    destruct Ha as [Hh ->]. destruct (same_fields hc1 hc2 Hh) as (_ & Hc' & _).
    unfold step. rewrite <- Hc'.
    destruct (nth_error (els hc1) i) as [[[hh y]|]|]; [|exact I|exact I].
    destruct (N.eqb hh 0); [split; [exact Hh | reflexivity]|].
    pose proof (IH hc1 hc2 y Insert rc2 Hh) as Hr.
    destruct (hdo A hashf eqf d hc1 y Insert rc2) as [[[a b] c]|], (hdo A hashf eqf d hc2 y Insert rc2) as [[[a' b'] c']|];
      try contradiction; [|exact I].
    destruct Hr as (Hr1 & _ & Hr3). split; assumption. }
  destruct (is_ins act && Nat.eqb (els_bound h1) (length (els h1))).
  - match goal with
    | |- same3 (match fold_left _ ?l (Some (?a1, res)) with _ => _ end)
               (match fold_left _ _ (Some (?a2, res)) with _ => _ end) =>
        pose proof (Hfold l (Some (a1, res)) (Some (a2, res))) as Hf
    end.
    fold step.
    match type of Hf with ?P -> _ => assert (Hp : P) by (split; [apply fields_same; reflexivity | reflexivity]) end.
    specialize (Hf Hp). clear Hp.
    match type of Hf with same2 ?r1 ?r2 => destruct r1 as [[ha ra]|], r2 as [[hb rb]|] end;
      try contradiction; [|exact I].
    destruct Hf as [Hh ->]. destruct (same_fields ha hb Hh) as (He' & _).
    unfold probe_fuel. rewrite <- He'. apply probe_ghost. exact Hh.
  - unfold probe_fuel. rewrite <- He. apply probe_ghost. exact Hs.
Qed.

Lemma hforeach_ghost h1 h2 : same h1 h2 -> hforeach A h1 = hforeach A h2.
Proof. intros Hs. destruct (same_fields h1 h2 Hs) as (_ & Hc & _ & _ & Hb & _). unfold hforeach. now rewrite Hc, Hb. Qed.

Definition same_step (r1 r2 : option (htab * hout A)) : Prop :=
  match r1, r2 with
  | Some (h1, o1), Some (h2, o2) => same h1 h2 /\ o1 = o2
  | None, None => True
  | _, _ => False
  end.

Lemma hstep_ghost h1 h2 o : same h1 h2 -> same_step (hstep A hashf eqf h1 o) (hstep A hashf eqf h2 o).
Proof.
  intros Hs. destruct (same_fields h1 h2 Hs) as (He & Hc & Hn & Hst & Hb & Hco).
  destruct o as [act x| | | |]; cbn [hstep].
  - unfold hdo_top. pose proof (hdo_ghost 2 h1 h2 x act None Hs) as H.
    destruct (hdo A hashf eqf 2 h1 x act None) as [[[a b] c]|], (hdo A hashf eqf 2 h2 x act None) as [[[a' b'] c']|];
      try contradiction; [|exact I].
    destruct H as (H1 & -> & ->). split; [exact H1 | reflexivity].
  - unfold hclear. rewrite (hforeach_ghost h1 h2 Hs).
    destruct (hforeach A h2); [|exact I]. split; [|reflexivity].
    apply fields_same; cbn; try reflexivity; congruence.
  - split; [exact Hs | now rewrite Hn].
  - rewrite (hforeach_ghost h1 h2 Hs). destruct (hforeach A h2); [|exact I]. split; [exact Hs | reflexivity].
  - split; [exact Hs | now rewrite Hco].
Qed.

(* whole histories: the outputs and the final table (but for the log) do not depend on the log *)
Lemma hrun_ghost : forall ops h1 h2, same h1 h2 ->
  match hrun A hashf eqf h1 ops, hrun A hashf eqf h2 ops with
  | Some (h1', outs1), Some (h2', outs2) => same h1' h2' /\ outs1 = outs2
  | None, None => True
  | _, _ => False
  end.
Proof.
  induction ops as [|o ops IH]; intros h1 h2 Hs; [split; [exact Hs | reflexivity]|].
  cbn [hrun]. pose proof (hstep_ghost h1 h2 o Hs) as H.
  destruct (hstep A hashf eqf h1 o) as [[a b]|], (hstep A hashf eqf h2 o) as [[a' b']|]; try contradiction; [|exact I].
  destruct H as [Ha ->]. specialize (IH a a' Ha).
  destruct (hrun A hashf eqf a ops) as [[c e]|], (hrun A hashf eqf a' ops) as [[c' e']|]; try contradiction; [|exact I].
  destruct IH as [Hc ->]. split; [exact Hc | reflexivity].
Qed.

End Ghost.

(* htab_size_t / htab_hash_t are 32-bit: "ind = (5 * ind + peterb + 1) & mask" is computed modulo
   2^32 in C and without wrap in the model.  With mask = size - 1 = 2^k - 1, k <= 32, the two agree
   for ALL operands: the wrap-around of the probe index computation is irrelevant. *)
Lemma probe_index_wrap_irrelevant (ind peterb k : N) : (k <= 32)%N ->
  N.land ((5 * ind + peterb + 1) mod 2 ^ 32) (2 ^ k - 1) = N.land (5 * ind + peterb + 1) (2 ^ k - 1).
Proof.
  intros Hk. set (x := (5 * ind + peterb + 1)%N).
  replace (2 ^ k - 1)%N with (N.ones k) by (rewrite N.ones_equiv; apply N.pred_sub).
  rewrite !N.land_ones.
  replace (2 ^ 32)%N with (2 ^ k * 2 ^ (32 - k))%N by (rewrite <- N.pow_add_r; f_equal; lia).
  assert (H2k : (2 ^ k <> 0)%N) by (apply N.pow_nonzero; discriminate).
  assert (H2c : (2 ^ (32 - k) <> 0)%N) by (apply N.pow_nonzero; discriminate).
  rewrite N.mod_mul_r by assumption.
  rewrite (N.mul_comm (2 ^ k)), N.mod_add by assumption. apply N.mod_mod. assumption.
Qed.

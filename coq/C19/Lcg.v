(* Full period of the linear congruential map x -> 5x+1 modulo a power of two (Hull-Dobell).

   mir-htab.h probes with
       peterb >>= 11;  ind = (5 * ind + peterb + 1) & mask;       (mask = size - 1, size = 2^k)
   Once peterb has been shifted down to 0 the probe sequence is ind -> (5*ind + 1) mod 2^k.  The
   theorem [lcg5_full_period] shows that, from any start x0 < 2^k, the first 2^k iterates of that
   map visit every t < 2^k, so the probing reaches every entry of the table.

   Route: over Z, with p5 n = 5^n and geo n = 1 + 5 + ... + 5^(n-1),
     - the reduced iterate is congruent mod 2^k to  p5 n * x + geo n            [lcg5_iter_cong]
     - U (i+d) x - U i x = p5 i * (geo d * (4x+1))                              [lcg5_unreduced_diff]
     - 2^k | geo n  ->  2^k | n                                                 [geo_pow2_divide]
     - p5 i and 4x+1 are odd, so iterates i < j < 2^k are distinct              [lcg5_iter_distinct]
     - the 2^k first iterates are pairwise distinct and all < 2^k: pigeonhole   [lcg5_full_period]
   Everything stays symbolic in 2^k (no computation on N.to_nat (2^k)).  Standard library only. *)
From Coq Require Import NArith ZArith List Arith Lia Znumtheory.
Import ListNotations.

(* ------------------------------------------------------------------------------------------ *)
(* Powers of 5 and their partial sums, in Z.                                                    *)

Local Open Scope Z_scope.

Fixpoint p5 (n : nat) : Z :=
  match n with O => 1 | S n' => 5 * p5 n' end.

Fixpoint geo (n : nat) : Z :=
  match n with O => 0 | S n' => 5 * geo n' + 1 end.

Lemma p5_S : forall n, p5 (S n) = 5 * p5 n.
Proof. intros n. reflexivity. Qed.

Lemma geo_S : forall n, geo (S n) = 5 * geo n + 1.
Proof. intros n. reflexivity. Qed.

Lemma geo_closed : forall n, 4 * geo n = p5 n - 1.
Proof.
  induction n as [|n IH].
  - reflexivity.
  - rewrite p5_S, geo_S. lia.
Qed.

Lemma p5_add : forall i d, p5 (i + d) = p5 i * p5 d.
Proof.
  induction i as [|i IH]; intros d.
  - change (0 + d)%nat with d. change (p5 0) with 1. lia.
  - change (S i + d)%nat with (S (i + d)). rewrite !p5_S, IH. lia.
Qed.

Lemma geo_add : forall i d, geo (i + d) = p5 i * geo d + geo i.
Proof.
  induction i as [|i IH]; intros d.
  - change (0 + d)%nat with d. change (p5 0) with 1. change (geo 0) with 0. lia.
  - change (S i + d)%nat with (S (i + d)). rewrite p5_S, !geo_S, IH. lia.
Qed.

Lemma geo_double : forall m, geo (m + m) = geo m * (p5 m + 1).
Proof. intros m. rewrite geo_add. lia. Qed.

(* 5^n = 1 (mod 4); in particular 5^n is odd and 5^n + 1 = 2 * odd. *)
Lemma p5_mod4 : forall n, p5 n = 4 * geo n + 1.
Proof. intros n. pose proof (geo_closed n) as Hc. lia. Qed.

(* geo n = n (mod 2): every one of its n terms is odd. *)
Lemma geo_parity : forall n, exists q, geo n = Z.of_nat n + 2 * q.
Proof.
  induction n as [|n [q Hq]].
  - exists 0. reflexivity.
  - exists (2 * Z.of_nat n + 5 * q). rewrite geo_S, Nat2Z.inj_succ, Hq. lia.
Qed.

(* ------------------------------------------------------------------------------------------ *)
(* Divisibility by powers of two.                                                               *)

Lemma pow2_succ : forall k, 2 ^ Z.of_nat (S k) = 2 * 2 ^ Z.of_nat k.
Proof. intros k. rewrite Nat2Z.inj_succ, Z.pow_succ_r by lia. reflexivity. Qed.

Lemma pow2_pos : forall k, 0 < 2 ^ Z.of_nat k.
Proof. intros k. apply Z.pow_pos_nonneg; lia. Qed.

(* Gauss for 2^k against an odd factor. *)
Lemma pow2_divide_mul_odd : forall k a b,
  (2 ^ Z.of_nat k | a * (2 * b + 1)) -> (2 ^ Z.of_nat k | a).
Proof.
  induction k as [|k IH]; intros a b Hdiv.
  - change (2 ^ Z.of_nat 0) with 1. apply Z.divide_1_l.
  - rewrite pow2_succ in *. destruct Hdiv as [c Hc].
    set (P := 2 ^ Z.of_nat k) in *.
    set (a' := c * P - a * b).
    assert (Ha : a = 2 * a') by (unfold a'; lia).
    assert (Hdiv' : (P | a' * (2 * b + 1))).
    { exists c. rewrite Ha in Hc. lia. }
    apply IH in Hdiv'. destruct Hdiv' as [e He].
    exists e. rewrite Ha, He. lia.
Qed.

Lemma pow2_divide_odd_mul : forall k a b,
  (2 ^ Z.of_nat k | (2 * b + 1) * a) -> (2 ^ Z.of_nat k | a).
Proof.
  intros k a b Hdiv. apply (pow2_divide_mul_odd k a b). rewrite Z.mul_comm. exact Hdiv.
Qed.

(* Key lemma: 2^k | 1 + 5 + ... + 5^(n-1)  implies  2^k | n. *)
Lemma geo_pow2_divide : forall k n,
  (2 ^ Z.of_nat k | geo n) -> (2 ^ Z.of_nat k | Z.of_nat n).
Proof.
  induction k as [|k IH]; intros n Hdiv.
  - change (2 ^ Z.of_nat 0) with 1. apply Z.divide_1_l.
  - rewrite pow2_succ in *. destruct Hdiv as [c Hc].
    set (P := 2 ^ Z.of_nat k) in *.
    destruct (geo_parity n) as [q Hq].
    destruct (Nat.Even_or_Odd n) as [[m Hm]|[m Hm]].
    + assert (Hmm : n = (m + m)%nat) by lia.
      assert (Hdiv' : (P | geo m * (2 * geo m + 1))).
      { exists c. rewrite Hmm, geo_double, (p5_mod4 m) in Hc. lia. }
      apply pow2_divide_mul_odd in Hdiv'. apply IH in Hdiv'. destruct Hdiv' as [e He].
      exists e. rewrite Hmm, Nat2Z.inj_add, He. lia.
    + exfalso. rewrite Hm in Hq at 2. lia.
Qed.

(* ------------------------------------------------------------------------------------------ *)
(* The unreduced iterate  U n x = 5^n x + (1 + 5 + ... + 5^(n-1)).                              *)

Definition lcg5_unreduced (n : nat) (x : Z) : Z := p5 n * x + geo n.

Lemma lcg5_unreduced_S : forall n x, lcg5_unreduced (S n) x = 5 * lcg5_unreduced n x + 1.
Proof. intros n x. unfold lcg5_unreduced. rewrite p5_S, geo_S. lia. Qed.

Lemma lcg5_unreduced_diff : forall i d x,
  lcg5_unreduced (i + d) x - lcg5_unreduced i x = p5 i * (geo d * (2 * (2 * x) + 1)).
Proof.
  intros i d x. unfold lcg5_unreduced. rewrite p5_add, geo_add, (p5_mod4 d). lia.
Qed.

Lemma lcg5_unreduced_cong_divide : forall k i d x,
  (2 ^ Z.of_nat k | lcg5_unreduced (i + d) x - lcg5_unreduced i x) ->
  (2 ^ Z.of_nat k | Z.of_nat d).
Proof.
  intros k i d x Hdiv. rewrite lcg5_unreduced_diff in Hdiv.
  rewrite (p5_mod4 i) in Hdiv.
  replace (4 * geo i + 1) with (2 * (2 * geo i) + 1) in Hdiv by lia.
  apply pow2_divide_odd_mul in Hdiv. apply pow2_divide_mul_odd in Hdiv.
  apply geo_pow2_divide. exact Hdiv.
Qed.

(* Unreduced iterates i < j with j - i < 2^k are incongruent mod 2^k. *)
Lemma lcg5_unreduced_incong : forall k i d x,
  (0 < d)%nat -> Z.of_nat d < 2 ^ Z.of_nat k ->
  ~ (2 ^ Z.of_nat k | lcg5_unreduced (i + d) x - lcg5_unreduced i x).
Proof.
  intros k i d x Hd Hlt Hdiv. apply lcg5_unreduced_cong_divide in Hdiv.
  apply Z.divide_pos_le in Hdiv; lia.
Qed.

(* ------------------------------------------------------------------------------------------ *)
(* The reduced map on N.                                                                        *)

Local Open Scope N_scope.

Definition lcg5 (k : N) (x : N) : N := (5 * x + 1) mod 2 ^ k.

Lemma lcg5_iter_S : forall k n x,
  Nat.iter (S n) (lcg5 k) x = lcg5 k (Nat.iter n (lcg5 k) x).
Proof. intros k n x. reflexivity. Qed.

Lemma N_pow2_nonzero : forall k : N, 2 ^ k <> 0.
Proof. intros k. apply N.pow_nonzero. discriminate. Qed.

Lemma N_pow2_to_Z : forall k : N, Z.of_N (2 ^ k) = (2 ^ Z.of_nat (N.to_nat k))%Z.
Proof. intros k. rewrite N2Z.inj_pow, N_nat_Z. reflexivity. Qed.

Lemma lcg5_lt : forall k x, lcg5 k x < 2 ^ k.
Proof. intros k x. unfold lcg5. apply N.mod_lt. apply N_pow2_nonzero. Qed.

Lemma lcg5_iter_lt : forall k n x, x < 2 ^ k -> Nat.iter n (lcg5 k) x < 2 ^ k.
Proof.
  intros k n x Hx. destruct n as [|n].
  - exact Hx.
  - rewrite lcg5_iter_S. apply lcg5_lt.
Qed.

(* The reduced iterate is congruent to the unreduced one. *)
Lemma lcg5_iter_cong : forall k n x,
  exists q : Z,
    Z.of_N (Nat.iter n (lcg5 k) x) = (lcg5_unreduced n (Z.of_N x) + q * Z.of_N (2 ^ k))%Z.
Proof.
  intros k n x. induction n as [|n [q Hq]].
  - exists 0%Z. unfold lcg5_unreduced. change (p5 0) with 1%Z. change (geo 0) with 0%Z.
    change (Nat.iter 0 (lcg5 k) x) with x. lia.
  - rewrite lcg5_iter_S. set (y := Nat.iter n (lcg5 k) x) in *.
    unfold lcg5. rewrite N2Z.inj_mod, N2Z.inj_add, N2Z.inj_mul, lcg5_unreduced_S.
    change (Z.of_N 5) with 5%Z. change (Z.of_N 1) with 1%Z.
    set (M := Z.of_N (2 ^ k)) in *.
    assert (HM : (M <> 0)%Z).
    { unfold M. pose proof (N_pow2_nonzero k) as Hnz. lia. }
    pose proof (Z.div_mod (5 * Z.of_N y + 1) M HM) as Hdm.
    exists (5 * q - (5 * Z.of_N y + 1) / M)%Z.
    rewrite Hq in *. lia.
Qed.

(* Distinctness of the first 2^k iterates. *)
Lemma lcg5_iter_distinct : forall k x i j,
  (i < j)%nat -> N.of_nat j < 2 ^ k ->
  Nat.iter i (lcg5 k) x <> Nat.iter j (lcg5 k) x.
Proof.
  intros k x i j Hij Hj Heq.
  set (d := (j - i)%nat).
  assert (Hjd : j = (i + d)%nat) by (unfold d; lia).
  destruct (lcg5_iter_cong k i x) as [q1 H1].
  destruct (lcg5_iter_cong k j x) as [q2 H2].
  rewrite <- Heq, H1, Hjd in H2. rewrite N_pow2_to_Z in H2.
  apply (lcg5_unreduced_incong (N.to_nat k) i d (Z.of_N x)).
  - unfold d. lia.
  - rewrite <- N_pow2_to_Z. lia.
  - exists (q1 - q2)%Z. lia.
Qed.

Lemma lcg5_iter_inj : forall k x i j,
  N.of_nat i < 2 ^ k -> N.of_nat j < 2 ^ k ->
  Nat.iter i (lcg5 k) x = Nat.iter j (lcg5 k) x -> i = j.
Proof.
  intros k x i j Hi Hj Heq.
  destruct (Nat.lt_trichotomy i j) as [Hlt|[Hij|Hgt]].
  - exfalso. exact (lcg5_iter_distinct k x i j Hlt Hj Heq).
  - exact Hij.
  - exfalso. exact (lcg5_iter_distinct k x j i Hgt Hi (eq_sym Heq)).
Qed.

(* ------------------------------------------------------------------------------------------ *)
(* Pigeonhole.                                                                                  *)

Lemma NoDup_map_inj_on : forall (A B : Type) (f : A -> B) (l : list A),
  (forall a b, In a l -> In b l -> f a = f b -> a = b) -> NoDup l -> NoDup (map f l).
Proof.
  intros A B f l. induction l as [|a l IH]; intros Hinj Hnd; cbn [map].
  - constructor.
  - inversion Hnd as [|a' l' Hnotin Hnd' [Ha' Hl']]. constructor.
    + intro Hin. apply in_map_iff in Hin. destruct Hin as [b [Hb Hin]].
      assert (Hba : b = a).
      { apply Hinj; [right; exact Hin | left; reflexivity | exact Hb]. }
      rewrite Hba in Hin. exact (Hnotin Hin).
    + apply IH; [|exact Hnd']. intros x y Hx Hy. apply Hinj; right; assumption.
Qed.

(* The list of the first 2^k iterates from x. *)
Definition lcg5_orbit (k x : N) : list N :=
  map (fun n => Nat.iter n (lcg5 k) x) (seq 0 (N.to_nat (2 ^ k))).

(* All residues below 2^k. *)
Definition residues (k : N) : list N := map N.of_nat (seq 0 (N.to_nat (2 ^ k))).

Lemma residues_In : forall k t, In t (residues k) <-> t < 2 ^ k.
Proof.
  intros k t. unfold residues. rewrite in_map_iff. split.
  - intros [n [Hn Hin]]. apply in_seq in Hin. lia.
  - intros Ht. exists (N.to_nat t). split; [apply N2Nat.id|]. apply in_seq. lia.
Qed.

Lemma lcg5_orbit_length : forall k x, length (lcg5_orbit k x) = N.to_nat (2 ^ k).
Proof. intros k x. unfold lcg5_orbit. rewrite map_length, seq_length. reflexivity. Qed.

Lemma lcg5_orbit_NoDup : forall k x, NoDup (lcg5_orbit k x).
Proof.
  intros k x. unfold lcg5_orbit. apply NoDup_map_inj_on; [|apply seq_NoDup].
  intros a b Ha Hb Heq. apply in_seq in Ha. apply in_seq in Hb.
  apply (lcg5_iter_inj k x a b); [lia | lia | exact Heq].
Qed.

Lemma lcg5_orbit_incl_residues : forall k x, x < 2 ^ k -> incl (lcg5_orbit k x) (residues k).
Proof.
  intros k x Hx v Hv. unfold lcg5_orbit in Hv. apply in_map_iff in Hv.
  destruct Hv as [n [Hn _]]. apply residues_In. rewrite <- Hn. apply lcg5_iter_lt. exact Hx.
Qed.

Lemma lcg5_orbit_complete : forall k x, x < 2 ^ k -> incl (residues k) (lcg5_orbit k x).
Proof.
  intros k x Hx. apply NoDup_length_incl.
  - apply lcg5_orbit_NoDup.
  - rewrite lcg5_orbit_length. unfold residues. rewrite map_length, seq_length. apply le_n.
  - apply lcg5_orbit_incl_residues. exact Hx.
Qed.

Theorem lcg5_full_period_lcg5 : forall (k : N) (x0 t : N),
  x0 < 2 ^ k -> t < 2 ^ k ->
  exists n : nat, N.of_nat n < 2 ^ k /\ Nat.iter n (lcg5 k) x0 = t.
Proof.
  intros k x0 t Hx Ht.
  assert (Hin : In t (lcg5_orbit k x0)).
  { apply lcg5_orbit_complete; [exact Hx|]. apply residues_In. exact Ht. }
  unfold lcg5_orbit in Hin. apply in_map_iff in Hin. destruct Hin as [n [Hn Hs]].
  apply in_seq in Hs. exists n. split; [lia | exact Hn].
Qed.

(* Uniqueness of the index: together with the above, n -> f^n(x0) is a bijection
   between [0, 2^k) and [0, 2^k). *)
Theorem lcg5_full_period_unique : forall (k : N) (x0 : N) (n1 n2 : nat),
  N.of_nat n1 < 2 ^ k -> N.of_nat n2 < 2 ^ k ->
  Nat.iter n1 (fun x => (5 * x + 1) mod 2 ^ k) x0 =
  Nat.iter n2 (fun x => (5 * x + 1) mod 2 ^ k) x0 -> n1 = n2.
Proof. intros k x0 n1 n2. exact (lcg5_iter_inj k x0 n1 n2). Qed.

Theorem lcg5_full_period : forall (k : N) (x0 t : N),
  x0 < 2 ^ k -> t < 2 ^ k ->
  exists n : nat, N.of_nat n < 2 ^ k /\ Nat.iter n (fun x => (5 * x + 1) mod 2 ^ k) x0 = t.
Proof. exact lcg5_full_period_lcg5. Qed.

Print Assumptions lcg5_full_period.

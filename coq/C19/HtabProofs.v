(* Proofs about the model of mir-htab.h (Htab.v): refinement to an insertion-ordered association
   list, free function called exactly once per dropped element, termination of the probe loop
   (via Lcg.lcg5_full_period). *)
From Coq Require Import List ZArith NArith Bool Arith Lia.
Import ListNotations.
From MirV Require Import C19.Varr C19.VarrProofs C19.BitmapProofs C19.Htab C19.Lcg.

(* ------------------------------------------------------------------ generic list facts *)
Lemma nth_error_set_nth {A} (l : list A) i j x :
  nth_error (set_nth l i x) j = if Nat.eqb i j then (if Nat.ltb i (length l) then Some x else None) else nth_error l j.
Proof.
  revert i j; induction l as [|h t IH]; intros [|i] [|j]; simpl; auto.
  - destruct (Nat.eqb i j); reflexivity.
  - rewrite IH. destruct (Nat.eqb i j); auto.
Qed.

Lemma nth_error_set_nth_eq {A} (l : list A) i x : i < length l -> nth_error (set_nth l i x) i = Some x.
Proof. intros H. rewrite nth_error_set_nth, Nat.eqb_refl. destruct (Nat.ltb_spec i (length l)); auto; lia. Qed.

Lemma nth_error_set_nth_neq {A} (l : list A) i j x : i <> j -> nth_error (set_nth l i x) j = nth_error l j.
Proof. intros H. rewrite nth_error_set_nth. destruct (Nat.eqb_spec i j); auto; contradiction. Qed.

Lemma firstn_set_nth_lt {A} (l : list A) i n x : i < n ->
  firstn n (set_nth l i x) = set_nth (firstn n l) i x.
Proof. apply set_nth_firstn. Qed.

Lemma set_nth_split {A} (l : list A) i x c : nth_error l i = Some c ->
  l = firstn i l ++ c :: skipn (S i) l /\ set_nth l i x = firstn i l ++ x :: skipn (S i) l.
Proof.
  revert i; induction l as [|h t IH]; intros [|i] H; simpl in *; try discriminate.
  - inversion H; auto.
  - destruct (IH i H) as [E1 E2]. split; f_equal; auto.
Qed.

Lemma least_witness (P : nat -> Prop) (dec : forall n, {P n} + {~ P n}) :
  forall B, (exists j, j < B /\ P j) -> exists j, j < B /\ P j /\ forall j', j' < j -> ~ P j'.
Proof.
  induction B as [|B IH]; intros [j [Hj Hp]]; [lia|].
  assert (Hcase : (exists j0, j0 < B /\ P j0) \/ ~ (exists j0, j0 < B /\ P j0)).
  { clear -dec. induction B as [|B IHB].
    - right. intros [j0 [H _]]. lia.
    - destruct IHB as [[j0 [H1 H2]]|Hn].
      + left. exists j0. split; [lia|auto].
      + destruct (dec B) as [Hb|Hb].
        * left. exists B. split; [lia|auto].
        * right. intros [j0 [H1 H2]]. destruct (Nat.eq_dec j0 B) as [->|]; [contradiction|].
          apply Hn. exists j0. split; [lia|auto]. }
  destruct Hcase as [Hex|Hnone].
  - destruct (IH Hex) as [j0 [H0 [H1 H2]]]. exists j0. split; [lia|]. split; auto.
  - assert (j = B).
    { destruct (Nat.eq_dec j B); auto. exfalso. apply Hnone. exists j. split; [lia|auto]. }
    subst j. exists B. split; [lia|]. split; auto. intros j' Hj' Hp'. apply Hnone. exists j'. auto.
Qed.

Section HtabProofs.
Variable A : Type.
Variable hashf : A -> N.
Variable eqf : A -> A -> bool.
Hypothesis eqf_refl : forall x, eqf x x = true.
Hypothesis eqf_sym : forall x y, eqf x y = eqf y x.
Hypothesis eqf_trans : forall x y z, eqf x y = true -> eqf y z = true -> eqf x z = true.
Hypothesis eqf_hash : forall x y, eqf x y = true -> hashf x = hashf y.
Hypothesis hash_range : forall x, (hashf x < 2 ^ 32)%N.

Notation htab := (htab A).
Notation probe := (probe A eqf).
Notation hdo := (hdo A hashf eqf).
Notation H x := (bump (hashf x)).

(* ------------------------------------------------------------------ the probe loop = finish . scan *)
Inductive outcome :=
| OFound (e n : nat) (hh : N) (y : A)       (* entry index, cell index, cell contents *)
| OEmpty (e : nat) (fd : option nat).       (* the empty entry, first_deleted_entry *)

Definition pstep (mask : N) (s : N * N) : N * N :=
  let pb' := N.shiftr (snd s) 11 in (N.land (5 * fst s + pb' + 1) mask, pb').

Fixpoint scan (fuel : nat) (ents : list slot) (cells : list (option (N * A))) (x : A) (hash mask : N)
         (s : N * N) (fd : option nat) (c : N) : option (outcome * N) :=
  match fuel with
  | O => None
  | S f =>
    let e := N.to_nat (fst s) in
    match nth_error ents e with
    | None => None
    | Some Empty => Some (OEmpty e fd, c)
    | Some Deleted => scan f ents cells x hash mask (pstep mask s) (Some e) (c + 1)%N
    | Some (Ix n) =>
      match nth_error cells n with
      | Some (Some (hh, y)) =>
        if N.eqb hh hash && eqf y x then Some (OFound e n hh y, c)
        else scan f ents cells x hash mask (pstep mask s) fd (c + 1)%N
      | _ => None
      end
    end
  end.

Definition setc (h : htab) (c : N) : htab :=
  {| entries := entries h; els := els h; h_els_num := h_els_num h; els_start := els_start h;
     els_bound := els_bound h; collisions := c; flog := flog h |}.

Definition finish (h : htab) (x : A) (hash : N) (act : action) (res : option A) (o : outcome)
  : option (htab * bool * option A) :=
  match o with
  | OEmpty e fd =>
    if is_ins act then
      if Nat.ltb (els_bound h) (length (els h)) then
        let entry := match fd with Some d => d | None => e end in
        Some ({| entries := set_nth (entries h) entry (Ix (els_bound h));
                 els := set_nth (els h) (els_bound h) (Some (hash, x));
                 h_els_num := S (h_els_num h); els_start := els_start h; els_bound := S (els_bound h);
                 collisions := collisions h; flog := flog h |}, false, Some x)
      else None
    else Some (h, false, res)
  | OFound e n hh y =>
    match act with
    | Delete =>
      Some ({| entries := set_nth (entries h) e Deleted;
               els := set_nth (els h) n (Some (0%N, y));
               h_els_num := pred (h_els_num h); els_start := els_start h; els_bound := els_bound h;
               collisions := collisions h; flog := flog h ++ [y] |}, true, res)
    | Replace =>
      Some ({| entries := entries h;
               els := set_nth (els h) n (Some (hh, x));
               h_els_num := h_els_num h; els_start := els_start h; els_bound := els_bound h;
               collisions := collisions h; flog := flog h ++ [y] |}, true, Some x)
    | _ => Some (h, true, Some y)
    end
  end.

Lemma setc_id h : setc h (collisions h) = h.
Proof. destruct h; reflexivity. Qed.

Lemma probe_scan : forall fuel h x hash act mask s fd res,
  probe fuel h x hash act mask (fst s) (snd s) fd res =
  match scan fuel (entries h) (els h) x hash mask s fd (collisions h) with
  | None => None
  | Some (o, c) => finish (setc h c) x hash act res o
  end.
Proof.
  induction fuel as [|f IH]; intros h x hash act mask s fd res; [reflexivity|].
  cbn [Htab.probe scan].
  destruct (nth_error (entries h) (N.to_nat (fst s))) as [[| |n]|] eqn:E; try reflexivity.
  - rewrite setc_id. reflexivity.
  - specialize (IH (setc h (collisions h + 1)%N) x hash act mask (pstep mask s) (Some (N.to_nat (fst s))) res).
    exact IH.
  - destruct (nth_error (els h) n) as [[[hh y]|]|] eqn:E2; try reflexivity.
    destruct (N.eqb hh hash && eqf y x) eqn:E3.
    + rewrite setc_id. reflexivity.
    + specialize (IH (setc h (collisions h + 1)%N) x hash act mask (pstep mask s) fd res). exact IH.
Qed.

(* ------------------------------------------------------------------ the probe path *)
Fixpoint pstate (mask : N) (s : N * N) (j : nat) : N * N :=
  match j with O => s | S j' => pstate mask (pstep mask s) j' end.
Definition ppos (mask : N) (s : N * N) (j : nat) : nat := N.to_nat (fst (pstate mask s j)).
Definition pstart (mask hash : N) : N * N := (N.land hash mask, hash).

Definition matches (cells : list (option (N * A))) (x : A) (hash : N) (n : nat) : bool :=
  match nth_error cells n with Some (Some (hh, y)) => N.eqb hh hash && eqf y x | _ => false end.

Lemma scan_spec ents cells x hash mask :
  (forall p n, nth_error ents p = Some (Ix n) -> exists c, nth_error cells n = Some (Some c)) ->
  forall J s fd c fuel,
  nth_error ents (ppos mask s J) = Some Empty ->
  (forall j, j < J -> exists sl, nth_error ents (ppos mask s j) = Some sl /\ sl <> Empty) ->
  J < fuel ->
  exists o c', scan fuel ents cells x hash mask s fd c = Some (o, c') /\
   match o with
   | OFound e n hh y =>
     exists j, j < J /\ e = ppos mask s j /\ nth_error ents e = Some (Ix n) /\
               nth_error cells n = Some (Some (hh, y)) /\ hh = hash /\ eqf y x = true
   | OEmpty e fd' =>
     e = ppos mask s J /\
     (forall j n, j < J -> nth_error ents (ppos mask s j) = Some (Ix n) -> matches cells x hash n = false) /\
     (fd' = fd \/ exists j, j < J /\ fd' = Some (ppos mask s j) /\ nth_error ents (ppos mask s j) = Some Deleted)
   end.
Proof.
  intros Hdef. induction J as [|J IH]; intros s fd c fuel HE Hne Hfuel.
  - destruct fuel as [|f]; [lia|]. cbn [scan]. unfold ppos in HE. cbn [pstate] in HE. rewrite HE.
    exists (OEmpty (N.to_nat (fst s)) fd), c. split; [reflexivity|]. split; [reflexivity|]. split; [|auto].
    intros j n Hj. lia.
  - destruct fuel as [|f]; [lia|]. cbn [scan].
    destruct (Hne 0 ltac:(lia)) as [sl [Hsl Hnz]]. unfold ppos in Hsl. cbn [pstate] in Hsl. rewrite Hsl.
    assert (Hshift : forall j, ppos mask (pstep mask s) j = ppos mask s (S j)) by reflexivity.
    assert (HE' : nth_error ents (ppos mask (pstep mask s) J) = Some Empty) by (rewrite Hshift; exact HE).
    assert (Hne' : forall j, j < J -> exists sl, nth_error ents (ppos mask (pstep mask s) j) = Some sl /\ sl <> Empty).
    { intros j Hj. rewrite Hshift. apply Hne. lia. }
    destruct sl as [| |n]; [congruence| |].
    + destruct (IH (pstep mask s) (Some (N.to_nat (fst s))) (c + 1)%N f HE' Hne' ltac:(lia)) as [o [c' [Hs Ho]]].
      exists o, c'. split; [exact Hs|]. destruct o as [e n hh y|e fd'].
      * destruct Ho as [j [Hj [He Hrest]]]. exists (S j). split; [lia|]. rewrite <- Hshift. auto.
      * destruct Ho as [He [Hm Hfd]]. split; [rewrite <- Hshift; exact He|]. split.
        -- intros [|j] n Hj Hn.
           ++ unfold ppos in Hn. cbn [pstate] in Hn. congruence.
           ++ rewrite <- Hshift in Hn. apply (Hm j n); auto. lia.
        -- right. destruct Hfd as [->|[j [Hj [Hf Hd]]]].
           ++ exists 0. split; [lia|]. split; [reflexivity|]. exact Hsl.
           ++ exists (S j). split; [lia|]. rewrite <- Hshift. auto.
    + destruct (Hdef _ _ Hsl) as [[hh y] Hc]. rewrite Hc.
      destruct (N.eqb hh hash && eqf y x) eqn:Em.
      * exists (OFound (N.to_nat (fst s)) n hh y), c. split; [reflexivity|].
        exists 0. split; [lia|]. split; [reflexivity|]. split; [exact Hsl|]. split; [exact Hc|].
        apply andb_true_iff in Em. destruct Em as [E1 E2]. apply N.eqb_eq in E1. auto.
      * destruct (IH (pstep mask s) fd (c + 1)%N f HE' Hne' ltac:(lia)) as [o [c' [Hs Ho]]].
        exists o, c'. split; [exact Hs|]. destruct o as [e n' hh' y'|e fd'].
        -- destruct Ho as [j [Hj [He Hrest]]]. exists (S j). split; [lia|]. rewrite <- Hshift. auto.
        -- destruct Ho as [He [Hm Hfd]]. split; [rewrite <- Hshift; exact He|]. split.
           ++ intros [|j] n' Hj Hn.
              ** unfold ppos in Hn. cbn [pstate] in Hn. rewrite Hsl in Hn. inversion Hn; subst n'.
                 unfold matches. rewrite Hc. exact Em.
              ** rewrite <- Hshift in Hn. apply (Hm j n'); auto. lia.
           ++ destruct Hfd as [->|[j [Hj [Hf Hd]]]]; [left; reflexivity|].
              right. exists (S j). split; [lia|]. rewrite <- Hshift. auto.
Qed.

(* ------------------------------------------------------------------ the path visits every entry *)
Local Open Scope N_scope.

Lemma mask_ones k : 2 ^ k - 1 = N.ones k.
Proof. rewrite N.ones_equiv. lia. Qed.

Lemma land_mask_lt x k : N.land x (2 ^ k - 1) < 2 ^ k.
Proof. rewrite mask_ones, N.land_ones. apply N.mod_lt. apply N.pow_nonzero. lia. Qed.

Lemma pstate_add mask s a b : pstate mask s (a + b) = pstate mask (pstate mask s a) b.
Proof. revert s; induction a as [|a IH]; intros s; simpl; auto. Qed.

Lemma pstate_snd mask s j : snd (pstate mask s j) = N.shiftr (snd s) (11 * N.of_nat j).
Proof.
  revert s; induction j as [|j IH]; intros s.
  - reflexivity.
  - cbn [pstate]. rewrite IH. unfold pstep. cbn [snd]. rewrite N.shiftr_shiftr. f_equal. lia.
Qed.

Lemma pstate_fst_lt k s j : fst s < 2 ^ k -> fst (pstate (2 ^ k - 1) s j) < 2 ^ k.
Proof.
  revert s; induction j as [|j IH]; intros s Hs; [exact Hs|].
  cbn [pstate]. apply IH. unfold pstep. cbn [fst]. apply land_mask_lt.
Qed.

Lemma iter_comm {X} (f : X -> X) n x : Nat.iter n f (f x) = f (Nat.iter n f x).
Proof. induction n as [|n IH]; simpl; auto. rewrite IH. reflexivity. Qed.

Lemma pstate_lcg k i n :
  pstate (2 ^ k - 1) (i, 0) n = (Nat.iter n (fun x => (5 * x + 1) mod 2 ^ k) i, 0).
Proof.
  revert i; induction n as [|n IH]; intros i; [reflexivity|].
  cbn [pstate]. unfold pstep. cbn [fst snd]. rewrite N.shiftr_0_l.
  replace (N.land (5 * i + 0 + 1) (2 ^ k - 1)) with ((5 * i + 1) mod 2 ^ k)
    by (rewrite mask_ones, N.land_ones; f_equal; lia).
  rewrite IH.
  change ((5 * i + 1) mod 2 ^ k) with ((fun x => (5 * x + 1) mod 2 ^ k) i).
  rewrite iter_comm. reflexivity.
Qed.

Lemma path_covers k hash t : hash < 2 ^ 33 -> t < 2 ^ k ->
  exists j, N.of_nat j < 3 + 2 ^ k /\ fst (pstate (2 ^ k - 1) (pstart (2 ^ k - 1) hash) j) = t.
Proof.
  intros Hh Ht. set (mask := 2 ^ k - 1). set (s3 := pstate mask (pstart mask hash) 3).
  assert (H3 : snd s3 = 0).
  { unfold s3. rewrite pstate_snd. unfold pstart. cbn [snd]. apply N.shiftr_eq_0_iff.
    destruct (N.eq_dec hash 0) as [|Hnz]; [left; auto|right]. split; [lia|].
    apply N.log2_lt_pow2; [lia|]. exact Hh. }
  assert (Hi3 : fst s3 < 2 ^ k).
  { unfold s3, mask. apply pstate_fst_lt. unfold pstart. cbn [fst]. apply land_mask_lt. }
  destruct (lcg5_full_period k (fst s3) t Hi3 Ht) as [n [Hn Hit]].
  exists (3 + n)%nat. split; [lia|]. rewrite pstate_add. fold s3.
  replace s3 with (fst s3, 0) by (rewrite <- H3; destruct s3; reflexivity).
  unfold mask. rewrite pstate_lcg. cbn [fst]. exact Hit.
Qed.

Lemma bump_range x : H x < 2 ^ 33 /\ H x <> 0.
Proof.
  unfold bump. pose proof (hash_range x) as Hr. destruct (N.eqb_spec (hashf x) 0) as [E|E].
  - split; [reflexivity|discriminate].
  - split; [|exact E]. eapply N.lt_trans; [exact Hr|reflexivity].
Qed.
Local Close Scope N_scope.

(* ------------------------------------------------------------------ abstraction and invariant *)
Definition cell_at (h : htab) (n : nat) : option (N * A) :=
  match nth_error (els h) n with Some (Some c) => Some c | _ => None end.
Definition maskN (h : htab) : N := (N.of_nat (length (entries h)) - 1)%N.
Definition nonempty (s : slot) : bool := match s with Empty => false | _ => true end.

Fixpoint abs_cells (cells : list (option (N * A))) : list A :=
  match cells with
  | [] => []
  | Some (hh, y) :: r => if N.eqb hh 0 then abs_cells r else y :: abs_cells r
  | None :: r => abs_cells r
  end.
Definition absl (h : htab) : list A := abs_cells (firstn (els_bound h) (els h)).

Definition livec (h : htab) (n : nat) (hh : N) (y : A) : Prop :=
  n < els_bound h /\ cell_at h n = Some (hh, y) /\ hh <> 0%N.

Definition on_path (h : htab) (hash : N) (j : nat) : nat := ppos (maskN h) (pstart (maskN h) hash) j.

Record Inv (h : htab) : Prop := {
  inv_pow : exists k, N.of_nat (length (entries h)) = (2 ^ k)%N;
  inv_len : length (entries h) = 2 * length (els h);
  inv_start : els_start h = 0;
  inv_bound : els_bound h <= length (els h);
  inv_def : forall i, i < els_bound h -> exists c, nth_error (els h) i = Some (Some c);
  inv_ix : forall p n, nth_error (entries h) p = Some (Ix n) -> exists hh y, livec h n hh y;
  inv_inj : forall p q n, nth_error (entries h) p = Some (Ix n) -> nth_error (entries h) q = Some (Ix n) -> p = q;
  inv_reach : forall n hh y, livec h n hh y ->
      hh = H y /\ exists j, nth_error (entries h) (on_path h hh j) = Some (Ix n) /\
                            forall j', j' < j -> exists sl, nth_error (entries h) (on_path h hh j') = Some sl /\ sl <> Empty;
  inv_neq : forall n n' hh y hh' y', livec h n hh y -> livec h n' hh' y' -> n <> n' -> eqf y y' = false;
  inv_cnt : length (filter nonempty (entries h)) <= els_bound h;
  inv_num : h_els_num h = length (absl h)
}.

Lemma abs_cells_app a b : abs_cells (a ++ b) = abs_cells a ++ abs_cells b.
Proof.
  induction a as [|[[hh y]|] a IH]; simpl; auto. destruct (N.eqb hh 0); simpl; congruence.
Qed.

Lemma abs_cells_in cells y :
  In y (abs_cells cells) <-> exists i hh, nth_error cells i = Some (Some (hh, y)) /\ hh <> 0%N.
Proof.
  induction cells as [|c cells IH]; simpl.
  - split; [tauto|]. intros [[|i] [hh [Hc _]]]; discriminate.
  - split.
    + intros Hin. destruct c as [[hh y']|].
      * destruct (N.eqb_spec hh 0) as [E|E].
        -- apply IH in Hin. destruct Hin as [i [hh' [H1 H2]]]. exists (S i), hh'. auto.
        -- destruct Hin as [<-|Hin].
           ++ exists 0, hh. auto.
           ++ apply IH in Hin. destruct Hin as [i [hh' [H1 H2]]]. exists (S i), hh'. auto.
      * apply IH in Hin. destruct Hin as [i [hh' [H1 H2]]]. exists (S i), hh'. auto.
    + intros [[|i] [hh [H1 H2]]]; simpl in H1.
      * inversion H1; subst. destruct (N.eqb_spec hh 0); [contradiction|]. left. reflexivity.
      * assert (Hin : In y (abs_cells cells)) by (apply IH; exists i, hh; auto).
        destruct c as [[hh' y']|]; auto. destruct (N.eqb hh' 0); [auto|right; auto].
Qed.

Lemma nth_error_firstn_lt {X} (l : list X) n i : i < n -> nth_error (firstn n l) i = nth_error l i.
Proof.
  revert n i; induction l as [|x l IH]; intros [|n] [|i] Hi; simpl; auto; try lia.
  apply IH. lia.
Qed.

Lemma nth_error_firstn_ge {X} (l : list X) n i : n <= i -> nth_error (firstn n l) i = None.
Proof.
  intros Hi. apply nth_error_None. rewrite firstn_length. lia.
Qed.

Lemma nth_error_skipn {X} (l : list X) n i : nth_error (skipn n l) i = nth_error l (n + i).
Proof. revert l; induction n as [|n IH]; intros [|x l]; simpl; auto. destruct i; reflexivity. Qed.

Lemma absl_in h y : In y (absl h) <-> exists n hh, livec h n hh y.
Proof.
  unfold absl. rewrite abs_cells_in. split.
  - intros [i [hh [H1 H2]]]. exists i, hh.
    destruct (Nat.lt_ge_cases i (els_bound h)) as [Hlt|Hge].
    + rewrite nth_error_firstn_lt in H1 by auto. unfold livec, cell_at. rewrite H1. auto.
    + rewrite nth_error_firstn_ge in H1 by auto. discriminate.
  - intros [n [hh [H1 [H2 H3]]]]. exists n, hh. split; auto.
    rewrite nth_error_firstn_lt by auto. unfold cell_at in H2.
    destruct (nth_error (els h) n) as [[c|]|]; try discriminate. congruence.
Qed.

(* decomposition of the abstract list around a live cell *)
Lemma absl_split h n hh y : livec h n hh y ->
  exists c1 c2, firstn (els_bound h) (els h) = c1 ++ Some (hh, y) :: c2 /\ length c1 = n /\
                absl h = abs_cells c1 ++ y :: abs_cells c2 /\
                (forall c', firstn (els_bound h) (set_nth (els h) n c') = c1 ++ c' :: c2) /\
                (forall y', In y' (abs_cells c1 ++ abs_cells c2) -> exists n' hh', livec h n' hh' y' /\ n' <> n).
Proof.
  intros [H1 [H2 H3]]. set (pre := firstn (els_bound h) (els h)).
  assert (Hn : nth_error pre n = Some (Some (hh, y))).
  { unfold pre. rewrite nth_error_firstn_lt by auto. unfold cell_at in H2.
    destruct (nth_error (els h) n) as [[c|]|]; try discriminate. congruence. }
  exists (firstn n pre), (skipn (S n) pre).
  destruct (set_nth_split pre n (Some (hh, y)) _ Hn) as [E1 _].
  split; [exact E1|]. split.
  { rewrite firstn_length. assert (n < length pre) by (apply nth_error_Some; congruence). lia. }
  split.
  { unfold absl. fold pre. rewrite E1 at 1. rewrite abs_cells_app. simpl.
    destruct (N.eqb_spec hh 0); [contradiction|reflexivity]. }
  split.
  { intros c'. rewrite firstn_set_nth_lt by auto. fold pre.
    destruct (set_nth_split pre n c' _ Hn) as [_ E2]. exact E2. }
  intros y' Hin. apply in_app_or in Hin. destruct Hin as [Hin|Hin]; apply abs_cells_in in Hin;
    destruct Hin as [i [hh' [Hi1 Hi2]]].
  - assert (Hi : i < n).
    { destruct (Nat.lt_ge_cases i n); auto. rewrite nth_error_firstn_ge in Hi1 by auto. discriminate. }
    rewrite nth_error_firstn_lt in Hi1 by auto. unfold pre in Hi1.
    rewrite nth_error_firstn_lt in Hi1 by lia.
    exists i, hh'. split; [|lia]. unfold livec, cell_at. rewrite Hi1. split; [lia|auto].
  - rewrite nth_error_skipn in Hi1. unfold pre in Hi1.
    assert (Hi : S n + i < els_bound h).
    { destruct (Nat.lt_ge_cases (S n + i) (els_bound h)); auto.
      rewrite nth_error_firstn_ge in Hi1 by auto. discriminate. }
    rewrite nth_error_firstn_lt in Hi1 by auto.
    exists (S n + i), hh'. split; [|lia]. unfold livec, cell_at. rewrite Hi1. auto.
Qed.

(* association-list facts *)
Notation afind := (afind A eqf).
Notation areplace := (areplace A eqf).
Notation aremove := (aremove A eqf).

Lemma afind_none l x : (forall y, In y l -> eqf y x = false) -> afind l x = None.
Proof.
  induction l as [|y l IH]; intros Hall; simpl; auto.
  rewrite (Hall y) by (left; auto). apply IH. intros y' Hy'. apply Hall. right. auto.
Qed.

Lemma afind_mid l1 y l2 x : (forall y', In y' l1 -> eqf y' x = false) -> eqf y x = true ->
  afind (l1 ++ y :: l2) x = Some y.
Proof.
  induction l1 as [|z l1 IH]; intros Hall Hy; simpl.
  - rewrite Hy. reflexivity.
  - rewrite (Hall z) by (left; auto). apply IH; auto. intros y' Hy'. apply Hall. right. auto.
Qed.

Lemma areplace_mid l1 y l2 x : (forall y', In y' l1 -> eqf y' x = false) -> eqf y x = true ->
  areplace (l1 ++ y :: l2) x = l1 ++ x :: l2.
Proof.
  induction l1 as [|z l1 IH]; intros Hall Hy; simpl.
  - rewrite Hy. reflexivity.
  - rewrite (Hall z) by (left; auto). f_equal. apply IH; auto. intros y' Hy'. apply Hall. right. auto.
Qed.

Lemma aremove_mid l1 y l2 x : (forall y', In y' l1 -> eqf y' x = false) -> eqf y x = true ->
  aremove (l1 ++ y :: l2) x = l1 ++ l2.
Proof.
  induction l1 as [|z l1 IH]; intros Hall Hy; simpl.
  - rewrite Hy. reflexivity.
  - rewrite (Hall z) by (left; auto). f_equal. apply IH; auto. intros y' Hy'. apply Hall. right. auto.
Qed.

(* ------------------------------------------------------------------ what the probe loop finds *)
Lemma exists_empty (ents : list slot) : length (filter nonempty ents) < length ents ->
  exists p, nth_error ents p = Some Empty.
Proof.
  induction ents as [|s ents IH]; simpl; intros Hlt; [lia|].
  destruct s; simpl in Hlt.
  - exists 0. reflexivity.
  - destruct IH as [p Hp]; [lia|]. exists (S p). exact Hp.
  - destruct IH as [p Hp]; [lia|]. exists (S p). exact Hp.
Qed.

Lemma slot_eq_dec (a b : option slot) : {a = b} + {a <> b}.
Proof. decide equality. decide equality. apply Nat.eq_dec. Qed.

Lemma maskN_pow h k : N.of_nat (length (entries h)) = (2 ^ k)%N -> maskN h = (2 ^ k - 1)%N.
Proof. unfold maskN. intros ->. reflexivity. Qed.

Lemma on_path_lt h hash j : Inv h -> on_path h hash j < length (entries h).
Proof.
  intros Hi. destruct (inv_pow h Hi) as [k Hk]. unfold on_path, ppos. rewrite (maskN_pow h k Hk).
  assert (fst (pstate (2 ^ k - 1) (pstart (2 ^ k - 1) hash) j) < 2 ^ k)%N.
  { apply pstate_fst_lt. unfold pstart. cbn [fst]. apply land_mask_lt. }
  lia.
Qed.

Lemma first_empty h hash : Inv h -> (hash < 2 ^ 33)%N ->
  exists J, J < length (entries h) + 3 /\ nth_error (entries h) (on_path h hash J) = Some Empty /\
            forall j, j < J -> exists sl, nth_error (entries h) (on_path h hash j) = Some sl /\ sl <> Empty.
Proof.
  intros Hi Hh. destruct (inv_pow h Hi) as [k Hk].
  assert (Hlt : length (filter nonempty (entries h)) < length (entries h)).
  { pose proof (inv_cnt h Hi). pose proof (inv_bound h Hi). pose proof (inv_len h Hi).
    assert (0 < length (entries h)).
    { assert (2 ^ k <> 0)%N by (apply N.pow_nonzero; lia). lia. }
    lia. }
  destruct (exists_empty _ Hlt) as [p Hp].
  assert (Hpl : p < length (entries h)) by (apply nth_error_Some; congruence).
  destruct (path_covers k hash (N.of_nat p) Hh ltac:(lia)) as [j0 [Hj0 Hfst]].
  destruct (least_witness (fun j => nth_error (entries h) (on_path h hash j) = Some Empty)
              (fun j => slot_eq_dec _ _) (length (entries h) + 3)) as [J [HJ1 [HJ2 HJ3]]].
  { exists j0. split; [lia|]. unfold on_path, ppos. rewrite (maskN_pow h k Hk), Hfst.
    rewrite Nat2N.id. exact Hp. }
  exists J. split; [exact HJ1|]. split; [exact HJ2|]. intros j Hj.
  pose proof (on_path_lt h hash j Hi) as Hr.
  destruct (nth_error (entries h) (on_path h hash j)) as [sl|] eqn:E.
  - exists sl. split; auto. intros ->. apply (HJ3 j Hj). exact E.
  - apply nth_error_None in E. lia.
Qed.

Lemma cell_at_nth h n c : cell_at h n = Some c <-> nth_error (els h) n = Some (Some c).
Proof.
  unfold cell_at. destruct (nth_error (els h) n) as [[c'|]|]; split; intros E; try discriminate; congruence.
Qed.

Lemma probe_outcome h x : Inv h ->
  exists o c, scan (probe_fuel A h) (entries h) (els h) x (H x) (maskN h) (pstart (maskN h) (H x)) None (collisions h)
              = Some (o, c) /\
  match o with
  | OFound e n hh y => livec h n hh y /\ nth_error (entries h) e = Some (Ix n) /\ hh = H x /\ eqf y x = true
  | OEmpty e fd =>
    (forall n hh y, livec h n hh y -> eqf y x = false) /\
    nth_error (entries h) e = Some Empty /\
    (match fd with Some d => nth_error (entries h) d = Some Deleted | None => True end) /\
    exists j, on_path h (H x) j = (match fd with Some d => d | None => e end) /\
              forall j', j' < j -> exists sl, nth_error (entries h) (on_path h (H x) j') = Some sl /\ sl <> Empty
  end.
Proof.
  intros Hi. destruct (bump_range x) as [Hr Hnz].
  destruct (first_empty h (H x) Hi Hr) as [J [HJ1 [HJ2 HJ3]]].
  assert (Hdef : forall p n, nth_error (entries h) p = Some (Ix n) -> exists c, nth_error (els h) n = Some (Some c)).
  { intros p n Hp. destruct (inv_ix h Hi p n Hp) as [hh [y [_ [Hc _]]]]. exists (hh, y). apply cell_at_nth. exact Hc. }
  destruct (scan_spec (entries h) (els h) x (H x) (maskN h) Hdef J (pstart (maskN h) (H x)) None (collisions h)
              (probe_fuel A h) HJ2 HJ3) as [o [c [Hs Ho]]].
  { unfold probe_fuel. lia. }
  exists o, c. split; [exact Hs|]. destruct o as [e n hh y|e fd].
  - destruct Ho as [j [Hj [He [Hent [Hcell [Hhh Heq]]]]]].
    destruct (inv_ix h Hi e n Hent) as [hh' [y' [Hl1 [Hl2 Hl3]]]].
    apply cell_at_nth in Hl2. rewrite Hcell in Hl2. inversion Hl2; subst hh' y'.
    split; [|auto]. split; [exact Hl1|]. split; [apply cell_at_nth; exact Hcell|exact Hl3].
  - destruct Ho as [He [Hm Hfd]]. split.
    + intros n hh y Hl. destruct (eqf y x) eqn:Heq; [exfalso|reflexivity].
      destruct (inv_reach h Hi n hh y Hl) as [Hhh [jn [Hjn1 Hjn2]]].
      assert (Ehash : hh = H x). { rewrite Hhh. rewrite (eqf_hash y x Heq). reflexivity. }
      rewrite Ehash in Hjn1, Hjn2.
      destruct (Nat.lt_trichotomy jn J) as [Hlt|[Heq'|Hgt]].
      * specialize (Hm jn n Hlt Hjn1). unfold matches in Hm.
        destruct Hl as [_ [Hc _]]. apply cell_at_nth in Hc. rewrite Hc in Hm.
        rewrite Ehash, N.eqb_refl, Heq in Hm. discriminate.
      * subst jn. rewrite HJ2 in Hjn1. discriminate.
      * destruct (Hjn2 J Hgt) as [sl [Hsl Hne]]. rewrite HJ2 in Hsl. congruence.
    + split; [rewrite He; exact HJ2|]. split.
      * destruct Hfd as [->|[j [Hj [-> Hd]]]]; [exact I|exact Hd].
      * destruct Hfd as [->|[j [Hj [-> Hd]]]].
        -- exists J. split; [symmetry; exact He|]. exact HJ3.
        -- exists j. split; [reflexivity|]. intros j' Hj'. apply HJ3. lia.
Qed.
End HtabProofs.

(* Proofs about the model of mir-htab.h (Htab.v): refinement to an insertion-ordered association
   list, free function called exactly once per dropped element, termination of the probe loop
   (via Lcg.lcg5_full_period). *)
From Coq Require Import List ZArith NArith Bool Arith Lia Permutation.
Import ListNotations.
From MirV Require Import C19.Varr C19.VarrProofs C19.BitmapProofs C19.Htab C19.Lcg.

(* ------------------------------------------------------------------ generic list facts *)
Lemma nth_error_set_nth {A} (l : list A) i j x :
  nth_error (set_nth l i x) j = if Nat.eqb i j then (if Nat.ltb i (length l) then Some x else None) else nth_error l j.
Proof.
  revert i j; induction l as [|h t IH]; intros [|i] [|j]; simpl; auto.
  - destruct (Nat.eqb i j); reflexivity.
  - rewrite IH. destruct (Nat.eqb i j); auto.
Qed.

Lemma nth_error_set_nth_eq {A} (l : list A) i x : i < length l -> nth_error (set_nth l i x) i = Some x.
Proof. intros H. rewrite nth_error_set_nth, Nat.eqb_refl. destruct (Nat.ltb_spec i (length l)); auto; lia. Qed.

Lemma nth_error_set_nth_neq {A} (l : list A) i j x : i <> j -> nth_error (set_nth l i x) j = nth_error l j.
Proof. intros H. rewrite nth_error_set_nth. destruct (Nat.eqb_spec i j); auto; contradiction. Qed.

Lemma firstn_set_nth_lt {A} (l : list A) i n x : i < n ->
  firstn n (set_nth l i x) = set_nth (firstn n l) i x.
Proof. apply set_nth_firstn. Qed.

Lemma set_nth_split {A} (l : list A) i x c : nth_error l i = Some c ->
  l = firstn i l ++ c :: skipn (S i) l /\ set_nth l i x = firstn i l ++ x :: skipn (S i) l.
Proof.
  revert i; induction l as [|h t IH]; intros [|i] H; simpl in *; try discriminate.
  - inversion H; auto.
  - destruct (IH i H) as [E1 E2]. split; f_equal; auto.
Qed.

Lemma least_witness (P : nat -> Prop) (dec : forall n, {P n} + {~ P n}) :
  forall B, (exists j, j < B /\ P j) -> exists j, j < B /\ P j /\ forall j', j' < j -> ~ P j'.
Proof.
  induction B as [|B IH]; intros [j [Hj Hp]]; [lia|].
  assert (Hcase : (exists j0, j0 < B /\ P j0) \/ ~ (exists j0, j0 < B /\ P j0)).
  { clear -dec. induction B as [|B IHB].
    - right. intros [j0 [H _]]. lia.
    - destruct IHB as [[j0 [H1 H2]]|Hn].
      + left. exists j0. split; [lia|auto].
      + destruct (dec B) as [Hb|Hb].
        * left. exists B. split; [lia|auto].
        * right. intros [j0 [H1 H2]]. destruct (Nat.eq_dec j0 B) as [->|]; [contradiction|].
          apply Hn. exists j0. split; [lia|auto]. }
  destruct Hcase as [Hex|Hnone].
  - destruct (IH Hex) as [j0 [H0 [H1 H2]]]. exists j0. split; [lia|]. split; auto.
  - assert (j = B).
    { destruct (Nat.eq_dec j B); auto. exfalso. apply Hnone. exists j. split; [lia|auto]. }
    subst j. exists B. split; [lia|]. split; auto. intros j' Hj' Hp'. apply Hnone. exists j'. auto.
Qed.

Section HtabProofs.
Variable A : Type.
Variable hashf : A -> N.
Variable eqf : A -> A -> bool.
Hypothesis eqf_refl : forall x, eqf x x = true.
Hypothesis eqf_sym : forall x y, eqf x y = eqf y x.
Hypothesis eqf_trans : forall x y z, eqf x y = true -> eqf y z = true -> eqf x z = true.
Hypothesis eqf_hash : forall x y, eqf x y = true -> hashf x = hashf y.
Hypothesis hash_range : forall x, (hashf x < 2 ^ 32)%N.

Notation htab := (htab A).
Notation probe := (probe A eqf).
Notation hdo := (hdo A hashf eqf).
Notation H x := (bump (hashf x)).

(* ------------------------------------------------------------------ the probe loop = finish . scan *)
Inductive outcome :=
| OFound (e n : nat) (hh : N) (y : A)       (* entry index, cell index, cell contents *)
| OEmpty (e : nat) (fd : option nat).       (* the empty entry, first_deleted_entry *)

Definition pstep (mask : N) (s : N * N) : N * N :=
  let pb' := N.shiftr (snd s) 11 in (N.land (5 * fst s + pb' + 1) mask, pb').

Fixpoint scan (fuel : nat) (ents : list slot) (cells : list (option (N * A))) (x : A) (hash mask : N)
         (s : N * N) (fd : option nat) (c : N) : option (outcome * N) :=
  match fuel with
  | O => None
  | S f =>
    let e := N.to_nat (fst s) in
    match nth_error ents e with
    | None => None
    | Some Empty => Some (OEmpty e fd, c)
    | Some Deleted => scan f ents cells x hash mask (pstep mask s) (Some e) (c + 1)%N
    | Some (Ix n) =>
      match nth_error cells n with
      | Some (Some (hh, y)) =>
        if N.eqb hh hash && eqf y x then Some (OFound e n hh y, c)
        else scan f ents cells x hash mask (pstep mask s) fd (c + 1)%N
      | _ => None
      end
    end
  end.

Definition setc (h : htab) (c : N) : htab :=
  {| entries := entries h; els := els h; h_els_num := h_els_num h; els_start := els_start h;
     els_bound := els_bound h; collisions := c; flog := flog h |}.

Definition finish (h : htab) (x : A) (hash : N) (act : action) (res : option A) (o : outcome)
  : option (htab * bool * option A) :=
  match o with
  | OEmpty e fd =>
    if is_ins act then
      if Nat.ltb (els_bound h) (length (els h)) then
        let entry := match fd with Some d => d | None => e end in
        Some ({| entries := set_nth (entries h) entry (Ix (els_bound h));
                 els := set_nth (els h) (els_bound h) (Some (hash, x));
                 h_els_num := S (h_els_num h); els_start := els_start h; els_bound := S (els_bound h);
                 collisions := collisions h; flog := flog h |}, false, Some x)
      else None
    else Some (h, false, res)
  | OFound e n hh y =>
    match act with
    | Delete =>
      Some ({| entries := set_nth (entries h) e Deleted;
               els := set_nth (els h) n (Some (0%N, y));
               h_els_num := pred (h_els_num h); els_start := els_start h; els_bound := els_bound h;
               collisions := collisions h; flog := flog h ++ [y] |}, true, res)
    | Replace =>
      Some ({| entries := entries h;
               els := set_nth (els h) n (Some (hh, x));
               h_els_num := h_els_num h; els_start := els_start h; els_bound := els_bound h;
               collisions := collisions h; flog := flog h ++ [y] |}, true, Some x)
    | _ => Some (h, true, Some y)
    end
  end.

Lemma setc_id h : setc h (collisions h) = h.
Proof. destruct h; reflexivity. Qed.

Lemma probe_scan : forall fuel h x hash act mask s fd res,
  probe fuel h x hash act mask (fst s) (snd s) fd res =
  match scan fuel (entries h) (els h) x hash mask s fd (collisions h) with
  | None => None
  | Some (o, c) => finish (setc h c) x hash act res o
  end.
Proof.
  induction fuel as [|f IH]; intros h x hash act mask s fd res; [reflexivity|].
  cbn [Htab.probe scan].
  destruct (nth_error (entries h) (N.to_nat (fst s))) as [[| |n]|] eqn:E; try reflexivity.
  - rewrite setc_id. reflexivity.
  - specialize (IH (setc h (collisions h + 1)%N) x hash act mask (pstep mask s) (Some (N.to_nat (fst s))) res).
    exact IH.
  - destruct (nth_error (els h) n) as [[[hh y]|]|] eqn:E2; try reflexivity.
    destruct (N.eqb hh hash && eqf y x) eqn:E3.
    + rewrite setc_id. reflexivity.
    + specialize (IH (setc h (collisions h + 1)%N) x hash act mask (pstep mask s) fd res). exact IH.
Qed.

(* ------------------------------------------------------------------ the probe path *)
Fixpoint pstate (mask : N) (s : N * N) (j : nat) : N * N :=
  match j with O => s | S j' => pstate mask (pstep mask s) j' end.
Definition ppos (mask : N) (s : N * N) (j : nat) : nat := N.to_nat (fst (pstate mask s j)).
Definition pstart (mask hash : N) : N * N := (N.land hash mask, hash).

Definition matches (cells : list (option (N * A))) (x : A) (hash : N) (n : nat) : bool :=
  match nth_error cells n with Some (Some (hh, y)) => N.eqb hh hash && eqf y x | _ => false end.

Lemma scan_spec ents cells x hash mask :
  (forall p n, nth_error ents p = Some (Ix n) -> exists c, nth_error cells n = Some (Some c)) ->
  forall J s fd c fuel,
  nth_error ents (ppos mask s J) = Some Empty ->
  (forall j, j < J -> exists sl, nth_error ents (ppos mask s j) = Some sl /\ sl <> Empty) ->
  J < fuel ->
  exists o c', scan fuel ents cells x hash mask s fd c = Some (o, c') /\
   match o with
   | OFound e n hh y =>
     exists j, j < J /\ e = ppos mask s j /\ nth_error ents e = Some (Ix n) /\
               nth_error cells n = Some (Some (hh, y)) /\ hh = hash /\ eqf y x = true
   | OEmpty e fd' =>
     e = ppos mask s J /\
     (forall j n, j < J -> nth_error ents (ppos mask s j) = Some (Ix n) -> matches cells x hash n = false) /\
     (fd' = fd \/ exists j, j < J /\ fd' = Some (ppos mask s j) /\ nth_error ents (ppos mask s j) = Some Deleted)
   end.
Proof.
  intros Hdef. induction J as [|J IH]; intros s fd c fuel HE Hne Hfuel.
  - destruct fuel as [|f]; [lia|]. cbn [scan]. unfold ppos in HE. cbn [pstate] in HE. rewrite HE.
    exists (OEmpty (N.to_nat (fst s)) fd), c. split; [reflexivity|]. split; [reflexivity|]. split; [|auto].
    intros j n Hj. lia.
  - destruct fuel as [|f]; [lia|]. cbn [scan].
    destruct (Hne 0 ltac:(lia)) as [sl [Hsl Hnz]]. unfold ppos in Hsl. cbn [pstate] in Hsl. rewrite Hsl.
    assert (Hshift : forall j, ppos mask (pstep mask s) j = ppos mask s (S j)) by reflexivity.
    assert (HE' : nth_error ents (ppos mask (pstep mask s) J) = Some Empty) by (rewrite Hshift; exact HE).
    assert (Hne' : forall j, j < J -> exists sl, nth_error ents (ppos mask (pstep mask s) j) = Some sl /\ sl <> Empty).
    { intros j Hj. rewrite Hshift. apply Hne. lia. }
    destruct sl as [| |n]; [congruence| |].
    + destruct (IH (pstep mask s) (Some (N.to_nat (fst s))) (c + 1)%N f HE' Hne' ltac:(lia)) as [o [c' [Hs Ho]]].
      exists o, c'. split; [exact Hs|]. destruct o as [e n hh y|e fd'].
      * destruct Ho as [j [Hj [He Hrest]]]. exists (S j). split; [lia|]. rewrite <- Hshift. auto.
      * destruct Ho as [He [Hm Hfd]]. split; [rewrite <- Hshift; exact He|]. split.
        -- intros [|j] n Hj Hn.
           ++ unfold ppos in Hn. cbn [pstate] in Hn. congruence.
           ++ rewrite <- Hshift in Hn. apply (Hm j n); auto. lia.
        -- right. destruct Hfd as [->|[j [Hj [Hf Hd]]]].
           ++ exists 0. split; [lia|]. split; [reflexivity|]. exact Hsl.
           ++ exists (S j). split; [lia|]. rewrite <- Hshift. auto.
    + destruct (Hdef _ _ Hsl) as [[hh y] Hc]. rewrite Hc.
      destruct (N.eqb hh hash && eqf y x) eqn:Em.
      * exists (OFound (N.to_nat (fst s)) n hh y), c. split; [reflexivity|].
        exists 0. split; [lia|]. split; [reflexivity|]. split; [exact Hsl|]. split; [exact Hc|].
        apply andb_true_iff in Em. destruct Em as [E1 E2]. apply N.eqb_eq in E1. auto.
      * destruct (IH (pstep mask s) fd (c + 1)%N f HE' Hne' ltac:(lia)) as [o [c' [Hs Ho]]].
        exists o, c'. split; [exact Hs|]. destruct o as [e n' hh' y'|e fd'].
        -- destruct Ho as [j [Hj [He Hrest]]]. exists (S j). split; [lia|]. rewrite <- Hshift. auto.
        -- destruct Ho as [He [Hm Hfd]]. split; [rewrite <- Hshift; exact He|]. split.
           ++ intros [|j] n' Hj Hn.
              ** unfold ppos in Hn. cbn [pstate] in Hn. rewrite Hsl in Hn. inversion Hn; subst n'.
                 unfold matches. rewrite Hc. exact Em.
              ** rewrite <- Hshift in Hn. apply (Hm j n'); auto. lia.
           ++ destruct Hfd as [->|[j [Hj [Hf Hd]]]]; [left; reflexivity|].
              right. exists (S j). split; [lia|]. rewrite <- Hshift. auto.
Qed.

(* ------------------------------------------------------------------ the path visits every entry *)
Local Open Scope N_scope.

Lemma mask_ones k : 2 ^ k - 1 = N.ones k.
Proof. rewrite N.ones_equiv. lia. Qed.

Lemma land_mask_lt x k : N.land x (2 ^ k - 1) < 2 ^ k.
Proof. rewrite mask_ones, N.land_ones. apply N.mod_lt. apply N.pow_nonzero. lia. Qed.

Lemma pstate_add mask s a b : pstate mask s (a + b) = pstate mask (pstate mask s a) b.
Proof. revert s; induction a as [|a IH]; intros s; simpl; auto. Qed.

Lemma pstate_snd mask s j : snd (pstate mask s j) = N.shiftr (snd s) (11 * N.of_nat j).
Proof.
  revert s; induction j as [|j IH]; intros s.
  - reflexivity.
  - cbn [pstate]. rewrite IH. unfold pstep. cbn [snd]. rewrite N.shiftr_shiftr. f_equal. lia.
Qed.

Lemma pstate_fst_lt k s j : fst s < 2 ^ k -> fst (pstate (2 ^ k - 1) s j) < 2 ^ k.
Proof.
  revert s; induction j as [|j IH]; intros s Hs; [exact Hs|].
  cbn [pstate]. apply IH. unfold pstep. cbn [fst]. apply land_mask_lt.
Qed.

Lemma iter_comm {X} (f : X -> X) n x : Nat.iter n f (f x) = f (Nat.iter n f x).
Proof. induction n as [|n IH]; simpl; auto. rewrite IH. reflexivity. Qed.

Lemma pstate_lcg k i n :
  pstate (2 ^ k - 1) (i, 0) n = (Nat.iter n (fun x => (5 * x + 1) mod 2 ^ k) i, 0).
Proof.
  revert i; induction n as [|n IH]; intros i; [reflexivity|].
  cbn [pstate]. unfold pstep. cbn [fst snd]. rewrite N.shiftr_0_l.
  replace (N.land (5 * i + 0 + 1) (2 ^ k - 1)) with ((5 * i + 1) mod 2 ^ k)
    by (rewrite mask_ones, N.land_ones; f_equal; lia).
  rewrite IH.
  change ((5 * i + 1) mod 2 ^ k) with ((fun x => (5 * x + 1) mod 2 ^ k) i).
  rewrite iter_comm. reflexivity.
Qed.

Lemma path_covers k hash t : hash < 2 ^ 33 -> t < 2 ^ k ->
  exists j, N.of_nat j < 3 + 2 ^ k /\ fst (pstate (2 ^ k - 1) (pstart (2 ^ k - 1) hash) j) = t.
Proof.
  intros Hh Ht. set (mask := 2 ^ k - 1). set (s3 := pstate mask (pstart mask hash) 3).
  assert (H3 : snd s3 = 0).
  { unfold s3. rewrite pstate_snd. unfold pstart. cbn [snd]. apply N.shiftr_eq_0_iff.
    destruct (N.eq_dec hash 0) as [|Hnz]; [left; auto|right]. split; [lia|].
    apply N.log2_lt_pow2; [lia|]. exact Hh. }
  assert (Hi3 : fst s3 < 2 ^ k).
  { unfold s3, mask. apply pstate_fst_lt. unfold pstart. cbn [fst]. apply land_mask_lt. }
  destruct (lcg5_full_period k (fst s3) t Hi3 Ht) as [n [Hn Hit]].
  exists (3 + n)%nat. split; [lia|]. rewrite pstate_add. fold s3.
  replace s3 with (fst s3, 0) by (rewrite <- H3; destruct s3; reflexivity).
  unfold mask. rewrite pstate_lcg. cbn [fst]. exact Hit.
Qed.

Lemma bump_range x : H x < 2 ^ 33 /\ H x <> 0.
Proof.
  unfold bump. pose proof (hash_range x) as Hr. destruct (N.eqb_spec (hashf x) 0) as [E|E].
  - split; [reflexivity|discriminate].
  - split; [|exact E]. eapply N.lt_trans; [exact Hr|reflexivity].
Qed.
Local Close Scope N_scope.

(* ------------------------------------------------------------------ abstraction and invariant *)
Definition cell_at (h : htab) (n : nat) : option (N * A) :=
  match nth_error (els h) n with Some (Some c) => Some c | _ => None end.
Definition maskN (h : htab) : N := (N.of_nat (length (entries h)) - 1)%N.
Definition nonempty (s : slot) : bool := match s with Empty => false | _ => true end.

Fixpoint abs_cells (cells : list (option (N * A))) : list A :=
  match cells with
  | [] => []
  | Some (hh, y) :: r => if N.eqb hh 0 then abs_cells r else y :: abs_cells r
  | None :: r => abs_cells r
  end.
Definition absl (h : htab) : list A := abs_cells (firstn (els_bound h) (els h)).

Definition livec (h : htab) (n : nat) (hh : N) (y : A) : Prop :=
  n < els_bound h /\ cell_at h n = Some (hh, y) /\ hh <> 0%N.

Definition on_path (h : htab) (hash : N) (j : nat) : nat := ppos (maskN h) (pstart (maskN h) hash) j.

Record Inv (h : htab) : Prop := {
  inv_pow : exists k, N.of_nat (length (entries h)) = (2 ^ k)%N;
  inv_len : length (entries h) = 2 * length (els h);
  inv_start : els_start h = 0;
  inv_bound : els_bound h <= length (els h);
  inv_def : forall i, i < els_bound h -> exists c, nth_error (els h) i = Some (Some c);
  inv_ix : forall p n, nth_error (entries h) p = Some (Ix n) -> exists hh y, livec h n hh y;
  inv_inj : forall p q n, nth_error (entries h) p = Some (Ix n) -> nth_error (entries h) q = Some (Ix n) -> p = q;
  inv_reach : forall n hh y, livec h n hh y ->
      hh = H y /\ exists j, nth_error (entries h) (on_path h hh j) = Some (Ix n) /\
                            forall j', j' < j -> exists sl, nth_error (entries h) (on_path h hh j') = Some sl /\ sl <> Empty;
  inv_neq : forall n n' hh y hh' y', livec h n hh y -> livec h n' hh' y' -> n <> n' -> eqf y y' = false;
  inv_cnt : length (filter nonempty (entries h)) <= els_bound h;
  inv_num : h_els_num h = length (absl h)
}.

Lemma abs_cells_app a b : abs_cells (a ++ b) = abs_cells a ++ abs_cells b.
Proof.
  induction a as [|[[hh y]|] a IH]; simpl; auto. destruct (N.eqb hh 0); simpl; congruence.
Qed.

Lemma abs_cells_in cells y :
  In y (abs_cells cells) <-> exists i hh, nth_error cells i = Some (Some (hh, y)) /\ hh <> 0%N.
Proof.
  induction cells as [|c cells IH]; simpl.
  - split; [tauto|]. intros [[|i] [hh [Hc _]]]; discriminate.
  - split.
    + intros Hin. destruct c as [[hh y']|].
      * destruct (N.eqb_spec hh 0) as [E|E].
        -- apply IH in Hin. destruct Hin as [i [hh' [H1 H2]]]. exists (S i), hh'. auto.
        -- destruct Hin as [<-|Hin].
           ++ exists 0, hh. auto.
           ++ apply IH in Hin. destruct Hin as [i [hh' [H1 H2]]]. exists (S i), hh'. auto.
      * apply IH in Hin. destruct Hin as [i [hh' [H1 H2]]]. exists (S i), hh'. auto.
    + intros [[|i] [hh [H1 H2]]]; simpl in H1.
      * inversion H1; subst. destruct (N.eqb_spec hh 0); [contradiction|]. left. reflexivity.
      * assert (Hin : In y (abs_cells cells)) by (apply IH; exists i, hh; auto).
        destruct c as [[hh' y']|]; auto. destruct (N.eqb hh' 0); [auto|right; auto].
Qed.

Lemma nth_error_firstn_lt {X} (l : list X) n i : i < n -> nth_error (firstn n l) i = nth_error l i.
Proof.
  revert n i; induction l as [|x l IH]; intros [|n] [|i] Hi; simpl; auto; try lia.
  apply IH. lia.
Qed.

Lemma nth_error_firstn_ge {X} (l : list X) n i : n <= i -> nth_error (firstn n l) i = None.
Proof.
  intros Hi. apply nth_error_None. rewrite firstn_length. lia.
Qed.

Lemma nth_error_skipn {X} (l : list X) n i : nth_error (skipn n l) i = nth_error l (n + i).
Proof. revert l; induction n as [|n IH]; intros [|x l]; simpl; auto. destruct i; reflexivity. Qed.

Lemma absl_in h y : In y (absl h) <-> exists n hh, livec h n hh y.
Proof.
  unfold absl. rewrite abs_cells_in. split.
  - intros [i [hh [H1 H2]]]. exists i, hh.
    destruct (Nat.lt_ge_cases i (els_bound h)) as [Hlt|Hge].
    + rewrite nth_error_firstn_lt in H1 by auto. unfold livec, cell_at. rewrite H1. auto.
    + rewrite nth_error_firstn_ge in H1 by auto. discriminate.
  - intros [n [hh [H1 [H2 H3]]]]. exists n, hh. split; auto.
    rewrite nth_error_firstn_lt by auto. unfold cell_at in H2.
    destruct (nth_error (els h) n) as [[c|]|]; try discriminate. congruence.
Qed.

(* decomposition of the abstract list around a live cell *)
Lemma absl_split h n hh y : livec h n hh y ->
  exists c1 c2, firstn (els_bound h) (els h) = c1 ++ Some (hh, y) :: c2 /\ length c1 = n /\
                absl h = abs_cells c1 ++ y :: abs_cells c2 /\
                (forall c', firstn (els_bound h) (set_nth (els h) n c') = c1 ++ c' :: c2) /\
                (forall y', In y' (abs_cells c1 ++ abs_cells c2) -> exists n' hh', livec h n' hh' y' /\ n' <> n).
Proof.
  intros [H1 [H2 H3]]. set (pre := firstn (els_bound h) (els h)).
  assert (Hn : nth_error pre n = Some (Some (hh, y))).
  { unfold pre. rewrite nth_error_firstn_lt by auto. unfold cell_at in H2.
    destruct (nth_error (els h) n) as [[c|]|]; try discriminate. congruence. }
  exists (firstn n pre), (skipn (S n) pre).
  destruct (set_nth_split pre n (Some (hh, y)) _ Hn) as [E1 _].
  split; [exact E1|]. split.
  { rewrite firstn_length. assert (n < length pre) by (apply nth_error_Some; congruence). lia. }
  split.
  { unfold absl. fold pre. rewrite E1 at 1. rewrite abs_cells_app. simpl.
    destruct (N.eqb_spec hh 0); [contradiction|reflexivity]. }
  split.
  { intros c'. rewrite firstn_set_nth_lt by auto. fold pre.
    destruct (set_nth_split pre n c' _ Hn) as [_ E2]. exact E2. }
  intros y' Hin. apply in_app_or in Hin. destruct Hin as [Hin|Hin]; apply abs_cells_in in Hin;
    destruct Hin as [i [hh' [Hi1 Hi2]]].
  - assert (Hi : i < n).
    { destruct (Nat.lt_ge_cases i n); auto. rewrite nth_error_firstn_ge in Hi1 by auto. discriminate. }
    rewrite nth_error_firstn_lt in Hi1 by auto. unfold pre in Hi1.
    rewrite nth_error_firstn_lt in Hi1 by lia.
    exists i, hh'. split; [|lia]. unfold livec, cell_at. rewrite Hi1. split; [lia|auto].
  - rewrite nth_error_skipn in Hi1. unfold pre in Hi1.
    assert (Hi : S n + i < els_bound h).
    { destruct (Nat.lt_ge_cases (S n + i) (els_bound h)); auto.
      rewrite nth_error_firstn_ge in Hi1 by auto. discriminate. }
    rewrite nth_error_firstn_lt in Hi1 by auto.
    exists (S n + i), hh'. split; [|lia]. unfold livec, cell_at. rewrite Hi1. auto.
Qed.

(* association-list facts *)
Notation afind := (afind A eqf).
Notation areplace := (areplace A eqf).
Notation aremove := (aremove A eqf).

Lemma afind_none l x : (forall y, In y l -> eqf y x = false) -> afind l x = None.
Proof.
  induction l as [|y l IH]; intros Hall; simpl; auto.
  rewrite (Hall y) by (left; auto). apply IH. intros y' Hy'. apply Hall. right. auto.
Qed.

Lemma afind_mid l1 y l2 x : (forall y', In y' l1 -> eqf y' x = false) -> eqf y x = true ->
  afind (l1 ++ y :: l2) x = Some y.
Proof.
  induction l1 as [|z l1 IH]; intros Hall Hy; simpl.
  - rewrite Hy. reflexivity.
  - rewrite (Hall z) by (left; auto). apply IH; auto. intros y' Hy'. apply Hall. right. auto.
Qed.

Lemma areplace_mid l1 y l2 x : (forall y', In y' l1 -> eqf y' x = false) -> eqf y x = true ->
  areplace (l1 ++ y :: l2) x = l1 ++ x :: l2.
Proof.
  induction l1 as [|z l1 IH]; intros Hall Hy; simpl.
  - rewrite Hy. reflexivity.
  - rewrite (Hall z) by (left; auto). f_equal. apply IH; auto. intros y' Hy'. apply Hall. right. auto.
Qed.

Lemma aremove_mid l1 y l2 x : (forall y', In y' l1 -> eqf y' x = false) -> eqf y x = true ->
  aremove (l1 ++ y :: l2) x = l1 ++ l2.
Proof.
  induction l1 as [|z l1 IH]; intros Hall Hy; simpl.
  - rewrite Hy. reflexivity.
  - rewrite (Hall z) by (left; auto). f_equal. apply IH; auto. intros y' Hy'. apply Hall. right. auto.
Qed.

(* ------------------------------------------------------------------ what the probe loop finds *)
Lemma exists_empty (ents : list slot) : length (filter nonempty ents) < length ents ->
  exists p, nth_error ents p = Some Empty.
Proof.
  induction ents as [|s ents IH]; simpl; intros Hlt; [lia|].
  destruct s; simpl in Hlt.
  - exists 0. reflexivity.
  - destruct IH as [p Hp]; [lia|]. exists (S p). exact Hp.
  - destruct IH as [p Hp]; [lia|]. exists (S p). exact Hp.
Qed.

Lemma slot_eq_dec (a b : option slot) : {a = b} + {a <> b}.
Proof. decide equality. decide equality. apply Nat.eq_dec. Qed.

Lemma maskN_pow h k : N.of_nat (length (entries h)) = (2 ^ k)%N -> maskN h = (2 ^ k - 1)%N.
Proof. unfold maskN. intros ->. reflexivity. Qed.

Lemma on_path_lt h hash j : Inv h -> on_path h hash j < length (entries h).
Proof.
  intros Hi. destruct (inv_pow h Hi) as [k Hk]. unfold on_path, ppos. rewrite (maskN_pow h k Hk).
  assert (fst (pstate (2 ^ k - 1) (pstart (2 ^ k - 1) hash) j) < 2 ^ k)%N.
  { apply pstate_fst_lt. unfold pstart. cbn [fst]. apply land_mask_lt. }
  lia.
Qed.

Lemma first_empty h hash : Inv h -> (hash < 2 ^ 33)%N ->
  exists J, J < length (entries h) + 3 /\ nth_error (entries h) (on_path h hash J) = Some Empty /\
            forall j, j < J -> exists sl, nth_error (entries h) (on_path h hash j) = Some sl /\ sl <> Empty.
Proof.
  intros Hi Hh. destruct (inv_pow h Hi) as [k Hk].
  assert (Hlt : length (filter nonempty (entries h)) < length (entries h)).
  { pose proof (inv_cnt h Hi). pose proof (inv_bound h Hi). pose proof (inv_len h Hi).
    assert (0 < length (entries h)).
    { assert (2 ^ k <> 0)%N by (apply N.pow_nonzero; lia). lia. }
    lia. }
  destruct (exists_empty _ Hlt) as [p Hp].
  assert (Hpl : p < length (entries h)) by (apply nth_error_Some; congruence).
  destruct (path_covers k hash (N.of_nat p) Hh ltac:(lia)) as [j0 [Hj0 Hfst]].
  destruct (least_witness (fun j => nth_error (entries h) (on_path h hash j) = Some Empty)
              (fun j => slot_eq_dec _ _) (length (entries h) + 3)) as [J [HJ1 [HJ2 HJ3]]].
  { exists j0. split; [lia|]. unfold on_path, ppos. rewrite (maskN_pow h k Hk), Hfst.
    rewrite Nat2N.id. exact Hp. }
  exists J. split; [exact HJ1|]. split; [exact HJ2|]. intros j Hj.
  pose proof (on_path_lt h hash j Hi) as Hr.
  destruct (nth_error (entries h) (on_path h hash j)) as [sl|] eqn:E.
  - exists sl. split; auto. intros ->. apply (HJ3 j Hj). exact E.
  - apply nth_error_None in E. lia.
Qed.

Lemma cell_at_nth h n c : cell_at h n = Some c <-> nth_error (els h) n = Some (Some c).
Proof.
  unfold cell_at. destruct (nth_error (els h) n) as [[c'|]|]; split; intros E; try discriminate; congruence.
Qed.

Lemma probe_outcome h x : Inv h ->
  exists o c, scan (probe_fuel A h) (entries h) (els h) x (H x) (maskN h) (pstart (maskN h) (H x)) None (collisions h)
              = Some (o, c) /\
  match o with
  | OFound e n hh y => livec h n hh y /\ nth_error (entries h) e = Some (Ix n) /\ hh = H x /\ eqf y x = true
  | OEmpty e fd =>
    (forall n hh y, livec h n hh y -> eqf y x = false) /\
    nth_error (entries h) e = Some Empty /\
    (match fd with Some d => nth_error (entries h) d = Some Deleted | None => True end) /\
    exists j, on_path h (H x) j = (match fd with Some d => d | None => e end) /\
              forall j', j' < j -> exists sl, nth_error (entries h) (on_path h (H x) j') = Some sl /\ sl <> Empty
  end.
Proof.
  intros Hi. destruct (bump_range x) as [Hr Hnz].
  destruct (first_empty h (H x) Hi Hr) as [J [HJ1 [HJ2 HJ3]]].
  assert (Hdef : forall p n, nth_error (entries h) p = Some (Ix n) -> exists c, nth_error (els h) n = Some (Some c)).
  { intros p n Hp. destruct (inv_ix h Hi p n Hp) as [hh [y [_ [Hc _]]]]. exists (hh, y). apply cell_at_nth. exact Hc. }
  destruct (scan_spec (entries h) (els h) x (H x) (maskN h) Hdef J (pstart (maskN h) (H x)) None (collisions h)
              (probe_fuel A h) HJ2 HJ3) as [o [c [Hs Ho]]].
  { unfold probe_fuel. lia. }
  exists o, c. split; [exact Hs|]. destruct o as [e n hh y|e fd].
  - destruct Ho as [j [Hj [He [Hent [Hcell [Hhh Heq]]]]]].
    destruct (inv_ix h Hi e n Hent) as [hh' [y' [Hl1 [Hl2 Hl3]]]].
    apply cell_at_nth in Hl2. rewrite Hcell in Hl2. inversion Hl2; subst hh' y'.
    split; [|auto]. split; [exact Hl1|]. split; [apply cell_at_nth; exact Hcell|exact Hl3].
  - destruct Ho as [He [Hm Hfd]]. split.
    + intros n hh y Hl. destruct (eqf y x) eqn:Heq; [exfalso|reflexivity].
      destruct (inv_reach h Hi n hh y Hl) as [Hhh [jn [Hjn1 Hjn2]]].
      assert (Ehash : hh = H x). { rewrite Hhh. rewrite (eqf_hash y x Heq). reflexivity. }
      rewrite Ehash in Hjn1, Hjn2.
      destruct (Nat.lt_trichotomy jn J) as [Hlt|[Heq'|Hgt]].
      * specialize (Hm jn n Hlt Hjn1). unfold matches in Hm.
        destruct Hl as [_ [Hc _]]. apply cell_at_nth in Hc. rewrite Hc in Hm.
        rewrite Ehash, N.eqb_refl, Heq in Hm. discriminate.
      * subst jn. rewrite HJ2 in Hjn1. discriminate.
      * destruct (Hjn2 J Hgt) as [sl [Hsl Hne]]. rewrite HJ2 in Hsl. congruence.
    + split; [rewrite He; exact HJ2|]. split.
      * destruct Hfd as [->|[j [Hj [-> Hd]]]]; [exact I|exact Hd].
      * destruct Hfd as [->|[j [Hj [-> Hd]]]].
        -- exists J. split; [symmetry; exact He|]. exact HJ3.
        -- exists j. split; [reflexivity|]. intros j' Hj'. apply HJ3. lia.
Qed.

(* ------------------------------------------------------------------ preservation of the invariant *)
Lemma filter_len_set_nth_same {X} (f : X -> bool) (l : list X) i s s' :
  nth_error l i = Some s -> f s = f s' -> length (filter f (set_nth l i s')) = length (filter f l).
Proof.
  revert i; induction l as [|a l IH]; intros [|i] Hn Hf; simpl in *; try discriminate.
  - inversion Hn; subst. rewrite Hf. destruct (f s'); reflexivity.
  - destruct (f a); simpl; rewrite (IH i Hn Hf); reflexivity.
Qed.

Lemma filter_len_set_nth_le {X} (f : X -> bool) (l : list X) i s' :
  length (filter f (set_nth l i s')) <= S (length (filter f l)).
Proof.
  revert i; induction l as [|a l IH]; intros [|i]; simpl; auto.
  - destruct (f s'), (f a); simpl; lia.
  - specialize (IH i). destruct (f a); simpl; lia.
Qed.

Lemma Inv_setc h c : Inv h -> Inv (setc h c).
Proof. intros [H1 H2 H3 H4 H5 H6 H7 H8 H9 H10 H11]. constructor; auto. Qed.

Lemma absl_setc h c : absl (setc h c) = absl h.
Proof. reflexivity. Qed.

(* replace the element of a live cell by an eq one *)
Lemma Inv_replace h n hh y x fl :
  Inv h -> livec h n hh y -> eqf y x = true -> hh = H x ->
  let h' := {| entries := entries h; els := set_nth (els h) n (Some (hh, x));
               h_els_num := h_els_num h; els_start := els_start h; els_bound := els_bound h;
               collisions := collisions h; flog := fl |} in
  Inv h' /\ absl h' = areplace (absl h) x /\ afind (absl h) x = Some y.
Proof.
  intros Hi Hl Heq Hhh h'.
  assert (Hn : n < length (els h)).
  { destruct Hl as [_ [Hc _]]. apply cell_at_nth in Hc. apply nth_error_Some. congruence. }
  assert (Hcell : forall m, cell_at h' m = if Nat.eqb n m then Some (hh, x) else cell_at h m).
  { intros m. unfold cell_at, h'. cbn [els]. rewrite nth_error_set_nth.
    destruct (Nat.eqb_spec n m); auto. destruct (Nat.ltb_spec n (length (els h))); auto. lia. }
  assert (Hlive : forall m hh' y', livec h' m hh' y' <->
                    (m = n /\ hh' = hh /\ y' = x) \/ (m <> n /\ livec h m hh' y')).
  { intros m hh' y'. unfold livec. rewrite Hcell. change (els_bound h') with (els_bound h).
    destruct (Nat.eqb_spec n m) as [<-|Hne]; split.
    - intros [H1 [H2 H3]]. inversion H2; subst. left. auto.
    - intros [[_ [-> ->]]|[Hc _]]; [|congruence]. destruct Hl as [L1 [L2 L3]]. auto.
    - intros Hm. right. split; [congruence|exact Hm].
    - intros [[Hc _]|[_ Hm]]; [congruence|exact Hm]. }
  destruct (absl_split h n hh y Hl) as [c1 [c2 [E1 [E2 [E3 [E4 E5]]]]]].
  assert (Hothers : forall y', In y' (abs_cells c1 ++ abs_cells c2) -> eqf y' x = false).
  { intros y' Hin. destruct (E5 y' Hin) as [n' [hh' [Hl' Hne]]].
    pose proof (inv_neq h Hi n' n hh' y' hh y Hl' Hl Hne) as Hneq.
    destruct (eqf y' x) eqn:E; auto.
    rewrite (eqf_trans y' x y E) in Hneq; [discriminate|]. rewrite eqf_sym. exact Heq. }
  assert (Habs' : absl h' = abs_cells c1 ++ x :: abs_cells c2).
  { unfold absl, h'. cbn [els els_bound]. rewrite E4, abs_cells_app. simpl.
    destruct Hl as [_ [_ Hnz]]. destruct (N.eqb_spec hh 0); [contradiction|reflexivity]. }
  split; [|split].
  - constructor.
    + exact (inv_pow h Hi).
    + cbn. rewrite set_nth_length. exact (inv_len h Hi).
    + exact (inv_start h Hi).
    + cbn. rewrite set_nth_length. exact (inv_bound h Hi).
    + intros i Hlt. cbn in *. rewrite nth_error_set_nth. destruct (Nat.eqb_spec n i).
      * destruct (Nat.ltb_spec n (length (els h))); [eexists; reflexivity|lia].
      * apply (inv_def h Hi). exact Hlt.
    + intros p m Hp. destruct (inv_ix h Hi p m Hp) as [hh' [y' Hm]].
      destruct (Nat.eq_dec m n) as [->|Hne].
      * exists hh, x. apply Hlive. left. auto.
      * exists hh', y'. apply Hlive. right. auto.
    + exact (inv_inj h Hi).
    + intros m hh' y' Hm. apply Hlive in Hm. destruct Hm as [[-> [-> ->]]|[Hne Hm]].
      * split; [exact Hhh|]. destruct (inv_reach h Hi n hh y Hl) as [_ Hr]. exact Hr.
      * exact (inv_reach h Hi m hh' y' Hm).
    + intros m m' hh1 y1 hh2 y2 Hm Hm' Hne. apply Hlive in Hm. apply Hlive in Hm'.
      destruct Hm as [[-> [-> ->]]|[Hn1 Hm]], Hm' as [[-> [-> ->]]|[Hn2 Hm']]; try congruence.
      * pose proof (inv_neq h Hi n m' hh y hh2 y2 Hl Hm' Hne) as Hq.
        destruct (eqf x y2) eqn:E; auto. rewrite (eqf_trans y x y2 Heq E) in Hq. discriminate.
      * pose proof (inv_neq h Hi m n hh1 y1 hh y Hm Hl Hne) as Hq.
        destruct (eqf y1 x) eqn:E; auto.
        rewrite (eqf_trans y1 x y E) in Hq; [discriminate|]. rewrite eqf_sym. exact Heq.
      * exact (inv_neq h Hi m m' hh1 y1 hh2 y2 Hm Hm' Hne).
    + exact (inv_cnt h Hi).
    + change (h_els_num h') with (h_els_num h). rewrite (inv_num h Hi), Habs', E3.
      rewrite !app_length. reflexivity.
  - rewrite Habs', E3. symmetry. apply areplace_mid; auto.
    intros y' Hy'. apply Hothers. apply in_or_app. left. exact Hy'.
  - rewrite E3. apply afind_mid; auto.
    intros y' Hy'. apply Hothers. apply in_or_app. left. exact Hy'.
Qed.

(* delete a live cell: its entry becomes a tombstone, its hash HTAB_DELETED_HASH *)
Lemma Inv_delete h e n hh y x fl :
  Inv h -> livec h n hh y -> nth_error (entries h) e = Some (Ix n) -> eqf y x = true ->
  let h' := {| entries := set_nth (entries h) e Deleted; els := set_nth (els h) n (Some (0%N, y));
               h_els_num := pred (h_els_num h); els_start := els_start h; els_bound := els_bound h;
               collisions := collisions h; flog := fl |} in
  Inv h' /\ absl h' = aremove (absl h) x /\ afind (absl h) x = Some y.
Proof.
  intros Hi Hl He Heq h'.
  assert (Hn : n < length (els h)).
  { destruct Hl as [_ [Hc _]]. apply cell_at_nth in Hc. apply nth_error_Some. congruence. }
  assert (Hel : e < length (entries h)) by (apply nth_error_Some; congruence).
  assert (Hcell : forall m, cell_at h' m = if Nat.eqb n m then Some (0%N, y) else cell_at h m).
  { intros m. unfold cell_at, h'. cbn [els]. rewrite nth_error_set_nth.
    destruct (Nat.eqb_spec n m); auto. destruct (Nat.ltb_spec n (length (els h))); auto. lia. }
  assert (Hlive : forall m hh' y', livec h' m hh' y' <-> (m <> n /\ livec h m hh' y')).
  { intros m hh' y'. unfold livec. rewrite Hcell. change (els_bound h') with (els_bound h).
    destruct (Nat.eqb_spec n m) as [<-|Hne]; split.
    - intros [H1 [H2 H3]]. inversion H2; subst. contradiction.
    - intros [Hc _]. congruence.
    - intros Hm. split; [congruence|exact Hm].
    - intros [_ Hm]. exact Hm. }
  assert (Hent : forall p, nth_error (entries h') p = if Nat.eqb e p then Some Deleted else nth_error (entries h) p).
  { intros p. unfold h'. cbn [entries]. rewrite nth_error_set_nth.
    destruct (Nat.eqb_spec e p); auto. destruct (Nat.ltb_spec e (length (entries h))); auto. lia. }
  assert (Hmask : maskN h' = maskN h).
  { unfold maskN, h'. cbn [entries]. rewrite set_nth_length. reflexivity. }
  assert (Hpath : forall hash j, on_path h' hash j = on_path h hash j).
  { intros hash j. unfold on_path. rewrite Hmask. reflexivity. }
  destruct (absl_split h n hh y Hl) as [c1 [c2 [E1 [E2 [E3 [E4 E5]]]]]].
  assert (Hothers : forall y', In y' (abs_cells c1 ++ abs_cells c2) -> eqf y' x = false).
  { intros y' Hin. destruct (E5 y' Hin) as [n' [hh' [Hl' Hne]]].
    pose proof (inv_neq h Hi n' n hh' y' hh y Hl' Hl Hne) as Hneq.
    destruct (eqf y' x) eqn:E; auto.
    rewrite (eqf_trans y' x y E) in Hneq; [discriminate|]. rewrite eqf_sym. exact Heq. }
  assert (Habs' : absl h' = abs_cells c1 ++ abs_cells c2).
  { unfold absl, h'. cbn [els els_bound]. rewrite E4, abs_cells_app. reflexivity. }
  split; [|split].
  - constructor.
    + cbn. rewrite set_nth_length. exact (inv_pow h Hi).
    + cbn. rewrite !set_nth_length. exact (inv_len h Hi).
    + exact (inv_start h Hi).
    + cbn. rewrite set_nth_length. exact (inv_bound h Hi).
    + intros i Hlt. cbn in *. rewrite nth_error_set_nth. destruct (Nat.eqb_spec n i).
      * destruct (Nat.ltb_spec n (length (els h))); [eexists; reflexivity|lia].
      * apply (inv_def h Hi). exact Hlt.
    + intros p m Hp. rewrite Hent in Hp. destruct (Nat.eqb_spec e p) as [->|Hne]; [discriminate|].
      destruct (inv_ix h Hi p m Hp) as [hh' [y' Hm]]. exists hh', y'. apply Hlive. split; [|exact Hm].
      intros ->. apply Hne. apply (inv_inj h Hi e p n He Hp).
    + intros p q m Hp Hq. rewrite Hent in Hp, Hq.
      destruct (Nat.eqb_spec e p); [discriminate|]. destruct (Nat.eqb_spec e q); [discriminate|].
      apply (inv_inj h Hi p q m Hp Hq).
    + intros m hh' y' Hm. apply Hlive in Hm. destruct Hm as [Hne Hm].
      destruct (inv_reach h Hi m hh' y' Hm) as [R1 [j [R2 R3]]]. split; [exact R1|].
      exists j. split.
      * rewrite Hpath, Hent. destruct (Nat.eqb_spec e (on_path h hh' j)) as [E|E]; [|exact R2].
        rewrite <- E in R2. rewrite He in R2. inversion R2. congruence.
      * intros j' Hj'. rewrite Hpath, Hent. destruct (Nat.eqb_spec e (on_path h hh' j')).
        -- exists Deleted. split; [reflexivity|discriminate].
        -- apply R3. exact Hj'.
    + intros m m' hh1 y1 hh2 y2 Hm Hm' Hne. apply Hlive in Hm. apply Hlive in Hm'.
      destruct Hm as [_ Hm], Hm' as [_ Hm']. exact (inv_neq h Hi m m' hh1 y1 hh2 y2 Hm Hm' Hne).
    + cbn. rewrite (filter_len_set_nth_same nonempty (entries h) e (Ix n) Deleted He eq_refl).
      exact (inv_cnt h Hi).
    + change (h_els_num h') with (pred (h_els_num h)). rewrite (inv_num h Hi), Habs', E3.
      rewrite !app_length. simpl. lia.
  - rewrite Habs', E3. symmetry. apply aremove_mid; auto.
    intros y' Hy'. apply Hothers. apply in_or_app. left. exact Hy'.
  - rewrite E3. apply afind_mid; auto.
    intros y' Hy'. apply Hothers. apply in_or_app. left. exact Hy'.
Qed.

(* insert a new element (no live cell is eq to it) through an Empty or Deleted entry on its path *)
Lemma Inv_insert h t x fl c :
  Inv h -> els_bound h < length (els h) ->
  (forall n hh y, livec h n hh y -> eqf y x = false) ->
  (nth_error (entries h) t = Some Empty \/ nth_error (entries h) t = Some Deleted) ->
  (exists j, on_path h (H x) j = t /\
             forall j', j' < j -> exists sl, nth_error (entries h) (on_path h (H x) j') = Some sl /\ sl <> Empty) ->
  let h' := {| entries := set_nth (entries h) t (Ix (els_bound h));
               els := set_nth (els h) (els_bound h) (Some (H x, x));
               h_els_num := S (h_els_num h); els_start := els_start h; els_bound := S (els_bound h);
               collisions := c; flog := fl |} in
  Inv h' /\ absl h' = absl h ++ [x].
Proof.
  intros Hi Hroom Hnew Ht [jt [Hjt1 Hjt2]] h'. set (b := els_bound h) in *.
  destruct (bump_range x) as [_ Hnz].
  assert (Htl : t < length (entries h)) by (apply nth_error_Some; destruct Ht as [E|E]; rewrite E; discriminate).
  assert (Hcell : forall m, cell_at h' m = if Nat.eqb b m then Some (H x, x) else cell_at h m).
  { intros m. unfold cell_at, h'. cbn [els]. rewrite nth_error_set_nth.
    destruct (Nat.eqb_spec b m); auto. destruct (Nat.ltb_spec b (length (els h))); auto. lia. }
  assert (Hlive : forall m hh' y', livec h' m hh' y' <->
                    (m = b /\ hh' = H x /\ y' = x) \/ livec h m hh' y').
  { intros m hh' y'. unfold livec. rewrite Hcell. change (els_bound h') with (S b). fold b.
    destruct (Nat.eqb_spec b m) as [<-|Hne]; split.
    - intros [H1 [H2 H3]]. inversion H2; subst. left. auto.
    - intros [[_ [-> ->]]|[Hc _]]; [auto|lia].
    - intros [H1 Hm]. right. split; [lia|exact Hm].
    - intros [[Hc _]|[H1 Hm]]; [congruence|]. split; [lia|exact Hm]. }
  assert (Hent : forall p, nth_error (entries h') p = if Nat.eqb t p then Some (Ix b) else nth_error (entries h) p).
  { intros p. unfold h'. cbn [entries]. rewrite nth_error_set_nth.
    destruct (Nat.eqb_spec t p); auto. destruct (Nat.ltb_spec t (length (entries h))); auto. lia. }
  assert (Hmask : maskN h' = maskN h).
  { unfold maskN, h'. cbn [entries]. rewrite set_nth_length. reflexivity. }
  assert (Hpath : forall hash j, on_path h' hash j = on_path h hash j).
  { intros hash j. unfold on_path. rewrite Hmask. reflexivity. }
  assert (Hnot_ix : forall m, nth_error (entries h) t <> Some (Ix m)).
  { intros m E. destruct Ht as [E'|E']; rewrite E' in E; discriminate. }
  assert (Hkeep : forall p sl, nth_error (entries h) p = Some sl -> sl <> Empty ->
                               exists sl', nth_error (entries h') p = Some sl' /\ sl' <> Empty).
  { intros p sl Hp Hne. rewrite Hent. destruct (Nat.eqb_spec t p).
    - exists (Ix b). split; [reflexivity|discriminate].
    - exists sl. auto. }
  assert (Habs' : absl h' = absl h ++ [x]).
  { unfold absl, h'. cbn [els els_bound]. fold b. rewrite firstn_S_set_nth by exact Hroom.
    rewrite abs_cells_app. simpl. destruct (N.eqb_spec (H x) 0); [contradiction|reflexivity]. }
  split; [|exact Habs'].
  constructor.
  - cbn. rewrite set_nth_length. exact (inv_pow h Hi).
  - cbn. rewrite !set_nth_length. exact (inv_len h Hi).
  - exact (inv_start h Hi).
  - cbn. rewrite set_nth_length. fold b. lia.
  - intros i Hlt. cbn in *. fold b in Hlt. rewrite nth_error_set_nth. fold b. destruct (Nat.eqb_spec b i).
    + destruct (Nat.ltb_spec b (length (els h))); [eexists; reflexivity|lia].
    + apply (inv_def h Hi). fold b. lia.
  - intros p m Hp. rewrite Hent in Hp. destruct (Nat.eqb_spec t p) as [->|Hne].
    + inversion Hp; subst m. exists (H x), x. apply Hlive. left. auto.
    + destruct (inv_ix h Hi p m Hp) as [hh' [y' Hm]]. exists hh', y'. apply Hlive. right. exact Hm.
  - intros p q m Hp Hq. rewrite Hent in Hp, Hq.
    destruct (Nat.eqb_spec t p) as [E1|Hn1], (Nat.eqb_spec t q) as [E2|Hn2]; [congruence| | |].
    + inversion Hp; subst m. destruct (inv_ix h Hi q b Hq) as [hh' [y' [Hlt _]]]. fold b in Hlt. lia.
    + inversion Hq; subst m. destruct (inv_ix h Hi p b Hp) as [hh' [y' [Hlt _]]]. fold b in Hlt. lia.
    + apply (inv_inj h Hi p q m Hp Hq).
  - intros m hh' y' Hm. apply Hlive in Hm. destruct Hm as [[-> [-> ->]]|Hm].
    + split; [reflexivity|]. exists jt. split.
      * rewrite Hpath, Hjt1, Hent, Nat.eqb_refl. reflexivity.
      * intros j' Hj'. rewrite Hpath. destruct (Hjt2 j' Hj') as [sl [Hsl Hne]]. apply (Hkeep _ sl Hsl Hne).
    + destruct (inv_reach h Hi m hh' y' Hm) as [R1 [j [R2 R3]]]. split; [exact R1|].
      exists j. split.
      * rewrite Hpath, Hent. destruct (Nat.eqb_spec t (on_path h hh' j)) as [E|E]; [|exact R2].
        rewrite <- E in R2. exfalso. apply (Hnot_ix m). exact R2.
      * intros j' Hj'. rewrite Hpath. destruct (R3 j' Hj') as [sl [Hsl Hne]]. apply (Hkeep _ sl Hsl Hne).
  - intros m m' hh1 y1 hh2 y2 Hm Hm' Hne. apply Hlive in Hm. apply Hlive in Hm'.
    destruct Hm as [[-> [-> ->]]|Hm], Hm' as [[-> [-> ->]]|Hm']; try congruence.
    + rewrite eqf_sym. apply (Hnew m' hh2 y2 Hm').
    + apply (Hnew m hh1 y1 Hm).
    + exact (inv_neq h Hi m m' hh1 y1 hh2 y2 Hm Hm' Hne).
  - cbn. fold b. pose proof (filter_len_set_nth_le nonempty (entries h) t (Ix b)).
    pose proof (inv_cnt h Hi). fold b in H0. lia.
  - change (h_els_num h') with (S (h_els_num h)). rewrite (inv_num h Hi), Habs', app_length. simpl. lia.
Qed.

(* ------------------------------------------------------------------ one HTAB_DO without rebuild *)
(* what one do must achieve, given the abstract map before (m), the incoming *res and free log *)
Definition do_post (m : list A) (act : action) (x : A) (res : option A) (fl : list A)
           (m' : list A) (found : bool) (res' : option A) (fl' : list A) : Prop :=
  match afind m x, act with
  | Some y, Find | Some y, Insert => m' = m /\ found = true /\ res' = Some y /\ fl' = fl
  | Some y, Replace => m' = areplace m x /\ found = true /\ res' = Some x /\ fl' = fl ++ [y]
  | Some y, Delete => m' = aremove m x /\ found = true /\ res' = res /\ fl' = fl ++ [y]
  | None, Find | None, Delete => m' = m /\ found = false /\ res' = res /\ fl' = fl
  | None, _ => m' = m ++ [x] /\ found = false /\ res' = Some x /\ fl' = fl
  end.

Definition after_rebuild (h : htab) (x : A) (act : action) (res : option A) :=
  let mask := (N.of_nat (length (entries h)) - 1)%N in
  let hash := H x in
  probe (probe_fuel A h) h x hash act mask (N.land hash mask) hash None res.

Lemma after_rebuild_spec h x act res :
  Inv h -> (is_ins act = true -> els_bound h < length (els h)) ->
  exists h' found res', after_rebuild h x act res = Some (h', found, res') /\ Inv h' /\
    do_post (absl h) act x res (flog h) (absl h') found res' (flog h') /\
    length (entries h') = length (entries h) /\ length (els h') = length (els h) /\
    (act = Insert -> els_bound h' <= S (els_bound h) /\
                     forall i, i <> els_bound h -> nth_error (els h') i = nth_error (els h) i).
Proof.
  intros Hi Hroom. unfold after_rebuild. cbv zeta.
  change (N.land (H x) (N.of_nat (length (entries h)) - 1)) with (fst (pstart (maskN h) (H x))).
  change (H x) with (snd (pstart (maskN h) (H x))) at 3.
  change (N.of_nat (length (entries h)) - 1)%N with (maskN h).
  rewrite probe_scan.
  destruct (probe_outcome h x Hi) as [o [c [Hs Ho]]]. rewrite Hs.
  pose proof (Inv_setc h c Hi) as Hic.
  destruct o as [e n hh y|e fd].
  - destruct Ho as [Hl [He [Hhh Heq]]].
    destruct (Inv_replace (setc h c) n hh y x (flog h ++ [y]) Hic Hl Heq Hhh) as [Ir [Ar Af]].
    destruct (Inv_delete (setc h c) e n hh y x (flog h ++ [y]) Hic Hl He Heq) as [Id [Ad _]].
    rewrite absl_setc in *. unfold do_post. rewrite Af.
    destruct act; cbn [finish].
    + exists (setc h c), true, (Some y). split; [reflexivity|]. split; [exact Hic|].
      split; [split; [|split; [|split]]; reflexivity|].
      split; [reflexivity|]. split; [reflexivity|]. intros E; discriminate E.
    + exists (setc h c), true, (Some y). split; [reflexivity|]. split; [exact Hic|].
      split; [split; [|split; [|split]]; reflexivity|].
      split; [reflexivity|]. split; [reflexivity|]. intros _. split; [cbn; lia|reflexivity].
    + eexists _, true, (Some x). split; [reflexivity|]. split; [exact Ir|].
      split; [split; [exact Ar|split; [|split]]; reflexivity|].
      cbn. rewrite set_nth_length. split; [reflexivity|]. split; [reflexivity|]. intros E; discriminate E.
    + eexists _, true, res. split; [reflexivity|]. split; [exact Id|].
      split; [split; [exact Ad|split; [|split]]; reflexivity|].
      cbn. rewrite !set_nth_length. split; [reflexivity|]. split; [reflexivity|]. intros E; discriminate E.
  - destruct Ho as [Hnew [He [Hfd Hpath]]].
    assert (Af : afind (absl h) x = None).
    { apply afind_none. intros y Hy. apply absl_in in Hy. destruct Hy as [n [hh Hl]]. apply (Hnew n hh y Hl). }
    unfold do_post. rewrite Af. cbn [finish].
    destruct (is_ins act) eqn:Eins.
    + specialize (Hroom eq_refl). change (els_bound (setc h c)) with (els_bound h).
      change (els (setc h c)) with (els h).
      destruct (Nat.ltb_spec (els_bound h) (length (els h))) as [_|Hge]; [|lia].
      assert (Ht : nth_error (entries h) (match fd with Some d0 => d0 | None => e end) = Some Empty \/
                   nth_error (entries h) (match fd with Some d0 => d0 | None => e end) = Some Deleted).
      { destruct fd; auto. }
      destruct (Inv_insert (setc h c) _ x (flog h) c Hic Hroom Hnew Ht Hpath) as [Ii Ai].
      rewrite absl_setc in Ai.
      eexists _, false, (Some x). split; [reflexivity|]. split; [exact Ii|].
      split; [destruct act; try discriminate Eins; (split; [exact Ai|split; [|split]]; reflexivity)|].
      cbn. rewrite !set_nth_length. split; [reflexivity|]. split; [reflexivity|]. intros _. split; [lia|].
      intros i Hne. apply nth_error_set_nth_neq. auto.
    + exists (setc h c), false, res. split; [reflexivity|]. split; [exact Hic|].
      split; [destruct act; try discriminate Eins; (split; [|split; [|split]]; reflexivity)|].
      split; [reflexivity|]. split; [reflexivity|]. intros ->. discriminate Eins.
Qed.

Lemma hdo_unfold d h x act res :
  hdo (S d) h x act res =
  match (if is_ins act && Nat.eqb (els_bound h) (length (els h)) then
           fold_left (fun (acc : option (htab * option A)) (i : nat) =>
                        match acc with
                        | None => None
                        | Some (hc, rc) =>
                          match nth_error (els hc) i with
                          | Some (Some (hh, y)) =>
                            if N.eqb hh 0 then Some (hc, rc)
                            else match hdo d hc y Insert rc with
                                 | Some (hc', _, rc') => Some (hc', rc')
                                 | None => None
                                 end
                          | _ => None
                          end
                        end)
                     (seq (els_start h) (els_bound h - els_start h))
                     (Some ({| entries := repeat Empty (2 * length (entries h));
                               els := els h ++ repeat None (length (els h));
                               h_els_num := 0; els_start := 0; els_bound := 0;
                               collisions := collisions h; flog := flog h |}, res))
         else Some (h, res)) with
  | None => None
  | Some (h2, res2) => after_rebuild h2 x act res2
  end.
Proof. reflexivity. Qed.

Lemma hdo_core h x act d res :
  Inv h -> (is_ins act = true -> els_bound h < length (els h)) ->
  exists h' found res', hdo (S d) h x act res = Some (h', found, res') /\ Inv h' /\
    do_post (absl h) act x res (flog h) (absl h') found res' (flog h') /\
    length (entries h') = length (entries h) /\ length (els h') = length (els h) /\
    (act = Insert -> els_bound h' <= S (els_bound h) /\
                     forall i, i <> els_bound h -> nth_error (els h') i = nth_error (els h) i).
Proof.
  intros Hi Hroom. rewrite hdo_unfold.
  assert (Hnr : is_ins act && Nat.eqb (els_bound h) (length (els h)) = false).
  { destruct (is_ins act) eqn:E; [|reflexivity]. specialize (Hroom eq_refl).
    destruct (Nat.eqb_spec (els_bound h) (length (els h))); [lia|reflexivity]. }
  rewrite Hnr. apply after_rebuild_spec; auto.
Qed.

(* ------------------------------------------------------------------ the rebuild (growth + in-place compaction) *)
Lemma nth_error_repeat {X} (x : X) n p y : nth_error (repeat x n) p = Some y -> y = x.
Proof. intros E. apply nth_error_In in E. apply repeat_spec in E. exact E. Qed.

Lemma filter_nonempty_repeat n : filter nonempty (repeat Empty n) = [].
Proof. induction n; simpl; auto. Qed.

Lemma Inv_fresh k n cells c fl :
  N.of_nat n = (2 ^ k)%N -> n = 2 * length cells ->
  Inv {| entries := repeat Empty n; els := cells; h_els_num := 0; els_start := 0; els_bound := 0;
         collisions := c; flog := fl |}.
Proof.
  intros Hk Hn. constructor; cbn.
  - exists k. rewrite repeat_length. exact Hk.
  - rewrite repeat_length. exact Hn.
  - reflexivity.
  - lia.
  - intros i Hi. lia.
  - intros p m Hp. apply nth_error_repeat in Hp. discriminate.
  - intros p q m Hp. apply nth_error_repeat in Hp. discriminate.
  - intros m hh y [Hlt _]. cbn in Hlt. lia.
  - intros m m' hh y hh' y' [Hlt _]. cbn in Hlt. lia.
  - rewrite filter_nonempty_repeat. simpl. lia.
  - reflexivity.
Qed.

Lemma firstn_S_nth {X} (l : list X) i c : nth_error l i = Some c -> firstn (S i) l = firstn i l ++ [c].
Proof.
  revert i; induction l as [|a l IH]; intros [|i] E; simpl in *; try discriminate.
  - inversion E; reflexivity.
  - f_equal. apply IH. exact E.
Qed.

Definition rebuild_step (d : nat) (acc : option (htab * option A)) (i : nat) : option (htab * option A) :=
  match acc with
  | None => None
  | Some (hc, rc) =>
    match nth_error (els hc) i with
    | Some (Some (hh, y)) =>
      if N.eqb hh 0 then Some (hc, rc)
      else match hdo d hc y Insert rc with
           | Some (hc', _, rc') => Some (hc', rc')
           | None => None
           end
    | _ => None
    end
  end.

(* state of the rebuild loop before index i of the old element array *)
Definition RInv (h hc : htab) (i : nat) : Prop :=
  Inv hc /\ length (entries hc) = 2 * length (entries h) /\ length (els hc) = 2 * length (els h) /\
  els_bound hc <= i /\
  (forall m, i <= m -> nth_error (els hc) m = nth_error (els h ++ repeat None (length (els h))) m) /\
  absl hc = abs_cells (firstn i (els h)) /\ flog hc = flog h.

Lemma rebuild_loop h d : Inv h -> forall n i hc rc,
  i + n = els_bound h -> RInv h hc i ->
  exists h2 r2, fold_left (rebuild_step (S d)) (seq i n) (Some (hc, rc)) = Some (h2, r2) /\ RInv h h2 (els_bound h).
Proof.
  intros Hi. induction n as [|n IH]; intros i hc rc Hin HR.
  - simpl. exists hc, rc. split; [reflexivity|]. replace (els_bound h) with i by lia. exact HR.
  - destruct HR as [Hic [Hle [Hlc [Hb [Hcells [Habs Hfl]]]]]].
    assert (Hib : i < els_bound h) by lia.
    pose proof (inv_bound h Hi) as Hbound.
    destruct (inv_def h Hi i Hib) as [[hh y] Hcell].
    assert (Hci : nth_error (els hc) i = Some (Some (hh, y))).
    { rewrite Hcells by lia. rewrite nth_error_app1 by lia. exact Hcell. }
    cbn [seq fold_left]. unfold rebuild_step at 2. rewrite Hci.
    assert (Hfirst : firstn (S i) (els h) = firstn i (els h) ++ [Some (hh, y)]) by (apply firstn_S_nth; exact Hcell).
    destruct (N.eqb_spec hh 0) as [Ez|Enz].
    + apply IH; [lia|]. split; [exact Hic|]. split; [exact Hle|]. split; [exact Hlc|]. split; [lia|].
      split; [intros m Hm; apply Hcells; lia|]. split; [|exact Hfl].
      rewrite Hfirst, abs_cells_app, Habs. simpl. rewrite Ez. simpl. rewrite app_nil_r. reflexivity.
    + assert (Hlive : livec h i hh y).
      { split; [exact Hib|]. split; [apply cell_at_nth; exact Hcell|exact Enz]. }
      assert (Hroom : is_ins Insert = true -> els_bound hc < length (els hc)) by (intros _; lia).
      destruct (hdo_core hc y Insert d rc Hic Hroom) as [hc' [found [rc' [Hdo [Hic' [Hpost [Hle' [Hlc' Hframe]]]]]]]].
      rewrite Hdo. destruct (Hframe eq_refl) as [Hb' Hsame].
      assert (Hnone : afind (absl hc) y = None).
      { apply afind_none. intros y' Hy'. rewrite Habs in Hy'. apply abs_cells_in in Hy'.
        destruct Hy' as [i' [hh' [Hc' Hnz']]].
        assert (Hi' : i' < i).
        { destruct (Nat.lt_ge_cases i' i); auto. rewrite nth_error_firstn_ge in Hc' by auto. discriminate. }
        rewrite nth_error_firstn_lt in Hc' by auto.
        apply (inv_neq h Hi i' i hh' y' hh y); [|exact Hlive|lia].
        split; [lia|]. split; [apply cell_at_nth; exact Hc'|exact Hnz']. }
      unfold do_post in Hpost. rewrite Hnone in Hpost. destruct Hpost as [P1 [P2 [P3 P4]]].
      apply IH; [lia|]. split; [exact Hic'|]. split; [lia|]. split; [lia|]. split; [lia|].
      split; [|split].
      * intros m Hm. rewrite Hsame by lia. apply Hcells. lia.
      * rewrite P1, Habs, Hfirst, abs_cells_app. simpl.
        destruct (N.eqb_spec hh 0); [contradiction|reflexivity].
      * rewrite P4. exact Hfl.
Qed.

Lemma do_post_ins m act x res res2 fl m' found res' fl' : is_ins act = true ->
  do_post m act x res2 fl m' found res' fl' -> do_post m act x res fl m' found res' fl'.
Proof. unfold do_post. intros Hins. destruct (afind m x), act; try discriminate Hins; auto. Qed.

(* ------------------------------------------------------------------ HTAB_DO, full *)
Theorem hdo_spec h x act res : Inv h ->
  exists h' found res', hdo 2 h x act res = Some (h', found, res') /\ Inv h' /\
    do_post (absl h) act x res (flog h) (absl h') found res' (flog h').
Proof.
  intros Hi. rewrite hdo_unfold.
  destruct (is_ins act && Nat.eqb (els_bound h) (length (els h))) eqn:Hreb.
  - apply andb_true_iff in Hreb. destruct Hreb as [Hins Hfull]. apply Nat.eqb_eq in Hfull.
    rewrite (inv_start h Hi), Nat.sub_0_r.
    destruct (inv_pow h Hi) as [k Hk].
    set (h1 := {| entries := repeat Empty (2 * length (entries h)); els := els h ++ repeat None (length (els h));
                  h_els_num := 0; els_start := 0; els_bound := 0; collisions := collisions h; flog := flog h |}).
    assert (HR1 : RInv h h1 0).
    { split.
      - apply (Inv_fresh (k + 1)).
        + rewrite N.pow_add_r. change (2 ^ 1)%N with 2%N. lia.
        + rewrite app_length, repeat_length. pose proof (inv_len h Hi). lia.
      - cbn. rewrite repeat_length, app_length, repeat_length.
        split; [reflexivity|]. split; [lia|]. split; [lia|]. split; [reflexivity|]. split; reflexivity. }
    destruct (rebuild_loop h 0 Hi (els_bound h) 0 h1 res eq_refl HR1) as [h2 [r2 [Hloop HR2]]].
    change (fold_left _ (seq 0 (els_bound h)) (Some (h1, res)))
      with (fold_left (rebuild_step 1) (seq 0 (els_bound h)) (Some (h1, res))).
    rewrite Hloop.
    destruct HR2 as [Hi2 [Hle2 [Hlc2 [Hb2 [_ [Habs2 Hfl2]]]]]].
    assert (Hpos : 0 < length (els h)).
    { pose proof (inv_len h Hi). assert (2 ^ k <> 0)%N by (apply N.pow_nonzero; lia). lia. }
    destruct (after_rebuild_spec h2 x act r2 Hi2) as [h' [found [res' [Hrun [Hi' [Hpost _]]]]]].
    { intros _. lia. }
    exists h', found, res'. split; [exact Hrun|]. split; [exact Hi'|].
    assert (Eabs : absl h2 = absl h) by (rewrite Habs2; reflexivity).
    rewrite Eabs, Hfl2 in Hpost. apply (do_post_ins _ _ _ res r2); auto.
  - destruct (after_rebuild_spec h x act res Hi) as [h' [found [res' [Hrun [Hi' [Hpost _]]]]]].
    { intros Hins. rewrite Hins in Hreb. simpl in Hreb. apply Nat.eqb_neq in Hreb.
      pose proof (inv_bound h Hi). lia. }
    exists h', found, res'. auto.
Qed.

(* ------------------------------------------------------------------ clear / foreach / create *)
Lemma live_cells_abs cells : (forall c, In c cells -> c <> None) -> live_cells A cells = Some (abs_cells cells).
Proof.
  induction cells as [|c cells IH]; intros Hdef; [reflexivity|].
  destruct c as [[hh y]|]; [|exfalso; apply (Hdef None); [left; reflexivity|reflexivity]].
  simpl. rewrite IH by (intros c Hc; apply Hdef; right; exact Hc).
  destruct (N.eqb hh 0); reflexivity.
Qed.

Lemma hforeach_spec h : Inv h -> hforeach A h = Some (absl h).
Proof.
  intros Hi. unfold hforeach, absl. apply live_cells_abs. intros c Hc Hnone. subst c.
  apply In_nth_error in Hc. destruct Hc as [i Hc].
  destruct (Nat.lt_ge_cases i (els_bound h)) as [Hlt|Hge].
  - rewrite nth_error_firstn_lt in Hc by auto. destruct (inv_def h Hi i Hlt) as [c' Hc']. congruence.
  - rewrite nth_error_firstn_ge in Hc by auto. discriminate.
Qed.

Lemma hclear_spec h : Inv h ->
  exists h', hclear A h = Some h' /\ Inv h' /\ absl h' = [] /\ flog h' = flog h ++ absl h.
Proof.
  intros Hi. unfold hclear. rewrite (hforeach_spec h Hi). eexists. split; [reflexivity|].
  destruct (inv_pow h Hi) as [k Hk]. split; [|split; reflexivity].
  apply (Inv_fresh k); [exact Hk|exact (inv_len h Hi)].
Qed.

Lemma create_size_pow min fuel : forall s j, N.of_nat s = (2 ^ j)%N ->
  exists j', N.of_nat (create_size fuel s min) = (2 ^ j')%N.
Proof.
  induction fuel as [|f IH]; intros s j Hs; simpl.
  - destruct (Nat.leb min s); exists j; exact Hs.
  - destruct (Nat.leb min s); [exists j; exact Hs|].
    apply (IH (2 * s) (j + 1)%N). rewrite N.pow_add_r. change (2 ^ 1)%N with 2%N. lia.
Qed.

Lemma hcreate_spec min : Inv (hcreate A min) /\ absl (hcreate A min) = [] /\ flog (hcreate A min) = [].
Proof.
  unfold hcreate. destruct (create_size_pow min min 2 1%N eq_refl) as [j Hj].
  split; [|split; reflexivity].
  apply (Inv_fresh (j + 1)).
  - rewrite N.pow_add_r. change (2 ^ 1)%N with 2%N. lia.
  - rewrite repeat_length. reflexivity.
Qed.

(* ------------------------------------------------------------------ scripts *)
Notation hstep := (hstep A hashf eqf).
Notation astep := (astep A eqf).

Theorem hstep_refines h o : Inv h -> o <> HCollisions ->
  exists h' out dropped, hstep h o = Some (h', out) /\ Inv h' /\
    astep (absl h) o = (absl h', out, dropped) /\ flog h' = flog h ++ dropped.
Proof.
  intros Hi Hnc. destruct o as [act x| | | |]; cbn [Htab.hstep Htab.astep]; [| | | |congruence].
  - unfold hdo_top. destruct (hdo_spec h x act None Hi) as [h' [found [res' [Hrun [Hi' Hpost]]]]].
    rewrite Hrun. unfold do_post in Hpost.
    destruct (afind (absl h) x) as [y|], act; destruct Hpost as [P1 [P2 [P3 P4]]]; subst found res';
      rewrite <- P1; eexists h', _, _; (split; [reflexivity|]); (split; [exact Hi'|]);
        (split; [reflexivity|]); rewrite P4, ?app_nil_r; reflexivity.
  - destruct (hclear_spec h Hi) as [h' [Hc [Hi' [Ha Hf]]]]. rewrite Hc.
    exists h', HoNone, (absl h). rewrite Ha. auto.
  - exists h, (HoNat (h_els_num h)), []. rewrite (inv_num h Hi), app_nil_r. auto.
  - rewrite (hforeach_spec h Hi). exists h, (HoList (absl h)), []. rewrite app_nil_r. auto.
Qed.

Fixpoint hrun (h : htab) (ops : list (hop A)) : option (htab * list (hout A)) :=
  match ops with
  | [] => Some (h, [])
  | o :: r => match hstep h o with
              | None => None
              | Some (h', out) => match hrun h' r with
                                  | None => None
                                  | Some (h'', outs) => Some (h'', out :: outs)
                                  end
              end
  end.

(* the abstract run: final map, outputs, all dropped elements in order *)
Fixpoint arun (m : list A) (ops : list (hop A)) : list A * list (hout A) * list A :=
  match ops with
  | [] => (m, [], [])
  | o :: r => let '(m', out, d) := astep m o in
              let '(m'', outs, ds) := arun m' r in (m'', out :: outs, d ++ ds)
  end.

Theorem hrun_refines : forall ops h, Inv h -> Forall (fun o => o <> HCollisions) ops ->
  exists h' outs ds, hrun h ops = Some (h', outs) /\ Inv h' /\
    arun (absl h) ops = (absl h', outs, ds) /\ flog h' = flog h ++ ds /\ h_els_num h' = length (absl h').
Proof.
  induction ops as [|o r IH]; intros h Hi Hall.
  - exists h, [], []. simpl. rewrite app_nil_r.
    split; [reflexivity|]. split; [exact Hi|]. split; [reflexivity|]. split; [reflexivity|]. apply (inv_num h Hi).
  - inversion Hall as [|? ? Ho Hr]; subst.
    destruct (hstep_refines h o Hi Ho) as [h1 [out [d [Hs [Hi1 [Ha Hf]]]]]].
    destruct (IH h1 Hi1 Hr) as [h2 [outs [ds [Hrun [Hi2 [Har [Hfl Hnum]]]]]]].
    exists h2, (out :: outs), (d ++ ds). cbn [hrun arun]. rewrite Hs, Hrun, Ha, Har.
    split; [reflexivity|]. split; [exact Hi2|]. split; [reflexivity|]. split; [|exact Hnum].
    rewrite Hfl, Hf, app_assoc. reflexivity.
Qed.

(* ------------------------------------------------------------------ free function: once per dropped element.
   [stored m o]: the elements the op puts into the table.  Conservation: everything ever stored is
   (as a multiset) either still in the table or in the list of dropped elements -- so nothing is
   dropped twice and nothing leaves the table without being dropped. *)
Definition stored (m : list A) (o : hop A) : list A :=
  match o with
  | HDo act x => match afind m x, act with
                 | None, Insert | None, Replace | Some _, Replace => [x]
                 | _, _ => []
                 end
  | _ => []
  end.

Lemma areplace_perm m x y : afind m x = Some y -> Permutation (m ++ [x]) (areplace m x ++ [y]).
Proof.
  induction m as [|z m IH]; simpl; intros Hf; [discriminate|].
  destruct (eqf z x).
  - inversion Hf; subst. simpl. rewrite <- !Permutation_middle. apply perm_swap.
  - simpl. apply perm_skip. apply IH. exact Hf.
Qed.

Lemma aremove_perm m x y : afind m x = Some y -> Permutation m (aremove m x ++ [y]).
Proof.
  induction m as [|z m IH]; simpl; intros Hf; [discriminate|].
  destruct (eqf z x).
  - inversion Hf; subst. apply Permutation_cons_append.
  - simpl. apply perm_skip. apply IH. exact Hf.
Qed.

Lemma astep_conserve m o :
  Permutation (m ++ stored m o) (fst (fst (astep m o)) ++ snd (astep m o)).
Proof.
  destruct o as [act x| | | |]; cbn [Htab.astep stored fst snd]; rewrite ?app_nil_r; auto.
  - destruct (afind m x) as [y|] eqn:Hf; destruct act; cbn [fst snd]; rewrite ?app_nil_r; auto.
    + apply areplace_perm. exact Hf.
    + apply aremove_perm. exact Hf.
Qed.

Fixpoint astored (m : list A) (ops : list (hop A)) : list A :=
  match ops with
  | [] => []
  | o :: r => stored m o ++ astored (fst (fst (astep m o))) r
  end.

Theorem arun_conserve : forall ops m,
  Permutation (m ++ astored m ops) (fst (fst (arun m ops)) ++ snd (arun m ops)).
Proof.
  induction ops as [|o r IH]; intros m; cbn [arun astored].
  - simpl. reflexivity.
  - pose proof (astep_conserve m o) as Hs. destruct (astep m o) as [[m1 out] d] eqn:E1.
    cbn [fst snd] in *. specialize (IH m1). destruct (arun m1 r) as [[m2 outs] ds] eqn:E2.
    cbn [fst snd] in *.
    rewrite app_assoc. rewrite Hs.
    rewrite <- app_assoc. rewrite (Permutation_app_comm d). rewrite app_assoc. rewrite IH.
    rewrite <- !app_assoc. apply Permutation_app_head. apply Permutation_app_comm.
Qed.

(* from creation: the free log is exactly the abstract run's dropped list, and
   stored = live + freed as multisets *)
Theorem htab_free_once_core : forall ops min, Forall (fun o => o <> HCollisions) ops ->
  exists h' outs, hrun (hcreate A min) ops = Some (h', outs) /\
    flog h' = snd (arun [] ops) /\ absl h' = fst (fst (arun [] ops)) /\
    Permutation (astored [] ops) (absl h' ++ flog h').
Proof.
  intros ops min Hall. destruct (hcreate_spec min) as [Hi [Ha Hf]].
  destruct (hrun_refines ops (hcreate A min) Hi Hall) as [h' [outs [ds [Hrun [Hi' [Har [Hfl _]]]]]]].
  exists h', outs. split; [exact Hrun|]. rewrite Ha in Har. rewrite Hf in Hfl. simpl in Hfl.
  pose proof (arun_conserve ops []) as Hc. rewrite Har in *. cbn [fst snd] in *.
  split; [exact Hfl|]. split; [reflexivity|]. rewrite Hfl. exact Hc.
Qed.
End HtabProofs.

(* ------------------------------------------------------------------ the instance run by the correspondence check *)
Lemma inst_eq_refl x : inst_eq x x = true.
Proof. unfold inst_eq. apply N.eqb_refl. Qed.
Lemma inst_eq_sym x y : inst_eq x y = inst_eq y x.
Proof. unfold inst_eq. apply N.eqb_sym. Qed.
Lemma inst_eq_trans x y z : inst_eq x y = true -> inst_eq y z = true -> inst_eq x z = true.
Proof. unfold inst_eq. rewrite !N.eqb_eq. congruence. Qed.
Lemma inst_eq_hash table x y : inst_eq x y = true -> inst_hash table x = inst_hash table y.
Proof. unfold inst_eq, inst_hash. rewrite N.eqb_eq. intros ->. reflexivity. Qed.
Lemma inst_hash_range table x : Forall (fun v => (v < 2 ^ 32)%N) table -> (inst_hash table x < 2 ^ 32)%N.
Proof.
  intros Hall. unfold inst_hash. destruct (nth_in_or_default (N.to_nat (key_of x)) table 0%N) as [Hin | ->].
  - rewrite Forall_forall in Hall. apply Hall. exact Hin.
  - reflexivity.
Qed.

(* non-vacuity: a reachable table that has grown twice and contains tombstones *)
Example htab_nonvacuous :
  let table := [0; 4; 8; 1; 5; 9]%N in
  let ops := [HDo Insert 1; HDo Insert 1001; HDo Insert 2003; HDo Delete 1000; HDo Insert 3003;
              HDo Insert 4004; HDo Insert 5005; HDo Delete 2000; HDo Replace 3007]%N in
  exists h' outs, hrun N (inst_hash table) inst_eq (inst_create 1) ops = Some (h', outs) /\
    length (entries h') = 16 /\ In Deleted (entries h') /\ absl N h' = [1; 3007; 4004; 5005]%N /\
    flog h' = [1001; 2003; 3003]%N.
Proof.
  cbv zeta. vm_compute. eexists. eexists. split; [reflexivity|].
  split; [reflexivity|]. split; [simpl; tauto|]. split; reflexivity.
Qed.

From Coq Require Import List ZArith Lia Bool Arith.
Import ListNotations.
From MirV Require Import C19.Varr.

Lemma set_nth_length {A} (l : list A) i x : length (set_nth l i x) = length l.
Proof. revert i; induction l as [|h t IH]; intros [|i]; simpl; auto. Qed.

Lemma firstn_set_nth_ge {A} (l : list A) i n x : n <= i -> firstn n (set_nth l i x) = firstn n l.
Proof.
  revert i n; induction l as [|h t IH]; intros [|i] [|n] H; simpl; auto; try lia.
  f_equal. apply IH. lia.
Qed.

Lemma firstn_S_set_nth {A} (l : list A) n x :
  n < length l -> firstn (S n) (set_nth l n x) = firstn n l ++ [x].
Proof.
  revert n; induction l as [|h t IH]; intros [|n] H; simpl in *; try lia.
  - reflexivity.
  - f_equal. apply IH. lia.
Qed.

Lemma nth_set_nth_eq {A} (l : list A) i x d : i < length l -> nth i (set_nth l i x) d = x.
Proof. revert i; induction l as [|h t IH]; intros [|i] H; simpl in *; try lia; auto. apply IH; lia. Qed.

Lemma set_nth_firstn {A} (l : list A) i n x :
  i < n -> firstn n (set_nth l i x) = set_nth (firstn n l) i x.
Proof.
  revert i n; induction l as [|h t IH]; intros [|i] [|n] H; simpl; auto; try lia.
  f_equal. apply IH. lia.
Qed.

Lemma nth_firstn_lt {A} (l : list A) i n d : i < n -> nth i (firstn n l) d = nth i l d.
Proof.
  revert i n; induction l as [|h t IH]; intros [|i] [|n] H; simpl; auto; try lia.
  apply IH. lia.
Qed.

Lemma resize_length l n : length (resize l n) = n.
Proof. unfold resize. rewrite app_length, firstn_length, repeat_length. lia. Qed.

Lemma firstn_resize l n m : n <= length l -> n <= m -> firstn n (resize l m) = firstn n l.
Proof.
  intros H1 H2. unfold resize.
  rewrite firstn_app, firstn_firstn, firstn_length.
  replace (Nat.min n m) with n by lia.
  replace (n - Nat.min m (length l)) with 0 by lia. simpl. apply app_nil_r.
Qed.

Lemma vexpand_spec v size v1 b ev :
  wf v -> vexpand v size = (v1, b, ev) ->
  wf v1 /\ abs v1 = abs v /\ els_num v1 = els_num v /\ size <= cap v1 /\ cap v <= cap v1 /\
  (b = true <-> cap v < size) /\
  (match ev with Some (o, n) => o = cap v /\ n = cap v1 /\ b = true | None => cap v1 = cap v /\ b = false end).
Proof.
  unfold vexpand, wf, abs, cap. intros Hwf H.
  destruct (Nat.ltb_spec (length (buf v)) size) as [Hlt|Hge]; inversion H; subst; clear H; simpl.
  - rewrite resize_length. pose proof (Nat.div_le_upper_bound size 2 size ltac:(lia) ltac:(lia)).
    repeat split; try lia. apply firstn_resize; lia.
  - repeat split; try lia; try congruence.
Qed.

Lemma vpush1_abs v x : els_num v < cap v -> abs (vpush1 v x) = abs v ++ [Some x].
Proof. unfold abs, vpush1, cap; simpl. apply firstn_S_set_nth. Qed.

Lemma vpush1_cap v x : cap (vpush1 v x) = cap v.
Proof. unfold cap, vpush1; simpl. apply set_nth_length. Qed.

Lemma fold_vpush1 xs : forall v, els_num v + length xs <= cap v ->
  let v' := fold_left vpush1 xs v in
  abs v' = abs v ++ map Some xs /\ cap v' = cap v /\ els_num v' = els_num v + length xs.
Proof.
  induction xs as [|x xs IH]; intros v H; simpl in *.
  - rewrite app_nil_r. repeat split; lia.
  - destruct (IH (vpush1 v x)) as (A & B & C).
    { rewrite vpush1_cap. simpl. lia. }
    rewrite A, B, C, vpush1_cap, vpush1_abs by lia. simpl. rewrite <- app_assoc. simpl. repeat split; lia.
Qed.

Lemma abs_length v : wf v -> length (abs v) = els_num v.
Proof. unfold wf, abs, cap. intros. rewrite firstn_length. lia. Qed.

Lemma firstn_S_nth {A} (l : list A) n d : n < length l -> firstn (S n) l = firstn n l ++ [nth n l d].
Proof.
  revert n; induction l as [|h t IH]; intros [|n] H; simpl in *; try lia; auto.
  f_equal. apply IH. lia.
Qed.

Lemma rev_abs_S v n : wf v -> els_num v = S n ->
  rev (abs v) = nth n (buf v) None :: rev (firstn n (buf v)).
Proof.
  unfold wf, abs, cap. intros Hwf E. rewrite E.
  assert (Hn : n < length (buf v)) by lia.
  rewrite (firstn_S_nth _ _ None) by exact Hn.
  rewrite rev_app_distr. reflexivity.
Qed.

(* one step preserves well-formedness, reports true realloc sizes, and (for the list operations)
   is exactly the list operation on the live prefix *)
Lemma vstep_wf v o v' out ev : wf v -> vstep v o = Some (v', out, ev) -> wf v'.
Proof.
  intros Hwf H. destruct o; simpl in H.
  - destruct (vexpand v (els_num v + 1)) as [[v1 b] e] eqn:E. inversion H; subst.
    destruct (vexpand_spec _ _ _ _ _ Hwf E) as (W & A & N & C & _).
    unfold wf in *. rewrite vpush1_cap. simpl. lia.
  - destruct (vexpand v (els_num v + length xs)) as [[v1 b] e] eqn:E. inversion H; subst.
    destruct (vexpand_spec _ _ _ _ _ Hwf E) as (W & A & N & C & _).
    destruct (fold_vpush1 xs v1 ltac:(lia)) as (_ & B & D). unfold wf. lia.
  - destruct (els_num v) eqn:E; inversion H; subst. unfold wf, cap in *; simpl. lia.
  - destruct (Nat.leb_spec n (els_num v)); inversion H; subst. unfold wf, cap in *; simpl; lia.
  - destruct (vexpand v n) as [[v1 b] e] eqn:E. inversion H; subst.
    apply (vexpand_spec _ _ _ _ _ Hwf E).
  - destruct (Nat.eqb_spec (cap v) n); inversion H; subst; unfold wf, cap; simpl; try lia.
    rewrite resize_length. lia.
  - destruct (Nat.ltb_spec i (els_num v)); inversion H; subst. unfold wf, cap in *; simpl.
    rewrite set_nth_length. lia.
  - destruct (Nat.ltb_spec i (els_num v)); inversion H; subst. exact Hwf.
  - destruct (els_num v); inversion H; subst. exact Hwf.
  - inversion H; subst. exact Hwf.
  - inversion H; subst. exact Hwf.
Qed.

Lemma vstep_realloc_true v o v' out old new :
  wf v -> vstep v o = Some (v', out, Some (old, new)) -> old = cap v /\ new = cap v' /\ old <> new.
Proof.
  intros Hwf H. destruct o; simpl in H.
  - destruct (vexpand v (els_num v + 1)) as [[v1 b] e] eqn:E. inversion H; subst.
    destruct (vexpand_spec _ _ _ _ _ Hwf E) as (W & A & N & C & C2 & B & O & P & Q).
    rewrite vpush1_cap. subst. unfold wf in *. lia.
  - destruct (vexpand v (els_num v + length xs)) as [[v1 b] e] eqn:E. inversion H; subst.
    destruct (vexpand_spec _ _ _ _ _ Hwf E) as (W & A & N & C & C2 & B & O & P & Q).
    destruct (fold_vpush1 xs v1 ltac:(lia)) as (_ & D & _). subst. unfold wf in *. lia.
  - destruct (els_num v); inversion H.
  - destruct (Nat.leb n (els_num v)); inversion H.
  - destruct (vexpand v n) as [[v1 b] e] eqn:E. inversion H; subst.
    destruct (vexpand_spec _ _ _ _ _ Hwf E) as (W & A & N & C & C2 & B & O & P & Q). subst.
    unfold wf in *. lia.
  - destruct (Nat.eqb_spec (cap v) n); inversion H; subst. unfold cap; simpl. rewrite resize_length.
    unfold cap in *. lia.
  - destruct (Nat.ltb i (els_num v)); inversion H.
  - destruct (Nat.ltb i (els_num v)); inversion H.
  - destruct (els_num v); inversion H.
  - inversion H.
  - inversion H.
Qed.

Definition list_op (o : vop) : bool :=
  match o with VExpand _ | VTailor _ | VCapacity => false | _ => true end.

Lemma vstep_refines v o : wf v -> list_op o = true ->
  match vstep v o, sstep (abs v) o with
  | Some (v', out, _), Some (s', out') => abs v' = s' /\ out = out'
  | None, None => True
  | _, _ => False
  end.
Proof.
  intros Hwf Hl. destruct o; simpl in Hl; try discriminate; simpl.
  - destruct (vexpand v (els_num v + 1)) as [[v1 b] e] eqn:E.
    destruct (vexpand_spec _ _ _ _ _ Hwf E) as (W & A & N & C & _).
    split; auto. rewrite vpush1_abs by lia. now rewrite A.
  - destruct (vexpand v (els_num v + length xs)) as [[v1 b] e] eqn:E.
    destruct (vexpand_spec _ _ _ _ _ Hwf E) as (W & A & N & C & _).
    destruct (fold_vpush1 xs v1 ltac:(lia)) as (F & _). split; auto. now rewrite F, A.
  - destruct (els_num v) as [|n] eqn:E.
    + unfold abs. rewrite E. simpl. exact I.
    + rewrite (rev_abs_S v n Hwf E). rewrite rev_involutive. unfold abs; simpl. auto.
  - rewrite (abs_length v Hwf). destruct (Nat.leb_spec n (els_num v)); auto.
    unfold abs; simpl. rewrite firstn_firstn. split; auto. f_equal. lia.
  - rewrite (abs_length v Hwf). destruct (Nat.ltb_spec i (els_num v)); auto.
    unfold abs; simpl. split; auto. apply set_nth_firstn; lia.
  - rewrite (abs_length v Hwf). destruct (Nat.ltb_spec i (els_num v)); auto.
    split; auto. unfold abs. now rewrite nth_firstn_lt.
  - destruct (els_num v) as [|n] eqn:E.
    + unfold abs. rewrite E. simpl. exact I.
    + rewrite (rev_abs_S v n Hwf E). auto.
  - rewrite (abs_length v Hwf). auto.
Qed.

(* capacity operations never change the live contents; tailor keeps the common prefix *)
Lemma vstep_cap_ops v o v' out ev : wf v -> list_op o = false -> vstep v o = Some (v', out, ev) ->
  match o with
  | VTailor n => firstn (Nat.min n (els_num v)) (abs v') = firstn (Nat.min n (els_num v)) (abs v)
                 /\ els_num v' = n /\ cap v' = n
  | _ => abs v' = abs v
  end.
Proof.
  intros Hwf Hl H. destruct o; simpl in Hl; try discriminate; simpl in H.
  - destruct (vexpand v n) as [[v1 b] e] eqn:E. inversion H; subst.
    apply (vexpand_spec _ _ _ _ _ Hwf E).
  - unfold wf, cap in *.
    destruct (Nat.eqb_spec (length (buf v)) n); inversion H; subst; unfold abs, cap; simpl;
      rewrite ?resize_length, !firstn_firstn.
    + replace (Nat.min (Nat.min (length (buf v)) (els_num v)) (length (buf v))) with (Nat.min (length (buf v)) (els_num v)) by lia.
      replace (Nat.min (Nat.min (length (buf v)) (els_num v)) (els_num v)) with (Nat.min (length (buf v)) (els_num v)) by lia.
      auto.
    + replace (Nat.min (Nat.min n (els_num v)) n) with (Nat.min n (els_num v)) by lia.
      replace (Nat.min (Nat.min n (els_num v)) (els_num v)) with (Nat.min n (els_num v)) by lia.
      split; auto. apply firstn_resize; lia.
  - inversion H; subst. reflexivity.
Qed.

(* ---- lifted to every script *)
Fixpoint srun_mixed (v : varr) (ops : list vop) : Prop :=
  match ops with
  | [] => True
  | o :: r =>
      match vstep v o with
      | None => (if list_op o then sstep (abs v) o = None else True)
      | Some (v', out, ev) =>
          wf v' /\
          (if list_op o then sstep (abs v) o = Some (abs v', out) else True) /\
          (match ev with Some (a, b) => a = cap v /\ b = cap v' | None => cap v' = cap v end) /\
          srun_mixed v' r
      end
  end.

Lemma vstep_noev_cap v o v' out : wf v -> vstep v o = Some (v', out, None) -> cap v' = cap v.
Proof.
  intros Hwf H. destruct o; simpl in H.
  - destruct (vexpand v (els_num v + 1)) as [[v1 b] e] eqn:E. inversion H; subst.
    destruct (vexpand_spec _ _ _ _ _ Hwf E) as (_ & _ & _ & _ & _ & _ & Q). rewrite vpush1_cap. apply Q.
  - destruct (vexpand v (els_num v + length xs)) as [[v1 b] e] eqn:E. inversion H; subst.
    destruct (vexpand_spec _ _ _ _ _ Hwf E) as (W & A & N & C & _ & _ & Q).
    destruct (fold_vpush1 xs v1 ltac:(lia)) as (_ & D & _). rewrite D. apply Q.
  - destruct (els_num v); inversion H; subst. reflexivity.
  - destruct (Nat.leb n (els_num v)); inversion H; subst. reflexivity.
  - destruct (vexpand v n) as [[v1 b] e] eqn:E. inversion H; subst.
    destruct (vexpand_spec _ _ _ _ _ Hwf E) as (_ & _ & _ & _ & _ & _ & Q). apply Q.
  - destruct (Nat.eqb_spec (cap v) n); inversion H; subst. unfold cap; reflexivity.
  - destruct (Nat.ltb i (els_num v)); inversion H; subst. unfold cap; simpl. apply set_nth_length.
  - destruct (Nat.ltb i (els_num v)); inversion H; subst. reflexivity.
  - destruct (els_num v); inversion H; subst. reflexivity.
  - inversion H; subst. reflexivity.
  - inversion H; subst. reflexivity.
Qed.

Theorem varr_script_refines : forall ops v, wf v -> srun_mixed v ops.
Proof.
  induction ops as [|o r IH]; intros v Hwf; simpl; auto.
  destruct (vstep v o) as [[[v' out] ev]|] eqn:E.
  - pose proof (vstep_wf _ _ _ _ _ Hwf E) as W. split; auto. split; [|split].
    + destruct (list_op o) eqn:L; auto.
      pose proof (vstep_refines v o Hwf L) as R. rewrite E in R.
      destruct (sstep (abs v) o) as [[s' out']|]; [|contradiction]. destruct R; subst; auto.
    + destruct ev as [[a b]|].
      * destruct (vstep_realloc_true _ _ _ _ _ _ Hwf E) as (A & B & _); auto.
      * eapply vstep_noev_cap; eauto.
    + apply IH; auto.
  - destruct (list_op o) eqn:L; auto.
    pose proof (vstep_refines v o Hwf L) as R. rewrite E in R.
    destruct (sstep (abs v) o) as [[s' out']|]; [contradiction|reflexivity].
Qed.

Lemma vcreate_wf n : wf (vcreate n).
Proof. unfold wf, vcreate, cap; simpl. lia. Qed.

Example varr_nonvacuous :
  vrun (vcreate 2) [VPush 1%Z; VPush 2%Z; VPush 3%Z; VPop; VTrunc 1; VTailor 5; VGet 1; VLength] =
  [(ONone, None); (ONone, None); (ONone, Some (2, 4)); (OVal (Some 3%Z), None); (ONone, None);
   (ONone, Some (4, 5)); (OVal (Some 2%Z), None); (ONat 5, None)].
Proof. vm_compute. reflexivity. Qed.

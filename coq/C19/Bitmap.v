(* Model of mir-bitmap.h: definitions only (proofs are in BitmapProofs.v).

   A bitmap is the list of its live 64-bit words (VARR_LENGTH = length; the VARR capacity and the
   stale cells beyond els_num are not modelled: every function of the header only ever reads cells
   below els_num, and bitmap_expand pushes explicit zeros).  Words are [N]; every operation keeps
   them below 2^64 ([wfb]).  Bit numbers and lengths in bits are [N] (size_t wrap-around at 2^64 is
   not modelled: such bit numbers need 2^61 bytes of bitmap).

   Functions with several bitmap arguments whose result could depend on aliasing (op2/op3, copy)
   work on a *store* (bitmap id -> words), so that dst == src1, dst == src2, src1 == src2, ... are
   ordinary inputs, and the word loop reads and writes the store cell by cell exactly as the C
   loop reads and writes memory. *)
From Coq Require Import List NArith Bool Arith Lia.
Import ListNotations.
From MirV Require Import C19.Varr.   (* set_nth *)
Local Open Scope N_scope.

Definition bitmap := list N.
Definition store := list bitmap.

Definition ones64 : N := N.ones 64.
Definition not64 (x : N) : N := N.ldiff ones64 x.          (* ~x on uint64_t *)
Definition nz (w : N) : bool := negb (w =? 0).

(* number of words for nb bits: (nb + 63) / 64 *)
Definition words_for (nb : N) : nat := N.to_nat ((nb + 63) / 64).

(* bitmap_expand: for (i = len; i < new_len; i++) VARR_PUSH (bm, 0) *)
Definition expand (bm : bitmap) (nb : N) : bitmap :=
  bm ++ repeat 0 (words_for nb - length bm).

Definition wordix (nb : N) : nat := N.to_nat (nb / 64).

Definition bit_p (bm : bitmap) (nb : N) : bool :=
  if 64 * N.of_nat (length bm) <=? nb then false
  else negb (N.land (N.shiftr (nth (wordix nb) bm 0) (nb mod 64)) 1 =? 0).

Definition set_bit_p (bm : bitmap) (nb : N) : bitmap * bool :=
  let bm1 := expand bm (nb + 1) in
  let w := nth (wordix nb) bm1 0 in
  let sh := nb mod 64 in
  (set_nth bm1 (wordix nb) (N.lor w (N.shiftl 1 sh)), N.land (N.shiftr w sh) 1 =? 0).

Definition clear_bit_p (bm : bitmap) (nb : N) : bitmap * bool :=
  if 64 * N.of_nat (length bm) <=? nb then (bm, false)
  else
    let w := nth (wordix nb) bm 0 in
    let sh := nb mod 64 in
    (set_nth bm (wordix nb) (N.land w (not64 (N.shiftl 1 sh))), negb (N.land (N.shiftr w sh) 1 =? 0)).

(* one iteration of the while loop of bitmap_set_or_clear_bit_range_p *)
Definition range_rsh (nb len : N) : N :=
  let lsh := nb mod 64 in
  if 64 - lsh <=? len then 0 else 64 - (nb + len) mod 64.
Definition range_mask (nb len : N) : N :=
  let lsh := nb mod 64 in
  N.land (N.shiftl (N.shiftr ones64 (range_rsh nb len + lsh)) lsh) ones64.

Fixpoint range_loop (fuel : nat) (setp : bool) (bm : bitmap) (nb len : N) (res : bool)
  : option (bitmap * bool) :=
  if len =? 0 then Some (bm, res)
  else match fuel with
       | O => None
       | S f =>
         let nw := wordix nb in
         let lsh := nb mod 64 in
         let rsh := range_rsh nb len in
         let mask := range_mask nb len in
         let w := nth nw bm 0 in
         let w' := if setp then N.lor w mask else N.land w (not64 mask) in
         let r := if setp then nz (N.land (not64 w) mask) else nz (N.land w mask) in
         let range_len := 64 - rsh - lsh in
         range_loop f setp (set_nth bm nw w') (nb + range_len) (len - range_len) (res || r)
       end.

Definition range_fuel (len : N) : nat := N.to_nat (len / 64) + 2.

Definition set_or_clear_bit_range_p (bm : bitmap) (nb len : N) (setp : bool) : option (bitmap * bool) :=
  range_loop (range_fuel len) setp (expand bm (nb + len)) nb len false.

(* bitmap_copy: trunc or expand dst to src_len words, then memcpy src_len words *)
Definition copy (dst src : bitmap) : bitmap :=
  let sl := length src in
  let d1 := if Nat.leb sl (length dst) then firstn sl dst else expand dst (N.of_nat sl * 64) in
  firstn sl src ++ skipn sl d1.

Fixpoint words_eqb (a b : list N) : bool :=
  match a, b with
  | [], [] => true
  | x :: a', y :: b' => (x =? y) && words_eqb a' b'
  | _, _ => false
  end.

Definition equal_p (bm1 bm2 : bitmap) : bool :=
  let '(a, b) := if Nat.ltb (length bm2) (length bm1) then (bm2, bm1) else (bm1, bm2) in
  if words_eqb a (firstn (length a) b) then forallb (fun w => w =? 0) (skipn (length a) b) else false.

Definition intersect_p (bm1 bm2 : bitmap) : bool :=
  existsb (fun p => nz (N.land (fst p) (snd p))) (combine bm1 bm2).

Definition empty_p (bm : bitmap) : bool := forallb (fun w => w =? 0) bm.

(* for (; el != 0; el >>= 1) if (el & 1) count++; *)
Fixpoint popcount_pos (p : positive) : N :=
  match p with xH => 1 | xO p' => popcount_pos p' | xI p' => 1 + popcount_pos p' end.
Definition popcount (w : N) : N := match w with N0 => 0 | Npos p => popcount_pos p end.
Definition bit_count (bm : bitmap) : N := fold_left (fun c w => c + popcount w) bm 0.

(* for (count = 0; el != 0; el >>= 1, count++) if (el & 1) return count *)
Fixpoint low_scan (p : positive) (count : N) : N :=
  match p with xO p' => low_scan p' (count + 1) | _ => count end.

Fixpoint bit_min_from (ws : list N) (i : N) : N :=
  match ws with
  | [] => 0
  | N0 :: r => bit_min_from r (i + 1)
  | Npos p :: r => i * 64 + low_scan p 0
  end.
Definition bit_min (bm : bitmap) : N := bit_min_from bm 0.

(* for (count = 63; count >= 0; count--) if ((el >> count) & 1) return count *)
Fixpoint hi_scan (c : nat) (el : N) : option N :=
  if N.testbit el (N.of_nat c) then Some (N.of_nat c)
  else match c with O => None | S c' => hi_scan c' el end.

(* words given last-first together with their index *)
Fixpoint bit_max_from (rws : list (nat * N)) : N :=
  match rws with
  | [] => 0
  | (i, el) :: r =>
    if el =? 0 then bit_max_from r
    else match hi_scan 63 el with
         | Some c => N.of_nat i * 64 + c
         | None => bit_max_from r
         end
  end.
Definition bit_max (bm : bitmap) : N := bit_max_from (rev (combine (seq 0 (length bm)) bm)).

(* ---- iterator: state = nbit.  Returns (Some found | None, new nbit). *)
Definition iter_word (el nbit : N) : option N :=
  match N.shiftr el (nbit mod 64) with N0 => None | Npos p => Some (low_scan p nbit) end.

Fixpoint iter_words (ws : list N) (curr nbit : N) : option N * N :=
  match ws with
  | [] => (None, nbit)
  | el :: r =>
    match (if el =? 0 then None else iter_word el nbit) with
    | Some b => (Some b, b + 1)
    | None => iter_words r (curr + 1) ((curr + 1) * 64)
    end
  end.

Definition iterator_next (bm : bitmap) (nbit : N) : option N * N :=
  let curr := nbit / 64 in iter_words (skipn (N.to_nat curr) bm) curr nbit.

(* FOREACH_BITMAP_BIT: all values delivered; None when the fuel runs out before FALSE is returned *)
Fixpoint iter_all (fuel : nat) (bm : bitmap) (nbit : N) : option (list N) :=
  match fuel with
  | O => None
  | S f => match iterator_next bm nbit with
           | (None, _) => Some []
           | (Some b, nbit') => match iter_all f bm nbit' with
                                | Some l => Some (b :: l)
                                | None => None
                                end
           end
  end.
Definition foreach_fuel (bm : bitmap) : nat := 64 * length bm + 1.
Definition foreach (bm : bitmap) : option (list N) := iter_all (foreach_fuel bm) bm 0.

(* ---- op2 / op3 on a store, cell by cell *)
Definition getb (st : store) (b : nat) : bitmap := nth b st [].
Definition getw (st : store) (b i : nat) : N := nth i (getb st b) 0.
Definition setw (st : store) (b i : nat) (v : N) : store := set_nth st b (set_nth (getb st b) i v).

Fixpoint opn_loop (f : list N -> N) (dst : nat) (srcs : list (nat * nat)) (n i : nat) (st : store)
         (bound : nat) (ch : bool) : store * nat * bool :=
  match n with
  | O => (st, bound, ch)
  | S n' =>
    let old := getw st dst i in
    let v := f (map (fun sl => if Nat.leb (snd sl) i then 0 else getw st (fst sl) i) srcs) in
    let st' := setw st dst i v in
    opn_loop f dst srcs n' (S i) st' (if v =? 0 then bound else S i) (ch || negb (old =? v))
  end.

(* [scan] = the repaired code (fixes/C19-1.patch): words of dst beyond max(src lens), which VARR_TRUNC
   drops, are scanned for non-zero.  [scan = false] is the code as it was at the pinned commit. *)
Definition opn (scan : bool) (f : list N -> N) (dst : nat) (srcs : list nat) (st : store) : store * bool :=
  let sl := map (fun s => (s, length (getb st s))) srcs in
  let len := fold_right Nat.max O (map snd sl) in
  let st1 := set_nth st dst (expand (getb st dst) (N.of_nat len * 64)) in
  let '(st2, bound, ch) := opn_loop f dst sl len O st1 O false in
  let d2 := getb st2 dst in
  let ch' := if scan then ch || existsb nz (skipn len d2) else ch in
  (set_nth st2 dst (firstn bound d2), ch').

Definition f_and (ws : list N) : N := match ws with [a; b] => N.land a b | _ => 0 end.
Definition f_and_compl (ws : list N) : N := match ws with [a; b] => N.land a (not64 b) | _ => 0 end.
Definition f_ior (ws : list N) : N := match ws with [a; b] => N.lor a b | _ => 0 end.
Definition f_ior_and (ws : list N) : N := match ws with [a; b; c] => N.lor a (N.land b c) | _ => 0 end.
Definition f_ior_and_compl (ws : list N) : N :=
  match ws with [a; b; c] => N.lor a (N.land b (not64 c)) | _ => 0 end.

(* ---- scripts *)
Inductive bop :=
| BBit (b : nat) (n : N) | BSet (b : nat) (n : N) | BClr (b : nat) (n : N)
| BSetR (b : nat) (n len : N) | BClrR (b : nat) (n len : N)
| BClear (b : nat) | BExpand (b : nat) (n : N)
| BCopy (d s : nat) | BEq (a b : nat) | BIsect (a b : nat) | BEmpty (b : nat)
| BCount (b : nat) | BMin (b : nat) | BMax (b : nat)
| BAnd (d a b : nat) | BAndC (d a b : nat) | BIor (d a b : nat)
| BIorAnd (d a b c : nat) | BIorAndC (d a b c : nat)
| BIter (b : nat)                       (* whole FOREACH_BITMAP_BIT *)
| BIterInit (b : nat) | BIterNext.      (* one iterator, stepped between other ops *)

Inductive bout := BoNone | BoBool (b : bool) | BoNum (n : N) | BoList (l : list N) | BoNext (r : option N).

Record bstate := { bst : store; bit_bm : nat; bit_nbit : N }.

Definition valid (st : store) (ids : list nat) : bool := forallb (fun b => Nat.ltb b (length st)) ids.

Definition upd1 (s : bstate) (b : nat) (bm : bitmap) : bstate :=
  {| bst := set_nth (bst s) b bm; bit_bm := bit_bm s; bit_nbit := bit_nbit s |}.
Definition updst (s : bstate) (st : store) : bstate :=
  {| bst := st; bit_bm := bit_bm s; bit_nbit := bit_nbit s |}.

Definition bstep (scan : bool) (s : bstate) (o : bop) : option (bstate * bout) :=
  let st := bst s in
  let g := getb st in
  match o with
  | BBit b n => if valid st [b] then Some (s, BoBool (bit_p (g b) n)) else None
  | BSet b n => if valid st [b] then let '(bm, r) := set_bit_p (g b) n in Some (upd1 s b bm, BoBool r) else None
  | BClr b n => if valid st [b] then let '(bm, r) := clear_bit_p (g b) n in Some (upd1 s b bm, BoBool r) else None
  | BSetR b n len =>
    if valid st [b] then match set_or_clear_bit_range_p (g b) n len true with
                         | Some (bm, r) => Some (upd1 s b bm, BoBool r) | None => None end else None
  | BClrR b n len =>
    if valid st [b] then match set_or_clear_bit_range_p (g b) n len false with
                         | Some (bm, r) => Some (upd1 s b bm, BoBool r) | None => None end else None
  | BClear b => if valid st [b] then Some (upd1 s b [], BoNone) else None
  | BExpand b n => if valid st [b] then Some (upd1 s b (expand (g b) n), BoNone) else None
  | BCopy d a => if valid st [d; a] then Some (upd1 s d (copy (g d) (g a)), BoNone) else None
  | BEq a b => if valid st [a; b] then Some (s, BoBool (equal_p (g a) (g b))) else None
  | BIsect a b => if valid st [a; b] then Some (s, BoBool (intersect_p (g a) (g b))) else None
  | BEmpty b => if valid st [b] then Some (s, BoBool (empty_p (g b))) else None
  | BCount b => if valid st [b] then Some (s, BoNum (bit_count (g b))) else None
  | BMin b => if valid st [b] then Some (s, BoNum (bit_min (g b))) else None
  | BMax b => if valid st [b] then Some (s, BoNum (bit_max (g b))) else None
  | BAnd d a b => if valid st [d; a; b] then let '(st', r) := opn scan f_and d [a; b] st in Some (updst s st', BoBool r) else None
  | BAndC d a b => if valid st [d; a; b] then let '(st', r) := opn scan f_and_compl d [a; b] st in Some (updst s st', BoBool r) else None
  | BIor d a b => if valid st [d; a; b] then let '(st', r) := opn scan f_ior d [a; b] st in Some (updst s st', BoBool r) else None
  | BIorAnd d a b c => if valid st [d; a; b; c] then let '(st', r) := opn scan f_ior_and d [a; b; c] st in Some (updst s st', BoBool r) else None
  | BIorAndC d a b c => if valid st [d; a; b; c] then let '(st', r) := opn scan f_ior_and_compl d [a; b; c] st in Some (updst s st', BoBool r) else None
  | BIter b => if valid st [b] then match foreach (g b) with Some l => Some (s, BoList l) | None => None end else None
  | BIterInit b => if valid st [b] then Some ({| bst := st; bit_bm := b; bit_nbit := 0 |}, BoNone) else None
  | BIterNext =>
    if valid st [bit_bm s] then
      let '(r, nbit') := iterator_next (g (bit_bm s)) (bit_nbit s) in
      Some ({| bst := st; bit_bm := bit_bm s; bit_nbit := nbit' |}, BoNext r)
    else None
  end.

Definition binit (n : nat) : bstate := {| bst := repeat [] n; bit_bm := 0; bit_nbit := 0 |}.

(* ---- the abstract reading of a bitmap: its set of members *)
Definition wbit (bm : bitmap) (n : N) : bool := N.testbit (nth (wordix n) bm 0) (n mod 64).
Definition wfb (bm : bitmap) : Prop := Forall (fun w => w < 2 ^ 64) bm.
Definition wfs (st : store) : Prop := Forall wfb st.

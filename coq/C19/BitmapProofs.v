(* Proofs about the model of mir-bitmap.h (Bitmap.v). *)
From Coq Require Import List ZArith NArith Bool Arith Lia Sorted.
Import ListNotations.
From MirV Require Import C19.Varr C19.VarrProofs C19.Bitmap.
Local Open Scope N_scope.

(* ------------------------------------------------------------------ lists *)
Lemma nth_set_nth_neq {A} (l : list A) i j x d : i <> j -> nth j (set_nth l i x) d = nth j l d.
Proof.
  revert i j; induction l as [|h t IH]; intros [|i] [|j] H; simpl; auto; try congruence.
Qed.

Lemma nth_set_nth {A} (l : list A) i j x d :
  nth j (set_nth l i x) d = if Nat.eqb i j then (if Nat.ltb i (length l) then x else nth j l d) else nth j l d.
Proof.
  destruct (Nat.eqb_spec i j) as [->|Hne].
  - destruct (Nat.ltb_spec j (length l)) as [Hlt|Hge].
    + apply nth_set_nth_eq; auto.
    + revert j Hge. induction l as [|h t IH]; intros [|j] Hge; simpl in *; auto; try lia. apply IH. lia.
  - apply nth_set_nth_neq; auto.
Qed.

Lemma nth_app_repeat {A} (l : list A) k i d : nth i (l ++ repeat d k) d = nth i l d.
Proof.
  destruct (Nat.ltb_spec i (length l)) as [Hlt|Hge].
  - apply app_nth1; auto.
  - rewrite app_nth2 by auto. rewrite (nth_overflow l) by auto.
    destruct (Nat.ltb_spec (i - length l) k) as [H1|H1].
    + apply nth_repeat.
    + apply nth_overflow. rewrite repeat_length. auto.
Qed.

(* ------------------------------------------------------------------ words *)
Lemma land_1 x : N.land x 1 = if N.odd x then 1 else 0.
Proof. destruct x as [|[p|p|]]; reflexivity. Qed.

Lemma tb_shift w sh : negb (N.land (N.shiftr w sh) 1 =? 0) = N.testbit w sh.
Proof. rewrite N.testbit_odd, land_1. destruct (N.odd _); reflexivity. Qed.

Lemma tb_shift' w sh : (N.land (N.shiftr w sh) 1 =? 0) = negb (N.testbit w sh).
Proof. rewrite <- tb_shift, negb_involutive. reflexivity. Qed.

Lemma lt_pow2_bits w k : w < 2 ^ k -> forall j, k <= j -> N.testbit w j = false.
Proof.
  intros H j Hj. destruct (N.eq_dec w 0) as [->|Hnz]; [apply N.bits_0|].
  apply N.bits_above_log2. apply N.log2_lt_pow2 in H; lia.
Qed.

Lemma bits_lt_pow2 w k : (forall j, k <= j -> N.testbit w j = false) -> w < 2 ^ k.
Proof.
  intros H. destruct (N.eq_dec w 0) as [->|Hnz]; [apply N.neq_0_lt_0, N.pow_nonzero; lia|].
  apply N.log2_lt_pow2; [lia|].
  destruct (N.lt_ge_cases (N.log2 w) k) as [Hlt|Hge]; auto.
  specialize (H _ Hge). rewrite N.bit_log2 in H by auto. discriminate.
Qed.

Lemma word_ext a b : a < 2 ^ 64 -> b < 2 ^ 64 ->
  (forall j, j < 64 -> N.testbit a j = N.testbit b j) -> a = b.
Proof.
  intros Ha Hb H. apply N.bits_inj. intros j.
  destruct (N.lt_ge_cases j 64) as [Hlt|Hge]; auto.
  rewrite (lt_pow2_bits a 64), (lt_pow2_bits b 64); auto.
Qed.

Lemma not64_spec x j : N.testbit (not64 x) j = (j <? 64) && negb (N.testbit x j).
Proof.
  unfold not64, ones64. rewrite N.ldiff_spec.
  destruct (N.ltb_spec j 64) as [H|H].
  - rewrite N.ones_spec_low by auto. reflexivity.
  - rewrite N.ones_spec_high by auto. reflexivity.
Qed.

Lemma not64_lt x : not64 x < 2 ^ 64.
Proof.
  apply bits_lt_pow2. intros j Hj. rewrite not64_spec.
  destruct (N.ltb_spec j 64); [lia|reflexivity].
Qed.

Lemma nz_true w : nz w = true <-> w <> 0.
Proof. unfold nz. destruct (N.eqb_spec w 0); simpl; split; congruence. Qed.

Lemma nz_bits w : nz w = true <-> exists j, N.testbit w j = true.
Proof.
  rewrite nz_true. split.
  - intros H. exists (N.log2 w). apply N.bit_log2; auto.
  - intros [j Hj] ->. rewrite N.bits_0 in Hj. discriminate.
Qed.

(* ------------------------------------------------------------------ wbit basics *)
Lemma wordix_lt n len : n < 64 * N.of_nat len <-> (wordix n < len)%nat.
Proof.
  unfold wordix. split; intros H.
  - assert (n / 64 < N.of_nat len) by (apply N.div_lt_upper_bound; lia). lia.
  - assert (Hn : n / 64 < N.of_nat len) by lia.
    pose proof (N.mul_succ_div_gt n 64 ltac:(lia)). lia.
Qed.

Lemma bit_p_spec bm n : bit_p bm n = wbit bm n.
Proof.
  unfold bit_p, wbit. destruct (N.leb_spec (64 * N.of_nat (length bm)) n) as [H|H].
  - rewrite nth_overflow; [symmetry; apply N.bits_0|].
    destruct (Nat.le_gt_cases (length bm) (wordix n)) as [H1|H1]; auto.
    apply wordix_lt in H1. lia.
  - apply tb_shift.
Qed.

Lemma wbit_expand bm nb n : wbit (expand bm nb) n = wbit bm n.
Proof. unfold wbit, expand. rewrite nth_app_repeat. reflexivity. Qed.

Lemma wfb_expand bm nb : wfb bm -> wfb (expand bm nb).
Proof.
  unfold wfb, expand. intros H. apply Forall_app. split; auto.
  apply Forall_forall. intros x Hx. apply repeat_spec in Hx. subst. reflexivity.
Qed.

Lemma wfb_nth bm i : wfb bm -> nth i bm 0 < 2 ^ 64.
Proof.
  intros H. destruct (Nat.ltb_spec i (length bm)) as [Hlt|Hge].
  - unfold wfb in H. rewrite Forall_forall in H. apply H. apply nth_In. auto.
  - rewrite nth_overflow by auto. reflexivity.
Qed.

Lemma wfb_set_nth bm i w : wfb bm -> w < 2 ^ 64 -> wfb (set_nth bm i w).
Proof.
  unfold wfb. revert i. induction bm as [|h t IH]; intros [|i] H Hw; simpl; auto.
  - inversion H; subst. constructor; auto.
  - inversion H; subst. constructor; auto.
Qed.

Lemma wbit_set_nth bm i w n : (i < length bm)%nat ->
  wbit (set_nth bm i w) n = if Nat.eqb i (wordix n) then N.testbit w (n mod 64) else wbit bm n.
Proof.
  intros Hi. unfold wbit. rewrite nth_set_nth.
  destruct (Nat.eqb_spec i (wordix n)); auto.
  destruct (Nat.ltb_spec i (length bm)); auto. lia.
Qed.

Lemma expand_length bm nb : length (expand bm nb) = Nat.max (length bm) (words_for nb).
Proof. unfold expand. rewrite app_length, repeat_length. lia. Qed.

Lemma words_for_gt n k : n < k -> (wordix n < words_for k)%nat.
Proof.
  unfold wordix, words_for. intros H.
  assert (n / 64 < (k + 63) / 64).
  { apply N.div_lt_upper_bound; [lia|].
    pose proof (N.mul_div_le (k + 63) 64 ltac:(lia)).
    pose proof (N.mod_lt (k + 63) 64 ltac:(lia)).
    pose proof (N.div_mod (k + 63) 64 ltac:(lia)). lia. }
  lia.
Qed.

(* two bitmaps denote the same set iff their words agree at every index *)
Definition same_set (a b : bitmap) : Prop := forall n, wbit a n = wbit b n.
Definition changed (a b : bitmap) : Prop := exists n, wbit a n <> wbit b n.

Lemma nm_decomp i j : j < 64 -> wordix (N.of_nat i * 64 + j) = i /\ (N.of_nat i * 64 + j) mod 64 = j.
Proof.
  intros Hj. unfold wordix.
  replace (N.of_nat i * 64 + j) with (j + N.of_nat i * 64) by lia. split.
  - rewrite N.div_add by lia. rewrite N.div_small by auto. lia.
  - rewrite N.mod_add by lia. apply N.mod_small; auto.
Qed.

Lemma same_set_words a b : wfb a -> wfb b ->
  (same_set a b <-> forall i, nth i a 0 = nth i b 0).
Proof.
  intros Ha Hb. split.
  - intros H i. apply word_ext; try apply wfb_nth; auto.
    intros j Hj. specialize (H (N.of_nat i * 64 + j)). unfold wbit in H.
    destruct (nm_decomp i j Hj) as [E1 E2]. rewrite E1, E2 in H. exact H.
  - intros H n. unfold wbit. rewrite H. reflexivity.
Qed.

Lemma changed_words a b : wfb a -> wfb b ->
  (changed a b <-> exists i, nth i a 0 <> nth i b 0).
Proof.
  intros Ha Hb. split.
  - intros [n Hn]. exists (wordix n). intros E. apply Hn. unfold wbit. rewrite E. reflexivity.
  - intros [i Hi].
    destruct (N.eq_dec (N.lxor (nth i a 0) (nth i b 0)) 0) as [E|E].
    + apply N.lxor_eq in E. contradiction.
    + assert (Hx : exists j, N.testbit (N.lxor (nth i a 0) (nth i b 0)) j = true).
      { apply nz_bits. apply nz_true. auto. }
      destruct Hx as [j Hj]. rewrite N.lxor_spec in Hj.
      assert (Hj64 : j < 64).
      { destruct (N.lt_ge_cases j 64) as [|Hge]; auto.
        rewrite (lt_pow2_bits _ 64 (wfb_nth a i Ha)), (lt_pow2_bits _ 64 (wfb_nth b i Hb)) in Hj by auto.
        discriminate. }
      exists (N.of_nat i * 64 + j). unfold wbit.
      destruct (nm_decomp i j Hj64) as [E1 E2]. rewrite E1, E2.
      intros E3. rewrite E3 in Hj. rewrite xorb_nilpotent in Hj. discriminate.
Qed.

(* ------------------------------------------------------------------ set / clear one bit *)
Lemma eq_by_parts m n : (m =? n) = Nat.eqb (wordix m) (wordix n) && (m mod 64 =? n mod 64).
Proof.
  unfold wordix.
  pose proof (N.div_mod m 64 ltac:(lia)). pose proof (N.div_mod n 64 ltac:(lia)).
  destruct (N.eqb_spec m n) as [->|Hne].
  - rewrite Nat.eqb_refl, N.eqb_refl. reflexivity.
  - destruct (Nat.eqb_spec (N.to_nat (m / 64)) (N.to_nat (n / 64))) as [E1|E1]; auto.
    destruct (N.eqb_spec (m mod 64) (n mod 64)) as [E2|E2]; auto.
    exfalso. apply Hne. assert (m / 64 = n / 64) by lia. congruence.
Qed.

Lemma bit1_spec sh j : N.testbit (N.shiftl 1 sh) j = (sh =? j).
Proof. rewrite N.shiftl_1_l. apply N.pow2_bits_eqb. Qed.

Lemma mod64_lt n : n mod 64 < 64.
Proof. apply N.mod_lt. lia. Qed.

Theorem set_bit_p_spec bm n bm' r : wfb bm -> set_bit_p bm n = (bm', r) ->
  wfb bm' /\ (forall m, wbit bm' m = (m =? n) || wbit bm m) /\ (r = true <-> changed bm' bm).
Proof.
  intros Hwf H. unfold set_bit_p in H. inversion H; subst; clear H.
  set (bm1 := expand bm (n + 1)). set (w := nth (wordix n) bm1 0).
  assert (Hi : (wordix n < length bm1)%nat).
  { unfold bm1. rewrite expand_length. pose proof (words_for_gt n (n + 1) ltac:(lia)). lia. }
  assert (Hw1 : wfb bm1) by (apply wfb_expand; auto).
  assert (Hbits : forall m, wbit (set_nth bm1 (wordix n) (N.lor w (N.shiftl 1 (n mod 64)))) m
                            = (m =? n) || wbit bm m).
  { intros m. rewrite wbit_set_nth by auto. rewrite eq_by_parts.
    destruct (Nat.eqb_spec (wordix n) (wordix m)) as [E|E].
    - rewrite E, Nat.eqb_refl. cbn [andb orb negb]. rewrite N.lor_spec, bit1_spec.
      unfold w. rewrite E. fold (wbit bm1 m). unfold bm1. rewrite wbit_expand.
      rewrite (N.eqb_sym (m mod 64)). apply orb_comm.
    - destruct (Nat.eqb_spec (wordix m) (wordix n)); [congruence|]. simpl.
      unfold bm1. apply wbit_expand. }
  split; [|split].
  - assert (Hlt : N.lor w (N.shiftl 1 (n mod 64)) < 2 ^ 64).
    { apply bits_lt_pow2. intros j Hj.
      rewrite N.lor_spec, bit1_spec. rewrite (lt_pow2_bits w 64) by (auto; apply wfb_nth; auto).
      pose proof (mod64_lt n). destruct (N.eqb_spec (n mod 64) j); [lia|reflexivity]. }
    apply wfb_set_nth; auto.
  - exact Hbits.
  - rewrite tb_shift'. fold w.
    assert (Ew : N.testbit w (n mod 64) = wbit bm n).
    { unfold w. fold (wbit bm1 n). unfold bm1. apply wbit_expand. }
    rewrite Ew. split.
    + intros Hr. exists n. rewrite Hbits, N.eqb_refl. simpl.
      destruct (wbit bm n); simpl in *; congruence.
    + intros [m Hm]. rewrite Hbits in Hm.
      destruct (N.eqb_spec m n) as [E|E]; [subst m|]; simpl in Hm; [|congruence].
      destruct (wbit bm n); simpl in *; congruence.
Qed.

Theorem clear_bit_p_spec bm n bm' r : wfb bm -> clear_bit_p bm n = (bm', r) ->
  wfb bm' /\ (forall m, wbit bm' m = negb (m =? n) && wbit bm m) /\ (r = true <-> changed bm' bm).
Proof.
  intros Hwf H. unfold clear_bit_p in H.
  destruct (N.leb_spec (64 * N.of_nat (length bm)) n) as [Hout|Hin].
  - injection H as E1 E2; subst bm' r.
    assert (Hn : wbit bm n = false).
    { rewrite <- bit_p_spec. unfold bit_p. destruct (N.leb_spec (64 * N.of_nat (length bm)) n); auto. lia. }
    split; [auto|split].
    + intros m. destruct (N.eqb_spec m n) as [->|]; simpl; auto.
    + split; [discriminate|]. intros [m Hm]. congruence.
  - injection H as E1 E2; subst bm' r.
    set (w := nth (wordix n) bm 0).
    assert (Hi : (wordix n < length bm)%nat) by (apply wordix_lt; auto).
    assert (Hbits : forall m, wbit (set_nth bm (wordix n) (N.land w (not64 (N.shiftl 1 (n mod 64))))) m
                              = negb (m =? n) && wbit bm m).
    { intros m. rewrite wbit_set_nth by auto. rewrite eq_by_parts.
      destruct (Nat.eqb_spec (wordix n) (wordix m)) as [E|E].
      - rewrite E, Nat.eqb_refl. cbn [andb orb negb]. rewrite N.land_spec, not64_spec, bit1_spec.
        pose proof (mod64_lt m) as Hm. destruct (N.ltb_spec (m mod 64) 64); [|lia]. simpl.
        unfold w. rewrite E. fold (wbit bm m). rewrite (N.eqb_sym (m mod 64)). apply andb_comm.
      - destruct (Nat.eqb_spec (wordix m) (wordix n)); [congruence|]. reflexivity. }
    split; [|split].
    + assert (Hlt : N.land w (not64 (N.shiftl 1 (n mod 64))) < 2 ^ 64).
      { apply bits_lt_pow2. intros j Hj.
        rewrite N.land_spec. rewrite (lt_pow2_bits w 64) by (auto; apply wfb_nth; auto). reflexivity. }
      apply wfb_set_nth; auto.
    + exact Hbits.
    + rewrite tb_shift. fold w. change (N.testbit w (n mod 64)) with (wbit bm n). split.
      * intros Hr. exists n. rewrite Hbits, N.eqb_refl. simpl. congruence.
      * intros [m Hm]. rewrite Hbits in Hm.
        destruct (N.eqb_spec m n) as [E|E]; [subst m|]; simpl in Hm; [|congruence].
        destruct (wbit bm n); simpl in *; congruence.
Qed.

(* ------------------------------------------------------------------ set / clear a range *)
Ltac dm x := pose proof (N.div_mod x 64 ltac:(lia)); pose proof (N.mod_lt x 64 ltac:(lia)).
(* same, then abstract x/64 and x mod 64 into variables (lia is confused by the div/mod terms) *)
Ltac dmg x := let q := fresh "q" in let r := fresh "r" in
  dm x; set (q := x / 64) in *; set (r := x mod 64) in *; clearbody q r.

Lemma inword_lo nb m : wordix m = wordix nb -> (nb <=? m) = (nb mod 64 <=? m mod 64).
Proof.
  unfold wordix. intros E. assert (E' : m / 64 = nb / 64) by lia.
  destruct (N.leb_spec nb m), (N.leb_spec (nb mod 64) (m mod 64)); auto; exfalso; dmg m; dmg nb; lia.
Qed.

Lemma inword_hi nb m k : wordix m = wordix nb -> nb mod 64 + k <= 64 ->
  (m <? nb + k) = (m mod 64 <? nb mod 64 + k).
Proof.
  unfold wordix. intros E Hk. assert (E' : m / 64 = nb / 64) by lia.
  destruct (N.ltb_spec m (nb + k)), (N.ltb_spec (m mod 64) (nb mod 64 + k)); auto; exfalso; dmg m; dmg nb; lia.
Qed.

Lemma outword nb m k : wordix m <> wordix nb -> nb mod 64 + k <= 64 ->
  (nb <=? m) && (m <? nb + k) = false.
Proof.
  unfold wordix. intros E Hk. assert (E' : m / 64 <> nb / 64) by lia.
  destruct (N.leb_spec nb m), (N.ltb_spec m (nb + k)); auto; exfalso; dmg m; dmg nb; lia.
Qed.

Definition rl (nb len : N) : N := N.min len (64 - nb mod 64).

Ltac gmod x := let r := fresh "r" in pose proof (N.mod_lt x 64 ltac:(lia)); set (r := x mod 64) in *; clearbody r.

Lemma addmod nb k : nb mod 64 + k < 64 -> (nb + k) mod 64 = nb mod 64 + k.
Proof.
  intros H. dm nb. symmetry. apply (N.mod_unique (nb + k) 64 (nb / 64)); [exact H|].
  set (q := nb / 64) in *. set (r := nb mod 64) in *. clearbody q r. lia.
Qed.

Lemma addmod0 nb k : nb mod 64 + k = 64 -> (nb + k) mod 64 = 0.
Proof.
  intros H. dm nb. symmetry. apply (N.mod_unique (nb + k) 64 (nb / 64 + 1)); [lia|].
  set (q := nb / 64) in *. set (r := nb mod 64) in *. clearbody q r. lia.
Qed.

Lemma range_len_eq nb len : 0 < len -> 64 - range_rsh nb len - nb mod 64 = rl nb len.
Proof.
  intros Hl. unfold range_rsh, rl.
  destruct (N.leb_spec (64 - nb mod 64) len) as [H|H]; [gmod nb; lia|].
  rewrite addmod by (gmod nb; lia). gmod nb. lia.
Qed.

Lemma range_rsh_eq nb len : 0 < len -> range_rsh nb len + nb mod 64 + rl nb len = 64.
Proof.
  intros Hl. unfold range_rsh, rl.
  destruct (N.leb_spec (64 - nb mod 64) len) as [H|H]; [gmod nb; lia|].
  rewrite addmod by (gmod nb; lia). gmod nb. lia.
Qed.

Lemma rl_bounds nb len : 0 < len -> 0 < rl nb len /\ rl nb len <= len /\ nb mod 64 + rl nb len <= 64.
Proof. intros Hl. unfold rl. gmod nb. lia. Qed.

Lemma rl_next nb len : 0 < len -> rl nb len < len -> (nb + rl nb len) mod 64 = 0.
Proof. intros Hl H. apply addmod0. unfold rl in *. gmod nb. lia. Qed.

Lemma wordix_bound nb len k : 0 < len -> nb + len <= 64 * N.of_nat k -> (wordix nb < k)%nat.
Proof.
  unfold wordix. intros Hl H. dmg nb.
  assert (q < N.of_nat k) by lia. lia.
Qed.

Lemma fuel_init nb len : nb mod 64 + len <= 64 * N.of_nat (range_fuel len).
Proof. unfold range_fuel. gmod nb. dmg len. lia. Qed.

Lemma range_mask_spec nb len j : 0 < len ->
  N.testbit (range_mask nb len) j = (nb mod 64 <=? j) && (j <? nb mod 64 + rl nb len).
Proof.
  intros Hl. unfold range_mask. pose proof (range_rsh_eq nb len Hl) as Hr.
  pose proof (rl_bounds nb len Hl) as [Hb1 [Hb2 Hb3]].
  rewrite N.land_spec. unfold ones64.
  destruct (N.leb_spec (nb mod 64) j) as [Hlo|Hlo].
  - rewrite N.shiftl_spec_high' by auto. rewrite N.shiftr_spec'.
    destruct (N.ltb_spec j (nb mod 64 + rl nb len)) as [Hhi|Hhi].
    + rewrite !N.ones_spec_low by lia. reflexivity.
    + rewrite (N.ones_spec_high 64 (j - nb mod 64 + _)) by lia. reflexivity.
  - rewrite N.shiftl_spec_low by auto. reflexivity.
Qed.

Lemma range_mask_lt nb len : range_mask nb len < 2 ^ 64.
Proof.
  apply bits_lt_pow2. intros j Hj. unfold range_mask. rewrite N.land_spec.
  unfold ones64. rewrite (N.ones_spec_high 64 j) by auto. apply andb_false_r.
Qed.

Definition in_range (nb len m : N) : bool := (nb <=? m) && (m <? nb + len).

Lemma range_step_bits bm nb len setp w' : 0 < len -> (wordix nb < length bm)%nat ->
  w' = (if setp : bool then N.lor (nth (wordix nb) bm 0) (range_mask nb len)
        else N.land (nth (wordix nb) bm 0) (not64 (range_mask nb len))) ->
  forall m, wbit (set_nth bm (wordix nb) w') m = if in_range nb (rl nb len) m then setp else wbit bm m.
Proof.
  intros Hl Hi -> m. pose proof (rl_bounds nb len Hl) as [Hb1 [Hb2 Hb3]].
  rewrite wbit_set_nth by auto. unfold in_range.
  destruct (Nat.eqb_spec (wordix nb) (wordix m)) as [E|E].
  - rewrite (inword_lo nb m) by auto. rewrite (inword_hi nb m (rl nb len)) by auto.
    pose proof (mod64_lt m) as Hm.
    destruct setp.
    + rewrite N.lor_spec, range_mask_spec by auto. rewrite E. fold (wbit bm m).
      destruct ((nb mod 64 <=? m mod 64) && (m mod 64 <? nb mod 64 + rl nb len)); [apply orb_true_r|apply orb_false_r].
    + rewrite N.land_spec, not64_spec, range_mask_spec by auto. rewrite E. fold (wbit bm m).
      destruct (N.ltb_spec (m mod 64) 64); [|lia]. cbn [andb].
      destruct ((nb mod 64 <=? m mod 64) && (m mod 64 <? nb mod 64 + rl nb len)); [apply andb_false_r|apply andb_true_r].
  - rewrite outword by auto. reflexivity.
Qed.

(* the flag of one iteration: some bit of the current word inside the range has the other value *)
Lemma range_step_flag bm nb len setp : 0 < len -> wfb bm ->
  (if setp : bool then nz (N.land (not64 (nth (wordix nb) bm 0)) (range_mask nb len))
   else nz (N.land (nth (wordix nb) bm 0) (range_mask nb len))) = true
  <-> exists m, in_range nb (rl nb len) m = true /\ wbit bm m <> setp.
Proof.
  intros Hl Hwf. pose proof (rl_bounds nb len Hl) as [Hb1 [Hb2 Hb3]].
  set (w := nth (wordix nb) bm 0).
  assert (Hj : forall j, j < 64 ->
             wordix (N.of_nat (wordix nb) * 64 + j) = wordix nb /\ (N.of_nat (wordix nb) * 64 + j) mod 64 = j).
  { intros j H. apply nm_decomp. auto. }
  assert (Hcore : (exists j, (nb mod 64 <=? j) && (j <? nb mod 64 + rl nb len) = true /\ N.testbit w j <> setp)
                  <-> exists m, in_range nb (rl nb len) m = true /\ wbit bm m <> setp).
  { split.
    - intros [j [H1 H2]].
      assert (Hj64 : j < 64).
      { apply andb_true_iff in H1. destruct H1 as [_ H1]. apply N.ltb_lt in H1. lia. }
      destruct (Hj j Hj64) as [E1 E2].
      exists (N.of_nat (wordix nb) * 64 + j). split.
      + unfold in_range. rewrite (inword_lo nb _ E1), (inword_hi nb _ _ E1 Hb3), E2. exact H1.
      + unfold wbit. rewrite E1, E2. exact H2.
    - intros [m [H1 H2]]. unfold in_range in H1.
      destruct (Nat.eq_dec (wordix m) (wordix nb)) as [E|E].
      + exists (m mod 64). rewrite (inword_lo nb m E), (inword_hi nb m _ E Hb3) in H1. split; auto.
        unfold wbit in H2. rewrite E in H2. exact H2.
      + rewrite outword in H1 by auto. discriminate. }
  rewrite <- Hcore. destruct setp.
  - rewrite nz_bits. split.
    + intros [j Hjb]. rewrite N.land_spec, not64_spec, range_mask_spec in Hjb by auto.
      exists j. apply andb_true_iff in Hjb. destruct Hjb as [H1 H2]. split; auto.
      apply andb_true_iff in H1. destruct H1 as [_ H1]. fold w in H1.
      destruct (N.testbit w j); simpl in *; congruence.
    + intros [j [H1 H2]]. exists j. rewrite N.land_spec, not64_spec, range_mask_spec by auto.
      fold w. rewrite H1.
      assert (Hj64 : j < 64).
      { apply andb_true_iff in H1. destruct H1 as [_ H1]. apply N.ltb_lt in H1. lia. }
      destruct (N.ltb_spec j 64); [|lia].
      destruct (N.testbit w j); simpl in *; congruence.
  - rewrite nz_bits. split.
    + intros [j Hjb]. rewrite N.land_spec, range_mask_spec in Hjb by auto.
      exists j. apply andb_true_iff in Hjb. destruct Hjb as [H1 H2]. split; auto. fold w in H1. congruence.
    + intros [j [H1 H2]]. exists j. rewrite N.land_spec, range_mask_spec by auto.
      fold w. rewrite H1. destruct (N.testbit w j); simpl in *; congruence.
Qed.

Lemma range_loop_0 fuel setp bm nb res : range_loop fuel setp bm nb 0 res = Some (bm, res).
Proof. destruct fuel; reflexivity. Qed.

Lemma in_range_split nb len k m : k <= len ->
  in_range nb len m = in_range nb k m || in_range (nb + k) (len - k) m.
Proof.
  intros Hk. unfold in_range.
  destruct (N.leb_spec nb m), (N.ltb_spec m (nb + len)), (N.ltb_spec m (nb + k)),
    (N.leb_spec (nb + k) m), (N.ltb_spec m (nb + k + (len - k))); simpl; auto; exfalso; lia.
Qed.

Lemma in_range_disj nb len k m : in_range nb k m = true -> in_range (nb + k) (len - k) m = false.
Proof.
  unfold in_range. intros H. apply andb_true_iff in H. destruct H as [H1 H2].
  apply N.ltb_lt in H2. destruct (N.leb_spec (nb + k) m); [lia|reflexivity].
Qed.

Lemma range_loop_spec : forall fuel setp bm nb len res,
  wfb bm -> nb + len <= 64 * N.of_nat (length bm) ->
  (len = 0 \/ nb mod 64 + len <= 64 * N.of_nat fuel) ->
  exists bm' r, range_loop fuel setp bm nb len res = Some (bm', r) /\ wfb bm' /\ length bm' = length bm /\
    (forall m, wbit bm' m = if in_range nb len m then setp else wbit bm m) /\
    (r = true <-> res = true \/ exists m, in_range nb len m = true /\ wbit bm m <> setp).
Proof.
  induction fuel as [|f IH]; intros setp bm nb len res Hwf Hlen Hfuel.
  - assert (len = 0) as -> by (destruct Hfuel as [|H]; [auto|gmod nb; lia]).
    exists bm, res. rewrite range_loop_0. repeat split; auto.
    + intros m. unfold in_range. destruct (N.leb_spec nb m), (N.ltb_spec m (nb + 0)); simpl; auto; lia.
    + intros [H|[m [H _]]]; auto. unfold in_range in H.
      destruct (N.leb_spec nb m), (N.ltb_spec m (nb + 0)); simpl in H; try discriminate; lia.
  - destruct (N.eq_dec len 0) as [->|Hnz].
    + exists bm, res. rewrite range_loop_0. repeat split; auto.
      * intros m. unfold in_range. destruct (N.leb_spec nb m), (N.ltb_spec m (nb + 0)); simpl; auto; lia.
      * intros [H|[m [H _]]]; auto. unfold in_range in H.
        destruct (N.leb_spec nb m), (N.ltb_spec m (nb + 0)); simpl in H; try discriminate; lia.
    + assert (Hl : 0 < len) by lia.
      destruct Hfuel as [|Hfuel]; [contradiction|].
      pose proof (rl_bounds nb len Hl) as [Hb1 [Hb2 Hb3]].
      pose proof (wordix_bound nb len (length bm) Hl Hlen) as Hi.
      cbn [range_loop]. destruct (N.eqb_spec len 0) as [|_]; [contradiction|].
      rewrite (range_len_eq nb len Hl).
      set (w' := if setp then N.lor (nth (wordix nb) bm 0) (range_mask nb len)
                 else N.land (nth (wordix nb) bm 0) (not64 (range_mask nb len))).
      set (rs := if setp then nz (N.land (not64 (nth (wordix nb) bm 0)) (range_mask nb len))
                 else nz (N.land (nth (wordix nb) bm 0) (range_mask nb len))).
      assert (Hw' : w' < 2 ^ 64).
      { unfold w'. pose proof (wfb_nth bm (wordix nb) Hwf) as Hw. destruct setp.
        - apply bits_lt_pow2. intros j Hj. rewrite N.lor_spec.
          rewrite (lt_pow2_bits _ 64 Hw), (lt_pow2_bits _ 64 (range_mask_lt nb len)) by auto. reflexivity.
        - apply bits_lt_pow2. intros j Hj. rewrite N.land_spec.
          rewrite (lt_pow2_bits _ 64 Hw) by auto. reflexivity. }
      pose proof (range_step_bits bm nb len setp w' Hl Hi eq_refl) as Hbits1.
      pose proof (range_step_flag bm nb len setp Hl Hwf) as Hflag1. fold rs in Hflag1.
      destruct (IH setp (set_nth bm (wordix nb) w') (nb + rl nb len) (len - rl nb len) (res || rs))
        as [bm' [r [Hrun [Hwf' [Hlen' [Hbits Hflag]]]]]].
      * apply wfb_set_nth; auto.
      * rewrite set_nth_length. lia.
      * destruct (N.eq_dec (rl nb len) len) as [E|E]; [left; lia|right].
        rewrite rl_next by lia. unfold rl in *. gmod nb. lia.
      * exists bm', r. split; [exact Hrun|]. split; [exact Hwf'|]. split; [rewrite Hlen'; apply set_nth_length|].
        split.
        -- intros m. rewrite Hbits, Hbits1. rewrite (in_range_split nb len (rl nb len) m Hb2).
           destruct (in_range nb (rl nb len) m) eqn:E1; simpl.
           ++ destruct (in_range (nb + rl nb len) (len - rl nb len) m); reflexivity.
           ++ reflexivity.
        -- rewrite Hflag. rewrite orb_true_iff. rewrite Hflag1. split.
           ++ intros [[H|[m [H1 H2]]]|[m [H1 H2]]]; auto.
              ** right. exists m. split; auto. rewrite (in_range_split nb len (rl nb len) m Hb2), H1. reflexivity.
              ** right. exists m. rewrite Hbits1 in H2.
                 destruct (in_range nb (rl nb len) m) eqn:E1; [congruence|].
                 split; auto. rewrite (in_range_split nb len (rl nb len) m Hb2), E1, H1. reflexivity.
           ++ intros [H|[m [H1 H2]]]; auto.
              rewrite (in_range_split nb len (rl nb len) m Hb2) in H1.
              destruct (in_range nb (rl nb len) m) eqn:E1.
              ** left. right. exists m. auto.
              ** right. exists m. simpl in H1. split; auto. rewrite Hbits1, E1. exact H2.
Qed.

Theorem set_or_clear_bit_range_p_spec bm nb len setp : wfb bm ->
  exists bm' r, set_or_clear_bit_range_p bm nb len setp = Some (bm', r) /\ wfb bm' /\
    (forall m, wbit bm' m = if in_range nb len m then setp else wbit bm m) /\
    (r = true <-> changed bm' bm).
Proof.
  intros Hwf. unfold set_or_clear_bit_range_p.
  destruct (range_loop_spec (range_fuel len) setp (expand bm (nb + len)) nb len false)
    as [bm' [r [Hrun [Hwf' [_ [Hbits Hflag]]]]]].
  - apply wfb_expand; auto.
  - rewrite expand_length. unfold words_for.
    assert (nb + len <= 64 * ((nb + len + 63) / 64)).
    { dmg (nb + len + 63). lia. }
    lia.
  - right. apply fuel_init.
  - exists bm', r. split; [exact Hrun|]. split; [exact Hwf'|]. split.
    + intros m. rewrite Hbits, wbit_expand. reflexivity.
    + rewrite Hflag. split.
      * intros [H|[m [H1 H2]]]; [discriminate|]. exists m. rewrite Hbits, H1.
        rewrite wbit_expand in H2. congruence.
      * intros [m Hm]. right. exists m. rewrite Hbits, wbit_expand in Hm.
        destruct (in_range nb len m); [|congruence]. split; auto. rewrite wbit_expand. congruence.
Qed.

(* ------------------------------------------------------------------ copy / equal / intersect / empty *)
Theorem copy_spec dst src : copy dst src = src.
Proof.
  unfold copy. rewrite firstn_all.
  assert (H : length (if (length src <=? length dst)%nat then firstn (length src) dst
                      else expand dst (N.of_nat (length src) * 64)) = length src).
  { destruct (Nat.leb_spec (length src) (length dst)) as [H|H].
    - rewrite firstn_length. lia.
    - rewrite expand_length. unfold words_for.
      replace ((N.of_nat (length src) * 64 + 63) / 64) with (N.of_nat (length src)).
      + lia.
      + apply (N.div_unique _ 64 _ 63); lia. }
  rewrite skipn_all2 by lia. apply app_nil_r.
Qed.

Lemma words_eqb_spec a b : words_eqb a b = true <-> a = b.
Proof.
  revert b; induction a as [|x a IH]; intros [|y b]; simpl; split; intros H; auto; try discriminate.
  - apply andb_true_iff in H. destruct H as [H1 H2]. apply N.eqb_eq in H1. apply IH in H2. congruence.
  - inversion H; subst. rewrite N.eqb_refl. simpl. apply IH. reflexivity.
Qed.

Lemma nth_firstn_skipn_eq (a b : list N) : (length a <= length b)%nat ->
  ((forall i, nth i a 0 = nth i b 0) <-> a = firstn (length a) b /\ Forall (fun w => w = 0) (skipn (length a) b)).
Proof.
  revert b; induction a as [|x a IH]; intros b Hlen.
  - simpl. split.
    + intros H. split; auto. apply Forall_forall. intros w Hw.
      apply In_nth with (d := 0) in Hw. destruct Hw as [i [_ Hi]]. rewrite <- Hi, <- H. destruct i; reflexivity.
    + intros [_ H] i. rewrite Forall_forall in H.
      destruct (Nat.ltb_spec i (length b)) as [Hi|Hi].
      * rewrite (H (nth i b 0)) by (apply nth_In; auto). destruct i; reflexivity.
      * rewrite nth_overflow by auto. destruct i; reflexivity.
  - destruct b as [|y b]; simpl in Hlen; [lia|]. simpl. split.
    + intros H. pose proof (H O) as H0. simpl in H0. subst y.
      destruct (proj1 (IH b ltac:(lia))) as [E1 E2].
      * intros i. apply (H (S i)).
      * split; auto. f_equal. exact E1.
    + intros [E1 E2] [|i]; simpl.
      * congruence.
      * apply (proj2 (IH b ltac:(lia))). split; auto. congruence.
Qed.

Lemma equal_p_words a b : equal_p a b = true <-> forall i, nth i a 0 = nth i b 0.
Proof.
  assert (Hcore : forall a b : list N, (length a <= length b)%nat ->
            ((if words_eqb a (firstn (length a) b) then forallb (fun w => w =? 0) (skipn (length a) b) else false) = true
             <-> forall i, nth i a 0 = nth i b 0)).
  { intros a0 b0 Hl. rewrite (nth_firstn_skipn_eq a0 b0 Hl). split.
    - intros H. destruct (words_eqb a0 (firstn (length a0) b0)) eqn:E; [|discriminate].
      apply words_eqb_spec in E. split; auto. rewrite forallb_forall in H. apply Forall_forall.
      intros w Hw. apply N.eqb_eq. apply H; auto.
    - intros [E1 E2]. apply words_eqb_spec in E1. rewrite E1. apply forallb_forall.
      rewrite Forall_forall in E2. intros w Hw. apply N.eqb_eq. apply E2; auto. }
  unfold equal_p. destruct (Nat.ltb_spec (length b) (length a)) as [H|H].
  - rewrite (Hcore b a) by lia. split; intros H1 i; symmetry; apply H1.
  - apply Hcore. lia.
Qed.

Theorem equal_p_spec a b : wfb a -> wfb b -> (equal_p a b = true <-> same_set a b).
Proof. intros Ha Hb. rewrite equal_p_words. symmetry. apply same_set_words; auto. Qed.

Lemma combine_nth_lt {A B} (a : list A) (b : list B) i x y :
  (i < length a)%nat -> (i < length b)%nat -> nth i (combine a b) (x, y) = (nth i a x, nth i b y).
Proof.
  revert b i; induction a as [|h t IH]; intros [|h' t'] [|i] Ha Hb; simpl in *; try lia; auto.
  apply IH; lia.
Qed.

Theorem intersect_p_spec a b : wfb a -> wfb b ->
  (intersect_p a b = true <-> exists n, wbit a n = true /\ wbit b n = true).
Proof.
  intros Ha Hb. unfold intersect_p. rewrite existsb_exists. split.
  - intros [[x y] [Hin Hnz]]. simpl in Hnz. apply nz_bits in Hnz. destruct Hnz as [j Hj].
    rewrite N.land_spec in Hj. apply andb_true_iff in Hj. destruct Hj as [Hx Hy].
    apply In_nth with (d := (0, 0)) in Hin. destruct Hin as [i [Hi Hnth]].
    rewrite combine_length in Hi.
    rewrite combine_nth_lt in Hnth by lia. inversion Hnth; subst.
    assert (Hj64 : j < 64).
    { destruct (N.lt_ge_cases j 64) as [|Hge]; auto.
      rewrite (lt_pow2_bits _ 64 (wfb_nth a i Ha)) in Hx by auto. discriminate. }
    exists (N.of_nat i * 64 + j). unfold wbit. destruct (nm_decomp i j Hj64) as [E1 E2].
    rewrite E1, E2. auto.
  - intros [n [H1 H2]]. unfold wbit in *.
    assert (Hia : (wordix n < length a)%nat).
    { destruct (Nat.ltb_spec (wordix n) (length a)); auto. rewrite nth_overflow in H1 by auto.
      rewrite N.bits_0 in H1. discriminate. }
    assert (Hib : (wordix n < length b)%nat).
    { destruct (Nat.ltb_spec (wordix n) (length b)); auto. rewrite nth_overflow in H2 by auto.
      rewrite N.bits_0 in H2. discriminate. }
    exists (nth (wordix n) a 0, nth (wordix n) b 0). split.
    + rewrite <- combine_nth_lt by auto. apply nth_In. rewrite combine_length. lia.
    + simpl. apply nz_bits. exists (n mod 64). rewrite N.land_spec, H1, H2. reflexivity.
Qed.

Theorem empty_p_spec a : wfb a -> (empty_p a = true <-> forall n, wbit a n = false).
Proof.
  intros Ha. unfold empty_p. rewrite forallb_forall. split.
  - intros H n. unfold wbit. destruct (Nat.ltb_spec (wordix n) (length a)) as [Hi|Hi].
    + rewrite (proj1 (N.eqb_eq _ _) (H _ (nth_In a 0 Hi))). apply N.bits_0.
    + rewrite nth_overflow by auto. apply N.bits_0.
  - intros H w Hw. apply N.eqb_eq. apply In_nth with (d := 0) in Hw. destruct Hw as [i [Hi Hnth]].
    subst w. apply word_ext; [apply wfb_nth; auto|reflexivity|].
    intros j Hj. rewrite N.bits_0. specialize (H (N.of_nat i * 64 + j)). unfold wbit in H.
    destruct (nm_decomp i j Hj) as [E1 E2]. rewrite E1, E2 in H. exact H.
Qed.

(* ------------------------------------------------------------------ op2 / op3 on the store *)
Lemma getb_set_nth st b x b' : (b < length st)%nat ->
  getb (set_nth st b x) b' = if Nat.eqb b b' then x else getb st b'.
Proof.
  intros Hb. unfold getb. rewrite nth_set_nth.
  destruct (Nat.eqb_spec b b'); auto. destruct (Nat.ltb_spec b (length st)); auto. lia.
Qed.

Lemma getw_setw st b i v b' j : (b < length st)%nat -> (i < length (getb st b))%nat ->
  getw (setw st b i v) b' j = if Nat.eqb b b' && Nat.eqb i j then v else getw st b' j.
Proof.
  intros Hb Hi. unfold getw, setw. rewrite getb_set_nth by auto.
  destruct (Nat.eqb_spec b b') as [->|]; simpl; auto.
  rewrite nth_set_nth. destruct (Nat.eqb_spec i j); auto.
  destruct (Nat.ltb_spec i (length (getb st b'))); auto. lia.
Qed.

Definition srcw (st : store) (sl : list (nat * nat)) (j : nat) : list N :=
  map (fun sl => if Nat.leb (snd sl) j then 0 else getw st (fst sl) j) sl.

Lemma srcw_setw st sl b i v j : (b < length st)%nat -> (i < length (getb st b))%nat -> i <> j ->
  srcw (setw st b i v) sl j = srcw st sl j.
Proof.
  intros Hb Hi Hne. unfold srcw. apply map_ext. intros [s l]. simpl.
  rewrite getw_setw by auto. destruct (Nat.eqb_spec i j); [contradiction|].
  rewrite andb_false_r. reflexivity.
Qed.

Lemma opn_loop_spec f dst sl : forall n i st bound ch st' bound' ch',
  (dst < length st)%nat -> (i + n <= length (getb st dst))%nat -> (bound <= i)%nat ->
  opn_loop f dst sl n i st bound ch = (st', bound', ch') ->
  length st' = length st /\
  (forall b, b <> dst -> getb st' b = getb st b) /\
  length (getb st' dst) = length (getb st dst) /\
  (forall j, getw st' dst j = if Nat.leb i j && Nat.ltb j (i + n) then f (srcw st sl j) else getw st dst j) /\
  (bound <= bound')%nat /\ (bound' <= i + n)%nat /\
  (forall j, (bound' <= j)%nat -> (i <= j < i + n)%nat -> f (srcw st sl j) = 0) /\
  (ch' = true <-> ch = true \/ exists j, (i <= j < i + n)%nat /\ getw st dst j <> f (srcw st sl j)).
Proof.
  induction n as [|n IH]; intros i st bound ch st' bound' ch' Hdst Hlen Hbd Hrun.
  - simpl in Hrun. inversion Hrun; subst; clear Hrun.
    split; [reflexivity|]. split; [reflexivity|]. split; [reflexivity|]. split.
    { intros j. destruct (Nat.leb_spec i j), (Nat.ltb_spec j (i + 0)); simpl; auto; lia. }
    split; [lia|]. split; [lia|]. split.
    { intros j H1 H2. exfalso. lia. }
    split; [auto|]. intros [H|[j [H _]]]; [auto|exfalso; lia].
  - cbn [opn_loop] in Hrun.
    set (v := f (map (fun sl0 => if Nat.leb (snd sl0) i then 0 else getw st (fst sl0) i) sl)) in *.
    assert (Hv : v = f (srcw st sl i)) by reflexivity.
    set (st1 := setw st dst i v) in *.
    assert (Hi : (i < length (getb st dst))%nat) by lia.
    assert (Hl1 : length st1 = length st) by (unfold st1, setw; apply set_nth_length).
    assert (Hg1 : forall b, getb st1 b = if Nat.eqb dst b then set_nth (getb st dst) i v else getb st b).
    { intros b. unfold st1, setw. apply getb_set_nth; auto. }
    assert (Hd1 : length (getb st1 dst) = length (getb st dst)).
    { rewrite Hg1, Nat.eqb_refl. apply set_nth_length. }
    apply IH in Hrun; [|lia|lia|destruct (v =? 0); lia].
    destruct Hrun as [R1 [R2 [R3 [R4 [R5 [R6 [R7 R8]]]]]]].
    split; [lia|]. split.
    { intros b Hb. rewrite R2 by auto. rewrite Hg1. destruct (Nat.eqb_spec dst b); [congruence|reflexivity]. }
    split; [lia|]. split.
    { intros j. rewrite R4. unfold st1 at 2. rewrite getw_setw by auto. rewrite Nat.eqb_refl. cbn [andb].
      destruct (Nat.eqb_spec i j) as [<-|Hne].
      - destruct (Nat.leb_spec (S i) i); [lia|]. cbn [andb].
        destruct (Nat.leb_spec i i); [|lia]. destruct (Nat.ltb_spec i (i + S n)); [|lia]. cbn [andb]. exact Hv.
      - unfold st1. rewrite srcw_setw by auto.
        destruct (Nat.leb_spec (S i) j), (Nat.ltb_spec j (S i + n)), (Nat.leb_spec i j), (Nat.ltb_spec j (i + S n));
          cbn [andb]; auto; lia. }
    split.
    { destruct (v =? 0); lia. }
    split.
    { destruct (v =? 0); lia. }
    split.
    { intros j Hb Hj. destruct (Nat.eq_dec i j) as [<-|Hne].
      - destruct (N.eqb_spec v 0) as [E|E]; [congruence|]. lia.
      - rewrite <- (srcw_setw st sl dst i v j) by auto. apply R7; auto. lia. }
    rewrite R8. rewrite orb_true_iff, negb_true_iff, N.eqb_neq. split.
    + intros [[H|H]|[j [Hj H]]]; auto.
      * right. exists i. split; [lia|]. rewrite <- Hv. exact H.
      * right. exists j. split; [lia|]. unfold st1 in H.
        rewrite getw_setw, srcw_setw in H by (auto; lia).
        destruct (Nat.eqb_spec i j); [lia|]. rewrite andb_false_r in H. exact H.
    + intros [H|[j [Hj H]]]; auto.
      destruct (Nat.eq_dec i j) as [<-|Hne].
      * left. right. rewrite Hv. exact H.
      * right. exists j. split; [lia|]. unfold st1.
        rewrite getw_setw, srcw_setw by (auto; lia).
        destruct (Nat.eqb_spec i j); [lia|]. rewrite andb_false_r. exact H.
Qed.

Record bitwise (f : list N -> N) (fb : list bool -> bool) : Prop := {
  bw_lt : forall ws, Forall (fun w => w < 2 ^ 64) ws -> f ws < 2 ^ 64;
  bw_zero : forall ws, Forall (fun w => w = 0) ws -> f ws = 0;
  bw_bits : forall ws j, Forall (fun w => w < 2 ^ 64) ws -> j < 64 ->
            N.testbit (f ws) j = fb (map (fun w => N.testbit w j) ws) }.

Lemma nth_firstn_N (l : list N) b j : nth j (firstn b l) 0 = if Nat.ltb j b then nth j l 0 else 0.
Proof.
  revert b j; induction l as [|x l IH]; intros [|b] [|j]; simpl; auto.
  - destruct (Nat.ltb (S j) (S b)); reflexivity.
  - rewrite IH. reflexivity.
Qed.

Lemma wfb_of_nth (l : list N) : (forall j, nth j l 0 < 2 ^ 64) -> wfb l.
Proof.
  intros H. apply Forall_forall. intros w Hw. apply In_nth with (d := 0) in Hw.
  destruct Hw as [j [_ <-]]. apply H.
Qed.

Lemma max_fold_ge (l : list nat) x : In x l -> (x <= fold_right Nat.max O l)%nat.
Proof. induction l as [|y l IH]; simpl; [intros []|intros [->|H]]; try lia. specialize (IH H). lia. Qed.

Lemma nth_skipn_N (l : list N) k j : nth j (skipn k l) 0 = nth (k + j) l 0.
Proof.
  revert l; induction k as [|k IH]; intros l; simpl; auto.
  destruct l as [|x l]; [destruct j; reflexivity|]. apply IH.
Qed.

Lemma existsb_skipn_nz (l : list N) k : existsb nz (skipn k l) = true <-> exists j, (k <= j)%nat /\ nth j l 0 <> 0.
Proof.
  rewrite existsb_exists. split.
  - intros [w [Hin Hnz]]. apply nz_true in Hnz. apply In_nth with (d := 0) in Hin.
    destruct Hin as [j [Hj Hn]]. rewrite nth_skipn_N in Hn. exists (k + j)%nat. split; [lia|congruence].
  - intros [j [Hj Hnz]]. exists (nth j l 0). split; [|apply nz_true; auto].
    replace j with (k + (j - k))%nat by lia. rewrite <- nth_skipn_N. apply nth_In.
    rewrite skipn_length.
    destruct (Nat.ltb_spec j (length l)); [lia|]. rewrite nth_overflow in Hnz by auto. congruence.
Qed.

(* the word-level meaning of op2/op3 for EVERY choice of ids (all aliasing patterns) *)
Theorem opn_words f dst srcs st st' r :
  (forall ws, Forall (fun w => w < 2 ^ 64) ws -> f ws < 2 ^ 64) ->
  (forall ws, Forall (fun w => w = 0) ws -> f ws = 0) ->
  wfs st -> (dst < length st)%nat ->
  opn true f dst srcs st = (st', r) ->
  length st' = length st /\
  (forall b, b <> dst -> getb st' b = getb st b) /\
  (forall j, nth j (getb st' dst) 0 = f (map (fun s => nth j (getb st s) 0) srcs)) /\
  wfb (getb st' dst) /\
  (r = true <-> exists j, nth j (getb st' dst) 0 <> nth j (getb st dst) 0).
Proof.
  intros Hflt Hfz Hwf Hdst Hop. unfold opn in Hop.
  set (sl := map (fun s => (s, length (getb st s))) srcs) in *.
  set (len := fold_right Nat.max O (map snd sl)) in *.
  set (D0 := expand (getb st dst) (N.of_nat len * 64)) in *.
  set (st1 := set_nth st dst D0) in *.
  destruct (opn_loop f dst sl len O st1 O false) as [[st2 bound] ch] eqn:Hloop.
  inversion Hop; subst st' r; clear Hop.
  assert (Hwfb : forall b, wfb (getb st b)).
  { intros b. unfold getb. destruct (Nat.ltb_spec b (length st)) as [H|H].
    - unfold wfs in Hwf. rewrite Forall_forall in Hwf. apply Hwf. apply nth_In. auto.
    - rewrite nth_overflow by auto. constructor. }
  assert (HD0len : length D0 = Nat.max (length (getb st dst)) len).
  { unfold D0. rewrite expand_length. unfold words_for.
    replace ((N.of_nat len * 64 + 63) / 64) with (N.of_nat len); [lia|].
    apply (N.div_unique _ 64 _ 63); lia. }
  assert (Hl1 : length st1 = length st) by (unfold st1; apply set_nth_length).
  assert (Hg1 : forall b, getb st1 b = if Nat.eqb dst b then D0 else getb st b).
  { intros b. unfold st1. apply getb_set_nth. auto. }
  assert (HD0nth : forall j, nth j D0 0 = nth j (getb st dst) 0).
  { intros j. unfold D0, expand. apply nth_app_repeat. }
  assert (Hw1 : forall s j, getw st1 s j = nth j (getb st s) 0).
  { intros s j. unfold getw. rewrite Hg1. destruct (Nat.eqb_spec dst s) as [<-|]; auto. }
  assert (HW : forall j, srcw st1 sl j = map (fun s => nth j (getb st s) 0) srcs).
  { intros j. unfold srcw, sl. rewrite map_map. apply map_ext. intros s. simpl.
    destruct (Nat.leb_spec (length (getb st s)) j) as [H|H]; [|apply Hw1].
    rewrite nth_overflow by auto. reflexivity. }
  assert (Hlens : forall s, In s srcs -> (length (getb st s) <= len)%nat).
  { intros s Hs. unfold len. apply max_fold_ge. unfold sl. rewrite map_map. simpl.
    apply in_map_iff. exists s. auto. }
  assert (HWz : forall j, (len <= j)%nat -> f (map (fun s => nth j (getb st s) 0) srcs) = 0).
  { intros j Hj. apply Hfz. apply Forall_forall. intros w Hw. apply in_map_iff in Hw.
    destruct Hw as [s [<- Hs]]. apply nth_overflow. specialize (Hlens s Hs). lia. }
  assert (HWlt : forall j, f (map (fun s => nth j (getb st s) 0) srcs) < 2 ^ 64).
  { intros j. apply Hflt. apply Forall_forall. intros w Hw. apply in_map_iff in Hw.
    destruct Hw as [s [<- Hs]]. apply wfb_nth. apply Hwfb. }
  apply opn_loop_spec in Hloop; [|lia|rewrite Hg1, Nat.eqb_refl; lia|lia].
  destruct Hloop as [R1 [R2 [R3 [R4 [_ [R6 [R7 R8]]]]]]].
  assert (Hd2 : forall j, nth j (getb st2 dst) 0
                          = if Nat.ltb j len then f (map (fun s => nth j (getb st s) 0) srcs)
                            else nth j (getb st dst) 0).
  { intros j. change (nth j (getb st2 dst) 0) with (getw st2 dst j). rewrite R4, HW, Hw1.
    destruct (Nat.leb_spec O j); [|lia]. reflexivity. }
  assert (Hres : forall j, nth j (getb (set_nth st2 dst (firstn bound (getb st2 dst))) dst) 0
                           = f (map (fun s => nth j (getb st s) 0) srcs)).
  { intros j. rewrite getb_set_nth by lia. rewrite Nat.eqb_refl. rewrite nth_firstn_N, Hd2.
    destruct (Nat.ltb_spec j bound) as [Hb|Hb].
    - destruct (Nat.ltb_spec j len); [reflexivity|lia].
    - destruct (Nat.ltb_spec j len) as [Hl|Hl].
      + rewrite <- HW. symmetry. apply R7; lia.
      + symmetry. apply HWz. lia. }
  split; [rewrite set_nth_length; lia|]. split.
  { intros b Hb. rewrite getb_set_nth by lia. destruct (Nat.eqb_spec dst b); [congruence|].
    rewrite R2 by auto. rewrite Hg1. destruct (Nat.eqb_spec dst b); [congruence|reflexivity]. }
  split; [exact Hres|]. split.
  { apply wfb_of_nth. intros j. rewrite Hres. apply HWlt. }
  rewrite orb_true_iff, R8, existsb_skipn_nz. split.
  - intros [[H|[j [Hj H]]]|[j [Hj H]]]; [discriminate| |].
    + exists j. rewrite Hres. rewrite Hw1, HW in H. congruence.
    + exists j. rewrite Hres. rewrite Hd2 in H. destruct (Nat.ltb_spec j len); [lia|].
      rewrite HWz by auto. congruence.
  - intros [j H]. rewrite Hres in H. destruct (Nat.ltb_spec j len) as [Hl|Hl].
    + left. right. exists j. split; [lia|]. rewrite Hw1, HW. congruence.
    + right. exists j. split; [auto|]. rewrite Hd2. destruct (Nat.ltb_spec j len); [lia|].
      rewrite HWz in H by auto. congruence.
Qed.

Lemma wfs_getb st b : wfs st -> wfb (getb st b).
Proof.
  intros Hwf. unfold getb. destruct (Nat.ltb_spec b (length st)) as [H|H].
  - unfold wfs in Hwf. rewrite Forall_forall in Hwf. apply Hwf. apply nth_In. auto.
  - rewrite nth_overflow by auto. constructor.
Qed.

Lemma wfs_of_getb st : (forall b, wfb (getb st b)) -> wfs st.
Proof.
  intros H. apply Forall_forall. intros bm Hin. apply In_nth with (d := []) in Hin.
  destruct Hin as [b [_ <-]]. apply H.
Qed.

(* set-level meaning, every aliasing pattern; flag = true exactly when the destination's set changed *)
Theorem opn_spec f fb dst srcs st st' r :
  bitwise f fb -> wfs st -> (dst < length st)%nat ->
  opn true f dst srcs st = (st', r) ->
  wfs st' /\ length st' = length st /\
  (forall b, b <> dst -> getb st' b = getb st b) /\
  (forall n, wbit (getb st' dst) n = fb (map (fun s => wbit (getb st s) n) srcs)) /\
  (r = true <-> changed (getb st' dst) (getb st dst)).
Proof.
  intros [Hlt Hz Hbits] Hwf Hdst Hop.
  destruct (opn_words f dst srcs st st' r Hlt Hz Hwf Hdst Hop) as [R1 [R2 [R3 [R4 R5]]]].
  split; [|split; [exact R1|split; [exact R2|split]]].
  - apply wfs_of_getb. intros b. destruct (Nat.eq_dec b dst) as [->|Hne]; [exact R4|].
    rewrite R2 by auto. apply wfs_getb. auto.
  - intros n. unfold wbit at 1. rewrite R3. rewrite Hbits.
    + rewrite map_map. reflexivity.
    + apply Forall_forall. intros w Hw. apply in_map_iff in Hw. destruct Hw as [s [<- _]].
      apply wfb_nth. apply wfs_getb. auto.
    + apply mod64_lt.
  - rewrite R5. symmetry. apply changed_words; auto. apply wfs_getb. auto.
Qed.

(* the five instances *)
Definition fb_and (bs : list bool) : bool := match bs with [a; b] => a && b | _ => false end.
Definition fb_and_compl (bs : list bool) : bool := match bs with [a; b] => a && negb b | _ => false end.
Definition fb_ior (bs : list bool) : bool := match bs with [a; b] => a || b | _ => false end.
Definition fb_ior_and (bs : list bool) : bool := match bs with [a; b; c] => a || (b && c) | _ => false end.
Definition fb_ior_and_compl (bs : list bool) : bool := match bs with [a; b; c] => a || (b && negb c) | _ => false end.

Ltac lists3 ws := destruct ws as [|? [|? [|? [|? ?]]]].
Ltac inv_forall :=
  repeat match goal with H : Forall _ (_ :: _) |- _ => inversion H; subst; clear H end.
Ltac lt64 := apply bits_lt_pow2; intros ? ?;
  rewrite ?N.lor_spec, ?N.land_spec, ?not64_spec;
  repeat match goal with H : ?w < 2 ^ 64 |- _ => rewrite (lt_pow2_bits w 64 H) by assumption end;
  rewrite ?andb_false_r; reflexivity.

Lemma bw_and : bitwise f_and fb_and.
Proof.
  split.
  - intros ws H. lists3 ws; cbn [f_and f_and_compl f_ior f_ior_and f_ior_and_compl fb_and fb_and_compl fb_ior fb_ior_and fb_ior_and_compl map]; try reflexivity. inv_forall. lt64.
  - intros ws H. lists3 ws; cbn [f_and f_and_compl f_ior f_ior_and f_ior_and_compl fb_and fb_and_compl fb_ior fb_ior_and fb_ior_and_compl map]; try reflexivity. inv_forall. reflexivity.
  - intros ws j H Hj. lists3 ws; cbn [f_and f_and_compl f_ior f_ior_and f_ior_and_compl fb_and fb_and_compl fb_ior fb_ior_and fb_ior_and_compl map]; try apply N.bits_0. apply N.land_spec.
Qed.

Lemma bw_and_compl : bitwise f_and_compl fb_and_compl.
Proof.
  split.
  - intros ws H. lists3 ws; cbn [f_and f_and_compl f_ior f_ior_and f_ior_and_compl fb_and fb_and_compl fb_ior fb_ior_and fb_ior_and_compl map]; try reflexivity. inv_forall. lt64.
  - intros ws H. lists3 ws; cbn [f_and f_and_compl f_ior f_ior_and f_ior_and_compl fb_and fb_and_compl fb_ior fb_ior_and fb_ior_and_compl map]; try reflexivity. inv_forall. reflexivity.
  - intros ws j H Hj. lists3 ws; cbn [f_and f_and_compl f_ior f_ior_and f_ior_and_compl fb_and fb_and_compl fb_ior fb_ior_and fb_ior_and_compl map]; try apply N.bits_0. rewrite N.land_spec, not64_spec.
    destruct (N.ltb_spec j 64); [reflexivity|lia].
Qed.

Lemma bw_ior : bitwise f_ior fb_ior.
Proof.
  split.
  - intros ws H. lists3 ws; cbn [f_and f_and_compl f_ior f_ior_and f_ior_and_compl fb_and fb_and_compl fb_ior fb_ior_and fb_ior_and_compl map]; try reflexivity. inv_forall. lt64.
  - intros ws H. lists3 ws; cbn [f_and f_and_compl f_ior f_ior_and f_ior_and_compl fb_and fb_and_compl fb_ior fb_ior_and fb_ior_and_compl map]; try reflexivity. inv_forall. reflexivity.
  - intros ws j H Hj. lists3 ws; cbn [f_and f_and_compl f_ior f_ior_and f_ior_and_compl fb_and fb_and_compl fb_ior fb_ior_and fb_ior_and_compl map]; try apply N.bits_0. apply N.lor_spec.
Qed.

Lemma bw_ior_and : bitwise f_ior_and fb_ior_and.
Proof.
  split.
  - intros ws H. lists3 ws; cbn [f_and f_and_compl f_ior f_ior_and f_ior_and_compl fb_and fb_and_compl fb_ior fb_ior_and fb_ior_and_compl map]; try reflexivity. inv_forall. lt64.
  - intros ws H. lists3 ws; cbn [f_and f_and_compl f_ior f_ior_and f_ior_and_compl fb_and fb_and_compl fb_ior fb_ior_and fb_ior_and_compl map]; try reflexivity. inv_forall. reflexivity.
  - intros ws j H Hj. lists3 ws; cbn [f_and f_and_compl f_ior f_ior_and f_ior_and_compl fb_and fb_and_compl fb_ior fb_ior_and fb_ior_and_compl map]; try apply N.bits_0. rewrite N.lor_spec, N.land_spec. reflexivity.
Qed.

Lemma bw_ior_and_compl : bitwise f_ior_and_compl fb_ior_and_compl.
Proof.
  split.
  - intros ws H. lists3 ws; cbn [f_and f_and_compl f_ior f_ior_and f_ior_and_compl fb_and fb_and_compl fb_ior fb_ior_and fb_ior_and_compl map]; try reflexivity. inv_forall. lt64.
  - intros ws H. lists3 ws; cbn [f_and f_and_compl f_ior f_ior_and f_ior_and_compl fb_and fb_and_compl fb_ior fb_ior_and fb_ior_and_compl map]; try reflexivity. inv_forall. reflexivity.
  - intros ws j H Hj. lists3 ws; cbn [f_and f_and_compl f_ior f_ior_and f_ior_and_compl fb_and fb_and_compl fb_ior fb_ior_and fb_ior_and_compl map]; try apply N.bits_0.
    rewrite N.lor_spec, N.land_spec, not64_spec. destruct (N.ltb_spec j 64); [reflexivity|lia].
Qed.

(* before fixes/C19-1.patch ([scan = false]) the flag statement was false: the history witness *)
Example opn_unfixed_flag_refuted :
  exists st st', opn false f_ior 1 [0; 0]%nat st = (st', false) /\ changed (getb st' 1) (getb st 1).
Proof.
  exists [[]; [2 ^ 58]], [[]; []]. split; [reflexivity|].
  exists 58. unfold wbit, getb. simpl. discriminate.
Qed.

(* ------------------------------------------------------------------ iterator *)
Lemma low_scan_spec p : forall k, exists c,
  low_scan p k = k + c /\ N.testbit (N.pos p) c = true /\ forall j, j < c -> N.testbit (N.pos p) j = false.
Proof.
  induction p as [p IH|p IH|]; intros k.
  - exists 0. simpl. split; [lia|]. split; [reflexivity|]. intros j Hj. lia.
  - destruct (IH (k + 1)) as [c [E [Ht Hl]]]. exists (N.succ c). simpl low_scan. split; [lia|].
    change (N.pos p~0) with (2 * N.pos p). split.
    + rewrite N.testbit_even_succ by lia. exact Ht.
    + intros j Hj. destruct (N.eq_dec j 0) as [->|Hnz]; [apply N.testbit_even_0|].
      replace j with (N.succ (N.pred j)) by lia. rewrite N.testbit_even_succ by lia. apply Hl. lia.
  - exists 0. simpl. split; [lia|]. split; [reflexivity|]. intros j Hj. lia.
Qed.

Lemma iter_word_spec el nbit : el < 2 ^ 64 ->
  match iter_word el nbit with
  | Some b => exists c, b = nbit + c /\ nbit mod 64 + c < 64 /\ N.testbit el (nbit mod 64 + c) = true /\
                        forall j, nbit mod 64 <= j < nbit mod 64 + c -> N.testbit el j = false
  | None => forall j, nbit mod 64 <= j -> N.testbit el j = false
  end.
Proof.
  intros Hel. unfold iter_word. destruct (N.shiftr el (nbit mod 64)) as [|p] eqn:E.
  - intros j Hj. replace j with ((j - nbit mod 64) + nbit mod 64) by lia.
    rewrite <- N.shiftr_spec', E. apply N.bits_0.
  - destruct (low_scan_spec p nbit) as [c [E1 [Ht Hl]]]. exists c. split; [exact E1|].
    rewrite <- E in Ht, Hl. rewrite N.shiftr_spec' in Ht.
    assert (Hc : nbit mod 64 + c < 64).
    { destruct (N.lt_ge_cases (nbit mod 64 + c) 64) as [|Hge]; auto.
      rewrite (lt_pow2_bits el 64 Hel) in Ht by lia. discriminate. }
    split; [exact Hc|]. split; [rewrite N.add_comm; exact Ht|].
    intros j Hj. specialize (Hl (j - nbit mod 64) ltac:(lia)). rewrite N.shiftr_spec' in Hl.
    replace (j - nbit mod 64 + nbit mod 64) with j in Hl by lia. exact Hl.
Qed.

Lemma wbit_lt bm n : wbit bm n = true -> n < 64 * N.of_nat (length bm).
Proof.
  intros H. apply wordix_lt. destruct (Nat.ltb_spec (wordix n) (length bm)); auto.
  unfold wbit in H. rewrite nth_overflow in H by auto. rewrite N.bits_0 in H. discriminate.
Qed.

Lemma in_word curr m : 64 * curr <= m < 64 * (curr + 1) -> m / 64 = curr /\ m mod 64 = m - 64 * curr.
Proof.
  intros H. split.
  - symmetry. apply (N.div_unique m 64 curr (m - 64 * curr)); lia.
  - symmetry. apply (N.mod_unique m 64 curr (m - 64 * curr)); lia.
Qed.

Lemma skipn_cons_nth (bm : list N) k el r : skipn k bm = el :: r -> nth k bm 0 = el /\ skipn (S k) bm = r.
Proof.
  revert bm; induction k as [|k IH]; intros [|x bm] H; simpl in *; try discriminate.
  - inversion H; auto.
  - apply IH. exact H.
Qed.

Lemma iter_words_spec bm : wfb bm -> forall ws curr nbit,
  ws = skipn (N.to_nat curr) bm -> nbit / 64 = curr ->
  match iter_words ws curr nbit with
  | (Some b, nb') => nb' = b + 1 /\ nbit <= b /\ wbit bm b = true /\ (forall m, nbit <= m < b -> wbit bm m = false)
  | (None, _) => forall m, nbit <= m -> wbit bm m = false
  end.
Proof.
  intros Hwf. induction ws as [|el r IH]; intros curr nbit Hws Hcurr.
  - simpl. intros m Hm. unfold wbit.
    assert (Hlen : (length bm <= N.to_nat curr)%nat).
    { destruct (Nat.le_gt_cases (length bm) (N.to_nat curr)) as [|Hgt]; auto.
      assert (Hl : length (skipn (N.to_nat curr) bm) = (length bm - N.to_nat curr)%nat) by apply skipn_length.
      rewrite <- Hws in Hl. simpl in Hl. lia. }
    rewrite nth_overflow; [apply N.bits_0|]. unfold wordix.
    assert (curr <= m / 64) by (rewrite <- Hcurr; apply N.div_le_mono; lia). lia.
  - symmetry in Hws. destruct (skipn_cons_nth bm _ el r Hws) as [Hel Hr].
    assert (Hel64 : el < 2 ^ 64) by (rewrite <- Hel; apply wfb_nth; auto).
    pose proof (N.div_mod nbit 64 ltac:(lia)) as Hdm. rewrite Hcurr in Hdm.
    pose proof (mod64_lt nbit) as Hsh.
    remember (nbit mod 64) as sh eqn:Esh.
    assert (Hword : forall m, 64 * curr <= m < 64 * (curr + 1) -> wbit bm m = N.testbit el (m - 64 * curr)).
    { intros m Hm. destruct (in_word curr m Hm) as [E1 E2]. unfold wbit, wordix. rewrite E1, E2, Hel. reflexivity. }
    assert (Hrec : (if el =? 0 then None else iter_word el nbit) = None ->
                   forall m, nbit <= m < 64 * (curr + 1) -> wbit bm m = false).
    { intros Hnone m Hm. rewrite Hword by lia.
      destruct (N.eqb_spec el 0) as [->|Hnz]; [apply N.bits_0|].
      pose proof (iter_word_spec el nbit Hel64) as Hs. rewrite Hnone, <- Esh in Hs. apply Hs. lia. }
    cbn [iter_words].
    destruct (if el =? 0 then None else iter_word el nbit) as [b|] eqn:Hw.
    + destruct (N.eqb_spec el 0); [discriminate|].
      pose proof (iter_word_spec el nbit Hel64) as Hs. rewrite Hw, <- Esh in Hs.
      destruct Hs as [c [Eb [Hc [Ht Hl]]]].
      split; [reflexivity|]. split; [lia|]. split.
      * rewrite Hword by lia. replace (b - 64 * curr) with (sh + c) by lia. exact Ht.
      * intros m Hm. rewrite Hword by lia. apply Hl. lia.
    + specialize (IH (curr + 1) ((curr + 1) * 64)).
      assert (E1 : r = skipn (N.to_nat (curr + 1)) bm).
      { rewrite <- Hr. f_equal. lia. }
      assert (E2 : (curr + 1) * 64 / 64 = curr + 1) by (apply N.div_mul; lia).
      specialize (IH E1 E2).
      destruct (iter_words r (curr + 1) ((curr + 1) * 64)) as [[b|] nb'].
      * destruct IH as [I1 [I2 [I3 I4]]]. split; [exact I1|]. split; [lia|]. split; [exact I3|].
        intros m Hm. destruct (N.lt_ge_cases m (64 * (curr + 1))) as [Hlo|Hhi].
        -- apply Hrec; auto. lia.
        -- apply I4. lia.
      * intros m Hm. destruct (N.lt_ge_cases m (64 * (curr + 1))) as [Hlo|Hhi].
        -- apply Hrec; auto.
        -- apply IH. lia.
Qed.

Theorem iterator_next_spec bm nbit : wfb bm ->
  match iterator_next bm nbit with
  | (Some b, nb') => nb' = b + 1 /\ nbit <= b /\ wbit bm b = true /\ (forall m, nbit <= m < b -> wbit bm m = false)
  | (None, _) => forall m, nbit <= m -> wbit bm m = false
  end.
Proof. intros Hwf. unfold iterator_next. apply iter_words_spec; auto. Qed.

Lemma iter_all_spec bm : wfb bm -> forall fuel nbit,
  nbit <= 64 * N.of_nat (length bm) -> 64 * N.of_nat (length bm) + 1 <= N.of_nat fuel + nbit ->
  exists l, iter_all fuel bm nbit = Some l /\ StronglySorted N.lt l /\
            (forall n, In n l <-> nbit <= n /\ wbit bm n = true).
Proof.
  intros Hwf. induction fuel as [|f IH]; intros nbit H1 H2; [lia|].
  cbn [iter_all]. pose proof (iterator_next_spec bm nbit Hwf) as Hs.
  destruct (iterator_next bm nbit) as [[b|] nb'].
  - destruct Hs as [-> [S1 [S2 S3]]]. pose proof (wbit_lt bm b S2) as Hb.
    destruct (IH (b + 1)) as [l [E [Hsorted Hin]]]; [lia|lia|].
    rewrite E. exists (b :: l). split; [reflexivity|]. split.
    + constructor; auto. apply Forall_forall. intros x Hx. apply Hin in Hx. lia.
    + intros n. simpl. rewrite Hin. split.
      * intros [<-|[Hn1 Hn2]]; split; auto; lia.
      * intros [Hn1 Hn2]. destruct (N.eq_dec b n) as [|Hne]; auto. right. split; auto.
        destruct (N.lt_ge_cases n b) as [Hlt|Hge]; [|lia].
        rewrite S3 in Hn2 by lia. discriminate.
  - exists []. split; [reflexivity|]. split; [constructor|]. intros n. simpl. split; [tauto|].
    intros [Hn1 Hn2]. rewrite Hs in Hn2 by auto. discriminate.
Qed.

(* FOREACH_BITMAP_BIT terminates and delivers exactly the members, strictly increasing *)
Theorem foreach_spec bm : wfb bm ->
  exists l, foreach bm = Some l /\ StronglySorted N.lt l /\ (forall n, In n l <-> bit_p bm n = true).
Proof.
  intros Hwf. unfold foreach, foreach_fuel.
  destruct (iter_all_spec bm Hwf (64 * length bm + 1) 0) as [l [E [Hs Hin]]]; [lia|lia|].
  exists l. split; [exact E|]. split; [exact Hs|]. intros n. rewrite Hin, bit_p_spec. split; [tauto|].
  intros H. split; [lia|exact H].
Qed.

(* ------------------------------------------------------------------ scripts: every reachable store is well-formed,
   and no operation with valid ids gets stuck (out of fuel) *)
Lemma binit_wf n : wfs (bst (binit n)).
Proof. simpl. apply Forall_forall. intros bm H. apply repeat_spec in H. subst. constructor. Qed.

Lemma wfs_set_nth st b bm : wfs st -> wfb bm -> wfs (set_nth st b bm).
Proof.
  unfold wfs. revert b; induction st as [|x st IH]; intros [|b] H Hb; simpl; auto.
  - inversion H; subst. constructor; auto.
  - inversion H; subst. constructor; auto.
Qed.

Lemma valid_cons st b ids : valid st (b :: ids) = true -> (b < length st)%nat /\ valid st ids = true.
Proof.
  unfold valid. simpl. intros H. apply andb_true_iff in H. destruct H as [H1 H2].
  apply Nat.ltb_lt in H1. auto.
Qed.

Theorem bstep_wf s o s' out : wfs (bst s) -> bstep true s o = Some (s', out) -> wfs (bst s').
Proof.
  intros Hwf H. destruct o; unfold bstep in H; cbv beta zeta in H;
    repeat match type of H with
           | (if valid ?st ?ids then _ else _) = _ =>
             let V := fresh "V" in destruct (valid st ids) eqn:V; [|discriminate]
           end.
  all: try (inversion H; subst; exact Hwf).
  - (* set *) destruct (set_bit_p (getb (bst s) b) n) as [bm r] eqn:E. inversion H; subst. simpl.
    apply wfs_set_nth; auto. eapply set_bit_p_spec; eauto. apply wfs_getb; auto.
  - (* clr *) destruct (clear_bit_p (getb (bst s) b) n) as [bm r] eqn:E. inversion H; subst. simpl.
    apply wfs_set_nth; auto. eapply clear_bit_p_spec; eauto. apply wfs_getb; auto.
  - (* setr *) destruct (set_or_clear_bit_range_p_spec (getb (bst s) b) n len true (wfs_getb _ b Hwf))
      as [bm' [r [E [Hw _]]]]. rewrite E in H. inversion H; subst. simpl. apply wfs_set_nth; auto.
  - (* clrr *) destruct (set_or_clear_bit_range_p_spec (getb (bst s) b) n len false (wfs_getb _ b Hwf))
      as [bm' [r [E [Hw _]]]]. rewrite E in H. inversion H; subst. simpl. apply wfs_set_nth; auto.
  - (* clear *) inversion H; subst. simpl. apply wfs_set_nth; auto. constructor.
  - (* expand *) inversion H; subst. simpl. apply wfs_set_nth; auto. apply wfb_expand. apply wfs_getb; auto.
  - (* copy *) inversion H; subst. simpl. apply wfs_set_nth; auto. rewrite copy_spec. apply wfs_getb; auto.
  - destruct (opn true f_and d [a; b] (bst s)) as [st' r] eqn:E. inversion H; subst. simpl.
    apply valid_cons in V. eapply (opn_spec _ _ _ _ _ _ _ bw_and Hwf (proj1 V) E).
  - destruct (opn true f_and_compl d [a; b] (bst s)) as [st' r] eqn:E. inversion H; subst. simpl.
    apply valid_cons in V. eapply (opn_spec _ _ _ _ _ _ _ bw_and_compl Hwf (proj1 V) E).
  - destruct (opn true f_ior d [a; b] (bst s)) as [st' r] eqn:E. inversion H; subst. simpl.
    apply valid_cons in V. eapply (opn_spec _ _ _ _ _ _ _ bw_ior Hwf (proj1 V) E).
  - destruct (opn true f_ior_and d [a; b; c] (bst s)) as [st' r] eqn:E. inversion H; subst. simpl.
    apply valid_cons in V. eapply (opn_spec _ _ _ _ _ _ _ bw_ior_and Hwf (proj1 V) E).
  - destruct (opn true f_ior_and_compl d [a; b; c] (bst s)) as [st' r] eqn:E. inversion H; subst. simpl.
    apply valid_cons in V. eapply (opn_spec _ _ _ _ _ _ _ bw_ior_and_compl Hwf (proj1 V) E).
  - (* iter *) destruct (foreach (getb (bst s) b)); inversion H; subst; exact Hwf.
  - (* inext *) destruct (iterator_next (getb (bst s) (bit_bm s)) (bit_nbit s)). inversion H; subst. exact Hwf.
Qed.

Definition bop_ids (s : bstate) (o : bop) : list nat :=
  match o with
  | BBit b _ | BSet b _ | BClr b _ | BSetR b _ _ | BClrR b _ _ | BClear b | BExpand b _ | BEmpty b
  | BCount b | BMin b | BMax b | BIter b | BIterInit b => [b]
  | BCopy a b | BEq a b | BIsect a b => [a; b]
  | BAnd d a b | BAndC d a b | BIor d a b => [d; a; b]
  | BIorAnd d a b c | BIorAndC d a b c => [d; a; b; c]
  | BIterNext => [bit_bm s]
  end.

Theorem bstep_total s o : wfs (bst s) -> valid (bst s) (bop_ids s o) = true -> bstep true s o <> None.
Proof.
  intros Hwf V. destruct o; unfold bstep, bop_ids in *; cbv beta zeta; rewrite V; try discriminate.
  all: try match goal with |- (let '(_, _) := ?x in _) <> None => destruct x; discriminate end.
  - destruct (set_or_clear_bit_range_p_spec (getb (bst s) b) n len true (wfs_getb _ b Hwf)) as [bm' [r [E _]]].
    rewrite E. discriminate.
  - destruct (set_or_clear_bit_range_p_spec (getb (bst s) b) n len false (wfs_getb _ b Hwf)) as [bm' [r [E _]]].
    rewrite E. discriminate.
  - destruct (foreach_spec (getb (bst s) b) (wfs_getb _ b Hwf)) as [l [E _]]. rewrite E. discriminate.
Qed.

(* ------------------------------------------------------------------ the statements used in Properties_C19.v *)
Theorem op2_spec : forall f fb,
  In (f, fb) [(f_and, fb_and); (f_and_compl, fb_and_compl); (f_ior, fb_ior)] ->
  forall st dst s1 s2 st' r, wfs st -> (dst < length st)%nat ->
  opn true f dst [s1; s2] st = (st', r) ->
  wfs st' /\ length st' = length st /\ (forall b, b <> dst -> getb st' b = getb st b) /\
  (forall n, bit_p (getb st' dst) n = fb [bit_p (getb st s1) n; bit_p (getb st s2) n]) /\
  (r = true <-> changed (getb st' dst) (getb st dst)).
Proof.
  intros f fb Hin st dst s1 s2 st' r Hwf Hdst Hop.
  assert (Hbw : bitwise f fb).
  { simpl in Hin. destruct Hin as [E|[E|[E|[]]]]; inversion E; subst;
      [apply bw_and|apply bw_and_compl|apply bw_ior]. }
  destruct (opn_spec f fb dst [s1; s2] st st' r Hbw Hwf Hdst Hop) as [R1 [R2 [R3 [R4 R5]]]].
  repeat split; auto; try apply R5.
  intros n. rewrite !bit_p_spec. apply R4.
Qed.

Theorem op3_spec : forall f fb,
  In (f, fb) [(f_ior_and, fb_ior_and); (f_ior_and_compl, fb_ior_and_compl)] ->
  forall st dst s1 s2 s3 st' r, wfs st -> (dst < length st)%nat ->
  opn true f dst [s1; s2; s3] st = (st', r) ->
  wfs st' /\ length st' = length st /\ (forall b, b <> dst -> getb st' b = getb st b) /\
  (forall n, bit_p (getb st' dst) n = fb [bit_p (getb st s1) n; bit_p (getb st s2) n; bit_p (getb st s3) n]) /\
  (r = true <-> changed (getb st' dst) (getb st dst)).
Proof.
  intros f fb Hin st dst s1 s2 s3 st' r Hwf Hdst Hop.
  assert (Hbw : bitwise f fb).
  { simpl in Hin. destruct Hin as [E|[E|[]]]; inversion E; subst; [apply bw_ior_and|apply bw_ior_and_compl]. }
  destruct (opn_spec f fb dst [s1; s2; s3] st st' r Hbw Hwf Hdst Hop) as [R1 [R2 [R3 [R4 R5]]]].
  repeat split; auto; try apply R5.
  intros n. rewrite !bit_p_spec. apply R4.
Qed.

(* non-vacuity: a store with aliased operands, a bitmap with a trailing zero word *)
Example bitmap_nonvacuous :
  let st := [[5; 0; 2 ^ 63]; [3]; [0; 1]; []] in
  wfs st /\ opn true f_and_compl 0 [0; 1]%nat st = ([[4; 0; 2 ^ 63]; [3]; [0; 1]; []], true)
  /\ opn true f_ior 1 [1; 1]%nat st = (st, false)
  /\ opn true f_ior_and 0 [3; 1; 1]%nat st = ([[3]; [3]; [0; 1]; []], true)
  /\ foreach [5; 0; 2 ^ 63] = Some [0; 2; 191].
Proof.
  cbv zeta. split; [|vm_compute; auto].
  repeat constructor.
Qed.

(* ------------------------------------------------------------------ bit_min / bit_max / bit_count *)
Lemma bit_min_from_spec : forall ws i,
  (Forall (fun w => w = 0) ws -> bit_min_from ws i = 0) /\
  (~ Forall (fun w => w = 0) ws ->
   exists k c, (forall k', (k' < k)%nat -> nth k' ws 0 = 0) /\ bit_min_from ws i = (i + N.of_nat k) * 64 + c /\
               N.testbit (nth k ws 0) c = true /\ forall j, j < c -> N.testbit (nth k ws 0) j = false).
Proof.
  induction ws as [|w ws IH]; intros i.
  - split; [reflexivity|]. intros H. exfalso. apply H. constructor.
  - destruct w as [|p].
    + destruct (IH (i + 1)) as [IH1 IH2]. split.
      * intros H. inversion H; subst. simpl. apply IH1. assumption.
      * intros H. destruct IH2 as [k [c [Hz [Hm [Ht Hl]]]]].
        { intros Hall. apply H. constructor; auto. }
        exists (S k), c. split; [|split; [|split]].
        -- intros [|k'] Hk; simpl; auto. apply Hz. lia.
        -- simpl bit_min_from. rewrite Hm. f_equal. lia.
        -- exact Ht.
        -- exact Hl.
    + split.
      * intros H. inversion H; subst. discriminate.
      * intros _. destruct (low_scan_spec p 0) as [c [E [Ht Hl]]]. exists O, c.
        split; [intros k' Hk; lia|]. split; [|split; auto].
        simpl bit_min_from. rewrite E. lia.
Qed.

Lemma all_zero_dec (ws : list N) : {Forall (fun w => w = 0) ws} + {~ Forall (fun w => w = 0) ws}.
Proof. apply Forall_dec. intros w. apply N.eq_dec. Qed.

(* bitmap_bit_min: 0 for the empty set, else the least member *)
Theorem bit_min_spec bm : wfb bm ->
  ((forall n, wbit bm n = false) -> bit_min bm = 0) /\
  (forall n, wbit bm n = true -> wbit bm (bit_min bm) = true /\ bit_min bm <= n).
Proof.
  intros Hwf. unfold bit_min. destruct (bit_min_from_spec bm 0) as [S1 S2].
  destruct (all_zero_dec bm) as [Hz|Hnz].
  - assert (Hall : forall n, wbit bm n = false).
    { intros n. unfold wbit. rewrite Forall_forall in Hz.
      destruct (Nat.ltb_spec (wordix n) (length bm)) as [Hi|Hi].
      - rewrite (Hz _ (nth_In bm 0 Hi)). apply N.bits_0.
      - rewrite nth_overflow by auto. apply N.bits_0. }
    split; [intros _; apply S1; exact Hz|]. intros n Hn. rewrite Hall in Hn. discriminate.
  - destruct (S2 Hnz) as [k [c [Hzk [Hm [Ht Hl]]]]].
    assert (Hc : c < 64).
    { destruct (N.lt_ge_cases c 64) as [|Hge]; auto.
      rewrite (lt_pow2_bits _ 64 (wfb_nth bm k Hwf)) in Ht by auto. discriminate. }
    rewrite Hm. replace ((0 + N.of_nat k) * 64 + c) with (N.of_nat k * 64 + c) by lia.
    destruct (nm_decomp k c Hc) as [E1 E2].
    split.
    + intros Hall. specialize (Hall (N.of_nat k * 64 + c)). unfold wbit in Hall. rewrite E1, E2 in Hall. congruence.
    + intros n Hn. split; [unfold wbit; rewrite E1, E2; exact Ht|].
      unfold wbit in Hn. pose proof (N.div_mod n 64 ltac:(lia)) as Hdm. pose proof (mod64_lt n) as Hml.
      destruct (Nat.lt_trichotomy (wordix n) k) as [Hlt|[Heq|Hgt]].
      * rewrite Hzk in Hn by auto. rewrite N.bits_0 in Hn. discriminate.
      * rewrite Heq in Hn. unfold wordix in Heq.
        destruct (N.lt_ge_cases (n mod 64) c) as [Hlo|Hhi]; [rewrite Hl in Hn by auto; discriminate|].
        assert (n / 64 = N.of_nat k) by lia. remember (n / 64) as q. remember (n mod 64) as r. lia.
      * unfold wordix in Hgt. assert (N.of_nat k < n / 64) by lia.
        remember (n / 64) as q. remember (n mod 64) as r. lia.
Qed.

Lemma hi_scan_spec el : forall c,
  match hi_scan c el with
  | Some b => (b <= N.of_nat c) /\ N.testbit el b = true /\ forall j, b < j <= N.of_nat c -> N.testbit el j = false
  | None => forall j, j <= N.of_nat c -> N.testbit el j = false
  end.
Proof.
  induction c as [|c IH]; cbn [hi_scan].
  - destruct (N.testbit el (N.of_nat 0)) eqn:E.
    + split; [lia|]. split; [exact E|]. intros j Hj. lia.
    + intros j Hj. replace j with (N.of_nat 0) by lia. exact E.
  - destruct (N.testbit el (N.of_nat (S c))) eqn:E.
    + split; [lia|]. split; [exact E|]. intros j Hj. lia.
    + destruct (hi_scan c el) as [b|].
      * destruct IH as [I1 [I2 I3]]. split; [lia|]. split; [exact I2|]. intros j Hj.
        destruct (N.eq_dec j (N.of_nat (S c))) as [->|]; [exact E|]. apply I3. lia.
      * intros j Hj. destruct (N.eq_dec j (N.of_nat (S c))) as [->|]; [exact E|]. apply IH. lia.
Qed.

(* scanning (index, word) pairs from the last word down: the result is the greatest member *)
Lemma bit_max_from_spec : forall rws,
  (forall i el, In (i, el) rws -> el < 2 ^ 64) ->
  let r := bit_max_from rws in
  ((forall i el, In (i, el) rws -> el = 0) -> r = 0) /\
  (forall i el j, In (i, el) rws -> N.testbit el j = true ->
     StronglySorted (fun a b => (fst b < fst a)%nat) rws ->
     exists i' el', In (i', el') rws /\ r = N.of_nat i' * 64 + r mod 64 /\ r mod 64 < 64 /\
                    N.testbit el' (r mod 64) = true /\ N.of_nat i * 64 + j <= r).
Proof.
  induction rws as [|[i0 el0] rws IH]; intros Hlt r.
  - split; [reflexivity|]. intros i el j [].
  - assert (Hlt' : forall i el, In (i, el) rws -> el < 2 ^ 64) by (intros i el H; apply (Hlt i el); right; exact H).
    specialize (IH Hlt'). cbv zeta in IH. destruct IH as [IH1 IH2].
    assert (Hel0 : el0 < 2 ^ 64) by (apply (Hlt i0); left; reflexivity).
    subst r. cbn [bit_max_from].
    destruct (N.eqb_spec el0 0) as [Ez|Enz].
    + split.
      * intros Hall. apply IH1. intros i el H. apply (Hall i el). right. exact H.
      * intros i el j [Hin|Hin] Ht Hs.
        -- inversion Hin; subst. rewrite N.bits_0 in Ht. discriminate.
        -- inversion Hs; subst. destruct (IH2 i el j Hin Ht H1) as [i' [el' [Hin' Hr]]].
           exists i', el'. split; [right; exact Hin'|exact Hr].
    + pose proof (hi_scan_spec el0 63) as Hh. destruct (hi_scan 63 el0) as [b|].
      * destruct Hh as [Hb [Htb Hhi]]. change (N.of_nat 63) with 63 in *.
        assert (Hmod : (N.of_nat i0 * 64 + b) mod 64 = b).
        { destruct (nm_decomp i0 b ltac:(lia)) as [_ E]. exact E. }
        split.
        -- intros Hall. exfalso. apply Enz. apply (Hall i0). left. reflexivity.
        -- intros i el j [Hin|Hin] Ht Hs.
           ++ inversion Hin; subst i el. exists i0, el0. split; [left; reflexivity|].
              rewrite Hmod. split; [reflexivity|]. split; [lia|]. split; [exact Htb|].
              assert (j <= b).
              { destruct (N.le_gt_cases j b); auto.
                destruct (N.le_gt_cases j 63) as [Hj|Hj]; [rewrite Hhi in Ht by lia; discriminate|].
                rewrite (lt_pow2_bits el0 64 Hel0) in Ht by lia. discriminate. }
              lia.
           ++ exists i0, el0. split; [left; reflexivity|]. rewrite Hmod.
              split; [reflexivity|]. split; [lia|]. split; [exact Htb|].
              inversion Hs; subst. rewrite Forall_forall in H2. specialize (H2 _ Hin). simpl in H2.
              assert (j < 64).
              { destruct (N.lt_ge_cases j 64); auto.
                rewrite (lt_pow2_bits el 64 (Hlt' i el Hin)) in Ht by auto. discriminate. }
              nia.
      * exfalso. apply Enz. apply N.bits_inj. intros j. rewrite N.bits_0.
        destruct (N.le_gt_cases j 63) as [Hj|Hj]; [apply Hh; exact Hj|].
        apply (lt_pow2_bits el0 64 Hel0). lia.
Qed.

Lemma combine_seq_in (l : list N) : forall s i el,
  In (i, el) (combine (seq s (length l)) l) <-> (s <= i < s + length l)%nat /\ nth (i - s) l 0 = el.
Proof.
  induction l as [|x l IH]; intros s i el; simpl.
  - split; [tauto|]. intros [H _]. lia.
  - rewrite IH. split.
    + intros [E|[H1 H2]].
      * inversion E; subst. split; [lia|]. rewrite Nat.sub_diag. reflexivity.
      * split; [lia|]. replace (i - s)%nat with (S (i - S s)) by lia. exact H2.
    + intros [H1 H2]. destruct (Nat.eq_dec i s) as [->|Hne].
      * left. rewrite Nat.sub_diag in H2. congruence.
      * right. split; [lia|]. replace (i - s)%nat with (S (i - S s)) in H2 by lia. exact H2.
Qed.

Lemma sorted_snoc {X} (R : X -> X -> Prop) l a :
  StronglySorted R l -> Forall (fun b => R b a) l -> StronglySorted R (l ++ [a]).
Proof.
  induction l as [|x l IH]; intros Hs Hf; simpl.
  - constructor; constructor.
  - inversion Hs; subst. inversion Hf; subst. constructor; [apply IH; auto|].
    apply Forall_app. split; auto.
Qed.

Lemma sorted_rev_combine (l : list N) : forall s,
  StronglySorted (fun a b => (fst b < fst a)%nat) (rev (combine (seq s (length l)) l)).
Proof.
  induction l as [|x l IH]; intros s; simpl; [constructor|].
  apply sorted_snoc; [apply IH|]. apply Forall_forall. intros [i el] Hin.
  apply in_rev in Hin. apply combine_seq_in in Hin. simpl. lia.
Qed.

(* bitmap_bit_max: 0 for the empty set, else the greatest member *)
Theorem bit_max_spec bm : wfb bm ->
  ((forall n, wbit bm n = false) -> bit_max bm = 0) /\
  (forall n, wbit bm n = true -> wbit bm (bit_max bm) = true /\ n <= bit_max bm).
Proof.
  intros Hwf. unfold bit_max. set (rws := rev (combine (seq 0 (length bm)) bm)).
  assert (Hin : forall i el, In (i, el) rws <-> (i < length bm)%nat /\ nth i bm 0 = el).
  { intros i el. unfold rws. rewrite <- in_rev, combine_seq_in. rewrite Nat.sub_0_r. split; intros [H1 H2]; split; auto; lia. }
  assert (Hlt : forall i el, In (i, el) rws -> el < 2 ^ 64).
  { intros i el H. apply Hin in H. destruct H as [_ <-]. apply wfb_nth. exact Hwf. }
  destruct (bit_max_from_spec rws Hlt) as [S1 S2]. split.
  - intros Hall. apply S1. intros i el H. apply Hin in H. destruct H as [Hi <-].
    apply word_ext; [apply wfb_nth; exact Hwf|reflexivity|]. intros j Hj. rewrite N.bits_0.
    specialize (Hall (N.of_nat i * 64 + j)). unfold wbit in Hall.
    destruct (nm_decomp i j Hj) as [E1 E2]. rewrite E1, E2 in Hall. exact Hall.
  - intros n Hn. pose proof (wbit_lt bm n Hn) as Hnl. apply wordix_lt in Hnl.
    unfold wbit in Hn.
    destruct (S2 (wordix n) (nth (wordix n) bm 0) (n mod 64)) as [i' [el' [Hin' [Hr [Hm [Ht Hle]]]]]].
    + apply Hin. auto.
    + exact Hn.
    + apply sorted_rev_combine.
    + apply Hin in Hin'. destruct Hin' as [Hi' <-]. split.
      * unfold wbit. rewrite Hr.
        destruct (nm_decomp i' (bit_max_from rws mod 64) Hm) as [E1 E2]. rewrite E1, E2. exact Ht.
      * pose proof (N.div_mod n 64 ltac:(lia)) as Hdm. unfold wordix in Hle.
        rewrite N2Nat.id in Hle. remember (n / 64) as q. remember (n mod 64) as r. lia.
Qed.

(* bit_count = number of members: [cntl f n] counts the j < n with f j = true *)
Fixpoint cntl (f : nat -> bool) (n : nat) : N :=
  match n with O => 0 | S k => (if f O then 1 else 0) + cntl (fun j => f (S j)) k end.

Lemma cntl_ext f g n : (forall j, (j < n)%nat -> f j = g j) -> cntl f n = cntl g n.
Proof.
  revert f g; induction n as [|n IH]; intros f g H; simpl; auto.
  rewrite (H O) by lia. f_equal. apply IH. intros j Hj. apply H. lia.
Qed.

Lemma cntl_false f n : (forall j, (j < n)%nat -> f j = false) -> cntl f n = 0.
Proof.
  revert f; induction n as [|n IH]; intros f H; simpl; auto.
  rewrite (H O) by lia. rewrite IH; auto. intros j Hj. apply H. lia.
Qed.

Lemma cntl_add f a b : cntl f (a + b) = cntl f a + cntl (fun j => f (a + j)%nat) b.
Proof.
  revert f; induction a as [|a IH]; intros f; simpl; auto.
  rewrite IH. lia.
Qed.

Lemma popcount_pos_spec p : forall n, N.pos p < 2 ^ N.of_nat n ->
  popcount_pos p = cntl (fun j => N.testbit (N.pos p) (N.of_nat j)) n.
Proof.
  induction p as [p IH|p IH|]; intros n Hn.
  - destruct n as [|n]; [simpl in Hn; lia|].
    assert (Hp : N.pos p < 2 ^ N.of_nat n) by (rewrite Nat2N.inj_succ, N.pow_succ_r' in Hn; lia).
    cbn [popcount_pos cntl]. change (N.testbit (N.pos p~1) (N.of_nat 0)) with true.
    rewrite (IH n Hp). f_equal. apply cntl_ext. intros j _.
    rewrite Nat2N.inj_succ. change (N.pos p~1) with (2 * N.pos p + 1).
    rewrite N.testbit_odd_succ by lia. reflexivity.
  - destruct n as [|n]; [simpl in Hn; lia|].
    assert (Hp : N.pos p < 2 ^ N.of_nat n) by (rewrite Nat2N.inj_succ, N.pow_succ_r' in Hn; lia).
    cbn [popcount_pos cntl]. change (N.testbit (N.pos p~0) (N.of_nat 0)) with false.
    rewrite (IH n Hp). rewrite N.add_0_l. apply cntl_ext. intros j _.
    rewrite Nat2N.inj_succ. change (N.pos p~0) with (2 * N.pos p).
    rewrite N.testbit_even_succ by lia. reflexivity.
  - destruct n as [|n]; [simpl in Hn; lia|].
    cbn [popcount_pos cntl]. change (N.testbit 1 (N.of_nat 0)) with true.
    rewrite cntl_false; [reflexivity|]. intros j _. rewrite Nat2N.inj_succ.
    change 1 with (2 ^ 0). apply N.pow2_bits_false. lia.
Qed.

Lemma popcount_spec w : w < 2 ^ 64 -> popcount w = cntl (fun j => N.testbit w (N.of_nat j)) 64.
Proof.
  intros Hw. destruct w as [|p].
  - simpl popcount. symmetry. apply cntl_false. intros j _. apply N.bits_0.
  - apply (popcount_pos_spec p 64). exact Hw.
Qed.

Lemma bit_count_fold ws : forall acc, fold_left (fun c w => c + popcount w) ws acc = acc + fold_left (fun c w => c + popcount w) ws 0.
Proof.
  induction ws as [|w ws IH]; intros acc; simpl; [lia|].
  rewrite IH. rewrite (IH (popcount w)). lia.
Qed.

(* bitmap_bit_count = the number of n < 64 * len with bit n set (all members are below 64 * len) *)
Theorem bit_count_spec bm : wfb bm ->
  bit_count bm = cntl (fun j => wbit bm (N.of_nat j)) (64 * length bm).
Proof.
  unfold bit_count. induction bm as [|w bm IH]; intros Hwf; [reflexivity|].
  inversion Hwf as [|? ? Hw Hwf']; subst.
  cbn [fold_left]. rewrite bit_count_fold, N.add_0_l. rewrite (IH Hwf').
  replace (64 * length (w :: bm))%nat with (64 + 64 * length bm)%nat by (simpl; lia).
  rewrite cntl_add. f_equal.
  - rewrite (popcount_spec w Hw). apply cntl_ext. intros j Hj. unfold wbit, wordix.
    rewrite N.div_small by lia. rewrite N.mod_small by lia. reflexivity.
  - apply cntl_ext. intros j Hj. unfold wbit, wordix.
    replace (N.of_nat (64 + j)) with (N.of_nat j + 1 * 64) by lia.
    rewrite N.div_add by lia. rewrite N.mod_add by lia.
    replace (N.to_nat (N.of_nat j / 64 + 1)) with (S (N.to_nat (N.of_nat j / 64))) by lia. reflexivity.
Qed.

(* Proofs about the model of mir-bitmap.h (Bitmap.v). *)
From Coq Require Import List ZArith NArith Bool Arith Lia Sorted.
Import ListNotations.
From MirV Require Import C19.Varr C19.VarrProofs C19.Bitmap.
Local Open Scope N_scope.

(* ------------------------------------------------------------------ lists *)
Lemma nth_set_nth_neq {A} (l : list A) i j x d : i <> j -> nth j (set_nth l i x) d = nth j l d.
Proof.
  revert i j; induction l as [|h t IH]; intros [|i] [|j] H; simpl; auto; try congruence.
Qed.

Lemma nth_set_nth {A} (l : list A) i j x d :
  nth j (set_nth l i x) d = if Nat.eqb i j then (if Nat.ltb i (length l) then x else nth j l d) else nth j l d.
Proof.
  destruct (Nat.eqb_spec i j) as [->|Hne].
  - destruct (Nat.ltb_spec j (length l)) as [Hlt|Hge].
    + apply nth_set_nth_eq; auto.
    + revert j Hge. induction l as [|h t IH]; intros [|j] Hge; simpl in *; auto; try lia. apply IH. lia.
  - apply nth_set_nth_neq; auto.
Qed.

Lemma nth_app_repeat {A} (l : list A) k i d : nth i (l ++ repeat d k) d = nth i l d.
Proof.
  destruct (Nat.ltb_spec i (length l)) as [Hlt|Hge].
  - apply app_nth1; auto.
  - rewrite app_nth2 by auto. rewrite (nth_overflow l) by auto.
    destruct (Nat.ltb_spec (i - length l) k) as [H1|H1].
    + apply nth_repeat.
    + apply nth_overflow. rewrite repeat_length. auto.
Qed.

(* ------------------------------------------------------------------ words *)
Lemma land_1 x : N.land x 1 = if N.odd x then 1 else 0.
Proof. destruct x as [|[p|p|]]; reflexivity. Qed.

Lemma tb_shift w sh : negb (N.land (N.shiftr w sh) 1 =? 0) = N.testbit w sh.
Proof. rewrite N.testbit_odd, land_1. destruct (N.odd _); reflexivity. Qed.

Lemma tb_shift' w sh : (N.land (N.shiftr w sh) 1 =? 0) = negb (N.testbit w sh).
Proof. rewrite <- tb_shift, negb_involutive. reflexivity. Qed.

Lemma lt_pow2_bits w k : w < 2 ^ k -> forall j, k <= j -> N.testbit w j = false.
Proof.
  intros H j Hj. destruct (N.eq_dec w 0) as [->|Hnz]; [apply N.bits_0|].
  apply N.bits_above_log2. apply N.log2_lt_pow2 in H; lia.
Qed.

Lemma bits_lt_pow2 w k : (forall j, k <= j -> N.testbit w j = false) -> w < 2 ^ k.
Proof.
  intros H. destruct (N.eq_dec w 0) as [->|Hnz]; [apply N.neq_0_lt_0, N.pow_nonzero; lia|].
  apply N.log2_lt_pow2; [lia|].
  destruct (N.lt_ge_cases (N.log2 w) k) as [Hlt|Hge]; auto.
  specialize (H _ Hge). rewrite N.bit_log2 in H by auto. discriminate.
Qed.

Lemma word_ext a b : a < 2 ^ 64 -> b < 2 ^ 64 ->
  (forall j, j < 64 -> N.testbit a j = N.testbit b j) -> a = b.
Proof.
  intros Ha Hb H. apply N.bits_inj. intros j.
  destruct (N.lt_ge_cases j 64) as [Hlt|Hge]; auto.
  rewrite (lt_pow2_bits a 64), (lt_pow2_bits b 64); auto.
Qed.

Lemma not64_spec x j : N.testbit (not64 x) j = (j <? 64) && negb (N.testbit x j).
Proof.
  unfold not64, ones64. rewrite N.ldiff_spec.
  destruct (N.ltb_spec j 64) as [H|H].
  - rewrite N.ones_spec_low by auto. reflexivity.
  - rewrite N.ones_spec_high by auto. reflexivity.
Qed.

Lemma not64_lt x : not64 x < 2 ^ 64.
Proof.
  apply bits_lt_pow2. intros j Hj. rewrite not64_spec.
  destruct (N.ltb_spec j 64); [lia|reflexivity].
Qed.

Lemma nz_true w : nz w = true <-> w <> 0.
Proof. unfold nz. destruct (N.eqb_spec w 0); simpl; split; congruence. Qed.

Lemma nz_bits w : nz w = true <-> exists j, N.testbit w j = true.
Proof.
  rewrite nz_true. split.
  - intros H. exists (N.log2 w). apply N.bit_log2; auto.
  - intros [j Hj] ->. rewrite N.bits_0 in Hj. discriminate.
Qed.

(* ------------------------------------------------------------------ wbit basics *)
Lemma wordix_lt n len : n < 64 * N.of_nat len <-> (wordix n < len)%nat.
Proof.
  unfold wordix. split; intros H.
  - assert (n / 64 < N.of_nat len) by (apply N.div_lt_upper_bound; lia). lia.
  - assert (Hn : n / 64 < N.of_nat len) by lia.
    pose proof (N.mul_succ_div_gt n 64 ltac:(lia)). lia.
Qed.

Lemma bit_p_spec bm n : bit_p bm n = wbit bm n.
Proof.
  unfold bit_p, wbit. destruct (N.leb_spec (64 * N.of_nat (length bm)) n) as [H|H].
  - rewrite nth_overflow; [symmetry; apply N.bits_0|].
    destruct (Nat.le_gt_cases (length bm) (wordix n)) as [H1|H1]; auto.
    apply wordix_lt in H1. lia.
  - apply tb_shift.
Qed.

Lemma wbit_expand bm nb n : wbit (expand bm nb) n = wbit bm n.
Proof. unfold wbit, expand. rewrite nth_app_repeat. reflexivity. Qed.

Lemma wfb_expand bm nb : wfb bm -> wfb (expand bm nb).
Proof.
  unfold wfb, expand. intros H. apply Forall_app. split; auto.
  apply Forall_forall. intros x Hx. apply repeat_spec in Hx. subst. reflexivity.
Qed.

Lemma wfb_nth bm i : wfb bm -> nth i bm 0 < 2 ^ 64.
Proof.
  intros H. destruct (Nat.ltb_spec i (length bm)) as [Hlt|Hge].
  - unfold wfb in H. rewrite Forall_forall in H. apply H. apply nth_In. auto.
  - rewrite nth_overflow by auto. reflexivity.
Qed.

Lemma wfb_set_nth bm i w : wfb bm -> w < 2 ^ 64 -> wfb (set_nth bm i w).
Proof.
  unfold wfb. revert i. induction bm as [|h t IH]; intros [|i] H Hw; simpl; auto.
  - inversion H; subst. constructor; auto.
  - inversion H; subst. constructor; auto.
Qed.

Lemma wbit_set_nth bm i w n : (i < length bm)%nat ->
  wbit (set_nth bm i w) n = if Nat.eqb i (wordix n) then N.testbit w (n mod 64) else wbit bm n.
Proof.
  intros Hi. unfold wbit. rewrite nth_set_nth.
  destruct (Nat.eqb_spec i (wordix n)); auto.
  destruct (Nat.ltb_spec i (length bm)); auto. lia.
Qed.

Lemma expand_length bm nb : length (expand bm nb) = Nat.max (length bm) (words_for nb).
Proof. unfold expand. rewrite app_length, repeat_length. lia. Qed.

Lemma words_for_gt n k : n < k -> (wordix n < words_for k)%nat.
Proof.
  unfold wordix, words_for. intros H.
  assert (n / 64 < (k + 63) / 64).
  { apply N.div_lt_upper_bound; [lia|].
    pose proof (N.mul_div_le (k + 63) 64 ltac:(lia)).
    pose proof (N.mod_lt (k + 63) 64 ltac:(lia)).
    pose proof (N.div_mod (k + 63) 64 ltac:(lia)). lia. }
  lia.
Qed.

(* two bitmaps denote the same set iff their words agree at every index *)
Definition same_set (a b : bitmap) : Prop := forall n, wbit a n = wbit b n.
Definition changed (a b : bitmap) : Prop := exists n, wbit a n <> wbit b n.

Lemma nm_decomp i j : j < 64 -> wordix (N.of_nat i * 64 + j) = i /\ (N.of_nat i * 64 + j) mod 64 = j.
Proof.
  intros Hj. unfold wordix.
  replace (N.of_nat i * 64 + j) with (j + N.of_nat i * 64) by lia. split.
  - rewrite N.div_add by lia. rewrite N.div_small by auto. lia.
  - rewrite N.mod_add by lia. apply N.mod_small; auto.
Qed.

Lemma same_set_words a b : wfb a -> wfb b ->
  (same_set a b <-> forall i, nth i a 0 = nth i b 0).
Proof.
  intros Ha Hb. split.
  - intros H i. apply word_ext; try apply wfb_nth; auto.
    intros j Hj. specialize (H (N.of_nat i * 64 + j)). unfold wbit in H.
    destruct (nm_decomp i j Hj) as [E1 E2]. rewrite E1, E2 in H. exact H.
  - intros H n. unfold wbit. rewrite H. reflexivity.
Qed.

Lemma changed_words a b : wfb a -> wfb b ->
  (changed a b <-> exists i, nth i a 0 <> nth i b 0).
Proof.
  intros Ha Hb. split.
  - intros [n Hn]. exists (wordix n). intros E. apply Hn. unfold wbit. rewrite E. reflexivity.
  - intros [i Hi].
    destruct (N.eq_dec (N.lxor (nth i a 0) (nth i b 0)) 0) as [E|E].
    + apply N.lxor_eq in E. contradiction.
    + assert (Hx : exists j, N.testbit (N.lxor (nth i a 0) (nth i b 0)) j = true).
      { apply nz_bits. apply nz_true. auto. }
      destruct Hx as [j Hj]. rewrite N.lxor_spec in Hj.
      assert (Hj64 : j < 64).
      { destruct (N.lt_ge_cases j 64) as [|Hge]; auto.
        rewrite (lt_pow2_bits _ 64 (wfb_nth a i Ha)), (lt_pow2_bits _ 64 (wfb_nth b i Hb)) in Hj by auto.
        discriminate. }
      exists (N.of_nat i * 64 + j). unfold wbit.
      destruct (nm_decomp i j Hj64) as [E1 E2]. rewrite E1, E2.
      intros E3. rewrite E3 in Hj. rewrite xorb_nilpotent in Hj. discriminate.
Qed.

(* ------------------------------------------------------------------ set / clear one bit *)
Lemma eq_by_parts m n : (m =? n) = Nat.eqb (wordix m) (wordix n) && (m mod 64 =? n mod 64).
Proof.
  unfold wordix.
  pose proof (N.div_mod m 64 ltac:(lia)). pose proof (N.div_mod n 64 ltac:(lia)).
  destruct (N.eqb_spec m n) as [->|Hne].
  - rewrite Nat.eqb_refl, N.eqb_refl. reflexivity.
  - destruct (Nat.eqb_spec (N.to_nat (m / 64)) (N.to_nat (n / 64))) as [E1|E1]; auto.
    destruct (N.eqb_spec (m mod 64) (n mod 64)) as [E2|E2]; auto.
    exfalso. apply Hne. assert (m / 64 = n / 64) by lia. congruence.
Qed.

Lemma bit1_spec sh j : N.testbit (N.shiftl 1 sh) j = (sh =? j).
Proof. rewrite N.shiftl_1_l. apply N.pow2_bits_eqb. Qed.

Lemma mod64_lt n : n mod 64 < 64.
Proof. apply N.mod_lt. lia. Qed.

Theorem set_bit_p_spec bm n bm' r : wfb bm -> set_bit_p bm n = (bm', r) ->
  wfb bm' /\ (forall m, wbit bm' m = (m =? n) || wbit bm m) /\ (r = true <-> changed bm' bm).
Proof.
  intros Hwf H. unfold set_bit_p in H. inversion H; subst; clear H.
  set (bm1 := expand bm (n + 1)). set (w := nth (wordix n) bm1 0).
  assert (Hi : (wordix n < length bm1)%nat).
  { unfold bm1. rewrite expand_length. pose proof (words_for_gt n (n + 1) ltac:(lia)). lia. }
  assert (Hw1 : wfb bm1) by (apply wfb_expand; auto).
  assert (Hbits : forall m, wbit (set_nth bm1 (wordix n) (N.lor w (N.shiftl 1 (n mod 64)))) m
                            = (m =? n) || wbit bm m).
  { intros m. rewrite wbit_set_nth by auto. rewrite eq_by_parts.
    destruct (Nat.eqb_spec (wordix n) (wordix m)) as [E|E].
    - rewrite E, Nat.eqb_refl. cbn [andb orb negb]. rewrite N.lor_spec, bit1_spec.
      unfold w. rewrite E. fold (wbit bm1 m). unfold bm1. rewrite wbit_expand.
      rewrite (N.eqb_sym (m mod 64)). apply orb_comm.
    - destruct (Nat.eqb_spec (wordix m) (wordix n)); [congruence|]. simpl.
      unfold bm1. apply wbit_expand. }
  split; [|split].
  - assert (Hlt : N.lor w (N.shiftl 1 (n mod 64)) < 2 ^ 64).
    { apply bits_lt_pow2. intros j Hj.
      rewrite N.lor_spec, bit1_spec. rewrite (lt_pow2_bits w 64) by (auto; apply wfb_nth; auto).
      pose proof (mod64_lt n). destruct (N.eqb_spec (n mod 64) j); [lia|reflexivity]. }
    apply wfb_set_nth; auto.
  - exact Hbits.
  - rewrite tb_shift'. fold w.
    assert (Ew : N.testbit w (n mod 64) = wbit bm n).
    { unfold w. fold (wbit bm1 n). unfold bm1. apply wbit_expand. }
    rewrite Ew. split.
    + intros Hr. exists n. rewrite Hbits, N.eqb_refl. simpl.
      destruct (wbit bm n); simpl in *; congruence.
    + intros [m Hm]. rewrite Hbits in Hm.
      destruct (N.eqb_spec m n) as [E|E]; [subst m|]; simpl in Hm; [|congruence].
      destruct (wbit bm n); simpl in *; congruence.
Qed.

Theorem clear_bit_p_spec bm n bm' r : wfb bm -> clear_bit_p bm n = (bm', r) ->
  wfb bm' /\ (forall m, wbit bm' m = negb (m =? n) && wbit bm m) /\ (r = true <-> changed bm' bm).
Proof.
  intros Hwf H. unfold clear_bit_p in H.
  destruct (N.leb_spec (64 * N.of_nat (length bm)) n) as [Hout|Hin].
  - injection H as E1 E2; subst bm' r.
    assert (Hn : wbit bm n = false).
    { rewrite <- bit_p_spec. unfold bit_p. destruct (N.leb_spec (64 * N.of_nat (length bm)) n); auto. lia. }
    split; [auto|split].
    + intros m. destruct (N.eqb_spec m n) as [->|]; simpl; auto.
    + split; [discriminate|]. intros [m Hm]. congruence.
  - injection H as E1 E2; subst bm' r.
    set (w := nth (wordix n) bm 0).
    assert (Hi : (wordix n < length bm)%nat) by (apply wordix_lt; auto).
    assert (Hbits : forall m, wbit (set_nth bm (wordix n) (N.land w (not64 (N.shiftl 1 (n mod 64))))) m
                              = negb (m =? n) && wbit bm m).
    { intros m. rewrite wbit_set_nth by auto. rewrite eq_by_parts.
      destruct (Nat.eqb_spec (wordix n) (wordix m)) as [E|E].
      - rewrite E, Nat.eqb_refl. cbn [andb orb negb]. rewrite N.land_spec, not64_spec, bit1_spec.
        pose proof (mod64_lt m) as Hm. destruct (N.ltb_spec (m mod 64) 64); [|lia]. simpl.
        unfold w. rewrite E. fold (wbit bm m). rewrite (N.eqb_sym (m mod 64)). apply andb_comm.
      - destruct (Nat.eqb_spec (wordix m) (wordix n)); [congruence|]. reflexivity. }
    split; [|split].
    + assert (Hlt : N.land w (not64 (N.shiftl 1 (n mod 64))) < 2 ^ 64).
      { apply bits_lt_pow2. intros j Hj.
        rewrite N.land_spec. rewrite (lt_pow2_bits w 64) by (auto; apply wfb_nth; auto). reflexivity. }
      apply wfb_set_nth; auto.
    + exact Hbits.
    + rewrite tb_shift. fold w. change (N.testbit w (n mod 64)) with (wbit bm n). split.
      * intros Hr. exists n. rewrite Hbits, N.eqb_refl. simpl. congruence.
      * intros [m Hm]. rewrite Hbits in Hm.
        destruct (N.eqb_spec m n) as [E|E]; [subst m|]; simpl in Hm; [|congruence].
        destruct (wbit bm n); simpl in *; congruence.
Qed.

(* ------------------------------------------------------------------ set / clear a range *)
Ltac dm x := pose proof (N.div_mod x 64 ltac:(lia)); pose proof (N.mod_lt x 64 ltac:(lia)).
(* same, then abstract x/64 and x mod 64 into variables (lia is confused by the div/mod terms) *)
Ltac dmg x := let q := fresh "q" in let r := fresh "r" in
  dm x; set (q := x / 64) in *; set (r := x mod 64) in *; clearbody q r.

Lemma inword_lo nb m : wordix m = wordix nb -> (nb <=? m) = (nb mod 64 <=? m mod 64).
Proof.
  unfold wordix. intros E. assert (E' : m / 64 = nb / 64) by lia.
  destruct (N.leb_spec nb m), (N.leb_spec (nb mod 64) (m mod 64)); auto; exfalso; dmg m; dmg nb; lia.
Qed.

Lemma inword_hi nb m k : wordix m = wordix nb -> nb mod 64 + k <= 64 ->
  (m <? nb + k) = (m mod 64 <? nb mod 64 + k).
Proof.
  unfold wordix. intros E Hk. assert (E' : m / 64 = nb / 64) by lia.
  destruct (N.ltb_spec m (nb + k)), (N.ltb_spec (m mod 64) (nb mod 64 + k)); auto; exfalso; dmg m; dmg nb; lia.
Qed.

Lemma outword nb m k : wordix m <> wordix nb -> nb mod 64 + k <= 64 ->
  (nb <=? m) && (m <? nb + k) = false.
Proof.
  unfold wordix. intros E Hk. assert (E' : m / 64 <> nb / 64) by lia.
  destruct (N.leb_spec nb m), (N.ltb_spec m (nb + k)); auto; exfalso; dmg m; dmg nb; lia.
Qed.

Definition rl (nb len : N) : N := N.min len (64 - nb mod 64).

Ltac gmod x := let r := fresh "r" in pose proof (N.mod_lt x 64 ltac:(lia)); set (r := x mod 64) in *; clearbody r.

Lemma addmod nb k : nb mod 64 + k < 64 -> (nb + k) mod 64 = nb mod 64 + k.
Proof.
  intros H. dm nb. symmetry. apply (N.mod_unique (nb + k) 64 (nb / 64)); [exact H|].
  set (q := nb / 64) in *. set (r := nb mod 64) in *. clearbody q r. lia.
Qed.

Lemma addmod0 nb k : nb mod 64 + k = 64 -> (nb + k) mod 64 = 0.
Proof.
  intros H. dm nb. symmetry. apply (N.mod_unique (nb + k) 64 (nb / 64 + 1)); [lia|].
  set (q := nb / 64) in *. set (r := nb mod 64) in *. clearbody q r. lia.
Qed.

Lemma range_len_eq nb len : 0 < len -> 64 - range_rsh nb len - nb mod 64 = rl nb len.
Proof.
  intros Hl. unfold range_rsh, rl.
  destruct (N.leb_spec (64 - nb mod 64) len) as [H|H]; [gmod nb; lia|].
  rewrite addmod by (gmod nb; lia). gmod nb. lia.
Qed.

Lemma range_rsh_eq nb len : 0 < len -> range_rsh nb len + nb mod 64 + rl nb len = 64.
Proof.
  intros Hl. unfold range_rsh, rl.
  destruct (N.leb_spec (64 - nb mod 64) len) as [H|H]; [gmod nb; lia|].
  rewrite addmod by (gmod nb; lia). gmod nb. lia.
Qed.

Lemma rl_bounds nb len : 0 < len -> 0 < rl nb len /\ rl nb len <= len /\ nb mod 64 + rl nb len <= 64.
Proof. intros Hl. unfold rl. gmod nb. lia. Qed.

Lemma rl_next nb len : 0 < len -> rl nb len < len -> (nb + rl nb len) mod 64 = 0.
Proof. intros Hl H. apply addmod0. unfold rl in *. gmod nb. lia. Qed.

Lemma wordix_bound nb len k : 0 < len -> nb + len <= 64 * N.of_nat k -> (wordix nb < k)%nat.
Proof.
  unfold wordix. intros Hl H. dmg nb.
  assert (q < N.of_nat k) by lia. lia.
Qed.

Lemma fuel_init nb len : nb mod 64 + len <= 64 * N.of_nat (range_fuel len).
Proof. unfold range_fuel. gmod nb. dmg len. lia. Qed.

Lemma range_mask_spec nb len j : 0 < len ->
  N.testbit (range_mask nb len) j = (nb mod 64 <=? j) && (j <? nb mod 64 + rl nb len).
Proof.
  intros Hl. unfold range_mask. pose proof (range_rsh_eq nb len Hl) as Hr.
  pose proof (rl_bounds nb len Hl) as [Hb1 [Hb2 Hb3]].
  rewrite N.land_spec. unfold ones64.
  destruct (N.leb_spec (nb mod 64) j) as [Hlo|Hlo].
  - rewrite N.shiftl_spec_high' by auto. rewrite N.shiftr_spec'.
    destruct (N.ltb_spec j (nb mod 64 + rl nb len)) as [Hhi|Hhi].
    + rewrite !N.ones_spec_low by lia. reflexivity.
    + rewrite (N.ones_spec_high 64 (j - nb mod 64 + _)) by lia. reflexivity.
  - rewrite N.shiftl_spec_low by auto. reflexivity.
Qed.

Lemma range_mask_lt nb len : range_mask nb len < 2 ^ 64.
Proof.
  apply bits_lt_pow2. intros j Hj. unfold range_mask. rewrite N.land_spec.
  unfold ones64. rewrite (N.ones_spec_high 64 j) by auto. apply andb_false_r.
Qed.

Definition in_range (nb len m : N) : bool := (nb <=? m) && (m <? nb + len).

Lemma range_step_bits bm nb len setp w' : 0 < len -> (wordix nb < length bm)%nat ->
  w' = (if setp : bool then N.lor (nth (wordix nb) bm 0) (range_mask nb len)
        else N.land (nth (wordix nb) bm 0) (not64 (range_mask nb len))) ->
  forall m, wbit (set_nth bm (wordix nb) w') m = if in_range nb (rl nb len) m then setp else wbit bm m.
Proof.
  intros Hl Hi -> m. pose proof (rl_bounds nb len Hl) as [Hb1 [Hb2 Hb3]].
  rewrite wbit_set_nth by auto. unfold in_range.
  destruct (Nat.eqb_spec (wordix nb) (wordix m)) as [E|E].
  - rewrite (inword_lo nb m) by auto. rewrite (inword_hi nb m (rl nb len)) by auto.
    pose proof (mod64_lt m) as Hm.
    destruct setp.
    + rewrite N.lor_spec, range_mask_spec by auto. rewrite E. fold (wbit bm m).
      destruct ((nb mod 64 <=? m mod 64) && (m mod 64 <? nb mod 64 + rl nb len)); [apply orb_true_r|apply orb_false_r].
    + rewrite N.land_spec, not64_spec, range_mask_spec by auto. rewrite E. fold (wbit bm m).
      destruct (N.ltb_spec (m mod 64) 64); [|lia]. cbn [andb].
      destruct ((nb mod 64 <=? m mod 64) && (m mod 64 <? nb mod 64 + rl nb len)); [apply andb_false_r|apply andb_true_r].
  - rewrite outword by auto. reflexivity.
Qed.

(* the flag of one iteration: some bit of the current word inside the range has the other value *)
Lemma range_step_flag bm nb len setp : 0 < len -> wfb bm ->
  (if setp : bool then nz (N.land (not64 (nth (wordix nb) bm 0)) (range_mask nb len))
   else nz (N.land (nth (wordix nb) bm 0) (range_mask nb len))) = true
  <-> exists m, in_range nb (rl nb len) m = true /\ wbit bm m <> setp.
Proof.
  intros Hl Hwf. pose proof (rl_bounds nb len Hl) as [Hb1 [Hb2 Hb3]].
  set (w := nth (wordix nb) bm 0).
  assert (Hj : forall j, j < 64 ->
             wordix (N.of_nat (wordix nb) * 64 + j) = wordix nb /\ (N.of_nat (wordix nb) * 64 + j) mod 64 = j).
  { intros j H. apply nm_decomp. auto. }
  assert (Hcore : (exists j, (nb mod 64 <=? j) && (j <? nb mod 64 + rl nb len) = true /\ N.testbit w j <> setp)
                  <-> exists m, in_range nb (rl nb len) m = true /\ wbit bm m <> setp).
  { split.
    - intros [j [H1 H2]].
      assert (Hj64 : j < 64).
      { apply andb_true_iff in H1. destruct H1 as [_ H1]. apply N.ltb_lt in H1. lia. }
      destruct (Hj j Hj64) as [E1 E2].
      exists (N.of_nat (wordix nb) * 64 + j). split.
      + unfold in_range. rewrite (inword_lo nb _ E1), (inword_hi nb _ _ E1 Hb3), E2. exact H1.
      + unfold wbit. rewrite E1, E2. exact H2.
    - intros [m [H1 H2]]. unfold in_range in H1.
      destruct (Nat.eq_dec (wordix m) (wordix nb)) as [E|E].
      + exists (m mod 64). rewrite (inword_lo nb m E), (inword_hi nb m _ E Hb3) in H1. split; auto.
        unfold wbit in H2. rewrite E in H2. exact H2.
      + rewrite outword in H1 by auto. discriminate. }
  rewrite <- Hcore. destruct setp.
  - rewrite nz_bits. split.
    + intros [j Hjb]. rewrite N.land_spec, not64_spec, range_mask_spec in Hjb by auto.
      exists j. apply andb_true_iff in Hjb. destruct Hjb as [H1 H2]. split; auto.
      apply andb_true_iff in H1. destruct H1 as [_ H1]. fold w in H1.
      destruct (N.testbit w j); simpl in *; congruence.
    + intros [j [H1 H2]]. exists j. rewrite N.land_spec, not64_spec, range_mask_spec by auto.
      fold w. rewrite H1.
      assert (Hj64 : j < 64).
      { apply andb_true_iff in H1. destruct H1 as [_ H1]. apply N.ltb_lt in H1. lia. }
      destruct (N.ltb_spec j 64); [|lia].
      destruct (N.testbit w j); simpl in *; congruence.
  - rewrite nz_bits. split.
    + intros [j Hjb]. rewrite N.land_spec, range_mask_spec in Hjb by auto.
      exists j. apply andb_true_iff in Hjb. destruct Hjb as [H1 H2]. split; auto. fold w in H1. congruence.
    + intros [j [H1 H2]]. exists j. rewrite N.land_spec, range_mask_spec by auto.
      fold w. rewrite H1. destruct (N.testbit w j); simpl in *; congruence.
Qed.

Lemma range_loop_0 fuel setp bm nb res : range_loop fuel setp bm nb 0 res = Some (bm, res).
Proof. destruct fuel; reflexivity. Qed.

Lemma in_range_split nb len k m : k <= len ->
  in_range nb len m = in_range nb k m || in_range (nb + k) (len - k) m.
Proof.
  intros Hk. unfold in_range.
  destruct (N.leb_spec nb m), (N.ltb_spec m (nb + len)), (N.ltb_spec m (nb + k)),
    (N.leb_spec (nb + k) m), (N.ltb_spec m (nb + k + (len - k))); simpl; auto; exfalso; lia.
Qed.

Lemma in_range_disj nb len k m : in_range nb k m = true -> in_range (nb + k) (len - k) m = false.
Proof.
  unfold in_range. intros H. apply andb_true_iff in H. destruct H as [H1 H2].
  apply N.ltb_lt in H2. destruct (N.leb_spec (nb + k) m); [lia|reflexivity].
Qed.

Lemma range_loop_spec : forall fuel setp bm nb len res,
  wfb bm -> nb + len <= 64 * N.of_nat (length bm) ->
  (len = 0 \/ nb mod 64 + len <= 64 * N.of_nat fuel) ->
  exists bm' r, range_loop fuel setp bm nb len res = Some (bm', r) /\ wfb bm' /\ length bm' = length bm /\
    (forall m, wbit bm' m = if in_range nb len m then setp else wbit bm m) /\
    (r = true <-> res = true \/ exists m, in_range nb len m = true /\ wbit bm m <> setp).
Proof.
  induction fuel as [|f IH]; intros setp bm nb len res Hwf Hlen Hfuel.
  - assert (len = 0) as -> by (destruct Hfuel as [|H]; [auto|gmod nb; lia]).
    exists bm, res. rewrite range_loop_0. repeat split; auto.
    + intros m. unfold in_range. destruct (N.leb_spec nb m), (N.ltb_spec m (nb + 0)); simpl; auto; lia.
    + intros [H|[m [H _]]]; auto. unfold in_range in H.
      destruct (N.leb_spec nb m), (N.ltb_spec m (nb + 0)); simpl in H; try discriminate; lia.
  - destruct (N.eq_dec len 0) as [->|Hnz].
    + exists bm, res. rewrite range_loop_0. repeat split; auto.
      * intros m. unfold in_range. destruct (N.leb_spec nb m), (N.ltb_spec m (nb + 0)); simpl; auto; lia.
      * intros [H|[m [H _]]]; auto. unfold in_range in H.
        destruct (N.leb_spec nb m), (N.ltb_spec m (nb + 0)); simpl in H; try discriminate; lia.
    + assert (Hl : 0 < len) by lia.
      destruct Hfuel as [|Hfuel]; [contradiction|].
      pose proof (rl_bounds nb len Hl) as [Hb1 [Hb2 Hb3]].
      pose proof (wordix_bound nb len (length bm) Hl Hlen) as Hi.
      cbn [range_loop]. destruct (N.eqb_spec len 0) as [|_]; [contradiction|].
      rewrite (range_len_eq nb len Hl).
      set (w' := if setp then N.lor (nth (wordix nb) bm 0) (range_mask nb len)
                 else N.land (nth (wordix nb) bm 0) (not64 (range_mask nb len))).
      set (rs := if setp then nz (N.land (not64 (nth (wordix nb) bm 0)) (range_mask nb len))
                 else nz (N.land (nth (wordix nb) bm 0) (range_mask nb len))).
      assert (Hw' : w' < 2 ^ 64).
      { unfold w'. pose proof (wfb_nth bm (wordix nb) Hwf) as Hw. destruct setp.
        - apply bits_lt_pow2. intros j Hj. rewrite N.lor_spec.
          rewrite (lt_pow2_bits _ 64 Hw), (lt_pow2_bits _ 64 (range_mask_lt nb len)) by auto. reflexivity.
        - apply bits_lt_pow2. intros j Hj. rewrite N.land_spec.
          rewrite (lt_pow2_bits _ 64 Hw) by auto. reflexivity. }
      pose proof (range_step_bits bm nb len setp w' Hl Hi eq_refl) as Hbits1.
      pose proof (range_step_flag bm nb len setp Hl Hwf) as Hflag1. fold rs in Hflag1.
      destruct (IH setp (set_nth bm (wordix nb) w') (nb + rl nb len) (len - rl nb len) (res || rs))
        as [bm' [r [Hrun [Hwf' [Hlen' [Hbits Hflag]]]]]].
      * apply wfb_set_nth; auto.
      * rewrite set_nth_length. lia.
      * destruct (N.eq_dec (rl nb len) len) as [E|E]; [left; lia|right].
        rewrite rl_next by lia. unfold rl in *. gmod nb. lia.
      * exists bm', r. split; [exact Hrun|]. split; [exact Hwf'|]. split; [rewrite Hlen'; apply set_nth_length|].
        split.
        -- intros m. rewrite Hbits, Hbits1. rewrite (in_range_split nb len (rl nb len) m Hb2).
           destruct (in_range nb (rl nb len) m) eqn:E1; simpl.
           ++ destruct (in_range (nb + rl nb len) (len - rl nb len) m); reflexivity.
           ++ reflexivity.
        -- rewrite Hflag. rewrite orb_true_iff. rewrite Hflag1. split.
           ++ intros [[H|[m [H1 H2]]]|[m [H1 H2]]]; auto.
              ** right. exists m. split; auto. rewrite (in_range_split nb len (rl nb len) m Hb2), H1. reflexivity.
              ** right. exists m. rewrite Hbits1 in H2.
                 destruct (in_range nb (rl nb len) m) eqn:E1; [congruence|].
                 split; auto. rewrite (in_range_split nb len (rl nb len) m Hb2), E1, H1. reflexivity.
           ++ intros [H|[m [H1 H2]]]; auto.
              rewrite (in_range_split nb len (rl nb len) m Hb2) in H1.
              destruct (in_range nb (rl nb len) m) eqn:E1.
              ** left. right. exists m. auto.
              ** right. exists m. simpl in H1. split; auto. rewrite Hbits1, E1. exact H2.
Qed.

Theorem set_or_clear_bit_range_p_spec bm nb len setp : wfb bm ->
  exists bm' r, set_or_clear_bit_range_p bm nb len setp = Some (bm', r) /\ wfb bm' /\
    (forall m, wbit bm' m = if in_range nb len m then setp else wbit bm m) /\
    (r = true <-> changed bm' bm).
Proof.
  intros Hwf. unfold set_or_clear_bit_range_p.
  destruct (range_loop_spec (range_fuel len) setp (expand bm (nb + len)) nb len false)
    as [bm' [r [Hrun [Hwf' [_ [Hbits Hflag]]]]]].
  - apply wfb_expand; auto.
  - rewrite expand_length. unfold words_for.
    assert (nb + len <= 64 * ((nb + len + 63) / 64)).
    { dmg (nb + len + 63). lia. }
    lia.
  - right. apply fuel_init.
  - exists bm', r. split; [exact Hrun|]. split; [exact Hwf'|]. split.
    + intros m. rewrite Hbits, wbit_expand. reflexivity.
    + rewrite Hflag. split.
      * intros [H|[m [H1 H2]]]; [discriminate|]. exists m. rewrite Hbits, H1.
        rewrite wbit_expand in H2. congruence.
      * intros [m Hm]. right. exists m. rewrite Hbits, wbit_expand in Hm.
        destruct (in_range nb len m); [|congruence]. split; auto. rewrite wbit_expand. congruence.
Qed.

From Coq Require Import List Arith ZArith Bool Lia.
Import ListNotations.
From MirV Require Import C19.Varr C19.VarrProofs C19.Dlist.

(* Proofs about the model of mir-dlist.h in Dlist.v: every operation refines the abstract
   sequence-of-node-ids specification and preserves well-formedness; the loops never run out of
   fuel on a well-formed list. *)

(* ---- heap updates *)
Lemma nth_set_nth_neq {A} (l : list A) i j x d : i <> j -> nth i (set_nth l j x) d = nth i l d.
Proof.
  revert i j; induction l as [|h t IH]; intros [|i] [|j] H; simpl; auto; try lia.
Qed.

Lemma set_prev_length h e p : length (set_prev h e p) = length h.
Proof. apply set_nth_length. Qed.
Lemma set_next_length h e n : length (set_next h e n) = length h.
Proof. apply set_nth_length. Qed.

Lemma lk_set_prev_eq h e p : e < length h ->
  lk (set_prev h e p) e = {| prev := p; next := next (lk h e) |}.
Proof. intro H. unfold lk at 1, set_prev. apply nth_set_nth_eq; exact H. Qed.
Lemma lk_set_next_eq h e n : e < length h ->
  lk (set_next h e n) e = {| prev := prev (lk h e); next := n |}.
Proof. intro H. unfold lk at 1, set_next. apply nth_set_nth_eq; exact H. Qed.
Lemma lk_set_prev_neq h e p x : x <> e -> lk (set_prev h e p) x = lk h x.
Proof. intro H. unfold lk, set_prev. apply nth_set_nth_neq; exact H. Qed.
Lemma lk_set_next_neq h e n x : x <> e -> lk (set_next h e n) x = lk h x.
Proof. intro H. unfold lk, set_next. apply nth_set_nth_neq; exact H. Qed.

Ltac len_tac :=
  cbv beta; repeat (rewrite set_prev_length || rewrite set_next_length); first [assumption | reflexivity | lia].
Ltac neq_tac :=
  first [ congruence | lia
        | intro; subst; simpl in *; rewrite ?in_app_iff in *; simpl in *; tauto ].
Ltac lk_simp :=
  repeat (first
    [ rewrite lk_set_prev_eq by len_tac
    | rewrite lk_set_next_eq by len_tac
    | rewrite lk_set_prev_neq by neq_tac
    | rewrite lk_set_next_neq by neq_tac ]; cbn [prev next]).

(* ---- list helpers *)
Definition hdo (l : list nat) (q : option nat) : option nat :=
  match l with [] => q | y :: _ => Some y end.
Fixpoint lasto (l : list nat) (p : option nat) : option nat :=
  match l with [] => p | x :: r => lasto r (Some x) end.

Lemma hdo_None l : hdo l None = hd_error l.
Proof. destruct l; reflexivity. Qed.
Lemma hdo_app l1 l2 q : hdo (l1 ++ l2) q = hdo l1 (hdo l2 q).
Proof. destruct l1; reflexivity. Qed.
Lemma lasto_app l1 : forall l2 p, lasto (l1 ++ l2) p = lasto l2 (lasto l1 p).
Proof. induction l1 as [|a r IH]; intros; simpl; auto. Qed.
Lemma lasto_rev l : forall p, lasto l p = hdo (rev l) p.
Proof.
  induction l as [|a r IH]; intros; simpl; auto.
  rewrite IH, hdo_app. reflexivity.
Qed.

Lemma rev_case {A} (l : list A) : l = [] \/ exists l' x, l = l' ++ [x].
Proof.
  destruct l as [|a r] using rev_ind; [left; reflexivity | right; eauto].
Qed.

Lemma mem_In e l : mem e l = true <-> In e l.
Proof.
  unfold mem. rewrite existsb_exists. split.
  - intros (x & Hx & Heq). apply Nat.eqb_eq in Heq. subst. exact Hx.
  - intro H. exists e. split; [exact H | apply Nat.eqb_refl].
Qed.

Lemma ins_before_split l1 b l2 e : ~ In b l1 ->
  ins_before (l1 ++ b :: l2) b e = l1 ++ e :: b :: l2.
Proof.
  induction l1 as [|a r IH]; simpl; intro H.
  - rewrite Nat.eqb_refl. reflexivity.
  - destruct (Nat.eqb_spec a b) as [Heq|Hne]; [exfalso; tauto|]. f_equal. apply IH. tauto.
Qed.
Lemma ins_after_split l1 a l2 e : ~ In a l1 ->
  ins_after (l1 ++ a :: l2) a e = l1 ++ a :: e :: l2.
Proof.
  induction l1 as [|x r IH]; simpl; intro H.
  - rewrite Nat.eqb_refl. reflexivity.
  - destruct (Nat.eqb_spec x a) as [Heq|Hne]; [exfalso; tauto|]. f_equal. apply IH. tauto.
Qed.
Lemma rem_split l1 e l2 : ~ In e l1 -> rem (l1 ++ e :: l2) e = l1 ++ l2.
Proof.
  induction l1 as [|x r IH]; simpl; intro H.
  - rewrite Nat.eqb_refl. reflexivity.
  - destruct (Nat.eqb_spec x e) as [Heq|Hne]; [exfalso; tauto|]. f_equal. apply IH. tauto.
Qed.

Lemma nodup_split1 (l1 : list nat) x l2 : NoDup (l1 ++ x :: l2) -> ~ In x l1 /\ ~ In x l2.
Proof.
  intro H. apply NoDup_remove_2 in H. rewrite in_app_iff in H. tauto.
Qed.
Lemma nodup_split2 (l1 : list nat) x y l2 : NoDup (l1 ++ x :: y :: l2) ->
  x <> y /\ ~ In x l1 /\ ~ In x l2 /\ ~ In y l1 /\ ~ In y l2.
Proof.
  intro H. pose proof (NoDup_remove_2 _ _ _ H) as H1. apply NoDup_remove_1 in H.
  apply NoDup_remove_2 in H. rewrite in_app_iff in *. simpl in H1.
  repeat split; try tauto. intro; subst; tauto.
Qed.
Lemma nodup_split3 (l1 : list nat) x y z l2 : NoDup (l1 ++ x :: y :: z :: l2) ->
  x <> y /\ y <> z /\ x <> z /\ ~ In x l1 /\ ~ In x l2 /\ ~ In y l1 /\ ~ In y l2
  /\ ~ In z l1 /\ ~ In z l2.
Proof.
  intro H. pose proof (NoDup_remove_2 _ _ _ H) as H1. apply NoDup_remove_1 in H.
  apply nodup_split2 in H. rewrite in_app_iff in *. simpl in H1.
  repeat split; try tauto; intro; subst; tauto.
Qed.

Lemma nodup_bound l n : NoDup l -> Forall (fun e => e < n) l -> length l <= n.
Proof.
  intros Hnd Hall. rewrite <- (seq_length n 0). apply NoDup_incl_length; [exact Hnd|].
  intros x Hx. apply in_seq. rewrite Forall_forall in Hall. specialize (Hall x Hx). lia.
Qed.

(* ---- generic chains: [f] is the backward link, [g] the forward link; the segment [l] is entered
   from [p] and left towards [q] *)
Fixpoint gchn (f g : nat -> option nat) (p : option nat) (l : list nat) (q : option nat) : Prop :=
  match l with
  | [] => True
  | x :: r => f x = p /\ g x = hdo r q /\ gchn f g (Some x) r q
  end.

Lemma gchn_app f g l1 : forall p l2 q,
  gchn f g p (l1 ++ l2) q <-> gchn f g p l1 (hdo l2 q) /\ gchn f g (lasto l1 p) l2 q.
Proof.
  induction l1 as [|a r IH]; intros; simpl.
  - tauto.
  - rewrite IH, hdo_app. tauto.
Qed.

Lemma gchn_succ f g l : forall p e, gchn f g p l None -> In e l -> g e = succ_of l e.
Proof.
  induction l as [|a r IH]; intros p e Hc Hin; simpl in *; [contradiction|].
  destruct Hc as (_ & Hn & Hc).
  destruct (Nat.eqb_spec a e) as [Heq|Hne].
  - subst. rewrite Hn. apply hdo_None.
  - destruct Hin as [Heq|Hin]; [contradiction|]. eapply IH; eauto.
Qed.

Lemma gchn_ext f g f' g' l : forall p q,
  (forall x, In x l -> f' x = f x /\ g' x = g x) -> gchn f g p l q -> gchn f' g' p l q.
Proof.
  induction l as [|a r IH]; intros p q Hext Hc; simpl in *; [exact I|].
  destruct Hc as (Hp & Hn & Hc). destruct (Hext a (or_introl eq_refl)) as (E1 & E2).
  rewrite E1, E2. repeat split; auto.
Qed.

Lemma gchn_rev f g l : forall p q, gchn f g p l q -> gchn g f q (rev l) p.
Proof.
  induction l as [|a r IH]; intros p q Hc; simpl in *; [exact I|].
  destruct Hc as (Hp & Hn & Hc). apply gchn_app. split.
  - simpl. apply IH. exact Hc.
  - simpl. rewrite lasto_rev, rev_involutive. auto.
Qed.

Definition chn (h : list links) : option nat -> list nat -> option nat -> Prop :=
  gchn (fun x => prev (lk h x)) (fun x => next (lk h x)).

Lemma chain_chn h l : forall p, chain h p l <-> chn h p l None.
Proof.
  unfold chn. induction l as [|a r IH]; intros; simpl; [tauto|].
  rewrite IH, hdo_None. tauto.
Qed.

Lemma chn_frame h h' l p q : (forall x, In x l -> lk h' x = lk h x) -> chn h p l q -> chn h' p l q.
Proof.
  intros H. apply gchn_ext. intros x Hx. rewrite (H x Hx). auto.
Qed.

Definition wf' (d : dlist) (l : list nat) : Prop :=
  NoDup l /\ Forall (fun e => e < length (heap d)) l /\ chn (heap d) None l None
  /\ head d = hdo l None /\ tail d = lasto l None.

Lemma wf_wf' d l : wf d l <-> wf' d l.
Proof.
  unfold wf, wf'. rewrite chain_chn, lasto_rev, !hdo_None. tauto.
Qed.

Lemma wf_bound d l : wf' d l -> length l <= length (heap d).
Proof. intros (Hnd & Hall & _). apply nodup_bound; assumption. Qed.

(* ---- the loops *)
Lemma walk_fwd_chn h l : forall p fuel n, chn h p l None -> length l <= fuel -> (0 <= n)%Z ->
  walk_fwd fuel h (hdo l None) n = Some (nth_error l (Z.to_nat n)).
Proof.
  induction l as [|a r IH]; intros p fuel n Hc Hlen Hn.
  - destruct fuel; simpl; destruct (Z.to_nat n); reflexivity.
  - simpl in Hlen. destruct fuel as [|fuel]; [lia|]. destruct Hc as (_ & Hnx & Hc).
    simpl. destruct (Z.eqb_spec n 0) as [Heq|Hne].
    + subst. reflexivity.
    + rewrite Hnx. rewrite (IH (Some a)); [|exact Hc|lia|lia].
      replace (Z.to_nat n) with (S (Z.to_nat (n - 1))) by lia. reflexivity.
Qed.

Lemma walk_bwd_chn h l : forall q fuel n,
  gchn (fun x => next (lk h x)) (fun x => prev (lk h x)) q l None -> length l <= fuel -> (n < 0)%Z ->
  walk_bwd fuel h (hdo l None) n = Some (nth_error l (Z.to_nat (- n - 1))).
Proof.
  induction l as [|a r IH]; intros q fuel n Hc Hlen Hn.
  - destruct fuel; simpl; destruct (Z.to_nat (- n - 1)); reflexivity.
  - simpl in Hlen. destruct fuel as [|fuel]; [lia|]. destruct Hc as (_ & Hnx & Hc).
    simpl. destruct (Z.eqb_spec n (-1)) as [Heq|Hne].
    + subst. reflexivity.
    + rewrite Hnx. rewrite (IH (Some a)); [|exact Hc|lia|lia].
      replace (Z.to_nat (- n - 1)) with (S (Z.to_nat (- (n + 1) - 1))) by lia. reflexivity.
Qed.

Lemma count_fwd_chn h l : forall p fuel len, chn h p l None -> length l <= fuel ->
  count_fwd fuel h (hdo l None) len = Some (len + length l).
Proof.
  induction l as [|a r IH]; intros p fuel len Hc Hlen.
  - destruct fuel; simpl; f_equal; lia.
  - simpl in Hlen. destruct fuel as [|fuel]; [lia|]. destruct Hc as (_ & Hnx & Hc).
    simpl. rewrite Hnx. rewrite (IH (Some a)); [|exact Hc|lia]. f_equal. lia.
Qed.

Lemma el_spec d l n : wf' d l -> el d n = Some (sel l n).
Proof.
  intros Hwf. pose proof (wf_bound _ _ Hwf) as Hb. destruct Hwf as (Hnd & Hall & Hc & Hhd & Htl).
  unfold el, sel. destruct (Z.leb_spec 0 n) as [Hn|Hn].
  - rewrite Hhd. eapply walk_fwd_chn; eauto.
  - rewrite Htl, lasto_rev. apply gchn_rev in Hc. eapply walk_bwd_chn; eauto.
    rewrite rev_length. lia.
Qed.

Lemma dlength_spec d l : wf' d l -> dlength d = Some (length l).
Proof.
  intros Hwf. pose proof (wf_bound _ _ Hwf) as Hb. destruct Hwf as (Hnd & Hall & Hc & Hhd & Htl).
  unfold dlength. rewrite Hhd. erewrite count_fwd_chn; eauto.
Qed.

Lemma next_spec d l e : wf' d l -> In e l -> next (lk (heap d) e) = succ_of l e.
Proof.
  intros (Hnd & Hall & Hc & Hhd & Htl) Hin.
  exact (gchn_succ _ _ _ _ _ Hc Hin).
Qed.

Lemma prev_spec d l e : wf' d l -> In e l -> prev (lk (heap d) e) = pred_of l e.
Proof.
  intros (Hnd & Hall & Hc & Hhd & Htl) Hin. apply gchn_rev in Hc.
  unfold pred_of. apply in_rev in Hin.
  exact (gchn_succ _ _ _ _ _ Hc Hin).
Qed.

(* ---- the updates, one lemma per operation *)
Ltac in_tac := rewrite ?in_app_iff in *; simpl in *; tauto.
Ltac lt_tac H := rewrite Forall_forall in H; apply H; rewrite ?in_app_iff; simpl; tauto.

Lemma prepend_spec d l e : wf' d l -> e < length (heap d) -> ~ In e l ->
  wf' (prepend d e) (e :: l) /\ length (heap (prepend d e)) = length (heap d)
  /\ (forall x, ~ In x (e :: l) -> lk (heap (prepend d e)) x = lk (heap d) x).
Proof.
  destruct d as [h hd tl]. unfold wf', prepend. simpl.
  intros (Hnd & Hall & Hc & Hhd & Htl) He Hni. subst hd tl.
  assert (Hnd' : NoDup (e :: l)) by (constructor; assumption).
  destruct l as [|a r]; simpl.
  - split; [|split].
    + split; [exact Hnd'|]. split; [constructor; [len_tac|constructor]|].
      split; [|split; reflexivity]. unfold chn; simpl. lk_simp. auto.
    + len_tac.
    + intros x Hx. lk_simp. reflexivity.
  - assert (Ha : a < length h) by (lt_tac Hall).
    assert (Hae : a <> e) by (intro; subst; simpl in *; tauto).
    destruct Hc as (Hap & Han & Hc). simpl in Hap, Han.
    split; [|split].
    + split; [exact Hnd'|]. split.
      { constructor; [len_tac|]. eapply Forall_impl; [|exact Hall]. intros; cbv beta in *; len_tac. }
      split; [|split; reflexivity]. unfold chn; simpl. lk_simp.
      repeat split; auto. eapply chn_frame; [|exact Hc].
      intros x Hx. inversion Hnd; subst. lk_simp. reflexivity.
    + len_tac.
    + intros x Hx. lk_simp. reflexivity.
Qed.

Lemma Forall_len (h h' : list links) l :
  Forall (fun x => x < length h) l -> length h' = length h -> Forall (fun x => x < length h') l.
Proof. intros H E. rewrite E. exact H. Qed.

Lemma append_spec d l e : wf' d l -> e < length (heap d) -> ~ In e l ->
  wf' (append d e) (l ++ [e]) /\ length (heap (append d e)) = length (heap d)
  /\ (forall x, ~ In x (l ++ [e]) -> lk (heap (append d e)) x = lk (heap d) x).
Proof.
  destruct d as [h hd tl]. unfold wf', append. simpl.
  intros (Hnd & Hall & Hc & Hhd & Htl) He Hni. subst hd tl.
  assert (Hnd' : NoDup (l ++ [e])).
  { apply (NoDup_Add (Add_app e l [])). rewrite app_nil_r. split; assumption. }
  assert (Hall' : Forall (fun x => x < length h) (l ++ [e])).
  { apply Forall_app. split; [assumption | constructor; [assumption | constructor]]. }
  destruct (rev_case l) as [-> | (l1 & t & ->)].
  - simpl. split; [|split].
    + split; [exact Hnd'|]. split; [eapply Forall_len; [exact Hall'|len_tac]|].
      split; [|split; reflexivity]. unfold chn; simpl. lk_simp. auto.
    + len_tac.
    + intros x Hx. lk_simp. reflexivity.
  - rewrite lasto_app. simpl.
    assert (Ht : t < length h) by (lt_tac Hall).
    assert (Hte : t <> e) by (intro; subst; apply Hni; in_tac).
    apply nodup_split1 in Hnd. destruct Hnd as (Hnt & _).
    unfold chn in *. apply gchn_app in Hc. simpl in Hc. destruct Hc as (Hc & Htp & Htn & _).
    split; [|split].
    + split; [exact Hnd'|]. split; [eapply Forall_len; [exact Hall'|len_tac]|].
      split; [|split].
      * rewrite <- app_assoc. simpl. apply gchn_app. simpl. lk_simp.
        repeat split; auto. eapply chn_frame; [|exact Hc].
        intros x Hx. lk_simp. reflexivity.
      * rewrite !hdo_app. reflexivity.
      * rewrite lasto_app. reflexivity.
    + len_tac.
    + intros x Hx. lk_simp. reflexivity.
Qed.

Lemma insert_before_spec d l1 b l2 e : wf' d (l1 ++ b :: l2) -> e < length (heap d) ->
  ~ In e (l1 ++ b :: l2) ->
  wf' (insert_before d b e) (l1 ++ e :: b :: l2)
  /\ length (heap (insert_before d b e)) = length (heap d)
  /\ (forall x, ~ In x (l1 ++ e :: b :: l2) -> lk (heap (insert_before d b e)) x = lk (heap d) x).
Proof.
  destruct d as [h hd tl]. unfold wf', insert_before. simpl.
  intros (Hnd & Hall & Hc & Hhd & Htl) He Hni. subst hd tl.
  assert (Hnd' : NoDup (l1 ++ e :: b :: l2)).
  { apply (NoDup_Add (Add_app e l1 (b :: l2))). split; assumption. }
  assert (Hall' : Forall (fun x => x < length h) (l1 ++ e :: b :: l2)).
  { apply Forall_app in Hall. destruct Hall as (Hall1 & Hall2).
    apply Forall_app. split; [assumption | constructor; assumption]. }
  assert (Hb : b < length h) by (lt_tac Hall).
  assert (Hbe : b <> e) by (intro; subst; apply Hni; in_tac).
  destruct (rev_case l1) as [-> | (l0 & p & ->)].
  - simpl in *. unfold chn in *. simpl in Hc. destruct Hc as (Hbp & Hbn & Hc). rewrite Hbp.
    simpl. inversion Hnd; subst.
    split; [|split].
    + split; [exact Hnd'|]. split; [eapply Forall_len; [exact Hall'|len_tac]|].
      split; [|split; reflexivity].
      lk_simp. repeat split; auto. eapply chn_frame; [|exact Hc].
      intros x Hx. lk_simp. reflexivity.
    + len_tac.
    + intros x Hx. lk_simp. reflexivity.
  - rewrite <- app_assoc in *. simpl in *.
    assert (Hp : p < length h) by (lt_tac Hall).
    assert (Hpe : p <> e) by (intro; subst; apply Hni; in_tac).
    apply nodup_split2 in Hnd. destruct Hnd as (Hpb & Hp0 & Hp2 & Hb0 & Hb2).
    unfold chn in *. apply gchn_app in Hc. simpl in Hc.
    destruct Hc as (Hc0 & Hpp & Hpn & Hbp & Hbn & Hc2). rewrite Hbp. simpl.
    split; [|split].
    + split; [exact Hnd'|]. split; [eapply Forall_len; [exact Hall'|len_tac]|].
      split; [|split].
      * apply gchn_app. simpl. lk_simp. rewrite Hbp.
        repeat split; auto.
        -- eapply chn_frame; [|exact Hc0]. intros x Hx. lk_simp. reflexivity.
        -- eapply chn_frame; [|exact Hc2]. intros x Hx. lk_simp. reflexivity.
      * rewrite !hdo_app. reflexivity.
      * rewrite !lasto_app. reflexivity.
    + len_tac.
    + intros x Hx. lk_simp. reflexivity.
Qed.

Lemma insert_after_spec d l1 a l2 e : wf' d (l1 ++ a :: l2) -> e < length (heap d) ->
  ~ In e (l1 ++ a :: l2) ->
  wf' (insert_after d a e) (l1 ++ a :: e :: l2)
  /\ length (heap (insert_after d a e)) = length (heap d)
  /\ (forall x, ~ In x (l1 ++ a :: e :: l2) -> lk (heap (insert_after d a e)) x = lk (heap d) x).
Proof.
  destruct d as [h hd tl]. unfold wf', insert_after. simpl.
  intros (Hnd & Hall & Hc & Hhd & Htl) He Hni. subst hd tl.
  assert (Hnd' : NoDup (l1 ++ a :: e :: l2)).
  { apply NoDup_remove in Hnd. destruct Hnd as (Hnd & Ha).
    apply (NoDup_Add (Add_app a l1 (e :: l2))). split.
    - apply (NoDup_Add (Add_app e l1 l2)). split; [assumption|]. intro; apply Hni; in_tac.
    - intro Hx. rewrite in_app_iff in *. simpl in *. intuition congruence. }
  assert (Hall' : Forall (fun x => x < length h) (l1 ++ a :: e :: l2)).
  { apply Forall_app in Hall. destruct Hall as (Hall1 & Hall2). inversion Hall2; subst.
    apply Forall_app. split; [assumption | constructor; [assumption | constructor; assumption]]. }
  assert (Ha : a < length h) by (lt_tac Hall).
  assert (Hae : a <> e) by (intro; subst; apply Hni; in_tac).
  destruct l2 as [|n l2].
  - apply nodup_split1 in Hnd. destruct Hnd as (Ha1 & _).
    unfold chn in *. apply gchn_app in Hc. simpl in Hc. destruct Hc as (Hc1 & Hap & Han & _).
    rewrite Han. simpl.
    split; [|split].
    + split; [exact Hnd'|]. split; [eapply Forall_len; [exact Hall'|len_tac]|].
      split; [|split].
      * apply gchn_app. simpl. lk_simp.
        repeat split; auto. eapply chn_frame; [|exact Hc1]. intros x Hx. lk_simp. reflexivity.
      * rewrite !hdo_app. reflexivity.
      * rewrite !lasto_app. reflexivity.
    + len_tac.
    + intros x Hx. lk_simp. reflexivity.
  - assert (Hn : n < length h) by (lt_tac Hall).
    assert (Hne : n <> e) by (intro; subst; apply Hni; in_tac).
    apply nodup_split2 in Hnd. destruct Hnd as (Han' & Ha1 & Ha2 & Hn1 & Hn2).
    unfold chn in *. apply gchn_app in Hc. simpl in Hc.
    destruct Hc as (Hc1 & Hap & Han & Hnp & Hnn & Hc2). rewrite Han. simpl.
    split; [|split].
    + split; [exact Hnd'|]. split; [eapply Forall_len; [exact Hall'|len_tac]|].
      split; [|split].
      * apply gchn_app. simpl. lk_simp. rewrite Han.
        repeat split; auto.
        -- eapply chn_frame; [|exact Hc1]. intros x Hx. lk_simp. reflexivity.
        -- eapply chn_frame; [|exact Hc2]. intros x Hx. lk_simp. reflexivity.
      * rewrite !hdo_app. reflexivity.
      * rewrite !lasto_app. reflexivity.
    + len_tac.
    + intros x Hx. lk_simp. reflexivity.
Qed.

Lemma remove_spec d l1 e l2 : wf' d (l1 ++ e :: l2) ->
  wf' (remove d e) (l1 ++ l2)
  /\ length (heap (remove d e)) = length (heap d)
  /\ (forall x, ~ In x (l1 ++ l2) -> x <> e -> lk (heap (remove d e)) x = lk (heap d) x)
  /\ lk (heap (remove d e)) e = nolinks.
Proof.
  destruct d as [h hd tl]. unfold wf', remove. simpl.
  intros (Hnd & Hall & Hc & Hhd & Htl). subst hd tl.
  assert (Hnd' : NoDup (l1 ++ l2)) by (apply NoDup_remove_1 in Hnd; exact Hnd).
  assert (Hall' : Forall (fun x => x < length h) (l1 ++ l2)).
  { apply Forall_app in Hall. destruct Hall as (Hall1 & Hall2). inversion Hall2; subst.
    apply Forall_app. split; assumption. }
  assert (He : e < length h) by (lt_tac Hall).
  destruct (rev_case l1) as [-> | (l0 & p & ->)]; destruct l2 as [|n l2].
  - unfold chn in *. simpl in *. destruct Hc as (Hep & Hen & _).
    rewrite Hep, Hen. simpl.
    split; [|split; [|split]].
    + split; [exact Hnd'|]. split; [constructor|]. auto.
    + len_tac.
    + intros x Hx Hxe. lk_simp. reflexivity.
    + lk_simp. reflexivity.
  - assert (Hn : n < length h) by (lt_tac Hall).
    apply nodup_split2 in Hnd. destruct Hnd as (Hen' & _ & He2 & _ & Hn2).
    unfold chn in *. simpl in *. destruct Hc as (Hep & Hen & Hnp & Hnn & Hc2).
    rewrite Hep, Hen. simpl.
    split; [|split; [|split]].
    + split; [exact Hnd'|]. split; [eapply Forall_len; [exact Hall'|len_tac]|].
      split; [|split; reflexivity].
      lk_simp. repeat split; auto. eapply chn_frame; [|exact Hc2].
      intros x Hx. lk_simp. reflexivity.
    + len_tac.
    + intros x Hx Hxe. lk_simp. reflexivity.
    + lk_simp. reflexivity.
  - rewrite <- !app_assoc in *. simpl in *.
    assert (Hp : p < length h) by (lt_tac Hall).
    apply nodup_split2 in Hnd. destruct Hnd as (Hpe & Hp0 & _ & He0 & _).
    unfold chn in *. apply gchn_app in Hc. simpl in Hc.
    destruct Hc as (Hc0 & Hpp & Hpn & Hep & Hen & _).
    rewrite Hep. simpl. lk_simp. rewrite Hen. simpl. lk_simp. rewrite ?Hep, ?Hen.
    split; [|split; [|split]].
    + split; [exact Hnd'|]. split; [eapply Forall_len; [exact Hall'|len_tac]|].
      split; [|split].
      * apply gchn_app. simpl. lk_simp.
        repeat split; auto. eapply chn_frame; [|exact Hc0]. intros x Hx. lk_simp. reflexivity.
      * rewrite !hdo_app. reflexivity.
      * rewrite !lasto_app. reflexivity.
    + len_tac.
    + intros x Hx Hxe. lk_simp. reflexivity.
    + lk_simp. reflexivity.
  - rewrite <- !app_assoc in *. simpl in *.
    assert (Hp : p < length h) by (lt_tac Hall).
    assert (Hn : n < length h) by (lt_tac Hall).
    apply nodup_split3 in Hnd.
    destruct Hnd as (Hpe & Hen' & Hpn' & Hp0 & Hp2 & He0 & He2 & Hn0 & Hn2).
    unfold chn in *. apply gchn_app in Hc. simpl in Hc.
    destruct Hc as (Hc0 & Hpp & Hpn & Hep & Hen & Hnp & Hnn & Hc2).
    rewrite Hep. simpl. lk_simp. rewrite Hen. simpl. lk_simp. rewrite ?Hep, ?Hen.
    split; [|split; [|split]].
    + split; [exact Hnd'|]. split; [eapply Forall_len; [exact Hall'|len_tac]|].
      split; [|split].
      * apply gchn_app. simpl. lk_simp.
        repeat split; auto.
        -- eapply chn_frame; [|exact Hc0]. intros x Hx. lk_simp. reflexivity.
        -- eapply chn_frame; [|exact Hc2]. intros x Hx. lk_simp. reflexivity.
      * rewrite !hdo_app. reflexivity.
      * rewrite !lasto_app. reflexivity.
    + len_tac.
    + intros x Hx Hxe. lk_simp. reflexivity.
    + lk_simp. reflexivity.
Qed.

(* ---- the theorems *)
Lemma dinit_wf : forall n, wf (dinit n) [].
Proof.
  intro n. unfold wf, dinit. simpl. repeat split; constructor.
Qed.

(* refinement and frame together: one case analysis per operation *)
Lemma dstep_both : forall d l o l' out,
  wf d l -> sstep (length (heap d)) l o = Some (l', out) ->
  exists d', dstep d o = Some (d', out) /\ wf d' l' /\ length (heap d') = length (heap d)
  /\ (forall x, ~ In x l' ->
        (match o with
         | DPrepend e | DAppend e | DInsertBefore _ e | DInsertAfter _ e | DRemove e => x <> e
         | _ => True end) -> lk (heap d') x = lk (heap d) x)
  /\ (match o with DRemove e => lk (heap d') e = nolinks | _ => True end).
Proof.
  intros d l o l' out Hwf Hs. pose proof Hwf as Hwf0. apply wf_wf' in Hwf.
  destruct o as [e|e|b e|a e|e|n| | | |e|e]; simpl in Hs.
  - destruct (Nat.ltb_spec e (length (heap d))) as [He|He]; [|discriminate].
    destruct (mem e l) eqn:Hm; [discriminate|]. simpl in Hs. inversion Hs; subst; clear Hs.
    assert (Hni : ~ In e l) by (rewrite <- mem_In; congruence).
    destruct (prepend_spec d l e Hwf He Hni) as (W & L & F).
    eexists; split; [reflexivity|]. rewrite wf_wf'. split; [exact W|]. split; [exact L|]. split; auto.
  - destruct (Nat.ltb_spec e (length (heap d))) as [He|He]; [|discriminate].
    destruct (mem e l) eqn:Hm; [discriminate|]. simpl in Hs. inversion Hs; subst; clear Hs.
    assert (Hni : ~ In e l) by (rewrite <- mem_In; congruence).
    destruct (append_spec d l e Hwf He Hni) as (W & L & F).
    eexists; split; [reflexivity|]. rewrite wf_wf'. split; [exact W|]. split; [exact L|]. split; auto.
  - destruct (Nat.ltb_spec e (length (heap d))) as [He|He]; [|discriminate].
    destruct (mem e l) eqn:Hm; [discriminate|]. destruct (mem b l) eqn:Hmb; [|discriminate].
    simpl in Hs. inversion Hs; subst; clear Hs.
    assert (Hni : ~ In e l) by (rewrite <- mem_In; congruence).
    apply mem_In in Hmb. apply in_split in Hmb. destruct Hmb as (l1 & l2 & ->).
    assert (Hb1 : ~ In b l1) by (destruct Hwf as (Hnd & _); apply nodup_split1 in Hnd; tauto).
    rewrite ins_before_split by exact Hb1.
    destruct (insert_before_spec d l1 b l2 e Hwf He Hni) as (W & L & F).
    eexists; split; [reflexivity|]. rewrite wf_wf'. split; [exact W|]. split; [exact L|]. split; auto.
  - destruct (Nat.ltb_spec e (length (heap d))) as [He|He]; [|discriminate].
    destruct (mem e l) eqn:Hm; [discriminate|]. destruct (mem a l) eqn:Hma; [|discriminate].
    simpl in Hs. inversion Hs; subst; clear Hs.
    assert (Hni : ~ In e l) by (rewrite <- mem_In; congruence).
    apply mem_In in Hma. apply in_split in Hma. destruct Hma as (l1 & l2 & ->).
    assert (Ha1 : ~ In a l1) by (destruct Hwf as (Hnd & _); apply nodup_split1 in Hnd; tauto).
    rewrite ins_after_split by exact Ha1.
    destruct (insert_after_spec d l1 a l2 e Hwf He Hni) as (W & L & F).
    eexists; split; [reflexivity|]. rewrite wf_wf'. split; [exact W|]. split; [exact L|]. split; auto.
  - destruct (mem e l) eqn:Hm; [|discriminate]. inversion Hs; subst; clear Hs.
    apply mem_In in Hm. apply in_split in Hm. destruct Hm as (l1 & l2 & ->).
    assert (He1 : ~ In e l1) by (destruct Hwf as (Hnd & _); apply nodup_split1 in Hnd; tauto).
    rewrite rem_split by exact He1.
    destruct (remove_spec d l1 e l2 Hwf) as (W & L & F & N).
    eexists; split; [reflexivity|]. rewrite wf_wf'. split; [exact W|]. split; [exact L|]. split; auto.
  - inversion Hs; subst; clear Hs. simpl. rewrite (el_spec d l' n Hwf).
    eexists; split; [reflexivity|]. split; [exact Hwf0|]. repeat split; auto.
  - inversion Hs; subst; clear Hs. simpl. rewrite (dlength_spec d l' Hwf).
    eexists; split; [reflexivity|]. split; [exact Hwf0|]. repeat split; auto.
  - inversion Hs; subst; clear Hs. simpl. destruct Hwf as (_ & _ & _ & Hhd & _).
    rewrite Hhd, hdo_None. eexists; split; [reflexivity|]. split; [exact Hwf0|]. repeat split; auto.
  - inversion Hs; subst; clear Hs. simpl. destruct Hwf as (_ & _ & _ & _ & Htl).
    rewrite Htl, lasto_rev, hdo_None. eexists; split; [reflexivity|]. split; [exact Hwf0|]. repeat split; auto.
  - destruct (mem e l) eqn:Hm; [|discriminate]. inversion Hs; subst; clear Hs.
    apply mem_In in Hm. simpl. rewrite (next_spec d l' e Hwf Hm).
    eexists; split; [reflexivity|]. split; [exact Hwf0|]. repeat split; auto.
  - destruct (mem e l) eqn:Hm; [|discriminate]. inversion Hs; subst; clear Hs.
    apply mem_In in Hm. simpl. rewrite (prev_spec d l' e Hwf Hm).
    eexists; split; [reflexivity|]. split; [exact Hwf0|]. repeat split; auto.
Qed.

Theorem dstep_refines : forall d l o l' out,
  wf d l -> sstep (length (heap d)) l o = Some (l', out) ->
  exists d', dstep d o = Some (d', out) /\ wf d' l' /\ length (heap d') = length (heap d).
Proof.
  intros d l o l' out Hwf Hs. destruct (dstep_both d l o l' out Hwf Hs) as (d' & H1 & H2 & H3 & _).
  exists d'. auto.
Qed.

(* frame: nodes that are neither in the list afterwards nor the operand keep their links; a removed
   node ends with both links NULL *)
Theorem dstep_frame : forall d l o l' out d',
  wf d l -> sstep (length (heap d)) l o = Some (l', out) -> dstep d o = Some (d', out) ->
  (forall x, ~ In x l' -> (match o with DPrepend e | DAppend e | DInsertBefore _ e | DInsertAfter _ e | DRemove e => x <> e | _ => True end) -> lk (heap d') x = lk (heap d) x)
  /\ (match o with DRemove e => lk (heap d') e = nolinks | _ => True end).
Proof.
  intros d l o l' out d' Hwf Hs Hd.
  destruct (dstep_both d l o l' out Hwf Hs) as (d'' & H1 & _ & _ & H4 & H5).
  rewrite Hd in H1. inversion H1; subst. split; assumption.
Qed.

Theorem dlist_script_refines : forall ops d l outs,
  wf d l -> srun (length (heap d)) l ops = Some outs -> drun d ops = outs.
Proof.
  induction ops as [|o r IH]; intros d l outs Hwf Hs; simpl in *.
  - inversion Hs. reflexivity.
  - destruct (sstep (length (heap d)) l o) as [[l' out]|] eqn:Hst; [|discriminate].
    destruct (dstep_refines d l o l' out Hwf Hst) as (d' & Hd & Hwf' & Hlen).
    rewrite Hd. rewrite <- Hlen in Hs.
    destruct (srun (length (heap d')) l' r) as [outs'|] eqn:Hr; [|discriminate].
    inversion Hs; subst. f_equal. eapply IH; eauto.
Qed.

(* non-vacuity *)
Example dlist_nonvacuous : exists d, wf d [2; 0; 1] /\ length (heap d) = 4.
Proof.
  exists {| heap := [ {| prev := Some 2; next := Some 1 |}; {| prev := Some 0; next := None |};
                      {| prev := None; next := Some 0 |}; nolinks ];
            head := Some 2; tail := Some 1 |}.
  split; [|reflexivity]. unfold wf. simpl. repeat split.
  - repeat constructor; simpl; intuition discriminate.
  - repeat constructor.
Qed.

(* the same list built by the operations themselves *)
Example dlist_nonvacuous_ops :
  drun (dinit 4) [DAppend 0; DPrepend 2; DInsertAfter 0 1; DLength; DEl (-1); DRemove 0; DEl 1; DPrev 1]
  = [DoNone; DoNone; DoNone; DoNat 3; DoNode (Some 1); DoNone; DoNode (Some 1); DoNode (Some 2)].
Proof. reflexivity. Qed.

Print Assumptions dstep_refines.
Print Assumptions dstep_frame.
Print Assumptions dlist_script_refines.

(* Model of mir-dlist.h (DEF_DLIST): definitions only (proofs are in DlistProofs.v).

   Nodes live in a heap [node id -> (prev, next)]; NULL is [None].  The list header is (head, tail).
   Every function is transcribed assignment by assignment in the order of the C code, through the
   heap, so that a wrong order or a missed link shows up as a different heap.  DLIST_ASSERTs are
   no-ops under NDEBUG and are not modelled: the operations' preconditions (elem not yet in the
   list for the four insertions; elem / before / after in the list) are part of the abstract
   specification [sstep], which rejects the op otherwise.  The loops of [el] and [length] get fuel
   (number of nodes + 1); the theorems show it never runs out on a well-formed list. *)
From Coq Require Import List Arith ZArith Bool Lia.
Import ListNotations.
From MirV Require Import C19.Varr.   (* set_nth *)

Record links := { prev : option nat; next : option nat }.
Record dlist := { heap : list links; head : option nat; tail : option nat }.

Definition nolinks : links := {| prev := None; next := None |}.
Definition lk (h : list links) (e : nat) : links := nth e h nolinks.
Definition set_prev (h : list links) (e : nat) (p : option nat) : list links :=
  set_nth h e {| prev := p; next := next (lk h e) |}.
Definition set_next (h : list links) (e : nat) (n : option nat) : list links :=
  set_nth h e {| prev := prev (lk h e); next := n |}.

Definition dinit (nodes : nat) : dlist := {| heap := repeat nolinks nodes; head := None; tail := None |}.

Definition prepend (d : dlist) (elem : nat) : dlist :=
  let '(h1, tl1) := match head d with
                    | None => (heap d, Some elem)                    (* list->tail = elem *)
                    | Some hd => (set_prev (heap d) hd (Some elem), tail d)  (* list->head->prev = elem *)
                    end in
  let h2 := set_prev h1 elem None in
  let h3 := set_next h2 elem (head d) in
  {| heap := h3; head := Some elem; tail := tl1 |}.

Definition append (d : dlist) (elem : nat) : dlist :=
  let '(h1, hd1) := match tail d with
                    | None => (heap d, Some elem)
                    | Some tl => (set_next (heap d) tl (Some elem), head d)
                    end in
  let h2 := set_next h1 elem None in
  let h3 := set_prev h2 elem (tail d) in
  {| heap := h3; head := hd1; tail := Some elem |}.

Definition insert_before (d : dlist) (before elem : nat) : dlist :=
  match prev (lk (heap d) before) with
  | None =>
    let h1 := set_prev (heap d) before (Some elem) in
    let h2 := set_next h1 elem (Some before) in
    let h3 := set_prev h2 elem None in
    {| heap := h3; head := Some elem; tail := tail d |}
  | Some p =>
    let h1 := set_next (heap d) p (Some elem) in                   (* before->prev->next = elem *)
    let h2 := set_prev h1 elem (prev (lk h1 before)) in            (* elem->prev = before->prev *)
    let h3 := set_prev h2 before (Some elem) in
    let h4 := set_next h3 elem (Some before) in
    {| heap := h4; head := head d; tail := tail d |}
  end.

Definition insert_after (d : dlist) (after elem : nat) : dlist :=
  match next (lk (heap d) after) with
  | None =>
    let h1 := set_next (heap d) after (Some elem) in
    let h2 := set_prev h1 elem (Some after) in
    let h3 := set_next h2 elem None in
    {| heap := h3; head := head d; tail := Some elem |}
  | Some n =>
    let h1 := set_prev (heap d) n (Some elem) in                   (* after->next->prev = elem *)
    let h2 := set_next h1 elem (next (lk h1 after)) in             (* elem->next = after->next *)
    let h3 := set_next h2 after (Some elem) in
    let h4 := set_prev h3 elem (Some after) in
    {| heap := h4; head := head d; tail := tail d |}
  end.

Definition remove (d : dlist) (elem : nat) : dlist :=
  let '(h1, hd1) := match prev (lk (heap d) elem) with
                    | Some p => (set_next (heap d) p (next (lk (heap d) elem)), head d)
                    | None => (heap d, next (lk (heap d) elem))
                    end in
  let '(h2, tl2) := match next (lk h1 elem) with
                    | Some n => (set_prev h1 n (prev (lk h1 elem)), tail d)
                    | None => (h1, prev (lk h1 elem))
                    end in
  let h3 := set_next (set_prev h2 elem None) elem None in
  {| heap := h3; head := hd1; tail := tl2 |}.

(* for (e = list->head; e != NULL && n != 0; e = e->next, n--); *)
Fixpoint walk_fwd (fuel : nat) (h : list links) (e : option nat) (n : Z) : option (option nat) :=
  match e with
  | None => Some None
  | Some x => if Z.eqb n 0 then Some e
              else match fuel with O => None | S f => walk_fwd f h (next (lk h x)) (n - 1) end
  end.
(* for (e = list->tail; e != NULL && n != -1; e = e->prev, n++); *)
Fixpoint walk_bwd (fuel : nat) (h : list links) (e : option nat) (n : Z) : option (option nat) :=
  match e with
  | None => Some None
  | Some x => if Z.eqb n (-1) then Some e
              else match fuel with O => None | S f => walk_bwd f h (prev (lk h x)) (n + 1) end
  end.
Definition el (d : dlist) (n : Z) : option (option nat) :=
  if Z.leb 0 n then walk_fwd (S (length (heap d))) (heap d) (head d) n
  else walk_bwd (S (length (heap d))) (heap d) (tail d) n.

Fixpoint count_fwd (fuel : nat) (h : list links) (e : option nat) (len : nat) : option nat :=
  match e with
  | None => Some len
  | Some x => match fuel with O => None | S f => count_fwd f h (next (lk h x)) (S len) end
  end.
Definition dlength (d : dlist) : option nat := count_fwd (S (length (heap d))) (heap d) (head d) 0.

Inductive dop :=
| DPrepend (e : nat) | DAppend (e : nat) | DInsertBefore (b e : nat) | DInsertAfter (a e : nat)
| DRemove (e : nat) | DEl (n : Z) | DLength | DHead | DTail | DNext (e : nat) | DPrev (e : nat).
Inductive dout := DoNone | DoNode (e : option nat) | DoNat (n : nat).

(* None only when a loop ran out of fuel *)
Definition dstep (d : dlist) (o : dop) : option (dlist * dout) :=
  match o with
  | DPrepend e => Some (prepend d e, DoNone)
  | DAppend e => Some (append d e, DoNone)
  | DInsertBefore b e => Some (insert_before d b e, DoNone)
  | DInsertAfter a e => Some (insert_after d a e, DoNone)
  | DRemove e => Some (remove d e, DoNone)
  | DEl n => match el d n with Some r => Some (d, DoNode r) | None => None end
  | DLength => match dlength d with Some n => Some (d, DoNat n) | None => None end
  | DHead => Some (d, DoNode (head d))
  | DTail => Some (d, DoNode (tail d))
  | DNext e => Some (d, DoNode (next (lk (heap d) e)))
  | DPrev e => Some (d, DoNode (prev (lk (heap d) e)))
  end.

(* ---- abstract specification: the sequence of node ids *)
Definition mem (e : nat) (l : list nat) : bool := existsb (Nat.eqb e) l.

Fixpoint ins_before (l : list nat) (b e : nat) : list nat :=
  match l with [] => [] | x :: r => if Nat.eqb x b then e :: x :: r else x :: ins_before r b e end.
Fixpoint ins_after (l : list nat) (a e : nat) : list nat :=
  match l with [] => [] | x :: r => if Nat.eqb x a then x :: e :: r else x :: ins_after r a e end.
Fixpoint rem (l : list nat) (e : nat) : list nat :=
  match l with [] => [] | x :: r => if Nat.eqb x e then r else x :: rem r e end.
(* successor / predecessor of e in l *)
Fixpoint succ_of (l : list nat) (e : nat) : option nat :=
  match l with [] => None | x :: r => if Nat.eqb x e then hd_error r else succ_of r e end.
Definition pred_of (l : list nat) (e : nat) : option nat := succ_of (rev l) e.

Definition sel (l : list nat) (n : Z) : option nat :=
  if Z.leb 0 n then nth_error l (Z.to_nat n) else nth_error (rev l) (Z.to_nat (- n - 1)).

(* [nodes] = size of the node pool *)
Definition sstep (nodes : nat) (l : list nat) (o : dop) : option (list nat * dout) :=
  match o with
  | DPrepend e => if Nat.ltb e nodes && negb (mem e l) then Some (e :: l, DoNone) else None
  | DAppend e => if Nat.ltb e nodes && negb (mem e l) then Some (l ++ [e], DoNone) else None
  | DInsertBefore b e =>
    if Nat.ltb e nodes && negb (mem e l) && mem b l then Some (ins_before l b e, DoNone) else None
  | DInsertAfter a e =>
    if Nat.ltb e nodes && negb (mem e l) && mem a l then Some (ins_after l a e, DoNone) else None
  | DRemove e => if mem e l then Some (rem l e, DoNone) else None
  | DEl n => Some (l, DoNode (sel l n))
  | DLength => Some (l, DoNat (length l))
  | DHead => Some (l, DoNode (hd_error l))
  | DTail => Some (l, DoNode (hd_error (rev l)))
  | DNext e => if mem e l then Some (l, DoNode (succ_of l e)) else None
  | DPrev e => if mem e l then Some (l, DoNode (pred_of l e)) else None
  end.

(* ---- well-formedness: the heap restricted to the nodes of [l] is exactly the chain l *)
Fixpoint chain (h : list links) (p : option nat) (l : list nat) : Prop :=
  match l with
  | [] => True
  | x :: r => prev (lk h x) = p /\ next (lk h x) = hd_error r /\ chain h (Some x) r
  end.

Definition wf (d : dlist) (l : list nat) : Prop :=
  NoDup l /\ Forall (fun e => e < length (heap d)) l /\ chain (heap d) None l
  /\ head d = hd_error l /\ tail d = hd_error (rev l).

(* scripts: the concrete run and the abstract run side by side *)
Fixpoint drun (d : dlist) (ops : list dop) : list dout :=
  match ops with
  | [] => []
  | o :: r => match dstep d o with None => [] | Some (d', out) => out :: drun d' r end
  end.
Fixpoint srun (nodes : nat) (l : list nat) (ops : list dop) : option (list dout) :=
  match ops with
  | [] => Some []
  | o :: r => match sstep nodes l o with
              | None => None
              | Some (l', out) => match srun nodes l' r with Some outs => Some (out :: outs) | None => None end
              end
  end.

(* Model of mir-varr.h (DEF_VARR): definitions only.  The buffer is modelled with its whole
   capacity; cells never written (fresh malloc/realloc tail) are [None]. Operations whose
   VARR_ASSERT precondition fails are rejected with [None] (the C code is UB there under NDEBUG). *)
From Coq Require Import List ZArith Lia Bool.
Import ListNotations.

Record varr := { buf : list (option Z); els_num : nat }.   (* size = length buf *)

Inductive vop :=
| VPush (x : Z) | VPushArr (xs : list Z) | VPop | VTrunc (n : nat) | VExpand (n : nat)
| VTailor (n : nat) | VSet (i : nat) (x : Z) | VGet (i : nat) | VLast | VLength | VCapacity.

(* observable result of one op; ledger event = realloc (old_cap, new_cap) in elements *)
Inductive vout :=
| ONone | OVal (v : option Z) | ONat (n : nat) | OBool (b : bool).

Definition default_size : nat := 64.
Definition vcreate (size : nat) : varr :=
  {| buf := repeat None (if Nat.eqb size 0 then default_size else size); els_num := 0 |}.

Definition cap (v : varr) : nat := length (buf v).

(* realloc to n cells: keeps min(old,n) cells, new tail undefined *)
Definition resize (l : list (option Z)) (n : nat) : list (option Z) :=
  firstn n l ++ repeat None (n - length l).

Fixpoint set_nth {A} (l : list A) (i : nat) (x : A) : list A :=
  match l, i with
  | [], _ => []
  | _ :: t, O => x :: t
  | h :: t, S i' => h :: set_nth t i' x
  end.

(* expand: returns new varr, whether it reallocated, and the ledger event *)
Definition vexpand (v : varr) (size : nat) : varr * bool * option (nat * nat) :=
  if Nat.ltb (cap v) size then
    let size' := size + Nat.div size 2 in
    ({| buf := resize (buf v) size'; els_num := els_num v |}, true, Some (cap v, size'))
  else (v, false, None).

Definition vpush1 (v : varr) (x : Z) : varr :=
  {| buf := set_nth (buf v) (els_num v) (Some x); els_num := S (els_num v) |}.

Definition vstep (v : varr) (o : vop) : option (varr * vout * option (nat * nat)) :=
  match o with
  | VPush x => let '(v1, _, ev) := vexpand v (els_num v + 1) in Some (vpush1 v1 x, ONone, ev)
  | VPushArr xs =>
      let '(v1, _, ev) := vexpand v (els_num v + length xs) in
      Some (fold_left vpush1 xs v1, ONone, ev)
  | VPop => match els_num v with
            | O => None
            | S n => Some ({| buf := buf v; els_num := n |}, OVal (nth n (buf v) None), None)
            end
  | VTrunc n => if Nat.leb n (els_num v) then Some ({| buf := buf v; els_num := n |}, ONone, None) else None
  | VExpand n => let '(v1, b, ev) := vexpand v n in Some (v1, OBool b, ev)
  | VTailor n =>
      if Nat.eqb (cap v) n then Some ({| buf := buf v; els_num := n |}, ONone, None)
      else Some ({| buf := resize (buf v) n; els_num := n |}, ONone, Some (cap v, n))
  | VSet i x => if Nat.ltb i (els_num v) then Some ({| buf := set_nth (buf v) i (Some x); els_num := els_num v |}, ONone, None) else None
  | VGet i => if Nat.ltb i (els_num v) then Some (v, OVal (nth i (buf v) None), None) else None
  | VLast => match els_num v with O => None | S n => Some (v, OVal (nth n (buf v) None), None) end
  | VLength => Some (v, ONat (els_num v), None)
  | VCapacity => Some (v, ONat (cap v), None)
  end.

(* run a script; stops at the first rejected op *)
Fixpoint vrun (v : varr) (ops : list vop) : list (vout * option (nat * nat)) :=
  match ops with
  | [] => []
  | o :: r => match vstep v o with
              | None => []
              | Some (v', out, ev) => (out, ev) :: vrun v' r
              end
  end.

(* ---- abstract specification: a plain list of (possibly undefined) cells *)
Definition spec := list (option Z).
Definition abs (v : varr) : spec := firstn (els_num v) (buf v).

Definition sstep (s : spec) (o : vop) : option (spec * vout) :=
  match o with
  | VPush x => Some (s ++ [Some x], ONone)
  | VPushArr xs => Some (s ++ map Some xs, ONone)
  | VPop => match rev s with [] => None | x :: r => Some (rev r, OVal x) end
  | VTrunc n => if Nat.leb n (length s) then Some (firstn n s, ONone) else None
  | VSet i x => if Nat.ltb i (length s) then Some (set_nth s i (Some x), ONone) else None
  | VGet i => if Nat.ltb i (length s) then Some (s, OVal (nth i s None)) else None
  | VLast => match rev s with [] => None | x :: _ => Some (s, OVal x) end
  | VLength => Some (s, ONat (length s))
  | _ => None   (* expand / tailor / capacity talk about capacity: not list operations *)
  end.

Definition wf (v : varr) : Prop := els_num v <= cap v.

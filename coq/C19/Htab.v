(* Model of mir-htab.h (DEF_HTAB): definitions only (proofs are in HtabProofs.v).

   [entries] is VARR(htab_ind_t) (length = size, a power of two), [els] is VARR(HTAB_EL(T)) with its
   whole length els_size = size/2; a cell that was never written (fresh realloc tail) is [None] and
   reading it is an error ([None] result of the operation), as is an out-of-range access or running
   out of fuel in the probe loop: the theorems show none of these happens.  hash_func / eq_func are
   Section variables; free_func is a ghost log [flog] of the elements it was called on, in call
   order (the model is of a table created WITH a free function; with free_func == NULL the same
   code runs minus the calls).  Not modelled: 32-bit wrap-around of htab_size_t / of
   5*ind+peterb+1 (needs a table of >= 2^29 entries), allocation failure, HTAB_ASSERT. *)
From Coq Require Import List NArith Bool Arith Lia.
Import ListNotations.
From MirV Require Import C19.Varr.   (* set_nth *)

Inductive slot := Empty | Deleted | Ix (n : nat).     (* HTAB_EMPTY_IND | HTAB_DELETED_IND | index in els *)
Inductive action := Find | Insert | Replace | Delete.

Definition is_ins (a : action) : bool := match a with Insert | Replace => true | _ => false end.

(* for (size = 2; min_size > size; size *= 2); *)
Fixpoint create_size (fuel size min_size : nat) : nat :=
  if Nat.leb min_size size then size
  else match fuel with O => size | S f => create_size f (2 * size) min_size end.

Section Htab.
Variable A : Type.
Variable hashf : A -> N.
Variable eqf : A -> A -> bool.

Record htab := {
  entries : list slot;
  els : list (option (N * A));          (* (hash, el); hash = 0 = HTAB_DELETED_HASH marks a dead cell *)
  h_els_num : nat; els_start : nat; els_bound : nat;
  collisions : N;
  flog : list A                         (* ghost: arguments of the free_func calls so far *)
}.

Definition hcreate (min_size : nat) : htab :=
  let size := create_size min_size 2 min_size in
  {| entries := repeat Empty (2 * size); els := repeat None size;
     h_els_num := 0; els_start := 0; els_bound := 0; collisions := 0; flog := [] |}.

Definition bump (h : N) : N := if N.eqb h 0 then 1 else h.   (* if (hash == HTAB_DELETED_HASH) hash += 1 *)

Definition with_entries (h : htab) (e : list slot) : htab :=
  {| entries := e; els := els h; h_els_num := h_els_num h; els_start := els_start h; els_bound := els_bound h;
     collisions := collisions h; flog := flog h |}.

(* the for (;; htab->collisions++) loop.  ind, peterb: loop variables; fd: first_deleted_entry
   (an index into entries); res: current contents of *res (None = never written). *)
Fixpoint probe (fuel : nat) (h : htab) (x : A) (hash : N) (act : action) (mask : N) (ind peterb : N)
         (fd : option nat) (res : option A) : option (htab * bool * option A) :=
  match fuel with
  | O => None
  | S f =>
    let e := N.to_nat ind in
    let continue (fd' : option nat) :=
        let peterb' := N.shiftr peterb 11 in
        let ind' := N.land (5 * ind + peterb' + 1) mask in
        probe f {| entries := entries h; els := els h; h_els_num := h_els_num h; els_start := els_start h;
                   els_bound := els_bound h; collisions := collisions h + 1; flog := flog h |}
              x hash act mask ind' peterb' fd' res in
    match nth_error (entries h) e with
    | None => None                                            (* out of range: cannot happen *)
    | Some Empty =>
      if is_ins act then
        if Nat.ltb (els_bound h) (length (els h)) then
          let entry := match fd with Some d => d | None => e end in
          Some ({| entries := set_nth (entries h) entry (Ix (els_bound h));
                   els := set_nth (els h) (els_bound h) (Some (hash, x));
                   h_els_num := S (h_els_num h); els_start := els_start h; els_bound := S (els_bound h);
                   collisions := collisions h; flog := flog h |}, false, Some x)
        else None                                             (* write past the end of els *)
      else Some (h, false, res)
    | Some Deleted => continue (Some e)
    | Some (Ix n) =>
      match nth_error (els h) n with
      | Some (Some (hh, y)) =>
        if N.eqb hh hash && eqf y x then
          match act with
          | Delete =>
            Some ({| entries := set_nth (entries h) e Deleted;
                     els := set_nth (els h) n (Some (0%N, y));
                     h_els_num := pred (h_els_num h); els_start := els_start h; els_bound := els_bound h;
                     collisions := collisions h; flog := flog h ++ [y] |}, true, res)
          | Replace =>
            Some ({| entries := entries h;
                     els := set_nth (els h) n (Some (hh, x));
                     h_els_num := h_els_num h; els_start := els_start h; els_bound := els_bound h;
                     collisions := collisions h; flog := flog h ++ [y] |}, true, Some x)
          | _ => Some (h, true, Some y)
          end
        else continue fd
      | _ => None                                             (* undefined / out-of-range cell *)
      end
    end
  end.

Definition probe_fuel (h : htab) : nat := length (entries h) + 4.

(* HTAB_OP (T, do): [depth] bounds the recursion (the rebuild calls do (…, HTAB_INSERT, res)) *)
Fixpoint hdo (depth : nat) (h : htab) (x : A) (act : action) (res : option A)
  : option (htab * bool * option A) :=
  match depth with
  | O => None
  | S d =>
    let size := length (entries h) in
    let els_size := length (els h) in
    let rebuilt :=
        if is_ins act && Nat.eqb (els_bound h) els_size then
          let h1 := {| entries := repeat Empty (2 * size);
                       els := els h ++ repeat None els_size;       (* VARR_TAILOR (els, els_size * 2) *)
                       h_els_num := 0; els_start := 0; els_bound := 0;
                       collisions := collisions h; flog := flog h |} in
          fold_left (fun (acc : option (htab * option A)) (i : nat) =>
                       match acc with
                       | None => None
                       | Some (hc, rc) =>
                         match nth_error (els hc) i with
                         | Some (Some (hh, y)) =>
                           if N.eqb hh 0 then Some (hc, rc)
                           else match hdo d hc y Insert rc with
                                | Some (hc', _, rc') => Some (hc', rc')
                                | None => None
                                end
                         | _ => None
                         end
                       end)
                    (seq (els_start h) (els_bound h - els_start h)) (Some (h1, res))
        else Some (h, res) in
    match rebuilt with
    | None => None
    | Some (h2, res2) =>
      let mask := (N.of_nat (length (entries h2)) - 1)%N in
      let hash := bump (hashf x) in
      probe (probe_fuel h2) h2 x hash act mask (N.land hash mask) hash None res2
    end
  end.

Definition hdo_top (h : htab) (x : A) (act : action) : option (htab * bool * option A) :=
  hdo 2 h x act None.

(* live elements of the first [n] cells, in index order; None if an undefined cell would be read *)
Fixpoint live_cells (cells : list (option (N * A))) : option (list A) :=
  match cells with
  | [] => Some []
  | None :: _ => None
  | Some (hh, y) :: r =>
    match live_cells r with
    | None => None
    | Some l => Some (if N.eqb hh 0 then l else y :: l)
    end
  end.

Definition hforeach (h : htab) : option (list A) := live_cells (firstn (els_bound h) (els h)).

Definition hclear (h : htab) : option htab :=
  match hforeach h with
  | None => None
  | Some l => Some {| entries := repeat Empty (length (entries h)); els := els h;
                      h_els_num := 0; els_start := 0; els_bound := 0;
                      collisions := collisions h; flog := flog h ++ l |}
  end.

(* ---- scripts *)
Inductive hop := HDo (act : action) (x : A) | HClear | HElsNum | HForeach | HCollisions.
Inductive hout := HoDo (found : bool) (res : option A) | HoNone | HoNat (n : nat) | HoList (l : list A) | HoN (n : N).

Definition hstep (h : htab) (o : hop) : option (htab * hout) :=
  match o with
  | HDo act x => match hdo_top h x act with
                 | Some (h', found, res) => Some (h', HoDo found res)
                 | None => None
                 end
  | HClear => match hclear h with Some h' => Some (h', HoNone) | None => None end
  | HElsNum => Some (h, HoNat (h_els_num h))
  | HForeach => match hforeach h with Some l => Some (h, HoList l) | None => None end
  | HCollisions => Some (h, HoN (collisions h))
  end.

(* ---- abstract specification: an insertion-ordered association list of pairwise non-eq elements,
   together with the list of dropped (freed) elements *)
Fixpoint afind (m : list A) (x : A) : option A :=
  match m with [] => None | y :: r => if eqf y x then Some y else afind r x end.
Fixpoint areplace (m : list A) (x : A) : list A :=
  match m with [] => [] | y :: r => if eqf y x then x :: r else y :: areplace r x end.
Fixpoint aremove (m : list A) (x : A) : list A :=
  match m with [] => [] | y :: r => if eqf y x then r else y :: aremove r x end.

(* returns new map, output, elements dropped by this op *)
Definition astep (m : list A) (o : hop) : list A * hout * list A :=
  match o with
  | HDo act x =>
    match afind m x, act with
    | Some y, Find | Some y, Insert => (m, HoDo true (Some y), [])
    | Some y, Replace => (areplace m x, HoDo true (Some x), [y])
    | Some y, Delete => (aremove m x, HoDo true None, [y])
    | None, Find | None, Delete => (m, HoDo false None, [])
    | None, _ => (m ++ [x], HoDo false (Some x), [])
    end
  | HClear => ([], HoNone, m)
  | HElsNum => (m, HoNat (length m), [])
  | HForeach => (m, HoList m, [])
  | HCollisions => (m, HoNone, [])           (* not an abstract notion; excluded from the refinement *)
  end.

End Htab.

Arguments entries {A}. Arguments els {A}. Arguments h_els_num {A}. Arguments els_start {A}.
Arguments els_bound {A}. Arguments collisions {A}. Arguments flog {A}.
Arguments HDo {A}. Arguments HClear {A}. Arguments HElsNum {A}. Arguments HForeach {A}. Arguments HCollisions {A}.
Arguments HoDo {A}. Arguments HoNone {A}. Arguments HoNat {A}. Arguments HoList {A}. Arguments HoN {A}.

(* ---- the instance run by the correspondence check: elements are numbers key*1000+val, equality
   is equality of keys, the hash of a key is looked up in a table supplied by the script (so value 0
   and collisions can be forced). *)
Definition key_of (x : N) : N := (x / 1000)%N.
Definition inst_hash (table : list N) (x : N) : N := nth (N.to_nat (key_of x)) table 0%N.
Definition inst_eq (x y : N) : bool := N.eqb (key_of x) (key_of y).
Definition inst_create (min_size : nat) : htab N := hcreate N min_size.
Definition inst_step (table : list N) (h : htab N) (o : hop N) : option (htab N * hout N) :=
  hstep N (inst_hash table) inst_eq h o.

(* C11 / C10: label IDENTITY in the readers (mir.c: to_lab / create_label, label table of MIR_read_with_func;
   the scanner keeps the same discipline with its label-name table).

   Text and bytes name a label by its number.  In memory a label is an insn object; branch / switch / laddr
   operands and lref items hold a pointer to it, and load / link / interpreter / generators follow the pointer.
   The reader keeps a module-wide table number -> object:
     to_lab n        looks n up and, when absent, makes a new label object and enters it;
     create_label n  makes a new label object and does NOT touch the table.
   Every mention of a number - a label operand, an lref label, a label insn inside a function, a label that ENDS a
   function (collected while looking for the next insn and appended at `endfunc`) - must go through to_lab; then all
   mentions of one number inside a module are one object, and a reference whose number is placed somewhere is attached
   to the placed insn.  A reader that appends the labels ending a function with create_label (seeded C11-v1)
   satisfies neither.

   The events of one module, in stream order: EPlace trailing n = a label insn n is appended to the function being
   read (trailing = it is one of the labels in front of `endfunc`), ERef n = an operand / lref item mentions n.
   Objects are numbered in allocation order. *)
From Coq Require Import List NArith Bool Lia.
Import ListNotations.
Open Scope N_scope.

Inductive ev : Type :=
| EPlace (trailing : bool) (n : N)
| ERef (n : N).

Record st : Type := mk_st {
  tbl : list (N * N);        (* label number -> object, the reader's table *)
  next : N;                  (* next object to allocate *)
  placed : list (N * N);     (* (number, object) of the label insns appended to functions *)
  refs : list (N * N)        (* (number, object) held by operands and lref items *)
}.

Definition init : st := mk_st [] 0 [] [].

Fixpoint lookup (t : list (N * N)) (n : N) : option N :=
  match t with
  | [] => None
  | (k, v) :: r => if N.eqb k n then Some v else lookup r n
  end.

Definition to_lab (s : st) (n : N) : st * N :=
  match lookup (tbl s) n with
  | Some id => (s, id)
  | None => (mk_st ((n, next s) :: tbl s) (N.succ (next s)) (placed s) (refs s), next s)
  end.

Definition create_label (s : st) (n : N) : st * N :=
  (mk_st (tbl s) (N.succ (next s)) (placed s) (refs s), next s).

(* trail_via_table = true: the code as it is; false: labels ending a function made with create_label *)
Definition step (trail_via_table : bool) (s : st) (e : ev) : st :=
  match e with
  | EPlace tr n =>
      let '(s', id) := if tr && negb trail_via_table then create_label s n else to_lab s n in
      mk_st (tbl s') (next s') ((n, id) :: placed s') (refs s')
  | ERef n =>
      let '(s', id) := to_lab s n in
      mk_st (tbl s') (next s') (placed s') ((n, id) :: refs s')
  end.

Definition run (trail_via_table : bool) (evs : list ev) : st := fold_left (step trail_via_table) evs init.

(* every number an operand / lref mentions is the number of a label insn of the module *)
Definition closed (evs : list ev) : Prop := forall n, In (ERef n) evs -> exists tr, In (EPlace tr n) evs.

(* ---- invariant: whatever was handed out for a number is what the table holds for it *)
Definition inv (s : st) : Prop :=
  (forall n id, In (n, id) (placed s) -> lookup (tbl s) n = Some id)
  /\ (forall n id, In (n, id) (refs s) -> lookup (tbl s) n = Some id).

Lemma to_lab_spec : forall s n s' id, to_lab s n = (s', id) ->
  lookup (tbl s') n = Some id /\ placed s' = placed s /\ refs s' = refs s
  /\ (forall k v, lookup (tbl s) k = Some v -> lookup (tbl s') k = Some v).
Proof.
  intros s n s' id H. unfold to_lab in H. destruct (lookup (tbl s) n) eqn:E.
  - inversion H; subst. repeat split; auto.
  - inversion H; subst; simpl. rewrite N.eqb_refl. repeat split; auto.
    intros k v Hk. destruct (N.eqb n k) eqn:Ek; auto.
    apply N.eqb_eq in Ek. subst. rewrite E in Hk. discriminate.
Qed.

Lemma step_inv : forall s e, inv s -> inv (step true s e).
Proof.
  intros s e [Hp Hr]. destruct e as [tr n | n]; simpl.
  - rewrite andb_false_r. destruct (to_lab s n) as [s' id] eqn:E.
    apply to_lab_spec in E. destruct E as [Hl [Ep [Er Hm]]].
    split; simpl; intros k v Hin.
    + destruct Hin as [Hin | Hin]; [inversion Hin; subst; auto |]. rewrite Ep in Hin. auto.
    + rewrite Er in Hin. auto.
  - destruct (to_lab s n) as [s' id] eqn:E.
    apply to_lab_spec in E. destruct E as [Hl [Ep [Er Hm]]].
    split; simpl; intros k v Hin.
    + rewrite Ep in Hin. auto.
    + destruct Hin as [Hin | Hin]; [inversion Hin; subst; auto |]. rewrite Er in Hin. auto.
Qed.

Lemma fold_inv : forall evs s, inv s -> inv (fold_left (step true) evs s).
Proof. induction evs; simpl; intros; auto using step_inv. Qed.

Lemma run_inv : forall evs, inv (run true evs).
Proof. intros. apply fold_inv. split; simpl; intros; contradiction. Qed.

(* all mentions of one number are one object *)
Lemma label_number_one_object_l : forall evs n id1 id2,
  In (n, id1) (refs (run true evs)) -> In (n, id2) (placed (run true evs)) -> id1 = id2.
Proof.
  intros evs n id1 id2 H1 H2. destruct (run_inv evs) as [Hp Hr].
  apply Hr in H1. apply Hp in H2. congruence.
Qed.

(* ---- placed / refs as functions of the events *)
Lemma step_placed_mono : forall b s e x, In x (placed s) -> In x (placed (step b s e)).
Proof.
  intros b s e x H. destruct e as [tr n | n]; simpl.
  - destruct (tr && negb b).
    + simpl. auto.
    + destruct (to_lab s n) as [s' id] eqn:E. unfold to_lab in E.
      destruct (lookup (tbl s) n); inversion E; subst; simpl; auto.
  - destruct (to_lab s n) as [s' id] eqn:E. unfold to_lab in E.
    destruct (lookup (tbl s) n); inversion E; subst; simpl; auto.
Qed.

Lemma fold_placed_mono : forall b evs s x, In x (placed s) -> In x (placed (fold_left (step b) evs s)).
Proof. induction evs; simpl; intros; auto using step_placed_mono. Qed.

Lemma step_places : forall b s tr n, exists id, In (n, id) (placed (step b s (EPlace tr n))).
Proof.
  intros. simpl. destruct (tr && negb b).
  - eexists. simpl. left. reflexivity.
  - destruct (to_lab s n) as [s' id]. eexists. simpl. left. reflexivity.
Qed.

Lemma fold_places : forall b evs s tr n, In (EPlace tr n) evs ->
  exists id, In (n, id) (placed (fold_left (step b) evs s)).
Proof.
  induction evs as [| e evs IH]; simpl; intros s tr n H; [contradiction |].
  destruct H as [H | H].
  - subst. destruct (step_places b s tr n) as [id Hid]. exists id. apply fold_placed_mono. exact Hid.
  - eapply IH. exact H.
Qed.

Lemma step_refs_origin : forall b s e n id, In (n, id) (refs (step b s e)) ->
  In (n, id) (refs s) \/ e = ERef n.
Proof.
  intros b s e n id H. destruct e as [tr k | k]; simpl in H.
  - destruct (tr && negb b).
    + simpl in H. auto.
    + destruct (to_lab s k) as [s' i] eqn:E. unfold to_lab in E.
      destruct (lookup (tbl s) k); inversion E; subst; simpl in H; auto.
  - destruct (to_lab s k) as [s' i] eqn:E. unfold to_lab in E.
    destruct (lookup (tbl s) k); inversion E; subst; simpl in H;
      (destruct H as [H | H]; [inversion H; subst; auto | auto]).
Qed.

Lemma fold_refs_origin : forall b evs s n id, In (n, id) (refs (fold_left (step b) evs s)) ->
  In (n, id) (refs s) \/ In (ERef n) evs.
Proof.
  induction evs as [| e evs IH]; simpl; intros s n id H; auto.
  apply IH in H. destruct H as [H | H]; auto.
  apply step_refs_origin in H. destruct H as [H | H]; auto.
Qed.

(* a reference whose number is placed in the module is attached to a placed label insn *)
Lemma label_refs_attached_l : forall evs, closed evs ->
  forall n id, In (n, id) (refs (run true evs)) -> In (n, id) (placed (run true evs)).
Proof.
  intros evs Hc n id H.
  assert (Hr : In (ERef n) evs).
  { unfold run in H. apply fold_refs_origin in H. destruct H as [H | H]; [simpl in H; contradiction | exact H]. }
  destruct (Hc n Hr) as [tr Hp].
  destruct (fold_places true evs init tr n Hp) as [id2 Hid2].
  assert (id = id2) by (eapply label_number_one_object_l; eauto).
  subst. exact Hid2.
Qed.

(* the reader that makes the labels ending a function with create_label: a closed module whose reference
   is attached to no label insn (a branch in front of the label that ends the function) *)
Definition ex_trailing : list ev := [EPlace false 1; ERef 2; ERef 1; EPlace true 2].

Lemma ex_trailing_closed : closed ex_trailing.
Proof.
  intros n H. simpl in H.
  destruct H as [H | [H | [H | [H | H]]]]; try discriminate; try contradiction; inversion H; subst.
  - exists true. simpl. auto.
  - exists false. simpl. auto.
Qed.

Lemma trailing_create_label_detaches :
  exists evs, closed evs /\ exists n id, In (n, id) (refs (run false evs)) /\ ~ In (n, id) (placed (run false evs)).
Proof.
  exists ex_trailing. split; [exact ex_trailing_closed |].
  exists 2, 1. split.
  - vm_compute. auto.
  - vm_compute. intros [H | [H | H]]; try discriminate; contradiction.
Qed.

(* non-vacuity: the same module through the real reader - the reference to 2 and the label insn 2 are object 1 *)
Example ex_trailing_attached :
  refs (run true ex_trailing) = [(1, 0); (2, 1)] /\ placed (run true ex_trailing) = [(2, 1); (1, 0)].
Proof. vm_compute. split; reflexivity. Qed.

(* Temporary-name counters restored by the two readers (mir.c process_reserved_name, called from
   to_reg / read_name of the binary reader and on every statement label of MIR_scan_string).

   module->last_temp_item_num and func->last_temp_num are not part of the module AST (no writer shows
   them); after a read they are a function of the names the reader saw.  This file models
     - process_reserved_name: strncmp with the prefix, glibc strtoul (leading white space, sign,
       ERANGE clamp) on the rest, "*end != 0" test, truncation to uint32_t, maximum;
     - which names of a module go through read_name with a non-NULL module / through to_reg, in
       reading order, as functions of the AST;
     - _MIR_get_temp_item_name: ".lc" ^ decimal (counter + 1);
   and proves that after a read the counter is at least the number of every reserved item name
   present, so the next generated temporary item name is not the name of an item of the module.
   Definitions first, proofs below. *)
From Coq Require Import List ZArith NArith Bool Lia.
From MirV Require Import Base.W64 Mir.Opcode C11.Ast C11.BinIO C11.BinIOProofs C10.TextTokens C10.TextOut C10.TextScan C10.TextProofs C10.LexProofs.
Import ListNotations.
Local Open Scope Z_scope.
Local Notation length := List.length.

(* ------------------------------------------------------------------ process_reserved_name *)

Definition c_isspace (c : N) : bool := (N.eqb c 32 || (N.leb 9 c && N.leb c 13))%bool.

Fixpoint skip_spaces (cs : bytes) : bytes :=
  match cs with
  | c :: r => if c_isspace c then skip_spaces r else cs
  | [] => []
  end.

Fixpoint digit_run (cs : bytes) : nat :=
  match cs with
  | c :: r => if c_isdigit c then S (digit_run r) else O
  | [] => O
  end.

(* num = strtoul (rest, &end, 10); if ( *end != 0 ) return;  -> Some ((uint32_t) num) / None.
   [rest] is a C string (no NUL inside).  Without any digit strtoul sets end = rest and returns 0. *)
Definition strip_sign (cs : bytes) : bytes :=
  match cs with
  | c :: r => if (N.eqb c 45 || N.eqb c 43)%bool then r else cs
  | [] => []
  end.

Definition reserved_num (rest : bytes) : option Z :=
  let r1 := skip_spaces rest in
  let ds := strip_sign r1 in
  match digit_run ds with
  | O => match rest with [] => Some 0 | _ => None end
  | n => if Nat.ltb n (length ds) then None else Some (strtoul 10 r1 mod 2 ^ 32)
  end.

(* strncmp (s, prefix, strlen (prefix)) == 0 -> the rest of s *)
Fixpoint strip_prefix (p s : bytes) : option bytes :=
  match p, s with
  | [], _ => Some s
  | a :: p', b :: s' => if N.eqb a b then strip_prefix p' s' else None
  | _ :: _, [] => None
  end.

Definition reserved_val (prefix s : bytes) : option Z :=
  match strip_prefix prefix s with
  | Some rest => reserved_num rest
  | None => None
  end.

Definition process_reserved (prefix s : bytes) (cur : Z) : Z :=
  match reserved_val prefix s with
  | Some n => if cur <? n then n else cur
  | None => cur
  end.

Definition lc_prefix : bytes := [46; 108; 99]%N.     (* TEMP_ITEM_NAME_PREFIX ".lc" *)
Definition t_prefix : bytes := [116]%N.              (* TEMP_REG_NAME_PREFIX "t" *)

Definition counter_of (prefix : bytes) (names : list name) : Z :=
  fold_left (fun c s => process_reserved prefix s c) names 0.

(* _MIR_get_temp_item_name after module->last_temp_item_num++ (k = the incremented counter, "%u") *)
Definition temp_item_name (k : Z) : name := lc_prefix ++ p_nat k.

(* ------------------------------------------------------------------ names the binary reader passes to read_name
   with module != NULL (item names, referenced item names of ref/expr data, argument and variable
   names, alias names; not: the module name, keywords, ref operands of insns, hard register names) *)

Definition opt_list {A} (o : option A) : list A := match o with Some a => [a] | None => [] end.

Definition alias_or_empty (o : option name) : name := match o with Some a => a | None => [] end.

Definition mem_alias_names (m : mem) : list name :=
  if (is_some (m_alias m) || is_some (m_nonalias m))%bool
  then [alias_or_empty (m_alias m); alias_or_empty (m_nonalias m)] else [].

Definition op_item_names (o : operand) : list name :=
  match o with OMem m => mem_alias_names m | _ => [] end.

Definition insn_item_names (i : insn) : list name :=
  match i with IInsn _ ops => flat_map op_item_names ops | ILabel _ => [] end.

Definition func_item_names (f : func) : list name :=
  f_name f :: map v_name (f_args f) ++ map snd (f_locals f) ++ map (fun g => snd (fst g)) (f_globals f)
  ++ flat_map insn_item_names (f_insns f).

Definition bin_item_names (it : item) : list name :=
  match it with
  | ItImport n | ItExport n | ItForward n => [n]
  | ItBss n _ | ItData n _ _ | ItLref n _ _ _ => opt_list n
  | ItRef n r _ => opt_list n ++ [r]
  | ItExpr n f => opt_list n ++ [f]
  | ItProto n _ _ args => n :: map v_name args
  | ItFunc f => func_item_names f
  end.

(* module->last_temp_item_num after MIR_read_with_func *)
Definition bin_item_counter (m : module) : Z := counter_of lc_prefix (flat_map bin_item_names (mod_items m)).

(* registers passed to to_reg: register operands, base and index of memory operands *)
Definition op_reg_names (o : operand) : list name :=
  match o with
  | OReg r => [r]
  | OMem m => opt_list (m_base m) ++ opt_list (m_index m)
  | _ => []
  end.

Definition insn_reg_names (i : insn) : list name :=
  match i with IInsn _ ops => flat_map op_reg_names ops | ILabel _ => [] end.

(* func->last_temp_num after MIR_read_with_func *)
Definition bin_reg_counter (f : func) : Z := counter_of t_prefix (flat_map insn_reg_names (f_insns f)).

Definition funcs_of (m : module) : list func :=
  flat_map (fun it => match it with ItFunc f => [f] | _ => [] end) (mod_items m).

Definition bin_item_counters (ms : list module) : list Z := map bin_item_counter ms.
Definition bin_reg_counters (ms : list module) : list Z := map bin_reg_counter (flat_map funcs_of ms).

(* ------------------------------------------------------------------ MIR_scan_string: only the labels of a statement
   (the names of defined items; insn labels L<n> never match ".lc") are processed; import/export/
   forward names are operands there *)

Definition text_item_names (it : item) : list name :=
  match it with
  | ItImport _ | ItExport _ | ItForward _ => []
  | _ => opt_list (item_name it)
  end.

Definition text_item_counter (m : module) : Z := counter_of lc_prefix (flat_map text_item_names (mod_items m)).
Definition text_item_counters (ms : list module) : list Z := map text_item_counter ms.

Definition is_decl (it : item) : bool :=
  match it with ItImport _ | ItExport _ | ItForward _ => true | _ => false end.

(* ================================================================== proofs *)

Lemma process_reserved_ge p s c : c <= process_reserved p s c.
Proof. unfold process_reserved. destruct (reserved_val p s) as [n|]; [|lia]. destruct (c <? n) eqn:E; lia. Qed.

Lemma process_reserved_val p s c n : reserved_val p s = Some n -> n <= process_reserved p s c.
Proof. intros H. unfold process_reserved. rewrite H. destruct (c <? n) eqn:E; lia. Qed.

Lemma fold_counter_ge p l : forall c, c <= fold_left (fun c s => process_reserved p s c) l c.
Proof.
  induction l as [|s l IH]; intros c; cbn [fold_left]; [lia|].
  pose proof (process_reserved_ge p s c). pose proof (IH (process_reserved p s c)). lia.
Qed.

Lemma fold_counter_in p s n l : In s l -> reserved_val p s = Some n ->
  forall c, n <= fold_left (fun c s => process_reserved p s c) l c.
Proof.
  intros Hin Hv. induction l as [|x l IH]; [contradiction|]. intros c. cbn [fold_left].
  destruct Hin as [->|Hin].
  - pose proof (process_reserved_val p s c n Hv). pose proof (fold_counter_ge p l (process_reserved p s c)). lia.
  - apply IH. exact Hin.
Qed.

(* the counter is the maximum: at least every reserved number among the names, and 0 or one of them *)
Lemma counter_of_in p s n l : In s l -> reserved_val p s = Some n -> n <= counter_of p l.
Proof. intros H1 H2. unfold counter_of. now apply fold_counter_in with (s := s). Qed.

Lemma counter_of_nonneg p l : 0 <= counter_of p l.
Proof. unfold counter_of. apply fold_counter_ge. Qed.

Lemma strip_prefix_app p s : strip_prefix p (p ++ s) = Some s.
Proof. induction p as [|a p IH]; [reflexivity|]. cbn. now rewrite N.eqb_refl. Qed.

Lemma digit_run_all ds : all_digits ds -> digit_run ds = length ds.
Proof. induction 1 as [|c ds Hc _ IH]; [reflexivity|]. cbn. now rewrite Hc, IH. Qed.

Lemma digit_not_space c : c_isdigit c = true -> c_isspace c = false /\ c <> 45%N /\ c <> 43%N.
Proof.
  intros H. unfold c_isdigit in H. apply andb_true_iff in H. destruct H as [H1 H2]. apply N.leb_le in H1, H2.
  unfold c_isspace. repeat split; try lia.
  apply orb_false_iff. split; [apply N.eqb_neq; lia|]. apply andb_false_iff. right. apply N.leb_gt. lia.
Qed.

(* the reader recognises the name _MIR_get_temp_item_name generates for counter value k *)
Lemma reserved_num_p_nat k : 0 <= k < 2 ^ 32 -> reserved_num (p_nat k) = Some k.
Proof.
  intros Hk. pose proof (p_nat_digits k (proj1 Hk)) as Hd.
  destruct (p_nat_nonempty k (proj1 Hk)) as [d [ds E]].
  assert (Hu : strtoul 10 (p_nat k) = k) by (apply strtoul_p_nat; unfold in_u64; lia).
  rewrite E in *. pose proof (Forall_inv Hd) as Hc. cbv beta in Hc.
  destruct (digit_not_space d Hc) as [Hs [Hm Hp]].
  unfold reserved_num. cbn [skip_spaces]. rewrite Hs. cbn [strip_sign].
  replace (N.eqb d 45 || N.eqb d 43)%bool with false
    by (symmetry; apply orb_false_iff; split; apply N.eqb_neq; assumption).
  rewrite (digit_run_all (d :: ds) Hd). cbn [length].
  rewrite Nat.ltb_irrefl. rewrite Hu. f_equal. apply Z.mod_small. lia.
Qed.

Lemma reserved_val_temp_item_name k : 0 <= k < 2 ^ 32 -> reserved_val lc_prefix (temp_item_name k) = Some k.
Proof. intros Hk. unfold reserved_val, temp_item_name. rewrite strip_prefix_app. now apply reserved_num_p_nat. Qed.

Lemma item_name_bin_names it n : item_name it = Some n -> In n (bin_item_names it).
Proof.
  destruct it as [x|x|x|x l|x t els|x r d|x l l2 d|x f|x va res args|f]; cbn; intros H;
    try (inversion H; subst; now left); try (subst x; now left).
Qed.

Lemma item_name_text_names it n : is_decl it = false -> item_name it = Some n -> In n (text_item_names it).
Proof.
  destruct it as [x|x|x|x l|x t els|x r d|x l l2 d|x f|x va res args|f]; cbn; intros Hd H; try discriminate;
    try (inversion H; subst; now left); try (subst x; now left).
Qed.

(* After MIR_read_with_func: the module counter is at least the number of every reserved temporary
   item name present in the module ... *)
Lemma bin_item_counter_bound m it k :
  In it (mod_items m) -> 0 <= k < 2 ^ 32 -> item_name it = Some (temp_item_name k) -> k <= bin_item_counter m.
Proof.
  intros Hin Hk Hn. unfold bin_item_counter.
  apply counter_of_in with (s := temp_item_name k); [|now apply reserved_val_temp_item_name].
  apply in_flat_map. exists it. split; [exact Hin | now apply item_name_bin_names].
Qed.

(* ... hence the next name _MIR_get_temp_item_name hands out is not the name of an item *)
Lemma bin_temp_item_fresh_lemma m it :
  In it (mod_items m) -> bin_item_counter m + 1 < 2 ^ 32 ->
  item_name it <> Some (temp_item_name (bin_item_counter m + 1)).
Proof.
  intros Hin Hlt Hn.
  assert (H0 : 0 <= bin_item_counter m) by apply counter_of_nonneg.
  assert (Hk : 0 <= bin_item_counter m + 1 < 2 ^ 32) by lia.
  pose proof (bin_item_counter_bound m it (bin_item_counter m + 1) Hin Hk Hn). lia.
Qed.

(* the same for MIR_scan_string and the defined items (statement labels) *)
Lemma text_item_counter_bound m it k :
  In it (mod_items m) -> is_decl it = false -> 0 <= k < 2 ^ 32 -> item_name it = Some (temp_item_name k) ->
  k <= text_item_counter m.
Proof.
  intros Hin Hd Hk Hn. unfold text_item_counter.
  apply counter_of_in with (s := temp_item_name k); [|now apply reserved_val_temp_item_name].
  apply in_flat_map. exists it. split; [exact Hin | now apply item_name_text_names].
Qed.

Lemma text_temp_item_fresh_lemma m it :
  In it (mod_items m) -> is_decl it = false -> text_item_counter m + 1 < 2 ^ 32 ->
  item_name it <> Some (temp_item_name (text_item_counter m + 1)).
Proof.
  intros Hin Hd Hlt Hn.
  assert (H0 : 0 <= text_item_counter m) by apply counter_of_nonneg.
  assert (Hk : 0 <= text_item_counter m + 1 < 2 ^ 32) by lia.
  pose proof (text_item_counter_bound m it (text_item_counter m + 1) Hin Hd Hk Hn). lia.
Qed.

(* the counters are functions of the names only: what a binary read / a scan normalises (scale, block
   size, UINT, final NUL of strings) does not change them, so [bin_item_counter m] computed on the
   module written is the counter of the module [norm_module m] the reader returns *)
Lemma map_map_id {A B} (f : A -> B) (g : A -> A) l : (forall x, f (g x) = f x) -> map f (map g l) = map f l.
Proof. intros H. rewrite map_map. apply map_ext. exact H. Qed.

Lemma flat_map_map_id {A B} (f : A -> list B) (g : A -> A) l : (forall x, f (g x) = f x) -> flat_map f (map g l) = flat_map f l.
Proof. intros H. induction l as [|x l IH]; [reflexivity|]. cbn. now rewrite H, IH. Qed.

Lemma bin_item_names_norm it : bin_item_names (norm_item it) = bin_item_names it.
Proof.
  destruct it as [x|x|x|x l|x t els|x r d|x l l2 d|x f|x va res args|f]; try reflexivity.
  - cbn. f_equal. apply map_map_id. reflexivity.
  - cbn. unfold func_item_names, norm_func. cbn [f_name f_args f_locals f_globals f_insns]. f_equal.
    rewrite (map_map_id v_name norm_var) by reflexivity. do 3 f_equal.
    apply flat_map_map_id. intros [l|c ops]; [reflexivity|]. cbn. apply flat_map_map_id.
    intros [ | | | | | |mm| | | ]; reflexivity.
Qed.

Lemma bin_item_counter_norm m : bin_item_counter (norm_module m) = bin_item_counter m.
Proof. unfold bin_item_counter, norm_module. cbn [mod_items]. now rewrite (flat_map_map_id _ _ _ bin_item_names_norm). Qed.

Lemma bin_reg_counter_norm f : bin_reg_counter (norm_func f) = bin_reg_counter f.
Proof.
  unfold bin_reg_counter, norm_func. cbn [f_insns]. f_equal. apply flat_map_map_id.
  intros [l|c ops]; [reflexivity|]. cbn. apply flat_map_map_id. intros [ | | | | | |mm| | | ]; reflexivity.
Qed.

Lemma text_item_names_tnorm it : text_item_names (tnorm_item it) = text_item_names it.
Proof. destruct it as [x|x|x|x l|x t els|x r d|x l l2 d|x f|x va res args|f]; reflexivity. Qed.

Lemma text_item_counter_tnorm m : text_item_counter (tnorm_module m) = text_item_counter m.
Proof. unfold text_item_counter, tnorm_module. cbn [mod_items]. now rewrite (flat_map_map_id _ _ _ text_item_names_tnorm). Qed.

Lemma bin_temp_counter_lemma m it : In it (mod_items m) ->
  (forall k, 0 <= k < 2 ^ 32 -> item_name it = Some (temp_item_name k) -> k <= bin_item_counter m)
  /\ (bin_item_counter m + 1 < 2 ^ 32 -> item_name it <> Some (temp_item_name (bin_item_counter m + 1)))
  /\ bin_item_counter (norm_module m) = bin_item_counter m.
Proof.
  intros Hin. split; [|split].
  - intros k Hk Hn. now apply bin_item_counter_bound with (it := it).
  - intros Hlt. now apply bin_temp_item_fresh_lemma.
  - apply bin_item_counter_norm.
Qed.

Lemma text_temp_counter_lemma m it : In it (mod_items m) -> is_decl it = false ->
  (forall k, 0 <= k < 2 ^ 32 -> item_name it = Some (temp_item_name k) -> k <= text_item_counter m)
  /\ (text_item_counter m + 1 < 2 ^ 32 -> item_name it <> Some (temp_item_name (text_item_counter m + 1)))
  /\ text_item_counter (tnorm_module m) = text_item_counter m.
Proof.
  intros Hin Hd. split; [|split].
  - intros k Hk Hn. now apply text_item_counter_bound with (it := it).
  - intros Hlt. now apply text_temp_item_fresh_lemma.
  - apply text_item_counter_tnorm.
Qed.

(* non-vacuity: descending definitions as c2m produces them *)
Example temp_counter_example :
  let m := mkModule [109%N] [ItData (Some (temp_item_name 3)) TU8 [0]; ItData (Some (temp_item_name 2)) TU8 [0];
                             ItRef (Some (temp_item_name 1)) (temp_item_name 2) 0;
                             ItData (Some (lc_prefix ++ [48; 48; 55]%N)) TU8 [0];          (* .lc007 *)
                             ItData (Some (lc_prefix ++ [49; 50; 120]%N)) TU8 [0] ] in  (* .lc12x *)
  bin_item_counter m = 7 /\ text_item_counter m = 7
  /\ counter_of lc_prefix [temp_item_name 3; temp_item_name 2; temp_item_name 1] = 3
  /\ reserved_val lc_prefix (lc_prefix ++ p_nat 4294967297) = Some 1
  /\ reserved_val lc_prefix lc_prefix = Some 0
  /\ reserved_val lc_prefix (lc_prefix ++ [32; 43; 53]%N) = Some 5.
Proof. vm_compute. repeat split; reflexivity. Qed.

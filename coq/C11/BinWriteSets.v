(* C11, round 3: the string table of an image holds exactly the strings of the module set written.
   MIR_write_module_with_func creates the table (string_init), fills it in pass 1 and destroys it
   (string_finish) inside the call, so an image is a function of the modules written and of nothing
   the context wrote before.  In the model that is [collect ts] starting from the empty table; the
   lemmas here say what the table then contains: every entry is the string of a token of THIS token
   stream, no entry occurs twice - a table that survives from an earlier write (entries of other
   modules, numbering shifted) is not [collect ts].  The correspondence check compares the header
   of every image (whole context, every module on its own, before and after other writes) with it. *)
From Coq Require Import List ZArith NArith Bool.
From MirV Require Import Base.W64 C11.Ast C11.BinIO C11.BinIOProofs.
Import ListNotations.

Lemma collect_from_sound tbl ts e :
  In e (collect_from tbl ts) -> In e tbl \/ exists t, In t ts /\ entry_of t = Some e.
Proof.
  revert tbl; induction ts as [|t ts IH]; intros tbl H; cbn [collect_from] in H; [now left|].
  destruct (entry_of t) as [e0|] eqn:Ee.
  - destruct (in_tbl e0 tbl) eqn:Ei.
    + destruct (IH _ H) as [Hl|[t' [Ht' He']]]; [now left|]. right. exists t'. split; [now right|assumption].
    + destruct (IH _ H) as [Hl|[t' [Ht' He']]].
      * apply in_app_or in Hl. destruct Hl as [Hl|[<-|[]]]; [now left|].
        right. exists t. split; [now left|assumption].
      * right. exists t'. split; [now right|assumption].
  - destruct (IH _ H) as [Hl|[t' [Ht' He']]]; [now left|]. right. exists t'. split; [now right|assumption].
Qed.

Lemma NoDup_snoc {A} (l : list A) x : NoDup l -> ~ In x l -> NoDup (l ++ [x]).
Proof.
  induction l as [|y l IH]; intros Hn Hx; cbn [app].
  - constructor; [intros []|constructor].
  - inversion Hn as [|? ? Hy Hl]; subst. constructor.
    + intros H. apply in_app_or in H. destruct H as [H|[<-|[]]]; [now apply Hy|]. apply Hx. now left.
    + apply IH; [assumption|]. intros H. apply Hx. now right.
Qed.

Lemma collect_from_nodup tbl ts : NoDup tbl -> NoDup (collect_from tbl ts).
Proof.
  revert tbl; induction ts as [|t ts IH]; intros tbl Hn; cbn [collect_from]; [assumption|].
  destruct (entry_of t) as [e0|]; [|now apply IH].
  destruct (in_tbl e0 tbl) eqn:Ei; [now apply IH|].
  apply IH. apply NoDup_snoc; [assumption|].
  intros Hin. apply in_tbl_In in Hin. congruence.
Qed.

(* the table of an image: exactly the strings of the tokens written, each once *)
Lemma bin_string_table_exact_lemma ts :
  (forall e, In e (collect ts) <-> exists t, In t ts /\ entry_of t = Some e) /\ NoDup (collect ts).
Proof.
  split.
  - intros e. split.
    + intros H. destruct (collect_from_sound [] ts e H) as [[]|Hx]. exact Hx.
    + intros [t [Ht He]]. now apply (bin_string_table_complete_lemma ts t e).
  - apply collect_from_nodup. constructor.
Qed.

(* a writer whose table survives earlier writes: pass 1 starts from the table [tbl0] left behind.  Its header is
   the header of a fresh writer exactly when [tbl0] adds nothing: one string of an earlier write that the
   current module set does not use makes the table longer than [collect ts]. *)
Lemma collect_from_stale tbl0 ts e :
  In e tbl0 -> (forall t, In t ts -> entry_of t <> Some e) -> collect_from tbl0 ts <> collect ts.
Proof.
  intros Hin Hno Heq.
  assert (H : In e (collect ts)).
  { rewrite <- Heq. destruct (collect_from_ext tbl0 ts) as [ext ->]. apply in_or_app. now left. }
  destruct (collect_from_sound [] ts e H) as [[]|[t [Ht He]]]. exact (Hno t Ht He).
Qed.

(* non-vacuity: a two-string stream; the stale table of an earlier write of another name is visible *)
Example table_exact_example :
  collect [SName [97%N]; SStr [98%N; 0%N; 99%N]; SName [97%N]] = [[97%N; 0%N]; [98%N; 0%N; 99%N]]
  /\ collect_from [[120%N; 0%N]] [SName [97%N]] = [[120%N; 0%N]; [97%N; 0%N]].
Proof. split; reflexivity. Qed.

(* Proofs about layer C of the binary MIR model: the reader (MIR_read_with_func loop) inverts the
   writer (write_modules) on symbolic tokens. *)
From Coq Require Import List ZArith NArith Bool String Lia.
From MirV Require Import Base.W64 Mir.Opcode C11.Tables C11.Ast C11.BinIO C11.BinIOProofs.
Import ListNotations.
Local Open Scope Z_scope.
Local Notation length := List.length.

(* ---------------------------------------------------------------- well-formed modules *)

Definition wf_optname (o : option name) : Prop := match o with Some n => no_nul n | None => True end.
Definition wf_alias (o : option name) : Prop := match o with Some n => no_nul n /\ n <> [] | None => True end.

Definition wf_mem (m : mem) : Prop :=
  wf_mtype (m_type m) /\ in_s64 (m_disp m) /\ wf_optname (m_base m) /\ wf_optname (m_index m)
  /\ (m_scale m < 256)%N /\ wf_alias (m_alias m) /\ wf_alias (m_nonalias m).

Definition wf_op (decl : name -> bool) (o : operand) : Prop :=
  match o with
  | OReg r => no_nul r
  | OInt i => in_s64 i
  | OUint u => in_u64 u
  | OFloat b => 0 <= b < 2 ^ 32
  | ODouble b => 0 <= b < 2 ^ 64
  | OLdouble b => 0 <= b < 2 ^ 80
  | OMem m => wf_mem m
  | ORef n => no_nul n /\ decl n = true
  | OStr _ => True
  | OLabel l => idx_ok l
  end.

Definition wf_insn (decl : name -> bool) (i : insn) : Prop :=
  match i with
  | ILabel l => idx_ok l
  | IInsn c ops =>
      readable_code c = true /\ Forall (wf_op decl) ops
      /\ (var_arity c = false -> length ops = insn_nops c)
  end.

(* ---------------------------------------------------------------- operands *)

Lemma scale_roundtrip sc : (sc < 256)%N -> Z.to_N (Z.of_N sc mod 256) = sc.
Proof. intros H. rewrite Z.mod_small by lia. apply N2Z.id. Qed.

Lemma name_opt_alias a : wf_alias a -> name_opt (alias_name a) = a.
Proof. destruct a as [[|c n]|]; cbn; [intros [_ H]; congruence | reflexivity | reflexivity]. Qed.

Lemma r_operand_mem decl m rest :
  wf_mem m -> r_operand decl (w_mem m ++ rest) = Some (Some (OMem (norm_mem m)), rest).
Proof.
  destruct m as [t d b i sc a na]. unfold wf_mem, w_mem, mem_kind, norm_mem. cbn [m_type m_disp m_base m_index m_scale m_alias m_nonalias].
  intros (_ & _ & _ & _ & Hsc & Ha & Hna).
  pose proof (name_opt_alias a Ha) as Ea. pose proof (name_opt_alias na Hna) as Ena.
  pose proof (scale_roundtrip sc Hsc) as Esc.
  destruct (d =? 0) eqn:Ed; [apply Z.eqb_eq in Ed; subst d|];
    destruct b as [b|], i as [i|], a as [a|], na as [na|];
    cbn -[Z.of_N Z.to_N Z.modulo alias_name name_opt];
    rewrite ?Esc, ?Ea, ?Ena; try reflexivity.
Qed.

Lemma r_operand_roundtrip decl o rest :
  wf_op decl o -> r_operand decl (w_op o ++ rest) = Some (Some (norm_op o), rest).
Proof.
  destruct o as [r|i|u|b|b|b|m|n|s|l]; cbn [wf_op w_op norm_op]; intros H; try reflexivity.
  - now apply r_operand_mem.
  - cbn. destruct H as [_ ->]. reflexivity.
Qed.

Lemma r_ops_fixed_roundtrip decl ops rest :
  Forall (wf_op decl) ops ->
  r_ops_fixed decl (length ops) (flat_map w_op ops ++ rest) = Some (map norm_op ops, rest).
Proof.
  induction ops as [|o ops IH]; intros H; [reflexivity|].
  inversion H as [|? ? Ho Hops]; subst. cbn [length r_ops_fixed flat_map map]. rewrite <- app_assoc.
  rewrite r_operand_roundtrip by assumption. now rewrite IH.
Qed.

Lemma r_ops_var_roundtrip decl ops rest fuel :
  Forall (wf_op decl) ops -> (length ops < fuel)%nat ->
  r_ops_var decl fuel (flat_map w_op ops ++ SEOI :: rest) = Some (map norm_op ops, rest).
Proof.
  revert fuel; induction ops as [|o ops IH]; intros fuel H Hf.
  - destruct fuel; [cbn in Hf; lia|]. reflexivity.
  - destruct fuel; [cbn in Hf; lia|]. inversion H as [|? ? Ho Hops]; subst.
    cbn [r_ops_var flat_map map]. rewrite <- app_assoc.
    rewrite r_operand_roundtrip by assumption. rewrite IH by (try assumption; cbn in Hf; lia). reflexivity.
Qed.

(* ---------------------------------------------------------------- statements: simple items *)

Definition st_mod (mods : list module) (n : name) (items : list item) : rstate :=
  mkRstate mods (Some (n, items)) None.
Definition st_fun (mods : list module) (n : name) (items : list item) (fs : fstate) : rstate :=
  mkRstate mods (Some (n, items)) (Some fs).

Lemma step_import F mods n items x rest :
  r_step F (st_mod mods n items) (w_item (ItImport x) ++ rest) = Next (st_mod mods n (ItImport x :: items)) rest.
Proof. reflexivity. Qed.
Lemma step_export F mods n items x rest :
  r_step F (st_mod mods n items) (w_item (ItExport x) ++ rest) = Next (st_mod mods n (ItExport x :: items)) rest.
Proof. reflexivity. Qed.
Lemma step_forward F mods n items x rest :
  r_step F (st_mod mods n items) (w_item (ItForward x) ++ rest) = Next (st_mod mods n (ItForward x :: items)) rest.
Proof. reflexivity. Qed.
Lemma step_bss F mods n items x len rest :
  r_step F (st_mod mods n items) (w_item (ItBss x len) ++ rest) = Next (st_mod mods n (ItBss x len :: items)) rest.
Proof. destruct x; reflexivity. Qed.

Lemma step_ref F mods n items x r d rest :
  declared (st_mod mods n items) r = true ->
  r_step F (st_mod mods n items) (w_item (ItRef x r d) ++ rest) = Next (st_mod mods n (ItRef x r d :: items)) rest.
Proof.
  intros H.
  assert (E : r_step F (st_mod mods n items) (w_item (ItRef x r d) ++ rest)
              = item_step (st_mod mods n items) [] rest
                  (if declared (st_mod mods n items) r then Some (ItRef x r d, rest) else None))
    by (destruct x; reflexivity).
  rewrite E, H. reflexivity.
Qed.

Lemma step_expr F mods n items x f rest :
  declared_func (st_mod mods n items) f = true ->
  r_step F (st_mod mods n items) (w_item (ItExpr x f) ++ rest) = Next (st_mod mods n (ItExpr x f :: items)) rest.
Proof.
  intros H.
  assert (E : r_step F (st_mod mods n items) (w_item (ItExpr x f) ++ rest)
              = item_step (st_mod mods n items) [] rest
                  (if declared_func (st_mod mods n items) f then Some (ItExpr x f, rest) else None))
    by (destruct x; reflexivity).
  rewrite E, H. reflexivity.
Qed.

Lemma step_lref F mods n items x l l2 d rest :
  0 <= l -> match l2 with Some v => 0 <= v | None => True end ->
  r_step F (st_mod mods n items) (w_item (ItLref x l l2 d) ++ rest) = Next (st_mod mods n (ItLref x l l2 d :: items)) rest.
Proof.
  intros Hl Hl2.
  assert (E : r_step F (st_mod mods n items) (w_item (ItLref x l l2 d) ++ rest)
              = item_step (st_mod mods n items) [] rest
                  (let v := match l2 with Some v => v | None => -1 end in
                   if l <? 0 then None else Some (ItLref x l (if v <? 0 then None else Some v) d, rest)))
    by (destruct x; reflexivity).
  rewrite E. cbv zeta.
  destruct (Z.ltb_spec l 0); [lia|].
  destruct l2 as [v|]; [destruct (Z.ltb_spec v 0); [lia | reflexivity] | reflexivity].
Qed.

(* ---------------------------------------------------------------- data items *)

Definition el_ok (t : mtype) (z : Z) : Prop :=
  match t with
  | TI8 => in_s 8 z | TI16 => in_s 16 z | TI32 => in_s 32 z | TI64 => in_s 64 z
  | TU8 => in_u 8 z | TU16 => in_u 16 z | TU32 => in_u 32 z | TU64 | TP => in_u 64 z
  | TF | TD | TLD => True
  | TBLK _ | TRBLK | TUNDEF => False
  end.

Lemma r_els_roundtrip t els rest :
  Forall (el_ok t) els -> r_els t (map (w_el t) els ++ SEOI :: rest) = Some (els, rest).
Proof.
  induction els as [|z els IH]; intros H; [reflexivity|].
  inversion H as [|? ? Hz Hels]; subst. specialize (IH Hels).
  cbn [map app].
  destruct t; cbn [el_ok] in Hz; try contradiction; cbn [w_el r_els r_el];
    rewrite ?swrap_id, ?uwrap_id by (try assumption; lia); rewrite IH; reflexivity.
Qed.

Lemma step_data F mods n items x t els rest :
  is_undef t = false -> Forall (el_ok t) els ->
  r_step F (st_mod mods n items) (w_item (ItData x t els) ++ rest) = Next (st_mod mods n (ItData x t els :: items)) rest.
Proof.
  intros Hu H.
  assert (E : r_step F (st_mod mods n items) (w_item (ItData x t els) ++ rest)
              = item_step (st_mod mods n items) [] rest
                  (if is_undef t then None else
                   match r_els t (map (w_el t) els ++ SEOI :: rest) with
                   | Some (els', r2) => Some (ItData x t els', r2) | None => None end)).
  { destruct x; cbn [w_item w_named app]; rewrite <- !app_assoc; reflexivity. }
  rewrite E, Hu, r_els_roundtrip by assumption. reflexivity.
Qed.

(* ---------------------------------------------------------------- proto / func headers *)

Definition types_ok (ts : list mtype) : Prop := Forall (fun t => is_undef t = false) ts.

Lemma r_types_roundtrip res rest : types_ok res -> r_types (length res) (map SType res ++ rest) = Some (res, rest).
Proof.
  induction res as [|t res IH]; intros H; [reflexivity|]. inversion H as [|? ? Ht Hr]; subst.
  cbn [length r_types map app]. now rewrite Ht, IH.
Qed.

Lemma r_args_roundtrip args rest fuel :
  types_ok (map v_type args) -> (length args < fuel)%nat ->
  r_args fuel (flat_map w_arg args ++ SEOI :: rest) = Some (map norm_var args, rest).
Proof.
  revert fuel; induction args as [|v args IH]; intros fuel Ht Hf.
  - destruct fuel; [cbn in Hf; lia|]. reflexivity.
  - destruct fuel; [cbn in Hf; lia|]. cbn [flat_map map] in *. rewrite <- app_assoc.
    inversion Ht as [|? ? Hu Hr]; subst.
    destruct v as [t n sz]. unfold w_arg, norm_var. cbn [v_type v_name v_size] in *.
    destruct (all_blk_type_p t) eqn:Eb; cbn [app r_args]; rewrite Hu, Eb, IH by (try assumption; cbn in Hf; lia); reflexivity.
Qed.

Lemma b2z_roundtrip va : negb (b2z va =? 0) = va.
Proof. destruct va; reflexivity. Qed.

Lemma r_proto_tail_roundtrip va res args rest fuel :
  types_ok res -> types_ok (map v_type args) -> (length args < fuel)%nat ->
  r_proto_tail fuel (w_proto_tail va res args ++ rest) = Some (va, res, map norm_var args, rest).
Proof.
  intros Hr Ha Hf. unfold w_proto_tail, r_proto_tail. cbn [app]. rewrite <- !app_assoc.
  rewrite Nat2Z.id, r_types_roundtrip by assumption. cbn [app]. rewrite r_args_roundtrip by assumption.
  now rewrite b2z_roundtrip.
Qed.

Lemma step_proto F mods n items x va res args rest :
  types_ok res -> types_ok (map v_type args) -> (length args < F)%nat ->
  r_step F (st_mod mods n items) (w_item (ItProto x va res args) ++ rest)
  = Next (st_mod mods n (ItProto x va res (map norm_var args) :: items)) rest.
Proof.
  intros Hr Ha H.
  assert (E : r_step F (st_mod mods n items) (w_item (ItProto x va res args) ++ rest)
              = item_step (st_mod mods n items) [] rest
                  (match r_proto_tail F (w_proto_tail va res args ++ rest) with
                   | Some (va', res', args', r2) => Some (ItProto x va' res' args', r2) | None => None end)).
  { cbn [w_item app]. reflexivity. }
  rewrite E, r_proto_tail_roundtrip by assumption. reflexivity.
Qed.

(* ---------------------------------------------------------------- functions *)

Definition decl_of (items : list item) (fname : name) : name -> bool :=
  fun x => existsb (fun it => name_is x (item_name it)) items || bytes_eqb fname x.

Lemma declared_fun mods n items fs : declared (st_fun mods n items fs) = decl_of items (fs_name fs).
Proof. reflexivity. Qed.

Lemma take_labs_app labs t r :
  (match t with SLab _ => False | _ => True end) -> take_labs (map SLab labs ++ t :: r) = (labs, t :: r).
Proof.
  intros Ht. induction labs as [|l labs IH]; cbn [map app take_labs].
  - destruct t; try reflexivity. contradiction.
  - now rewrite IH.
Qed.

Definition fs_set_insns (fs : fstate) (insns : list insn) : fstate :=
  mkFstate (fs_name fs) (fs_vararg fs) (fs_res fs) (fs_args fs) (fs_locals fs) (fs_globals fs) insns.

Lemma opcode_code_roundtrip c : opcode_of_num (Z.to_N (Z.of_N (opcode_num c))) = Some c.
Proof. rewrite N2Z.id. apply opcode_of_num_num. Qed.

Lemma step_insn F mods n items fs labs c ops rest :
  wf_insn (decl_of items (fs_name fs)) (IInsn c ops) -> (length ops < F)%nat ->
  r_step F (st_fun mods n items fs) (map SLab labs ++ w_insn (IInsn c ops) ++ rest)
  = Next (st_fun mods n items (fs_set_insns fs (IInsn c (map norm_op ops) :: rev (map ILabel labs) ++ fs_insns fs))) rest.
Proof.
  intros (Hrd & Hops & Har) HF.
  unfold r_step. cbn [w_insn app]. rewrite take_labs_app by exact I.
  assert (Hneg : (Z.of_N (opcode_num c) <? 0) = false) by (apply Z.ltb_ge; lia).
  rewrite Hneg, opcode_code_roundtrip. cbn [rs_func st_fun]. rewrite Hrd. cbn [negb].
  rewrite declared_fun.
  destruct (var_arity c) eqn:Ev.
  - rewrite <- app_assoc. cbn [app]. rewrite r_ops_var_roundtrip by assumption. reflexivity.
  - rewrite app_nil_r, <- (Har eq_refl), r_ops_fixed_roundtrip by assumption. reflexivity.
Qed.

Lemma step_endfunc F mods n items fs labs rest :
  r_step F (st_fun mods n items fs) (map SLab labs ++ kw "endfunc" :: rest)
  = Next (st_mod mods n (ItFunc (close_func (fs_set_insns fs (rev (map ILabel labs) ++ fs_insns fs))) :: items)) rest.
Proof. unfold r_step. rewrite take_labs_app by exact I. reflexivity. Qed.

Lemma r_loop_next fuel st ts st' r :
  r_step (S fuel) st ts = Next st' r -> r_loop (S fuel) st ts = r_loop fuel st' r.
Proof. intros H. cbn [r_loop]. now rewrite H. Qed.

(* the instruction list of a function, with the labels seen so far still pending *)
Lemma body_loop mods n items :
  forall insns labs fs fuel rest,
    Forall (wf_insn (decl_of items (fs_name fs))) insns ->
    (length (map SLab labs ++ flat_map w_insn insns ++ kw "endfunc" :: rest) < fuel)%nat ->
    exists fuel', (length rest < fuel')%nat /\
      r_loop fuel (st_fun mods n items fs) (map SLab labs ++ flat_map w_insn insns ++ kw "endfunc" :: rest)
      = r_loop fuel' (st_mod mods n (ItFunc (close_func (fs_set_insns fs
                         (rev (map norm_insn insns) ++ rev (map ILabel labs) ++ fs_insns fs))) :: items)) rest.
Proof.
  induction insns as [|i insns IH]; intros labs fs fuel rest Hwf Hf.
  - cbn [flat_map app map rev] in *. destruct fuel as [|fuel]; [lia|].
    exists fuel. split.
    + rewrite app_length in Hf. cbn [length] in Hf. lia.
    + apply r_loop_next. apply step_endfunc.
  - inversion Hwf as [|? ? Hi His]; subst. destruct i as [l|c ops].
    + (* a label joins the pending ones; no step *)
      cbn [flat_map w_insn app] in *.
      replace (map SLab labs ++ SLab l :: flat_map w_insn insns ++ kw "endfunc" :: rest)
        with (map SLab (labs ++ [l]) ++ flat_map w_insn insns ++ kw "endfunc" :: rest) in *
        by (rewrite map_app, <- app_assoc; reflexivity).
      destruct (IH (labs ++ [l]) fs fuel rest His Hf) as [fuel' [Hf' E]].
      exists fuel'. split; [exact Hf'|]. rewrite E. do 5 f_equal.
      cbn [map norm_insn rev]. rewrite map_app, rev_app_distr. cbn [map rev app]. rewrite <- !app_assoc. reflexivity.
    + destruct fuel as [|fuel]; [lia|].
      cbn [flat_map] in *. rewrite <- app_assoc in *.
      assert (Hlen : (length ops < S fuel)%nat).
      { destruct Hi as (_ & _ & _). rewrite !app_length in Hf. cbn [w_insn length] in Hf. rewrite !app_length in Hf.
        assert (length ops <= length (flat_map w_op ops))%nat.
        { clear. induction ops as [|o ops IH]; [cbn; lia|]. cbn [flat_map length]. rewrite app_length.
          assert (1 <= length (w_op o))%nat by (destruct o; cbn; try lia; unfold w_mem; cbn; lia). lia. }
        lia. }
      rewrite (r_loop_next fuel _ _ _ _ (step_insn (S fuel) mods n items fs labs c ops _ Hi Hlen)).
      destruct (IH [] (fs_set_insns fs (IInsn c (map norm_op ops) :: rev (map ILabel labs) ++ fs_insns fs)) fuel rest His)
        as [fuel' [Hf' E]].
      { cbn [map app]. rewrite !app_length in Hf. cbn [w_insn length] in Hf. rewrite !app_length in *. cbn [length] in *. lia. }
      exists fuel'. split; [exact Hf'|]. cbn [map app] in E. rewrite E. do 5 f_equal.
      cbn [map norm_insn rev fs_set_insns fs_insns]. rewrite <- !app_assoc. reflexivity.
Qed.

Lemma r_locals_roundtrip vs rest fuel :
  types_ok (map fst vs) -> (length vs < fuel)%nat ->
  r_locals fuel (flat_map (fun v : mtype * name => [SType (fst v); SName (snd v)]) vs ++ SEOI :: rest) = Some (vs, rest).
Proof.
  revert fuel; induction vs as [|[t x] vs IH]; intros fuel Ht Hf.
  - destruct fuel; [cbn in Hf; lia|]. reflexivity.
  - destruct fuel; [cbn in Hf; lia|]. cbn [map fst] in Ht. inversion Ht as [|? ? Hu Hr]; subst.
    cbn [flat_map app fst snd r_locals].
    rewrite Hu, IH by (try assumption; cbn in Hf; lia). reflexivity.
Qed.

Lemma r_globals_roundtrip vs rest fuel :
  types_ok (map (fun v : mtype * name * name => fst (fst v)) vs) -> (length vs < fuel)%nat ->
  r_globals fuel (flat_map (fun v : mtype * name * name => [SType (fst (fst v)); SName (snd (fst v)); SName (snd v)]) vs
                  ++ SEOI :: rest) = Some (vs, rest).
Proof.
  revert fuel; induction vs as [|[[t x] h] vs IH]; intros fuel Ht Hf.
  - destruct fuel; [cbn in Hf; lia|]. reflexivity.
  - destruct fuel; [cbn in Hf; lia|]. cbn [map fst] in Ht. inversion Ht as [|? ? Hu Hr]; subst.
    cbn [flat_map app fst snd r_globals].
    rewrite Hu, IH by (try assumption; cbn in Hf; lia). reflexivity.
Qed.

Definition fs_new (x : name) (va : bool) (res : list mtype) (args : list var)
  (ls : list (mtype * name)) (gs : list (mtype * name * name)) (insns : list insn) : fstate :=
  mkFstate x va res args ls gs insns.

Lemma step_func_header F mods n items f rest :
  types_ok (f_res f) -> types_ok (map v_type (f_args f)) -> (length (f_args f) < F)%nat ->
  r_step F (st_mod mods n items) ([kw "func"; SName (f_name f)] ++ w_proto_tail (f_vararg f) (f_res f) (f_args f) ++ rest)
  = Next (st_fun mods n items (fs_new (f_name f) (f_vararg f) (f_res f) (map norm_var (f_args f)) [] [] [])) rest.
Proof.
  intros Hr Ha H.
  assert (E : r_step F (st_mod mods n items)
                ([kw "func"; SName (f_name f)] ++ w_proto_tail (f_vararg f) (f_res f) (f_args f) ++ rest)
              = match r_proto_tail F (w_proto_tail (f_vararg f) (f_res f) (f_args f) ++ rest) with
                | Some (va, res, args, r2) =>
                    Next (mkRstate mods (Some (n, items)) (Some (mkFstate (f_name f) va res args [] [] []))) r2
                | None => Fail "malformed func header"
                end) by reflexivity.
  rewrite E, r_proto_tail_roundtrip by assumption. reflexivity.
Qed.

Lemma step_locals F mods n items x va res args vs rest :
  types_ok (map fst vs) -> vs <> [] -> (length vs < F)%nat ->
  r_step F (st_fun mods n items (fs_new x va res args [] [] [])) (w_locals vs ++ rest)
  = Next (st_fun mods n items (fs_new x va res args (rev vs) [] [])) rest.
Proof.
  intros Ht Hne HF. destruct vs as [|v vs]; [congruence|].
  unfold w_locals. cbn [app].
  assert (E : forall tl, r_step F (st_fun mods n items (fs_new x va res args [] [] [])) (kw "local" :: tl)
              = match r_locals F tl with
                | Some (vs', r1) =>
                    Next (mkRstate mods (Some (n, items)) (Some (mkFstate x va res args (rev vs' ++ []) [] []))) r1
                | None => Fail "wrong local var"
                end) by reflexivity.
  rewrite E. rewrite <- app_assoc. cbn [app]. rewrite r_locals_roundtrip by assumption.
  now rewrite app_nil_r.
Qed.

Lemma step_globals F mods n items x va res args ls vs rest :
  types_ok (map (fun v : mtype * name * name => fst (fst v)) vs) -> vs <> [] -> (length vs < F)%nat ->
  r_step F (st_fun mods n items (fs_new x va res args ls [] [])) (w_globals vs ++ rest)
  = Next (st_fun mods n items (fs_new x va res args ls (rev vs) [])) rest.
Proof.
  intros Ht Hne HF. destruct vs as [|v vs]; [congruence|].
  unfold w_globals. cbn [app].
  assert (E : forall tl, r_step F (st_fun mods n items (fs_new x va res args ls [] [])) (kw "global" :: tl)
              = match r_globals F tl with
                | Some (vs', r1) =>
                    Next (mkRstate mods (Some (n, items)) (Some (mkFstate x va res args ls (rev vs' ++ []) []))) r1
                | None => Fail "wrong global var"
                end) by reflexivity.
  rewrite E. rewrite <- app_assoc. cbn [app]. rewrite r_globals_roundtrip by assumption.
  now rewrite app_nil_r.
Qed.

(* ---------------------------------------------------------------- composing steps *)

Definition reaches (st : rstate) (ts : list stok) (st' : rstate) (r : list stok) : Prop :=
  forall fuel, (length ts < fuel)%nat ->
    exists fuel', (length r < fuel')%nat /\ r_loop fuel st ts = r_loop fuel' st' r.

Lemma reaches_refl st ts : reaches st ts st ts.
Proof. intros fuel H. exists fuel. split; [assumption | reflexivity]. Qed.

Lemma reaches_trans st1 ts1 st2 ts2 st3 ts3 :
  reaches st1 ts1 st2 ts2 -> reaches st2 ts2 st3 ts3 -> reaches st1 ts1 st3 ts3.
Proof.
  intros H1 H2 fuel Hf. destruct (H1 fuel Hf) as [f1 [Hf1 E1]]. destruct (H2 f1 Hf1) as [f2 [Hf2 E2]].
  exists f2. split; [assumption | congruence].
Qed.

Lemma reaches_step st toks rest st' :
  (0 < length toks)%nat ->
  (forall F, (length (toks ++ rest) < F)%nat -> r_step F st (toks ++ rest) = Next st' rest) ->
  reaches st (toks ++ rest) st' rest.
Proof.
  intros Hne Hs fuel Hf. destruct fuel as [|fuel]; [lia|].
  exists fuel. split; [rewrite app_length in Hf; lia|]. apply r_loop_next. now apply Hs.
Qed.

Lemma body_reaches mods n items insns fs rest :
  Forall (wf_insn (decl_of items (fs_name fs))) insns ->
  reaches (st_fun mods n items fs) (flat_map w_insn insns ++ kw "endfunc" :: rest)
          (st_mod mods n (ItFunc (close_func (fs_set_insns fs (rev (map norm_insn insns) ++ fs_insns fs))) :: items)) rest.
Proof. intros H fuel Hf. exact (body_loop mods n items insns [] fs fuel rest H Hf). Qed.

Definition wf_func_body (items : list item) (f : func) : Prop :=
  Forall (wf_insn (decl_of items (f_name f))) (f_insns f)
  /\ types_ok (f_res f) /\ types_ok (map v_type (f_args f)) /\ types_ok (map fst (f_locals f))
  /\ types_ok (map (fun v : mtype * name * name => fst (fst v)) (f_globals f)).

Lemma w_op_length o : (1 <= length (w_op o))%nat.
Proof. destruct o; cbn; lia. Qed.

Lemma length_flat_map_ge {A} (f : A -> list stok) l : (forall x, 1 <= length (f x))%nat -> (length l <= length (flat_map f l))%nat.
Proof. intros H. induction l as [|x l IH]; [cbn; lia|]. cbn [flat_map length]. rewrite app_length. specialize (H x). lia. Qed.

Lemma func_reaches mods n items f rest :
  wf_func_body items f ->
  reaches (st_mod mods n items) (w_func f ++ rest) (st_mod mods n (ItFunc (norm_func f) :: items)) rest.
Proof.
  intros (Hwf & Hres & Hargs & Hloc & Hglob). unfold w_func. rewrite <- !app_assoc.
  (* header *)
  eapply reaches_trans.
  { apply (reaches_step _ ([kw "func"; SName (f_name f)] ++ w_proto_tail (f_vararg f) (f_res f) (f_args f))).
    - cbn. lia.
    - intros F HF. rewrite <- app_assoc. apply step_func_header; [assumption | assumption |].
      rewrite !app_length in HF. unfold w_proto_tail in HF. rewrite !app_length in HF.
      pose proof (length_flat_map_ge w_arg (f_args f) ltac:(intros v; unfold w_arg; cbn; lia)). cbn [length] in HF. lia. }
  (* locals *)
  eapply reaches_trans.
  { instantiate (2 := st_fun mods n items (fs_new (f_name f) (f_vararg f) (f_res f) (map norm_var (f_args f)) (rev (f_locals f)) [] [])).
    destruct (f_locals f) as [|v vs] eqn:El.
    - cbn [w_locals app rev]. apply reaches_refl.
    - apply reaches_step.
      + cbn. lia.
      + intros F HF. apply step_locals; [first [assumption | rewrite <- El; assumption] | congruence|].
        rewrite app_length in HF. unfold w_locals in HF. cbn [length] in HF. rewrite app_length in HF.
        pose proof (length_flat_map_ge (fun v0 : mtype * name => [SType (fst v0); SName (snd v0)]) (v :: vs) ltac:(intros; cbn; lia)).
        lia. }
  (* globals *)
  eapply reaches_trans.
  { instantiate (2 := st_fun mods n items (fs_new (f_name f) (f_vararg f) (f_res f) (map norm_var (f_args f)) (rev (f_locals f))
                                          (rev (f_globals f)) [])).
    destruct (f_globals f) as [|v vs] eqn:Eg.
    - cbn [w_globals app rev]. apply reaches_refl.
    - apply reaches_step.
      + cbn. lia.
      + intros F HF. apply step_globals; [first [assumption | rewrite <- Eg; assumption] | congruence|].
        rewrite app_length in HF. unfold w_globals in HF. cbn [length] in HF. rewrite app_length in HF.
        pose proof (length_flat_map_ge (fun v0 : mtype * name * name => [SType (fst (fst v0)); SName (snd (fst v0)); SName (snd v0)])
                      (v :: vs) ltac:(intros; cbn; lia)).
        lia. }
  (* body *)
  cbn [app].
  pose proof (body_reaches mods n items (f_insns f)
                (fs_new (f_name f) (f_vararg f) (f_res f) (map norm_var (f_args f)) (rev (f_locals f)) (rev (f_globals f)) [])
                rest Hwf) as Hb.
  unfold close_func, fs_set_insns, fs_new in Hb. cbn [fs_name fs_vararg fs_res fs_args fs_locals fs_globals fs_insns] in Hb.
  rewrite app_nil_r, !rev_involutive in Hb. exact Hb.
Qed.

(* ---------------------------------------------------------------- items, modules, contexts *)

(* [acc]: the items read so far in the module (normalised, latest first) *)
Definition wf_item (acc : list item) (it : item) : Prop :=
  match it with
  | ItRef _ r _ => declared (st_mod [] [] acc) r = true
  | ItExpr _ f => declared_func (st_mod [] [] acc) f = true
  | ItLref _ l l2 _ => 0 <= l /\ match l2 with Some v => 0 <= v | None => True end
  | ItData _ t els => is_undef t = false /\ Forall (el_ok t) els
  | ItProto _ _ res args => types_ok res /\ types_ok (map v_type args)
  | ItFunc f => wf_func_body acc f
  | _ => True
  end.

Fixpoint wf_items (acc : list item) (its : list item) : Prop :=
  match its with
  | [] => True
  | it :: r => wf_item acc it /\ wf_items (norm_item it :: acc) r
  end.

Lemma w_item_nonempty it : (0 < length (w_item it))%nat.
Proof.
  destruct it as [x|x|x|x l|x t els|x r d|x l l2 d|x f|x va res args|f]; cbn [w_item]; unfold w_named, w_func;
    try destruct x; cbn; lia.
Qed.

Lemma item_reaches mods n items it rest :
  wf_item items it ->
  reaches (st_mod mods n items) (w_item it ++ rest) (st_mod mods n (norm_item it :: items)) rest.
Proof.
  intros Hwf.
  destruct it as [x|x|x|x l|x t els|x r d|x l l2 d|x f|x va res args|f]; cbn [norm_item].
  10: { apply func_reaches. exact Hwf. }
  all: apply reaches_step; [apply w_item_nonempty | intros F HF].
  - apply step_import.
  - apply step_export.
  - apply step_forward.
  - apply step_bss.
  - destruct Hwf. now apply step_data.
  - apply step_ref. exact Hwf.
  - destruct Hwf. now apply step_lref.
  - apply step_expr. exact Hwf.
  - destruct Hwf. apply step_proto; [assumption | assumption |]. rewrite app_length in HF. cbn [w_item] in HF. unfold w_proto_tail in HF.
    rewrite !app_length in HF.
    pose proof (length_flat_map_ge w_arg args ltac:(intros v; unfold w_arg; cbn; lia)). cbn [length] in HF. lia.
Qed.

Lemma items_reaches mods n its : forall acc rest,
  wf_items acc its ->
  reaches (st_mod mods n acc) (flat_map w_item its ++ rest) (st_mod mods n (rev (map norm_item its) ++ acc)) rest.
Proof.
  induction its as [|it its IH]; intros acc rest Hwf.
  - apply reaches_refl.
  - destruct Hwf as [Hit Hits]. cbn [flat_map map rev]. rewrite <- !app_assoc.
    eapply reaches_trans; [apply item_reaches; exact Hit|].
    cbn [app]. apply IH. exact Hits.
Qed.

Definition st_top (mods : list module) : rstate := mkRstate mods None None.

Definition wf_module (m : module) : Prop := wf_items [] (mod_items m).

Lemma module_reaches mods m rest :
  wf_module m -> reaches (st_top mods) (w_module m ++ rest) (st_top (norm_module m :: mods)) rest.
Proof.
  intros Hwf. unfold w_module. rewrite <- !app_assoc.
  eapply reaches_trans.
  { apply (reaches_step _ [kw "module"; SName (mod_name m)]); [cbn; lia|]. intros F _. reflexivity. }
  eapply reaches_trans.
  { apply items_reaches. exact Hwf. }
  rewrite app_nil_r.
  apply (reaches_step _ [kw "endmodule"]); [cbn; lia|]. intros F _.
  cbn [app]. unfold norm_module.
  assert (E : forall items r, r_step F (st_mod mods (mod_name m) items) (kw "endmodule" :: r)
              = Next (st_top (mkModule (mod_name m) (rev items) :: mods)) r) by reflexivity.
  rewrite E, rev_involutive. reflexivity.
Qed.

Lemma ctx_reaches ms : forall mods rest,
  Forall wf_module ms ->
  reaches (st_top mods) (w_ctx ms ++ rest) (st_top (rev (map norm_module ms) ++ mods)) rest.
Proof.
  induction ms as [|m ms IH]; intros mods rest Hwf.
  - apply reaches_refl.
  - inversion Hwf as [|? ? Hm Hms]; subst. unfold w_ctx. cbn [flat_map map rev]. rewrite <- !app_assoc.
    eapply reaches_trans; [apply module_reaches; exact Hm|].
    cbn [app]. apply (IH (norm_module m :: mods) rest Hms).
Qed.

(* layer C: the reader loop inverts the writer *)
Lemma r_ctx_w_ctx ms :
  Forall wf_module ms -> r_ctx (w_ctx ms ++ [SEOF]) = Ok (map norm_module ms).
Proof.
  intros Hwf. unfold r_ctx.
  destruct (ctx_reaches ms [] [SEOF] Hwf (S (S (length (w_ctx ms ++ [SEOF])))) ltac:(lia)) as [fuel' [Hf E]].
  change rinit with (st_top []). rewrite E.
  destruct fuel' as [|f]; [cbn in Hf; lia|].
  cbn [r_loop]. rewrite app_nil_r.
  assert (Es : r_step (S f) (st_top (rev (map norm_module ms))) [SEOF] = Done (rev (rev (map norm_module ms)))) by reflexivity.
  rewrite Es, rev_involutive. reflexivity.
Qed.

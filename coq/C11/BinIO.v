(* Model of the binary MIR writer and reader (mir.c "Input/output of binary MIR", write_* /
   MIR_write_module_with_func and read_* / MIR_read_with_func), below the compression layer
   (property C12).  Definitions only; proofs are in BinIOProofs.v.

   Three layers, each a codec of its own:
     C  grammar   : module AST            <-> symbolic tokens [stok]  (strings inline)
     B  strings   : [stok]                <-> indexed tokens [btok] + string table
                    (two-pass writer: pass 1 = [collect], first-occurrence numbering)
     A  bytes     : [btok] + table        <-> byte stream (tags, variable-length integers)   *)
From Coq Require Import List ZArith NArith Bool String Lia.
From MirV Require Import Base.W64 Mir.Opcode C11.Tables C11.Ast.
Import ListNotations.
Local Open Scope Z_scope.
Local Notation length := List.length.

(* ------------------------------------------------------------------ tokens *)

Inductive memkind : Set :=
| KDisp | KBase | KIndex | KDispBase | KDispIndex | KBaseIndex | KDispBaseIndex.

Definition kind_has_disp (k : memkind) : bool :=
  match k with KDisp | KDispBase | KDispIndex | KDispBaseIndex => true | _ => false end.
Definition kind_has_base (k : memkind) : bool :=
  match k with KBase | KDispBase | KBaseIndex | KDispBaseIndex => true | _ => false end.
Definition kind_has_index (k : memkind) : bool :=
  match k with KIndex | KDispIndex | KBaseIndex | KDispBaseIndex => true | _ => false end.

Inductive stok : Set :=
| SU (u : Z) | SI (i : Z) | SF (b : Z) | SD (b : Z) | SLD (b : Z)
| SReg (s : name) | SName (s : name) | SStr (s : bytes) | SLab (n : Z)
| SMem (k : memkind) (alias : bool) | SType (t : mtype) | SEOI | SEOF.

Inductive btok : Set :=
| BU (u : Z) | BI (i : Z) | BF (b : Z) | BD (b : Z) | BLD (b : Z)      (* BLD: all 128 bits written *)
| BReg (i : Z) | BName (i : Z) | BStr (i : Z) | BLab (n : Z)
| BMem (k : memkind) (alias : bool) | BType (t : mtype) | BEOI | BEOF.

(* ------------------------------------------------------------------ layer C: writer *)

Definition kw (s : string) : stok := SName (str s).

(* write_op, MIR_OP_MEM case: the tag is chosen by the same cascade of tests *)
Definition mem_kind (m : mem) : memkind :=
  if negb (m_disp m =? 0) then
    (if is_some (m_base m) then (if is_some (m_index m) then KDispBaseIndex else KDispBase)
     else (if is_some (m_index m) then KDispIndex else KDisp))
  else if is_some (m_base m) then (if is_some (m_index m) then KBaseIndex else KBase)
  else if is_some (m_index m) then KIndex
  else KDisp.

Definition alias_name (a : option name) : name := match a with Some n => n | None => [] end.

Definition w_mem (m : mem) : list stok :=
  let alias_p := is_some (m_alias m) || is_some (m_nonalias m) in
  [SMem (mem_kind m) alias_p; SType (m_type m)]
  ++ (if negb (m_disp m =? 0) || (negb (is_some (m_base m)) && negb (is_some (m_index m)))
      then [SI (m_disp m)] else [])
  ++ (match m_base m with Some b => [SReg b] | None => [] end)
  ++ (match m_index m with Some i => [SReg i; SU (Z.of_N (m_scale m))] | None => [] end)
  ++ (if alias_p then [SName (alias_name (m_alias m)); SName (alias_name (m_nonalias m))] else []).

Definition w_op (o : operand) : list stok :=
  match o with
  | OReg r => [SReg r]
  | OInt i => [SI i]
  | OUint u => [SU u]
  | OFloat b => [SF b]
  | ODouble b => [SD b]
  | OLdouble b => [SLD b]
  | OMem m => w_mem m
  | ORef n => [SName n]
  | OStr s => [SStr s]
  | OLabel l => [SLab l]
  end.

(* insn_descs[code].op_modes[0] == MIR_OP_BOUND *)
Definition insn_nops (c : opcode) : nat := length (snd (insn_desc c)).
Definition var_arity (c : opcode) : bool := match insn_nops c with O => true | _ => false end.

(* write_insn refuses these (error function) *)
Definition portable_code (c : opcode) : bool :=
  match c with UNSPEC | USE | PHI => false | _ => true end.

Definition w_insn (i : insn) : list stok :=
  match i with
  | ILabel l => [SLab l]
  | IInsn c ops =>
      [SU (Z.of_N (opcode_num c))] ++ flat_map w_op ops ++ (if var_arity c then [SEOI] else [])
  end.

Definition b2z (b : bool) : Z := if b then 1 else 0.

Definition w_arg (v : var) : list stok :=
  [SType (v_type v); SName (v_name v)] ++ (if all_blk_type_p (v_type v) then [SU (v_size v)] else []).

Definition w_proto_tail (vararg : bool) (res : list mtype) (args : list var) : list stok :=
  [SU (b2z vararg); SU (Z.of_nat (length res))] ++ map SType res ++ flat_map w_arg args ++ [SEOI].

(* write_vars *)
Definition w_locals (vs : list (mtype * name)) : list stok :=
  match vs with
  | [] => []
  | _ => kw "local" :: flat_map (fun v => [SType (fst v); SName (snd v)]) vs ++ [SEOI]
  end.
Definition w_globals (vs : list (mtype * name * name)) : list stok :=
  match vs with
  | [] => []
  | _ => kw "global"
         :: flat_map (fun v => [SType (fst (fst v)); SName (snd (fst v)); SName (snd v)]) vs ++ [SEOI]
  end.

(* data elements by element type *)
Definition w_el (t : mtype) (z : Z) : stok :=
  match t with
  | TI8 | TI16 | TI32 | TI64 => SI z
  | TU8 | TU16 | TU32 | TU64 | TP => SU z
  | TF => SF z | TD => SD z | TLD => SLD z
  | TBLK _ | TRBLK | TUNDEF => SEOI   (* unreachable: wrong_type_p rejects them in MIR_new_data *)
  end.

Definition w_named (plain named : string) (n : option name) : list stok :=
  match n with None => [kw plain] | Some x => [kw named; SName x] end.

Definition w_func (f : func) : list stok :=
  [kw "func"; SName (f_name f)] ++ w_proto_tail (f_vararg f) (f_res f) (f_args f)
  ++ w_locals (f_locals f) ++ w_globals (f_globals f)
  ++ flat_map w_insn (f_insns f) ++ [kw "endfunc"].

Definition w_item (it : item) : list stok :=
  match it with
  | ItImport n => [kw "import"; SName n]
  | ItExport n => [kw "export"; SName n]
  | ItForward n => [kw "forward"; SName n]
  | ItBss n len => w_named "bss" "nbss" n ++ [SU len]
  | ItRef n r d => w_named "ref" "nref" n ++ [SName r; SI d]
  | ItLref n l l2 d =>
      w_named "lref" "nlref" n ++ [SI l; SI (match l2 with Some x => x | None => -1 end); SI d]
  | ItExpr n f => w_named "expr" "nexpr" n ++ [SName f]
  | ItData n t els => w_named "data" "ndata" n ++ [SType t] ++ map (w_el t) els ++ [SEOI]
  | ItProto n va res args => [kw "proto"; SName n] ++ w_proto_tail va res args
  | ItFunc f => w_func f
  end.

Definition w_module (m : module) : list stok :=
  [kw "module"; SName (mod_name m)] ++ flat_map w_item (mod_items m) ++ [kw "endmodule"].

Definition w_ctx (ms : list module) : list stok := flat_map w_module ms.

(* what the writer refuses (MIR_get_error_func in write_insn) *)
Definition writable_insn (i : insn) : bool :=
  match i with ILabel _ => true | IInsn c _ => portable_code c end.
Definition writable_item (it : item) : bool :=
  match it with ItFunc f => forallb writable_insn (f_insns f) | _ => true end.
Definition writable_ctx (ms : list module) : bool :=
  forallb (fun m => forallb writable_item (mod_items m)) ms.

(* ------------------------------------------------------------------ layer C: reader *)

Record fstate : Set := mkFstate {
  fs_name : name; fs_vararg : bool; fs_res : list mtype; fs_args : list var;
  fs_locals : list (mtype * name);            (* reversed *)
  fs_globals : list (mtype * name * name);    (* reversed *)
  fs_insns : list insn }.                     (* reversed *)

Record rstate : Set := mkRstate {
  rs_mods : list module;                      (* finished modules, reversed *)
  rs_mod : option (name * list item);         (* open module: name, items reversed *)
  rs_func : option fstate }.

Definition rinit : rstate := mkRstate [] None None.

Definition close_func (fs : fstate) : func :=
  mkFunc (fs_name fs) (fs_vararg fs) (fs_res fs) (fs_args fs) (rev (fs_locals fs)) (rev (fs_globals fs))
         (rev (fs_insns fs)).

(* item_tab_find (ctx, name, module) != NULL : a named item of the open module (the function
   under construction is already in the table) *)
Definition name_is (n : name) (o : option name) : bool :=
  match o with Some x => bytes_eqb x n | None => false end.
Definition declared (st : rstate) (n : name) : bool :=
  match rs_mod st with
  | None => false
  | Some (_, items) =>
      existsb (fun it => name_is n (item_name it)) items
      || match rs_func st with Some fs => bytes_eqb (fs_name fs) n | None => false end
  end.
Definition declared_func (st : rstate) (n : name) : bool :=
  match rs_mod st with
  | None => false
  | Some (_, items) =>
      existsb (fun it => match it with ItFunc f => bytes_eqb (f_name f) n | _ => false end) items
  end.

Definition memkind_of (d b i : bool) : memkind :=
  match d, b, i with
  | true, true, true => KDispBaseIndex | true, true, false => KDispBase
  | true, false, true => KDispIndex | true, false, false => KDisp
  | false, true, true => KBaseIndex | false, true, false => KBase
  | false, false, true => KIndex | false, false, false => KDisp
  end.

Definition name_opt (n : name) : option name := match n with [] => None | _ => Some n end.

(* read_operand: Some (Some op) = operand, Some None = TAG_EOI *)
Definition r_operand (decl : name -> bool) (ts : list stok) : option (option operand * list stok) :=
  match ts with
  | SU u :: r => Some (Some (OUint u), r)
  | SI i :: r => Some (Some (OInt i), r)
  | SF b :: r => Some (Some (OFloat b), r)
  | SD b :: r => Some (Some (ODouble b), r)
  | SLD b :: r => Some (Some (OLdouble b), r)
  | SReg s :: r => Some (Some (OReg s), r)
  | SName s :: r => if decl s then Some (Some (ORef s), r) else None
  | SStr s :: r => Some (Some (OStr s), r)
  | SLab n :: r => Some (Some (OLabel n), r)
  | SMem k al :: SType t :: r =>
      match (if kind_has_disp k then match r with SI d :: r1 => Some (d, r1) | _ => None end
             else Some (0, r)) with
      | None => None
      | Some (disp, r1) =>
        match (if kind_has_base k then match r1 with SReg b :: r2 => Some (Some b, r2) | _ => None end
               else Some (None, r1)) with
        | None => None
        | Some (base, r2) =>
          match (if kind_has_index k
                 then match r2 with SReg i :: SU sc :: r3 => Some (Some i, Z.to_N (sc mod 256), r3) | _ => None end
                 else Some (None, 0%N, r2)) with
          | None => None
          | Some (index, scale, r3) =>
            if al then
              match r3 with
              | SName a :: SName na :: r4 =>
                  Some (Some (OMem (mkMem t disp base index scale (name_opt a) (name_opt na))), r4)
              | _ => None
              end
            else Some (Some (OMem (mkMem t disp base index scale None None)), r3)
          end
        end
      end
  | SEOI :: r => Some (None, r)
  | _ => None
  end.

Fixpoint r_ops_fixed (decl : name -> bool) (n : nat) (ts : list stok) : option (list operand * list stok) :=
  match n with
  | O => Some ([], ts)
  | S k =>
      match r_operand decl ts with
      | Some (Some o, r) =>
          match r_ops_fixed decl k r with Some (os, r') => Some (o :: os, r') | None => None end
      | _ => None
      end
  end.

Fixpoint r_ops_var (decl : name -> bool) (fuel : nat) (ts : list stok) : option (list operand * list stok) :=
  match fuel with
  | O => None
  | S f =>
      match r_operand decl ts with
      | Some (Some o, r) =>
          match r_ops_var decl f r with Some (os, r') => Some (o :: os, r') | None => None end
      | Some (None, r) => Some ([], r)
      | None => None
      end
  end.

Fixpoint r_types (n : nat) (ts : list stok) : option (list mtype * list stok) :=
  match n with
  | O => Some ([], ts)
  | S k => match ts with
           | SType t :: r => if is_undef t then None else          (* read_token knows no TUNDEF tag *)
                             match r_types k r with Some (l, r') => Some (t :: l, r') | None => None end
           | _ => None
           end
  end.

Fixpoint r_args (fuel : nat) (ts : list stok) : option (list var * list stok) :=
  match fuel with
  | O => None
  | S f =>
      match ts with
      | SEOI :: r => Some ([], r)
      | SType t :: SName n :: r =>
          if is_undef t then None else
          if all_blk_type_p t then
            match r with
            | SU sz :: r1 => match r_args f r1 with Some (l, r') => Some (mkVar t n sz :: l, r') | None => None end
            | _ => None
            end
          else match r_args f r with Some (l, r') => Some (mkVar t n 0 :: l, r') | None => None end
      | _ => None
      end
  end.

(* func_proto_read *)
Definition r_proto_tail (fuel : nat) (ts : list stok) : option (bool * list mtype * list var * list stok) :=
  match ts with
  | SU va :: SU nres :: r =>
      match r_types (Z.to_nat nres) r with
      | Some (res, r1) =>
          match r_args fuel r1 with
          | Some (args, r2) => Some (negb (va =? 0), res, args, r2)
          | None => None
          end
      | None => None
      end
  | _ => None
  end.

Fixpoint r_locals (fuel : nat) (ts : list stok) : option (list (mtype * name) * list stok) :=
  match fuel with
  | O => None
  | S f =>
      match ts with
      | SEOI :: r => Some ([], r)
      | SType t :: SName n :: r =>
          if is_undef t then None else
          match r_locals f r with Some (l, r') => Some ((t, n) :: l, r') | None => None end
      | _ => None
      end
  end.

Fixpoint r_globals (fuel : nat) (ts : list stok) : option (list (mtype * name * name) * list stok) :=
  match fuel with
  | O => None
  | S f =>
      match ts with
      | SEOI :: r => Some ([], r)
      | SType t :: SName n :: SName h :: r =>
          if is_undef t then None else
          match r_globals f r with Some (l, r') => Some ((t, n, h) :: l, r') | None => None end
      | _ => None
      end
  end.

(* element conversion in the data branch: (uintN_t) attr.u / (intN_t) attr.i *)
Definition r_el (t : mtype) (tk : stok) : option Z :=
  match tk, t with
  | SU u, TU8 => Some (uwrap 8 u) | SU u, TU16 => Some (uwrap 16 u)
  | SU u, TU32 => Some (uwrap 32 u) | SU u, TU64 => Some (uwrap 64 u) | SU u, TP => Some (uwrap 64 u)
  | SI i, TI8 => Some (swrap 8 i) | SI i, TI16 => Some (swrap 16 i)
  | SI i, TI32 => Some (swrap 32 i) | SI i, TI64 => Some (swrap 64 i)
  | SF b, TF => Some b | SD b, TD => Some b | SLD b, TLD => Some b
  | _, _ => None
  end.

Fixpoint r_els (t : mtype) (ts : list stok) : option (list Z * list stok) :=
  match ts with
  | SEOI :: r => Some ([], r)
  | tk :: r =>
      match r_el t tk with
      | Some z => match r_els t r with Some (l, r') => Some (z :: l, r') | None => None end
      | None => None
      end
  | [] => None
  end.

Fixpoint take_labs (ts : list stok) : list Z * list stok :=
  match ts with
  | SLab n :: r => let (l, r') := take_labs r in (n :: l, r')
  | _ => ([], ts)
  end.

Inductive step_res : Set :=
| Next (st : rstate) (rest : list stok)
| Done (ms : list module)
| Fail (why : string).

Definition add_item (st : rstate) (it : item) : option rstate :=
  match rs_mod st, rs_func st with
  | Some (n, items), None => Some (mkRstate (rs_mods st) (Some (n, it :: items)) None)
  | _, _ => None        (* outside a module: API error; inside a function: not modelled *)
  end.

Definition is_kw (s : string) (n : name) : bool := bytes_eqb (str s) n.

(* optional item name after the n-variant of a keyword *)
Definition r_optname (named : bool) (ts : list stok) : option (option name * list stok) :=
  if named then match ts with SName n :: r => Some (Some n, r) | _ => None end
  else Some (None, ts).

Definition item_step (st : rstate) (labs : list Z) (r : list stok) (k : option (item * list stok))
  : step_res :=
  match k with
  | None => Fail "malformed item"
  | Some (it, r') =>
      match labs with
      | _ :: _ => Fail "item should have no labels"
      | [] => match add_item st it with Some st' => Next st' r' | None => Fail "item outside module or inside func" end
      end
  end.

(* insn codes the reader accepts: below MIR_INVALID_INSN, not MIR_LABEL, not UNSPEC/USE/PHI *)
Definition readable_code (c : opcode) : bool :=
  match c with
  | LABEL | UNSPEC | USE | PHI | INVALID_INSN | INSN_BOUND => false
  | _ => true
  end.

(* one iteration of the for (;;) loop of MIR_read_with_func; [fuel] bounds the inner loops (any
   number above the number of remaining tokens) *)
Definition r_step (fuel : nat) (st : rstate) (ts : list stok) : step_res :=
  let (labs, ts1) := take_labs ts in
  match ts1 with
  | SName k :: r =>
      if is_kw "module" k then
        match r with
        | SName n :: r1 =>
            match labs, rs_mod st with
            | [], None => Next (mkRstate (rs_mods st) (Some (n, [])) (rs_func st)) r1
            | _, _ => Fail "label before module or nested module"
            end
        | _ => Fail "wrong module name"
        end
      else if is_kw "endmodule" k then
        match labs, rs_mod st, rs_func st with
        | [], Some (n, items), None =>
            Next (mkRstate (mkModule n (rev items) :: rs_mods st) None None) r
        | _, _, _ => Fail "endmodule with labels, without module or inside func"
        end
      else if is_kw "proto" k then
        item_step st labs r
          match r with
          | SName n :: r1 =>
              match r_proto_tail fuel r1 with
              | Some (va, res, args, r2) => Some (ItProto n va res args, r2)
              | None => None
              end
          | _ => None
          end
      else if is_kw "func" k then
        match r with
        | SName n :: r1 =>
            match r_proto_tail fuel r1 with
            | Some (va, res, args, r2) =>
                match labs, rs_mod st, rs_func st with
                | [], Some _, None =>
                    Next (mkRstate (rs_mods st) (rs_mod st) (Some (mkFstate n va res args [] [] []))) r2
                | _, _, _ => Fail "label before func, nested func or func outside module"
                end
            | None => Fail "malformed func header"
            end
        | _ => Fail "wrong func name"
        end
      else if is_kw "endfunc" k then
        match rs_mod st, rs_func st with
        | Some (n, items), Some fs =>
            let fs' := mkFstate (fs_name fs) (fs_vararg fs) (fs_res fs) (fs_args fs) (fs_locals fs)
                                (fs_globals fs) (rev (map ILabel labs) ++ fs_insns fs) in
            Next (mkRstate (rs_mods st) (Some (n, ItFunc (close_func fs') :: items)) None) r
        | _, _ => Fail "endfunc without func"
        end
      else if is_kw "export" k then
        item_step st labs r match r with SName n :: r1 => Some (ItExport n, r1) | _ => None end
      else if is_kw "import" k then
        item_step st labs r match r with SName n :: r1 => Some (ItImport n, r1) | _ => None end
      else if is_kw "forward" k then
        item_step st labs r match r with SName n :: r1 => Some (ItForward n, r1) | _ => None end
      else if is_kw "nbss" k || is_kw "bss" k then
        item_step st labs r
          match r_optname (is_kw "nbss" k) r with
          | Some (n, SU len :: r1) => Some (ItBss n len, r1)
          | _ => None
          end
      else if is_kw "nref" k || is_kw "ref" k then
        item_step st labs r
          match r_optname (is_kw "nref" k) r with
          | Some (n, SName it :: SI d :: r1) => if declared st it then Some (ItRef n it d, r1) else None
          | _ => None
          end
      else if is_kw "nlref" k || is_kw "lref" k then
        item_step st labs r
          match r_optname (is_kw "nlref" k) r with
          | Some (n, SI l :: SI l2 :: SI d :: r1) =>
              if l <? 0 then None
              else Some (ItLref n l (if l2 <? 0 then None else Some l2) d, r1)
          | _ => None
          end
      else if is_kw "nexpr" k || is_kw "expr" k then
        item_step st labs r
          match r_optname (is_kw "nexpr" k) r with
          | Some (n, SName f :: r1) => if declared_func st f then Some (ItExpr n f, r1) else None
          | _ => None
          end
      else if is_kw "ndata" k || is_kw "data" k then
        item_step st labs r
          match r_optname (is_kw "ndata" k) r with
          | Some (n, SType t :: r1) =>
              if is_undef t then None else
              match r_els t r1 with Some (els, r2) => Some (ItData n t els, r2) | None => None end
          | _ => None
          end
      else if is_kw "local" k then
        match labs, rs_func st with
        | [], Some fs =>
            match r_locals fuel r with
            | Some (vs, r1) =>
                Next (mkRstate (rs_mods st) (rs_mod st)
                        (Some (mkFstate (fs_name fs) (fs_vararg fs) (fs_res fs) (fs_args fs)
                                 (rev vs ++ fs_locals fs) (fs_globals fs) (fs_insns fs)))) r1
            | None => Fail "wrong local var"
            end
        | _, _ => Fail "local outside func or with labels"
        end
      else if is_kw "global" k then
        match labs, rs_func st with
        | [], Some fs =>
            match r_globals fuel r with
            | Some (vs, r1) =>
                Next (mkRstate (rs_mods st) (rs_mod st)
                        (Some (mkFstate (fs_name fs) (fs_vararg fs) (fs_res fs) (fs_args fs)
                                 (fs_locals fs) (rev vs ++ fs_globals fs) (fs_insns fs)))) r1
            | None => Fail "wrong global var"
            end
        | _, _ => Fail "global outside func or with labels"
        end
      else Fail "unknown insn name"
  | SU code :: r =>
      if code <? 0 then Fail "wrong insn code"
      else
        match opcode_of_num (Z.to_N code), rs_func st with
        | Some c, Some fs =>
            if negb (readable_code c) then Fail "wrong insn code" else
            match (if var_arity c then r_ops_var (declared st) fuel r else r_ops_fixed (declared st) (insn_nops c) r) with
            | Some (ops, r1) =>
                Next (mkRstate (rs_mods st) (rs_mod st)
                        (Some (mkFstate (fs_name fs) (fs_vararg fs) (fs_res fs) (fs_args fs)
                                 (fs_locals fs) (fs_globals fs)
                                 (IInsn c ops :: rev (map ILabel labs) ++ fs_insns fs)))) r1
            | None => Fail "wrong operands"
            end
        | _, _ => Fail "insn outside func"
        end
  | SEOF :: _ =>
      match rs_mod st, rs_func st with
      | None, None => Done (rev (rs_mods st))
      | _, _ => Fail "unfinished func or module"
      end
  | _ => Fail "wrong token"
  end.

Fixpoint r_loop (fuel : nat) (st : rstate) (ts : list stok) : res (list module) :=
  match fuel with
  | O => Err "out of fuel"
  | S f =>
      match r_step (S f) st ts with
      | Next st' r => r_loop f st' r
      | Done ms => Ok ms
      | Fail w => Err w
      end
  end.

Definition r_ctx (ts : list stok) : res (list module) := r_loop (S (S (length ts))) rinit ts.

(* ------------------------------------------------------------------ layer B: string table *)

Definition entry_of (t : stok) : option bytes :=
  match t with
  | SReg s | SName s => Some (s ++ [0%N])     (* (MIR_str_t){strlen (name) + 1, name} *)
  | SStr s => Some s
  | _ => None
  end.

Fixpoint index_of (e : bytes) (tbl : list bytes) : nat :=
  match tbl with
  | [] => O
  | x :: r => if bytes_eqb x e then O else S (index_of e r)
  end.

Definition in_tbl (e : bytes) (tbl : list bytes) : bool := existsb (fun x => bytes_eqb x e) tbl.

(* pass 1: string_store in first-occurrence order *)
Fixpoint collect_from (tbl : list bytes) (ts : list stok) : list bytes :=
  match ts with
  | [] => tbl
  | t :: r =>
      match entry_of t with
      | Some e => collect_from (if in_tbl e tbl then tbl else tbl ++ [e]) r
      | None => collect_from tbl r
      end
  end.
Definition collect (ts : list stok) : list bytes := collect_from [] ts.

Definition idx (e : bytes) (tbl : list bytes) : Z := Z.of_nat (index_of e tbl).

Definition index_tok (tbl : list bytes) (t : stok) : btok :=
  match t with
  | SU u => BU u | SI i => BI i | SF b => BF b | SD b => BD b | SLD b => BLD b
  | SReg s => BReg (idx (s ++ [0%N]) tbl)
  | SName s => BName (idx (s ++ [0%N]) tbl)
  | SStr s => BStr (idx s tbl)
  | SLab n => BLab n
  | SMem k a => BMem k a | SType t => BType t | SEOI => BEOI | SEOF => BEOF
  end.

(* a table string used as a C string: up to the first NUL *)
Fixpoint cstr (e : bytes) : name :=
  match e with
  | [] => []
  | c :: r => if N.eqb c 0 then [] else c :: cstr r
  end.

Definition two80 : Z := 2 ^ 80.

Definition resolve_tok (tbl : list bytes) (b : btok) : option stok :=
  match b with
  | BU u => Some (SU u) | BI i => Some (SI i) | BF x => Some (SF x) | BD x => Some (SD x)
  | BLD x => Some (SLD (x mod two80))                 (* the 6 padding bytes carry no value *)
  | BReg i => match nth_error tbl (Z.to_nat i) with Some e => Some (SReg (cstr e)) | None => None end
  | BName i => match nth_error tbl (Z.to_nat i) with Some e => Some (SName (cstr e)) | None => None end
  | BStr i => match nth_error tbl (Z.to_nat i) with Some e => Some (SStr e) | None => None end
  | BLab n => Some (SLab n)
  | BMem k a => Some (SMem k a) | BType t => Some (SType t) | BEOI => Some SEOI | BEOF => Some SEOF
  end.

Fixpoint resolve_all (tbl : list bytes) (bs : list btok) : option (list stok) :=
  match bs with
  | [] => Some []
  | b :: r =>
      match resolve_tok tbl b, resolve_all tbl r with
      | Some t, Some ts => Some (t :: ts)
      | _, _ => None
      end
  end.

(* ------------------------------------------------------------------ layer A: bytes *)

Fixpoint le_bytes (n : nat) (u : Z) : bytes :=
  match n with
  | O => []
  | S k => Z.to_N (u mod 256) :: le_bytes k (u / 256)
  end.

Fixpoint le_val (bs : bytes) : Z :=
  match bs with
  | [] => 0
  | b :: r => Z.of_N b + 256 * le_val r
  end.

(* for (n = 0; u != 0; n++) u >>= CHAR_BIT;   (at most 8 iterations on a uint64_t) *)
Fixpoint nbytes (fuel : nat) (u : Z) : nat :=
  match fuel with
  | O => O
  | S f => if u =? 0 then O else S (nbytes f (u / 256))
  end.

Definition uint_length (u : Z) : nat := if u <=? 127 then O else nbytes 8 u.
Definition int_length (i : Z) : nat := match nbytes 8 (u64 i) with O => 1%nat | n => n end.

Definition tagn (base : N) (nb : nat) : N := (base + N.of_nat nb - 1)%N.

Definition enc_uint (u : Z) : bytes :=
  match uint_length u with
  | O => [Z.to_N (128 + u)]                       (* 0x80 | u *)
  | nb => tagn TAG_U1 nb :: le_bytes nb u
  end.

Definition enc_int (i : Z) : bytes :=
  let nb := int_length i in tagn TAG_I1 nb :: le_bytes nb (u64 i).

(* string / label number in 1..4 bytes: nb = uint_length (n); if (nb == 0) nb = 1 *)
Definition enc_idx (base : N) (n : Z) : bytes :=
  let nb := match uint_length n with O => 1%nat | k => k end in
  tagn base nb :: le_bytes nb n.

Definition memtag (k : memkind) (alias : bool) : N :=
  match k, alias with
  | KDisp, false => TAG_MEM_DISP | KBase, false => TAG_MEM_BASE | KIndex, false => TAG_MEM_INDEX
  | KDispBase, false => TAG_MEM_DISP_BASE | KDispIndex, false => TAG_MEM_DISP_INDEX
  | KBaseIndex, false => TAG_MEM_BASE_INDEX | KDispBaseIndex, false => TAG_MEM_DISP_BASE_INDEX
  | KDisp, true => TAG_ALIAS_MEM_DISP | KBase, true => TAG_ALIAS_MEM_BASE | KIndex, true => TAG_ALIAS_MEM_INDEX
  | KDispBase, true => TAG_ALIAS_MEM_DISP_BASE | KDispIndex, true => TAG_ALIAS_MEM_DISP_INDEX
  | KBaseIndex, true => TAG_ALIAS_MEM_BASE_INDEX | KDispBaseIndex, true => TAG_ALIAS_MEM_DISP_BASE_INDEX
  end.

Definition enc_tok (b : btok) : bytes :=
  match b with
  | BU u => enc_uint u
  | BI i => enc_int i
  | BF x => TAG_F :: le_bytes 4 x
  | BD x => TAG_D :: le_bytes 8 x
  | BLD x => TAG_LD :: le_bytes 16 x
  | BReg i => enc_idx TAG_REG1 i
  | BName i => enc_idx TAG_NAME1 i
  | BStr i => enc_idx TAG_STR1 i
  | BLab n => enc_idx TAG_LAB1 n
  | BMem k a => [memtag k a]
  | BType t => if is_undef t then [TAG_TUNDEF] else [(TAG_TI8 + mtype_num t)%N]
  | BEOI => [TAG_EOI]
  | BEOF => [TAG_EOFILE]
  end.

Fixpoint take (n : nat) (bs : bytes) : option (bytes * bytes) :=
  match n with
  | O => Some ([], bs)
  | S k => match bs with
           | [] => None
           | b :: r => match take k r with Some (v, r') => Some (b :: v, r') | None => None end
           end
  end.

Definition in_range (lo hi c : N) : bool := (N.leb lo c && N.leb c hi)%bool.

Definition memtag_of (c : N) : option (memkind * bool) :=
  if N.eqb c TAG_MEM_DISP then Some (KDisp, false)
  else if N.eqb c TAG_MEM_BASE then Some (KBase, false)
  else if N.eqb c TAG_MEM_INDEX then Some (KIndex, false)
  else if N.eqb c TAG_MEM_DISP_BASE then Some (KDispBase, false)
  else if N.eqb c TAG_MEM_DISP_INDEX then Some (KDispIndex, false)
  else if N.eqb c TAG_MEM_BASE_INDEX then Some (KBaseIndex, false)
  else if N.eqb c TAG_MEM_DISP_BASE_INDEX then Some (KDispBaseIndex, false)
  else if N.eqb c TAG_ALIAS_MEM_DISP then Some (KDisp, true)
  else if N.eqb c TAG_ALIAS_MEM_BASE then Some (KBase, true)
  else if N.eqb c TAG_ALIAS_MEM_INDEX then Some (KIndex, true)
  else if N.eqb c TAG_ALIAS_MEM_DISP_BASE then Some (KDispBase, true)
  else if N.eqb c TAG_ALIAS_MEM_DISP_INDEX then Some (KDispIndex, true)
  else if N.eqb c TAG_ALIAS_MEM_BASE_INDEX then Some (KBaseIndex, true)
  else if N.eqb c TAG_ALIAS_MEM_DISP_BASE_INDEX then Some (KDispBaseIndex, true)
  else None.

(* get_uint (ctx, nb) after a tag of a family starting at [base] *)
Definition dec_multi (base c : N) (r : bytes) (mk : Z -> btok) : option (btok * bytes) :=
  match take (N.to_nat (c - base + 1)) r with
  | Some (v, r') => Some (mk (le_val v), r')
  | None => None
  end.

(* read_token *)
Definition dec_tok (bs : bytes) : option (btok * bytes) :=
  match bs with
  | [] => None
  | c :: r =>
      if N.leb U0_FLAG c then Some (BU (Z.of_N (c - U0_FLAG)), r)
      else if in_range TAG_U1 TAG_U8 c then dec_multi TAG_U1 c r BU
      else if in_range TAG_I1 TAG_I8 c then dec_multi TAG_I1 c r (fun v => BI (s64 v))
      else if N.eqb c TAG_F then match take 4 r with Some (v, r') => Some (BF (le_val v), r') | None => None end
      else if N.eqb c TAG_D then match take 8 r with Some (v, r') => Some (BD (le_val v), r') | None => None end
      else if N.eqb c TAG_LD then match take 16 r with Some (v, r') => Some (BLD (le_val v), r') | None => None end
      else if in_range TAG_REG1 TAG_REG4 c then dec_multi TAG_REG1 c r BReg
      else if in_range TAG_NAME1 TAG_NAME4 c then dec_multi TAG_NAME1 c r BName
      else if in_range TAG_STR1 TAG_STR4 c then dec_multi TAG_STR1 c r BStr
      else if in_range TAG_LAB1 TAG_LAB4 c then dec_multi TAG_LAB1 c r BLab
      else if in_range TAG_TI8 TAG_TRBLOCK c then
        match mtype_of_num (c - TAG_TI8) with Some t => Some (BType t, r) | None => None end
      else if N.eqb c TAG_EOI then Some (BEOI, r)
      else if N.eqb c TAG_EOFILE then Some (BEOF, r)
      else if N.eqb c TAG_TUNDEF then Some (BType TUNDEF, r)      (* read_type only: memory operand *)
      else match memtag_of c with Some (k, a) => Some (BMem k a, r) | None => None end
  end.

(* tokens up to and including TAG_EOFILE; the rest of the stream is returned *)
Fixpoint dec_toks (fuel : nat) (bs : bytes) : option (list btok * bytes) :=
  match fuel with
  | O => None
  | S f =>
      match dec_tok bs with
      | Some (BEOF, r) => Some ([BEOF], r)
      | Some (t, r) => match dec_toks f r with Some (ts, r') => Some (t :: ts, r') | None => None end
      | None => None
      end
  end.

(* read_uint *)
Definition dec_uint (bs : bytes) : option (Z * bytes) :=
  match dec_tok bs with Some (BU u, r) => Some (u, r) | _ => None end.

(* read_all_strings *)
Fixpoint dec_strings (n : nat) (bs : bytes) : option (list bytes * bytes) :=
  match n with
  | O => Some ([], bs)
  | S k =>
      match dec_uint bs with
      | Some (len, r) =>
          match take (Z.to_nat len) r with
          | Some (s, r1) => match dec_strings k r1 with Some (l, r2) => Some (s :: l, r2) | None => None end
          | None => None
          end
      | None => None
      end
  end.

(* ------------------------------------------------------------------ whole stream *)

Definition enc_strings (tbl : list bytes) : bytes :=
  flat_map (fun e => enc_uint (Z.of_nat (length e)) ++ e) tbl.

(* MIR_write_module_with_func, module == NULL: all modules of the context *)
Definition write_toks (ts : list stok) : bytes :=
  let tbl := collect ts in
  enc_uint (Z.of_N CURR_BIN_VERSION) ++ enc_uint (Z.of_nat (length tbl)) ++ enc_strings tbl
  ++ flat_map (fun t => enc_tok (index_tok tbl t)) ts ++ enc_tok BEOF.

Definition write_ctx (ms : list module) : bytes := write_toks (w_ctx ms).

(* MIR_read_with_func *)
Definition read_ctx (bs : bytes) : res (list module) :=
  match dec_uint bs with
  | None => Err "wrong header"
  | Some (version, r) =>
      if Z.of_N CURR_BIN_VERSION <? version then Err "can not read version"
      else
        match dec_uint r with
        | None => Err "wrong header"
        | Some (nstr, r1) =>
            match dec_strings (Z.to_nat nstr) r1 with
            | None => Err "wrong string table"
            | Some (tbl, r2) =>
                match dec_toks (S (length r2)) r2 with
                | None => Err "wrong tag or unfinished binary MIR"
                | Some (bts, rest) =>
                    match rest with
                    | _ :: _ => Err "garbage at the end of file"
                    | [] =>
                        match resolve_all tbl bts with
                        | None => Err "wrong string num"
                        | Some ts => r_ctx ts
                        end
                    end
                end
            end
        end
  end.

(* ------------------------------------------------------------------ normal form reached by a read
   (what differs from the written AST without changing any serialisation of it) *)

Definition norm_mem (m : mem) : mem :=
  mkMem (m_type m) (m_disp m) (m_base m) (m_index m)
        (match m_index m with Some _ => m_scale m | None => 0%N end) (m_alias m) (m_nonalias m).
Definition norm_op (o : operand) : operand := match o with OMem m => OMem (norm_mem m) | _ => o end.
Definition norm_insn (i : insn) : insn :=
  match i with ILabel l => ILabel l | IInsn c ops => IInsn c (map norm_op ops) end.
Definition norm_var (v : var) : var :=
  mkVar (v_type v) (v_name v) (if all_blk_type_p (v_type v) then v_size v else 0).
Definition norm_func (f : func) : func :=
  mkFunc (f_name f) (f_vararg f) (f_res f) (map norm_var (f_args f)) (f_locals f) (f_globals f)
         (map norm_insn (f_insns f)).
Definition norm_item (it : item) : item :=
  match it with
  | ItProto n va res args => ItProto n va res (map norm_var args)
  | ItFunc f => ItFunc (norm_func f)
  | _ => it
  end.
Definition norm_module (m : module) : module := mkModule (mod_name m) (map norm_item (mod_items m)).

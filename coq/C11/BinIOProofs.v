(* Proofs about the binary MIR codec model (BinIO.v). *)
From Coq Require Import List ZArith NArith Bool String Lia.
From MirV Require Import Base.W64 Mir.Opcode C11.Tables C11.Ast C11.BinIO.
Import ListNotations.
Local Open Scope Z_scope.
Local Notation length := List.length.
Ltac Zify.zify_post_hook ::= Z.div_mod_to_equations.

(* ---------------------------------------------------------------- little-endian bytes *)

Lemma le_bytes_length n u : length (le_bytes n u) = n.
Proof. revert u; induction n as [|n IH]; intros u; cbn [le_bytes length]; [reflexivity | now rewrite IH]. Qed.

Lemma le_val_le_bytes n u : 0 <= u -> le_val (le_bytes n u) = u mod 256 ^ Z.of_nat n.
Proof.
  revert u; induction n as [|n IH]; intros u Hu.
  - cbn. now rewrite Z.mod_1_r.
  - cbn [le_bytes le_val]. rewrite IH by (apply Z.div_pos; lia).
    rewrite Z2N.id by (apply Z.mod_pos_bound; lia).
    rewrite Nat2Z.inj_succ, Z.pow_succ_r by lia.
    set (P := 256 ^ Z.of_nat n) in *.
    assert (HP : 0 < P) by (apply Z.pow_pos_nonneg; lia).
    rewrite Z.rem_mul_r by lia. reflexivity.
Qed.

Lemma le_bytes_app_rest n u rest : take n (le_bytes n u ++ rest) = Some (le_bytes n u, rest).
Proof.
  revert u; induction n as [|n IH]; intros u; cbn [le_bytes take app]; [reflexivity|].
  now rewrite IH.
Qed.

Lemma take_app (v rest : bytes) : take (length v) (v ++ rest) = Some (v, rest).
Proof. induction v as [|b v IH]; cbn [take length app]; [reflexivity | now rewrite IH]. Qed.

(* ---------------------------------------------------------------- uint_length / int_length *)

Lemma nbytes_bound fuel u : 0 <= u < 256 ^ Z.of_nat fuel -> u < 256 ^ Z.of_nat (nbytes fuel u).
Proof.
  revert u; induction fuel as [|f IH]; intros u Hu.
  - cbn in *. lia.
  - cbn [nbytes]. destruct (Z.eqb_spec u 0) as [->|Hnz]; [cbn; lia|].
    rewrite Nat2Z.inj_succ, Z.pow_succ_r in * by lia.
    assert (H : u / 256 < 256 ^ Z.of_nat (nbytes f (u / 256))).
    { apply IH. split; [apply Z.div_pos; lia | apply Z.div_lt_upper_bound; lia]. }
    lia.
Qed.

Lemma nbytes_le fuel u : (nbytes fuel u <= fuel)%nat.
Proof. revert u; induction fuel as [|f IH]; intros u; cbn [nbytes]; [lia|]. destruct (u =? 0); [lia | specialize (IH (u / 256)); lia]. Qed.

Lemma nbytes_pos fuel u : 0 < u -> (0 < fuel)%nat -> (0 < nbytes fuel u)%nat.
Proof. intros Hu Hf. destruct fuel; [lia|]. cbn [nbytes]. destruct (Z.eqb_spec u 0); lia. Qed.

Definition in_u64 (u : Z) : Prop := 0 <= u < 2 ^ 64.
Definition in_s64 (i : Z) : Prop := - 2 ^ 63 <= i < 2 ^ 63.

Lemma pow256_8 : 256 ^ Z.of_nat 8 = 2 ^ 64. Proof. reflexivity. Qed.

Lemma le_val_nbytes u : in_u64 u -> le_val (le_bytes (nbytes 8 u) u) = u.
Proof.
  intros [H0 H1]. rewrite le_val_le_bytes by lia. apply Z.mod_small. split; [lia|].
  apply nbytes_bound. rewrite pow256_8. lia.
Qed.

Lemma le_val_more n u : in_u64 u -> (nbytes 8 u <= n)%nat -> le_val (le_bytes n u) = u.
Proof.
  intros Hu Hn. rewrite le_val_le_bytes by (destruct Hu; lia). apply Z.mod_small. destruct Hu as [H0 H1]. split; [lia|].
  eapply Z.lt_le_trans; [apply nbytes_bound; rewrite pow256_8; lia|].
  apply Z.pow_le_mono_r; lia.
Qed.

(* ---------------------------------------------------------------- read_token (enc_tok b ++ rest) *)

Ltac fam_cases nb H :=
  let E := fresh "E" in
  assert (E : (nb = 1 \/ nb = 2 \/ nb = 3 \/ nb = 4 \/ nb = 5 \/ nb = 6 \/ nb = 7 \/ nb = 8)%nat) by lia;
  clear H; repeat (destruct E as [E|E]); subst nb.

Ltac fam_cases4 nb H :=
  let E := fresh "E" in
  assert (E : (nb = 1 \/ nb = 2 \/ nb = 3 \/ nb = 4)%nat) by lia;
  clear H; repeat (destruct E as [E|E]); subst nb.

Ltac dec_fam := unfold dec_tok, dec_multi; cbn -[le_bytes le_val take]; rewrite le_bytes_app_rest; reflexivity.

Lemma dec_tok_U nb v rest : (1 <= nb <= 8)%nat ->
  dec_tok (tagn TAG_U1 nb :: le_bytes nb v ++ rest) = Some (BU (le_val (le_bytes nb v)), rest).
Proof. intros H. fam_cases nb H; dec_fam. Qed.

Lemma dec_tok_I nb v rest : (1 <= nb <= 8)%nat ->
  dec_tok (tagn TAG_I1 nb :: le_bytes nb v ++ rest) = Some (BI (s64 (le_val (le_bytes nb v))), rest).
Proof. intros H. fam_cases nb H; dec_fam. Qed.

Lemma dec_tok_idx base mk nb v rest :
  (base = TAG_REG1 /\ mk = BReg) \/ (base = TAG_NAME1 /\ mk = BName) \/ (base = TAG_STR1 /\ mk = BStr)
  \/ (base = TAG_LAB1 /\ mk = BLab) ->
  (1 <= nb <= 4)%nat ->
  dec_tok (tagn base nb :: le_bytes nb v ++ rest) = Some (mk (le_val (le_bytes nb v)), rest).
Proof.
  intros Hb H. destruct Hb as [[-> ->]|[[-> ->]|[[-> ->]|[-> ->]]]]; fam_cases4 nb H; dec_fam.
Qed.

Lemma uint_length_range u : in_u64 u -> (uint_length u <= 8)%nat.
Proof. intros _. unfold uint_length. destruct (u <=? 127); [lia | apply nbytes_le]. Qed.

Lemma dec_enc_uint u rest : in_u64 u -> dec_tok (enc_uint u ++ rest) = Some (BU u, rest).
Proof.
  intros Hu. unfold enc_uint. destruct (uint_length u) as [|k] eqn:E.
  - unfold uint_length in E. destruct (Z.leb_spec u 127) as [Hs|Hl].
    + cbn [app]. unfold dec_tok.
      assert (Hc : N.leb U0_FLAG (Z.to_N (128 + u)) = true).
      { apply N.leb_le. unfold U0_FLAG. destruct Hu. lia. }
      rewrite Hc. f_equal. f_equal. f_equal. unfold U0_FLAG. destruct Hu. lia.
    + exfalso. destruct Hu. pose proof (nbytes_pos 8 u ltac:(lia) ltac:(lia)). lia.
  - cbn [app]. rewrite <- E.
    assert (Hr : (1 <= uint_length u <= 8)%nat) by (pose proof (uint_length_range u Hu); lia).
    rewrite dec_tok_U by exact Hr. f_equal. f_equal. f_equal.
    unfold uint_length in *. destruct (u <=? 127); [discriminate|]. now apply le_val_nbytes.
Qed.

Lemma int_length_range i : (1 <= int_length i <= 8)%nat.
Proof. unfold int_length. pose proof (nbytes_le 8 (u64 i)). destruct (nbytes 8 (u64 i)); lia. Qed.

Lemma u64_range i : in_u64 (u64 i).
Proof. unfold in_u64, u64, uwrap. apply Z.mod_pos_bound. lia. Qed.

Lemma dec_enc_int i rest : in_s64 i -> dec_tok (enc_int i ++ rest) = Some (BI i, rest).
Proof.
  intros Hi. unfold enc_int. cbn [app]. rewrite dec_tok_I by apply int_length_range.
  f_equal. f_equal. f_equal.
  rewrite le_val_more; [ | apply u64_range | unfold int_length; destruct (nbytes 8 (u64 i)); lia ].
  unfold u64, s64. rewrite swrap_uwrap by lia. apply swrap_id; [lia|]. unfold in_s, in_s64 in *. cbn. lia.
Qed.

Definition idx_ok (n : Z) : Prop := 0 <= n < 2 ^ 32.

Lemma idx_length n : idx_ok n -> (1 <= match uint_length n with O => 1 | k => k end <= 4)%nat.
Proof.
  intros [H0 H1]. unfold uint_length. destruct (n <=? 127); [lia|].
  assert (Hb : (nbytes 8 n <= 4)%nat).
  { (* n < 256^4 *)
    cbn [nbytes]. destruct (n =? 0); [lia|].
    assert (n / 256 < 2 ^ 24) by (apply Z.div_lt_upper_bound; lia).
    destruct (n / 256 =? 0); [lia|].
    assert (n / 256 / 256 < 2 ^ 16) by (apply Z.div_lt_upper_bound; lia).
    destruct (n / 256 / 256 =? 0); [lia|].
    assert (n / 256 / 256 / 256 < 2 ^ 8) by (apply Z.div_lt_upper_bound; lia).
    destruct (n / 256 / 256 / 256 =? 0); [lia|].
    assert (E : n / 256 / 256 / 256 / 256 = 0) by (apply Z.div_small; split; [repeat apply Z.div_pos; lia | lia]).
    rewrite E. cbn. lia. }
  destruct (nbytes 8 n); lia.
Qed.

Lemma dec_enc_idx base mk n rest :
  (base = TAG_REG1 /\ mk = BReg) \/ (base = TAG_NAME1 /\ mk = BName) \/ (base = TAG_STR1 /\ mk = BStr)
  \/ (base = TAG_LAB1 /\ mk = BLab) ->
  idx_ok n -> dec_tok (enc_idx base n ++ rest) = Some (mk n, rest).
Proof.
  intros Hb Hn. unfold enc_idx. cbn [app].
  rewrite (dec_tok_idx base mk) by (try exact Hb; now apply idx_length).
  f_equal. f_equal. f_equal. apply le_val_more.
  - destruct Hn; split; lia.
  - unfold uint_length. destruct (Z.leb_spec n 127) as [Hs|Hl].
    + (* n <= 127: one byte is enough *)
      cbn [nbytes]. destruct (n =? 0); [lia|].
      assert (E : n / 256 = 0) by (apply Z.div_small; destruct Hn; lia). rewrite E. cbn. lia.
    + destruct (nbytes 8 n) eqn:E; [|lia].
      destruct Hn. pose proof (nbytes_pos 8 n ltac:(lia) ltac:(lia)). lia.
Qed.

Definition wf_mtype (t : mtype) : Prop := match t with TBLK n => (n < 5)%N | _ => True end.

Definition wf_btok (b : btok) : Prop :=
  match b with
  | BU u => in_u64 u
  | BI i => in_s64 i
  | BF x => 0 <= x < 2 ^ 32
  | BD x => 0 <= x < 2 ^ 64
  | BLD x => 0 <= x < 2 ^ 128
  | BReg i | BName i | BStr i | BLab i => idx_ok i
  | BType t => wf_mtype t
  | BMem _ _ | BEOI | BEOF => True
  end.

Lemma mtype_num_roundtrip t : wf_mtype t -> mtype_of_num (mtype_num t) = Some t.
Proof.
  destruct t as [| | | | | | | | | | | |n| |]; try reflexivity. cbn. intros H.
  assert (E : (n = 0 \/ n = 1 \/ n = 2 \/ n = 3 \/ n = 4)%N) by lia.
  repeat (destruct E as [E|E]); subst n; reflexivity.
Qed.

Lemma dec_fixed tag n (mk : Z -> btok) x rest :
  (tag = TAG_F /\ n = 4%nat /\ mk = BF) \/ (tag = TAG_D /\ n = 8%nat /\ mk = BD) \/ (tag = TAG_LD /\ n = 16%nat /\ mk = BLD) ->
  dec_tok (tag :: le_bytes n x ++ rest) = Some (mk (le_val (le_bytes n x)), rest).
Proof.
  intros [[-> [-> ->]]|[[-> [-> ->]]|[-> [-> ->]]]];
    unfold dec_tok; cbn -[le_bytes le_val take]; rewrite le_bytes_app_rest; reflexivity.
Qed.

(* every token kind, every value *)
Lemma bin_token_roundtrip_lemma b rest : wf_btok b -> dec_tok (enc_tok b ++ rest) = Some (b, rest).
Proof.
  destruct b as [u|i|x|x|x|i|i|i|n|k a|t| |]; cbn [wf_btok enc_tok]; intros H.
  - now apply dec_enc_uint.
  - now apply dec_enc_int.
  - cbn [app]. rewrite (dec_fixed TAG_F 4 BF) by tauto. rewrite le_val_le_bytes by lia. now rewrite Z.mod_small by (cbn; lia).
  - cbn [app]. rewrite (dec_fixed TAG_D 8 BD) by tauto. rewrite le_val_le_bytes by lia. now rewrite Z.mod_small by (cbn; lia).
  - cbn [app]. rewrite (dec_fixed TAG_LD 16 BLD) by tauto. rewrite le_val_le_bytes by lia. now rewrite Z.mod_small by (cbn; lia).
  - apply dec_enc_idx; tauto.
  - apply dec_enc_idx; tauto.
  - apply dec_enc_idx; tauto.
  - apply dec_enc_idx; tauto.
  - destruct k, a; reflexivity.
  - destruct (is_undef t) eqn:Eu; [destruct t; try discriminate; reflexivity|].
    cbn [app]. unfold dec_tok.
    assert (Hn : (mtype_num t <= 17)%N).
    { destruct t; unfold wf_mtype, mtype_num in *; try lia; discriminate. }
    pose proof (mtype_num_roundtrip t H) as Ht.
    remember (mtype_num t) as k eqn:Ek.
    assert (E : (k = 0 \/ k = 1 \/ k = 2 \/ k = 3 \/ k = 4 \/ k = 5 \/ k = 6 \/ k = 7 \/ k = 8 \/ k = 9 \/ k = 10
                 \/ k = 11 \/ k = 12 \/ k = 13 \/ k = 14 \/ k = 15 \/ k = 16 \/ k = 17)%N) by lia.
    clear Hn Ek. repeat (destruct E as [E|E]); subst k; cbn in Ht |- *; rewrite ?Ht; try reflexivity;
      cbn in *; congruence.
  - reflexivity.
  - reflexivity.
Qed.

(* ---------------------------------------------------------------- token lists, string table bytes *)

Definition not_eof (b : btok) : Prop := b <> BEOF.

Lemma dec_toks_roundtrip bs rest fuel :
  Forall wf_btok bs -> Forall not_eof bs -> (length bs < fuel)%nat ->
  dec_toks fuel (flat_map enc_tok bs ++ enc_tok BEOF ++ rest) = Some (bs ++ [BEOF], rest).
Proof.
  revert fuel; induction bs as [|b bs IH]; intros fuel Hwf Hne Hf.
  - destruct fuel; [cbn in Hf; lia|]. cbn [flat_map app dec_toks].
    rewrite (bin_token_roundtrip_lemma BEOF rest I). reflexivity.
  - destruct fuel; [cbn in Hf; lia|]. cbn [flat_map]. rewrite <- app_assoc. cbn [dec_toks].
    inversion Hwf as [|? ? Hb Hbs]; subst. inversion Hne as [|? ? Hn Hns]; subst.
    rewrite (bin_token_roundtrip_lemma b _ Hb).
    rewrite IH by (try assumption; cbn in Hf; lia).
    destruct b; try reflexivity. exfalso; now apply Hn.
Qed.

Definition wf_entry (e : bytes) : Prop := Z.of_nat (length e) < 2 ^ 64.

Lemma dec_strings_roundtrip tbl rest :
  Forall wf_entry tbl -> dec_strings (length tbl) (enc_strings tbl ++ rest) = Some (tbl, rest).
Proof.
  induction tbl as [|e tbl IH]; intros Hwf; [reflexivity|].
  inversion Hwf as [|? ? He Ht]; subst.
  cbn [length dec_strings enc_strings flat_map]. fold (enc_strings tbl).
  rewrite <- !app_assoc. unfold dec_uint.
  rewrite dec_enc_uint by (unfold in_u64, wf_entry in *; lia).
  rewrite Nat2Z.id, take_app. now rewrite IH.
Qed.

(* ---------------------------------------------------------------- layer B: the string table *)

Lemma bytes_eqb_eq a b : bytes_eqb a b = true <-> a = b.
Proof.
  revert b; induction a as [|x a IH]; intros [|y b]; cbn [bytes_eqb]; try (split; congruence).
  rewrite andb_true_iff, N.eqb_eq, IH. split; [intros [-> ->]; reflexivity | intros E; inversion E; auto].
Qed.

Lemma bytes_eqb_refl a : bytes_eqb a a = true.
Proof. now apply bytes_eqb_eq. Qed.

Lemma in_tbl_In e tbl : in_tbl e tbl = true <-> In e tbl.
Proof.
  unfold in_tbl. rewrite existsb_exists. split.
  - intros [x [Hx He]]. apply bytes_eqb_eq in He. now subst.
  - intros H. exists e. split; [assumption | apply bytes_eqb_refl].
Qed.

Lemma collect_from_ext tbl ts : exists ext, collect_from tbl ts = tbl ++ ext.
Proof.
  revert tbl; induction ts as [|t ts IH]; intros tbl; cbn [collect_from].
  - exists []. now rewrite app_nil_r.
  - destruct (entry_of t) as [e|]; [|apply IH].
    destruct (in_tbl e tbl); [apply IH|].
    destruct (IH (tbl ++ [e])) as [ext E]. exists ([e] ++ ext). now rewrite E, <- app_assoc.
Qed.

(* pass 2 finds every string pass 1 stored *)
Lemma collect_from_complete tbl ts t e :
  In t ts -> entry_of t = Some e -> In e (collect_from tbl ts).
Proof.
  revert tbl; induction ts as [|t0 ts IH]; intros tbl Hin He; [contradiction|].
  cbn [collect_from]. destruct Hin as [->|Hin].
  - rewrite He. destruct (in_tbl e tbl) eqn:Ei.
    + destruct (collect_from_ext tbl ts) as [ext ->]. apply in_or_app. left. now apply in_tbl_In.
    + destruct (collect_from_ext (tbl ++ [e]) ts) as [ext ->]. apply in_or_app. left. apply in_or_app. right. now left.
  - destruct (entry_of t0) as [e0|]; [|now apply IH].
    destruct (in_tbl e0 tbl); now apply IH.
Qed.

Lemma index_of_nth e tbl : In e tbl -> nth_error tbl (index_of e tbl) = Some e.
Proof.
  induction tbl as [|x tbl IH]; intros Hin; [contradiction|].
  cbn [index_of]. destruct (bytes_eqb x e) eqn:E.
  - apply bytes_eqb_eq in E. now subst.
  - cbn [nth_error]. apply IH. destruct Hin as [->|H]; [now rewrite bytes_eqb_refl in E | assumption].
Qed.

Lemma index_of_lt e tbl : In e tbl -> (index_of e tbl < length tbl)%nat.
Proof.
  induction tbl as [|x tbl IH]; intros Hin; [contradiction|].
  cbn [index_of length]. destruct (bytes_eqb x e) eqn:E; [lia|].
  assert (In e tbl) by (destruct Hin as [->|H]; [now rewrite bytes_eqb_refl in E | assumption]).
  specialize (IH H). lia.
Qed.

Definition no_nul (s : bytes) : Prop := Forall (fun c => c <> 0%N) s.

Lemma cstr_app_nul s : no_nul s -> cstr (s ++ [0%N]) = s.
Proof.
  induction s as [|c s IH]; intros H; [reflexivity|].
  inversion H as [|? ? Hc Hs]; subst. cbn [app cstr].
  destruct (N.eqb_spec c 0); [contradiction|]. now rewrite IH.
Qed.

Definition wf_stok (t : stok) : Prop :=
  match t with
  | SU u => in_u64 u
  | SI i => in_s64 i
  | SF x => 0 <= x < 2 ^ 32
  | SD x => 0 <= x < 2 ^ 64
  | SLD x => 0 <= x < 2 ^ 80
  | SReg s | SName s => no_nul s
  | SStr _ => True
  | SLab n => idx_ok n
  | SType t => wf_mtype t
  | SMem _ _ | SEOI => True
  | SEOF => False                       (* never written inside the token stream *)
  end.

Lemma resolve_index_tok tbl t :
  wf_stok t -> (forall e, entry_of t = Some e -> In e tbl) -> resolve_tok tbl (index_tok tbl t) = Some t.
Proof.
  intros Hwf Hin. destruct t as [u|i|x|x|x|s|s|s|n|k a|t| |]; cbn [index_tok resolve_tok]; try reflexivity.
  - cbn [wf_stok] in Hwf. unfold two80. now rewrite Z.mod_small by lia.
  - unfold idx. rewrite Nat2Z.id, index_of_nth by (apply Hin; reflexivity). now rewrite cstr_app_nul.
  - unfold idx. rewrite Nat2Z.id, index_of_nth by (apply Hin; reflexivity). now rewrite cstr_app_nul.
  - unfold idx. rewrite Nat2Z.id, index_of_nth by (apply Hin; reflexivity). reflexivity.
Qed.

Lemma wf_index_tok tbl t :
  wf_stok t -> (forall e, entry_of t = Some e -> In e tbl) -> Z.of_nat (length tbl) < 2 ^ 32 ->
  wf_btok (index_tok tbl t).
Proof.
  intros Hwf Hin Hlen. destruct t as [u|i|x|x|x|s|s|s|n|k a|t| |]; cbn [index_tok wf_btok wf_stok] in *; try assumption; try lia.
  all: unfold idx_ok, idx; match goal with |- context [index_of ?e ?tb] =>
         pose proof (index_of_lt e tb (Hin _ eq_refl)) end; lia.
Qed.

Lemma resolve_all_index tbl ts :
  Forall wf_stok ts -> (forall t e, In t ts -> entry_of t = Some e -> In e tbl) ->
  resolve_all tbl (map (index_tok tbl) ts) = Some ts.
Proof.
  induction ts as [|t ts IH]; intros Hwf Hin; [reflexivity|].
  inversion Hwf as [|? ? Ht Hts]; subst. cbn [map resolve_all].
  assert (H1 : forall e, entry_of t = Some e -> In e tbl) by (intros e He; apply (Hin t e); [now left | exact He]).
  assert (H2 : forall t' e, In t' ts -> entry_of t' = Some e -> In e tbl) by (intros t' e Ht' He; apply (Hin t' e); [now right | exact He]).
  rewrite (resolve_index_tok tbl t Ht H1), (IH Hts H2). reflexivity.
Qed.

Lemma bin_string_table_complete_lemma ts t e :
  In t ts -> entry_of t = Some e -> In e (collect ts).
Proof. apply collect_from_complete. Qed.

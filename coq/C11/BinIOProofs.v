(* Proofs about the binary MIR codec model (BinIO.v). *)
From Coq Require Import List ZArith NArith Bool String Lia.
From MirV Require Import Base.W64 Mir.Opcode C11.Tables C11.Ast C11.BinIO.
Import ListNotations.
Local Open Scope Z_scope.
Local Notation length := List.length.
Ltac Zify.zify_post_hook ::= Z.div_mod_to_equations.

(* ---------------------------------------------------------------- little-endian bytes *)

Lemma le_bytes_length n u : length (le_bytes n u) = n.
Proof. revert u; induction n as [|n IH]; intros u; cbn [le_bytes length]; [reflexivity | now rewrite IH]. Qed.

Lemma le_val_le_bytes n u : 0 <= u -> le_val (le_bytes n u) = u mod 256 ^ Z.of_nat n.
Proof.
  revert u; induction n as [|n IH]; intros u Hu.
  - cbn. now rewrite Z.mod_1_r.
  - cbn [le_bytes le_val]. rewrite IH by (apply Z.div_pos; lia).
    rewrite Z2N.id by (apply Z.mod_pos_bound; lia).
    rewrite Nat2Z.inj_succ, Z.pow_succ_r by lia.
    set (P := 256 ^ Z.of_nat n) in *.
    assert (HP : 0 < P) by (apply Z.pow_pos_nonneg; lia).
    rewrite Z.rem_mul_r by lia. reflexivity.
Qed.

(* Non-vacuity: a concrete context with every item kind, every operand form, a label-ending
   function, an lref item, hard-register globals and property insns satisfies the hypotheses of
   the round trip theorem (checked by computation), and the model really round-trips it. *)
From Coq Require Import List ZArith NArith Bool String.
From MirV Require Import Base.W64 Mir.Opcode C11.Tables C11.Ast C11.BinIO C11.BinIOProofs C11.BinGrammarProofs
  C11.BinRoundtrip C11.BinWfDec.
Import ListNotations.
Local Open Scope Z_scope.

Definition ex_mem : mem := mkMem TU16 (-9223372036854775808) (Some (str "r")) (Some (str "i")) 8 (Some (str "A")) None.
Definition ex_mem2 : mem := mkMem (TBLK 3) 16 (Some (str "r")) None 1 None None.

Definition ex_func : func :=
  mkFunc (str "f") true [TI64; TLD] [mkVar TI32 (str "a") 0; mkVar (TBLK 3) (str "s") 16; mkVar TRBLK (str "q") 4294967295]
    [(TI64, str "r"); (TI64, str "i"); (TLD, str "x")]
    [(TD, str "g", str "xmm12")]
    [ ILabel 7;
      IInsn MOV [OReg (str "r"); OInt (-1)];
      IInsn ADD [OMem ex_mem; OReg (str "r"); OUint 18446744073709551615];
      IInsn LDMOV [OReg (str "x"); OLdouble (2 ^ 80 - 1)];
      IInsn DMOV [OReg (str "g"); ODouble 9221120237041090561];      (* NaN with payload *)
      IInsn FMOV [OMem (mkMem TF 0 None None 0 None (Some (str "N"))); OFloat 4290772993];
      IInsn MOV [OReg (str "r"); OStr [0; 255; 34; 92; 10]%N];
      IInsn CALL [ORef (str "p"); ORef (str "f"); OReg (str "r"); OReg (str "x"); OInt 5; OMem ex_mem2; OReg (str "i")];
      IInsn PRSET [OReg (str "r"); OInt 3];
      IInsn SWITCH [OReg (str "i"); OLabel 7; OLabel 4294967295];
      IInsn BT [OLabel 7; OReg (str "r")];
      IInsn RET [OReg (str "r"); OReg (str "x")];
      ILabel 4294967295 ].

Definition ex_ctx : list module :=
  [ mkModule (str "m1")
      [ ItImport (str "ext"); ItForward (str "f"); ItExport (str "f");
        ItProto (str "p") true [TI64; TLD] [mkVar TI32 (str "a") 0; mkVar (TBLK 3) (str "s") 16];
        ItFunc ex_func;
        ItBss None 0; ItBss (Some (str "b")) 18446744073709551615;
        ItData (Some (str "d")) TI8 [-128; 127]; ItData None TU64 [18446744073709551615];
        ItData None TP [1]; ItData None TLD [2 ^ 79]; ItData (Some (str "s")) TU8 [104; 105; 0];
        ItRef (Some (str "r1")) (str "d") (-1); ItRef None (str "ext") 0;
        ItLref (Some (str "l1")) 7 (Some 4294967295) 8; ItLref None 7 None 0;
        ItExpr (Some (str "e")) (str "f") ];
    mkModule (str "empty") [] ].

Example ex_ctx_wf : wf_ctx_b ex_ctx = true.
Proof. vm_compute. reflexivity. Qed.

Example ex_ctx_roundtrip : read_ctx (write_ctx ex_ctx) = Ok (map norm_module ex_ctx).
Proof. vm_compute. reflexivity. Qed.

(* the read really normalises something: the scale of the index-less memory operand *)
Example ex_ctx_norm_differs : map norm_module ex_ctx <> ex_ctx.
Proof. vm_compute. intros H. inversion H. Qed.

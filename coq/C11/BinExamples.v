(* Non-vacuity: a concrete context with every item kind, every operand form, a label-ending
   function, an lref item, hard-register globals and property insns satisfies the hypotheses of
   the round trip theorem (checked by computation), and the model really round-trips it. *)
From Coq Require Import List ZArith NArith Bool String.
From MirV Require Import Base.W64 Mir.Opcode C11.Tables C11.Ast C11.BinIO C11.BinIOProofs C11.BinGrammarProofs
  C11.BinRoundtrip C11.BinWfDec C10.TextOut C10.TextProofs.
Import ListNotations.
Local Open Scope Z_scope.

Definition ex_mem : mem := mkMem TU16 (-9223372036854775808) (Some (str "r")) (Some (str "i")) 8 (Some (str "A")) None.
Definition ex_mem2 : mem := mkMem (TBLK 3) 16 (Some (str "r")) None 1 None None.

Definition ex_func : func :=
  mkFunc (str "f") true [TI64; TLD] [mkVar TI32 (str "a") 0; mkVar (TBLK 3) (str "s") 16; mkVar TRBLK (str "q") 4294967295]
    [(TI64, str "r"); (TI64, str "i"); (TLD, str "x")]
    [(TD, str "g", str "xmm12")]
    [ ILabel 7;
      IInsn MOV [OReg (str "r"); OInt (-1)];
      IInsn ADD [OMem ex_mem; OReg (str "r"); OUint 18446744073709551615];
      IInsn LDMOV [OReg (str "x"); OLdouble (2 ^ 80 - 1)];
      IInsn DMOV [OReg (str "g"); ODouble 9221120237041090561];      (* NaN with payload *)
      IInsn FMOV [OMem (mkMem TF 0 None None 0 None (Some (str "N"))); OFloat 4290772993];
      IInsn MOV [OReg (str "r"); OStr [0; 255; 34; 92; 10]%N];
      IInsn CALL [ORef (str "p"); ORef (str "f"); OReg (str "r"); OReg (str "x"); OInt 5; OMem ex_mem2; OReg (str "i")];
      IInsn PRSET [OReg (str "r"); OInt 3];
      IInsn SWITCH [OReg (str "i"); OLabel 7; OLabel 4294967295];
      IInsn BT [OLabel 7; OReg (str "r")];
      IInsn RET [OReg (str "r"); OReg (str "x")];
      ILabel 4294967295 ].

Definition ex_ctx : list module :=
  [ mkModule (str "m1")
      [ ItImport (str "ext"); ItForward (str "f"); ItExport (str "f");
        ItProto (str "p") true [TI64; TLD] [mkVar TI32 (str "a") 0; mkVar (TBLK 3) (str "s") 16];
        ItFunc ex_func;
        ItBss None 0; ItBss (Some (str "b")) 18446744073709551615;
        ItData (Some (str "d")) TI8 [-128; 127]; ItData None TU64 [18446744073709551615];
        ItData None TP [1]; ItData None TLD [2 ^ 79]; ItData (Some (str "s")) TU8 [104; 105; 0];
        ItRef (Some (str "r1")) (str "d") (-1); ItRef None (str "ext") 0;
        ItLref (Some (str "l1")) 7 (Some 4294967295) 8; ItLref None 7 None 0;
        ItExpr (Some (str "e")) (str "f") ];
    mkModule (str "empty") [] ].

Example ex_ctx_wf : wf_ctx_b ex_ctx = true.
Proof. vm_compute. reflexivity. Qed.

Example ex_ctx_roundtrip : read_ctx (write_ctx ex_ctx) = Ok (map norm_module ex_ctx).
Proof. vm_compute. reflexivity. Qed.

(* the read really normalises something: the scale of the index-less memory operand *)
Example ex_ctx_norm_differs : map norm_module ex_ctx <> ex_ctx.
Proof. vm_compute. intros H. inversion H. Qed.

(* ---------------------------------------------------------------- statements collected for Properties_C11 *)

Lemma bin_string_table_complete_full ts t e :
  In t ts -> entry_of t = Some e ->
  In e (collect ts) /\ nth_error (collect ts) (index_of e (collect ts)) = Some e.
Proof. intros H1 H2. split; [| apply index_of_nth]; exact (bin_string_table_complete_lemma ts t e H1 H2). Qed.

Lemma bin_module_roundtrip_lemma ms : wf_ctx ms ->
  read_ctx (write_ctx ms) = Ok (map norm_module ms)
  /\ write_ctx (map norm_module ms) = write_ctx ms
  /\ (forall fF fD fLD, p_ctx fF fD fLD (map norm_module ms) = p_ctx fF fD fLD ms)
  /\ map norm_module (map norm_module ms) = map norm_module ms.
Proof.
  intros H. split; [exact (read_write_ctx ms H)|]. split; [exact (write_ctx_norm ms)|].
  split; [intros; apply p_ctx_norm|]. rewrite map_map. apply map_ext. exact norm_module_idem.
Qed.

Lemma bin_write_function_lemma ms1 ms2 :
  map norm_module ms1 = map norm_module ms2 -> write_ctx ms1 = write_ctx ms2.
Proof. intros H. rewrite <- (write_ctx_norm ms1), <- (write_ctx_norm ms2), H. reflexivity. Qed.

Lemma bin_roundtrip_nonvacuous_lemma : wf_ctx ex_ctx /\ map norm_module ex_ctx <> ex_ctx.
Proof. split; [apply wf_ctx_b_spec; exact ex_ctx_wf | exact ex_ctx_norm_differs]. Qed.

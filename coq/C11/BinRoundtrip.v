(* The three layers composed: MIR_read_with_func (MIR_write_with_func m) in the model. *)
From Coq Require Import List ZArith NArith Bool String Lia.
From MirV Require Import Base.W64 Mir.Opcode C11.Tables C11.Ast C11.BinIO C11.BinIOProofs C11.BinGrammarProofs.
Import ListNotations.
Local Open Scope Z_scope.
Local Notation length := List.length.

Lemma enc_tok_nonempty b : (1 <= length (enc_tok b))%nat.
Proof.
  destruct b; cbn [enc_tok]; unfold enc_uint, enc_int, enc_idx; try (cbn; lia).
  - destruct (uint_length u); cbn; lia.
  - destruct (is_undef t); cbn; lia.
Qed.

Lemma flat_map_map {A B C} (f : A -> B) (g : B -> list C) l : flat_map g (map f l) = flat_map (fun x => g (f x)) l.
Proof. induction l as [|x l IH]; [reflexivity|]. cbn. now rewrite IH. Qed.

Lemma length_flat_map_enc bs : (length bs <= length (flat_map enc_tok bs))%nat.
Proof.
  induction bs as [|b bs IH]; [cbn; lia|]. cbn [flat_map length]. rewrite app_length.
  pose proof (enc_tok_nonempty b). lia.
Qed.

(* hypotheses of the round trip, about one context (list of modules):
   - grammar: references are declared, arities fit, data elements are in the range of their type
   - tokens: immediates are 64/32/80-bit values, names contain no NUL, label numbers fit 32 bits
   - size: fewer than 2^32 strings, each shorter than 2^64 bytes *)
Record wf_ctx (ms : list module) : Prop := mkWf {
  wf_grammar : Forall wf_module ms;
  wf_tokens : Forall wf_stok (w_ctx ms);
  wf_table : Z.of_nat (length (collect (w_ctx ms))) < 2 ^ 32;
  wf_entries : Forall wf_entry (collect (w_ctx ms)) }.

Lemma resolve_all_app tbl bs1 bs2 ts1 ts2 :
  resolve_all tbl bs1 = Some ts1 -> resolve_all tbl bs2 = Some ts2 -> resolve_all tbl (bs1 ++ bs2) = Some (ts1 ++ ts2).
Proof.
  revert ts1; induction bs1 as [|b bs1 IH]; intros ts1 H1 H2.
  - cbn in H1. inversion H1; subst. exact H2.
  - cbn [app resolve_all] in *. destruct (resolve_tok tbl b) as [t|]; [|discriminate].
    destruct (resolve_all tbl bs1) as [ts|] eqn:E; [|discriminate].
    inversion H1; subst. rewrite (IH ts eq_refl H2). reflexivity.
Qed.

Lemma read_write_ctx ms : wf_ctx ms -> read_ctx (write_ctx ms) = Ok (map norm_module ms).
Proof.
  intros [Hg Ht Hn He].
  unfold write_ctx, write_toks, read_ctx.
  set (ts := w_ctx ms) in *. set (tbl := collect ts) in *.
  rewrite <- ?app_assoc.
  unfold dec_uint at 1. rewrite dec_enc_uint by (unfold in_u64; cbn; lia).
  change (Z.of_N CURR_BIN_VERSION <? Z.of_N CURR_BIN_VERSION) with false. cbv iota.
  unfold dec_uint at 1. rewrite dec_enc_uint by (unfold in_u64; lia).
  rewrite Nat2Z.id, dec_strings_roundtrip by exact He.
  rewrite <- flat_map_map.
  set (bts := map (index_tok tbl) ts).
  assert (Hin : forall t e, In t ts -> entry_of t = Some e -> In e tbl).
  { intros t e H1 H2. apply (collect_from_complete [] ts t e H1 H2). }
  assert (Hwfb : Forall wf_btok bts).
  { apply Forall_forall. intros b Hb. apply in_map_iff in Hb. destruct Hb as [t [<- Hti]].
    apply wf_index_tok; [exact (proj1 (Forall_forall _ _) Ht t Hti) | intros e He'; exact (Hin t e Hti He') | exact Hn]. }
  assert (Hne : Forall not_eof bts).
  { apply Forall_forall. intros b Hb. apply in_map_iff in Hb. destruct Hb as [t [<- Hti]].
    pose proof (proj1 (Forall_forall _ _) Ht t Hti) as Hw. destruct t; cbn in *; try discriminate; contradiction. }
  replace (flat_map enc_tok bts ++ enc_tok BEOF) with (flat_map enc_tok bts ++ enc_tok BEOF ++ []) by now rewrite app_nil_r.
  rewrite dec_toks_roundtrip; [ | exact Hwfb | exact Hne | ].
  2:{ rewrite app_length. pose proof (length_flat_map_enc bts). lia. }
  rewrite (resolve_all_app tbl bts [BEOF] ts [SEOF]); [ | apply resolve_all_index; [exact Ht | exact Hin] | reflexivity ].
  apply r_ctx_w_ctx. exact Hg.
Qed.

(* ---------------------------------------------------------------- what a read changes is invisible to the writers *)

Lemma w_mem_norm m : w_mem (norm_mem m) = w_mem m.
Proof. destruct m as [t d b i sc a na]. unfold w_mem, norm_mem, mem_kind. cbn. destruct i; reflexivity. Qed.

Lemma w_op_norm o : w_op (norm_op o) = w_op o.
Proof. destruct o; try reflexivity. apply w_mem_norm. Qed.

Lemma flat_map_ext_map {A B} (f : A -> list B) (g : A -> A) l :
  (forall x, f (g x) = f x) -> flat_map f (map g l) = flat_map f l.
Proof. intros H. induction l as [|x l IH]; [reflexivity|]. cbn. now rewrite H, IH. Qed.

Lemma w_insn_norm i : w_insn (norm_insn i) = w_insn i.
Proof. destruct i as [l|c ops]; [reflexivity|]. cbn [norm_insn w_insn]. now rewrite (flat_map_ext_map w_op norm_op ops w_op_norm). Qed.

Lemma w_arg_norm v : w_arg (norm_var v) = w_arg v.
Proof. destruct v as [t n sz]. unfold w_arg, norm_var. cbn. destruct (all_blk_type_p t); reflexivity. Qed.

Lemma w_proto_tail_norm va res args : w_proto_tail va res (map norm_var args) = w_proto_tail va res args.
Proof. unfold w_proto_tail. now rewrite (flat_map_ext_map w_arg norm_var args w_arg_norm). Qed.

Lemma w_item_norm it : w_item (norm_item it) = w_item it.
Proof.
  destruct it as [x|x|x|x l|x t els|x r d|x l l2 d|x f|x va res args|f]; try reflexivity.
  - cbn [norm_item w_item]. now rewrite w_proto_tail_norm.
  - cbn [norm_item w_item]. unfold w_func, norm_func. cbn [f_name f_vararg f_res f_args f_locals f_globals f_insns].
    now rewrite w_proto_tail_norm, (flat_map_ext_map w_insn norm_insn (f_insns f) w_insn_norm).
Qed.

Lemma w_ctx_norm ms : w_ctx (map norm_module ms) = w_ctx ms.
Proof.
  unfold w_ctx. apply flat_map_ext_map. intros m. unfold w_module, norm_module. cbn [mod_name mod_items].
  now rewrite (flat_map_ext_map w_item norm_item (mod_items m) w_item_norm).
Qed.

Lemma write_ctx_norm ms : write_ctx (map norm_module ms) = write_ctx ms.
Proof. unfold write_ctx. now rewrite w_ctx_norm. Qed.

Lemma norm_module_idem m : norm_module (norm_module m) = norm_module m.
Proof.
  assert (Hv : forall v, norm_var (norm_var v) = norm_var v).
  { intros [t n sz]. unfold norm_var. cbn. destruct (all_blk_type_p t); reflexivity. }
  assert (Ho : forall o, norm_op (norm_op o) = norm_op o).
  { intros [ | | | | | |mm| | | ]; try reflexivity. destruct mm as [t d b i sc a na]. unfold norm_op, norm_mem. cbn. destruct i; reflexivity. }
  assert (Hi : forall i, norm_insn (norm_insn i) = norm_insn i).
  { intros [l|c ops]; [reflexivity|]. cbn. rewrite map_map. f_equal. apply map_ext. exact Ho. }
  destruct m as [n items]. unfold norm_module. cbn. f_equal. rewrite map_map. apply map_ext.
  intros [x|x|x|x l|x t els|x r d|x l l2 d|x f|x va res args|f]; try reflexivity.
  - cbn. f_equal. rewrite map_map. apply map_ext. exact Hv.
  - cbn. unfold norm_func. cbn. f_equal. f_equal; rewrite map_map; apply map_ext; assumption.
Qed.

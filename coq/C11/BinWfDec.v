(* A boolean checker for the hypotheses of the binary round trip theorem, sound w.r.t. [wf_ctx]:
   it is run by the correspondence driver on every generated module, so the evidence shows which
   share of the generated cases the theorem speaks about. *)
From Coq Require Import List ZArith NArith Bool String Lia.
From MirV Require Import Base.W64 Mir.Opcode C11.Tables C11.Ast C11.BinIO C11.BinIOProofs C11.BinGrammarProofs C11.BinRoundtrip.
Import ListNotations.
Local Open Scope Z_scope.
Local Notation length := List.length.

Definition in_rng (lo hi z : Z) : bool := (lo <=? z) && (z <? hi).
Lemma in_rng_spec lo hi z : in_rng lo hi z = true -> lo <= z < hi.
Proof. unfold in_rng. rewrite andb_true_iff, Z.leb_le, Z.ltb_lt. tauto. Qed.

Definition no_nul_b (s : bytes) : bool := forallb (fun c => negb (N.eqb c 0)) s.
Lemma no_nul_b_spec s : no_nul_b s = true -> no_nul s.
Proof.
  unfold no_nul_b, no_nul. rewrite forallb_forall, Forall_forall. intros H c Hc. specialize (H c Hc).
  destruct (N.eqb_spec c 0); [discriminate | assumption].
Qed.

Definition wf_mtype_b (t : mtype) : bool := match t with TBLK n => N.ltb n 5 | _ => true end.
Lemma wf_mtype_b_spec t : wf_mtype_b t = true -> wf_mtype t.
Proof. destruct t; cbn; try tauto. intros H. now apply N.ltb_lt. Qed.

Definition wf_stok_b (t : stok) : bool :=
  match t with
  | SU u => in_rng 0 (2 ^ 64) u
  | SI i => in_rng (- 2 ^ 63) (2 ^ 63) i
  | SF x => in_rng 0 (2 ^ 32) x
  | SD x => in_rng 0 (2 ^ 64) x
  | SLD x => in_rng 0 (2 ^ 80) x
  | SReg s | SName s => no_nul_b s
  | SStr _ => true
  | SLab n => in_rng 0 (2 ^ 32) n
  | SType t => wf_mtype_b t
  | SMem _ _ | SEOI => true
  | SEOF => false
  end.

Lemma wf_stok_b_spec t : wf_stok_b t = true -> wf_stok t.
Proof.
  destruct t; cbn [wf_stok_b wf_stok]; intros H; try exact I; try discriminate;
    try (apply in_rng_spec in H; unfold in_u64, in_s64, idx_ok; lia);
    try (now apply no_nul_b_spec); try (now apply wf_mtype_b_spec).
Qed.

Definition wf_optname_b (o : option name) : bool := match o with Some n => no_nul_b n | None => true end.
Definition wf_alias_b (o : option name) : bool :=
  match o with Some n => no_nul_b n && negb (match n with [] => true | _ => false end) | None => true end.

Definition wf_mem_b (m : mem) : bool :=
  wf_mtype_b (m_type m) && in_rng (- 2 ^ 63) (2 ^ 63) (m_disp m) && wf_optname_b (m_base m) && wf_optname_b (m_index m)
  && N.ltb (m_scale m) 256 && wf_alias_b (m_alias m) && wf_alias_b (m_nonalias m).

Lemma wf_alias_b_spec o : wf_alias_b o = true -> wf_alias o.
Proof.
  destruct o as [n|]; cbn; [|tauto]. rewrite andb_true_iff. intros [H1 H2]. split; [now apply no_nul_b_spec|].
  destruct n; [discriminate | congruence].
Qed.
Lemma wf_optname_b_spec o : wf_optname_b o = true -> wf_optname o.
Proof. destruct o; cbn; [apply no_nul_b_spec | tauto]. Qed.

Lemma wf_mem_b_spec m : wf_mem_b m = true -> wf_mem m.
Proof.
  unfold wf_mem_b, wf_mem. rewrite !andb_true_iff. intros [[[[[[H1 H2] H3] H4] H5] H6] H7].
  repeat split; try (now apply wf_mtype_b_spec); try (apply in_rng_spec in H2; unfold in_s64; lia);
    try (now apply wf_optname_b_spec); try (now apply wf_alias_b_spec); try (now apply N.ltb_lt).
  all: apply in_rng_spec in H2; lia.
Qed.

Definition wf_op_b (decl : name -> bool) (o : operand) : bool :=
  match o with
  | OReg r => no_nul_b r
  | OInt i => in_rng (- 2 ^ 63) (2 ^ 63) i
  | OUint u => in_rng 0 (2 ^ 64) u
  | OFloat b => in_rng 0 (2 ^ 32) b
  | ODouble b => in_rng 0 (2 ^ 64) b
  | OLdouble b => in_rng 0 (2 ^ 80) b
  | OMem m => wf_mem_b m
  | ORef n => no_nul_b n && decl n
  | OStr _ => true
  | OLabel l => in_rng 0 (2 ^ 32) l
  end.

Lemma wf_op_b_spec decl o : wf_op_b decl o = true -> wf_op decl o.
Proof.
  destruct o; cbn [wf_op_b wf_op]; intros H; try exact I;
    try (apply in_rng_spec in H; unfold in_u64, in_s64, idx_ok; lia);
    try (now apply no_nul_b_spec); try (now apply wf_mem_b_spec).
  apply andb_true_iff in H. destruct H. split; [now apply no_nul_b_spec | assumption].
Qed.

Definition wf_insn_b (decl : name -> bool) (i : insn) : bool :=
  match i with
  | ILabel l => in_rng 0 (2 ^ 32) l
  | IInsn c ops => readable_code c && forallb (wf_op_b decl) ops && (var_arity c || Nat.eqb (length ops) (insn_nops c))
  end.

Lemma wf_insn_b_spec decl i : wf_insn_b decl i = true -> wf_insn decl i.
Proof.
  destruct i as [l|c ops]; cbn [wf_insn_b wf_insn]; intros H.
  - apply in_rng_spec in H. unfold idx_ok. lia.
  - rewrite !andb_true_iff in H. destruct H as [[H1 H2] H3]. split; [assumption|]. split.
    + apply Forall_forall. intros o Ho. apply wf_op_b_spec. exact (proj1 (forallb_forall _ _) H2 o Ho).
    + intros Hv. rewrite Hv in H3. cbn in H3. now apply Nat.eqb_eq.
Qed.

Definition el_ok_b (t : mtype) (z : Z) : bool :=
  match t with
  | TI8 => in_rng (- 2 ^ 7) (2 ^ 7) z | TI16 => in_rng (- 2 ^ 15) (2 ^ 15) z
  | TI32 => in_rng (- 2 ^ 31) (2 ^ 31) z | TI64 => in_rng (- 2 ^ 63) (2 ^ 63) z
  | TU8 => in_rng 0 (2 ^ 8) z | TU16 => in_rng 0 (2 ^ 16) z | TU32 => in_rng 0 (2 ^ 32) z
  | TU64 | TP => in_rng 0 (2 ^ 64) z
  | TF | TD | TLD => true
  | TBLK _ | TRBLK | TUNDEF => false
  end.

Lemma el_ok_b_spec t z : el_ok_b t z = true -> el_ok t z.
Proof.
  destruct t; cbn [el_ok_b el_ok]; intros H; try exact I; try discriminate;
    apply in_rng_spec in H; unfold in_s, in_u; cbn; lia.
Qed.

Definition types_ok_b (ts : list mtype) : bool := forallb (fun t => negb (is_undef t)) ts.
Lemma types_ok_b_spec ts : types_ok_b ts = true -> types_ok ts.
Proof.
  unfold types_ok_b, types_ok. rewrite forallb_forall, Forall_forall. intros H t Ht. specialize (H t Ht).
  now destruct (is_undef t).
Qed.

Definition wf_item_b (acc : list item) (it : item) : bool :=
  match it with
  | ItRef _ r _ => declared (st_mod [] [] acc) r
  | ItExpr _ f => declared_func (st_mod [] [] acc) f
  | ItLref _ l l2 _ => (0 <=? l) && match l2 with Some v => 0 <=? v | None => true end
  | ItData _ t els => negb (is_undef t) && forallb (el_ok_b t) els
  | ItProto _ _ res args => types_ok_b res && types_ok_b (map v_type args)
  | ItFunc f => forallb (wf_insn_b (decl_of acc (f_name f))) (f_insns f)
                && types_ok_b (f_res f) && types_ok_b (map v_type (f_args f)) && types_ok_b (map fst (f_locals f))
                && types_ok_b (map (fun v : mtype * name * name => fst (fst v)) (f_globals f))
  | _ => true
  end.

Lemma wf_item_b_spec acc it : wf_item_b acc it = true -> wf_item acc it.
Proof.
  destruct it as [x|x|x|x l|x t els|x r d|x l l2 d|x f|x va res args|f]; cbn [wf_item_b wf_item]; intros H; try exact I; try assumption.
  - apply andb_true_iff in H. destruct H as [Hu H]. split; [now destruct (is_undef t)|].
    apply Forall_forall. intros z Hz. apply el_ok_b_spec. exact (proj1 (forallb_forall _ _) H z Hz).
  - apply andb_true_iff in H. destruct H as [H1 H2]. split; [now apply Z.leb_le|]. destruct l2; [now apply Z.leb_le | exact I].
  - apply andb_true_iff in H. destruct H. split; now apply types_ok_b_spec.
  - rewrite !andb_true_iff in H. destruct H as [[[[H1 H2] H3] H4] H5]. unfold wf_func_body.
    split; [|repeat split; now apply types_ok_b_spec].
    apply Forall_forall. intros i Hi. apply wf_insn_b_spec. exact (proj1 (forallb_forall _ _) H1 i Hi).
Qed.

Fixpoint wf_items_b (acc : list item) (its : list item) : bool :=
  match its with
  | [] => true
  | it :: r => wf_item_b acc it && wf_items_b (norm_item it :: acc) r
  end.

Lemma wf_items_b_spec its : forall acc, wf_items_b acc its = true -> wf_items acc its.
Proof.
  induction its as [|it its IH]; intros acc H; [exact I|].
  cbn [wf_items_b wf_items] in *. apply andb_true_iff in H. destruct H. split; [now apply wf_item_b_spec | now apply IH].
Qed.

Definition wf_ctx_b (ms : list module) : bool :=
  forallb (fun m => wf_items_b [] (mod_items m)) ms
  && forallb wf_stok_b (w_ctx ms)
  && (Z.of_nat (length (collect (w_ctx ms))) <? 2 ^ 32)
  && forallb (fun e => Z.of_nat (length e) <? 2 ^ 64) (collect (w_ctx ms)).

Lemma wf_ctx_b_spec ms : wf_ctx_b ms = true -> wf_ctx ms.
Proof.
  unfold wf_ctx_b. rewrite !andb_true_iff. intros [[[H1 H2] H3] H4]. constructor.
  - apply Forall_forall. intros m Hm. apply wf_items_b_spec. exact (proj1 (forallb_forall _ _) H1 m Hm).
  - apply Forall_forall. intros t Ht. apply wf_stok_b_spec. exact (proj1 (forallb_forall _ _) H2 t Ht).
  - now apply Z.ltb_lt.
  - apply Forall_forall. intros e He. unfold wf_entry. apply Z.ltb_lt. exact (proj1 (forallb_forall _ _) H4 e He).
Qed.

Theorem read_write_ctx_b ms : wf_ctx_b ms = true -> read_ctx (write_ctx ms) = Ok (map norm_module ms).
Proof. intros H. apply read_write_ctx. now apply wf_ctx_b_spec. Qed.

(* Common module AST for the two MIR serialisations (C10 text, C11 binary).  Definitions only.
   Bytes and characters are [N] (< 256); a [name] is a C string without its terminating NUL;
   immediates are bit patterns / two's complement values as [Z]. *)
From Coq Require Import List ZArith NArith Bool String Ascii.
From MirV Require Import Mir.Opcode.
Import ListNotations.

Definition bytes := list N.
Definition name := bytes.

Fixpoint str (s : string) : bytes :=
  match s with
  | EmptyString => []
  | String a r => N_of_ascii a :: str r
  end.

Fixpoint bytes_eqb (a b : bytes) : bool :=
  match a, b with
  | [], [] => true
  | x :: a', y :: b' => N.eqb x y && bytes_eqb a' b'
  | _, _ => false
  end.

(* MIR_type_t: I8..U64, F, D, LD, P, BLK+n (n < MIR_BLK_NUM), RBLK, UNDEF (only as the type of a
   va_list memory operand) *)
Inductive mtype : Set :=
| TI8 | TU8 | TI16 | TU16 | TI32 | TU32 | TI64 | TU64 | TF | TD | TLD | TP
| TBLK (n : N) | TRBLK | TUNDEF.

Definition mtype_num (t : mtype) : N :=
  match t with
  | TI8 => 0 | TU8 => 1 | TI16 => 2 | TU16 => 3 | TI32 => 4 | TU32 => 5 | TI64 => 6 | TU64 => 7
  | TF => 8 | TD => 9 | TLD => 10 | TP => 11 | TBLK n => 12 + n | TRBLK => 17 | TUNDEF => 18
  end%N.

Definition mtype_of_num (k : N) : option mtype :=
  match k with
  | 0 => Some TI8 | 1 => Some TU8 | 2 => Some TI16 | 3 => Some TU16 | 4 => Some TI32 | 5 => Some TU32
  | 6 => Some TI64 | 7 => Some TU64 | 8 => Some TF | 9 => Some TD | 10 => Some TLD | 11 => Some TP
  | 12 => Some (TBLK 0) | 13 => Some (TBLK 1) | 14 => Some (TBLK 2) | 15 => Some (TBLK 3)
  | 16 => Some (TBLK 4) | 17 => Some TRBLK | 18 => Some TUNDEF
  | _ => None
  end%N.

Definition all_blk_type_p (t : mtype) : bool :=
  match t with TBLK _ | TRBLK => true | _ => false end.

Definition mtype_eqb (a b : mtype) : bool := N.eqb (mtype_num a) (mtype_num b).
Definition is_undef (t : mtype) : bool := match t with TUNDEF => true | _ => false end.

(* memory operand; base/index by register name, alias/nonalias by alias name ([None] = 0) *)
Record mem : Set := mkMem {
  m_type : mtype; m_disp : Z; m_base : option name; m_index : option name; m_scale : N;
  m_alias : option name; m_nonalias : option name }.

Inductive operand : Set :=
| OReg (r : name)
| OInt (i : Z)            (* int64 value *)
| OUint (u : Z)           (* uint64 value *)
| OFloat (bits : Z)       (* binary32 pattern *)
| ODouble (bits : Z)      (* binary64 pattern *)
| OLdouble (bits : Z)     (* x87 80-bit pattern *)
| OMem (m : mem)
| ORef (item : name)
| OStr (s : bytes)
| OLabel (l : Z).         (* label number *)

Inductive insn : Set :=
| ILabel (l : Z)
| IInsn (code : opcode) (ops : list operand).

Record var : Set := mkVar { v_type : mtype; v_name : name; v_size : Z }.  (* size: block args only *)

Record func : Set := mkFunc {
  f_name : name; f_vararg : bool; f_res : list mtype; f_args : list var;
  f_locals : list (mtype * name);
  f_globals : list (mtype * name * name);     (* type, name, hard register name *)
  f_insns : list insn }.

(* data elements: integer types carry the element's value (signed for I*, unsigned for U* and P),
   F/D/LD the bit pattern *)
Inductive item : Set :=
| ItImport (n : name) | ItExport (n : name) | ItForward (n : name)
| ItBss (n : option name) (len : Z)
| ItData (n : option name) (t : mtype) (els : list Z)
| ItRef (n : option name) (ref : name) (disp : Z)
| ItLref (n : option name) (l : Z) (l2 : option Z) (disp : Z)
| ItExpr (n : option name) (f : name)
| ItProto (n : name) (vararg : bool) (res : list mtype) (args : list var)
| ItFunc (f : func).

Record module : Set := mkModule { mod_name : name; mod_items : list item }.

Definition item_name (it : item) : option name :=
  match it with
  | ItImport n | ItExport n | ItForward n => Some n
  | ItBss n _ | ItData n _ _ | ItRef n _ _ | ItLref n _ _ _ | ItExpr n _ => n
  | ItProto n _ _ _ => Some n
  | ItFunc f => Some (f_name f)
  end.

Definition is_some {A} (o : option A) : bool := match o with Some _ => true | None => false end.

(* result of a reader *)
Inductive res (A : Type) : Type := Ok (a : A) | Err (why : string).
Arguments Ok {A} a.
Arguments Err {A} why.

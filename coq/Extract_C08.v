From Coq Require Import Extraction ExtrOcamlBasic List ZArith.
From MirV Require Import C08.CLayout C08.SysVLayout C08.CClassify C08.SysVClassify C08.LayoutProofs C08.ClassifyProofs C08.TotalProofs C08.SpanClassify C08.SigProofs.
(* ret_pieces: round 3 *)
Extraction Language OCaml.
Extraction "c08x.ml" c2m_layout type_size sysv_layout Z.add Z.mul Z.opp Z.of_nat
  wf_ty classify_arg process_ret_type pass_aggregate_arg sysv_classify sysv_pass_arg sysv_return
  c2m_signature sv_signature blk_of_places c2m_bf_signed sv_bf_signed no_pad no_straddle classify_arg_head ret_pieces
  c2m_csignature sv_csignature c2m_counters sv_counters.

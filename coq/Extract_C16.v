From Coq Require Import Extraction ExtrOcamlBasic List ZArith.
From MirV Require Import C16.GenProtocol.
Extraction Language OCaml.
Extraction "c16x.ml" dup mutate restore apply_edit gen view refs_closed.

(* C05/C06 -- the x86-64 System V psABI parameter-passing algorithm, for MIR prototypes.
   SPECIFICATION side: written from the psABI text (section 3.2.3 "Parameter Passing": classify each
   argument into eightbyte classes; an argument goes to registers only if *all* of its eightbytes
   find a register, otherwise the whole argument goes to memory; memory arguments are laid out in
   order on the stack, each at its alignment) and from MIR's documented meaning of its argument
   types on this target (mir-x86_64.c:7-13):
     integer types, p, rblk  -> INTEGER (rblk = address of the return block, passed as a pointer)
     f, d                    -> SSE
     ld                      -> X87/X87UP: always memory, 16 bytes, 16-byte aligned
     blk  (BLK+0)            -> MEMORY aggregate (alignment <= 8: MIR has no alignment attribute)
     blk1 (BLK+1)            -> aggregate of class INTEGER[,INTEGER]
     blk2 (BLK+2)            -> aggregate of class SSE[,SSE]
     blk3 (BLK+3)            -> aggregate of class INTEGER,SSE
     blk4 (BLK+4)            -> aggregate of class SSE,INTEGER
   Definitions only; proofs are in AbiProofs.v. *)
From Coq Require Import List ZArith Bool.
From MirV Require Import Base.W64.
Import ListNotations.
Local Open Scope Z_scope.

Inductive ity := I8 | U8 | I16 | U16 | I32 | U32 | I64 | U64 | Pt.
Inductive aty :=
| AInt (t : ity) | AF | AD | ALD
| ABlk (k : nat) (size : Z)      (* MIR_T_BLK + k, k = 0..4, byte size *)
| ARblk (size : Z).
Inductive rty := RInt (t : ity) | RF | RD | RLD.

(* where one eightbyte of an argument lives, as seen at the call instruction:
   GPR n = n-th integer argument register (rdi rsi rdx rcx r8 r9), SSE n = xmm<n>,
   Stk off = the eight bytes at rsp+off in the caller just before the call instruction
   (= rsp+8+off at callee entry = 16+off(%rbp) after push rbp; mov rbp,rsp). *)
Inductive loc := GPR (n : Z) | SSE (n : Z) | Stk (off : Z).

Definition qwords (s : Z) : Z := (s + 7) / 8.
Definition align_up (x a : Z) : Z := (x + a - 1) / a * a.

Inductive cls := CInt | CSse.

(* classes of the eightbytes of an argument; None = class MEMORY *)
Definition classes (a : aty) : option (list cls) :=
  match a with
  | AInt _ | ARblk _ => Some [CInt]
  | AF | AD => Some [CSse]
  | ALD => None
  | ABlk 1 s => Some (if s <=? 8 then [CInt] else [CInt; CInt])
  | ABlk 2 s => Some (if s <=? 8 then [CSse] else [CSse; CSse])
  | ABlk 3 _ => Some [CInt; CSse]
  | ABlk 4 _ => Some [CSse; CInt]
  | ABlk _ _ => None
  end.

(* size in eightbytes and alignment of the argument when it is passed in memory *)
Definition mem_words (a : aty) : Z :=
  match a with ALD => 2 | ABlk _ s => qwords s | _ => 1 end.
Definition mem_align (a : aty) : Z := match a with ALD => 16 | _ => 8 end.

Fixpoint n_int (cs : list cls) : Z :=
  match cs with [] => 0 | CInt :: r => 1 + n_int r | CSse :: r => n_int r end.
Fixpoint n_sse (cs : list cls) : Z :=
  match cs with [] => 0 | CSse :: r => 1 + n_sse r | CInt :: r => n_sse r end.

Fixpoint assign_regs (cs : list cls) (ni nx : Z) : list loc :=
  match cs with
  | [] => []
  | CInt :: r => GPR ni :: assign_regs r (ni + 1) nx
  | CSse :: r => SSE nx :: assign_regs r ni (nx + 1)
  end.

Fixpoint stack_words (off : Z) (n : nat) : list loc :=
  match n with O => [] | S n' => Stk off :: stack_words (off + 8) n' end.

(* allocation state: integer registers used, vector registers used, bytes of stack used *)
Record astate := { ni : Z; nx : Z; so : Z }.
Definition astate0 := {| ni := 0; nx := 0; so := 0 |}.

Definition max_gpr := 6.
Definition max_sse := 8.

Definition assign_mem (st : astate) (a : aty) : list loc * astate :=
  let o := align_up (so st) (mem_align a) in
  (stack_words o (Z.to_nat (mem_words a)),
   {| ni := ni st; nx := nx st; so := o + 8 * mem_words a |}).

Definition assign1 (st : astate) (a : aty) : list loc * astate :=
  match classes a with
  | Some cs =>
      if (ni st + n_int cs <=? max_gpr) && (nx st + n_sse cs <=? max_sse)
      then (assign_regs cs (ni st) (nx st),
            {| ni := ni st + n_int cs; nx := nx st + n_sse cs; so := so st |})
      else assign_mem st a
  | None => assign_mem st a
  end.

Fixpoint assign_from (st : astate) (args : list aty) : list (list loc) * astate :=
  match args with
  | [] => ([], st)
  | a :: r => let '(l, st1) := assign1 st a in
              let '(ls, st2) := assign_from st1 r in (l :: ls, st2)
  end.

Definition assign (args : list aty) : list (list loc) * astate := assign_from astate0 args.

(* the stack argument area the caller must reserve: a multiple of 16 so that the stack stays
   16-byte aligned at the call *)
Definition stack_area (args : list aty) : Z := align_up (so (snd (assign args))) 16.

(* %al for a variadic call: an upper bound (at most 8) on the number of vector registers used *)
Definition al_ok (args : list aty) (al : Z) : bool :=
  (nx (snd (assign args)) <=? al) && (al <=? 8).

(* which argument lists the model speaks about (what MIR itself accepts / asserts):
   block sizes positive, blk1/blk2 at most 16 bytes, blk3/blk4 9..16 bytes, case number 0..4 *)
Definition wf_arg (a : aty) : bool :=
  match a with
  | ABlk 0 s => 0 <=? s
  | ABlk 1 s | ABlk 2 s => (1 <=? s) && (s <=? 16)
  | ABlk 3 s | ABlk 4 s => (9 <=? s) && (s <=? 16)
  | ABlk _ _ => false
  | _ => true
  end.
Definition wf_args (args : list aty) : bool := forallb wf_arg args.

(* ---------------------------------------------------------------- results *)
(* MIR's multiple results on x86-64 (MIR.md "MIR function"): up to two integer values in rax, rdx,
   up to two float/double values in xmm0, xmm1, up to two long doubles in st0, st1 -- i.e. exactly
   how the psABI returns the small aggregates {INTEGER,INTEGER}, {SSE,SSE}, {INTEGER,SSE},
   {SSE,INTEGER} and complex long double {X87,X87}: the k-th value of a class takes the k-th
   return register of that class. *)
Inductive rloc := RAX | RDX | XMM0 | XMM1 | ST0 | ST1.
Inductive rcls := KInt | KSse | KX87.
Definition rclass (r : rty) : rcls :=
  match r with RInt _ => KInt | RF | RD => KSse | RLD => KX87 end.
Definition rcls_eqb (a b : rcls) : bool :=
  match a, b with KInt, KInt | KSse, KSse | KX87, KX87 => true | _, _ => false end.
Definition nth_ret_reg (c : rcls) (k : nat) : option rloc :=
  match c, k with
  | KInt, O => Some RAX | KInt, S O => Some RDX
  | KSse, O => Some XMM0 | KSse, S O => Some XMM1
  | KX87, O => Some ST0 | KX87, S O => Some ST1
  | _, _ => None
  end.
(* result i goes to the k-th register of its class, k = number of earlier results of that class *)
Fixpoint result_locs_from (prev : list rty) (rs : list rty) : option (list rloc) :=
  match rs with
  | [] => Some []
  | r :: rest =>
      match nth_ret_reg (rclass r) (length (filter (fun p => rcls_eqb (rclass p) (rclass r)) prev)),
            result_locs_from (prev ++ [r]) rest with
      | Some l, Some ls => Some (l :: ls)
      | _, _ => None
      end
  end.
Definition result_locs (rs : list rty) : option (list rloc) := result_locs_from [] rs.

(* psABI 3.2.3 "Returning of Values": a MEMORY-class value is returned through a caller-provided
   block whose address is the hidden first argument, and "on return %rax will contain the address
   that has been passed in by the caller in %rdi".  MIR spells the hidden argument as a first
   parameter of type rblk; rax is free for it when no integer-class result takes it. *)
Definition sret_required (args : list aty) (rs : list rty) : bool :=
  match args with
  | ARblk _ :: _ => negb (existsb (fun r => rcls_eqb (rclass r) KInt) rs)
  | _ => false
  end.

(* ---------------------------------------------------------------- values *)
(* what the callee must find for an integer argument of type t whose MIR value is the 64-bit
   pattern v: the value converted to the prototype type and extended (MIR extends to 64 bits;
   the psABI + de-facto rule only make the low 32 bits observable for narrow types) *)
Definition narrow (t : ity) (v : Z) : Z :=
  match t with
  | I8 => u64 (s8 v) | U8 => u8 v | I16 => u64 (s16 v) | U16 => u16 v
  | I32 => u64 (s32 v) | U32 => u32 v | I64 | U64 | Pt => u64 v
  end.
(* how many low bytes of each eightbyte the ABI makes observable to the callee *)
Definition obs_bytes (t : ity) : Z :=
  match t with I8 | U8 | I16 | U16 | I32 | U32 => 4 | _ => 8 end.

(* MIR extends an integer *result* of type t coming back in a 64-bit register to 64 bits *)
Definition widen_result (t : ity) (v : Z) : Z := narrow t v.

(* the words the callee must see for an argument, given the words MIR holds for it *)
Definition arg_words (a : aty) (ws : list Z) : list Z :=
  match a, ws with
  | AInt t, [v] => [narrow t v]
  | _, _ => ws
  end.

(* observable bytes of each eightbyte of an argument *)
Fixpoint blk_obs (s : Z) (n : nat) : list Z :=
  match n with O => [] | S n' => (if s <? 8 then s else 8) :: blk_obs (s - 8) n' end.
Definition arg_obs (a : aty) : list Z :=
  match a with
  | AInt t => [obs_bytes t] | AF => [4] | AD => [8] | ALD => [8; 2] | ARblk _ => [8]
  | ABlk _ s => blk_obs s (Z.to_nat (qwords s))
  end.

(* the register/stack image of a call: which eightbyte location holds which word *)
Definition image (locs : list (list loc)) (vals : list (list Z)) : list (loc * Z) :=
  combine (concat locs) (concat vals).

Definition loc_eqb (a b : loc) : bool :=
  match a, b with
  | GPR x, GPR y | SSE x, SSE y | Stk x, Stk y => x =? y
  | _, _ => false
  end.
Fixpoint lookup (img : list (loc * Z)) (l : loc) : option Z :=
  match img with
  | [] => None
  | (l', v) :: r => if loc_eqb l' l then Some v else lookup r l
  end.
(* the callee reads argument i by reading the locations the algorithm assigns to it *)
Definition read_args (locs : list (list loc)) (img : list (loc * Z)) : list (list (option Z)) :=
  map (map (lookup img)) locs.

(* C05/C06 -- proofs about the conversion tables regenerated from the checked tree
   (gen/C05Abi.v): every integer type is narrowed / widened exactly as SysV.narrow prescribes, the
   conversions look only at the low bits of the type, the argument register tables are the psABI's. *)
From Coq Require Import List ZArith Bool Lia.
From MirV Require Import Base.W64 C05.SysV C05.Conv gen.C05Abi.
Import ListNotations.
Local Open Scope Z_scope.

(* --- generated code: get_ext_code is applied to every integer argument before it is moved to its
   location and to every integer result after it is taken from its register *)
Lemma gen_ext_is_narrow t v : ext_sem (gen_ext_code t) v = Some (narrow t v).
Proof. destruct t; reflexivity. Qed.

(* --- interpreter: call() narrows each fixed argument with a C cast and widens each result *)
Lemma interp_res_is_widen t v : cast_sem (interp_call_res t) v = Some (widen_result t v).
Proof. destruct t; reflexivity. Qed.

(* --- MIR functions as callees: simplify_func prepends an extension of every narrow parameter,
   make_one_ret extends every narrow result *)
Lemma mir_arg_ext_is_narrow t v : ext_sem (mir_arg_ext t) v = Some (narrow t v).
Proof. destruct t; reflexivity. Qed.

(* --- low bits *)
Lemma mod_pow_le n m v : 0 <= n <= m -> (v mod 2 ^ m) mod 2 ^ n = v mod 2 ^ n.
Proof.
  intros H. assert (E : 2 ^ m = 2 ^ (m - n) * 2 ^ n).
  { rewrite <- Z.pow_add_r by lia. f_equal; lia. }
  assert (P : 2 ^ n <> 0) by (apply Z.pow_nonzero; lia).
  rewrite (Z.mod_eq v (2 ^ m)) by (apply Z.pow_nonzero; lia).
  rewrite E at 1. replace (v - 2 ^ (m - n) * 2 ^ n * (v / 2 ^ m)) with (v + (- (2 ^ (m - n) * (v / 2 ^ m))) * 2 ^ n) by ring.
  apply Z.mod_add; exact P.
Qed.

Lemma swrap_mod_le n m v : 0 <= n <= m -> 0 < m -> (swrap m v) mod 2 ^ n = v mod 2 ^ n.
Proof.
  intros H Hm. unfold swrap. cbv zeta.
  destruct (v mod 2 ^ m <? 2 ^ (m - 1)).
  - apply mod_pow_le; exact H.
  - assert (E : 2 ^ m = 2 ^ (m - n) * 2 ^ n).
    { rewrite <- Z.pow_add_r by lia. f_equal; lia. }
    rewrite E at 2. replace (v mod 2 ^ m - 2 ^ (m - n) * 2 ^ n) with (v mod 2 ^ m + (- 2 ^ (m - n)) * 2 ^ n) by ring.
    rewrite Z.mod_add by (apply Z.pow_nonzero; lia). apply mod_pow_le; exact H.
Qed.

(* narrow only looks at the low ity_bits t bits of its argument: whatever the other side leaves
   above the width of the type never reaches MIR code *)
Lemma narrow_low_bits t v w : v mod 2 ^ ity_bits t = w mod 2 ^ ity_bits t -> narrow t v = narrow t w.
Proof.
  destruct t; cbn [ity_bits narrow]; unfold s8, s16, s32, u8, u16, u32, u64, swrap, uwrap; intros H; rewrite H; reflexivity.
Qed.

Lemma narrow_mod t v : (narrow t v) mod 2 ^ ity_bits t = v mod 2 ^ ity_bits t.
Proof.
  destruct t; cbn [ity_bits narrow]; unfold s8, s16, s32, u8, u16, u32, u64, uwrap.
  all: try (rewrite mod_pow_le by lia; apply swrap_mod_le; lia).
  all: apply Z.mod_mod; apply Z.pow_nonzero; lia.
Qed.

Lemma narrow_idem t v : narrow t (narrow t v) = narrow t v.
Proof. apply narrow_low_bits. apply narrow_mod. Qed.

(* ---- statements that ask exactly what the ABI asks (robust against harmless rewrites of the
   conversions): low-bit equalities *)
Definition low_eq (n a b : Z) : Prop := a mod 2 ^ n = b mod 2 ^ n.

Ltac lowbits :=
  unfold low_eq, narrow, widen_result, u8, u16, u32, u64, s8, s16, s32, uwrap; cbn [ity_bits obs_bytes Z.mul];
  repeat (first [rewrite mod_pow_le by lia | rewrite swrap_mod_le by lia]); try reflexivity.

(* what a native callee can observe of an integer argument (obs_bytes: 4 bytes for the narrow types,
   8 otherwise) is the value converted to the prototype type *)
Lemma args_observable t v : exists w w',
  ext_sem (gen_ext_code t) v = Some w /\ cast_sem (interp_call_arg t) v = Some w'
  /\ low_eq (8 * obs_bytes t) w (narrow t v) /\ low_eq (8 * obs_bytes t) w' (narrow t v).
Proof. destruct t; eexists; eexists; (split; [reflexivity|]); (split; [reflexivity|]); split; lowbits. Qed.

(* a MIR function sees each integer parameter converted to its declared type: in generated code after
   the extension simplify_func prepends, in the interpreter after interp()'s va_arg/cast followed by
   that same extension (executed by the interpreter as the first instructions of the function) *)
Lemma params_converted t v :
  ext_sem (mir_arg_ext t) v = Some (narrow t v)
  /\ exists w, entry_sem (interp_entry t) v = Some w /\ ext_sem (mir_arg_ext t) w = Some (narrow t v).
Proof.
  split; [exact (mir_arg_ext_is_narrow t v)|].
  destruct t; eexists; (split; [reflexivity|]); rewrite mir_arg_ext_is_narrow; f_equal; apply narrow_low_bits; lowbits.
Qed.

(* the value a MIR function returns in a register has, in the bits of the result type, the bits the
   function computed (the psABI leaves the upper bits to the callee's discretion) *)
Lemma callee_result_low_bits t v : exists w, ext_sem (mir_ret_ext t) v = Some w /\ low_eq (ity_bits t) w v.
Proof. destruct t; eexists; (split; [reflexivity|]); lowbits. Qed.

(* --- multiple results: each integer result is converted on its own, the others pass through *)
Lemma received_ok conv : (forall t v, conv t v = Some (widen_result t v)) ->
  forall rs raw, received conv rs raw = expected_results rs raw.
Proof.
  intros H rs. induction rs as [|r rs IH]; intros [|v raw]; cbn [received expected_results]; try reflexivity.
  rewrite IH. destruct r; try reflexivity. rewrite H. reflexivity.
Qed.

Lemma received_length conv rs raw : length raw = length rs -> length (received conv rs raw) = length rs.
Proof.
  revert raw. induction rs as [|r rs IH]; intros [|v raw] H; cbn [received length] in *; try lia.
  rewrite IH by lia. reflexivity.
Qed.

(* --- argument registers *)
Lemma arg_regs_tables :
  gen_int_arg_regs = sysv_int_arg_regs /\ gen_fp_arg_regs = sysv_fp_arg_regs
  /\ ff_iregs = sysv_int_arg_regs /\ ff_max_iregs = max_gpr /\ ff_max_xregs = max_sse
  /\ Z.of_nat (length sysv_int_arg_regs) = max_gpr /\ Z.of_nat (length sysv_fp_arg_regs) = max_sse
  /\ NoDup sysv_int_arg_regs /\ NoDup sysv_fp_arg_regs.
Proof.
  repeat split; try reflexivity.
  - unfold sysv_int_arg_regs. repeat (constructor; [cbn; intuition lia|]). constructor.
  - unfold sysv_fp_arg_regs. repeat (constructor; [cbn; intuition lia|]). constructor.
Qed.

(* C05/C06 -- IMPLEMENTATION side: line-by-line transcriptions of the three argument-assignment
   loops of /repo (non-_WIN32 branches), of their result-register loops and of the stack
   adjustment arithmetic.  Counters keep the C names.  Definitions only.

   (a) ff_*     : _MIR_get_ff_call            mir-x86_64.c      (interpreter -> native call)
   (b) mc_*     : machinize_call              mir-gen-x86_64.c  (generated code -> any call)
   (c) in_*     : target_machinize, arg loop  mir-gen-x86_64.c  (generated code, incoming args)
   (d) shim_*   : _MIR_get_interp_shim result loop; ret_* : target_machinize MIR_RET case.

   The main definitions follow the code WITH the fixes fixes/C05-1.patch (stray n_xregs
   increments in (a)), fixes/C05-2.patch (16-byte alignment of a stack-passed long double in
   (a),(b),(c)) and fixes/C05-3.patch (%al counts vector registers used by block arguments in (b)).
   The *_head variants transcribe the pinned commit before those fixes; AbiProofs.v refutes the
   equalities for them with the witnesses the check replays on the real code. *)
From Coq Require Import List ZArith Bool.
From MirV Require Import Base.W64 C05.SysV.
Import ListNotations.
Local Open Scope Z_scope.

Definition mk (i x s : Z) : astate := {| ni := i; nx := x; so := s |}.

(* ------------------------------------------------------------------ (a) _MIR_get_ff_call *)
(* state: ni = n_iregs, nx = n_xregs, so = sp_offset *)
Definition ff_arg (ld_align blk_xregs_bug : bool) (st : astate) (a : aty) : list loc * astate :=
  let n_iregs := ni st in let n_xregs := nx st in let sp_offset := so st in
  match a with
  | AInt _ | ARblk _ =>
      if n_iregs <? 6 then ([GPR n_iregs], mk (n_iregs + 1) n_xregs sp_offset)
      else ([Stk sp_offset], mk n_iregs n_xregs (sp_offset + 8))
  | AF | AD =>
      if n_xregs <? 8 then ([SSE n_xregs], mk n_iregs (n_xregs + 1) sp_offset)
      else ([Stk sp_offset], mk n_iregs n_xregs (sp_offset + 8))
  | ALD =>
      let sp_offset := if ld_align then (sp_offset + 15) / 16 * 16 else sp_offset in
      ([Stk sp_offset; Stk (sp_offset + 8)], mk n_iregs n_xregs (sp_offset + 16))
  | ABlk k size =>
      let qw := qwords size in
      if Nat.eqb k 1 && (n_iregs + qw <=? 6) then
        (GPR n_iregs :: (if qw =? 2 then [GPR (n_iregs + 1)] else []),
         mk (n_iregs + qw) (if blk_xregs_bug then n_xregs + qw else n_xregs) sp_offset)
      else if Nat.eqb k 2 && (n_xregs + qw <=? 8) then
        (SSE n_xregs :: (if qw =? 2 then [SSE (n_xregs + 1)] else []),
         mk n_iregs (n_xregs + qw) sp_offset)
      else if Nat.eqb k 3 && (n_iregs <? 6) && (n_xregs <? 8) then
        if blk_xregs_bug
        then ([GPR n_iregs; SSE (n_xregs + 1)], mk (n_iregs + 1) (n_xregs + 2) sp_offset)
        else ([GPR n_iregs; SSE n_xregs], mk (n_iregs + 1) (n_xregs + 1) sp_offset)
      else if Nat.eqb k 4 && (n_iregs <? 6) && (n_xregs <? 8) then
        ([SSE n_xregs; GPR n_iregs],
         mk (n_iregs + 1) (if blk_xregs_bug then n_xregs + 2 else n_xregs + 1) sp_offset)
      else (stack_words sp_offset (Z.to_nat qw), mk n_iregs n_xregs (sp_offset + qw * 8))
  end.

Fixpoint ff_args (f1 f2 : bool) (st : astate) (args : list aty) : list (list loc) * astate :=
  match args with
  | [] => ([], st)
  | a :: r => let '(l, st1) := ff_arg f1 f2 st a in
              let '(ls, st2) := ff_args f1 f2 st1 r in (l :: ls, st2)
  end.

Definition ff_assign (args : list aty) := ff_args true false astate0 args.
Definition ff_assign_head (args : list aty) := ff_args false true astate0 args.

(* "sp_offset = (sp_offset + 15) / 16 * 16; sp_offset += 8;" -- the immediate of
   "subq <sp_offset>, %rsp" after "pushq %r12; pushq %rbx" *)
Definition ff_sub_rsp (args : list aty) : Z := (so (snd (ff_assign args)) + 15) / 16 * 16 + 8.
(* rsp at the "callq *%r11", given rsp at entry of the trampoline *)
Definition ff_rsp_at_call (entry_rsp : Z) (args : list aty) : Z := entry_rsp - 16 - ff_sub_rsp args.
(* "mov $8, %rax" *)
Definition ff_al : Z := 8.

(* ------------------------------------------------------------------ (b) machinize_call *)
(* get_int_arg_reg (n) != MIR_NON_VAR  <->  n < 6 ; get_fp_arg_reg (n) != MIR_NON_VAR <-> n < 8.
   state: ni = int_arg_num, nx = fp_arg_num (both keep counting past the register files),
   so = arg_stack_size *)
Definition int_reg_p (n : Z) : bool := n <? 6.
Definition fp_reg_p (n : Z) : bool := n <? 8.

Definition mc_arg (ld_align : bool) (st : astate) (a : aty) : list loc * astate :=
  let int_arg_num := ni st in let fp_arg_num := nx st in let arg_stack_size := so st in
  let size := match a with ABlk _ s => (s + 7) / 8 * 8 | _ => 0 end in
  match a with
  | ABlk k _ =>
      if (Nat.eqb k 1 && int_reg_p int_arg_num && ((size <=? 8) || int_reg_p (int_arg_num + 1)))
      then (GPR int_arg_num :: (if 8 <? size then [GPR (int_arg_num + 1)] else []),
            mk (if 8 <? size then int_arg_num + 2 else int_arg_num + 1) fp_arg_num arg_stack_size)
      else if (Nat.eqb k 2 && fp_reg_p fp_arg_num && ((size <=? 8) || fp_reg_p (fp_arg_num + 1)))
      then (SSE fp_arg_num :: (if 8 <? size then [SSE (fp_arg_num + 1)] else []),
            mk int_arg_num (if 8 <? size then fp_arg_num + 2 else fp_arg_num + 1) arg_stack_size)
      else if (Nat.eqb k 3 || Nat.eqb k 4) && int_reg_p int_arg_num && fp_reg_p fp_arg_num
      then ((if Nat.eqb k 3 then [GPR int_arg_num; SSE fp_arg_num]
             else [SSE fp_arg_num; GPR int_arg_num]),
            mk (int_arg_num + 1) (fp_arg_num + 1) arg_stack_size)
      else (* block on the stack: up to two moves, or mir.arg_memcpy of size bytes *)
        (stack_words arg_stack_size (Z.to_nat (size / 8)), mk int_arg_num fp_arg_num (arg_stack_size + size))
  | ALD => (* get_arg_reg gives MIR_NON_VAR for LD without touching the counters *)
      let arg_stack_size := if ld_align then (arg_stack_size + 15) / 16 * 16 else arg_stack_size in
      ([Stk arg_stack_size; Stk (arg_stack_size + 8)], mk int_arg_num fp_arg_num (arg_stack_size + 16))
  | AF | AD =>
      if fp_reg_p fp_arg_num then ([SSE fp_arg_num], mk int_arg_num (fp_arg_num + 1) arg_stack_size)
      else ([Stk arg_stack_size], mk int_arg_num (fp_arg_num + 1) (arg_stack_size + 8))
  | AInt _ | ARblk _ =>
      if int_reg_p int_arg_num then ([GPR int_arg_num], mk (int_arg_num + 1) fp_arg_num arg_stack_size)
      else ([Stk arg_stack_size], mk (int_arg_num + 1) fp_arg_num (arg_stack_size + 8))
  end.

Fixpoint mc_args (f : bool) (st : astate) (args : list aty) : list (list loc) * astate :=
  match args with
  | [] => ([], st)
  | a :: r => let '(l, st1) := mc_arg f st a in
              let '(ls, st2) := mc_args f st1 r in (l :: ls, st2)
  end.

Definition mc_assign (args : list aty) := mc_args true astate0 args.
Definition mc_assign_head (args : list aty) := mc_args false astate0 args.

(* "if (arg_stack_size != 0) arg_stack_size = (arg_stack_size + 15) / 16 * 16; sub sp, ..." *)
Definition mc_sub_rsp (args : list aty) : Z :=
  let s := so (snd (mc_assign args)) in if s =? 0 then 0 else (s + 15) / 16 * 16.

(* %al, pinned commit: "if (xmm_args < 8 && (type == MIR_T_F || type == MIR_T_D)) xmm_args++" *)
Fixpoint mc_al_head_from (xmm_args : Z) (args : list aty) : Z :=
  match args with
  | [] => xmm_args
  | a :: r => mc_al_head_from (if (xmm_args <? 8) && (match a with AF | AD => true | _ => false end)
                               then xmm_args + 1 else xmm_args) r
  end.
Definition mc_al_head (args : list aty) : Z := mc_al_head_from 0 args.
(* %al with fixes/C05-3.patch: "xmm_args = fp_arg_num < 8 ? fp_arg_num : 8" after the loop *)
Definition mc_al (args : list aty) : Z :=
  let n := nx (snd (mc_assign args)) in if n <? 8 then n else 8.

(* ------------------------------------------------------------------ (c) target_machinize *)
(* incoming arguments of a generated function.  state: ni = int_arg_num, nx = fp_arg_num,
   so = mem_size; a stack parameter is read at mem_size + 8 + start_sp_from_bp_offset (%rbp),
   %rbp = entry rsp - 8, i.e. at entry_rsp + 8 + mem_size: Stk mem_size in the caller's terms *)
Definition in_arg (ld_align : bool) (st : astate) (a : aty) : list loc * astate :=
  let int_arg_num := ni st in let fp_arg_num := nx st in let mem_size := so st in
  let blk_size := match a with ABlk _ s => (s + 7) / 8 * 8 | _ => 0 end in
  match a with
  | ABlk k _ =>
      if (Nat.eqb k 1 && int_reg_p int_arg_num && ((blk_size <=? 8) || int_reg_p (int_arg_num + 1)))
      then (GPR int_arg_num :: (if 8 <? blk_size then [GPR (int_arg_num + 1)] else []),
            mk (if 8 <? blk_size then int_arg_num + 2 else int_arg_num + 1) fp_arg_num mem_size)
      else if (Nat.eqb k 2 && fp_reg_p fp_arg_num && ((blk_size <=? 8) || fp_reg_p (fp_arg_num + 1)))
      then (SSE fp_arg_num :: (if 8 <? blk_size then [SSE (fp_arg_num + 1)] else []),
            mk int_arg_num (if 8 <? blk_size then fp_arg_num + 2 else fp_arg_num + 1) mem_size)
      else if (Nat.eqb k 3 || Nat.eqb k 4) && int_reg_p int_arg_num && fp_reg_p fp_arg_num
      then ((if Nat.eqb k 3 then [GPR int_arg_num; SSE fp_arg_num]
             else [SSE fp_arg_num; GPR int_arg_num]),
            mk (int_arg_num + 1) (fp_arg_num + 1) mem_size)
      else (* the parameter variable becomes the address bp + 16 + mem_size of the block *)
        (stack_words mem_size (Z.to_nat (blk_size / 8)), mk int_arg_num fp_arg_num (mem_size + blk_size))
  | ALD =>
      let mem_size := if ld_align then (mem_size + 15) / 16 * 16 else mem_size in
      ([Stk mem_size; Stk (mem_size + 8)], mk int_arg_num fp_arg_num (mem_size + 16))
  | AF | AD =>
      if fp_reg_p fp_arg_num then ([SSE fp_arg_num], mk int_arg_num (fp_arg_num + 1) mem_size)
      else ([Stk mem_size], mk int_arg_num (fp_arg_num + 1) (mem_size + 8))
  | AInt _ | ARblk _ =>
      if int_reg_p int_arg_num then ([GPR int_arg_num], mk (int_arg_num + 1) fp_arg_num mem_size)
      else ([Stk mem_size], mk (int_arg_num + 1) fp_arg_num (mem_size + 8))
  end.

Fixpoint in_args (f : bool) (st : astate) (args : list aty) : list (list loc) * astate :=
  match args with
  | [] => ([], st)
  | a :: r => let '(l, st1) := in_arg f st a in
              let '(ls, st2) := in_args f st1 r in (l :: ls, st2)
  end.

Definition in_assign (args : list aty) := in_args true astate0 args.
Definition in_assign_head (args : list aty) := in_args false astate0 args.

(* ------------------------------------------------------------------ result registers *)
(* (b) machinize_call result loop, (c) MIR_RET case of target_machinize, (d) interp shim: the
   same if-chain "F/D && n_xregs < 2 -> xmm; LD && n_fregs < 2 -> st; n_iregs < 2 -> rax/rdx; error" *)
Fixpoint res_chain (n_iregs n_xregs n_fregs : nat) (rs : list rty) : option (list rloc) :=
  match rs with
  | [] => Some []
  | r :: rest =>
      match r with
      | RF | RD =>
          if Nat.ltb n_xregs 2 then
            option_map (cons (if Nat.eqb n_xregs 0 then XMM0 else XMM1)) (res_chain n_iregs (S n_xregs) n_fregs rest)
          else (* falls to the integer branch of the chain *)
          if Nat.ltb n_iregs 2 then
            option_map (cons (if Nat.eqb n_iregs 0 then RAX else RDX)) (res_chain (S n_iregs) n_xregs n_fregs rest)
          else None
      | RLD =>
          if Nat.ltb n_fregs 2 then
            option_map (cons (if Nat.eqb n_fregs 0 then ST0 else ST1)) (res_chain n_iregs n_xregs (S n_fregs) rest)
          else if Nat.ltb n_iregs 2 then
            option_map (cons (if Nat.eqb n_iregs 0 then RAX else RDX)) (res_chain (S n_iregs) n_xregs n_fregs rest)
          else None
      | RInt _ =>
          if Nat.ltb n_iregs 2 then
            option_map (cons (if Nat.eqb n_iregs 0 then RAX else RDX)) (res_chain (S n_iregs) n_xregs n_fregs rest)
          else None
      end
  end.
Definition mc_results (rs : list rty) := res_chain 0 0 0 rs.

(* (a) _MIR_get_ff_call result loop: typed tests, error otherwise; the LD case pops st0 with
   fstpt each time and never advances n_fregs, so the k-th LD result receives st(k) *)
Fixpoint ff_res_chain (n_iregs n_xregs n_ld : nat) (rs : list rty) : option (list rloc) :=
  match rs with
  | [] => Some []
  | r :: rest =>
      match r with
      | RInt _ =>
          if Nat.ltb n_iregs 2 then
            option_map (cons (if Nat.eqb n_iregs 0 then RAX else RDX)) (ff_res_chain (S n_iregs) n_xregs n_ld rest)
          else None
      | RF | RD =>
          if Nat.ltb n_xregs 2 then
            option_map (cons (if Nat.eqb n_xregs 0 then XMM0 else XMM1)) (ff_res_chain n_iregs (S n_xregs) n_ld rest)
          else None
      | RLD => (* n_fregs < 2 is always true: n_fregs stays 0 *)
          match n_ld with
          | O => option_map (cons ST0) (ff_res_chain n_iregs n_xregs 1 rest)
          | S O => option_map (cons ST1) (ff_res_chain n_iregs n_xregs 2 rest)
          | _ => None (* a third fstpt pops an empty x87 stack: no location *)
          end
      end
  end.
Definition ff_results (rs : list rty) := ff_res_chain 0 0 0 rs.

(* ------------------------------------------------------------------ ff-interface cache key *)
(* mir-interp.c: one trampoline is generated per distinct (nres, nargs, arg_vars_num, res_types,
   arg type, arg size for MIR_T_BLK..MIR_T_RBLK) and reused for every call insn with an equal key
   (ff_interface_eq).  MIR_type_t codes as in mir.h. *)
Definition ity_code (t : ity) : Z :=
  match t with I8 => 0 | U8 => 1 | I16 => 2 | U16 => 3 | I32 => 4 | U32 => 5 | I64 => 6 | U64 => 7 | Pt => 11 end.
Definition aty_code (a : aty) : Z :=
  match a with AInt t => ity_code t | AF => 8 | AD => 9 | ALD => 10 | ABlk k _ => 12 + Z.of_nat k | ARblk _ => 17 end.
Definition rty_code (r : rty) : Z :=
  match r with RInt t => ity_code t | RF => 8 | RD => 9 | RLD => 10 end.
Definition aty_size (a : aty) : Z := match a with ABlk _ s | ARblk s => s | _ => 0 end.
Definition all_blk_type_p (c : Z) : bool := (12 <=? c) && (c <=? 17).

Definition arg_desc_eq (sized_p : Z -> bool) (a b : aty) : bool :=
  (aty_code a =? aty_code b) && (if sized_p (aty_code a) then aty_size a =? aty_size b else true).

Fixpoint forallb2 {A} (f : A -> A -> bool) (l1 l2 : list A) : bool :=
  match l1, l2 with
  | [], [] => true
  | x :: r1, y :: r2 => f x y && forallb2 f r1 r2
  | _, _ => false
  end.

(* a call site as the cache sees it: results, actual argument descriptors, number of fixed args *)
Record call_sig := { cs_res : list rty; cs_args : list aty; cs_arg_vars_num : nat }.

Definition ff_interface_eq_gen (sized_p : Z -> bool) (i1 i2 : call_sig) : bool :=
  Nat.eqb (length (cs_res i1)) (length (cs_res i2))
  && Nat.eqb (length (cs_args i1)) (length (cs_args i2))
  && Nat.eqb (cs_arg_vars_num i1) (cs_arg_vars_num i2)
  && forallb2 (fun a b => rty_code a =? rty_code b) (cs_res i1) (cs_res i2)
  && forallb2 (arg_desc_eq sized_p) (cs_args i1) (cs_args i2).
Definition ff_interface_eq := ff_interface_eq_gen all_blk_type_p.

(* C05 -- the block copy loop the interpreter's FFI trampoline uses for a block argument passed on the
   stack (mir-x86_64.c gen_blk_mov, template blk_mov_pat):
       r12 = block address; rax = qwords; L: rax -= 1; r10 = mem[r12 + rax*8]; mem[rsp + off + rax*8] = r10;
       test rax,rax; jg L
   modelled as the list of word indices it copies (in ascending order).  _MIR_get_ff_call emits it for
   every stack-passed block; with fixes/C05-6.patch only when qwords <> 0.  Definitions + proofs. *)
From Coq Require Import List ZArith Bool Lia.
Import ListNotations.
Local Open Scope Z_scope.

Fixpoint blk_loop (fuel : nat) (rax : Z) (acc : list Z) : option (list Z) :=
  match fuel with
  | O => None
  | S f => let rax' := rax - 1 in
           if 0 <? rax' then blk_loop f rax' (rax' :: acc) else Some (rax' :: acc)
  end.
Definition blk_mov_words (qwords : Z) : option (list Z) := blk_loop (S (Z.to_nat qwords)) qwords [].

(* guard = true: "if (qwords != 0) gen_blk_mov (...)" (fixes/C05-6.patch); false: the pinned code *)
Definition ff_blk_copy (guard : bool) (qwords : Z) : option (list Z) :=
  if guard && (qwords =? 0) then Some [] else blk_mov_words qwords.

Definition zrange (n : nat) : list Z := map Z.of_nat (seq 0 n).

Lemma blk_loop_spec n : forall fuel acc, (1 <= n)%nat -> (n <= fuel)%nat ->
  blk_loop fuel (Z.of_nat n) acc = Some (zrange n ++ acc).
Proof.
  induction n as [|n IH]; intros fuel acc H1 H2; [lia|].
  destruct fuel as [|f]; [lia|]. cbn [blk_loop].
  replace (Z.of_nat (S n) - 1) with (Z.of_nat n) by lia.
  destruct n as [|m].
  - cbn. reflexivity.
  - replace (0 <? Z.of_nat (S m)) with true by (symmetry; apply Z.ltb_lt; lia).
    rewrite IH by lia. f_equal. unfold zrange.
    rewrite (seq_S (S m) 0), map_app, <- app_assoc. reflexivity.
Qed.

(* the loop copies exactly the words 0 .. qwords-1 of a block of at least one word *)
Lemma blk_mov_exact q : 1 <= q -> blk_mov_words q = Some (zrange (Z.to_nat q)).
Proof.
  intros H. unfold blk_mov_words. rewrite <- (Z2Nat.id q) at 2 by lia.
  rewrite blk_loop_spec by lia. rewrite app_nil_r. reflexivity.
Qed.

Lemma ff_blk_copy_exact q : 0 <= q -> ff_blk_copy true q = Some (zrange (Z.to_nat q)).
Proof.
  intros H. unfold ff_blk_copy. destruct (q =? 0) eqn:E; cbn [andb].
  - apply Z.eqb_eq in E. subst q. reflexivity.
  - apply Z.eqb_neq in E. apply blk_mov_exact. lia.
Qed.

(* without the guard a size-0 block makes the loop copy the word BEFORE the block to the slot BEFORE
   its place: index -1 *)
Lemma ff_blk_copy_size0_head : ff_blk_copy false 0 = Some [-1].
Proof. reflexivity. Qed.

(* C05/C06 -- value conversions at the ABI boundary, and the token language of the regenerated
   tables (coq/gen/C05Abi.v, written on every run by tools/tr_c05_abi.py from the checked tree).
   Definitions only.

   extc : what get_ext_code (mir-gen-x86_64.c), make_one_ret and simplify_func (mir.c) select for an
          integer type -- one of MIR's extension instructions or none.  Semantics per MIR.md
          ("EXT8 ... sign/zero extension of the lower 8/16/32 bits").
   cty  : the C type named in a cast / va_arg of mir-interp.c (call(): argument narrowing and result
          widening; interp(): decoding of the parameters).  Semantics: C conversion of the 64-bit
          field to that type and back into the 64-bit field of MIR_val_t (gcc: modular).
   ktok : one element of a replacement template of patterns[] (only what the C06 theorems look at). *)
From Coq Require Import List ZArith Bool.
From MirV Require Import Base.W64 C05.SysV.
Import ListNotations.
Local Open Scope Z_scope.

Inductive extc := XEXT8 | XUEXT8 | XEXT16 | XUEXT16 | XEXT32 | XUEXT32 | XNONE | XUNKNOWN.
Inductive cty := Ci8 | Cu8 | Ci16 | Cu16 | Ci32 | Cu32 | Ci64 | Cu64 | Cnone | Cunknown.

Inductive ktok :=
| KB (b : Z)      (* opcode / prefix byte *)
| KS (d : Z)      (* /d : ModRM.reg opcode extension *)
| Kh (r : Z)      (* hard register r in ModRM.reg *)
| KH (r : Z)      (* hard register r in ModRM.rm, mod = 3 *)
| KV (v : Z)      (* 32-bit immediate with the given value *)
| Kad (d : Z)     (* address: operand 1 as base register, displacement d *)
| Kr (n : Z)      (* operand n in ModRM.reg *)
| KR (n : Z)      (* operand n in ModRM.rm, mod = 3 *)
| KI (n : Z)      (* operand n as 32-bit immediate *)
| KRex            (* X / Y / Z *)
| KO.             (* anything else *)

(* v is the 64-bit pattern found in the register / MIR_val_t field; the result is the pattern MIR
   code continues with.  None: the translator met something it does not know. *)
Definition ext_sem (c : extc) (v : Z) : option Z :=
  match c with
  | XEXT8 => Some (u64 (s8 v)) | XUEXT8 => Some (u8 v)
  | XEXT16 => Some (u64 (s16 v)) | XUEXT16 => Some (u16 v)
  | XEXT32 => Some (u64 (s32 v)) | XUEXT32 => Some (u32 v)
  | XNONE => Some (u64 v)
  | XUNKNOWN => None
  end.

Definition cast_sem (c : cty) (v : Z) : option Z :=
  match c with
  | Ci8 => Some (u64 (s8 v)) | Cu8 => Some (u8 v)
  | Ci16 => Some (u64 (s16 v)) | Cu16 => Some (u16 v)
  | Ci32 => Some (u64 (s32 v)) | Cu32 => Some (u32 v)
  | Ci64 | Cu64 | Cnone => Some (u64 v)
  | Cunknown => None
  end.

(* reviewed hand models (mir-gen-x86_64.c get_ext_code, mir.c make_one_ret / simplify_func, mir-interp.c call() and
   interp() as read on 2026-10-01): used by the generated file only for a part the translator does not recognise *)
Definition reviewed_ext (t : ity) : extc :=
  match t with I8 => XEXT8 | U8 => XUEXT8 | I16 => XEXT16 | U16 => XUEXT16 | I32 => XEXT32 | U32 => XUEXT32 | _ => XNONE end.
Definition reviewed_call_cast (t : ity) : cty :=
  match t with I8 => Ci8 | U8 => Cu8 | I16 => Ci16 | U16 => Cu16 | I32 => Ci32 | U32 => Cu32 | I64 => Ci64 | U64 | Pt => Cu64 end.
Definition reviewed_entry (t : ity) : cty * cty :=
  match t with I8 => (Ci8, Ci32) | U8 => (Cu8, Cu32) | I16 => (Ci16, Ci32) | U16 => (Cu16, Cu32)
             | I32 => (Cnone, Ci32) | U32 => (Cnone, Cu32) | I64 => (Cnone, Ci64) | U64 | Pt => (Cnone, Cu64) end.

(* interp(): "arg_vals[i].i = (cast) va_arg (va, vat)" -- read as type vat, convert to cast *)
Definition entry_sem (cv : cty * cty) (v : Z) : option Z :=
  match cast_sem (snd cv) v with
  | Some w => cast_sem (fst cv) w
  | None => None
  end.

(* bit width of the C type a MIR integer type stands for *)
Definition ity_bits (t : ity) : Z :=
  match t with I8 | U8 => 8 | I16 | U16 => 16 | I32 | U32 => 32 | I64 | U64 | Pt => 64 end.

(* the values MIR code receives for a list of results, given the raw contents of the registers
   they came back in: integer results converted by conv, others untouched *)
Fixpoint received (conv : ity -> Z -> option Z) (rs : list rty) (raw : list Z) : list (option Z) :=
  match rs, raw with
  | r :: rs', v :: raw' =>
      (match r with RInt t => conv t v | _ => Some v end) :: received conv rs' raw'
  | _, _ => []
  end.
Fixpoint expected_results (rs : list rty) (raw : list Z) : list (option Z) :=
  match rs, raw with
  | r :: rs', v :: raw' =>
      Some (match r with RInt t => widen_result t v | _ => v end) :: expected_results rs' raw'
  | _, _ => []
  end.

(* psABI register numbers in MIR's hard register numbering (= x86 encoding):
   rdi rsi rdx rcx r8 r9 / xmm0..xmm7 (hard regs 16..23) *)
Definition sysv_int_arg_regs : list Z := [7; 6; 2; 1; 8; 9].
Definition sysv_fp_arg_regs : list Z := [16; 17; 18; 19; 20; 21; 22; 23].

(* C05 -- proofs: the implementation's assignment loops compute the psABI assignment. *)
From Coq Require Import List ZArith Bool Lia ZifyBool.
From MirV Require Import Base.W64 C05.SysV C05.AbiImpl.
Import ListNotations.
Local Open Scope Z_scope.
Ltac Zify.zify_post_hook ::= Z.div_mod_to_equations.
Local Arguments Z.mul : simpl never.
Local Arguments Z.add : simpl never.
Local Arguments Z.sub : simpl never.
Local Arguments Z.div : simpl never.
Local Arguments Z.modulo : simpl never.
Local Arguments Z.leb : simpl never.
Local Arguments Z.ltb : simpl never.
Local Arguments Z.eqb : simpl never.
Local Arguments Z.min : simpl never.
Local Arguments Z.to_nat : simpl never.
Local Arguments Z.of_nat : simpl never.
Local Arguments stack_words : simpl never.

(* ---------------------------------------------------------------- arithmetic helpers *)
Lemma qwords_small s : 1 <= s <= 8 -> qwords s = 1.
Proof. unfold qwords; intros; lia. Qed.
Lemma qwords_big s : 9 <= s <= 16 -> qwords s = 2.
Proof. unfold qwords; intros; lia. Qed.
Lemma qwords_pos s : 1 <= s -> 1 <= qwords s.
Proof. unfold qwords; intros; lia. Qed.
Lemma qwords_nonneg s : 0 <= s -> 0 <= qwords s.
Proof. unfold qwords; intros; lia. Qed.
Lemma align_up_8 x : x mod 8 = 0 -> align_up x 8 = x.
Proof. unfold align_up; intros; lia. Qed.
Lemma align_up_16 x : align_up x 16 = (x + 15) / 16 * 16.
Proof. unfold align_up; f_equal; f_equal; lia. Qed.
Lemma align_up_16_mod8 x : ((x + 15) / 16 * 16) mod 8 = 0.
Proof. lia. Qed.
Lemma align_up_ge x : x <= (x + 15) / 16 * 16.
Proof. lia. Qed.

(* state invariant shared by all loops: counters in range, stack offset a multiple of 8 *)
Definition st_ok (st : astate) : Prop :=
  0 <= ni st <= 6 /\ 0 <= nx st <= 8 /\ 0 <= so st /\ so st mod 8 = 0.

Lemma st_ok0 : st_ok astate0.
Proof. unfold st_ok, astate0; simpl; lia. Qed.

Ltac solve_eq :=
  repeat match goal with
  | |- (_, _) = (_, _) => f_equal
  | |- _ :: _ = _ :: _ => f_equal
  | |- Build_astate _ _ _ = Build_astate _ _ _ => f_equal
  | |- GPR _ = GPR _ => f_equal
  | |- SSE _ = SSE _ => f_equal
  | |- Stk _ = Stk _ => f_equal
  | |- stack_words _ _ = stack_words _ _ => f_equal
  | |- Z.to_nat _ = Z.to_nat _ => f_equal
  end; try reflexivity; try lia.

Ltac destr_if :=
  match goal with
  | |- context [if ?b then _ else _] => let E := fresh "E" in destruct b eqn:E
  end.

(* ---------------------------------------------------------------- the specification keeps st_ok *)
Lemma assign1_ok st a : wf_arg a = true -> st_ok st -> st_ok (snd (assign1 st a)).
Proof.
  intros W (Hi & Hx & Hs & Hm).
  unfold assign1, assign_mem.
  destruct a as [t| | | |k s|s]; simpl in *;
    try (repeat destr_if; unfold st_ok, max_gpr, max_sse in *; simpl; rewrite ?align_up_8 by assumption; lia).
  - (* ld *) unfold st_ok; simpl. rewrite align_up_16. lia.
  - (* blk *)
    destruct k as [|[|[|[|[|k]]]]]; simpl in *; try discriminate;
      repeat destr_if; unfold st_ok, max_gpr, max_sse in *; simpl in *;
        rewrite ?align_up_8 by assumption;
        first [assert (1 <= qwords s) by (apply qwords_pos; lia)|assert (0 <= qwords s) by (apply qwords_nonneg; lia)|idtac]; lia.
Qed.

(* ---------------------------------------------------------------- (a) _MIR_get_ff_call *)
Lemma ff_arg_eq st a : wf_arg a = true -> st_ok st -> ff_arg true false st a = assign1 st a.
Proof.
  intros W (Hi & Hx & Hs & Hm).
  destruct st as [i x o]; simpl in *.
  destruct a as [t| | | |k s|s]; unfold ff_arg, assign1, assign_mem, mk, max_gpr, max_sse; simpl.
  - repeat destr_if; try lia; rewrite ?align_up_8 by assumption; solve_eq.
  - repeat destr_if; try lia; rewrite ?align_up_8 by assumption; solve_eq.
  - repeat destr_if; try lia; rewrite ?align_up_8 by assumption; solve_eq.
  - rewrite align_up_16. solve_eq.
  - destruct k as [|[|[|[|[|k]]]]]; simpl in W; try discriminate; simpl.
    + rewrite align_up_8 by assumption. solve_eq.
    + (* blk1 *)
      destruct (s <=? 8) eqn:E8.
      * rewrite (qwords_small s) by lia. simpl.
        repeat destr_if; try lia; rewrite ?align_up_8 by assumption; simpl; solve_eq.
      * rewrite (qwords_big s) by lia. simpl.
        repeat destr_if; try lia; rewrite ?align_up_8 by assumption; simpl; solve_eq.
    + (* blk2 *)
      destruct (s <=? 8) eqn:E8.
      * rewrite (qwords_small s) by lia. simpl.
        repeat destr_if; try lia; rewrite ?align_up_8 by assumption; simpl; solve_eq.
      * rewrite (qwords_big s) by lia. simpl.
        repeat destr_if; try lia; rewrite ?align_up_8 by assumption; simpl; solve_eq.
    + (* blk3 *)
      rewrite (qwords_big s) by lia. simpl.
      repeat destr_if; try lia; rewrite ?align_up_8 by assumption; simpl; solve_eq.
    + (* blk4 *)
      rewrite (qwords_big s) by lia. simpl.
      repeat destr_if; try lia; rewrite ?align_up_8 by assumption; simpl; solve_eq.
  - repeat destr_if; try lia; rewrite ?align_up_8 by assumption; solve_eq.
Qed.

Lemma ff_args_eq args : forall st, wf_args args = true -> st_ok st ->
  ff_args true false st args = assign_from st args.
Proof.
  induction args as [|a r IH]; intros st W Hok; simpl; [reflexivity|].
  simpl in W. apply andb_true_iff in W as [Wa Wr].
  rewrite ff_arg_eq by assumption.
  destruct (assign1 st a) as [l st1] eqn:E1.
  rewrite IH; [reflexivity|assumption|].
  replace st1 with (snd (assign1 st a)) by (rewrite E1; reflexivity).
  apply assign1_ok; assumption.
Qed.

Lemma ffcall_assign_eq args : wf_args args = true -> ff_assign args = assign args.
Proof. intros; apply ff_args_eq; [assumption|apply st_ok0]. Qed.

(* ---------------------------------------------------------------- (b),(c): counters run past the files *)
Definition rel (m s : astate) : Prop :=
  0 <= ni m /\ 0 <= nx m /\ ni s = Z.min (ni m) 6 /\ nx s = Z.min (nx m) 8 /\ so s = so m.

Lemma rel0 : rel astate0 astate0.
Proof. unfold rel, astate0; simpl; lia. Qed.

Lemma mul8_div8 x : x * 8 / 8 = x.
Proof. lia. Qed.

Lemma mc_arg_eq m st a : wf_arg a = true -> st_ok st -> rel m st ->
  fst (mc_arg true m a) = fst (assign1 st a) /\ rel (snd (mc_arg true m a)) (snd (assign1 st a)).
Proof.
  intros W (Hi & Hx & Hs & Hm) (R1 & R2 & R3 & R4 & R5).
  destruct st as [i x o]; destruct m as [mi mx mo]; simpl in *. subst mo.
  destruct a as [t| | | |k s|s];
    unfold mc_arg, assign1, assign_mem, mk, max_gpr, max_sse, int_reg_p, fp_reg_p, rel; simpl.
  - repeat destr_if; simpl; rewrite ?align_up_8 by assumption; split; try (solve_eq); lia.
  - repeat destr_if; simpl; rewrite ?align_up_8 by assumption; split; try (solve_eq); lia.
  - repeat destr_if; simpl; rewrite ?align_up_8 by assumption; split; try (solve_eq); lia.
  - rewrite align_up_16. simpl. split; [reflexivity|lia].
  - destruct k as [|[|[|[|[|k]]]]]; simpl in W; try discriminate; simpl.
    + rewrite align_up_8 by assumption. unfold qwords. rewrite mul8_div8. simpl. split; [reflexivity|lia].
    + destruct (s <=? 8) eqn:E8.
      * assert (Q : (s + 7) / 8 * 8 = 8) by lia. rewrite Q. simpl.
        repeat destr_if; simpl; rewrite ?align_up_8 by assumption; try lia;
          (split; [try (solve_eq)|try lia]);
          unfold qwords; rewrite ?Q; simpl; try reflexivity; try lia.
      * assert (Q : (s + 7) / 8 * 8 = 16) by lia. rewrite Q. simpl.
        repeat destr_if; simpl; rewrite ?align_up_8 by assumption; try lia;
          (split; [try (solve_eq)|try lia]);
          unfold qwords; replace ((s + 7) / 8) with 2 by lia; simpl; try reflexivity; try lia.
    + destruct (s <=? 8) eqn:E8.
      * assert (Q : (s + 7) / 8 * 8 = 8) by lia. rewrite Q. simpl.
        repeat destr_if; simpl; rewrite ?align_up_8 by assumption; try lia;
          (split; [try (solve_eq)|try lia]);
          unfold qwords; rewrite ?Q; simpl; try reflexivity; try lia.
      * assert (Q : (s + 7) / 8 * 8 = 16) by lia. rewrite Q. simpl.
        repeat destr_if; simpl; rewrite ?align_up_8 by assumption; try lia;
          (split; [try (solve_eq)|try lia]);
          unfold qwords; replace ((s + 7) / 8) with 2 by lia; simpl; try reflexivity; try lia.
    + assert (Q : (s + 7) / 8 * 8 = 16) by lia. rewrite Q. simpl.
      repeat destr_if; simpl; rewrite ?align_up_8 by assumption; try lia;
        (split; [try (solve_eq)|try lia]);
        unfold qwords; replace ((s + 7) / 8) with 2 by lia; simpl; try reflexivity; try lia.
    + assert (Q : (s + 7) / 8 * 8 = 16) by lia. rewrite Q. simpl.
      repeat destr_if; simpl; rewrite ?align_up_8 by assumption; try lia;
        (split; [try (solve_eq)|try lia]);
        unfold qwords; replace ((s + 7) / 8) with 2 by lia; simpl; try reflexivity; try lia.
  - repeat destr_if; simpl; rewrite ?align_up_8 by assumption; split; try (solve_eq); lia.
Qed.

Lemma mc_args_eq args : forall m st, wf_args args = true -> st_ok st -> rel m st ->
  fst (mc_args true m args) = fst (assign_from st args)
  /\ rel (snd (mc_args true m args)) (snd (assign_from st args)).
Proof.
  induction args as [|a r IH]; intros m st W Hok R; simpl; [split; [reflexivity|assumption]|].
  simpl in W. apply andb_true_iff in W as [Wa Wr].
  destruct (mc_arg_eq m st a Wa Hok R) as [E1 R1].
  pose proof (assign1_ok st a Wa Hok) as Hok1.
  destruct (mc_arg true m a) as [l m1]; destruct (assign1 st a) as [l' st1]; simpl in *.
  destruct (IH m1 st1 Wr Hok1 R1) as [E2 R2].
  destruct (mc_args true m1 r) as [ls m2]; destruct (assign_from st1 r) as [ls' st2]; simpl in *.
  split; [congruence|assumption].
Qed.

(* (c) is textually the same if-chain as (b) *)
Lemma in_arg_is_mc_arg f m a : in_arg f m a = mc_arg f m a.
Proof. destruct a; reflexivity. Qed.
Lemma in_args_is_mc_args f args : forall m, in_args f m args = mc_args f m args.
Proof. induction args as [|a r IH]; intros m; simpl; [reflexivity|]. rewrite in_arg_is_mc_arg.
  destruct (mc_arg f m a). rewrite IH. reflexivity. Qed.

Lemma machinize_assign_eq args : wf_args args = true ->
  fst (mc_assign args) = fst (assign args)
  /\ so (snd (mc_assign args)) = so (snd (assign args))
  /\ nx (snd (assign args)) = Z.min (nx (snd (mc_assign args))) 8
  /\ ni (snd (assign args)) = Z.min (ni (snd (mc_assign args))) 6.
Proof.
  intros W. destruct (mc_args_eq args astate0 astate0 W st_ok0 rel0) as [E (R1 & R2 & R3 & R4 & R5)].
  unfold mc_assign, assign. repeat split; try assumption; symmetry; assumption.
Qed.

Lemma incoming_assign_eq args : wf_args args = true ->
  fst (in_assign args) = fst (assign args) /\ so (snd (in_assign args)) = so (snd (assign args)).
Proof.
  intros W. unfold in_assign. rewrite in_args_is_mc_args.
  destruct (machinize_assign_eq args W) as (A & B & _). split; assumption.
Qed.

(* ---------------------------------------------------------------- invariants of the final state *)
Lemma assign_from_ok args : forall st, wf_args args = true -> st_ok st -> st_ok (snd (assign_from st args)).
Proof.
  induction args as [|a r IH]; intros st W Hok; simpl; [assumption|].
  simpl in W. apply andb_true_iff in W as [Wa Wr].
  pose proof (assign1_ok st a Wa Hok) as H1.
  destruct (assign1 st a) as [l st1]; simpl in *.
  specialize (IH st1 Wr H1). destruct (assign_from st1 r); simpl in *. assumption.
Qed.

Lemma assign_ok args : wf_args args = true -> st_ok (snd (assign args)).
Proof. intros; apply assign_from_ok; [assumption|apply st_ok0]. Qed.

(* ---------------------------------------------------------------- stack alignment at the call *)
Lemma ff_call_aligned args entry_rsp : wf_args args = true -> entry_rsp mod 16 = 8 ->
  (ff_rsp_at_call entry_rsp args) mod 16 = 0
  /\ so (snd (assign args)) <= ff_sub_rsp args.
Proof.
  intros W He. unfold ff_rsp_at_call, ff_sub_rsp. rewrite ffcall_assign_eq by assumption.
  destruct (assign_ok args W) as (_ & _ & Hs & _). split; lia.
Qed.

Lemma mc_call_aligned args frame_rsp : wf_args args = true -> frame_rsp mod 16 = 0 ->
  (frame_rsp - mc_sub_rsp args) mod 16 = 0
  /\ so (snd (assign args)) <= mc_sub_rsp args
  /\ mc_sub_rsp args = stack_area args.
Proof.
  intros W He. unfold mc_sub_rsp, stack_area.
  destruct (machinize_assign_eq args W) as (_ & B & _). rewrite B.
  destruct (assign_ok args W) as (_ & _ & Hs & _).
  rewrite align_up_16. destr_if; repeat split; lia.
Qed.

(* ---------------------------------------------------------------- %al *)
Lemma mc_al_ok args : wf_args args = true -> al_ok args (mc_al args) = true.
Proof.
  intros W. unfold al_ok, mc_al.
  destruct (machinize_assign_eq args W) as (_ & _ & C & _).
  destruct (assign_ok args W) as (_ & Hx & _).
  destr_if; lia.
Qed.

Lemma ff_al_ok args : wf_args args = true -> al_ok args ff_al = true.
Proof.
  intros W. unfold al_ok, ff_al. destruct (assign_ok args W) as (_ & Hx & _). lia.
Qed.

(* ---------------------------------------------------------------- stack locations lie in the area *)
Definition loc_in (lo hi : Z) (l : loc) : Prop :=
  match l with Stk o => lo <= o /\ o + 8 <= hi | GPR n => 0 <= n < 6 | SSE n => 0 <= n < 8 end.

Lemma stack_words_in o n : Forall (loc_in o (o + 8 * Z.of_nat n)) (stack_words o n).
Proof.
  revert o; induction n as [|n IH]; intros o; simpl; [constructor|].
  constructor; [simpl; lia|].
  eapply Forall_impl; [|apply IH]. intros [x|x|x]; simpl; lia.
Qed.

(* the state grows monotonically and every location handed out lies between old and new state *)
Definition st_le (a b : astate) : Prop := ni a <= ni b /\ nx a <= nx b /\ so a <= so b.
Definition loc_between (a b : astate) (l : loc) : Prop :=
  match l with
  | GPR n => ni a <= n < ni b
  | SSE n => nx a <= n < nx b
  | Stk o => so a <= o /\ o + 8 <= so b
  end.

Lemma stack_words_between i x o n i' x' :
  Forall (loc_between (mk i x o) (mk i' x' (o + 8 * Z.of_nat n))) (stack_words o n).
Proof.
  pose proof (stack_words_in o n) as H.
  eapply Forall_impl; [|exact H]. intros [k|k|k]; simpl; intros; try lia.
  (* no GPR/SSE entries occur in stack_words; handle by a direct induction instead *)
Abort.

Lemma stack_words_between st o n st' : so st <= o -> so st' = o + 8 * Z.of_nat n ->
  Forall (loc_between st st') (stack_words o n).
Proof.
  revert o; induction n as [|n IH]; intros o H1 H2; simpl; [constructor|].
  constructor; [simpl; lia|]. apply IH; lia.
Qed.

Lemma assign1_between st a : wf_arg a = true -> st_ok st ->
  Forall (loc_between st (snd (assign1 st a))) (fst (assign1 st a)) /\ st_le st (snd (assign1 st a)).
Proof.
  intros W (Hi & Hx & Hs & Hm).
  assert (MEM : Forall (loc_between st (snd (assign_mem st a))) (fst (assign_mem st a))
                /\ st_le st (snd (assign_mem st a))).
  { unfold assign_mem; simpl.
    assert (Hw : 0 <= mem_words a).
    { destruct a as [t| | | |k s|s]; simpl; try lia.
      destruct k as [|[|[|[|[|k]]]]]; simpl in W; try discriminate; unfold qwords; lia. }
    assert (Ha : so st <= align_up (so st) (mem_align a)).
    { destruct a; simpl; rewrite ?align_up_16; rewrite ?align_up_8 by assumption; lia. }
    split.
    - apply stack_words_between; simpl; [assumption|]. rewrite Z2Nat.id by assumption. reflexivity.
    - unfold st_le; simpl. lia. }
  unfold assign1. destruct (classes a) as [cs|] eqn:EC; [|exact MEM].
  destr_if; [|exact MEM]. simpl.
  unfold max_gpr, max_sse in *.
  destruct a as [t| | | |k s|s]; simpl in EC; try discriminate;
    try (injection EC as <-; simpl in *; split; [repeat constructor; simpl; lia|unfold st_le; simpl; lia]).
  destruct k as [|[|[|[|[|k]]]]]; simpl in EC; try discriminate;
    injection EC as <-; repeat destr_if; simpl in *;
      (split; [repeat constructor; simpl; lia|unfold st_le; simpl; lia]).
Qed.

Lemma loc_between_widen a b c d l : st_le a b -> st_le c d -> loc_between b c l -> loc_between a d l.
Proof. intros (A1 & A2 & A3) (B1 & B2 & B3); destruct l; simpl; lia. Qed.

Lemma st_le_refl a : st_le a a.
Proof. unfold st_le; lia. Qed.
Lemma st_le_trans a b c : st_le a b -> st_le b c -> st_le a c.
Proof. unfold st_le; lia. Qed.

Lemma assign_from_between args : forall st, wf_args args = true -> st_ok st ->
  Forall (loc_between st (snd (assign_from st args))) (concat (fst (assign_from st args)))
  /\ st_le st (snd (assign_from st args)).
Proof.
  induction args as [|a r IH]; intros st W Hok; simpl; [split; [constructor|apply st_le_refl]|].
  simpl in W. apply andb_true_iff in W as [Wa Wr].
  destruct (assign1_between st a Wa Hok) as [F1 L1].
  pose proof (assign1_ok st a Wa Hok) as Hok1.
  destruct (assign1 st a) as [l st1]; simpl in *.
  destruct (IH st1 Wr Hok1) as [F2 L2].
  destruct (assign_from st1 r) as [ls st2]; simpl in *.
  split; [|eapply st_le_trans; eassumption].
  apply Forall_app; split.
  - eapply Forall_impl; [|exact F1]. intros x Hx. eapply loc_between_widen; [apply st_le_refl|exact L2|exact Hx].
  - eapply Forall_impl; [|exact F2]. intros x Hx. eapply loc_between_widen; [exact L1|apply st_le_refl|exact Hx].
Qed.

(* every stack location of the assignment lies inside the reserved argument area, every register
   location is a real argument register *)
Lemma assign_locs_in_area args : wf_args args = true ->
  Forall (loc_in 0 (stack_area args)) (concat (fst (assign args))).
Proof.
  intros W. destruct (assign_from_between args astate0 W st_ok0) as [F _].
  destruct (assign_ok args W) as (Hi & Hx & Hs & _).
  unfold stack_area. rewrite align_up_16. fold (assign args) in F.
  eapply Forall_impl; [|exact F]. intros [n|n|o]; simpl; lia.
Qed.

(* ---------------------------------------------------------------- no two eightbytes share a location *)
Lemma between_disjoint a b c l1 l2 : loc_between a b l1 -> loc_between b c l2 -> l1 <> l2.
Proof. destruct l1, l2; simpl; intros H1 H2 E; try discriminate; injection E as E; lia. Qed.

Lemma stack_words_nodup o n : NoDup (stack_words o n).
Proof.
  revert o; induction n as [|n IH]; intros o; simpl; constructor; [|apply IH].
  intros Hin. pose proof (stack_words_between (mk 0 0 (o + 8)) (o + 8) n (mk 0 0 (o + 8 + 8 * Z.of_nat n))) as F.
  simpl in F. specialize (F ltac:(lia) eq_refl). rewrite Forall_forall in F. specialize (F _ Hin). simpl in F. lia.
Qed.

Lemma assign1_nodup st a : wf_arg a = true -> NoDup (fst (assign1 st a)).
Proof.
  intros W. unfold assign1, assign_mem.
  destruct (classes a) as [cs|] eqn:EC; [|apply stack_words_nodup].
  destr_if; [|apply stack_words_nodup]. simpl.
  destruct a as [t| | | |k s|s]; simpl in EC; try discriminate;
    try (injection EC as <-; simpl; repeat constructor; simpl; intuition discriminate).
  destruct k as [|[|[|[|[|k]]]]]; simpl in EC; try discriminate;
    injection EC as <-; repeat destr_if; simpl; repeat constructor; simpl;
      intuition (try discriminate; match goal with H : _ = _ |- _ => injection H; lia end).
Qed.

Lemma assign_from_nodup args : forall st, wf_args args = true -> st_ok st ->
  NoDup (concat (fst (assign_from st args))).
Proof.
  induction args as [|a r IH]; intros st W Hok; simpl; [constructor|].
  simpl in W. apply andb_true_iff in W as [Wa Wr].
  destruct (assign1_between st a Wa Hok) as [F1 L1].
  pose proof (assign1_nodup st a Wa) as N1.
  pose proof (assign1_ok st a Wa Hok) as Hok1.
  destruct (assign1 st a) as [l st1]; simpl in *.
  pose proof (IH st1 Wr Hok1) as N2.
  destruct (assign_from_between r st1 Wr Hok1) as [F2 L2].
  destruct (assign_from st1 r) as [ls st2]; simpl in *.
  clear IH. induction l as [|x l IHl]; simpl; [assumption|].
  inversion N1 as [|? ? Hnx N1']; subst. inversion F1 as [|? ? Bx F1']; subst.
  constructor; [|apply IHl; assumption].
  rewrite in_app_iff. intros [H|H]; [contradiction|].
  rewrite Forall_forall in F2. specialize (F2 _ H).
  eapply between_disjoint; [exact Bx|exact F2|reflexivity].
Qed.

Lemma assign_nodup args : wf_args args = true -> NoDup (concat (fst (assign args))).
Proof. intros; apply assign_from_nodup; [assumption|apply st_ok0]. Qed.

(* ---------------------------------------------------------------- round trip through the image *)
Lemma loc_eqb_eq a b : loc_eqb a b = true <-> a = b.
Proof. destruct a, b; simpl; split; intros H; try discriminate; try (f_equal; lia); injection H; lia. Qed.

Lemma lookup_combine_notin ks vs k : ~ In k ks -> lookup (combine ks vs) k = None.
Proof.
  revert vs; induction ks as [|k' ks IH]; intros vs Hn; simpl; [reflexivity|].
  destruct vs as [|v vs]; [reflexivity|]. simpl.
  destruct (loc_eqb k' k) eqn:E; [apply loc_eqb_eq in E; subst; exfalso; apply Hn; left; reflexivity|].
  apply IH. intros H; apply Hn; right; assumption.
Qed.

Lemma map_lookup_combine ks vs : NoDup ks -> length ks = length vs ->
  map (lookup (combine ks vs)) ks = map Some vs.
Proof.
  revert vs; induction ks as [|k ks IH]; intros vs N L; destruct vs as [|v vs]; simpl in *; try discriminate; [reflexivity|].
  inversion N as [|? ? Hn N']; subst.
  assert (E : loc_eqb k k = true) by (apply loc_eqb_eq; reflexivity). rewrite E. f_equal.
  rewrite <- (IH vs N') by lia.
  apply map_ext_in. intros a Ha.
  destruct (loc_eqb k a) eqn:E2; [apply loc_eqb_eq in E2; subst; contradiction|reflexivity].
Qed.

(* shapes: argument i holds as many words as it has locations *)
Fixpoint same_shape (locs : list (list loc)) (vals : list (list Z)) : Prop :=
  match locs, vals with
  | [], [] => True
  | l :: ls, v :: vs => length l = length v /\ same_shape ls vs
  | _, _ => False
  end.

Lemma map_map_concat (f : loc -> option Z) locs vals : same_shape locs vals ->
  map f (concat locs) = map Some (concat vals) -> map (map f) locs = map (map Some) vals.
Proof.
  revert vals; induction locs as [|l ls IH]; intros vals S E; destruct vals as [|v vs]; simpl in *; try contradiction; [reflexivity|].
  destruct S as [L S]. rewrite !map_app in E.
  assert (E1 : map f l = map Some v /\ map f (concat ls) = map Some (concat vs)).
  { clear IH S. revert v L E. induction l as [|x l IHl]; intros v L E; destruct v as [|y v]; simpl in *; try discriminate.
    - split; [reflexivity|assumption].
    - injection E as E0 E. destruct (IHl v ltac:(lia) E) as [A B]. split; [f_equal; assumption|assumption]. }
  destruct E1 as [A B]. f_equal; [assumption|apply IH; assumption].
Qed.

Lemma same_shape_concat_length locs vals : same_shape locs vals -> length (concat locs) = length (concat vals).
Proof.
  revert vals; induction locs as [|l ls IH]; intros vals S; destruct vals as [|v vs]; simpl in *; try contradiction; [reflexivity|].
  destruct S as [L S]. rewrite !app_length. rewrite L, (IH vs S). reflexivity.
Qed.

(* a callee that reads each argument from the locations of the psABI assignment gets back exactly
   the words the caller placed according to the same assignment *)
Lemma sysv_roundtrip args vals : wf_args args = true -> same_shape (fst (assign args)) vals ->
  read_args (fst (assign args)) (image (fst (assign args)) vals) = map (map Some) vals.
Proof.
  intros W S. unfold read_args, image.
  apply map_map_concat; [assumption|].
  apply map_lookup_combine; [apply assign_nodup; assumption|apply same_shape_concat_length; assumption].
Qed.

(* ---------------------------------------------------------------- result registers *)
Definition cnt (c : rcls) (prev : list rty) : nat :=
  length (filter (fun p => rcls_eqb (rclass p) c) prev).

Lemma cnt_app c prev r : cnt c (prev ++ [r]) = (cnt c prev + (if rcls_eqb (rclass r) c then 1 else 0))%nat.
Proof. unfold cnt. rewrite filter_app, app_length. simpl. destruct (rcls_eqb (rclass r) c); reflexivity. Qed.

Lemma filter_cnt prev r : length (filter (fun p => rcls_eqb (rclass p) (rclass r)) prev) = cnt (rclass r) prev.
Proof. reflexivity. Qed.

Lemma res_chain_eq rs : forall prev l, result_locs_from prev rs = Some l ->
  res_chain (cnt KInt prev) (cnt KSse prev) (cnt KX87 prev) rs = Some l.
Proof.
  induction rs as [|r rest IH]; intros prev l H; simpl in *; [assumption|].
  rewrite filter_cnt in H.
  destruct (nth_ret_reg (rclass r) (cnt (rclass r) prev)) as [x|] eqn:EN; [|discriminate].
  destruct (result_locs_from (prev ++ [r]) rest) as [ls|] eqn:ER; [|discriminate].
  injection H as <-. specialize (IH _ _ ER). rewrite !cnt_app in IH.
  destruct r as [t| | |]; simpl in *.
  - destruct (cnt KInt prev) as [|[|k]]; simpl in *; try discriminate; injection EN as <-;
      rewrite ?Nat.add_0_r in IH; rewrite ?Nat.add_1_r in IH; rewrite IH; reflexivity.
  - destruct (cnt KSse prev) as [|[|k]]; simpl in *; try discriminate; injection EN as <-;
      rewrite ?Nat.add_0_r in IH; rewrite ?Nat.add_1_r in IH; rewrite IH; reflexivity.
  - destruct (cnt KSse prev) as [|[|k]]; simpl in *; try discriminate; injection EN as <-;
      rewrite ?Nat.add_0_r in IH; rewrite ?Nat.add_1_r in IH; rewrite IH; reflexivity.
  - destruct (cnt KX87 prev) as [|[|k]]; simpl in *; try discriminate; injection EN as <-;
      rewrite ?Nat.add_0_r in IH; rewrite ?Nat.add_1_r in IH; rewrite IH; reflexivity.
Qed.

Lemma ff_res_chain_eq rs : forall prev l, result_locs_from prev rs = Some l ->
  ff_res_chain (cnt KInt prev) (cnt KSse prev) (cnt KX87 prev) rs = Some l.
Proof.
  induction rs as [|r rest IH]; intros prev l H; simpl in *; [assumption|].
  rewrite filter_cnt in H.
  destruct (nth_ret_reg (rclass r) (cnt (rclass r) prev)) as [x|] eqn:EN; [|discriminate].
  destruct (result_locs_from (prev ++ [r]) rest) as [ls|] eqn:ER; [|discriminate].
  injection H as <-. specialize (IH _ _ ER). rewrite !cnt_app in IH.
  destruct r as [t| | |]; simpl in *.
  - destruct (cnt KInt prev) as [|[|k]]; simpl in *; try discriminate; injection EN as <-;
      rewrite ?Nat.add_0_r in IH; rewrite ?Nat.add_1_r in IH; rewrite IH; reflexivity.
  - destruct (cnt KSse prev) as [|[|k]]; simpl in *; try discriminate; injection EN as <-;
      rewrite ?Nat.add_0_r in IH; rewrite ?Nat.add_1_r in IH; rewrite IH; reflexivity.
  - destruct (cnt KSse prev) as [|[|k]]; simpl in *; try discriminate; injection EN as <-;
      rewrite ?Nat.add_0_r in IH; rewrite ?Nat.add_1_r in IH; rewrite IH; reflexivity.
  - destruct (cnt KX87 prev) as [|[|k]]; simpl in *; try discriminate; injection EN as <-;
      rewrite ?Nat.add_0_r in IH; rewrite ?Nat.add_1_r in IH; rewrite IH; reflexivity.
Qed.

Lemma result_regs_eq rs l : result_locs rs = Some l -> mc_results rs = Some l /\ ff_results rs = Some l.
Proof.
  intros H. split; [apply (res_chain_eq rs [] l H)|apply (ff_res_chain_eq rs [] l H)].
Qed.

(* a result list is legal (has an assignment) iff no class occurs more than twice *)
Lemma result_locs_legal rs : forall prev,
  (forall c, (cnt c prev + cnt c rs <= 2)%nat) -> exists l, result_locs_from prev rs = Some l.
Proof.
  induction rs as [|r rest IH]; intros prev H; simpl; [eexists; reflexivity|].
  rewrite filter_cnt.
  assert (Hr : (cnt (rclass r) prev < 2)%nat).
  { specialize (H (rclass r)). unfold cnt in H at 2. simpl in H.
    assert (E : rcls_eqb (rclass r) (rclass r) = true) by (destruct (rclass r); reflexivity).
    rewrite E in H. simpl in H. lia. }
  destruct (nth_ret_reg (rclass r) (cnt (rclass r) prev)) as [x|] eqn:EN.
  - destruct (IH (prev ++ [r])) as [ls E].
    + intros c. rewrite cnt_app. specialize (H c). unfold cnt in H at 2. simpl in H.
      destruct (rcls_eqb (rclass r) c); simpl in H; fold (cnt c rest) in H; lia.
    + rewrite E. eexists; reflexivity.
  - exfalso. destruct (rclass r); destruct (cnt _ prev) as [|[|k]]; simpl in EN; try discriminate; lia.
Qed.

(* ---------------------------------------------------------------- the pinned commit's loops are refuted *)
Example ffcall_head_refuted :
  let args := [ABlk 3 16; AD] in wf_args args = true /\ fst (ff_assign_head args) <> fst (assign args).
Proof. split; [reflexivity|vm_compute; intros H; discriminate]. Qed.

Example ld_align_head_refuted :
  let args := [AInt I64; AInt I64; AInt I64; AInt I64; AInt I64; AInt I64; AInt I64; ALD] in
  wf_args args = true
  /\ fst (ff_assign_head args) <> fst (assign args)
  /\ fst (mc_assign_head args) <> fst (assign args)
  /\ fst (in_assign_head args) <> fst (assign args).
Proof. repeat split; try reflexivity; vm_compute; intros H; discriminate. Qed.

Example mc_al_head_refuted :
  let args := [AInt Pt; ABlk 2 16] in wf_args args = true /\ al_ok args (mc_al_head args) = false.
Proof. split; reflexivity. Qed.

(* non-vacuity: a long, mixed, well-formed prototype that spills both register files *)
Example wf_nontrivial :
  let args := [AInt I8; AD; ABlk 1 16; ABlk 3 12; AF; ALD; ABlk 0 24; AInt U16; AInt I64; AInt Pt;
               AD; AD; AD; AD; AD; ABlk 2 16; ARblk 40; AInt I32; ALD; ABlk 4 16] in
  wf_args args = true /\ so (snd (assign args)) = 112 /\ ni (snd (assign args)) = 6 /\ nx (snd (assign args)) = 8.
Proof. repeat split; reflexivity. Qed.

(* ---------------------------------------------------------------- the trampoline cache key *)
Lemma ity_code_inj a b : ity_code a = ity_code b -> a = b.
Proof. destruct a, b; simpl; intros H; try reflexivity; discriminate. Qed.

Lemma rty_code_inj a b : rty_code a = rty_code b -> a = b.
Proof.
  destruct a as [t| | |], b as [u| | |]; simpl; intros H; try reflexivity;
    try (destruct t; simpl in H; discriminate); try (destruct u; simpl in H; discriminate);
    try discriminate.
  f_equal. apply ity_code_inj. assumption.
Qed.

(* equal descriptors denote the same argument (for the argument types MIR has: case number <= 4) *)
Lemma arg_desc_eq_same a b : wf_arg a = true -> wf_arg b = true ->
  arg_desc_eq all_blk_type_p a b = true -> a = b.
Proof.
  unfold arg_desc_eq, all_blk_type_p. intros Wa Wb H. apply andb_true_iff in H as [H1 H2].
  apply Z.eqb_eq in H1.
  destruct a as [t| | | |k s|s], b as [u| | | |k' s'|s']; simpl in H1, H2;
    try reflexivity; try (destruct t; simpl in H1; lia); try (destruct u; simpl in H1; lia); try lia.
  - f_equal. apply ity_code_inj. assumption.
  - assert (k = k') by lia. subst k'.
    destruct k as [|[|[|[|[|k]]]]]; simpl in Wa; try discriminate; simpl in H2;
      apply Z.eqb_eq in H2; subst; reflexivity.
  - destruct k as [|[|[|[|[|k]]]]]; simpl in Wa; try discriminate; simpl in H1; lia.
  - destruct k' as [|[|[|[|[|k']]]]]; simpl in Wb; try discriminate; simpl in H1; lia.
  - apply Z.eqb_eq in H2. subst. reflexivity.
Qed.

Lemma forallb2_args_same l1 : forall l2, wf_args l1 = true -> wf_args l2 = true ->
  forallb2 (arg_desc_eq all_blk_type_p) l1 l2 = true -> l1 = l2.
Proof.
  induction l1 as [|a r IH]; intros l2 W1 W2 H; destruct l2 as [|b r2]; simpl in *; try discriminate; [reflexivity|].
  apply andb_true_iff in W1 as [Wa Wr]. apply andb_true_iff in W2 as [Wb Wr2]. apply andb_true_iff in H as [H1 H2].
  f_equal; [apply arg_desc_eq_same; assumption|apply IH; assumption].
Qed.

Lemma forallb2_res_same l1 : forall l2,
  forallb2 (fun a b => rty_code a =? rty_code b) l1 l2 = true -> l1 = l2.
Proof.
  induction l1 as [|a r IH]; intros l2 H; destruct l2 as [|b r2]; simpl in *; try discriminate; [reflexivity|].
  apply andb_true_iff in H as [H1 H2]. apply Z.eqb_eq in H1.
  f_equal; [apply rty_code_inj; assumption|apply IH; assumption].
Qed.

(* two call sites that share a cached trampoline need the same trampoline *)
Lemma ff_cache_key_sound_l i1 i2 : wf_args (cs_args i1) = true -> wf_args (cs_args i2) = true ->
  ff_interface_eq i1 i2 = true ->
  ff_assign (cs_args i1) = ff_assign (cs_args i2) /\ ff_results (cs_res i1) = ff_results (cs_res i2)
  /\ ff_sub_rsp (cs_args i1) = ff_sub_rsp (cs_args i2).
Proof.
  intros W1 W2 H. unfold ff_interface_eq, ff_interface_eq_gen in H.
  apply andb_true_iff in H as [H Ha]. apply andb_true_iff in H as [H Hr].
  rewrite (forallb2_args_same _ _ W1 W2 Ha), (forallb2_res_same _ _ Hr). repeat split.
Qed.

(* a key that compares the size only for MIR_T_BLK (a plausible "optimisation") is unsound *)
Example ff_cache_key_blk0_only_refuted :
  let sized := fun c => c =? 12 in
  let i1 := {| cs_res := []; cs_args := [ABlk 1 16; AInt I64]; cs_arg_vars_num := 2 |} in
  let i2 := {| cs_res := []; cs_args := [ABlk 1 8; AInt I64]; cs_arg_vars_num := 2 |} in
  ff_interface_eq_gen sized i1 i2 = true /\ ff_assign (cs_args i1) <> ff_assign (cs_args i2).
Proof. split; [reflexivity|vm_compute; intros H; discriminate]. Qed.

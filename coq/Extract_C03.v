From Coq Require Import Extraction ExtrOcamlBasic List ZArith.
From MirV Require Import C03.Thunk C03.ArgPass C03.CodePatch.
Extraction Language OCaml.
Extraction "c03x.ml" redirect_bytes get_thunk_addr jump_target fresh_thunk_bytes
  init_world step run current_impl get_fn replace_bb_thunk_bytes get_bb_thunk_bytes bb_thunk_exec
  ff_walk va_walk gen_walk wf_params change_code_region update_code_region protected.

(* Property C04: link-time simplification and inlining never change what a program computes.
   Level: partial.  Proved here: the value-level cores of simplification (operand lowering
   arithmetic, alloca consolidation, the "x op 1 / x op 0 => mov" shortcuts incl. the overflow-flag
   state, return merging with result extension) about models of the code in mir.c
   (coq/C04/Simplify.v); the shortcut opcode lists are regenerated from mir.c on every run
   (coq/gen/C04Shortcuts.v).  NOT proved: process_inlines as a whole, jump threading, label
   renumbering: they are covered by the differential run of checks/c04.py only.
   This file holds only the property theorems, each closed by [exact] + Print Assumptions. *)
From Coq Require Import List ZArith Bool.
From MirV Require Import Base.W64 Mir.Opcode Mir.Syntax Mir.Sem C01.InsnSem C04.Simplify C04.SimplifyProofs.
From MirV Require Import gen.C04Shortcuts C04.LoweringSem C04.LoweringSim.
Import ListNotations.
Local Open Scope Z_scope.

(* Operand lowering: the mov/mul/add chain simplify_op puts before an instruction with a memory
   operand leaves, in the address register, disp + base + index*scale modulo 2^64 - the address
   MIR.md (and Sem.eval_addr) give to the operand - for all register contents, displacements and
   the four scales, and changes no register of the original function. *)
Theorem lowered_address_eq : forall m t f,
  fresh t m ->
  (m_index m <> None -> m_scale m = 1 \/ m_scale m = 2 \/ m_scale m = 4 \/ m_scale m = 8) ->
  match lower m t with
  | (is, Some r) =>
      u64 (fold_left cexec is f r) = mem_addr f m /\
      (forall x, ~ In x (temps_list t) -> fold_left cexec is f x = f x)
  | (_, None) => m_base m = None /\ m_index m = None /\ m_disp m = 0
  end.
Proof. exact lowered_address_eq_lemma. Qed.
Print Assumptions lowered_address_eq.

(* the three instruction shapes of the chain mean in the reference semantics what [cexec] says
   ([int_val] is what the engine runs for them: C01.InsnSem.mir_val_int) *)
Theorem lowering_insns_meaning :
  (forall a b, int_val MUL [a; b] = Some (u64 (a * b))) /\
  (forall a b, int_val ADD [a; b] = Some (u64 (a + b))) /\
  val_op MUL = Some (K64, K64) /\ val_op ADD = Some (K64, K64) /\ val_op MOV = None.
Proof. exact cexec_matches_isem. Qed.
Print Assumptions lowering_insns_meaning.

(* ... and executing them with the reference semantics ([Sem.exec_insn], any instruction semantics in
   which add/mul are the modular operations) updates the destination register exactly as [cexec]
   does, keeps memory, pushes no event and stays Next: the chain theorem above is a theorem about Sem *)
Theorem lowering_add_in_sem : forall isem prog regions,
  (forall a b, sem_val isem ADD [a; b] = Some (u64 (a + b))) ->
  forall s f d a b va vb, reg_is f a va -> reg_is f b vb ->
  exec_insn isem prog regions s f (to_insn (CAdd d a b)) = Next (after s f d (u64 (u64 (va + vb)))).
Proof. exact exec_add. Qed.
Print Assumptions lowering_add_in_sem.

Theorem lowering_mul_in_sem : forall isem prog regions,
  (forall a b, sem_val isem MUL [a; b] = Some (u64 (a * b))) ->
  forall s f d a b va vb, reg_is f a va -> reg_is f b vb ->
  exec_insn isem prog regions s f (to_insn (CMul d a b)) = Next (after s f d (u64 (u64 (va * vb)))).
Proof. exact exec_mul. Qed.
Print Assumptions lowering_mul_in_sem.

Theorem lowering_mov_in_sem : forall isem prog regions s f d z,
  exec_insn isem prog regions s f (to_insn (CMovImm d z))
  = Next (upd_top s (next_pc (set_reg f d (V (u64 z) Def))) (st_mem s) None).
Proof. exact exec_movimm. Qed.
Print Assumptions lowering_mov_in_sem.

(* The whole chain executed by Sem.exec_insn step by step (run_chain), from any state whose top frame
   holds defined integers in the base/index registers: it runs to the end, touches only the fresh
   temporaries and the pc of the top frame (memory, alloca blocks, events, oracle, outer frames are
   unchanged), and afterwards the lowered operand (type, disp 0, base = address register) has the
   address Sem.eval_addr gave to the original operand before. *)
Theorem lowering_chain_in_sem : forall isem prog regions,
  (forall a b, sem_val isem ADD [a; b] = Some (u64 (a + b))) ->
  (forall a b, sem_val isem MUL [a; b] = Some (u64 (a * b))) ->
  forall m t s f rest cs a,
  st_frames s = f :: rest ->
  fresh t m ->
  (m_index m <> None -> m_scale m = 1 \/ m_scale m = 2 \/ m_scale m = 4 \/ m_scale m = 8) ->
  defd_opt (fr_regs f) (m_base m) -> defd_opt (fr_regs f) (m_index m) ->
  lower m t = (cs, Some a) ->
  exists s' f',
    run_chain isem prog regions s f cs = Some (s', f') /\
    st_frames s' = f' :: rest /\ same_state s s' /\ same_frame f f' (length cs) /\
    agree_out (temps_list t) (fr_regs f) (fr_regs f') /\
    eval_addr (fr_regs f') (lowered_memop m a) = eval_addr (fr_regs f) m.
Proof. exact lowered_operand_address. Qed.
Print Assumptions lowering_chain_in_sem.

(* simplify_insn for a memory SOURCE operand of a value instruction, as a simulation in Sem: if the
   original instruction (any opcode Sem runs through exec_val: all integer/FP arithmetic, comparisons,
   conversions, ext, overflow insns; operand list pre ++ [mem] ++ post, register or memory destination)
   executes to s1, then the chain followed by the instruction with the lowered operand executes too, to
   a state with the same memory, overflow flags, events, oracle, alloca blocks and outer frames, whose top
   frame has the same registers except the temporaries (pc advanced by the chain length). *)
Theorem simplify_mem_source_preserves : forall isem prog regions,
  (forall a b, sem_val isem ADD [a; b] = Some (u64 (a + b))) ->
  (forall a b, sem_val isem MUL [a; b] = Some (u64 (a * b))) ->
  forall m t s f rest cs a o ks kd dst pre post s1,
  st_frames s = f :: rest ->
  fresh t m ->
  (m_index m <> None -> m_scale m = 1 \/ m_scale m = 2 \/ m_scale m = 4 \/ m_scale m = 8) ->
  defd_opt (fr_regs f) (m_base m) -> defd_opt (fr_regs f) (m_index m) ->
  lower m t = (cs, Some a) ->
  no_temps (temps_list t) dst -> Forall (no_temps (temps_list t)) pre -> Forall (no_temps (temps_list t)) post ->
  exec_val isem regions s f o ks kd dst (pre ++ Omem m :: post) = Ok s1 ->
  exists s' f' s1',
    run_chain isem prog regions s f cs = Some (s', f') /\
    exec_val isem regions s' f' o ks kd dst (pre ++ Omem (lowered_memop m a) :: post) = Ok s1' /\
    sim_result (temps_list t) (length cs) s1 s1'.
Proof. exact lowering_preserves_value_insn. Qed.
Print Assumptions simplify_mem_source_preserves.

(* ... and for a memory DESTINATION operand (the store of the result) *)
Theorem simplify_mem_dest_preserves : forall isem prog regions,
  (forall a b, sem_val isem ADD [a; b] = Some (u64 (a + b))) ->
  (forall a b, sem_val isem MUL [a; b] = Some (u64 (a * b))) ->
  forall m t s f rest cs a o ks kd srcs s1,
  st_frames s = f :: rest ->
  fresh t m ->
  (m_index m <> None -> m_scale m = 1 \/ m_scale m = 2 \/ m_scale m = 4 \/ m_scale m = 8) ->
  defd_opt (fr_regs f) (m_base m) -> defd_opt (fr_regs f) (m_index m) ->
  lower m t = (cs, Some a) ->
  Forall (no_temps (temps_list t)) srcs ->
  exec_val isem regions s f o ks kd (Omem m) srcs = Ok s1 ->
  exists s' f' s1',
    run_chain isem prog regions s f cs = Some (s', f') /\
    exec_val isem regions s' f' o ks kd (Omem (lowered_memop m a)) srcs = Ok s1' /\
    sim_result (temps_list t) (length cs) s1 s1'.
Proof. exact lowering_preserves_store_insn. Qed.
Print Assumptions simplify_mem_dest_preserves.

(* simplify_op emits the address arithmetic of a memory RESULT operand behind a non-move insn, next to
   the store - except for the overflow insns ADDO..UMULOS, where it stays in front of the insn
   ([simplify_mem_dest_preserves]: in front, the state after the insn has the flags of the original).
   Behind the insn the chain would stand between the insn and the branch that reads its flags: after ANY
   non-empty chain (a displacement, a scaled index, base + index), run from any state - also one whose
   flags an overflow insn has just set - the flags are undefined and none of BO/BNO/UBO/UBNO can execute. *)
Theorem simplify_ovf_result_address_behind_loses_flags : forall isem prog regions,
  (forall a b, sem_val isem ADD [a; b] = Some (u64 (a + b))) ->
  (forall a b, sem_val isem MUL [a; b] = Some (u64 (a * b))) ->
  forall m t s f rest cs a,
  st_frames s = f :: rest ->
  defd_opt (fr_regs f) (m_base m) -> defd_opt (fr_regs f) (m_index m) ->
  lower m t = (cs, Some a) -> cs <> [] ->
  exists s' f',
    run_chain isem prog regions s f cs = Some (s', f') /\ st_flags s' = None /\
    forall o l, In o [BO; BNO; UBO; UBNO] ->
                exec_insn isem prog regions s' f' (I o [Olabel l]) = Fail E_flags.
Proof. exact result_address_after_overflow_insn. Qed.
Print Assumptions simplify_ovf_result_address_behind_loses_flags.

(* (the two hypotheses on the instruction semantics are [lowering_insns_meaning] for the integer
   semantics the engines are compared with: C01.InsnSem.mir_val_int) *)

(* Alloca consolidation: the blocks carved out of the merged alloca follow each other inside
   [0, total): any two are disjoint (any group size, any sizes incl. <= 0). *)
Theorem alloca_merge_disjoint : forall s0 rest,
  let '(offs, tot) := consolidate s0 rest in
  length offs = S (length rest) /\ chain 0 (blocks_of offs (s0 :: rest)) tot.
Proof. exact consolidate_chain. Qed.
Print Assumptions alloca_merge_disjoint.

Theorem alloca_chain_pairwise_disjoint : forall bl lo hi, chain lo bl hi ->
  forall i j o1 s1 o2 s2, (i < j)%nat -> nth_error bl i = Some (o1, s1) -> nth_error bl j = Some (o2, s2) ->
  o1 + s1 <= o2.
Proof. exact chain_disjoint. Qed.
Print Assumptions alloca_chain_pairwise_disjoint.

(* ... and every block lies at a multiple of the natural alignment of its (normalised) size - the
   second half of DESIGN's alloca_merge_disjoint_aligned.  It was false of the snapshot
   (alloca 16; alloca 1; alloca 8 put the 8-byte block at offset 17); the model follows 09d7e093, and the
   model is tied to the code by the offset correspondence run of checks/c04.py. *)
Theorem alloca_merge_aligned : forall s0 rest,
  Forall2 aligned_block (fst (consolidate s0 rest)) (s0 :: rest).
Proof. exact consolidate_aligned. Qed.
Print Assumptions alloca_merge_aligned.

(* Link-time shortcuts.  Every opcode the CURRENT mir.c lists for "insn x,y,1 => mov x,y"
   (resp. "insn x,y,0") computes, for all 2^64 values of y, a result whose defined bits equal
   those of y, and sets no overflow flag (so no following bo/bno can read a flag the removed
   instruction would have defined).  [shortcut_one]/[shortcut_zero] are regenerated from the source. *)
Theorem link_shortcuts_one_sound : forall o, In o shortcut_one -> acts_as_mov o 1.
Proof.
  intros o H. apply one_ok_sound.
  assert (E : forallb one_ok shortcut_one = true) by reflexivity.
  rewrite forallb_forall in E. now apply E.
Qed.
Print Assumptions link_shortcuts_one_sound.

Theorem link_shortcuts_zero_sound : forall o, In o shortcut_zero -> acts_as_mov o 0.
Proof.
  intros o H. apply zero_ok_sound.
  assert (E : forallb zero_ok shortcut_zero = true) by reflexivity.
  rewrite forallb_forall in E. now apply E.
Qed.
Print Assumptions link_shortcuts_zero_sound.

(* what the pinned snapshot did (DESIGN section 6 #9, fixed by a5713590) is not sound *)
Theorem link_shortcut_mulo_refuted : ~ acts_as_mov MULO 1 /\ ~ acts_as_mov MULOS 1.
Proof. exact mulo_is_not_a_mov. Qed.
Print Assumptions link_shortcut_mulo_refuted.

(* Link-time strength reduction by an immediate power of two.  The pairs (insn, insn') for which the CURRENT
   simplify_func rewrites [insn x, y, 2^n] (2^n > 1 a signed 64-bit immediate) into [insn' x, y, n] are regenerated
   from the source (none in the pinned tree; the translator also refuses every other place of simplify_func that
   reads the immediate of a second source, assigns insn->code or creates an insn of an unknown code, which turns
   [shortcut_one] into [INVALID_INSN] and breaks link_shortcuts_one_sound): each pair computes the same value,
   defined in the same cases, for every y and every 1 <= n <= 62, and neither sets an overflow flag. *)
Theorem link_strength_reductions_sound : forall p, In p strength_pow2 -> acts_as_shift (fst p) (snd p).
Proof.
  intros p H. apply strength_ok_sound.
  assert (E : forallb strength_ok strength_pow2 = true) by reflexivity.
  rewrite forallb_forall in E. now apply E.
Qed.
Print Assumptions link_strength_reductions_sound.

(* DIV x,y,2^n => RSH x,y,n (seeded change C04-z1) is not sound: -9 / 8 = -1 but -9 >> 3 = -2;
   MUL => LSH and UDIV => URSH are accepted by the checker the theorem above computes with *)
Theorem link_strength_div_rsh_refuted :
  ~ acts_as_shift DIV RSH /\ forallb strength_ok [(MUL, LSH); (UDIV, URSH)] = true.
Proof. split; [exact div_is_not_rsh | exact strength_ok_nonvacuous]. Qed.
Print Assumptions link_strength_div_rsh_refuted.

(* Return merging: the extension put before the single ret computes exactly the narrowing /
   extension the reference semantics applies to a returned value of that type ... *)
Theorem one_ret_ext_preserves : forall t o k, ret_ext t = Some (o, k) ->
  forall z, int_val o [mask k z] = ext_ty t z.
Proof. exact ret_ext_matches_conv. Qed.
Print Assumptions one_ret_ext_preserves.

(* ... and the moves replacing the other rets deliver every value when they go to pairwise distinct
   registers that are no sources (the repaired make_one_ret collects results in new temps) ... *)
Theorem one_ret_moves_preserve : forall ms f,
  NoDup (map fst ms) -> (forall d, In d (map fst ms) -> ~ In d (map snd ms)) ->
  forall d s, In (d, s) ms -> seq_moves ms f d = f s.
Proof. exact seq_moves_parallel. Qed.
Print Assumptions one_ret_moves_preserve.

(* ... but not when they go into the operands of the last ret as in the snapshot (ret a,b / ret b,a;
   found by the differential run, fixed by 18d358d5). *)
Theorem one_ret_moves_overlap_refuted :
  exists ms f d s, In (d, s) ms /\ seq_moves ms f d <> f s.
Proof. exact seq_moves_overlap_refuted. Qed.
Print Assumptions one_ret_moves_overlap_refuted.

(* Extensions of narrow parameters (simplify_func prepends one ext/uext per i8..u32 parameter): with the
   extensions in front of the body every label of the function is found where it was, shifted by the
   number of extensions - so every jump target lies behind all of them and no jump of the body, not even
   one to a label the body begins with, runs an extension again ... *)
Theorem param_exts_prepended_once : forall exts body l pc,
  Forall not_a_label exts ->
  find_label l (prepend_exts exts body) 0%nat = Some pc ->
  (length exts <= pc)%nat /\ find_label l body 0%nat = Some (pc - length exts)%nat.
Proof. exact prepend_exts_targets_behind. Qed.
Print Assumptions param_exts_prepended_once.

(* ... stated with the jump of the reference semantics: Sem.goto in the frame of the function with the
   extensions lands exactly where Sem.goto of the function as written lands, plus their number *)
Theorem param_exts_goto_in_sem : forall exts f l,
  Forall not_a_label exts ->
  goto (MkFrame (prepend_exts exts (fr_body f)) (fr_res f) (fr_pc f) (fr_regs f) (fr_blocks f) (fr_dsts f)) l
  = match goto f l with
    | Ok f' => Ok (MkFrame (prepend_exts exts (fr_body f)) (fr_res f) (length exts + fr_pc f')
                           (fr_regs f) (fr_blocks f) (fr_dsts f))
    | Er e => Er e
    end.
Proof. exact goto_prepend_exts. Qed.
Print Assumptions param_exts_goto_in_sem.

(* ... whereas an extension put behind a leading label (seeded change C04-y2) directly follows a jump
   target: a loop back to the label the body starts with extends the parameter again. *)
Theorem param_ext_after_head_label_refuted :
  exists e body l pc, not_a_label e /\ find_label l body 0%nat = Some pc /\
    find_label l (insert_after_head e body) 0%nat = Some pc /\
    nth_error (insert_after_head e body) (S pc) = Some e.
Proof. exact ext_after_head_label_refuted. Qed.
Print Assumptions param_ext_after_head_label_refuted.

(* non-vacuity: a memory operand with all four parts and distinct fresh temporaries *)
Example lowering_example :
  let m := MkMem T_I32 24 (Some 1%positive) (Some 2%positive) 8 in
  let t := MkTemps 10%positive 11%positive 12%positive 13%positive 14%positive in
  fresh t m /\ snd (lower m t) = Some 14%positive /\ length (fst (lower m t)) = 5%nat.
Proof.
  cbv zeta. split; [|split; reflexivity].
  unfold fresh, temps_list. cbn. repeat split.
  - repeat constructor; cbn; intuition discriminate.
  - intros r H; inversion H; subst; cbn; intuition discriminate.
  - intros r H; inversion H; subst; cbn; intuition discriminate.
Qed.

(* Property C18, source tie (round 3, wave 6): contexts are not coupled through the heap.  The block of a context comes
   from the user's allocator with arbitrary bytes (those of a finished context when blocks are reused).  Facts over the
   field lists regenerated from the current tree by tools/tr_c18_ctxinit.py (coq/gen/C18CtxInit.v), and the instance of
   the generic HeapInit theorems for them.  Only property theorems, each closed by [exact]. *)
From Coq Require Import List String ZArith Bool.
From MirV Require Import C18.HeapInit C18.CtxInitFacts gen.C18CtxInit.
Import ListNotations.

(* generic: if init stores to every field the behaviour depends on, the behaviour of the initialised context does not
   depend on what the allocator returned *)
Theorem init_makes_behaviour_heap_independent :
  forall (Obs : Type) (beh : block -> Obs) ws reads,
    (forall b1 b2, agree reads b1 b2 -> beh b1 = beh b2) ->
    covers ws reads = true ->
    forall b1 b2, List.length b1 = List.length b2 -> beh (run_init ws b1) = beh (run_init ws b2).
Proof. exact behaviour_independent_lemma. Qed.
Print Assumptions init_makes_behaviour_heap_independent.

(* generic, the converse (the dropped store): a field init does not write carries the previous owner's bytes into the
   new context -- two heaps exist on which the initialised contexts differ in that field *)
Theorem unwritten_field_couples_contexts :
  forall ws i n, i < n -> written ws i = false ->
    exists b1 b2, List.length b1 = n /\ List.length b2 = n /\
      nth_error (run_init ws b1) i = Some 0%Z /\ nth_error (run_init ws b2) i = Some 1%Z.
Proof. exact init_gap_inherits_lemma. Qed.
Print Assumptions unwritten_field_couples_contexts.

(* the regenerated fact (finite, exact): in the current tree _MIR_init / MIR_gen_init / interp_init (with the functions
   they call) store to every field of struct MIR_context / gen_ctx / interp_ctx outside the audited list *)
Theorem every_context_field_established : forallb struct_established ctx_structs = true.
Proof. exact all_established. Qed.
Print Assumptions every_context_field_established.

(* hence for the current tree: *)
Theorem context_behaviour_independent_of_heap :
  forall cs, In cs ctx_structs ->
    forall (Obs : Type) (beh : block -> Obs),
      (forall b1 b2, agree (read_fields cs) b1 b2 -> beh b1 = beh b2) ->
      forall b1 b2, List.length b1 = List.length b2 ->
        beh (run_init (init_stores cs) b1) = beh (run_init (init_stores cs) b2).
Proof. exact context_heap_independent_lemma. Qed.
Print Assumptions context_behaviour_independent_of_heap.

Theorem ctxinit_lists_not_trivial :
  List.length ctx_structs = 3%nat /\ (80 <= List.length (flat_map cs_fields ctx_structs))%nat.
Proof. exact three_structs. Qed.
Print Assumptions ctxinit_lists_not_trivial.

Theorem ctxinit_audit_is_not_stale :
  forallb (fun p => existsb (fun cs => String.eqb (cs_name cs) (fst p) && in_strs (snd p) (cs_fields cs)) ctx_structs)
          deferred_fields = true.
Proof. exact deferred_exist. Qed.
Print Assumptions ctxinit_audit_is_not_stale.

(* Property C09: c2mir's preprocessor expands macros and evaluates #if as C11 requires.
   This file holds only the property theorems, each closed by [exact] and followed by
   Print Assumptions.  Part 1: #if evaluation (PpIf = transcription of c2mir's evaluator after
   fixes/C09-1.patch, C11If = C11 6.10.1p4 written from the standard). *)
From Coq Require Import ZArith Bool List.
From MirV Require Import C09.PpIf C09.C11If C09.PpIfProofs C09.PpExpand C09.PpExpandProofs.
Local Open Scope Z_scope.

(* For every controlling expression to which C11 assigns a value (no evaluated division by zero,
   no signed overflow, shift counts in range, every constant has a type), c2mir's evaluator
   computes exactly that value with exactly that type (intmax_t / uintmax_t) and reports no error. *)
Theorem pp_if_eq_c11 : forall e, lits_ok e = true -> forall z, c11_eval e = Some z ->
  eval fixed e = (mkval (c11_type e) z, false).
Proof. exact eval_eq_c11. Qed.
Print Assumptions pp_if_eq_c11.

(* ... hence `#if e` keeps its group exactly when C11 says so. *)
Theorem pp_if_group_eq_c11 : forall e b, c11_taken e = Some b -> if_taken fixed e = b.
Proof. exact if_group_eq_c11. Qed.
Print Assumptions pp_if_group_eq_c11.

(* the static type used for the conversion of ?: arms is the C11 type *)
Theorem pp_if_type_eq_c11 : forall e, lits_ok e = true -> pre_unsigned_p fixed e = c11_type e.
Proof. exact type_eq_c11. Qed.
Print Assumptions pp_if_type_eq_c11.

(* typing of integer constants (get_int_node_from_repr + the #if token loop) is C11's *)
Theorem pp_if_constant_type_eq_c11 : forall l t, 0 <= l_val l -> lit_type l = Some t -> lit_uns fixed l = t.
Proof. exact lit_uns_eq_c11. Qed.
Print Assumptions pp_if_constant_type_eq_c11.

(* "division by zero in preprocessor" is reported only for expressions C11 leaves undefined:
   never for a division in an unevaluated operand of && || ?: *)
Theorem pp_if_error_only_if_undefined : forall e, lits_ok e = true -> snd (eval fixed e) = true -> c11_eval e = None.
Proof. exact error_only_if_undefined. Qed.
Print Assumptions pp_if_error_only_if_undefined.

(* The evaluator as it stood at the pinned commit violated the property: one witness per defect
   (each replayed against `c2m -E` and `gcc -E` by checks/c09.py, corpus/c09_if.txt). *)
Theorem pp_if_prefix_cmp_refuted : disagrees (mkq true false false false false)
  (EBin BGt (EBin BEq (ulit 1) (ulit 1)) (EUn UNeg (dlit 1))).
Proof. exact cmp_keeps_unsigned_refuted. Qed.
Theorem pp_if_prefix_not_refuted : disagrees (mkq false true false false false)
  (EBin BGt (EUn ULnot (ulit 0)) (EUn UNeg (dlit 1))).
Proof. exact not_keeps_unsigned_refuted. Qed.
Theorem pp_if_prefix_cond_refuted : disagrees (mkq false false true false false)
  (EBin BLt (ECond (dlit 1) (EUn UNeg (dlit 1)) (ulit 0)) (dlit 0)).
Proof. exact cond_unconverted_refuted. Qed.
Theorem pp_if_prefix_shift_refuted : disagrees (mkq false false false true false)
  (EBin BLt (EBin BShr (EUn UNeg (dlit 1)) (ulit 1)) (dlit 0)).
Proof. exact shift_converts_left_refuted. Qed.
Theorem pp_if_prefix_hexconst_refuted : disagrees (mkq false false false false true)
  (EBin BLt (EUn UNeg (xlit 2147483648)) (dlit 0)).
Proof. exact hex_uint_constant_refuted. Qed.
Print Assumptions pp_if_prefix_cmp_refuted.

(* ---------------- Part 2: the expansion loop (object-like macros) and the string codec ---------------- *)

(* For every finite table of object-like macros (self-referential and mutually recursive ones
   included) and every input, the loop of `processing` terminates: the explicit potential computed
   from the table is enough fuel. *)
Theorem expand_terminates : forall d N, table_bounded d N -> forall input, exists out, expand d N input = Some out.
Proof. exact expand_terminates_lemma. Qed.
Print Assumptions expand_terminates.

(* the "no recursion while on the stack" rule: in every reachable state macro_call_stack has no duplicates *)
Theorem no_macro_reentered_while_active : forall d N, table_bounded d N -> forall s, reachable d s -> NoDup (calls s).
Proof. exact no_recursion_lemma. Qed.
Print Assumptions no_macro_reentered_while_active.

(* painted identifiers are never expanded: the output contains no expandable identifier and is a
   fixed point of the expander (rescanning it, as argument pre-expansion and #if do, changes nothing) *)
Theorem painted_never_expanded : forall d N input out,
  expand d N input = Some out -> Forall (inert d) out /\ expand d N out = Some out.
Proof. exact painted_never_expanded_lemma. Qed.
Print Assumptions painted_never_expanded.

(* stringify / destringify (used for __FILE__, #line output and _Pragma): the full round trip is FALSE of
   the code as it is (two backslashes come back as one: destringify does not consume the escaped
   character); it holds when no backslash is followed by a backslash or a quote, and it holds for
   every string for destringizing as C11 6.10.9 words it.  Not observable in the token stream
   (only _Pragma text is destringized), hence no finding: see design/C09.md. *)
Theorem stringify_destringify_roundtrip_refuted : exists s, destringify (stringify s) <> s.
Proof. exact PpExpandProofs.stringify_destringify_roundtrip_refuted. Qed.
Theorem stringify_destringify_roundtrip_partial : forall s, no_bs_special s = true -> destringify (stringify s) = s.
Proof. exact PpExpandProofs.stringify_destringify_roundtrip_partial. Qed.
Theorem stringify_destringify_roundtrip_c11 : forall s, destringify_c11_body (strip_quotes (stringify s)) = s.
Proof. exact stringify_destringify_c11_roundtrip. Qed.
Print Assumptions stringify_destringify_roundtrip_partial.

From Coq Require Import Extraction ExtrOcamlBasic List ZArith.
From MirV Require Import C07.CConv C07.C11Conv C07.CFold C07.C11Fold.
Extraction Language OCaml.
Extraction "c07x.ml" ord of_ord integer_promotion arithmetic_conversion const_type c11_promote c11_conv
  c11_const_type fold_bin fold_un fold_cast fold_cond fold_andand fold_oror
  rt_bin rt_un rt_cast rt_cond rt_andand rt_oror wf.

From Coq Require Import Extraction ExtrOcamlBasic List ZArith.
From MirV Require Import C07.CConv C07.C11Conv C07.CFold C07.C11Fold C07.BitField C07.FFold.
Extraction Language OCaml.
Extraction "c07x.ml" ord of_ord integer_promotion arithmetic_conversion const_type c11_promote c11_conv
  c11_const_type fold_bin fold_un fold_cast fold_cond fold_andand fold_oror
  rt_bin rt_un rt_cast rt_cond rt_andand rt_oror wf
  wf_bf bf_load bf_store load_code store_code store_result c11_conv_bf c11_read_bf m_ne0 obj_unit obj_store
  ffold_bin ffold_un ffold_cast ffold_cond ffold_andand ffold_oror rt_fbin rt_fun rt_fcast rt_fcond rt_fandand rt_foror
  fp_make fp_inf fp_nan fp_view fp_type wfa.

From Coq Require Import Extraction ExtrOcamlBasic List ZArith.
From MirV Require Import C14.DataSection C14.Labels.
Extraction Language OCaml.
Extraction "c14x.ml" layout place_of sec_alloc image members is_data_like load_check tsize Z.add Z.mul Z.of_nat label_addr last_label thread_label.

(* Property C05: calls from MIR code to native functions follow the x86-64 SysV C ABI for every
   prototype.  Only the property theorems, each closed by [exact] and followed by Print Assumptions.
   Spec: C05/SysV.v (psABI algorithm).  Implementation models: C05/AbiImpl.v (transcriptions of
   _MIR_get_ff_call, machinize_call, target_machinize with fixes C05-1..3 applied; the pinned
   commit's loops are the *_head definitions, refuted below). *)
From Coq Require Import List ZArith.
From MirV Require Import Base.W64 C05.SysV C05.AbiImpl C05.AbiProofs C05.Conv C05.ConvProofs C05.BlkMov gen.C05Abi.
Import ListNotations.
Local Open Scope Z_scope.

(* (a) the interpreter's foreign-call trampoline assigns every argument of every well-formed
   argument list (named and variadic actuals alike) to exactly the psABI locations, and ends with
   the psABI counters. *)
Theorem ffcall_assign_eq_sysv : forall args, wf_args args = true -> ff_assign args = assign args.
Proof. exact ffcall_assign_eq. Qed.
Print Assumptions ffcall_assign_eq_sysv.

(* (b) generated code: machinize_call places every argument at the psABI location; its stack
   counter is the psABI's; its register counters (which keep counting past the register files)
   saturate to the psABI's. *)
Theorem machinize_assign_eq_sysv : forall args, wf_args args = true ->
  fst (mc_assign args) = fst (assign args)
  /\ so (snd (mc_assign args)) = so (snd (assign args))
  /\ nx (snd (assign args)) = Z.min (nx (snd (mc_assign args))) 8
  /\ ni (snd (assign args)) = Z.min (ni (snd (mc_assign args))) 6.
Proof. exact machinize_assign_eq. Qed.
Print Assumptions machinize_assign_eq_sysv.

(* the stack is 16-byte aligned at the call instruction, and the reserved area covers every stack
   argument: (a) for the trampoline entered with the ABI's rsp = 8 mod 16; (b) for generated code
   whose frame keeps rsp = 0 mod 16 (C06 frame_sp_aligned), where the adjustment is exactly the
   psABI area. *)
Theorem call_stack_aligned : forall args, wf_args args = true ->
  (forall entry_rsp, entry_rsp mod 16 = 8 ->
     (ff_rsp_at_call entry_rsp args) mod 16 = 0 /\ so (snd (assign args)) <= ff_sub_rsp args)
  /\ (forall frame_rsp, frame_rsp mod 16 = 0 ->
     (frame_rsp - mc_sub_rsp args) mod 16 = 0 /\ so (snd (assign args)) <= mc_sub_rsp args
     /\ mc_sub_rsp args = stack_area args).
Proof. intros args W; split; intros r H; [exact (ff_call_aligned args r W H)|exact (mc_call_aligned args r W H)]. Qed.
Print Assumptions call_stack_aligned.

(* every location handed out is a real argument register or lies inside the reserved stack area,
   and no two eightbytes (of the same or of different arguments) share a location *)
Theorem assign_locations_sound : forall args, wf_args args = true ->
  Forall (loc_in 0 (stack_area args)) (concat (fst (assign args)))
  /\ NoDup (concat (fst (assign args))).
Proof. intros args W; split; [exact (assign_locs_in_area args W)|exact (assign_nodup args W)]. Qed.
Print Assumptions assign_locations_sound.

(* hence a callee that reads each argument where the psABI puts it receives exactly the words the
   caller wrote for that argument -- for both engines, since they write per the same assignment *)
Theorem callee_receives_every_argument : forall args vals, wf_args args = true ->
  same_shape (fst (assign args)) vals ->
  read_args (fst (assign args)) (image (fst (ff_assign args)) vals) = map (map Some) vals
  /\ read_args (fst (assign args)) (image (fst (mc_assign args)) vals) = map (map Some) vals.
Proof.
  intros args vals W S. rewrite (ffcall_assign_eq args W).
  destruct (machinize_assign_eq args W) as [E _]. rewrite E.
  split; exact (sysv_roundtrip args vals W S).
Qed.
Print Assumptions callee_receives_every_argument.

(* %al of a variadic call is an upper bound (<= 8) on the vector registers used *)
Theorem varargs_al_ok : forall args, wf_args args = true ->
  al_ok args (mc_al args) = true /\ al_ok args ff_al = true.
Proof. intros args W; split; [exact (mc_al_ok args W)|exact (ff_al_ok args W)]. Qed.
Print Assumptions varargs_al_ok.

(* every legal combination of results is received from the registers the psABI returns it in *)
Theorem result_regs_eq_sysv : forall rs l, result_locs rs = Some l ->
  mc_results rs = Some l /\ ff_results rs = Some l.
Proof. exact result_regs_eq. Qed.
Print Assumptions result_regs_eq_sysv.

(* ... and "legal" is exactly: at most two results per class (MIR.md) *)
Theorem result_locs_total_on_legal : forall rs,
  (forall c, (cnt c rs <= 2)%nat) -> exists l, result_locs rs = Some l.
Proof. intros rs H. apply (result_locs_legal rs []). intros c. exact (H c). Qed.
Print Assumptions result_locs_total_on_legal.

(* the interpreter caches one trampoline per call signature key: call sites with equal keys need
   the same trampoline (same assignment, same stack adjustment, same result loop) *)
Theorem ff_cache_key_sound : forall i1 i2, wf_args (cs_args i1) = true -> wf_args (cs_args i2) = true ->
  ff_interface_eq i1 i2 = true ->
  ff_assign (cs_args i1) = ff_assign (cs_args i2) /\ ff_results (cs_res i1) = ff_results (cs_res i2)
  /\ ff_sub_rsp (cs_args i1) = ff_sub_rsp (cs_args i2).
Proof. exact ff_cache_key_sound_l. Qed.
Print Assumptions ff_cache_key_sound.

(* ---- value conversions (tables regenerated from the checked tree on every run: gen/C05Abi.v) ----
   MIR code receives every declared integer result -- of any result list, whatever its length and
   mix -- converted to its prototype type and extended to 64 bits, whatever the native callee left in
   the upper bits of the register: generated code (get_ext_code applied to each result in
   machinize_call) and the interpreter (result switch of call()); non-integer results pass through *)
Theorem results_correctly_extended : forall rs raw,
  received (fun t v => ext_sem (gen_ext_code t) v) rs raw = expected_results rs raw
  /\ received (fun t v => cast_sem (interp_call_res t) v) rs raw = expected_results rs raw.
Proof.
  intros rs raw; split; apply received_ok; intros t v; [exact (gen_ext_is_narrow t v)|exact (interp_res_is_widen t v)].
Qed.
Print Assumptions results_correctly_extended.

(* the conversion of a result (and of an argument) looks only at the bits of the prototype type *)
Theorem conversion_ignores_upper_bits : forall t v w, v mod 2 ^ ity_bits t = w mod 2 ^ ity_bits t ->
  widen_result t v = widen_result t w /\ narrow t v = narrow t w.
Proof. intros t v w H; split; exact (narrow_low_bits t v w H). Qed.
Print Assumptions conversion_ignores_upper_bits.

(* every integer argument reaches the callee converted to its prototype type in the bytes the ABI
   makes observable (4 for the narrow types -- the de-facto 32-bit extension --, 8 otherwise):
   generated code (get_ext_code) and interpreter (argument switch of call()) *)
Theorem arguments_narrowed_per_prototype : forall t v, exists w w',
  ext_sem (gen_ext_code t) v = Some w /\ cast_sem (interp_call_arg t) v = Some w'
  /\ low_eq (8 * obs_bytes t) w (narrow t v) /\ low_eq (8 * obs_bytes t) w' (narrow t v).
Proof. exact args_observable. Qed.
Print Assumptions arguments_narrowed_per_prototype.

(* GPR n / SSE n of the assignment theorems are the psABI's registers: the register tables of
   get_int_arg_reg / get_fp_arg_reg (generated code) and iregs[] / max_iregs / max_xregs
   (_MIR_get_ff_call) are rdi rsi rdx rcx r8 r9 and xmm0..xmm7, in this order, without repetition *)
Theorem argument_registers_eq_sysv :
  gen_int_arg_regs = sysv_int_arg_regs /\ gen_fp_arg_regs = sysv_fp_arg_regs
  /\ ff_iregs = sysv_int_arg_regs /\ ff_max_iregs = max_gpr /\ ff_max_xregs = max_sse
  /\ Z.of_nat (length sysv_int_arg_regs) = max_gpr /\ Z.of_nat (length sysv_fp_arg_regs) = max_sse
  /\ NoDup sysv_int_arg_regs /\ NoDup sysv_fp_arg_regs.
Proof. exact arg_regs_tables. Qed.
Print Assumptions argument_registers_eq_sysv.

(* non-vacuity: three results with dirty upper halves *)
Example results_extended_example :
  received (fun t v => ext_sem (gen_ext_code t) v) [RInt I8; RD; RInt U16] [0x1234567890abcd80; 77; 0xffffffffffff8001]
  = [Some 0xffffffffffffff80; Some 77; Some 0x8001].
Proof. reflexivity. Qed.

(* the copy loop of the interpreter trampoline for a stack-passed block (gen_blk_mov), emitted only for
   blocks of at least one eightbyte (fixes/C05-6.patch; the guard is read off the checked tree: gen_blk_mov_guarded), copies exactly the eightbytes 0..qwords-1 of
   the block -- nothing for an empty block; without the guard an empty block copies index -1, i.e.
   overwrites the preceding stack argument (replayed by ./check C05: `i64 x7, blk:0` via interp) *)
Theorem block_copy_loop_exact : forall q, 0 <= q -> ff_blk_copy gen_blk_mov_guarded q = Some (zrange (Z.to_nat q)).
Proof. exact ff_blk_copy_exact. Qed.
Print Assumptions block_copy_loop_exact.

Theorem block_copy_size0_head_refuted : exists q, 0 <= q /\ ff_blk_copy false q <> Some (zrange (Z.to_nat q)).
Proof. exists 0. split; [apply Z.le_refl|]. rewrite ff_blk_copy_size0_head. discriminate. Qed.
Print Assumptions block_copy_size0_head_refuted.

(* The loops of the pinned commit (before fixes C05-1..3) do NOT satisfy the theorems above:
   witnesses, replayed by ./check C05 on the real code. *)
Theorem ffcall_assign_head_refuted :
  exists args, wf_args args = true /\ fst (ff_assign_head args) <> fst (assign args).
Proof. exists [ABlk 3 16; AD]. exact ffcall_head_refuted. Qed.
Print Assumptions ffcall_assign_head_refuted.

Theorem ld_stack_alignment_head_refuted :
  exists args, wf_args args = true
  /\ fst (ff_assign_head args) <> fst (assign args)
  /\ fst (mc_assign_head args) <> fst (assign args)
  /\ fst (in_assign_head args) <> fst (assign args).
Proof. eexists. exact ld_align_head_refuted. Qed.
Print Assumptions ld_stack_alignment_head_refuted.

Theorem varargs_al_head_refuted :
  exists args, wf_args args = true /\ al_ok args (mc_al_head args) = false.
Proof. eexists. exact mc_al_head_refuted. Qed.
Print Assumptions varargs_al_head_refuted.

From Coq Require Import Extraction ExtrOcamlBasic List ZArith.
From MirV Require Import C09.PpIf C09.C11If C09.PpExpand.
Extraction Language OCaml.
Extraction "c09x.ml" eval if_taken pre_unsigned_p fixed prefix c11_if c11_taken lits_ok expand stringify destringify.

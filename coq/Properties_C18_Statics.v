(* Property C18, source tie: facts over the statics list regenerated from the current tree by
   tools/tr_c18_statics.py (coq/gen/C18Statics.v), and the instance of the generic theorem for it. *)
From Coq Require Import List String ZArith NArith Bool.
From MirV Require Import C18.Static C18.Contexts C18.ContextsProofs C18.Audit C18.StaticsFacts gen.C18Statics.
Import ListNotations.

(* The regenerated fact (finite, exact): in the objects of mir.c, mir-gen.c and c2mir.c built from
   the current tree no object in a writable section has a storing instruction, a syntactic
   assignment, or an unaudited escaping address. *)
Theorem no_conflicting_access : statics_write_free audited statics = true.
Proof. exact statics_free. Qed.
Print Assumptions no_conflicting_access.

(* hence the footprints computed from the tree are empty ... *)
Theorem library_functions_write_no_static : forall f, writes_of audited statics f = [].
Proof. exact statics_footprints_empty. Qed.
Print Assumptions library_functions_write_no_static.

(* ... and the generic theorem applies to the current tree: *)
Theorem contexts_independent :
  forall (Ctx : Type) (sched : list (nat * step Ctx)) (st : sys Ctx) (i : nat),
    Forall (fun p => step_ok Ctx (writes_of audited statics) (snd p)) sched ->
    result Ctx i (run Ctx sched st) = result Ctx i (run Ctx (alone Ctx i sched) st).
Proof. exact (fun Ctx => noninterference_lemma Ctx (writes_of audited statics) statics_footprints_empty). Qed.
Print Assumptions contexts_independent.

Theorem audit_is_not_stale :
  forallb (fun p => existsb (fun o => String.eqb (fst p) (so_unit o) && String.eqb (snd p) (so_name o)) statics)
          audited = true.
Proof. exact audit_entries_exist. Qed.
Print Assumptions audit_is_not_stale.

(* The library refers to no libc function that POSIX allows to keep process-wide hidden state
   (strtok, rand, localtime, gmtime, setlocale, getenv, strerror, ...; c2mir uses localtime_r). *)
Theorem no_thread_unsafe_libc_calls : unsafe_libc_refs = nil.
Proof. exact no_unsafe_libc. Qed.
Print Assumptions no_thread_unsafe_libc_calls.

(* C06 -- the control state a C-ABI callee must preserve (MXCSR control bits, x87 control word,
   direction flag; psABI 3.2.1) is never written by generated code: syntactic check of every
   replacement template of patterns[] (regenerated: gen/C05Abi.v gen_patterns) and a byte scan of the
   hand-written stubs of mir-x86_64.c (gen_stubs).  Definitions only.
   Instructions that write that state:  ldmxcsr 0F AE /2, fxrstor 0F AE /1, xrstor 0F AE /5,
   fldcw D9 /5, fldenv D9 /4, fninit DB E3, frstor DD /4, emms 0F 77, std FD. *)
From Coq Require Import List ZArith Bool.
From MirV Require Import C05.SysV C05.Conv.
Import ListNotations.
Local Open Scope Z_scope.

Fixpoint opbytes (ins : list ktok) : list Z :=
  match ins with [] => [] | KB b :: r => b :: opbytes r | _ :: r => opbytes r end.
Fixpoint slash (ins : list ktok) : option Z :=
  match ins with [] => None | KS d :: _ => Some d | _ :: r => slash r end.

Fixpoint prefix_eqb (p l : list Z) : bool :=
  match p, l with
  | [], _ => true
  | x :: p', y :: l' => (x =? y) && prefix_eqb p' l'
  | _, [] => false
  end.
Fixpoint has_sub (p l : list Z) : bool :=
  prefix_eqb p l || match l with [] => false | _ :: r => has_sub p r end.

Definition slash_in (s : option Z) (ds : list Z) : bool :=
  match s with Some d => existsb (Z.eqb d) ds | None => false end.

Definition insn_writes_ctl (ins : list ktok) : bool :=
  let bs := opbytes ins in let sl := slash ins in
  (has_sub [15; 174] bs && slash_in sl [1; 2; 5])
  || (has_sub [217] bs && slash_in sl [4; 5])
  || has_sub [219; 227] bs
  || (has_sub [221] bs && slash_in sl [4])
  || has_sub [15; 119] bs
  || has_sub [253] bs.

Definition table_ctl_free (t : list (list Z * list (list ktok))) : bool :=
  forallb (fun row => forallb (fun ins => negb (insn_writes_ctl ins)) (snd row)) t.

(* raw byte scan at every offset (conservative: instruction boundaries are not decoded) *)
Definition modrm_mem_reg (m : Z) (regs : list Z) : bool := (m <? 192) && existsb (Z.eqb ((m / 8) mod 8)) regs.
Fixpoint bytes_write_ctl (l : list Z) : bool :=
  match l with
  | [] => false
  | b :: r =>
      (match b, r with
       | 15, 174 :: m :: _ => modrm_mem_reg m [1; 2; 5]
       | 15, 119 :: _ => true
       | 217, m :: _ => modrm_mem_reg m [4; 5]
       | 219, 227 :: _ => true
       | 221, m :: _ => modrm_mem_reg m [4]
       | 253, _ => true
       | _, _ => false
       end) || bytes_write_ctl r
  end.
Definition stubs_ctl_free (l : list (list Z)) : bool := forallb (fun s => negb (bytes_write_ctl s)) l.

(* C06 -- how a generated function addresses its own frame while it calls other functions.

   target_get_stack_slot_base_reg: slots (spilled pseudos, values saved around calls) are addressed
   through rbp when the function keeps a frame pointer, through rsp otherwise.  machinize_call puts
       sub rsp,area ; <argument moves, block copies> ; call ; add rsp,area
   around a call whose stack-argument area is non-empty (area = round16 (scalar bytes + block bytes)),
   alloca lowers rsp for the rest of the function.  A function may therefore omit the frame pointer only
   if rsp never moves in its body.  Which calls force a frame pointer is read off the checked tree
   (gen/C05Abi.v: gen_call_fp_end_rule / _blk_rule / _scalar_rule).  Definitions only. *)
From Coq Require Import List ZArith Bool.
From MirV Require Import C06.Alloca.
Import ListNotations.
Local Open Scope Z_scope.

(* the stack-argument area of one call: bytes taken by scalars stored there (incl. 16 per long double
   and alignment padding), bytes taken by by-value blocks copied there *)
Record ocall := { oc_scalar : Z; oc_blk : Z }.
Definition oc_area (c : ocall) : Z := round16 (oc_scalar c + oc_blk c).
Definition oc_wf (c : ocall) : Prop := 0 <= oc_scalar c /\ 0 <= oc_blk c.

(* machinize_call's decision for one call, parameterised by where the code says prohibit_omitting_fp *)
Definition call_forces (endr blkr scr : bool) (c : ocall) : bool :=
  (endr && negb (oc_area c =? 0)) || (blkr && negb (oc_blk c =? 0)) || (scr && negb (oc_scalar c =? 0)).

(* body events that matter for rsp *)
Inductive bev := BAlloca (n : Z) | BCall (c : ocall).

(* features of the function itself that force a frame pointer in target_machinize *)
Record ffeat := { ff_vararg : bool; ff_stack_or_block_param : bool }.

Definition ev_forces (endr blkr scr allocar : bool) (e : bev) : bool :=
  match e with BAlloca _ => allocar | BCall c => call_forces endr blkr scr c end.

Definition keeps_fp (endr blkr scr allocar : bool) (f : ffeat) (evs : list bev) : bool :=
  ff_vararg f || ff_stack_or_block_param f || existsb (ev_forces endr blkr scr allocar) evs.

(* every value rsp has at a point of the body where a slot may be accessed: between events, and inside
   the sub/add window of a call (argument loads from slots, block copies, register saves) *)
Fixpoint sp_points (sp : Z) (evs : list bev) : list Z :=
  sp :: match evs with
        | [] => []
        | BAlloca n :: r => sp_points (sp - round16 n) r
        | BCall c :: r => (sp - oc_area c) :: sp_points sp r
        end.

(* address of the slot with frame offsets (off_fp from rbp, off_sp from rsp): target_get_stack_slot_base_reg *)
Definition body_slot_addr (keep_fp : bool) (rbp sp off_fp off_sp : Z) : Z :=
  if keep_fp then rbp + off_fp else sp + off_sp.

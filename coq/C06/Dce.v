(* C06 -- dead-code elimination and the insns of a callee body that have a side effect AND an output operand.
     ssa_dead_insn_p / ssa_dead_code_elimination      mir-gen.c (SSA DCE, -O2 and above)
     dead_code_elimination                            mir-gen.c (after register allocation, every level >= 1)
   Both delete an insn only when it has an output, no use of that output, and its code is not in a list of
   "control insns with possible output".  The list is read off the checked tree on every run
   (gen/C05Abi.v: gen_ssa_keeps_call ... gen_postra_keeps_va_arg).
   The body is abstracted to the insns that matter for what a C-ABI callee must observe: reads of the variadic tail
   (va_arg with a result register, va_block_arg without one) which advance the va_list, allocas which move rsp,
   calls, and ordinary insns (an output, no effect on that state).  Definitions only. *)
From Coq Require Import List ZArith Bool.
From MirV Require Import Base.W64 C05.SysV C05.AbiImpl C06.VaList.
Import ListNotations.
Local Open Scope Z_scope.

Inductive dinsn :=
| DVaRead (a : aty)        (* va_arg (scalar types: result = address of the argument) / va_block_arg (blocks) *)
| DAlloca (n : Z)
| DCall (id : Z)
| DPure.                   (* any insn with an output operand and no side effect *)

Record dstate := { d_va : va_list; d_sp : Z; d_calls : list Z }.

(* what executing one insn does to the state, and the argument locations a va read delivers *)
Definition dexec (i : dinsn) (st : dstate) : dstate * option (list loc) :=
  match i with
  | DVaRead a => let '(l, va1) := va_read true true (d_va st) a in
                 ({| d_va := va1; d_sp := d_sp st; d_calls := d_calls st |}, Some l)
  | DAlloca n => ({| d_va := d_va st; d_sp := d_sp st - (n + 15) / 16 * 16; d_calls := d_calls st |}, None)
  | DCall id => ({| d_va := d_va st; d_sp := d_sp st; d_calls := id :: d_calls st |}, None)
  | DPure => (st, None)
  end.

(* a body: insns with "the output has a use" (for insns without an output operand the flag means nothing).
   run returns the final state and, for every insn whose output is used, what it delivered *)
Fixpoint drun (p : list (dinsn * bool)) (st : dstate) : dstate * list (option (list loc)) :=
  match p with
  | [] => (st, [])
  | (i, used) :: r => let '(st1, o) := dexec i st in
                      let '(st2, os) := drun r st1 in
                      (st2, if used then o :: os else os)
  end.

(* the never-dead list of a DCE pass *)
Record dce_rules := { keeps_call : bool; keeps_alloca : bool; keeps_va_arg : bool }.

Definition has_output (i : dinsn) : bool :=
  match i with DVaRead (ABlk _ _) => false | _ => true end.

Definition never_dead (r : dce_rules) (i : dinsn) : bool :=
  match i with
  | DVaRead _ => keeps_va_arg r
  | DAlloca _ => keeps_alloca r
  | DCall _ => keeps_call r
  | DPure => false
  end.

(* the pass may delete this insn (cascading deletions included: any subset of deletable insns) *)
Definition deletable (r : dce_rules) (x : dinsn * bool) : bool :=
  has_output (fst x) && negb (snd x) && negb (never_dead r (fst x)).

(* a deletion mask that the pass could produce *)
Fixpoint mask_ok (r : dce_rules) (p : list (dinsn * bool)) (m : list bool) : bool :=
  match p, m with
  | [], [] => true
  | x :: p', b :: m' => (negb b || deletable r x) && mask_ok r p' m'
  | _, _ => false
  end.

Fixpoint dce_apply (p : list (dinsn * bool)) (m : list bool) : list (dinsn * bool) :=
  match p, m with
  | x :: p', b :: m' => if b then dce_apply p' m' else x :: dce_apply p' m'
  | _, _ => p
  end.

(* what a C-ABI callee needs from the list: calls and va reads survive (an alloca whose address is never used may go:
   nobody can access that memory) *)
Definition rules_ok (r : dce_rules) : bool := keeps_call r && keeps_va_arg r.

(* what is observable of a run: the va_list, the calls made, what the used insns delivered (not rsp: a deleted dead
   alloca changes it) *)
Definition dobs (x : dstate * list (option (list loc))) := (d_va (fst x), d_calls (fst x), snd x).

(* a body that reads the variadic tail `tail` in order and looks only at the arguments flagged in `used` *)
Fixpoint va_body (tail : list aty) (used : list bool) : list (dinsn * bool) :=
  match tail, used with
  | a :: t, u :: us => (DVaRead a, u) :: va_body t us
  | _, _ => []
  end.

Fixpoint select {A} (l : list A) (used : list bool) : list A :=
  match l, used with
  | x :: t, u :: us => if u then x :: select t us else select t us
  | _, _ => []
  end.

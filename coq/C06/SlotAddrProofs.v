(* C06 -- proofs for SlotAddr.v *)
From Coq Require Import List ZArith Bool Lia.
From MirV Require Import C06.Alloca C06.SlotAddr gen.C05Abi.
Import ListNotations.
Local Open Scope Z_scope.
Ltac Zify.zify_post_hook ::= Z.div_mod_to_equations.

Lemma round16_zero n : 0 <= n -> round16 n = 0 -> n = 0.
Proof. unfold round16. intros H E. lia. Qed.

Lemma round16_of_zero : round16 0 = 0.
Proof. reflexivity. Qed.

(* any placement of the forcing statements that covers the end rule, or both argument branches, forces a
   frame pointer for every call that has a stack-argument area *)
Lemma rules_cover endr blkr scr : endr || (blkr && scr) = true ->
  forall c, oc_wf c -> oc_area c <> 0 -> call_forces endr blkr scr c = true.
Proof.
  intros R c [Hs Hb] A. unfold call_forces.
  destruct (oc_area c =? 0) eqn:E; [apply Z.eqb_eq in E; contradiction|].
  destruct endr; cbn [andb orb negb]; [reflexivity|].
  cbn [orb] in R. apply andb_true_iff in R. destruct R as [-> ->]. cbn [andb].
  destruct (oc_blk c =? 0) eqn:Eb; cbn [negb orb]; [|reflexivity].
  destruct (oc_scalar c =? 0) eqn:Es; cbn [negb]; [|reflexivity].
  apply Z.eqb_eq in Eb. apply Z.eqb_eq in Es. exfalso. apply A. unfold oc_area. rewrite Eb, Es. reflexivity.
Qed.

(* the checked tree's placement is such a placement *)
Lemma gen_rules_cover : gen_call_fp_end_rule || (gen_call_fp_blk_rule && gen_call_fp_scalar_rule) = true.
Proof. reflexivity. Qed.

Lemma gen_call_forces c : oc_wf c -> oc_area c <> 0 ->
  call_forces gen_call_fp_end_rule gen_call_fp_blk_rule gen_call_fp_scalar_rule c = true.
Proof. exact (rules_cover _ _ _ gen_rules_cover c). Qed.

(* a body none of whose events forces a frame pointer never moves rsp *)
Lemma sp_points_fixed endr blkr scr :
  (forall c, oc_wf c -> oc_area c <> 0 -> call_forces endr blkr scr c = true) ->
  forall evs sp, Forall (fun e => match e with BCall c => oc_wf c | BAlloca _ => True end) evs ->
    existsb (ev_forces endr blkr scr true) evs = false ->
    Forall (fun x => x = sp) (sp_points sp evs).
Proof.
  intros R evs. induction evs as [|e r IH]; intros sp W N; cbn [sp_points].
  - constructor; [reflexivity|constructor].
  - cbn [existsb] in N. apply orb_false_iff in N. destruct N as [Ne Nr].
    inversion W as [|e' r' We Wr]; subst.
    destruct e as [n|c]; cbn [ev_forces] in Ne; [discriminate|].
    constructor; [reflexivity|].
    assert (A : oc_area c = 0).
    { destruct (Z.eq_dec (oc_area c) 0) as [A|A]; [exact A|]. rewrite (R c We A) in Ne. discriminate. }
    constructor; [rewrite A; lia|]. exact (IH sp Wr Nr).
Qed.

(* the slot address is the same at every point of the body, frame pointer or not *)
Lemma body_slot_addr_stable_gen f evs rbp F off_fp off_sp :
  Forall (fun e => match e with BCall c => oc_wf c | BAlloca _ => True end) evs ->
  let k := keeps_fp gen_call_fp_end_rule gen_call_fp_blk_rule gen_call_fp_scalar_rule gen_alloca_keeps_fp f evs in
  Forall (fun sp => body_slot_addr k rbp sp off_fp off_sp = body_slot_addr k rbp F off_fp off_sp) (sp_points F evs).
Proof.
  intros W k. destruct k eqn:K; unfold body_slot_addr.
  - apply Forall_forall. intros sp _. reflexivity.
  - subst k. unfold keeps_fp in K. apply orb_false_iff in K. destruct K as [_ K].
    change gen_alloca_keeps_fp with true in K.
    pose proof (sp_points_fixed _ _ _ gen_call_forces evs F W K) as P.
    apply Forall_forall. intros sp I. rewrite Forall_forall in P. rewrite (P sp I). reflexivity.
Qed.

(* a placement that forces the frame pointer only for scalar stack arguments is not enough: one call passing
   a 24-byte block by value, no other feature: the function keeps no frame pointer, and inside the call window
   every slot address is 32 bytes off *)
Lemma scalar_only_rule_refuted_lem :
  exists f evs F sp off,
    keeps_fp false false true true f evs = false /\ In sp (sp_points F evs)
    /\ body_slot_addr false 0 sp 0 off <> body_slot_addr false 0 F 0 off.
Proof.
  exists {| ff_vararg := false; ff_stack_or_block_param := false |}, [BCall {| oc_scalar := 0; oc_blk := 24 |}], 1024, (1024 - 32), 8.
  split; [reflexivity|]. split; [cbn; right; left; reflexivity|]. unfold body_slot_addr. lia.
Qed.

(* non-vacuity: a body with calls (register-only, and with an empty block) and no frame pointer *)
Example sp_frame_example :
  keeps_fp gen_call_fp_end_rule gen_call_fp_blk_rule gen_call_fp_scalar_rule gen_alloca_keeps_fp
    {| ff_vararg := false; ff_stack_or_block_param := false |}
    [BCall {| oc_scalar := 0; oc_blk := 0 |}; BCall {| oc_scalar := 0; oc_blk := 0 |}] = false
  /\ keeps_fp gen_call_fp_end_rule gen_call_fp_blk_rule gen_call_fp_scalar_rule gen_alloca_keeps_fp
    {| ff_vararg := false; ff_stack_or_block_param := false |} [BCall {| oc_scalar := 0; oc_blk := 24 |}] = true.
Proof. split; reflexivity. Qed.

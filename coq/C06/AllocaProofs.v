(* C06 -- proofs about alloca in generated code (definitions: Alloca.v; regenerated rows: gen/C05Abi.v) *)
From Coq Require Import List ZArith Bool Lia.
From MirV Require Import Base.W64 C05.SysV C05.Conv C06.Alloca gen.C05Abi.
Import ListNotations.
Local Open Scope Z_scope.
Ltac Zify.zify_post_hook ::= Z.div_mod_to_equations.

(* ------------------------------------------------------------------ arithmetic *)
Lemma land_m16 x : Z.land x (-16) = x / 16 * 16.
Proof.
  change (-16) with (Z.lnot (Z.ones 4)). rewrite <- Z.ldiff_land, Z.ldiff_ones_r by lia.
  rewrite Z.shiftl_mul_pow2, Z.shiftr_div_pow2 by lia. reflexivity.
Qed.

Lemma round16_facts n : 0 <= n -> n <= round16 n /\ round16 n mod 16 = 0 /\ round16 n < n + 16.
Proof. intros H. unfold round16. lia. Qed.

Lemma sub_mod16 a b : a mod 16 = 0 -> b mod 16 = 0 -> (a - b) mod 16 = 0.
Proof. intros. lia. Qed.

(* ------------------------------------------------------------------ (1) templates *)
Lemma alloca_rows_patterns : map fst gen_alloca_rows = [pat_r_r; pat_r_i2].
Proof. reflexivity. Qed.

Lemma alloca_rr_sem t sp r0 n : In (pat_r_r, t) gen_alloca_rows -> 0 <= n < 2 ^ 32 - 15 ->
  trun t {| t_sp := sp; t_r0 := r0; t_op1 := n |}
  = Some {| t_sp := sp - round16 n; t_r0 := sp - round16 n; t_op1 := n |}.
Proof.
  intros HI Hn. unfold gen_alloca_rows in HI. cbn [In] in HI.
  destruct HI as [E|[E|[]]]; inversion E; subst t; clear E.
  cbn [trun tinsn t_sp t_r0 t_op1].
  rewrite (Z.mod_small (n + 15)) by lia.
  change (sext32 4294967280) with (-16). rewrite land_m16. reflexivity.
Qed.

Lemma alloca_ri_sem t sp r0 n : In (pat_r_i2, t) gen_alloca_rows -> 0 <= n ->
  trun t {| t_sp := sp; t_r0 := r0; t_op1 := imm_round gen_alloca_imm_add gen_alloca_imm_mask n |}
  = Some {| t_sp := sp - round16 n; t_r0 := sp - round16 n;
            t_op1 := imm_round gen_alloca_imm_add gen_alloca_imm_mask n |}.
Proof.
  intros HI Hn. unfold gen_alloca_rows in HI. cbn [In] in HI.
  destruct HI as [E|[E|[]]]; inversion E; subst t; clear E.
  cbn [trun tinsn t_sp t_r0 t_op1].
  unfold imm_round, gen_alloca_imm_add, gen_alloca_imm_mask. rewrite land_m16. reflexivity.
Qed.

Lemma bstart_bend_sem :
  (forall sp r0 x, map (fun r => trun (snd r) {| t_sp := sp; t_r0 := r0; t_op1 := x |}) gen_bstart_rows
                   = [Some {| t_sp := sp; t_r0 := sp; t_op1 := x |}])
  /\ (forall sp r0 x, map (fun r => trun (snd r) {| t_sp := sp; t_r0 := r0; t_op1 := x |}) gen_bend_rows
                      = [Some {| t_sp := r0; t_r0 := r0; t_op1 := x |}]).
Proof. split; intros; reflexivity. Qed.

(* ------------------------------------------------------------------ (2) stack discipline *)
Lemma stacked_le lo hi bs : stacked lo hi bs -> lo <= hi.
Proof.
  revert lo. induction bs as [|b r IH]; cbn [stacked]; intros lo H; [exact H|].
  destruct H as (A & B & _ & D). specialize (IH _ D). lia.
Qed.

Lemma stacked_weaken lo lo' hi bs : lo' <= lo -> stacked lo hi bs -> stacked lo' hi bs.
Proof. destruct bs as [|b r]; cbn [stacked]; intros L H; [lia|]. destruct H as (A & B); split; [lia|exact B]. Qed.

Lemma stacked_in lo hi bs b : stacked lo hi bs -> In b bs ->
  lo <= b_addr b /\ b_addr b + b_size b <= hi /\ b_addr b mod 16 = 0 /\ 0 <= b_req b <= b_size b.
Proof.
  revert lo. induction bs as [|c r IH]; cbn [stacked In]; intros lo H HI; [contradiction|].
  destruct H as (A & B & C & D). destruct HI as [E|HI].
  - subst c. pose proof (stacked_le _ _ _ D). repeat split; try lia.
  - destruct (IH _ D HI) as (P & Q). split; [lia|exact Q].
Qed.

Lemma stacked_ordered lo hi bs : stacked lo hi bs ->
  ForallOrdPairs (fun b1 b2 => b_addr b1 + b_size b1 <= b_addr b2) bs.
Proof.
  revert lo. induction bs as [|c r IH]; cbn [stacked]; intros lo H; [constructor|].
  destruct H as (A & B & C & D). constructor; [|exact (IH _ D)].
  apply Forall_forall. intros b HI. destruct (stacked_in _ _ _ _ D HI) as (P & _). exact P.
Qed.

Lemma fop_impl {A} (P Q : A -> A -> Prop) l : (forall a b, P a b -> Q a b) -> ForallOrdPairs P l -> ForallOrdPairs Q l.
Proof.
  intros I O. induction O as [|b r Hb _ IH]; constructor; [|exact IH].
  apply Forall_forall. intros c HI. apply I. exact (proj1 (Forall_forall _ _) Hb c HI).
Qed.

Lemma marks_ok_weaken F sp sp' bs pre ms : sp' <= sp -> marks_ok F sp bs ms -> marks_ok F sp' (pre ++ bs) ms.
Proof.
  destruct ms as [|[m bl] r]; cbn [marks_ok]; intros L H; [exact I|].
  destruct H as (A & B & (p & E) & D). split; [lia|]. split; [exact B|]. split; [|exact D].
  exists (pre ++ p). rewrite E, app_assoc. reflexivity.
Qed.

Lemma marks_nth F i : forall sp bs ms m bl, marks_ok F sp bs ms -> nth_error ms i = Some (m, bl) ->
  sp <= m /\ m mod 16 = 0 /\ stacked m F bl /\ marks_ok F m bl (skipn i ms).
Proof.
  induction i as [|i IH]; intros sp bs [|[m0 bl0] r] m bl H E; cbn [nth_error] in E; try discriminate.
  - inversion E; subst m0 bl0. cbn [marks_ok skipn] in *. destruct H as (A & B & _ & D & R).
    repeat split; try assumption; try lia. exists []; reflexivity.
  - cbn [marks_ok] in H. destruct H as (A & B & _ & D & R).
    destruct (IH _ _ _ _ _ R E) as (P & Q & S & T). cbn [skipn]. repeat split; try assumption; lia.
Qed.

Lemma astep_inv F s e : ev_wf e -> AInv F s -> AInv F (astep s e).
Proof.
  intros W (A & B & C). destruct e as [n|k| |i]; cbn [astep ev_wf] in *.
  - destruct (round16_facts n ltac:(lia)) as (R1 & R2 & R3).
    unfold AInv; cbn [a_sp a_blocks a_marks]. split; [apply sub_mod16; assumption|]. split.
    + cbn [stacked b_addr b_size b_req]. split; [lia|]. split; [lia|]. split; [apply sub_mod16; assumption|].
      replace (a_sp s - round16 n + round16 n) with (a_sp s) by ring. exact B.
    + apply (marks_ok_weaken F (a_sp s) _ (a_blocks s) [_]); [lia|exact C].
  - split; [exact A|split; [exact B|exact C]].
  - unfold AInv; cbn [a_sp a_blocks a_marks marks_ok]. split; [exact A|]. split; [exact B|].
    split; [lia|]. split; [exact A|]. split; [exists []; reflexivity|]. split; [exact B|exact C].
  - destruct (nth_error (a_marks s) i) as [[m bl]|] eqn:E.
    + destruct (marks_nth F i _ _ _ _ _ C E) as (P & Q & S & T).
      unfold AInv; cbn [a_sp a_blocks a_marks]. split; [exact Q|split; [exact S|exact T]].
    + split; [exact A|split; [exact B|exact C]].
Qed.

Lemma arun_inv F evs : forall s, Forall ev_wf evs -> AInv F s -> AInv F (arun evs s).
Proof.
  induction evs as [|e r IH]; intros s W H; cbn [arun fold_left]; [exact H|].
  inversion W; subst. apply IH; [assumption|]. apply astep_inv; assumption.
Qed.

Lemma ainv0 F : F mod 16 = 0 -> AInv F (astate0 F).
Proof. intros H. unfold AInv, astate0; cbn. split; [exact H|]. split; [lia|exact I]. Qed.

(* the stack memory of every live alloca block, at any point of any legal history *)
Lemma alloca_live_blocks F evs : F mod 16 = 0 -> Forall ev_wf evs ->
  let s := arun evs (astate0 F) in
  a_sp s mod 16 = 0 /\ a_sp s <= F
  /\ (forall b, In b (a_blocks s) ->
        a_sp s <= b_addr b /\ b_addr b + b_size b <= F /\ b_addr b mod 16 = 0 /\ 0 <= b_req b <= b_size b)
  /\ ForallOrdPairs bdisjoint (a_blocks s)
  /\ (forall k, ev_wf (ECall k) ->
        call_rsp s k mod 16 = 0 /\ call_rsp s k + k <= F
        /\ forall b, In b (a_blocks s) -> call_rsp s k + k <= b_addr b).
Proof.
  intros HF W s. destruct (arun_inv F evs _ W (ainv0 F HF)) as (A & B & C). fold s in A, B, C.
  split; [exact A|]. split; [exact (stacked_le _ _ _ B)|]. split; [intros b HI; exact (stacked_in _ _ _ _ B HI)|]. split.
  - apply (fop_impl _ _ _ (fun a b H => or_introl H)). exact (stacked_ordered _ _ _ B).
  - intros k (K1 & K2). unfold call_rsp. split; [apply sub_mod16; assumption|].
    split; [pose proof (stacked_le _ _ _ B); lia|].
    intros b HI. destruct (stacked_in _ _ _ _ B HI) as (P & _). lia.
Qed.

(* a block stays live (same address, same size) as long as no bend releases it *)
Lemma astep_keeps s e b : (match e with EBend _ => False | _ => True end) -> In b (a_blocks s) -> In b (a_blocks (astep s e)).
Proof. destruct e; cbn [astep a_blocks]; intros H HI; try exact HI; [right; exact HI|contradiction]. Qed.

Lemma arun_keeps evs : forall s b, no_bend evs -> In b (a_blocks s) -> In b (a_blocks (arun evs s)).
Proof.
  induction evs as [|e r IH]; intros s b N HI; cbn [arun fold_left]; [exact HI|].
  inversion N; subst. apply IH; [assumption|]. apply astep_keeps; assumption.
Qed.

(* bend with the value of a pending bstart releases exactly the blocks allocated since that bstart *)
Lemma bend_restores s i m bl : nth_error (a_marks s) i = Some (m, bl) ->
  a_sp (astep s (EBend i)) = m /\ a_blocks (astep s (EBend i)) = bl.
Proof. intros E. cbn [astep]. rewrite E. split; reflexivity. Qed.

Lemma bstart_records s : a_marks (astep s EBstart) = (a_sp s, a_blocks s) :: a_marks s.
Proof. reflexivity. Qed.

(* ------------------------------------------------------------------ (3) merged constant allocas *)
Lemma natural_alignment_cases s : 0 < s ->
  let a := natural_alignment s in (a = 1 \/ a = 2 \/ a = 4 \/ a = 8 \/ a = 16) /\ (a <= s \/ (s < a /\ 2 < s)).
Proof.
  intros H. unfold natural_alignment.
  destruct (s <=? 2) eqn:E1; [split; lia|]. destruct (s <=? 4) eqn:E2; [split; lia|].
  destruct (s <=? 8) eqn:E3; split; lia.
Qed.

Lemma alloca_size_align_facts s : let '(sz, a) := alloca_size_align s in
  (a = 1 \/ a = 2 \/ a = 4 \/ a = 8 \/ a = 16) /\ 0 < sz /\ s <= sz /\ sz mod a = 0.
Proof.
  unfold alloca_size_align.
  set (s1 := if s <=? 0 then 1 else s). assert (H1 : 0 < s1 /\ s <= s1) by (unfold s1; destruct (s <=? 0) eqn:E; lia).
  destruct (natural_alignment_cases s1 (proj1 H1)) as (A & _). set (a := natural_alignment s1) in *. clearbody a s1.
  split; [exact A|]. destruct A as [A|[A|[A|[A|A]]]]; subst a; lia.
Qed.

Lemma merge_from_placed : forall sizes overall max_align,
  0 <= overall -> let '(l, tot) := merge_from true overall max_align sizes in placed overall l tot.
Proof.
  induction sizes as [|s r IH]; intros overall mx H0; cbn [merge_from].
  - cbn [placed]. lia.
  - pose proof (alloca_size_align_facts s) as F. destruct (alloca_size_align s) as [sz a].
    destruct F as (A & P & _ & _). cbn [orb].
    set (o1 := (overall + a - 1) / a * a).
    assert (O : overall <= o1 /\ o1 mod a = 0) by (unfold o1; destruct A as [A|[A|[A|[A|A]]]]; subst a; lia).
    specialize (IH (o1 + sz) (if mx <? a then a else mx) ltac:(lia)).
    destruct (merge_from true (o1 + sz) (if mx <? a then a else mx) r) as [l tot].
    cbn [placed]. repeat split; try lia. exact IH.
Qed.

Lemma merge_placed sizes : let '(l, tot) := merge true sizes in placed 0 l tot.
Proof. apply merge_from_placed. lia. Qed.

Lemma merge_sizes always : forall sizes overall mx,
  map (fun x => snd (fst x)) (fst (merge_from always overall mx sizes)) = map (fun s => fst (alloca_size_align s)) sizes
  /\ map snd (fst (merge_from always overall mx sizes)) = map (fun s => snd (alloca_size_align s)) sizes.
Proof.
  induction sizes as [|s r IH]; intros overall mx; cbn [merge_from]; [split; reflexivity|].
  destruct (alloca_size_align s) as [sz a] eqn:E.
  set (o1 := if always || (mx <? a) then (overall + a - 1) / a * a else overall).
  specialize (IH (o1 + sz) (if mx <? a then a else mx)).
  destruct (merge_from always (o1 + sz) (if mx <? a then a else mx) r) as [l tot].
  cbn [fst snd map] in *. destruct IH as [I1 I2]. rewrite I1, I2, E. split; reflexivity.
Qed.

(* the pinned rule misplaces a block: allocas of 16, 1 and 8 bytes put the 8-byte block at offset 17 *)
Lemma merge_head_refuted : exists sizes, ~ (let '(l, tot) := merge false sizes in placed 0 l tot).
Proof.
  exists [16; 1; 8]. vm_compute. intros (_ & _ & _ & _ & _ & _ & _ & H & _). discriminate H.
Qed.

(* C06 -- proofs about dead-code elimination and side-effecting insns with dead outputs (Dce.v) *)
From Coq Require Import List ZArith Bool Lia.
From MirV Require Import Base.W64 C05.SysV C05.AbiImpl C06.VaList C06.VaProofs C06.Dce gen.C05Abi.
Import ListNotations.
Local Open Scope Z_scope.

(* under rules that keep calls and va_arg, the only deletable insns are pure ones and allocas, with an unused output *)
Lemma deletable_cases r x : rules_ok r = true -> deletable r x = true ->
  snd x = false /\ (fst x = DPure \/ exists n, fst x = DAlloca n).
Proof.
  unfold rules_ok, deletable; intros R D; destruct x as [i u]; simpl in *.
  apply andb_true_iff in R as [Rc Rv].
  apply andb_true_iff in D as [D N]; apply andb_true_iff in D as [_ U].
  destruct u; [discriminate|]. split; [reflexivity|].
  destruct i; simpl in N; rewrite ?Rv, ?Rc in N; try discriminate; [right; eexists; reflexivity|left; reflexivity].
Qed.

Lemma dexec_congr i st st' : d_va st = d_va st' -> d_calls st = d_calls st' ->
  snd (dexec i st) = snd (dexec i st') /\ d_va (fst (dexec i st)) = d_va (fst (dexec i st'))
  /\ d_calls (fst (dexec i st)) = d_calls (fst (dexec i st')).
Proof.
  intros V C; destruct i; simpl; rewrite ?V, ?C; try (repeat split; assumption || reflexivity).
  destruct (va_read true true (d_va st') a); simpl; repeat split; assumption || reflexivity.
Qed.

Lemma dce_preserves r : rules_ok r = true -> forall p m st st', d_va st = d_va st' -> d_calls st = d_calls st' ->
  mask_ok r p m = true -> dobs (drun (dce_apply p m) st) = dobs (drun p st').
Proof.
  intros R p; induction p as [|x p IH]; intros m st st' V C M; destruct m as [|b m]; simpl in *; try discriminate.
  - unfold dobs; simpl; rewrite V, C; reflexivity.
  - apply andb_true_iff in M as [B M].
    destruct b.
    + simpl in B. destruct (deletable_cases r x R B) as [U [P|[n P]]]; destruct x as [i u]; simpl in U, P; subst.
      * simpl. rewrite (IH m st st' V C M). destruct (drun p st'); reflexivity.
      * simpl.
        rewrite (IH m st {| d_va := d_va st'; d_sp := d_sp st' - (n + 15) / 16 * 16; d_calls := d_calls st' |} V C M).
        destruct (drun p _); reflexivity.
    + destruct x as [i u]. simpl.
      destruct (dexec_congr i st st' V C) as (O & V1 & C1).
      destruct (dexec i st) as [s1 o]; destruct (dexec i st') as [s1' o']; simpl in *. subst o'.
      specialize (IH m s1 s1' V1 C1 M).
      destruct (drun (dce_apply p m) s1) as [s2 os]; destruct (drun p s1') as [s2' os'].
      unfold dobs in *; simpl in *. injection IH as E1 E2 E3. rewrite E1, E2, E3. destruct u; reflexivity.
Qed.

(* a body that only reads the tail *)
Lemma va_body_run tail : forall used st, length used = length tail ->
  snd (drun (va_body tail used) st) = map Some (select (fst (va_read_seq true true (d_va st) tail)) used)
  /\ d_va (fst (drun (va_body tail used) st)) = snd (va_read_seq true true (d_va st) tail)
  /\ d_sp (fst (drun (va_body tail used) st)) = d_sp st
  /\ d_calls (fst (drun (va_body tail used) st)) = d_calls st.
Proof.
  induction tail as [|a t IH]; intros used st L; destruct used as [|u us]; simpl in *; try discriminate.
  - repeat split; reflexivity.
  - injection L as L.
    destruct (va_read true true (d_va st) a) as [l va1] eqn:E.
    specialize (IH us {| d_va := va1; d_sp := d_sp st; d_calls := d_calls st |} L). simpl in IH.
    destruct (drun (va_body t us) {| d_va := va1; d_sp := d_sp st; d_calls := d_calls st |}) as [st2 os].
    destruct (va_read_seq true true va1 t) as [ls va2]. simpl in *.
    destruct IH as (I1 & I2 & I3 & I4).
    destruct u; simpl; rewrite I1; repeat split; assumption.
Qed.

Definition gen_ssa_rules : dce_rules :=
  {| keeps_call := gen_ssa_keeps_call; keeps_alloca := gen_ssa_keeps_alloca; keeps_va_arg := gen_ssa_keeps_va_arg |}.
(* after register allocation va_arg is a call of va_arg_builtin (target_machinize lowered it): what keeps it is the
   call entry of that list *)
Definition gen_postra_rules : dce_rules :=
  {| keeps_call := gen_postra_keeps_call; keeps_alloca := gen_postra_keeps_alloca; keeps_va_arg := gen_postra_keeps_call |}.

(* the lists of the checked tree keep every side-effecting insn *)
Lemma gen_dce_rules_ok : rules_ok gen_ssa_rules = true /\ rules_ok gen_postra_rules = true.
Proof. split; reflexivity. Qed.

Lemma skipped_reads_eq_sysv r : rules_ok r = true -> forall named tail used m sp calls,
  wf_args (named ++ tail) = true -> length used = length tail ->
  mask_ok r (va_body tail used) m = true ->
  let st0 := {| d_va := gen_va_start named; d_sp := sp; d_calls := calls |} in
  let st1 := {| d_va := snd (interp_decode true named); d_sp := sp; d_calls := calls |} in
  snd (drun (dce_apply (va_body tail used) m) st0)
    = map Some (select (skipn (length named) (fst (assign (named ++ tail)))) used)
  /\ snd (drun (dce_apply (va_body tail used) m) st1)
    = map Some (select (skipn (length named) (fst (assign (named ++ tail)))) used)
  /\ d_va (fst (drun (dce_apply (va_body tail used) m) st0)) = snd (va_read_seq true true (gen_va_start named) tail).
Proof.
  intros R named tail used m sp calls W L M st0 st1.
  pose proof (dce_preserves r R _ _ st0 st0 eq_refl eq_refl M) as P0.
  pose proof (dce_preserves r R _ _ st1 st1 eq_refl eq_refl M) as P1.
  unfold dobs in P0, P1. injection P0 as P0a _ P0c. injection P1 as _ _ P1c.
  rewrite P0a, P0c, P1c.
  destruct (va_body_run tail used st0 L) as (A1 & A2 & _).
  destruct (va_body_run tail used st1 L) as (B1 & _).
  rewrite A1, B1, A2. unfold st0, st1; simpl.
  rewrite (gen_va_tail_eq named tail W), (interp_va_tail_eq named tail W). repeat split; reflexivity.
Qed.

(* a list without va_arg (seeded C06-z1): `(void) va_arg (ap, long); x = va_arg (ap, long);` after one named pointer *)
Definition no_va_arg_rules : dce_rules := {| keeps_call := true; keeps_alloca := true; keeps_va_arg := false |}.

Lemma no_va_arg_rule_refuted : exists named tail used m,
  wf_args (named ++ tail) = true /\ length used = length tail /\ mask_ok no_va_arg_rules (va_body tail used) m = true
  /\ snd (drun (dce_apply (va_body tail used) m) {| d_va := gen_va_start named; d_sp := 0; d_calls := [] |})
     <> map Some (select (skipn (length named) (fst (assign (named ++ tail)))) used).
Proof.
  exists [AInt Pt], [AInt I64; AInt I64], [false; true], [true; false].
  repeat split; try reflexivity. vm_compute. discriminate.
Qed.

(* non-vacuity: a body with a skipped long, a skipped double (in xmm), a skipped block and a used long double;
   cascading deletion of two pure insns; the used reads are the psABI locations *)
Example dce_example :
  let p := [(DPure, false); (DVaRead (AInt I64), false); (DAlloca 24, false); (DVaRead AD, false); (DCall 7, false);
            (DVaRead (ABlk 0 24), false); (DPure, false); (DVaRead ALD, true); (DVaRead (AInt I64), true)] in
  let m := [true; false; false; false; false; false; true; false; false] in
  mask_ok gen_ssa_rules p m = true
  /\ drun (dce_apply p m) {| d_va := gen_va_start [AInt Pt]; d_sp := 0; d_calls := [] |}
     = ({| d_va := {| gp_offset := 24; fp_offset := 64; ov := 48 |}; d_sp := -32; d_calls := [7] |},
        [Some [Stk 32; Stk 40]; Some [GPR 2]]).
Proof. vm_compute. split; reflexivity. Qed.

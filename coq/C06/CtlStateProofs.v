From Coq Require Import List ZArith Bool.
From MirV Require Import C05.SysV C05.Conv C06.CtlState gen.C05Abi.
Import ListNotations.
Local Open Scope Z_scope.

Lemma table_free_sweep : table_ctl_free gen_patterns = true.
Proof. vm_compute. reflexivity. Qed.

Lemma stubs_free_sweep : stubs_ctl_free gen_stubs = true.
Proof. vm_compute. reflexivity. Qed.

Lemma no_template_writes_ctl : forall row ins, In row gen_patterns -> In ins (snd row) -> insn_writes_ctl ins = false.
Proof.
  intros row ins HR HI. pose proof table_free_sweep as H. unfold table_ctl_free in H.
  rewrite forallb_forall in H. specialize (H row HR). rewrite forallb_forall in H. specialize (H ins HI).
  destruct (insn_writes_ctl ins); [discriminate|reflexivity].
Qed.

Lemma no_stub_writes_ctl : forall s, In s gen_stubs -> bytes_write_ctl s = false.
Proof.
  intros s HS. pose proof stubs_free_sweep as H. unfold stubs_ctl_free in H.
  rewrite forallb_forall in H. specialize (H s HS). destruct (bytes_write_ctl s); [discriminate|reflexivity].
Qed.

(* the checks are not vacuous: the table is the real one, and the recognisers fire on the writers *)
Lemma ctl_nonvacuous :
  (500 < length gen_patterns)%nat /\ (20 < length gen_stubs)%nat
  /\ insn_writes_ctl [KB 15; KB 174; KS 2; KO] = true          (* ldmxcsr m *)
  /\ insn_writes_ctl [KB 217; KS 5; KO] = true                 (* fldcw m *)
  /\ insn_writes_ctl [KB 217; KS 0; KO] = false                (* flds m *)
  /\ insn_writes_ctl [KB 219; KS 7; KO] = false                (* fstpt m *)
  /\ bytes_write_ctl [72; 15; 174; 84; 36; 8] = true           (* ldmxcsr 8(%rsp) *)
  /\ bytes_write_ctl [217; 108; 36; 4] = true                  (* fldcw 4(%rsp) *)
  /\ bytes_write_ctl [217; 201] = false.                       (* fxch *)
Proof. vm_compute. repeat split; try reflexivity; apply Nat.leb_le; reflexivity. Qed.

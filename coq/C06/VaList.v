(* C06 -- the va_list machinery of MIR functions on x86-64 SysV.  Transcriptions of
     va_arg_builtin, va_block_arg_builtin            mir-x86_64.c:41-113
     MIR_VA_START lowering in target_machinize       mir-gen-x86_64.c (case MIR_VA_START)
     the va_list the interpreter shim builds         mir-x86_64.c _MIR_get_interp_shim prepare_pat
     interp(): decoding of the fixed parameters       mir-interp.c:1992-2044
   over an abstract va_list {gp_offset, fp_offset, overflow_arg_area}.  reg_save_area is laid out
   as the psABI prescribes (and as both the generated prologue and the shim's pushes fill it):
   integer argument register n at offset 8n, xmm<n> at offset 48+16n; overflow_arg_area is kept as
   an offset into the caller's stack-argument area (Stk coordinates of SysV.v).
   Main definitions = code with fixes C05-2 (16-byte alignment of a long double taken from the
   overflow area), C06-1 (blk2 bounds check, blk3/4 fp_offset step) and C06-2 (va_start uses the
   counters of the incoming-argument loop).  *_head = pinned commit.  Definitions only. *)
From Coq Require Import List ZArith Bool.
From MirV Require Import Base.W64 C05.SysV C05.AbiImpl.
Import ListNotations.
Local Open Scope Z_scope.

Record va_list := { gp_offset : Z; fp_offset : Z; ov : Z }.

(* which argument register a reg_save_area offset holds *)
Definition gp_loc (off : Z) : loc := GPR (off / 8).
Definition fp_loc (off : Z) : loc := SSE ((off - 48) / 16).

Inductive va_ty := VInt | VFp | VLd.

(* void *va_arg_builtin (void *p, uint64_t t): returns the address of the next argument *)
Definition va_arg_builtin (ld_align : bool) (va : va_list) (t : va_ty) : list loc * va_list :=
  let fp_p := match t with VFp => true | _ => false end in
  let ld_p := match t with VLd => true | _ => false end in
  if fp_p && (fp_offset va <=? 160) then
    ([fp_loc (fp_offset va)], {| gp_offset := gp_offset va; fp_offset := fp_offset va + 16; ov := ov va |})
  else if negb fp_p && negb ld_p && (gp_offset va <=? 40) then
    ([gp_loc (gp_offset va)], {| gp_offset := gp_offset va + 8; fp_offset := fp_offset va; ov := ov va |})
  else
    let a := if ld_p && ld_align then (ov va + 15) / 16 * 16 else ov va in
    (if ld_p then [Stk a; Stk (a + 8)] else [Stk a],
     {| gp_offset := gp_offset va; fp_offset := fp_offset va; ov := a + (if ld_p then 16 else 8) |}).

(* void va_block_arg_builtin (void *res, void *p, size_t s, uint64_t ncase) *)
Definition va_block_arg_builtin (fixed : bool) (va : va_list) (s : Z) (ncase : nat) : list loc * va_list :=
  let size := (s + 7) / 8 * 8 in
  let mem := (stack_words (ov va) (Z.to_nat (size / 8)),
              {| gp_offset := gp_offset va; fp_offset := fp_offset va; ov := ov va + size / 8 * 8 |}) in
  match ncase with
  | 1%nat =>
      if 48 <? gp_offset va + size then mem
      else (gp_loc (gp_offset va) :: (if 8 <? size then [gp_loc (gp_offset va + 8)] else []),
            {| gp_offset := gp_offset va + (if 8 <? size then 16 else 8); fp_offset := fp_offset va; ov := ov va |})
  | 2%nat =>
      if fixed && (176 <? fp_offset va + size * 2) then mem
      else (fp_loc (fp_offset va) :: (if 8 <? size then [fp_loc (fp_offset va + 16)] else []),
            {| gp_offset := gp_offset va; fp_offset := fp_offset va + (if 8 <? size then 32 else 16); ov := ov va |})
  | 3%nat | 4%nat =>
      if (160 <? fp_offset va) || (40 <? gp_offset va) then mem
      else ((if Nat.eqb ncase 3 then [gp_loc (gp_offset va); fp_loc (fp_offset va)]
             else [fp_loc (fp_offset va); gp_loc (gp_offset va)]),
            {| gp_offset := gp_offset va + 8; fp_offset := fp_offset va + (if fixed then 16 else 8); ov := ov va |})
  | _ => mem
  end.

(* how MIR code (c2mir's va_arg lowering, and interp() for the fixed parameters) reads an argument
   of a given type: va_arg with the memory operand's type, va_block_arg with size and case *)
Definition va_read (f1 f2 : bool) (va : va_list) (a : aty) : list loc * va_list :=
  match a with
  | AInt _ | ARblk _ => va_arg_builtin f1 va VInt
  | AF | AD => va_arg_builtin f1 va VFp
  | ALD => va_arg_builtin f1 va VLd
  | ABlk k s => va_block_arg_builtin f2 va s k
  end.

Fixpoint va_read_seq (f1 f2 : bool) (va : va_list) (args : list aty) : list (list loc) * va_list :=
  match args with
  | [] => ([], va)
  | a :: r => let '(l, va1) := va_read f1 f2 va a in
              let '(ls, va2) := va_read_seq f1 f2 va1 r in (l :: ls, va2)
  end.

(* the va_list of the interpreter shim: gp_offset 0, fp_offset 48, overflow area = first stack arg *)
Definition shim_va_list : va_list := {| gp_offset := 0; fp_offset := 48; ov := 0 |}.

(* interp(): the fixed parameters are taken from that va_list in order -- scalars with the C
   compiler's va_arg (psABI-conformant: modelled as va_arg_builtin with the alignment), blocks
   with va_block_arg_builtin; MIR_VA_START then hands the remaining state to the MIR code *)
Definition interp_decode (fixed : bool) (named : list aty) := va_read_seq true fixed shim_va_list named.

(* MIR_VA_START in generated code, with fix C06-2: the state after the fixed parameters as counted
   by the incoming-argument loop (c) *)
Definition gen_va_start (named : list aty) : va_list :=
  let st := snd (in_assign named) in
  {| gp_offset := (if ni st <? 6 then ni st else 6) * 8;
     fp_offset := 48 + (if nx st <? 8 then nx st else 8) * 16;
     ov := so st |}.

(* MIR_VA_START in generated code at the pinned commit: a separate recomputation loop *)
Fixpoint gen_va_start_head_from (gp fp mem : Z) (named : list aty) : va_list :=
  match named with
  | [] => {| gp_offset := gp; fp_offset := fp; ov := mem |}
  | a :: r =>
      match a with
      | AF | AD => gen_va_start_head_from gp (fp + 16) (if 176 <=? gp then mem + 8 else mem) r
      | ALD => gen_va_start_head_from gp fp (mem + 16) r
      | ABlk _ s => gen_va_start_head_from gp fp (mem + s) r
      | AInt _ | ARblk _ => gen_va_start_head_from (gp + 8) fp (if 48 <=? gp + 8 then mem + 8 else mem) r
      end
  end.
Definition gen_va_start_head (named : list aty) := gen_va_start_head_from 0 48 0 named.

(* the va_list that corresponds to a psABI allocation state *)
Definition va_of (st : astate) : va_list :=
  {| gp_offset := 8 * ni st; fp_offset := 48 + 16 * nx st; ov := so st |}.

(* result registers on the callee side: the MIR_RET case of target_machinize and the result loop of
   _MIR_get_interp_shim are the same if-chain as machinize_call's (AbiImpl.res_chain); the shim
   loads two long doubles with "fldt r0; fldt r1; fxch", i.e. first in st0, second in st1 *)
Definition ret_results (rs : list rty) := res_chain 0 0 0 rs.
Definition shim_results (rs : list rty) := res_chain 0 0 0 rs.

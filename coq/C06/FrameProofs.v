(* C06 -- proofs about the frame arithmetic of generated functions. *)
From Coq Require Import List ZArith Bool Lia ZifyBool.
From MirV Require Import Base.W64 C06.Frame.
Require MirV.C06.Alloca MirV.C06.AllocaProofs.
Import ListNotations.
Local Open Scope Z_scope.
Ltac Zify.zify_post_hook ::= Z.div_mod_to_equations.
Local Arguments Z.mul : simpl never.
Local Arguments Z.add : simpl never.
Local Arguments Z.sub : simpl never.
Local Arguments Z.div : simpl never.
Local Arguments Z.of_nat : simpl never.

(* ---------------------------------------------------------------- classification (finite domain) *)
Lemma classification_sweep :
  forallb (fun r => (implb (sysv_callee_saved r) (negb (call_used r) || (r =? SP) || (r =? BP)))
                    && (implb (negb (call_used r)) (sysv_callee_saved r && negb (fixed_reg r)))
                    && (implb (fixed_reg r) (call_used r)))
          hard_regs_0_15 = true.
Proof. vm_compute. reflexivity. Qed.

Lemma in_hard_regs r : 0 <= r <= 15 -> In r hard_regs_0_15.
Proof. intros H. unfold hard_regs_0_15. simpl.
  assert (r = 0 \/ r = 1 \/ r = 2 \/ r = 3 \/ r = 4 \/ r = 5 \/ r = 6 \/ r = 7 \/ r = 8 \/ r = 9 \/ r = 10
          \/ r = 11 \/ r = 12 \/ r = 13 \/ r = 14 \/ r = 15) by lia. intuition. Qed.

Lemma classification r : 0 <= r <= 15 ->
  (sysv_callee_saved r = true -> call_used r = false \/ r = SP \/ r = BP)
  /\ (call_used r = false -> sysv_callee_saved r = true /\ fixed_reg r = false)
  /\ (fixed_reg r = true -> call_used r = true).
Proof.
  intros H. pose proof classification_sweep as S. rewrite forallb_forall in S.
  specialize (S r (in_hard_regs r H)).
  apply andb_true_iff in S as [S S3]. apply andb_true_iff in S as [S1 S2].
  repeat split.
  - intros E. rewrite E in S1. simpl in S1.
    apply orb_true_iff in S1 as [S1|S1]; [apply orb_true_iff in S1 as [S1|S1]|]; [left; destruct (call_used r); [discriminate|reflexivity]|right; left; lia|right; right; lia].
  - destruct (call_used r); [discriminate|]. simpl in S2. apply andb_true_iff in S2 as [A _]. exact A.
  - destruct (call_used r); [discriminate|]. simpl in S2. apply andb_true_iff in S2 as [_ B].
    destruct (fixed_reg r); [discriminate|reflexivity].
  - intros E. rewrite E in S3. simpl in S3. exact S3.
Qed.

(* ---------------------------------------------------------------- sizes *)
Lemma saved_size_nonneg f : 0 <= saved_hard_regs_size f.
Proof. unfold saved_hard_regs_size. lia. Qed.

Lemma slots_size_ge f : 0 <= nslots f -> nslots f * 8 <= stack_slots_size f.
Proof. unfold stack_slots_size. destruct (keep_fp f); lia. Qed.

Lemma block_size_ge f : stack_slots_size f + saved_hard_regs_size f <= block_size f.
Proof. unfold block_size. lia. Qed.

Lemma block_size_mod f : block_size f mod 16 = 0.
Proof. unfold block_size. lia. Qed.

(* ---------------------------------------------------------------- alignment *)
Lemma sp_aligned f E : E mod 16 = 8 ->
  (sp_after f E) mod 16 = 0 /\ (bp_of E) mod 16 = 0 /\ sp_at_ret f E = E
  /\ (vararg f = true -> reg_save_area_addr f E = va_start_reg_save_area E)
  /\ (forall off, incoming_stack_addr E off = E + 8 + off).
Proof.
  intros HE. pose proof (block_size_mod f) as HB.
  unfold sp_after, sub_sp, service_area_size, bp_of, sp_at_ret, reg_save_area_addr, va_start_reg_save_area,
    incoming_stack_addr, reg_save_area_size, sp_after, sub_sp, service_area_size, reg_save_area_size.
  repeat split.
  - destruct (vararg f); lia.
  - lia.
  - destruct (keep_fp f); unfold bp_of; lia.
  - intros V; rewrite V. unfold bp_of. lia.
  - intros; unfold bp_of; lia.
Qed.

(* ---------------------------------------------------------------- the save list *)
Lemma moves_from_fst off regs : map fst (moves_from off regs) = regs.
Proof. revert off; induction regs as [|r t IH]; intros off; simpl; [reflexivity|f_equal; apply IH]. Qed.

Lemma moves_from_range off regs m : In m (moves_from off regs) ->
  off <= snd m /\ snd m + 8 <= off + 8 * Z.of_nat (length regs) /\ (snd m - off) mod 8 = 0.
Proof.
  revert off; induction regs as [|r t IH]; intros off H; simpl in *; [contradiction|].
  destruct H as [<-|H]; simpl; [lia|]. specialize (IH _ H). lia.
Qed.

Lemma moves_from_nodup off regs : NoDup (map snd (moves_from off regs)).
Proof.
  revert off; induction regs as [|r t IH]; intros off; simpl; constructor; [|apply IH].
  intros H. apply in_map_iff in H as [m [E Hm]]. apply moves_from_range in Hm. lia.
Qed.

Lemma saved_regs_spec f r : In r (saved_regs f) <->
  (0 <= r <= 15 /\ call_used r = false /\ In r (used f)).
Proof.
  unfold saved_regs. rewrite filter_In. split.
  - intros [Hin H]. apply andb_true_iff in H as [H1 H2].
    apply existsb_exists in H2 as [x [Hx E]]. apply Z.eqb_eq in E. subst x.
    repeat split; try assumption.
    + unfold hard_regs_0_15 in Hin. simpl in Hin. lia.
    + unfold hard_regs_0_15 in Hin. simpl in Hin. lia.
    + destruct (call_used r); [discriminate|reflexivity].
  - intros (Hr & Hc & Hu). split; [apply in_hard_regs; assumption|].
    rewrite Hc. simpl. apply existsb_exists. exists r. split; [assumption|apply Z.eqb_refl].
Qed.

Lemma saved_regs_nodup f : NoDup (saved_regs f).
Proof. unfold saved_regs. apply NoDup_filter. unfold hard_regs_0_15.
  repeat constructor; simpl; intuition lia. Qed.

(* the prologue saves exactly the allocatable callee-saved registers the function uses, each once,
   and the epilogue restores the same registers from the same places *)
Lemma saves_cover f :
  (forall r, In r (map fst (save_list f)) <->
             (0 <= r <= 15 /\ sysv_callee_saved r = true /\ fixed_reg r = false /\ In r (used f)))
  /\ NoDup (map fst (save_list f))
  /\ restore_list f = save_list f.
Proof.
  split; [|split].
  - intros r. unfold save_list. rewrite moves_from_fst. split.
    + intros H. apply saved_regs_spec in H as (Hr & Hc & Hu).
      destruct (classification r Hr) as (_ & C2 & _). destruct (C2 Hc). repeat split; try assumption; lia.
    + intros (Hr & Hs & Hf & Hu). apply saved_regs_spec.
      split; [assumption|]. split; [|assumption].
      destruct (classification r Hr) as (C1 & _ & C3). destruct (C1 Hs) as [C|[C|C]]; [assumption| |];
        subst r; vm_compute in Hf; discriminate.
  - unfold save_list. rewrite moves_from_fst. apply saved_regs_nodup.
  - reflexivity.
Qed.

(* ---------------------------------------------------------------- placement *)
(* every save slot lies inside the allocated frame below the saved bp / return address, save slots
   are pairwise distinct, and they are disjoint from every pseudo-register stack slot and from
   the varargs register save area; the same for the stack slots themselves *)
Definition disjoint (a la b lb : Z) : Prop := a + la <= b \/ b + lb <= a.

Lemma saves_placement f E m : 0 <= nslots f -> (vararg f = true -> keep_fp f = true) ->
  In m (save_list f) ->
  sp_after f E <= save_addr f E m /\ save_addr f E m + 8 <= E - 8
  /\ (forall (ld : bool) (slot : Z), 0 <= slot -> slot + (if ld then 2 else 1) <= nslots f ->
        disjoint (save_addr f E m) 8 (slot_addr f E ld slot) (if ld then 16 else 8))
  /\ (vararg f = true -> disjoint (save_addr f E m) 8 (reg_save_area_addr f E) reg_save_area_size).
Proof.
  intros Hn Hv Hin. unfold save_list in Hin. apply moves_from_range in Hin as (L1 & L2 & _).
  pose proof (block_size_ge f) as HB. pose proof (slots_size_ge f Hn) as HS.
  fold (saved_hard_regs_size f) in L2.
  unfold saved_hard_regs_size in *.
  unfold save_addr, slot_addr, slot_offset, base_of, sp_after, sub_sp, service_area_size, bp_of, bp_saved_reg_offset,
    reg_save_area_addr, reg_save_area_size, disjoint, sp_after, sub_sp, service_area_size, reg_save_area_size in *.
  destruct (keep_fp f) eqn:K; destruct (vararg f) eqn:V; try (specialize (Hv eq_refl); discriminate);
    (split; [lia|]); (split; [lia|]);
    (split; [intros ld slot H0 H1; destruct ld; lia|]);
    try (intros _; lia); try (intros; discriminate).
Qed.

Lemma moves_from_snd_inj regs : forall off m1 m2, In m1 (moves_from off regs) -> In m2 (moves_from off regs) ->
  snd m1 = snd m2 -> fst m1 = fst m2.
Proof.
  induction regs as [|r t IH]; intros off m1 m2 H1 H2 E12; simpl in *; [contradiction|].
  destruct H1 as [<-|H1]; destruct H2 as [<-|H2]; simpl in *; try reflexivity.
  - apply moves_from_range in H2. lia.
  - apply moves_from_range in H1. lia.
  - eapply IH; eauto.
Qed.

Lemma saves_distinct f E m1 m2 : In m1 (save_list f) -> In m2 (save_list f) ->
  fst m1 <> fst m2 -> disjoint (save_addr f E m1) 8 (save_addr f E m2) 8.
Proof.
  intros H1 H2 Hne. unfold save_list in *.
  assert (snd m1 <> snd m2).
  { intros E12. apply Hne. eapply moves_from_snd_inj; eauto. }
  apply moves_from_range in H1 as (_ & _ & A). apply moves_from_range in H2 as (_ & _ & B).
  unfold disjoint, save_addr. lia.
Qed.

Lemma slots_placement f E (ld : bool) slot : 0 <= nslots f -> (vararg f = true -> keep_fp f = true) ->
  0 <= slot -> slot + (if ld then 2 else 1) <= nslots f ->
  sp_after f E <= slot_addr f E ld slot /\ slot_addr f E ld slot + (if ld then 16 else 8) <= E - 8
  /\ (vararg f = true -> disjoint (slot_addr f E ld slot) (if ld then 16 else 8) (reg_save_area_addr f E) reg_save_area_size).
Proof.
  intros Hn Hv H0 H1.
  pose proof (block_size_ge f) as HB. pose proof (slots_size_ge f Hn) as HS. pose proof (saved_size_nonneg f) as HZ.
  unfold slot_addr, slot_offset, base_of, sp_after, sub_sp, service_area_size, bp_of,
    reg_save_area_addr, reg_save_area_size, disjoint, sp_after, sub_sp, service_area_size, reg_save_area_size in *.
  destruct (keep_fp f) eqn:K; destruct (vararg f) eqn:V; try (specialize (Hv eq_refl); discriminate);
    destruct ld; (split; [lia|]); (split; [lia|]); try (intros; discriminate); try (intros _; lia).
Qed.

Lemma reg_save_area_placement f E : 0 <= nslots f -> vararg f = true ->
  sp_after f E <= reg_save_area_addr f E /\ reg_save_area_addr f E + reg_save_area_size = E - 8
  /\ map snd (reg_save_stores f)
     = map (fun k => block_size f + k) [0; 8; 16; 24; 32; 40; 48; 64; 80; 96; 112; 128; 144; 160]
  /\ map fst (reg_save_stores f) = [7; 6; 2; 1; 8; 9; 16; 17; 18; 19; 20; 21; 22; 23].
Proof.
  intros Hn V. pose proof (block_size_ge f) as HB. pose proof (saved_size_nonneg f).
  pose proof (slots_size_ge f Hn) as HS.
  unfold reg_save_area_addr, sp_after, sub_sp, service_area_size, reg_save_area_size, reg_save_stores.
  rewrite V. split; [lia|]. split; [lia|]. split; [|reflexivity].
  cbn [map snd]. rewrite Z.add_0_r. reflexivity.
Qed.

(* non-vacuity: the frame printed by the generator for a 20-slot, 5-saved-register vararg function *)
Example frame_example :
  let f := {| used := [0;1;2;3;6;7;8;9;12;13;14;15]; keep_fp := true; vararg := true; nslots := 20 |} in
  sub_sp f = 392 /\ save_list f = [(3, -384); (12, -376); (13, -368); (14, -360); (15, -352)]
  /\ slot_offset f false 0 = -184 /\ slot_offset f false 19 = -336.
Proof. repeat split; reflexivity. Qed.

(* ---------------------------------------------------------------- the interpreter entry shim *)
Lemma shim_frame E nres : E mod 16 = 8 -> 0 <= nres ->
  (shim_rsp_at_call E nres) mod 16 = 0
  /\ shim_rsp_at_ret E nres = E
  /\ shim_overflow_arg_area E = E + 8                               (* the caller's first stack argument *)
  /\ (forall n, 0 <= n < 6 -> shim_pushed_gpr E n = shim_reg_save_area E + 8 * n)      (* psABI save-area layout *)
  /\ (forall n, 0 <= n < 8 -> shim_xmm_area E + 16 * n = shim_reg_save_area E + 48 + 16 * n)
  /\ shim_results_addr E nres + 16 * nres <= shim_va_list_addr E      (* results array below the va_list *)
  /\ shim_va_list_addr E + 24 <= shim_reg_save_area E.                 (* va_list below the save area *)
Proof.
  intros HE Hn.
  unfold shim_rsp_at_call, shim_rsp_at_ret, shim_overflow_arg_area, shim_pushed_gpr, shim_reg_save_area,
    shim_results_addr, shim_rsp_at_call, shim_va_list_addr, shim_gpr_area, shim_xmm_area, shim_after_push_rbx.
  repeat split; intros; lia.
Qed.

(* ------------------------------------------------------------------ round 3 (wave v): alloca in ANY function, leaf or not *)
(* the prologue's rsp (frame_sp_aligned) is the F of the alloca discipline: for every function shape (any number of
   slots / saved registers, either frame layout, with or without calls in the body) and every history of allocas, calls,
   bstart/bend, every live block is 16-byte aligned and lies below the frame *)
Lemma alloca_aligned_in_every_function f E evs : E mod 16 = 8 -> Forall C06.Alloca.ev_wf evs ->
  let s := C06.Alloca.arun evs (C06.Alloca.astate0 (sp_after f E)) in
  C06.Alloca.a_sp s mod 16 = 0
  /\ forall b, In b (C06.Alloca.a_blocks s) ->
       C06.Alloca.b_addr b mod 16 = 0 /\ C06.Alloca.b_addr b + C06.Alloca.b_size b <= sp_after f E
       /\ 0 <= C06.Alloca.b_req b <= C06.Alloca.b_size b.
Proof.
  intros HE Hw. destruct (sp_aligned f E HE) as [A _].
  destruct (C06.AllocaProofs.alloca_live_blocks (sp_after f E) evs A Hw) as (S0 & _ & B & _).
  split; [exact S0|]. intros b Hb. destruct (B b Hb) as (_ & B2 & B3 & B4). repeat split; try assumption; apply B4.
Qed.

(* rounding the block for non-leaf functions only: the non-leaf frame is the modelled one, and a leaf function with
   one slot (frame-pointer layout, as alloca forces) leaves rsp = 8 mod 16, so its first alloca block is misaligned *)
Lemma leaf_unrounded_block_refuted_lem :
  (forall f E, sp_after_lf false f E = sp_after f E)
  /\ exists f E n, E mod 16 = 8 /\ C06.Alloca.ev_wf (C06.Alloca.EAlloca n) /\ keep_fp f = true
       /\ sp_after_lf true f E mod 16 = 8
       /\ exists b, In b (C06.Alloca.a_blocks (C06.Alloca.arun [C06.Alloca.EAlloca n] (C06.Alloca.astate0 (sp_after_lf true f E))))
                    /\ C06.Alloca.b_addr b mod 16 = 8.
Proof.
  split; [reflexivity|].
  exists {| used := []; keep_fp := true; vararg := false; nslots := 1 |}, 1032, 48.
  repeat split; try reflexivity; try (cbv; congruence).
  eexists. split; [left; reflexivity|reflexivity].
Qed.

(* C06 -- frame arithmetic of generated functions: transcription of target_make_prolog_epilog,
   target_get_stack_slot_offset, target_call_used_hard_reg_p (mir-gen-x86_64.c, non-_WIN32, red-zone
   ABI, ordinary call/ret functions -- jcall/jret functions are not C-ABI callees and are left out).
   Hard register numbers as in mir-x86_64.h: AX 0, CX 1, DX 2, BX 3, SP 4, BP 5, SI 6, DI 7,
   R8..R15 = 8..15.  Definitions only. *)
From Coq Require Import List ZArith Bool.
From MirV Require Import Base.W64.
Import ListNotations.
Local Open Scope Z_scope.

Definition BX := 3. Definition SP := 4. Definition BP := 5.
Definition hard_regs_0_15 : list Z := [0;1;2;3;4;5;6;7;8;9;10;11;12;13;14;15].

(* target_call_used_hard_reg_p *)
Definition call_used (r : Z) : bool := negb ((r =? BX) || ((12 <=? r) && (r <=? 15))).
(* target_fixed_hard_reg_p restricted to the integer registers: never given to the allocator *)
Definition fixed_reg (r : Z) : bool := (r =? BP) || (r =? SP) || (r =? 10) || (r =? 11).
(* psABI: registers a callee must preserve *)
Definition sysv_callee_saved (r : Z) : bool :=
  (r =? BX) || (r =? SP) || (r =? BP) || ((12 <=? r) && (r <=? 15)).

(* what is known after register allocation *)
Record fin := { used : list Z;      (* func_used_hard_regs *)
                keep_fp : bool;     (* keep_fp_p *)
                vararg : bool;      (* func->vararg_p *)
                nslots : Z }.       (* func_stack_slots_num *)

Definition reg_save_area_size := 176.

(* "for (i = 0; i <= R15_HARD_REG; i++) if (!target_call_used_hard_reg_p (i) && bitmap_bit_p (used, i))" *)
Definition saved_regs (f : fin) : list Z :=
  filter (fun r => negb (call_used r) && existsb (Z.eqb r) (used f)) hard_regs_0_15.
Definition saved_hard_regs_size (f : fin) : Z := 8 * Z.of_nat (length (saved_regs f)).
Definition service_area_size (f : fin) : Z := (if vararg f then reg_save_area_size else 0) + 8.
Definition stack_slots_size (f : fin) : Z :=
  let s := nslots f * 8 in if keep_fp f then s else (s + 15) / 16 * 16.
Definition block_size (f : fin) : Z := (stack_slots_size f + saved_hard_regs_size f + 15) / 16 * 16.
(* "sp -= block_size + service_area_size" *)
Definition sub_sp (f : fin) : Z := block_size f + service_area_size f.
Definition bp_saved_reg_offset (f : fin) : Z :=
  block_size f + (if vararg f then reg_save_area_size else 0).

(* the save / restore instruction lists: (hard reg, displacement from the base register);
   base register is bp when keep_fp, sp otherwise *)
Fixpoint moves_from (off : Z) (regs : list Z) : list (Z * Z) :=
  match regs with [] => [] | r :: t => (r, off) :: moves_from (off + 8) t end.
Definition save_list (f : fin) : list (Z * Z) :=
  moves_from (if keep_fp f then - bp_saved_reg_offset f else stack_slots_size f) (saved_regs f).
(* epilogue loop: "offset = keep_fp_p ? -bp_saved_reg_offset : stack_slots_size" again *)
Definition restore_list (f : fin) : list (Z * Z) :=
  moves_from (if keep_fp f then - bp_saved_reg_offset f else stack_slots_size f) (saved_regs f).

(* varargs register save area stores: displacement from sp after the sub; isave/dsave *)
Definition reg_save_stores (f : fin) : list (Z * Z) :=   (* (hard reg 7,6,2,1,8,9 then xmm 16..23, disp) *)
  if vararg f then
    let o := block_size f in
    [(7, o); (6, o + 8); (2, o + 16); (1, o + 24); (8, o + 32); (9, o + 40);
     (16, o + 48); (17, o + 64); (18, o + 80); (19, o + 96); (20, o + 112); (21, o + 128); (22, o + 144); (23, o + 160)]
  else [].

(* round 3 (wave v): the same arithmetic with the rounding of the block applied to non-leaf functions only
   ("sp alignment matters only at calls"); refuted in FrameProofs.v -- a leaf function may execute alloca *)
Definition block_size_lf (leaf : bool) (f : fin) : Z :=
  let b := stack_slots_size f + saved_hard_regs_size f in if leaf then b else (b + 15) / 16 * 16.
Definition sp_after_lf (leaf : bool) (f : fin) (E : Z) : Z := E - (block_size_lf leaf f + service_area_size f).

(* absolute addresses, E = rsp at function entry (the return address is at [E]) *)
Definition sp_after (f : fin) (E : Z) : Z := E - sub_sp f.
Definition bp_of (E : Z) : Z := E - 8.             (* "-8(sp) = bp; bp = sp - 8" *)
Definition base_of (f : fin) (E : Z) : Z := if keep_fp f then bp_of E else sp_after f E.
Definition save_addr (f : fin) (E : Z) (m : Z * Z) : Z := base_of f E + snd m.
(* target_get_stack_slot_offset: slot is 0,1,...; a long double takes two slots *)
Definition slot_offset (f : fin) (ld : bool) (slot : Z) : Z :=
  if keep_fp f then - ((slot + (if ld then 2 else 1)) * 8 + (if vararg f then reg_save_area_size else 0))
  else slot * 8.
Definition slot_addr (f : fin) (E : Z) (ld : bool) (slot : Z) : Z := base_of f E + slot_offset f ld slot.
Definition reg_save_area_addr (f : fin) (E : Z) : Z := sp_after f E + block_size f.
(* epilogue: "sp = bp + 8" or "sp += block_size + service_area_size" *)
Definition sp_at_ret (f : fin) (E : Z) : Z := if keep_fp f then bp_of E + 8 else sp_after f E + sub_sp f.

(* MIR_VA_START: "reg_save_area = bp - reg_save_area_size" *)
Definition va_start_reg_save_area (E : Z) : Z := bp_of E - reg_save_area_size.
(* incoming stack parameter at Stk off: "mem_size + 8 + start_sp_from_bp_offset (bp)" *)
Definition incoming_stack_addr (E off : Z) : Z := bp_of E + 16 + off.

(* ------------------------------------------------------------------ the interpreter entry shim *)
(* _MIR_get_interp_shim (mir-x86_64.c): push rbx; save_pat = sub $0x80,rsp; movdqu xmm0-7 -> 0..0x70(rsp);
   push r9,r8,rcx,rdx,rsi,rdi; prepare_pat = sub 32,rsp; va_list at rsp: gp_offset 0, fp_offset 48,
   reg_save_area = 32(rsp), overflow_arg_area = 224(rsp); sub nres*16,rsp; call handler;
   shim_end = add 208+nres*16,rsp; pop rbx; ret.   E = rsp at shim entry. *)
Definition shim_after_push_rbx (E : Z) : Z := E - 8.
Definition shim_xmm_area (E : Z) : Z := shim_after_push_rbx E - 128.           (* xmm<n> at +16n *)
Definition shim_gpr_area (E : Z) : Z := shim_xmm_area E - 48.                  (* after the six pushes *)
(* address each integer argument register was pushed to: push order r9,r8,rcx,rdx,rsi,rdi *)
Definition shim_pushed_gpr (E : Z) (n : Z) : Z := shim_xmm_area E - 8 * (6 - n). (* n = 0 (rdi) .. 5 (r9) *)
Definition shim_va_list_addr (E : Z) : Z := shim_gpr_area E - 32.
Definition shim_reg_save_area (E : Z) : Z := shim_va_list_addr E + 32.
Definition shim_overflow_arg_area (E : Z) : Z := shim_va_list_addr E + 224.
Definition shim_rsp_at_call (E nres : Z) : Z := shim_va_list_addr E - 16 * nres.
Definition shim_results_addr (E nres : Z) : Z := shim_rsp_at_call E nres.      (* rcx = rsp: MIR_val_t results[nres] *)
Definition shim_rsp_at_ret (E nres : Z) : Z := shim_rsp_at_call E nres + (208 + 16 * nres) + 8.

(* C06 -- stack memory obtained by alloca in generated code.  Definitions only.

   (1) The two ALLOCA templates of patterns[] (mir-gen-x86_64.c) are given a semantics over the
       few instruction shapes they use (lea disp(reg) / and imm32 / sub rsp,reg|imm / mov reg,rsp);
       the rows themselves are regenerated from the checked tree (gen/C05Abi.v: gen_alloca_rows), so
       the model of "what an alloca does to rsp" follows the source.
   (2) The stack discipline of a function body after the prologue: a history of events
         EAlloca n   -- alloca of n bytes
         ECall k     -- a call whose stack-argument area is k bytes (machinize_call: sub rsp,k ...
                        stores at rsp+off ... call ... add rsp,k)
         EBstart     -- bstart r   (r = rsp)
         EBend i     -- bend r with the value saved by the i-th innermost pending bstart
       over a state {rsp; live blocks; pending marks}.  Addresses grow upwards; F is rsp right after
       the prologue (= Frame.sp_after), everything at or above F belongs to the frame proper.
   (3) The merging of constant allocas by mir.c (simplify_func "Consolidate adjacent allocas",
       process_inlines for the top allocas of inlined callees): running size / alignment rule. *)
From Coq Require Import List ZArith Bool.
From MirV Require Import Base.W64 C05.SysV C05.Conv.
Import ListNotations.
Local Open Scope Z_scope.

(* ------------------------------------------------------------------ (1) template semantics *)
(* machine state the templates touch: rsp, operand 0 (result register), operand 1 (size) *)
Record tstate := { t_sp : Z; t_r0 : Z; t_op1 : Z }.

Definition sext32 (v : Z) : Z := if v <? 2 ^ 31 then v else v - 2 ^ 32.

(* one instruction of a template; None = a shape this model does not know *)
Definition tinsn (ins : list ktok) (s : tstate) : option tstate :=
  match ins with
  | [KRex; KB 141; Kr 0; Kad d] =>                 (* lea d(op1), op0 -- 32-bit form (REX.W = 0) *)
      Some {| t_sp := t_sp s; t_r0 := (t_op1 s + d) mod 2 ^ 32; t_op1 := t_op1 s |}
  | [KRex; KB 129; KS 4; KR 0; KV v] =>            (* and $imm32 (sign-extended), op0 *)
      Some {| t_sp := t_sp s; t_r0 := Z.land (t_r0 s) (sext32 v); t_op1 := t_op1 s |}
  | [KRex; KB 43; Kh 4; KR 0] =>                   (* sub op0, rsp *)
      Some {| t_sp := t_sp s - t_r0 s; t_r0 := t_r0 s; t_op1 := t_op1 s |}
  | [KRex; KB 129; KS 5; KH 4; KI 1] =>            (* sub $op1, rsp *)
      Some {| t_sp := t_sp s - t_op1 s; t_r0 := t_r0 s; t_op1 := t_op1 s |}
  | [KRex; KB 139; Kr 0; KH 4] =>                  (* mov rsp, op0 *)
      Some {| t_sp := t_sp s; t_r0 := t_sp s; t_op1 := t_op1 s |}
  | [KRex; KB 139; Kh 4; KR 0] =>                  (* mov op0, rsp *)
      Some {| t_sp := t_r0 s; t_r0 := t_r0 s; t_op1 := t_op1 s |}
  | _ => None
  end.

Fixpoint trun (t : list (list ktok)) (s : tstate) : option tstate :=
  match t with
  | [] => Some s
  | i :: r => match tinsn i s with Some s1 => trun r s1 | None => None end
  end.

(* operand patterns "r r" and "r i2" as byte strings *)
Definition pat_r_r : list Z := [114; 32; 114].
Definition pat_r_i2 : list Z := [114; 32; 105; 50].
Definition pat_r : list Z := [114].

(* out_insn rounds a constant size before the "r i2" template is emitted:
   "insn->ops[1].u.u = (insn->ops[1].u.u + add) & mask" *)
Definition imm_round (add mask n : Z) : Z := Z.land (n + add) mask.

(* the number of bytes reserved for an alloca of n bytes *)
Definition round16 (n : Z) : Z := (n + 15) / 16 * 16.

(* ------------------------------------------------------------------ (2) stack discipline *)
Record blk := { b_addr : Z; b_size : Z; b_req : Z }.
Definition mark := (Z * list blk)%type.          (* saved rsp, ghost: blocks live at that moment *)
Record astate := { a_sp : Z; a_blocks : list blk; a_marks : list mark }.

Inductive ev := EAlloca (n : Z) | ECall (k : Z) | EBstart | EBend (i : nat).

Definition astep (s : astate) (e : ev) : astate :=
  match e with
  | EAlloca n =>
      let sp' := a_sp s - round16 n in
      {| a_sp := sp'; a_blocks := {| b_addr := sp'; b_size := round16 n; b_req := n |} :: a_blocks s;
         a_marks := a_marks s |}
  | ECall _ => s                                   (* rsp is lowered by k and raised again *)
  | EBstart => {| a_sp := a_sp s; a_blocks := a_blocks s; a_marks := (a_sp s, a_blocks s) :: a_marks s |}
  | EBend i =>
      match nth_error (a_marks s) i with
      | Some (m, bl) => {| a_sp := m; a_blocks := bl; a_marks := skipn i (a_marks s) |}
      | None => s                                  (* no such pending bstart: not a legal program *)
      end
  end.

Definition arun (evs : list ev) (s : astate) : astate := fold_left astep evs s.

(* what MIR requires of the events: sizes the templates handle (non-negative, below 2^32-15: the
   lea of the "r r" template is a 32-bit one), call areas as machinize_call reserves them *)
Definition ev_wf (e : ev) : Prop :=
  match e with
  | EAlloca n => 0 <= n < 2 ^ 32 - 15
  | ECall k => 0 <= k /\ k mod 16 = 0
  | _ => True
  end.

(* rsp at the call instruction of an ECall k event, and the area its stack arguments are stored to *)
Definition call_rsp (s : astate) (k : Z) : Z := a_sp s - k.

(* blocks listed newest first are stacked upwards without overlap between lo and hi *)
Fixpoint stacked (lo hi : Z) (bs : list blk) : Prop :=
  match bs with
  | [] => lo <= hi
  | b :: r => lo <= b_addr b /\ 0 <= b_req b <= b_size b /\ b_addr b mod 16 = 0
              /\ stacked (b_addr b + b_size b) hi r
  end.

Fixpoint marks_ok (F sp : Z) (bs : list blk) (ms : list mark) : Prop :=
  match ms with
  | [] => True
  | (m, bl) :: r => sp <= m /\ m mod 16 = 0 /\ (exists pre, bs = pre ++ bl) /\ stacked m F bl /\ marks_ok F m bl r
  end.

Definition AInv (F : Z) (s : astate) : Prop :=
  a_sp s mod 16 = 0 /\ stacked (a_sp s) F (a_blocks s) /\ marks_ok F (a_sp s) (a_blocks s) (a_marks s).

Definition astate0 (F : Z) : astate := {| a_sp := F; a_blocks := []; a_marks := [] |}.

Definition no_bend (evs : list ev) : Prop := Forall (fun e => match e with EBend _ => False | _ => True end) evs.

Definition bdisjoint (b1 b2 : blk) : Prop :=
  b_addr b1 + b_size b1 <= b_addr b2 \/ b_addr b2 + b_size b2 <= b_addr b1.

(* ------------------------------------------------------------------ (3) merged constant allocas *)
(* mir.c: natural_alignment, get_alloca_size_align *)
Definition natural_alignment (s : Z) : Z := if s <=? 2 then s else if s <=? 4 then 4 else if s <=? 8 then 8 else 16.
Definition alloca_size_align (size : Z) : Z * Z :=
  let size := if size <=? 0 then 1 else size in
  let a := natural_alignment size in ((size + a - 1) / a * a, a).

(* the running (overall_size, max_align) rule; always = the repaired rule (fixes/C06-3.patch: every
   block offset is rounded to the block's alignment), always = false: the pinned rule (rounded only
   when the alignment exceeds the largest so far).  Result: (offset, size, align) per block, total *)
Fixpoint merge_from (always : bool) (overall max_align : Z) (sizes : list Z) : list (Z * Z * Z) * Z :=
  match sizes with
  | [] => ([], overall)
  | s :: r =>
      let '(sz, a) := alloca_size_align s in
      let overall1 := if always || (max_align <? a) then (overall + a - 1) / a * a else overall in
      let max1 := if max_align <? a then a else max_align in
      let '(l, tot) := merge_from always (overall1 + sz) max1 r in
      ((overall1, sz, a) :: l, tot)
  end.
Definition merge (always : bool) (sizes : list Z) : list (Z * Z * Z) * Z := merge_from always 0 0 sizes.

Fixpoint placed (lo : Z) (l : list (Z * Z * Z)) (tot : Z) : Prop :=
  match l with
  | [] => lo <= tot
  | (off, sz, a) :: r => lo <= off /\ off mod a = 0 /\ 0 < sz /\ placed (off + sz) r tot
  end.

(* C06 -- the hand-transcribed Frame model agrees with the definitions regenerated from the checked
   tree (gen/C05Abi.v): call-used classification, register save area size, alloca forces a frame
   pointer, the frameless-leaf condition of target_make_prolog_epilog. *)
From Coq Require Import List ZArith Bool Lia.
From MirV Require Import Base.W64 C05.SysV C05.Conv C06.Frame gen.C05Abi.
Import ListNotations.
Local Open Scope Z_scope.

Lemma call_used_sweep : forallb (fun r => Bool.eqb (gen_call_used r) (call_used r)) hard_regs_0_15 = true.
Proof. vm_compute. reflexivity. Qed.

Lemma hard_regs_all r : 0 <= r <= 15 -> In r hard_regs_0_15.
Proof. intros H. unfold hard_regs_0_15. cbn [In]. lia. Qed.

Lemma gen_call_used_eq r : 0 <= r <= 15 -> gen_call_used r = call_used r.
Proof.
  intros H. pose proof call_used_sweep as S. rewrite forallb_forall in S.
  specialize (S r (hard_regs_all r H)). apply Bool.eqb_prop in S. exact S.
Qed.

Lemma gen_frame_constants :
  gen_reg_save_area_size = reg_save_area_size /\ gen_alloca_keeps_fp = true /\ gen_frameless_cond_ok = true.
Proof. repeat split; reflexivity. Qed.

(* C06 -- proofs about the va_list machinery: reading arguments with va_arg / va_block_arg from the
   va_list that corresponds to a psABI allocation state yields exactly the psABI locations. *)
From Coq Require Import List ZArith Bool Lia ZifyBool.
From MirV Require Import Base.W64 C05.SysV C05.AbiImpl C05.AbiProofs C06.VaList.
Import ListNotations.
Local Open Scope Z_scope.
Ltac Zify.zify_post_hook ::= Z.div_mod_to_equations.
Local Arguments Z.mul : simpl never.
Local Arguments Z.add : simpl never.
Local Arguments Z.sub : simpl never.
Local Arguments Z.div : simpl never.
Local Arguments Z.modulo : simpl never.
Local Arguments Z.leb : simpl never.
Local Arguments Z.ltb : simpl never.
Local Arguments Z.eqb : simpl never.
Local Arguments Z.min : simpl never.
Local Arguments Z.to_nat : simpl never.
Local Arguments Z.of_nat : simpl never.
Local Arguments stack_words : simpl never.

Ltac solve_va :=
  repeat match goal with
  | |- (_, _) = (_, _) => f_equal
  | |- _ :: _ = _ :: _ => f_equal
  | |- Build_va_list _ _ _ = Build_va_list _ _ _ => f_equal
  | |- GPR _ = GPR _ => f_equal
  | |- SSE _ = SSE _ => f_equal
  | |- Stk _ = Stk _ => f_equal
  | |- stack_words _ _ = stack_words _ _ => f_equal
  | |- Z.to_nat _ = Z.to_nat _ => f_equal
  end; try reflexivity; try lia.

Lemma va_read_eq st a : wf_arg a = true -> st_ok st ->
  va_read true true (va_of st) a = (fst (assign1 st a), va_of (snd (assign1 st a))).
Proof.
  intros W (Hi & Hx & Hs & Hm).
  destruct st as [i x o]; simpl in *.
  destruct a as [t| | | |k s|s];
    unfold va_read, va_arg_builtin, va_block_arg_builtin, assign1, assign_mem, va_of, gp_loc, fp_loc,
      max_gpr, max_sse; simpl.
  - repeat destr_if; simpl; rewrite ?align_up_8 by assumption; try lia; solve_va.
  - repeat destr_if; simpl; rewrite ?align_up_8 by assumption; try lia; solve_va.
  - repeat destr_if; simpl; rewrite ?align_up_8 by assumption; try lia; solve_va.
  - rewrite align_up_16. simpl. solve_va.
  - destruct k as [|[|[|[|[|k]]]]]; simpl in W; try discriminate; simpl.
    + rewrite align_up_8 by assumption. unfold qwords. rewrite mul8_div8. solve_va.
    + destruct (s <=? 8) eqn:E8.
      * assert (Q : (s + 7) / 8 * 8 = 8) by lia. rewrite Q. simpl.
        repeat destr_if; simpl; rewrite ?align_up_8 by assumption; try lia;
          unfold qwords; replace ((s + 7) / 8) with 1 by lia; simpl; solve_va.
      * assert (Q : (s + 7) / 8 * 8 = 16) by lia. rewrite Q. simpl.
        repeat destr_if; simpl; rewrite ?align_up_8 by assumption; try lia;
          unfold qwords; replace ((s + 7) / 8) with 2 by lia; simpl; solve_va.
    + destruct (s <=? 8) eqn:E8.
      * assert (Q : (s + 7) / 8 * 8 = 8) by lia. rewrite Q. simpl.
        repeat destr_if; simpl; rewrite ?align_up_8 by assumption; try lia;
          unfold qwords; replace ((s + 7) / 8) with 1 by lia; simpl; solve_va.
      * assert (Q : (s + 7) / 8 * 8 = 16) by lia. rewrite Q. simpl.
        repeat destr_if; simpl; rewrite ?align_up_8 by assumption; try lia;
          unfold qwords; replace ((s + 7) / 8) with 2 by lia; simpl; solve_va.
    + assert (Q : (s + 7) / 8 * 8 = 16) by lia. rewrite Q. simpl.
      repeat destr_if; simpl; rewrite ?align_up_8 by assumption; try lia;
        unfold qwords; replace ((s + 7) / 8) with 2 by lia; simpl; solve_va.
    + assert (Q : (s + 7) / 8 * 8 = 16) by lia. rewrite Q. simpl.
      repeat destr_if; simpl; rewrite ?align_up_8 by assumption; try lia;
        unfold qwords; replace ((s + 7) / 8) with 2 by lia; simpl; solve_va.
  - repeat destr_if; simpl; rewrite ?align_up_8 by assumption; try lia; solve_va.
Qed.

Lemma va_read_seq_eq args : forall st, wf_args args = true -> st_ok st ->
  va_read_seq true true (va_of st) args = (fst (assign_from st args), va_of (snd (assign_from st args))).
Proof.
  induction args as [|a r IH]; intros st W Hok; simpl; [reflexivity|].
  simpl in W. apply andb_true_iff in W as [Wa Wr].
  rewrite va_read_eq by assumption.
  pose proof (assign1_ok st a Wa Hok) as Hok1.
  destruct (assign1 st a) as [l st1]; simpl in *.
  rewrite IH by assumption.
  destruct (assign_from st1 r) as [ls st2]; reflexivity.
Qed.

(* the shim's va_list is the va_list of the empty allocation *)
Lemma shim_va_is_va0 : shim_va_list = va_of astate0.
Proof. reflexivity. Qed.

Lemma interp_decode_eq named : wf_args named = true ->
  interp_decode true named = (fst (assign named), va_of (snd (assign named))).
Proof.
  intros W. unfold interp_decode. rewrite shim_va_is_va0. apply va_read_seq_eq; [assumption|apply st_ok0].
Qed.

(* va_start of generated code produces the va_list of the psABI state after the fixed parameters *)
Lemma gen_va_start_eq named : wf_args named = true -> gen_va_start named = va_of (snd (assign named)).
Proof.
  intros W. unfold gen_va_start, in_assign. rewrite in_args_is_mc_args.
  destruct (machinize_assign_eq named W) as (_ & B & C & D). unfold mc_assign in *.
  destruct (mc_args_eq named astate0 astate0 W st_ok0 rel0) as [_ (R1 & R2 & _)].
  unfold va_of. rewrite C, D, <- B.
  f_equal; repeat destr_if; lia.
Qed.

(* splitting an argument list *)
Lemma assign_from_app a b : forall st,
  assign_from st (a ++ b) =
  (fst (assign_from st a) ++ fst (assign_from (snd (assign_from st a)) b),
   snd (assign_from (snd (assign_from st a)) b)).
Proof.
  induction a as [|x a IH]; intros st; simpl.
  - destruct (assign_from st b); reflexivity.
  - destruct (assign1 st x) as [l st1]. rewrite IH.
    destruct (assign_from st1 a) as [ls st2]; simpl. reflexivity.
Qed.

Lemma wf_args_app a b : wf_args (a ++ b) = true -> wf_args a = true /\ wf_args b = true.
Proof. unfold wf_args. rewrite forallb_app. intros H. apply andb_true_iff in H. exact H. Qed.

Lemma skipn_app_length {A} (l1 l2 : list A) : skipn (length l1) (l1 ++ l2) = l2.
Proof. induction l1; simpl; [reflexivity|assumption]. Qed.

Lemma assign_from_length args : forall st, length (fst (assign_from st args)) = length args.
Proof.
  induction args as [|a r IH]; intros st; simpl; [reflexivity|].
  destruct (assign1 st a) as [l st1]. specialize (IH st1). destruct (assign_from st1 r). simpl in *. lia.
Qed.

(* Reading the variadic tail of a call, in order and with the types the caller passed, from the
   va_list that va_start produces yields exactly the locations the psABI assigned to the tail *)
Lemma va_tail_eq (start : list aty -> va_list) named tail :
  (forall n, wf_args n = true -> start n = va_of (snd (assign n))) ->
  wf_args (named ++ tail) = true ->
  fst (va_read_seq true true (start named) tail) = skipn (length named) (fst (assign (named ++ tail))).
Proof.
  intros Hs W. destruct (wf_args_app _ _ W) as [Wn Wt].
  rewrite Hs by assumption.
  rewrite va_read_seq_eq; [|assumption|apply assign_ok; assumption]. simpl.
  unfold assign. rewrite assign_from_app. simpl.
  rewrite <- (assign_from_length named astate0). rewrite skipn_app_length. reflexivity.
Qed.

Lemma gen_va_tail_eq named tail : wf_args (named ++ tail) = true ->
  fst (va_read_seq true true (gen_va_start named) tail) = skipn (length named) (fst (assign (named ++ tail))).
Proof. apply va_tail_eq. exact gen_va_start_eq. Qed.

Lemma interp_va_tail_eq named tail : wf_args (named ++ tail) = true ->
  fst (va_read_seq true true (snd (interp_decode true named)) tail)
  = skipn (length named) (fst (assign (named ++ tail))).
Proof.
  intros W. apply (va_tail_eq (fun n => snd (interp_decode true n))); [|assumption].
  intros n Wn. rewrite interp_decode_eq by assumption. reflexivity.
Qed.

(* the va_list handed to MIR code is one a C callee (vprintf ...) accepts: offsets canonical *)
Lemma gen_va_start_canonical named : wf_args named = true ->
  let va := gen_va_start named in
  0 <= gp_offset va <= 48 /\ gp_offset va mod 8 = 0
  /\ 48 <= fp_offset va <= 176 /\ (fp_offset va - 48) mod 16 = 0 /\ 0 <= ov va /\ ov va mod 8 = 0.
Proof.
  intros W. rewrite gen_va_start_eq by assumption.
  destruct (assign_ok named W) as (Hi & Hx & Hs & Hm). unfold va_of; simpl. lia.
Qed.

(* ---------------------------------------------------------------- pinned commit: refutations *)
Example va_start_head_refuted :
  let named := [AInt I64; AInt I64; AInt I64; AInt I64; AInt I64; AInt I64] in
  wf_args named = true /\ ov (gen_va_start_head named) <> ov (va_of (snd (assign named))).
Proof. split; [reflexivity|vm_compute; discriminate]. Qed.

Example va_block_arg_head_refuted :
  let named := [AInt Pt] in let tail := [ABlk 3 16; AD] in
  wf_args (named ++ tail) = true
  /\ fst (va_read_seq false false (va_of (snd (assign named))) tail)
     <> skipn (length named) (fst (assign (named ++ tail))).
Proof. split; [reflexivity|vm_compute; intros H; discriminate]. Qed.

Example va_block2_head_refuted :
  let named := [AD; AD; AD; AD; AD; AD; AD; AD] in let tail := [ABlk 2 8] in
  wf_args (named ++ tail) = true
  /\ fst (va_read_seq false false (va_of (snd (assign named))) tail)
     <> skipn (length named) (fst (assign (named ++ tail))).
Proof. split; [reflexivity|vm_compute; intros H; discriminate]. Qed.

Example va_ld_head_refuted :
  let named := [AInt I64; AInt I64; AInt I64; AInt I64; AInt I64; AInt I64] in let tail := [AInt I64; ALD] in
  wf_args (named ++ tail) = true
  /\ fst (va_read_seq false true (va_of (snd (assign named))) tail)
     <> skipn (length named) (fst (assign (named ++ tail))).
Proof. split; [reflexivity|vm_compute; intros H; discriminate]. Qed.

(* non-vacuity: a tail that exhausts both register files and takes blocks and long doubles *)
Example va_tail_nontrivial :
  let named := [AInt Pt; AD] in
  let tail := [AInt I64; AD; ABlk 3 16; ABlk 1 16; AInt I64; AInt I64; ALD; ABlk 2 16; AD; AD; AD; AD; AD; ABlk 4 12; ABlk 0 24; AInt I64] in
  wf_args (named ++ tail) = true
  /\ length (concat (fst (va_read_seq true true (gen_va_start named) tail))) = 23%nat.
Proof. split; reflexivity. Qed.

(* ---------------------------------------------------------------- end to end on the callee side *)
Lemma assign_app_fst named tail :
  fst (assign (named ++ tail)) = fst (assign named) ++ skipn (length named) (fst (assign (named ++ tail))).
Proof.
  unfold assign. rewrite assign_from_app. simpl.
  pose proof (assign_from_length named astate0) as L.
  set (l1 := fst (assign_from astate0 named)) in *.
  rewrite <- L. rewrite skipn_app_length. reflexivity.
Qed.

(* a generated MIR function that takes its fixed parameters where the incoming-argument loop says and
   its variadic tail with va_arg/va_block_arg after va_start reads back exactly the words a psABI
   caller placed *)
Lemma callee_roundtrip named tail vals : wf_args (named ++ tail) = true ->
  same_shape (fst (assign (named ++ tail))) vals ->
  read_args (fst (in_assign named) ++ fst (va_read_seq true true (gen_va_start named) tail))
            (image (fst (assign (named ++ tail))) vals) = map (map Some) vals
  /\ read_args (fst (interp_decode true named) ++ fst (va_read_seq true true (snd (interp_decode true named)) tail))
               (image (fst (assign (named ++ tail))) vals) = map (map Some) vals.
Proof.
  intros W S. destruct (wf_args_app _ _ W) as [Wn Wt].
  destruct (incoming_assign_eq named Wn) as [E _].
  rewrite E, (gen_va_tail_eq named tail W), (interp_va_tail_eq named tail W), (interp_decode_eq named Wn).
  simpl. rewrite <- assign_app_fst. split; apply sysv_roundtrip; assumption.
Qed.

From Coq Require Import Extraction ExtrOcamlBasic List ZArith NArith.
From MirV Require Import C19.Varr C19.Bitmap.
Extraction Language OCaml.
Extraction "c19x.ml" vcreate vstep vrun binit bstep.

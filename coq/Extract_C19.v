From Coq Require Import Extraction ExtrOcamlBasic List ZArith.
From MirV Require Import C19.Varr.
Extraction Language OCaml.
Extraction "c19x.ml" vcreate vstep vrun.

From Coq Require Import Extraction ExtrOcamlBasic List ZArith NArith.
From MirV Require Import C19.Varr C19.Bitmap C19.Htab C19.Dlist.
Extraction Language OCaml.
Extraction "c19x.ml" vcreate vstep vrun binit bstep inst_create inst_step dinit dstep sstep.

From Coq Require Import Extraction ExtrOcamlBasic List.
From MirV Require Import C13.Link C13.Reent.
Extraction Language OCaml.
Extraction "c13x.ml" init step run build exported assoc pubs_of_step step_re.

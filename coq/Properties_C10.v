(* Property C10: textual MIR written by MIR_output reads back as the same module.
   Only the property theorems, each closed by [exact] and followed by Print Assumptions.
   Model: coq/C10/TextOut.v (the MIR_output functions), coq/C10/TextScan.v (scan_number, scan_string, scan_token,
   MIR_scan_string), coq/C10/FloatFmt.v (libc printf/strtod oracles). *)
From Coq Require Import List ZArith NArith.
From MirV Require Import Base.W64 C11.Ast C11.BinIO C11.BinIOProofs C10.TextOut C10.TextScan C10.TextProofs C10.LexProofs
  C10.TextTokens C10.ParseProofs C10.PrintNormProofs C10.LexAllProofs C10.TextFixpoint C10.FloatFmt C10.TextExamples C10.TextWfDec C10.RelabelIdem C11.TempNames.
Import ListNotations.
Local Open Scope Z_scope.

(* scan_string inverts MIR_output_str on every byte string (all 256 byte values: the backslash escapes for
   backslash, double quote, n t v a b f, printable characters, three-digit octal for the rest), consuming exactly
   the literal; the token then carries [nul_terminate s] (a NUL is appended to a non-empty string
   lacking one), which is idempotent and the identity on strings ending in NUL. *)
Theorem text_str_roundtrip : forall s tail, is_bytes s ->
  scan_str (S (length s)) (tl (output_str s) ++ tail) [] = Some (s, tail)
  /\ nul_terminate (nul_terminate s) = nul_terminate s
  /\ (s = [] \/ last s 1%N = 0%N -> nul_terminate s = s).
Proof. exact text_str_roundtrip_lemma. Qed.
Print Assumptions text_str_roundtrip.

(* decimal printing of any int64 (PRId64) / uint64 (PRIu64) re-read by strtoul (with its
   wrap-around on '-') is the same 64-bit pattern *)
Theorem text_int_roundtrip :
  (forall z, in_s64 z -> s64 (strtoul 10 (p_int z)) = z)
  /\ (forall u, in_u64 u -> strtoul 10 (p_nat u) = u /\ u64 (s64 (strtoul 10 (p_nat u))) = u).
Proof. exact text_int_roundtrip_lemma. Qed.
Print Assumptions text_int_roundtrip.

(* scan_token (scan_number / scan_string / name scanning included) reads back every kind of lexeme
   MIR_output writes, consuming exactly the lexeme, whenever a separator character (, newline : ( )
   tab blank quote # ;) or the end of input follows: identifiers (with _ $ % . and digits), decimal
   int64 and uint64 immediates (incl. the octal-looking 0), strings, and floating point lexemes of
   the printf %.*e shape with no suffix, f or L.  pF/pD/pLD are strtof/strtod/strtold: the token carries
   their value on exactly the lexeme that was printed. *)
Theorem text_token_roundtrip : forall pF pD pLD rest f,
  good_rest rest ->
  (forall n, is_ident n -> scan_token pF pD pLD (S f) (n ++ rest) = Some (TName n, rest))
  /\ (forall z, in_s64 z -> scan_token pF pD pLD (S f) (p_int z ++ rest) = Some (TInt z, rest))
  /\ (forall u, in_u64 u -> scan_token pF pD pLD (S f) (p_nat u ++ rest) = Some (TInt (s64 u), rest))
  /\ (forall body, float_lexeme body ->
        scan_token pF pD pLD (S f) (body ++ rest) = Some (TDouble (pD body), rest)
        /\ scan_token pF pD pLD (S f) (body ++ 102%N :: rest) = Some (TFloat (pF body), rest)
        /\ scan_token pF pD pLD (S f) (body ++ 76%N :: rest) = Some (TLdouble (pLD body), rest))
  /\ (forall s, is_bytes s -> (length s < f)%nat ->
        scan_token pF pD pLD (S f) (output_str s ++ rest) = Some (TStr (nul_terminate s), rest)).
Proof. exact text_token_roundtrip_lemma. Qed.
Print Assumptions text_token_roundtrip.

(* The statement parser of MIR_scan_string inverts the printer on the token level, for whole contexts:
   on the token sequence [tk_ctx ms] that MIR_output's text consists of (TextTokens.v: one function per
   printer function; checked against the lexer by computation in the examples and by the
   correspondence run), the scan loop started in a fresh context returns the modules themselves up
   to [tnorm_module] (an unsigned immediate becomes the INT with the same bits, an index-less memory
   operand gets scale 1, a non-block argument size 0, a non-empty string operand a final NUL).
   [wf_text_tokens]: names resolve the way they were meant (registers of the function, declared items,
   labels exactly at the label positions of the insn class), types/immediates are representable, and
   labels are numbered in order of first occurrence per context ([canon_labels], the numbering
   MIR_scan_string itself produces).  Covers every item kind, func/proto signatures with block
   arguments and "...", local/global lines, label lines (also ending a function), lref items before
   and after their function, module-scoped label tables over several modules. *)
Theorem text_statement_roundtrip : forall ms, wf_text_tokens ms ->
  scan_loop (S (S (length (tk_ctx ms ++ [TEOF])))) sinit (tk_ctx ms ++ [TEOF]) = Ok (map tnorm_module ms).
Proof. exact scan_loop_tk_ctx. Qed.
Print Assumptions text_statement_roundtrip.

(* ... and that normal form prints to the same text (second half of the fixpoint property), for
   modules whose UINT immediates are below 2^63 and whose string operands are empty or NUL-terminated
   - the complement of known findings 1 and 2. *)
Theorem text_print_tnorm : forall fF fD fLD ms, text_stable ms ->
  p_ctx fF fD fLD (map tnorm_module ms) = p_ctx fF fD fLD ms.
Proof. exact p_ctx_tnorm. Qed.
Print Assumptions text_print_tnorm.

(* the text does not show what a binary read normalises: C11's "prints to the same text" *)
Theorem text_print_norm : forall fF fD fLD ms, p_ctx fF fD fLD (map norm_module ms) = p_ctx fF fD fLD ms.
Proof. exact p_ctx_norm. Qed.
Print Assumptions text_print_norm.

(* THE PROPERTY in the model: scanning the text the writer produces yields the modules up to
   [tnorm_module], and that normal form prints to identical text again.  For every context of modules
   meeting [wf_text] (TextFixpoint.v): identifiers as names, byte strings, immediates in range, the libc
   law on each float immediate present (pF/pD/pLD = strtof/strtod/strtold, fF/fD/fLD = printf with
   FLT/DBL/LDBL_MANT_DIG digits: lexeme of the printf shape and strtoX (printf x) = x), names resolving
   as meant, labels numbered in order of first occurrence ([canon_labels]: what MIR_scan_string itself produces; for
   any other numbering see text_module_scan_relabel below), UINT
   immediates < 2^63 and STR operands NUL-terminated (the complement of the recorded known findings).
   p-typed data (0x literals, HexProofs.v) is covered. *)
Theorem text_module_fixpoint : forall pF pD pLD fF fD fLD ms, wf_text pF pD pLD fF fD fLD ms ->
  scan_ctx pF pD pLD (p_ctx fF fD fLD ms) = Ok (map tnorm_module ms)
  /\ p_ctx fF fD fLD (map tnorm_module ms) = p_ctx fF fD fLD ms.
Proof. exact text_module_fixpoint_lemma. Qed.
Print Assumptions text_module_fixpoint.

(* THE PROPERTY for modules whose labels are numbered ARBITRARILY (built through the API in any order, read
   from binary files produced separately so that label numbers of different modules overlap, ...): a
   label in text is a name L<n>, and MIR_scan_string gives every name of a module the next number of
   the context's label counter at its first occurrence.  [relabel_ctx] (ParseProofs.v) is that renaming
   on the AST; it is defined exactly when every label number prints as an L<n> name and no label is
   defined twice in a module.  Scanning the writer's text yields the renamed modules up to tnorm - no
   assumption on the numbering.  With [canon_labels ms] (= relabel_ctx ms = Some ms) this is
   text_module_fixpoint; the renamed context is again subject to text_module_fixpoint whenever it meets
   wf_text (decided by wf_text_b, evaluated by the driver on the renamed context of every generated case). *)
Theorem text_module_scan_relabel : forall pF pD pLD fF fD fLD ms ms',
  cctx_ok pF pD pLD fF fD fLD ms -> Forall tmodule_ok ms -> relabel_ctx ms = Some ms' ->
  scan_ctx pF pD pLD (p_ctx fF fD fLD ms) = Ok (map tnorm_module ms').
Proof. exact text_module_scan_relabel_lemma. Qed.
Print Assumptions text_module_scan_relabel.

(* non-vacuity: two modules with labels 7 and 3 used before their definition, the same numbers in both
   modules, an lref in front of its function: hypotheses hold, the renaming is not the identity, and
   the renamed context is canonical (a second scan is a strict fixpoint) *)
Theorem text_relabel_nonvacuous :
  cctx_ok parseF parseD parseLD fmtF fmtD fmtLD tex_ctx2 /\ Forall tmodule_ok tex_ctx2
  /\ relabel_ctx tex_ctx2 = Some tex_ctx2r /\ tex_ctx2r <> tex_ctx2 /\ relabel_ctx tex_ctx2r = Some tex_ctx2r.
Proof. exact (conj tex2_chars_ok (conj tex2_tokens_ok tex2_relabel)). Qed.
Print Assumptions text_relabel_nonvacuous.

(* The whole statement with its hypotheses as ONE computable check [wf_text_b] (sound: cctx_ok_b_spec,
   tmodules_ok_b_spec, text_stable_b_spec in TextWfDec.v; the libc law on a float immediate is decided by
   printing it with the printf model, checking the shape of the lexeme and parsing it back), for any
   numbering of the labels: the scan yields the modules renamed the way MIR_scan_string renames labels,
   up to tnorm, and that normal form prints exactly the text of the renamed modules (the renaming
   preserves text_stable: relabel_ctx_stable).  The driver evaluates wf_text_b and relabel_ctx on every
   generated context (evidence: theorem_hypotheses). *)
Theorem text_roundtrip_checked : forall pF pD pLD fF fD fLD ms ms',
  wf_text_b pF pD pLD fF fD fLD ms = true -> relabel_ctx ms = Some ms' ->
  scan_ctx pF pD pLD (p_ctx fF fD fLD ms) = Ok (map tnorm_module ms')
  /\ p_ctx fF fD fLD (map tnorm_module ms') = p_ctx fF fD fLD ms'.
Proof. exact text_roundtrip_checked_lemma. Qed.
Print Assumptions text_roundtrip_checked.

(* ... and with labels already numbered the scanner's way the check implies wf_text, the hypothesis of
   text_module_fixpoint *)
Theorem text_wf_checked : forall pF pD pLD fF fD fLD ms,
  wf_text_b pF pD pLD fF fD fLD ms = true -> relabel_ctx ms = Some ms -> wf_text pF pD pLD fF fD fLD ms.
Proof. exact wf_text_b_spec. Qed.
Print Assumptions text_wf_checked.

(* The scanner's renaming is idempotent: the context a scan produces is numbered in first-occurrence order
   (canon_labels), whatever the numbering of the original, as long as the context's label counter stays
   below 2^63 ([label_count ms] = the counter after scanning ms).  Proof: simulation of the run on the
   renamed context by the run on the original one (RelabelIdem.v). *)
Theorem text_relabel_canonical : forall ms ms',
  relabel_ctx ms = Some ms' -> label_count ms < 2 ^ 63 -> canon_labels ms'.
Proof. exact relabel_ctx_idem. Qed.
Print Assumptions text_relabel_canonical.

(* Hence the second round is a strict fixpoint: printing the scanned (renamed) context and scanning it
   again returns it up to tnorm and prints identically, whenever the renamed context passes wf_text_b
   (evaluated by the driver on every generated case: theorem_hypotheses_second_round). *)
Theorem text_second_round : forall pF pD pLD fF fD fLD ms ms',
  relabel_ctx ms = Some ms' -> label_count ms < 2 ^ 63 -> wf_text_b pF pD pLD fF fD fLD ms' = true ->
  scan_ctx pF pD pLD (p_ctx fF fD fLD ms') = Ok (map tnorm_module ms')
  /\ p_ctx fF fD fLD (map tnorm_module ms') = p_ctx fF fD fLD ms'.
Proof. exact text_second_round_lemma. Qed.
Print Assumptions text_second_round.

(* the writer model terminates with an output on every context (it is a structurally recursive
   function over items, insns and operands: no fuel, no partiality) *)
Theorem text_writer_total : forall fF fD fLD ms, exists txt, p_ctx fF fD fLD ms = txt.
Proof. exact text_writer_total_lemma. Qed.
Print Assumptions text_writer_total.

(* non-vacuity: with the exact libc models of FloatFmt.v, a context with a function (arguments incl. a
   block argument, locals, a hard-register global, labels, memory operand with alias, call, switch,
   double immediate, string), proto, bss, data, ref, lref and expr items satisfies wf_text *)
Theorem text_fixpoint_nonvacuous :
  wf_text parseF parseD parseLD fmtF fmtD fmtLD tex_ctx /\ map tnorm_module tex_ctx <> tex_ctx.
Proof. exact (conj tex_wf tex_tnorm_differs). Qed.
Print Assumptions text_fixpoint_nonvacuous.

(* Temporary item names after a scan: MIR_scan_string passes every statement label to
   process_reserved_name, so module->last_temp_item_num ([text_item_counter]; compared with the
   implementation on every generated module) is at least the number k of every *defined* item named
   ".lc<k>", and the next name _MIR_get_temp_item_name generates is not the name of a defined item of
   the scanned module: loading it (simplification creates .lc data for float and string immediates)
   cannot fail with "Repeated item declaration" where the original module loads. *)
Theorem text_temp_counter_fresh : forall m it, In it (mod_items m) -> is_decl it = false ->
  (forall k, 0 <= k < 2 ^ 32 -> item_name it = Some (temp_item_name k) -> k <= text_item_counter m)
  /\ (text_item_counter m + 1 < 2 ^ 32 -> item_name it <> Some (temp_item_name (text_item_counter m + 1)))
  /\ text_item_counter (tnorm_module m) = text_item_counter m.
Proof. exact text_temp_counter_lemma. Qed.
Print Assumptions text_temp_counter_fresh.

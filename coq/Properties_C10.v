(* Property C10: textual MIR written by MIR_output reads back as the same module.
   Only the property theorems, each closed by [exact] and followed by Print Assumptions. *)
From Coq Require Import List ZArith NArith.
From MirV Require Import C11.Ast C10.TextOut C10.TextScan C10.TextProofs.

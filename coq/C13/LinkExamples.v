(* C13: non-vacuity examples (evaluated by vm_compute; these are tests, not the theorems) *)
From Coq Require Import List Arith Bool.
Import ListNotations.
From MirV Require Import C13.Link C13.LinkProofs.

Definition no_resolver : resolver := fun _ => None.
Definition resolve_all : resolver := fun n => Some (100 + n).

Definition A : list decl := [(KExport, 0); (KFunc, 0)].    (* exports function n0 *)
Definition B : list decl := [(KImport, 0)].                (* imports n0 *)

(* four modules, two versions of n0: each importer is bound to the version loaded last before
   its own link step, and the first importer keeps its binding *)
Definition h4 : list op :=
  [SetRedef true; Load A; Load B; Link no_resolver; Load A; Load B; Link no_resolver].

Example h4_alive : dead (fst (run h4)) = false.
Proof. vm_compute. reflexivity. Qed.

Example h4_bindings :
  linked (fst (run h4))
  = [(0, [(KExport, 0, Some (DMod 0 1 KFunc))]); (1, [(KImport, 0, Some (DMod 0 1 KFunc))]);
     (2, [(KExport, 0, Some (DMod 2 1 KFunc))]); (3, [(KImport, 0, Some (DMod 2 1 KFunc))])].
Proof. vm_compute. reflexivity. Qed.

Example h4_log :
  pubs (snd (run h4)) = [(0, DMod 0 1 KFunc); (0, DMod 2 1 KFunc)]
  /\ last_def (pubs (snd (run h4))) 0 = Some (DMod 2 1 KFunc).
Proof. vm_compute. split; reflexivity. Qed.

(* without the permission the second version is rejected *)
Example second_version_rejected :
  snd (run [Load A; Load B; Link no_resolver; Load A])
  = [(Load A, OOk); (Load B, OOk);
     (Link no_resolver, OLinked [(0, [(KExport, 0, Some (DMod 0 1 KFunc))]);
                                 (1, [(KImport, 0, Some (DMod 0 1 KFunc))])] []);
     (Load A, OErr ERepeatedDecl)].
Proof. vm_compute. reflexivity. Qed.

(* an external overrides a MIR export and vice versa (data may always be redefined) *)
Example external_after_export :
  linked (fst (run [Load A; LoadExternal 0 7; Load B; Link no_resolver]))
  = [(0, [(KExport, 0, Some (DMod 0 1 KFunc))]); (1, [(KImport, 0, Some (DExt 7))])].
Proof. vm_compute. reflexivity. Qed.

Example export_after_external :
  linked (fst (run [LoadExternal 0 7; Load [(KExport, 0); (KData, 0)]; Load B; Link no_resolver]))
  = [(0, [(KExport, 0, Some (DMod 0 1 KData))]); (1, [(KImport, 0, Some (DMod 0 1 KData))])].
Proof. vm_compute. reflexivity. Qed.

(* unresolved import: the resolver, else an error *)
Example resolver_used :
  snd (step init (Load B)) = OOk /\
  snd (step (fst (step init (Load B))) (Link resolve_all))
  = OLinked [(0, [(KImport, 0, Some (DExt 100))])] [(0, 100)].
Proof. vm_compute. split; reflexivity. Qed.

Example unresolved_is_error :
  snd (step (fst (step init (Load B))) (Link no_resolver)) = OErr EUndeclaredOpRef.
Proof. vm_compute. reflexivity. Qed.

(* the hypotheses of link_redef_rejected are met by a reachable state *)
Example redefines_witness :
  build A = inl {| mitems := [mk KExport 0 false; mk KFunc 0 true]; mtab := [(0, 1); (0, 0)] |}
  /\ dead (fst (run [Load A])) = false
  /\ redef_of (snd (run [Load A])) = false.
Proof. vm_compute. repeat split; reflexivity. Qed.

(* C13: non-vacuity examples (evaluated by vm_compute; these are tests, not the theorems) *)
From Coq Require Import List Arith Bool.
Import ListNotations.
From MirV Require Import C13.Link C13.LinkProofs.

Definition no_resolver : resolver := fun _ => None.
Definition resolve_all : resolver := fun n => Some (100 + n).

Definition A : list decl := [(KExport, 0); (KFunc, 0)].    (* exports function n0 *)
Definition B : list decl := [(KImport, 0)].                (* imports n0 *)

(* four modules, two versions of n0: each importer is bound to the version loaded last before
   its own link step, and the first importer keeps its binding *)
Definition h4 : list op :=
  [SetRedef true; Load A; Load B; Link no_resolver; Load A; Load B; Link no_resolver].

Example h4_alive : dead (fst (run h4)) = false.
Proof. vm_compute. reflexivity. Qed.

Example h4_bindings :
  linked (fst (run h4))
  = [(0, [(KExport, 0, Some (DMod 0 1 KFunc))]); (1, [(KImport, 0, Some (DMod 0 1 KFunc))]);
     (2, [(KExport, 0, Some (DMod 2 1 KFunc))]); (3, [(KImport, 0, Some (DMod 2 1 KFunc))])].
Proof. vm_compute. reflexivity. Qed.

Example h4_log :
  pubs (snd (run h4)) = [(0, DMod 0 1 KFunc); (0, DMod 2 1 KFunc)]
  /\ last_def (pubs (snd (run h4))) 0 = Some (DMod 2 1 KFunc).
Proof. vm_compute. split; reflexivity. Qed.

(* without the permission the second version is rejected *)
Example second_version_rejected :
  snd (run [Load A; Load B; Link no_resolver; Load A])
  = [(Load A, OOk); (Load B, OOk);
     (Link no_resolver, OLinked [(0, [(KExport, 0, Some (DMod 0 1 KFunc))]);
                                 (1, [(KImport, 0, Some (DMod 0 1 KFunc))])] []);
     (Load A, OErr ERepeatedDecl)].
Proof. vm_compute. reflexivity. Qed.

(* an external overrides a MIR export and vice versa (data may always be redefined) *)
Example external_after_export :
  linked (fst (run [Load A; LoadExternal 0 7; Load B; Link no_resolver]))
  = [(0, [(KExport, 0, Some (DMod 0 1 KFunc))]); (1, [(KImport, 0, Some (DExt 7))])].
Proof. vm_compute. reflexivity. Qed.

Example export_after_external :
  linked (fst (run [LoadExternal 0 7; Load [(KExport, 0); (KData, 0)]; Load B; Link no_resolver]))
  = [(0, [(KExport, 0, Some (DMod 0 1 KData))]); (1, [(KImport, 0, Some (DMod 0 1 KData))])].
Proof. vm_compute. reflexivity. Qed.

(* unresolved import: the resolver, else an error *)
Example resolver_used :
  snd (step true init (Load B)) = OOk /\
  snd (step true (fst (step true init (Load B))) (Link resolve_all))
  = OLinked [(0, [(KImport, 0, Some (DExt 100))])] [(0, 100)].
Proof. vm_compute. split; reflexivity. Qed.

Example unresolved_is_error :
  snd (step true (fst (step true init (Load B))) (Link no_resolver)) = OLinkFailed [].
Proof. vm_compute. reflexivity. Qed.

(* ---- histories that go on after an error *)

(* a rejected second version: the importer loaded afterwards is bound to the FIRST version *)
Definition h_rej : list op := [Load A; Load A; Load B; Link no_resolver].

Example h_rej_trace :
  snd (run h_rej)
  = [(Load A, OOk); (Load A, OErr ERepeatedDecl); (Load B, OOk);
     (Link no_resolver, OLinked [(0, [(KExport, 0, Some (DMod 0 1 KFunc))]);
                                 (2, [(KImport, 0, Some (DMod 0 1 KFunc))])] [])].
Proof. vm_compute. reflexivity. Qed.

(* the pinned tree (no fixes/C13-1.patch) binds it to the function of the REJECTED module *)
Example h_rej_pinned :
  snd (run_pinned h_rej)
  = [(Load A, OOk); (Load A, OErr ERepeatedDecl); (Load B, OOk);
     (Link no_resolver, OLinked [(0, [(KExport, 0, Some (DMod 0 1 KFunc))]);
                                 (2, [(KImport, 0, Some (DMod 1 1 KFunc))])] [])].
Proof. vm_compute. reflexivity. Qed.

(* a failed link keeps the queue and what the resolver supplied; the next link binds everything *)
Definition only1 : resolver := fun n => if Nat.eqb n 1 then Some 101 else None.
Definition h_retry : list op :=
  [Load [(KImport, 1); (KImport, 0)]; Link only1; LoadExternal 0 3; Link no_resolver].

Example h_retry_trace :
  snd (run h_retry)
  = [(Load [(KImport, 1); (KImport, 0)], OOk); (Link only1, OLinkFailed [(1, 101)]);
     (LoadExternal 0 3, OOk);
     (Link no_resolver, OLinked [(0, [(KImport, 1, Some (DExt 101)); (KImport, 0, Some (DExt 3))])] [])].
Proof. vm_compute. reflexivity. Qed.

Example h_retry_queue :
  to_link (fst (run [Load B; Link no_resolver])) = pending (snd (run [Load B; Link no_resolver]))
  /\ length (to_link (fst (run [Load B; Link no_resolver]))) = 1
  /\ to_link (fst (run h_retry)) = [].
Proof. vm_compute. repeat split; reflexivity. Qed.

(* MIR_link with a NULL set_interface binds but keeps the modules queued: the next link binds them
   again, to what is latest THEN *)
Definition h_null : list op :=
  [SetRedef true; Load A; Load B; LinkNoIface no_resolver; Load A; Link no_resolver].

Example h_null_trace :
  snd (run h_null)
  = [(SetRedef true, OOk); (Load A, OOk); (Load B, OOk);
     (LinkNoIface no_resolver, OBound [(0, [(KExport, 0, Some (DMod 0 1 KFunc))]);
                                       (1, [(KImport, 0, Some (DMod 0 1 KFunc))])] []);
     (Load A, OOk);
     (Link no_resolver, OLinked [(0, [(KExport, 0, Some (DMod 0 1 KFunc))]);
                                 (1, [(KImport, 0, Some (DMod 2 1 KFunc))]);
                                 (2, [(KExport, 0, Some (DMod 2 1 KFunc))])] [])].
Proof. vm_compute. reflexivity. Qed.

(* the hypotheses of the all-histories theorems are met by histories with failing steps *)
Example builds_witness : Forall builds h_rej /\ Forall builds h_retry /\ Forall builds h_null.
Proof.
  repeat split; repeat constructor; try (eexists; vm_compute; reflexivity).
Qed.

(* the hypotheses of link_redef_rejected are met by a reachable state *)
Example redefines_witness :
  build A = inl {| mitems := [mk KExport 0 false; mk KFunc 0 true]; mtab := [(0, 1); (0, 0)] |}
  /\ dead (fst (run [Load A])) = false
  /\ redef_of (snd (run [Load A])) = false.
Proof. vm_compute. repeat split; reflexivity. Qed.


(* On the pinned tree a rejected load is NOT without effect: the table of globals already holds the
   rejected module's function (MIR_load_module checks after setup_global). *)
Lemma rejected_load_pinned_refuted_proof :
  exists s ds e, dead s = false /\ (exists m, build ds = inl m) /\
    snd (step false s (Load ds)) = OErr e /\ env (fst (step false s (Load ds))) <> env s.
Proof.
  exists (fst (run [Load A])), A, ERepeatedDecl.
  split; [vm_compute; reflexivity|]. split; [eexists; vm_compute; reflexivity|].
  split; [vm_compute; reflexivity|]. vm_compute. discriminate.
Qed.

(* ... and a module linked later is bound to a function whose module was never queued *)
Lemma rejected_load_pinned_binding_refuted_proof :
  exists h, Forall builds h /\ linked (fst (run_pinned h)) <> linked (fst (run h)).
Proof.
  exists h_rej. split; [apply builds_witness|]. vm_compute. discriminate.
Qed.

(* wave 6 (seeded C13-v2): several definitions of one name registered between the loads and ONE link: the exporter
   queued first, the importer after it, a newer definition (a second exporter / an external) registered last.  The
   importer is bound to the definition registered last, not to the exporter the link reaches first, and the table of
   globals after the link still holds the newest definition. *)
Definition h_batch2 : list op := [SetRedef true; Load A; Load B; Load A; Link no_resolver].
Definition h_batchx : list op := [Load A; Load B; LoadExternal 0 7; Link no_resolver].

Example batch_binds_newest_export :
  linked (fst (run h_batch2))
  = [(0, [(KExport, 0, Some (DMod 0 1 KFunc))]); (1, [(KImport, 0, Some (DMod 2 1 KFunc))]);
     (2, [(KExport, 0, Some (DMod 2 1 KFunc))])]
  /\ assoc (env (fst (run h_batch2))) 0 = Some (DMod 2 1 KFunc).
Proof. vm_compute. split; reflexivity. Qed.

Example batch_binds_external_registered_last :
  linked (fst (run h_batchx))
  = [(0, [(KExport, 0, Some (DMod 0 1 KFunc))]); (1, [(KImport, 0, Some (DExt 7))])]
  /\ assoc (env (fst (run h_batchx))) 0 = Some (DExt 7).
Proof. vm_compute. split; reflexivity. Qed.

(* C13: the module-building layer (add_item): what a built module exports, in terms of the
   declarations it was built from. *)
From Coq Require Import List Arith Bool Lia.
Import ListNotations.
From MirV Require Import C13.Link C13.LinkProofs.

Definition is_def_decl (d : decl) : bool := is_def (fst d).
Definition kn (it : mitem) : decl := (ik it, iname it).

(* ------------------------------------------------------------ helpers *)

Lemma tab_find_retab m n i n' :
  tab_find (retab m n i) n' = if Nat.eqb n n' then Some i else tab_find m n'.
Proof. reflexivity. Qed.

Lemma tab_find_append m it n : tab_find (append_item m it) n = tab_find m n.
Proof. reflexivity. Qed.

Lemma tab_find_set_exp m i n : tab_find (set_exp m i) n = tab_find m n.
Proof. reflexivity. Qed.

Lemma nth_error_snoc {A} (l : list A) x i :
  nth_error (l ++ [x]) i = if Nat.ltb i (length l) then nth_error l i
                           else if Nat.eqb i (length l) then Some x else None.
Proof.
  destruct (Nat.ltb_spec i (length l)).
  - apply nth_error_app1. exact H.
  - rewrite nth_error_app2 by exact H. destruct (Nat.eqb_spec i (length l)).
    + subst. rewrite Nat.sub_diag. reflexivity.
    + destruct (i - length l) eqn:E; [lia|]. simpl. destruct n0; reflexivity.
Qed.

Definition with_exp (t : mitem) : mitem := {| ik := ik t; iname := iname t; iexp := true |}.

Lemma nth_set_exp_at l : forall i j,
  nth_error (set_exp_at l i) j
  = if Nat.eqb j i then option_map with_exp (nth_error l i) else nth_error l j.
Proof.
  induction l as [|x l IH]; intros i j; simpl.
  - destruct (Nat.eqb j i); destruct i, j; reflexivity.
  - destruct i as [|i]; destruct j as [|j]; simpl; try reflexivity.
    apply IH.
Qed.

Lemma set_exp_at_length l : forall i, length (set_exp_at l i) = length l.
Proof. induction l as [|x l IH]; intros [|i]; simpl; auto. Qed.

Lemma map_kn_set_exp_at l : forall i, map kn (set_exp_at l i) = map kn l.
Proof. induction l as [|x l IH]; intros [|i]; simpl; auto. f_equal. apply IH. Qed.

Lemma filter_def_set_exp_at l : forall i,
  map kn (filter (fun it => is_def (ik it)) (set_exp_at l i))
  = map kn (filter (fun it => is_def (ik it)) l).
Proof.
  induction l as [|x l IH]; intros [|i]; simpl; auto.
  - destruct (is_def (ik x)); reflexivity.
  - destruct (is_def (ik x)); simpl; rewrite IH; reflexivity.
Qed.

(* ------------------------------------------------------------ the invariant *)

Definition name_state (ds : list decl) (n : name) (t : mitem) : Prop :=
  match ik t with
  | KImport => forall k, In (k, n) ds -> k = KImport
  | KForward => forall k, In (k, n) ds -> k = KForward
  | KExport => (forall k, In (k, n) ds -> k = KExport \/ k = KForward) /\ In (KExport, n) ds
  | _ => iexp t = true <-> In (KExport, n) ds
  end.

Record WF (m : modl) (ds : list decl) : Prop := {
  wf_tab : forall n ti, tab_find m n = Some ti ->
             exists t, nth_error (mitems m) ti = Some t /\ iname t = n /\ name_state ds n t;
  wf_none : forall n, tab_find m n = None -> forall k, ~ In (k, n) ds;
  wf_def : forall i t, nth_error (mitems m) i = Some t -> is_def (ik t) = true ->
             tab_find m (iname t) = Some i;
  wf_nondef : forall t, In t (mitems m) -> is_def (ik t) = false -> iexp t = false;
  wf_order : map kn (filter (fun it => is_def (ik it)) (mitems m)) = filter is_def_decl ds
}.

Lemma WF_empty : WF empty_mod [].
Proof.
  constructor; simpl; intros.
  - discriminate.
  - intros [].
  - destruct i; discriminate.
  - destruct H.
  - reflexivity.
Qed.

Lemma in_snoc {A} (l : list A) x y : In y (l ++ [x]) <-> In y l \/ y = x.
Proof. rewrite in_app_iff. simpl. intuition. Qed.

Lemma name_state_other ds t n k' n' :
  n' <> n -> name_state ds n t -> name_state (ds ++ [(k', n')]) n t.
Proof.
  intros Hne H. unfold name_state in *.
  assert (E : forall k, In (k, n) (ds ++ [(k', n')]) <-> In (k, n) ds).
  { intro k. rewrite in_snoc. split; [intros [H1|H1]; [exact H1 | inversion H1; congruence] | auto]. }
  destruct (ik t).
  - intros k Hk. apply H. apply E. exact Hk.
  - destruct H as [H1 H2]. split; [intros k Hk; apply H1; apply E; exact Hk | apply E; exact H2].
  - intros k Hk. apply H. apply E. exact Hk.
  - rewrite E. exact H.
  - rewrite E. exact H.
  - rewrite E. exact H.
Qed.

Lemma filter_def_snoc l x :
  filter (fun it => is_def (ik it)) (l ++ [x])
  = filter (fun it => is_def (ik it)) l ++ (if is_def (ik x) then [x] else []).
Proof. rewrite filter_app. reflexivity. Qed.

Lemma filter_decl_snoc ds d :
  filter is_def_decl (ds ++ [d]) = filter is_def_decl ds ++ (if is_def_decl d then [d] else []).
Proof. rewrite filter_app. reflexivity. Qed.

(* ------------------------------------------------------------ preservation, by shape of the update *)

Lemma nth_error_lt {A} (l : list A) i x : nth_error l i = Some x -> i < length l.
Proof. intro H. apply nth_error_Some. rewrite H. discriminate. Qed.

(* the module does not change; the new declaration is not a definition *)
Lemma WF_same m ds k n ti t :
  WF m ds -> tab_find m n = Some ti -> nth_error (mitems m) ti = Some t ->
  name_state (ds ++ [(k, n)]) n t -> is_def k = false ->
  WF m (ds ++ [(k, n)]).
Proof.
  intros W Ht Hn Hs Hk. destruct W as [W1 W2 W3 W4 W5]. constructor.
  - intros n' ti' H'. destruct (W1 n' ti' H') as (t' & A & B & C).
    exists t'. split; [exact A|]. split; [exact B|].
    destruct (Nat.eq_dec n' n) as [E|NE].
    + rewrite E in *. rewrite Ht in H'. inversion H'; subst ti'. rewrite Hn in A. inversion A; subst t'. exact Hs.
    + apply name_state_other; [congruence | exact C].
  - intros n' H' k' Hin. apply in_snoc in Hin. destruct Hin as [Hin|Hin].
    + exact (W2 n' H' k' Hin).
    + inversion Hin; subst. rewrite Ht in H'. discriminate.
  - exact W3.
  - exact W4.
  - rewrite filter_decl_snoc. unfold is_def_decl at 2. simpl. rewrite Hk, app_nil_r. exact W5.
Qed.

(* a non-definition item is appended, the table does not change *)
Lemma WF_append m ds k n ti t :
  WF m ds -> tab_find m n = Some ti -> nth_error (mitems m) ti = Some t ->
  name_state (ds ++ [(k, n)]) n t -> is_def k = false ->
  WF (append_item m (mk k n false)) (ds ++ [(k, n)]).
Proof.
  intros W Ht Hn Hs Hk. pose proof (WF_same m ds k n ti t W Ht Hn Hs Hk) as W'.
  destruct W' as [W1 W2 W3 W4 W5]. constructor; simpl.
  - intros n' ti' H'. rewrite tab_find_append in H'. destruct (W1 n' ti' H') as (t' & A & B & C).
    exists t'. split; [|split; assumption].
    rewrite nth_error_app1; [exact A | exact (nth_error_lt _ _ _ A)].
  - intros n' H'. rewrite tab_find_append in H'. exact (W2 n' H').
  - intros i t' H' Hd. rewrite tab_find_append. rewrite nth_error_snoc in H'.
    destruct (Nat.ltb i (length (mitems m))); [exact (W3 i t' H' Hd)|].
    destruct (Nat.eqb i (length (mitems m))); [|discriminate].
    inversion H'; subst t'. simpl in Hd. rewrite Hk in Hd. discriminate.
  - intros t' Hin Hd. apply in_snoc in Hin. destruct Hin as [Hin|Hin]; [exact (W4 t' Hin Hd)|].
    subst t'. reflexivity.
  - rewrite filter_def_snoc. simpl. rewrite Hk, app_nil_r. exact W5.
Qed.

(* an item is appended and becomes the table entry of its name *)
Lemma WF_retab m ds k n e :
  WF m ds ->
  (forall i t', nth_error (mitems m) i = Some t' -> is_def (ik t') = true -> iname t' <> n) ->
  name_state (ds ++ [(k, n)]) n (mk k n e) -> (is_def k = false -> e = false) ->
  WF (retab (append_item m (mk k n e)) n (length (mitems m))) (ds ++ [(k, n)]).
Proof.
  intros W Hnodef Hs He. destruct W as [W1 W2 W3 W4 W5]. constructor; simpl.
  - intros n' ti' H'. rewrite tab_find_retab, tab_find_append in H'.
    destruct (Nat.eqb_spec n n') as [E|NE].
    + subst n'. inversion H'; subst ti'. exists (mk k n e).
      rewrite nth_error_snoc, Nat.ltb_irrefl, Nat.eqb_refl. repeat split; auto.
    + destruct (W1 n' ti' H') as (t' & A & B & C). exists t'. split; [|split].
      * rewrite nth_error_app1; [exact A | exact (nth_error_lt _ _ _ A)].
      * exact B.
      * apply name_state_other; [congruence | exact C].
  - intros n' H' k' Hin. rewrite tab_find_retab, tab_find_append in H'.
    destruct (Nat.eqb_spec n n') as [E|NE]; [discriminate|].
    apply in_snoc in Hin. destruct Hin as [Hin|Hin]; [exact (W2 n' H' k' Hin)|].
    inversion Hin; subst. congruence.
  - intros i t' H' Hd. rewrite tab_find_retab, tab_find_append. rewrite nth_error_snoc in H'.
    destruct (Nat.ltb i (length (mitems m))) eqn:Hlt.
    + pose proof (Hnodef i t' H' Hd) as Hne.
      destruct (Nat.eqb_spec n (iname t')) as [E|NE]; [congruence|]. exact (W3 i t' H' Hd).
    + destruct (Nat.eqb_spec i (length (mitems m))) as [E|NE]; [|discriminate].
      inversion H'; subst t' i. simpl. rewrite Nat.eqb_refl. reflexivity.
  - intros t' Hin Hd. apply in_snoc in Hin. destruct Hin as [Hin|Hin]; [exact (W4 t' Hin Hd)|].
    subst t'. simpl in *. apply He. exact Hd.
  - rewrite filter_def_snoc, filter_decl_snoc. unfold is_def_decl at 2. simpl.
    destruct (is_def k); rewrite map_app, W5; reflexivity.
Qed.

(* when the table item of n is not a definition, no definition is named n *)
Lemma no_def_named m ds n ti t :
  WF m ds -> tab_find m n = Some ti -> nth_error (mitems m) ti = Some t -> is_def (ik t) = false ->
  forall i t', nth_error (mitems m) i = Some t' -> is_def (ik t') = true -> iname t' <> n.
Proof.
  intros W Ht Hn Hd i t' H' Hd' E. subst n.
  pose proof (wf_def m ds W i t' H' Hd') as Hx. rewrite Hx in Ht. inversion Ht; subst ti.
  rewrite H' in Hn. inversion Hn; subst t'. rewrite Hd in Hd'. discriminate.
Qed.

Lemma no_def_fresh m ds n :
  WF m ds -> tab_find m n = None ->
  forall i t', nth_error (mitems m) i = Some t' -> is_def (ik t') = true -> iname t' <> n.
Proof.
  intros W Ht i t' H' Hd' E. subst n.
  pose proof (wf_def m ds W i t' H' Hd') as Hx. rewrite Hx in Ht. discriminate.
Qed.

(* export of an already defined, not yet exported name: the flag is set on the definition *)
Lemma WF_set_exp m ds n ti t :
  WF m ds -> tab_find m n = Some ti -> nth_error (mitems m) ti = Some t ->
  is_def (ik t) = true ->
  WF (append_item (set_exp m ti) (mk KExport n false)) (ds ++ [(KExport, n)]).
Proof.
  intros W Ht Hn Hd. pose proof W as W0. destruct W as [W1 W2 W3 W4 W5].
  assert (Hname : iname t = n).
  { destruct (W1 n ti Ht) as (t0 & A & B & _). rewrite Hn in A. inversion A; subst. reflexivity. }
  assert (Hlen : ti < length (mitems m)) by exact (nth_error_lt _ _ _ Hn).
  constructor; simpl.
  - intros n' ti' H'. rewrite tab_find_append, tab_find_set_exp in H'.
    destruct (W1 n' ti' H') as (t' & A & B & C).
    assert (Hlt : ti' < length (set_exp_at (mitems m) ti)) by (rewrite set_exp_at_length; exact (nth_error_lt _ _ _ A)).
    destruct (Nat.eq_dec ti' ti) as [E|NE].
    + assert (Et : t' = t) by congruence. rewrite Et in *.
      assert (En : n' = n) by congruence. rewrite En in *. rewrite E in *.
      exists (with_exp t). rewrite nth_error_app1 by exact Hlt.
      rewrite nth_set_exp_at, Nat.eqb_refl, Hn. split; [reflexivity|]. split; [exact Hname|].
      unfold name_state in *. simpl. destruct (ik t); try discriminate;
        (split; [intros _; apply in_snoc; right; reflexivity | reflexivity]).
    + exists t'. rewrite nth_error_app1 by exact Hlt. rewrite nth_set_exp_at.
      destruct (Nat.eqb_spec ti' ti); [contradiction|]. split; [exact A|]. split; [exact B|].
      apply name_state_other; [|exact C]. intro E. rewrite <- E in H'. rewrite Ht in H'. inversion H'. congruence.
  - intros n' H' k' Hin. rewrite tab_find_append, tab_find_set_exp in H'.
    apply in_snoc in Hin. destruct Hin as [Hin|Hin]; [exact (W2 n' H' k' Hin)|].
    inversion Hin; subst. rewrite Ht in H'. discriminate.
  - intros i t' H' Hd'. rewrite tab_find_append, tab_find_set_exp. rewrite nth_error_snoc in H'.
    rewrite set_exp_at_length in H'.
    destruct (Nat.ltb i (length (mitems m))).
    + rewrite nth_set_exp_at in H'. destruct (Nat.eqb_spec i ti) as [E|NE].
      * subst i. rewrite Hn in H'. inversion H'; subst t'. simpl. exact (W3 ti t Hn Hd).
      * exact (W3 i t' H' Hd').
    + destruct (Nat.eqb i (length (mitems m))); [|discriminate]. inversion H'; subst t'. discriminate.
  - intros t' Hin Hd'. apply in_snoc in Hin. destruct Hin as [Hin|Hin]; [|subst t'; reflexivity].
    destruct (In_nth_error _ _ Hin) as [i Hi]. rewrite nth_set_exp_at in Hi.
    destruct (Nat.eqb_spec i ti) as [E|NE].
    + rewrite Hn in Hi. inversion Hi; subst t'. simpl in Hd'. rewrite Hd in Hd'. discriminate.
    + apply W4; [eapply nth_error_In; exact Hi | exact Hd'].
  - rewrite filter_def_snoc, filter_decl_snoc. simpl. rewrite !app_nil_r.
    rewrite filter_def_set_exp_at. exact W5.
Qed.

(* ------------------------------------------------------------ add_item preserves the invariant *)

Lemma add_item_WF m ds k n m' :
  WF m ds -> add_item m k n = inl m' -> WF m' (ds ++ [(k, n)]).
Proof.
  intros W H. unfold add_item in H.
  destruct (tab_find m n) as [ti|] eqn:Ht.
  2:{ (* first declaration of the name *)
    inversion H; subst m'. apply WF_retab; auto.
    - exact (no_def_fresh m ds n W Ht).
    - pose proof (wf_none m ds W n Ht) as Hnone.
      assert (Hin : forall k', In (k', n) (ds ++ [(k, n)]) -> k' = k).
      { intros k' Hk'. apply in_snoc in Hk'. destruct Hk' as [Hk'|Hk']; [destruct (Hnone k' Hk') | congruence]. }
      unfold name_state. simpl. destruct k; try exact Hin.
      + split; [intros k' Hk'; left; apply Hin; exact Hk' | apply in_snoc; right; reflexivity].
      + split; [discriminate | intro Hx; apply Hin in Hx; discriminate].
      + split; [discriminate | intro Hx; apply Hin in Hx; discriminate].
      + split; [discriminate | intro Hx; apply Hin in Hx; discriminate]. }
  destruct (nth_error (mitems m) ti) as [t|] eqn:Hn; [|discriminate].
  destruct (wf_tab m ds W n ti Ht) as (t0 & A0 & Hname & Hst). rewrite Hn in A0. inversion A0; subst t0.
  assert (Hsnoc : forall k', In (k', n) (ds ++ [(k, n)]) <-> In (k', n) ds \/ k' = k).
  { intro k'. rewrite in_snoc. split; intros [X|X]; auto; [inversion X; auto | subst; auto]. }
  unfold name_state in Hst.
  destruct (ik t) eqn:Hk.
  - (* table item is an import *)
    destruct k; try discriminate. inversion H; subst m'.
    apply (WF_same m ds KImport n ti t W Ht Hn); [|reflexivity].
    unfold name_state. rewrite Hk. intros k' Hk'. apply Hsnoc in Hk'. destruct Hk'; auto.
  - (* table item is an export *)
    destruct Hst as [Hall Hex].
    destruct k; try discriminate.
    + (* export again *) simpl in H. inversion H; subst m'.
      apply (WF_same m ds KExport n ti t W Ht Hn); [|reflexivity].
      unfold name_state. rewrite Hk. split.
      * intros k' Hk'. apply Hsnoc in Hk'. destruct Hk' as [X|X]; [apply Hall; exact X | left; exact X].
      * apply Hsnoc. left. exact Hex.
    + (* forward after export: appended, table unchanged *)
      simpl in H. inversion H; subst m'.
      apply (WF_append m ds KForward n ti t W Ht Hn); [|reflexivity].
      unfold name_state. rewrite Hk. split.
      * intros k' Hk'. apply Hsnoc in Hk'. destruct Hk' as [X|X]; [apply Hall; exact X | right; exact X].
      * apply Hsnoc. left. exact Hex.
    + inversion H; subst m'. simpl. apply WF_retab; auto; try discriminate.
      * apply (no_def_named m ds n ti t W Ht Hn). rewrite Hk. reflexivity.
      * unfold name_state. simpl. split; [intros _; apply Hsnoc; left; exact Hex | reflexivity].
    + inversion H; subst m'. simpl. apply WF_retab; auto; try discriminate.
      * apply (no_def_named m ds n ti t W Ht Hn). rewrite Hk. reflexivity.
      * unfold name_state. simpl. split; [intros _; apply Hsnoc; left; exact Hex | reflexivity].
    + inversion H; subst m'. simpl. apply WF_retab; auto; try discriminate.
      * apply (no_def_named m ds n ti t W Ht Hn). rewrite Hk. reflexivity.
      * unfold name_state. simpl. split; [intros _; apply Hsnoc; left; exact Hex | reflexivity].
  - (* table item is a forward *)
    destruct k; try discriminate.
    + (* export replaces forward in the table *)
      simpl in H. inversion H; subst m'. apply WF_retab; auto; try discriminate.
      * apply (no_def_named m ds n ti t W Ht Hn). rewrite Hk. reflexivity.
      * unfold name_state. simpl. split.
        -- intros k' Hk'. apply Hsnoc in Hk'. destruct Hk' as [X|X]; [right; apply Hst; exact X | left; exact X].
        -- apply Hsnoc. right. reflexivity.
    + simpl in H. inversion H; subst m'.
      apply (WF_same m ds KForward n ti t W Ht Hn); [|reflexivity].
      unfold name_state. rewrite Hk. intros k' Hk'. apply Hsnoc in Hk'. destruct Hk'; auto.
    + inversion H; subst m'. simpl. apply WF_retab; auto; try discriminate.
      * apply (no_def_named m ds n ti t W Ht Hn). rewrite Hk. reflexivity.
      * unfold name_state. simpl. split; [discriminate|].
        intro Hx. apply Hsnoc in Hx. destruct Hx as [X|X]; [apply Hst in X; discriminate | discriminate].
    + inversion H; subst m'. simpl. apply WF_retab; auto; try discriminate.
      * apply (no_def_named m ds n ti t W Ht Hn). rewrite Hk. reflexivity.
      * unfold name_state. simpl. split; [discriminate|].
        intro Hx. apply Hsnoc in Hx. destruct Hx as [X|X]; [apply Hst in X; discriminate | discriminate].
    + inversion H; subst m'. simpl. apply WF_retab; auto; try discriminate.
      * apply (no_def_named m ds n ti t W Ht Hn). rewrite Hk. reflexivity.
      * unfold name_state. simpl. split; [discriminate|].
        intro Hx. apply Hsnoc in Hx. destruct Hx as [X|X]; [apply Hst in X; discriminate | discriminate].
  - (* table item is a function *)
    destruct k; try discriminate.
    + destruct (iexp t) eqn:He.
      * inversion H; subst m'. apply (WF_same m ds KExport n ti t W Ht Hn); [|reflexivity].
        unfold name_state. rewrite Hk, He. split; [intros _; apply Hsnoc; right; reflexivity | reflexivity].
      * inversion H; subst m'. apply (WF_set_exp m ds n ti t W Ht Hn). rewrite Hk. reflexivity.
    + inversion H; subst m'. apply (WF_append m ds KForward n ti t W Ht Hn); [|reflexivity].
      unfold name_state. rewrite Hk. rewrite Hst. rewrite Hsnoc. split; [auto | intros [X|X]; [exact X | discriminate]].
  - (* table item is data *)
    destruct k; try discriminate.
    + destruct (iexp t) eqn:He.
      * inversion H; subst m'. apply (WF_same m ds KExport n ti t W Ht Hn); [|reflexivity].
        unfold name_state. rewrite Hk, He. split; [intros _; apply Hsnoc; right; reflexivity | reflexivity].
      * inversion H; subst m'. apply (WF_set_exp m ds n ti t W Ht Hn). rewrite Hk. reflexivity.
    + inversion H; subst m'. apply (WF_append m ds KForward n ti t W Ht Hn); [|reflexivity].
      unfold name_state. rewrite Hk. rewrite Hst. rewrite Hsnoc. split; [auto | intros [X|X]; [exact X | discriminate]].
  - (* table item is a proto: everything is rejected *)
    discriminate.
Qed.

Lemma build_from_WF ds : forall m pre m',
  WF m pre -> build_from m ds = inl m' -> WF m' (pre ++ ds).
Proof.
  induction ds as [|[k n] ds IH]; intros m pre m' W H; simpl in H.
  - inversion H; subst. rewrite app_nil_r. exact W.
  - destruct (add_item m k n) as [m1|e] eqn:Ha; [|discriminate].
    change (pre ++ (k, n) :: ds) with (pre ++ [(k, n)] ++ ds). rewrite app_assoc.
    apply (IH m1 _ m' (add_item_WF m pre k n m1 W Ha) H).
Qed.

(* A built module contains the declared definitions once each, in declaration order; a definition
   carries the export flag exactly when the module declares `export` of its name (anywhere, before
   or after the definition); nothing else carries the flag. *)
Lemma build_exports_spec_proof : forall ds m, build ds = inl m ->
  map kn (filter (fun it => is_def (ik it)) (mitems m)) = filter is_def_decl ds /\
  (forall it, In it (mitems m) -> is_def (ik it) = true ->
              (iexp it = true <-> In (KExport, iname it) ds)) /\
  (forall it, In it (mitems m) -> is_def (ik it) = false -> iexp it = false).
Proof.
  intros ds m H. pose proof (build_from_WF ds empty_mod [] m WF_empty H) as W. simpl in W.
  split; [exact (wf_order m ds W)|]. split; [|exact (wf_nondef m ds W)].
  intros it Hin Hd. destruct (In_nth_error _ _ Hin) as [i Hi].
  pose proof (wf_def m ds W i it Hi Hd) as Ht.
  destruct (wf_tab m ds W (iname it) i Ht) as (t & A & B & C). rewrite Hi in A. inversion A; subst t.
  unfold name_state in C. destruct (ik it); try discriminate; exact C.
Qed.

(* what Load publishes, in terms of the declarations: the names of the exported definitions *)
Lemma exported_from_names id items : forall i,
  map fst (exported_from id items i) = map iname (filter iexp items).
Proof.
  induction items as [|it rest IH]; intro i; simpl; [reflexivity|].
  destruct (iexp it); simpl; rewrite IH; reflexivity.
Qed.

Definition declared_exp (ds : list decl) (n : name) : bool :=
  existsb (fun d => ikind_eqb (fst d) KExport && Nat.eqb (snd d) n) ds.

Lemma declared_exp_In ds n : declared_exp ds n = true <-> In (KExport, n) ds.
Proof.
  unfold declared_exp. rewrite existsb_exists. split.
  - intros ([k m] & Hin & Hc). simpl in Hc. apply andb_true_iff in Hc. destruct Hc as [H1 H2].
    apply ikind_eqb_eq in H1. apply Nat.eqb_eq in H2. subst. exact Hin.
  - intro Hin. exists (KExport, n). split; [exact Hin|]. simpl. rewrite Nat.eqb_refl. reflexivity.
Qed.

Lemma filter_map_kn (p : decl -> bool) l :
  map kn (filter (fun it => p (kn it)) l) = filter p (map kn l).
Proof.
  induction l as [|x l IH]; simpl; [reflexivity|].
  destruct (p (kn x)); simpl; rewrite IH; reflexivity.
Qed.

Lemma filter_filter_and {A} (p q : A -> bool) l :
  filter p (filter q l) = filter (fun x => p x && q x) l.
Proof.
  induction l as [|x l IH]; simpl; [reflexivity|].
  destruct (q x); simpl; [destruct (p x); simpl; rewrite IH; reflexivity|].
  rewrite andb_false_r. exact IH.
Qed.

(* the names a successful Load publishes, in order: the declared definitions whose name the module
   declares exported *)
Lemma load_publishes_declared_proof : forall ds m id, build ds = inl m ->
  map fst (exported id m)
  = map snd (filter (fun d => declared_exp ds (snd d)) (filter is_def_decl ds)).
Proof.
  intros ds m id H. destruct (build_exports_spec_proof ds m H) as (H1 & H2 & H3).
  unfold exported. rewrite exported_from_names.
  assert (E : filter iexp (mitems m)
              = filter (fun it => (fun d => declared_exp ds (snd d)) (kn it))
                       (filter (fun it => is_def (ik it)) (mitems m))).
  { rewrite filter_filter_and. apply filter_ext_in. intros it Hin. simpl.
    destruct (is_def (ik it)) eqn:Hd.
    - rewrite andb_true_r. destruct (iexp it) eqn:He.
      + symmetry. apply declared_exp_In. apply H2; auto.
      + symmetry. apply not_true_is_false. intro Hx. apply declared_exp_In in Hx.
        apply H2 in Hx; auto. rewrite He in Hx. discriminate.
    - rewrite andb_false_r. apply H3; auto. }
  rewrite E. rewrite <- H1. rewrite <- filter_map_kn. rewrite map_map. reflexivity.
Qed.

(* ------------------------------------------------------------ imports of a built module *)

Definition memb (n : name) (l : list name) : bool := existsb (Nat.eqb n) l.

(* first occurrences, in order *)
Definition nodup_first (l : list name) : list name :=
  fold_left (fun acc n => if memb n acc then acc else acc ++ [n]) l [].

Definition import_names (ds : list decl) : list name :=
  map snd (filter (fun d => ikind_eqb (fst d) KImport) ds).

Lemma nodup_first_snoc l n :
  nodup_first (l ++ [n]) = if memb n (nodup_first l) then nodup_first l else nodup_first l ++ [n].
Proof. unfold nodup_first. rewrite fold_left_app. reflexivity. Qed.

Lemma memb_In n l : memb n l = true <-> In n l.
Proof.
  unfold memb. rewrite existsb_exists. split.
  - intros (x & Hx & He). apply Nat.eqb_eq in He. subst. exact Hx.
  - intro H. exists n. split; [exact H | apply Nat.eqb_refl].
Qed.

Lemma memb_nodup_first l : forall n, memb n (nodup_first l) = true <-> In n l.
Proof.
  induction l as [|x l IH] using rev_ind; intro n.
  - simpl. split; [discriminate | intros []].
  - rewrite nodup_first_snoc, in_snoc. destruct (memb x (nodup_first l)) eqn:Hx.
    + rewrite IH. split; [auto|]. intros [H|H]; [exact H|]. subst. apply IH. exact Hx.
    + rewrite memb_In, in_snoc, <- memb_In, IH. tauto.
Qed.

Lemma import_names_snoc ds k n :
  import_names (ds ++ [(k, n)]) = import_names ds ++ (if ikind_eqb k KImport then [n] else []).
Proof.
  unfold import_names. rewrite filter_app, map_app. simpl. destruct (ikind_eqb k KImport); reflexivity.
Qed.

Lemma imports_of_append m it :
  imports_of (append_item m it) = imports_of m ++ (if ikind_eqb (ik it) KImport then [iname it] else []).
Proof.
  unfold imports_of. simpl. rewrite filter_app, map_app. simpl.
  destruct (ikind_eqb (ik it) KImport); reflexivity.
Qed.

Lemma imports_of_set_exp m i : imports_of (set_exp m i) = imports_of m.
Proof.
  unfold imports_of. simpl. generalize (mitems m). intro l. revert i.
  induction l as [|x l IH]; intros [|i]; simpl; auto.
  - destruct (ikind_eqb (ik x) KImport); reflexivity.
  - destruct (ikind_eqb (ik x) KImport); simpl; rewrite IH; reflexivity.
Qed.

Definition IMP (m : modl) (ds : list decl) : Prop :=
  imports_of m = nodup_first (import_names ds) /\
  (forall n ti, tab_find m n = Some ti -> exists k, In (k, n) ds).

Lemma IMP_empty : IMP empty_mod [].
Proof. split; [reflexivity | intros n ti H; discriminate]. Qed.

(* the shapes an add_item result can have, as far as imports and the table's domain go *)
Lemma IMP_step m ds k n m' (keep : bool) :
  IMP m ds ->
  (forall n', tab_find m' n' <> None -> tab_find m n' <> None \/ n' = n) ->
  imports_of m' = imports_of m ++ (if keep then [] else [n]) ->
  (keep = true -> ikind_eqb k KImport = false \/ In n (import_names ds)) ->
  (keep = false -> ikind_eqb k KImport = true /\ ~ In n (import_names ds)) ->
  IMP m' (ds ++ [(k, n)]).
Proof.
  intros [I1 I2] Htab Himp Hk Hd. split.
  - rewrite Himp, import_names_snoc, I1. destruct keep.
    + rewrite app_nil_r. destruct (Hk eq_refl) as [H|H].
      * rewrite H, app_nil_r. reflexivity.
      * destruct (ikind_eqb k KImport); [|rewrite app_nil_r; reflexivity].
        rewrite nodup_first_snoc. apply memb_nodup_first in H. rewrite H. reflexivity.
    + destruct (Hd eq_refl) as [H1 H2]. rewrite H1, nodup_first_snoc.
      destruct (memb n (nodup_first (import_names ds))) eqn:Hm; [|reflexivity].
      apply memb_nodup_first in Hm. contradiction.
  - intros n' ti H. destruct (Htab n' ltac:(rewrite H; discriminate)) as [Hn|Hn].
    + destruct (tab_find m n') as [tj|] eqn:Ht; [|contradiction].
      destruct (I2 n' tj Ht) as [k' Hk']. exists k'. apply in_snoc. left. exact Hk'.
    + subst n'. exists k. apply in_snoc. right. reflexivity.
Qed.

Lemma imports_of_retab m n i : imports_of (retab m n i) = imports_of m.
Proof. reflexivity. Qed.

Lemma In_import_names ds n : In (KImport, n) ds -> In n (import_names ds).
Proof.
  intro H. unfold import_names. apply in_map_iff. exists (KImport, n). split; [reflexivity|].
  apply filter_In. split; [exact H | reflexivity].
Qed.

Lemma import_names_In ds n : In n (import_names ds) -> In (KImport, n) ds.
Proof.
  unfold import_names. rewrite in_map_iff. intros ([k m] & Hs & Hf). simpl in Hs. subst m.
  apply filter_In in Hf. destruct Hf as [Hin Hk]. simpl in Hk. apply ikind_eqb_eq in Hk. subst. exact Hin.
Qed.

Ltac solve_tab n :=
  let n' := fresh "n'" in let Hn' := fresh "Hn'" in
  intros n' Hn'; simpl in Hn';
  repeat rewrite ?tab_find_retab, ?tab_find_append, ?tab_find_set_exp in Hn';
  first [ left; exact Hn'
        | destruct (Nat.eqb_spec n n'); [right; congruence | left; exact Hn'] ].

Ltac solve_imports :=
  repeat rewrite ?imports_of_retab, ?imports_of_append, ?imports_of_set_exp; simpl;
  rewrite ?app_nil_r; reflexivity.

Ltac imp_keep n :=
  eapply (IMP_step _ _ _ _ _ true);
  [ eassumption | solve_tab n | solve_imports | intros _; left; reflexivity | discriminate ].

Lemma add_item_IMP m ds k n m' :
  WF m ds -> IMP m ds -> add_item m k n = inl m' -> IMP m' (ds ++ [(k, n)]).
Proof.
  intros W I H. unfold add_item in H.
  destruct (tab_find m n) as [ti|] eqn:Ht.
  2:{ inversion H; subst m'. destruct k.
      - (* a new import *)
        eapply (IMP_step _ _ _ _ _ false); [exact I | solve_tab n | solve_imports | discriminate |].
        intros _. split; [reflexivity|]. intro Hin. apply import_names_In in Hin.
        exact (wf_none m ds W n Ht KImport Hin).
      - imp_keep n.
      - imp_keep n.
      - imp_keep n.
      - imp_keep n.
      - imp_keep n. }
  destruct (nth_error (mitems m) ti) as [t|] eqn:Hn; [|discriminate].
  destruct (wf_tab m ds W n ti Ht) as (t0 & A0 & Hname & Hst). rewrite Hn in A0. inversion A0; subst t0.
  unfold name_state in Hst.
  destruct (ik t) eqn:Hk.
  - destruct k; try discriminate. inversion H; subst m'.
    eapply (IMP_step _ _ _ _ _ true); [exact I | solve_tab n | solve_imports | | discriminate].
    intros _. right. destruct I as [_ I2]. destruct (I2 n ti Ht) as [k' Hk'].
    pose proof (Hst k' Hk'). subst k'. apply In_import_names. exact Hk'.
  - destruct k; try discriminate; simpl in H; inversion H; subst m'; imp_keep n.
  - destruct k; try discriminate; simpl in H; inversion H; subst m'; imp_keep n.
  - destruct k; try discriminate.
    + destruct (iexp t); inversion H; subst m'; imp_keep n.
    + inversion H; subst m'; imp_keep n.
  - destruct k; try discriminate.
    + destruct (iexp t); inversion H; subst m'; imp_keep n.
    + inversion H; subst m'; imp_keep n.
  - discriminate.
Qed.

Lemma build_from_IMP ds : forall m pre m',
  WF m pre -> IMP m pre -> build_from m ds = inl m' -> IMP m' (pre ++ ds).
Proof.
  induction ds as [|[k n] ds IH]; intros m pre m' W I H; simpl in H.
  - inversion H; subst. rewrite app_nil_r. exact I.
  - destruct (add_item m k n) as [m1|e] eqn:Ha; [|discriminate].
    change (pre ++ (k, n) :: ds) with (pre ++ [(k, n)] ++ ds). rewrite app_assoc.
    apply (IH m1 _ m' (add_item_WF m pre k n m1 W Ha) (add_item_IMP m pre k n m1 W I Ha) H).
Qed.

(* the imports of a built module: the names declared `import`, once each, in order of first
   declaration *)
Lemma build_imports_spec_proof : forall ds m, build ds = inl m ->
  imports_of m = nodup_first (import_names ds).
Proof.
  intros ds m H. destruct (build_from_IMP ds empty_mod [] m WF_empty IMP_empty H) as [I _]. exact I.
Qed.


(* ------------------------------------------------------------ export / forward items resolve locally *)

(* what MIR_link stores in an export or forward item of a built module (item_tab_find in the
   module's own table): the module's definition of that name - whatever the declaration order -
   and NULL when the module only declares the name *)
Lemma local_ref_spec_proof : forall ds m id, build ds = inl m ->
  (forall i t, nth_error (mitems m) i = Some t -> is_def (ik t) = true ->
               local_ref id m (iname t) = Some (DMod id i (ik t))) /\
  (forall n, (forall k, In (k, n) ds -> is_def k = false) -> local_ref id m n = None).
Proof.
  intros ds m id H. pose proof (build_from_WF ds empty_mod [] m WF_empty H) as W. simpl in W.
  split.
  - intros i t Hi Hd. unfold local_ref. rewrite (wf_def m ds W i t Hi Hd), Hi, Hd. reflexivity.
  - intros n Hn. unfold local_ref. destruct (tab_find m n) as [ti|] eqn:Ht; [|reflexivity].
    destruct (wf_tab m ds W n ti Ht) as (t & A & B & C). rewrite A.
    destruct (is_def (ik t)) eqn:Hd; [|reflexivity]. exfalso.
    assert (Hin : In (kn t) (filter is_def_decl ds)).
    { rewrite <- (wf_order m ds W). apply in_map. apply filter_In. split; [|exact Hd].
      eapply nth_error_In; exact A. }
    apply filter_In in Hin. destruct Hin as [Hin _]. unfold kn in Hin. rewrite B in Hin.
    specialize (Hn _ Hin). rewrite Hd in Hn. discriminate.
Qed.

(* C13: proofs about the model in Link.v *)
From Coq Require Import List Arith Bool Lia.
Import ListNotations.
From MirV Require Import C13.Link.

Lemma placeholder : True. Proof. exact I. Qed.
